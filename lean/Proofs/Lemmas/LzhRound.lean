import MsPack.Spec.LzhEncode
import MsPack.Kwaj.Lzh
import MsPack.Lzss.Decoder
import Proofs.Lemmas.LzssKwajBounds
import Proofs.Lemmas.Lzss
/-!
# KWAJ LZH round trip, lemmas

What each piece of the LZH decoder model (`MsPack/Kwaj/Lzh.lean`) does on a file-backed source when
the unread input starts with the coding the specification writer (`MsPack/Spec/LzhEncode.lean`)
produces.

The unread *real* input of a state is seen as one bit stream (`View st bs`): the bit buffer without
the made-up zero bits `lzh_read_input` appends after the end of the file, then the bits of the
buffered bytes and of the rest of the file.  Every reading primitive is described as a function of
that stream, wherever the buffer refills and the end of the file fall: it delivers the next field
if the stream still has all its bits, and makes the enclosing function return `MSPACK_ERR_OK`
(without touching the output) if it had to use made-up bits.

`Runs x st Q R`: from `st`, `x` either returns normally with `Q`, or leaves through a `return e`
with `R e`; it takes no fault.
-/
namespace MsPack.Kwaj.Lzh
open MsPack MsPack.Generated MsPack.LzhEnc
open MsPack.Lzss (Ring)

variable {α β : Type}

/-! ## the calculus -/

def Runs (x : LM Rd α) (st : St Rd) (Q : α → St Rd → Prop) (R : Err → St Rd → Prop) : Prop :=
  match x.run.run st with
  | (.ok a, s) => Q a s
  | (.error (.ret e), s) => R e s
  | (.error (.fault _), _) => False

theorem Runs.pure {a : α} {st : St Rd} {Q : α → St Rd → Prop} {R : Err → St Rd → Prop} (h : Q a st) :
    Runs (pure a : LM Rd α) st Q R := h

theorem Runs.throw_ret {e : Err} {st : St Rd} {Q : α → St Rd → Prop} {R : Err → St Rd → Prop} (h : R e st) :
    Runs (throw (.ret e) : LM Rd α) st Q R := h

theorem Runs.bind {x : LM Rd α} {f : α → LM Rd β} {st : St Rd} {Q : α → St Rd → Prop} {R : Err → St Rd → Prop}
    {Q' : β → St Rd → Prop} {R' : Err → St Rd → Prop} (hx : Runs x st Q R)
    (hf : ∀ a s, Q a s → Runs (f a) s Q' R') (hr : ∀ e s, R e s → R' e s) : Runs (x >>= f) st Q' R' := by
  unfold Runs at *
  rw [run_bind]
  rcases h : x.run.run st with ⟨r, s⟩
  rw [h] at hx
  cases r with
  | ok a => exact hf a s hx
  | error e =>
    cases e with
    | ret e => exact hr e s hx
    | fault f => exact hx

theorem Runs.get_bind {f : St Rd → LM Rd β} {st : St Rd} {Q : β → St Rd → Prop} {R : Err → St Rd → Prop}
    (hf : Runs (f st) st Q R) : Runs (get >>= f) st Q R := by
  unfold Runs at *
  rw [run_bind, run_get]; exact hf

theorem Runs.set_bind {f : PUnit → LM Rd β} {s st : St Rd} {Q : β → St Rd → Prop} {R : Err → St Rd → Prop}
    (hf : Runs (f ⟨⟩) s Q R) : Runs (set s >>= f) st Q R := by
  unfold Runs at *
  rw [run_bind, run_set]; exact hf

theorem Runs.modify_bind {f : PUnit → LM Rd β} {g : St Rd → St Rd} {st : St Rd} {Q : β → St Rd → Prop}
    {R : Err → St Rd → Prop} (hf : Runs (f ⟨⟩) (g st) Q R) : Runs (modify g >>= f) st Q R := by
  unfold Runs at *
  rw [run_bind, run_modify]; exact hf

theorem Runs.set {s st : St Rd} {Q : PUnit → St Rd → Prop} {R : Err → St Rd → Prop} (h : Q ⟨⟩ s) :
    Runs (set s : LM Rd PUnit) st Q R := h

theorem Runs.modify {g : St Rd → St Rd} {st : St Rd} {Q : PUnit → St Rd → Prop} {R : Err → St Rd → Prop}
    (h : Q ⟨⟩ (g st)) : Runs (modify g : LM Rd PUnit) st Q R := h

theorem Runs.mono {x : LM Rd α} {st : St Rd} {Q Q' : α → St Rd → Prop} {R R' : Err → St Rd → Prop}
    (hx : Runs x st Q R) (hq : ∀ a s, Q a s → Q' a s) (hr : ∀ e s, R e s → R' e s) : Runs x st Q' R' := by
  unfold Runs at *
  rcases h : x.run.run st with ⟨r, s⟩
  rw [h] at hx
  cases r with
  | ok a => exact hq a s hx
  | error e =>
    cases e with
    | ret e => exact hr e s hx
    | fault f => exact hx

/-! ## bit strings, most significant bit first -/

def bytesBitsMSB (bs : Bytes) : List Bool := bs.flatMap byteBitsMSB

theorem byteBitsMSB_eq (b : UInt8) : byteBitsMSB b = msbBits 8 b.toNat := rfl

theorem msbBits_length (n v : Nat) : (msbBits n v).length = n := by simp [msbBits]

theorem byteBitsMSB_length_R (b : UInt8) : (byteBitsMSB b).length = 8 := by
  rw [byteBitsMSB_eq, msbBits_length]

theorem bytesBitsMSB_cons (b : UInt8) (rest : Bytes) :
    bytesBitsMSB (b :: rest) = byteBitsMSB b ++ bytesBitsMSB rest := rfl

theorem bytesBitsMSB_append (a b : Bytes) : bytesBitsMSB (a ++ b) = bytesBitsMSB a ++ bytesBitsMSB b := by
  simp [bytesBitsMSB]

theorem bytesBitsMSB_length (a : Bytes) : (bytesBitsMSB a).length = 8 * a.length := by
  induction a with
  | nil => rfl
  | cons b rest ih =>
    rw [bytesBitsMSB_cons, List.length_append, byteBitsMSB_length_R, ih, List.length_cons]; omega

/-- the first bit is the top one -/
theorem msbBits_succ_head (n v : Nat) : msbBits (n + 1) v = v.testBit n :: msbBits n v := by
  simp only [msbBits, List.range_succ_eq_map, List.map_cons, List.map_map]
  rw [List.cons.injEq]
  refine ⟨by simp, ?_⟩
  apply List.map_congr_left
  intro i _
  simp only [Function.comp, Nat.succ_eq_add_one]
  congr 1
  omega

/-- the last bit is the low one -/
theorem msbBits_succ_last (n v : Nat) : msbBits (n + 1) v = msbBits n (v / 2) ++ [v.testBit 0] := by
  simp only [msbBits, List.range_succ, List.map_append, List.map_cons, List.map_nil]
  have e1 : v.testBit (n + 1 - 1 - n) = v.testBit 0 := by congr 1; omega
  rw [e1, List.append_cancel_right_eq]
  apply List.map_congr_left
  intro i hi
  have hi : i < n := List.mem_range.mp hi
  rw [← Nat.testBit_succ]
  congr 1
  omega

theorem bitsValMSB_snoc (l : List Bool) (b : Bool) :
    bitsValMSB (l ++ [b]) = bitsValMSB l * 2 + (if b then 1 else 0) := by
  simp [bitsValMSB, List.foldl_append]

/-- a field read back is the value written, in its width -/
theorem bitsValMSB_msbBits : ∀ (n v : Nat), bitsValMSB (msbBits n v) = v % 2 ^ n
  | 0, v => by simp [msbBits, bitsValMSB, Nat.mod_one]
  | n + 1, v => by
    rw [msbBits_succ_last, bitsValMSB_snoc, bitsValMSB_msbBits n, Nat.pow_succ, Nat.mul_comm (2 ^ n) 2, Nat.mod_mul,
      Nat.testBit_zero]
    by_cases h : v % 2 = 1 <;> simp [h] <;> omega

theorem valMSB_lt : ∀ (c : List Bool), valMSB c < 2 ^ c.length
  | [] => by simp [valMSB]
  | b :: c => by
    have := valMSB_lt c
    simp only [valMSB, List.length_cons, Nat.pow_succ]
    cases b <;> simp <;> omega

theorem msbBits_low (n a w : Nat) (hw : w < 2 ^ n) : msbBits n (2 ^ n * a + w) = msbBits n w := by
  simp only [msbBits]
  apply List.map_congr_left
  intro i hi
  have hi : i < n := List.mem_range.mp hi
  rw [Nat.testBit_two_pow_mul_add a hw, if_pos (by omega)]

/-- the bits of the value of a bit string are the string -/
theorem msbBits_valMSB : ∀ (c : List Bool), msbBits c.length (valMSB c) = c
  | [] => rfl
  | b :: c => by
    have hlt := valMSB_lt c
    rw [List.length_cons, msbBits_succ_head, valMSB]
    have h1 : ((if b = true then 1 else 0) * 2 ^ c.length + valMSB c).testBit c.length = b := by
      rw [Nat.mul_comm, Nat.testBit_two_pow_mul_add _ hlt, if_neg (Nat.lt_irrefl _), Nat.sub_self]
      cases b <;> simp
    rw [h1, Nat.mul_comm, msbBits_low _ _ _ hlt, msbBits_valMSB c]

theorem byteBitsMSB_ofNat_valMSB (c : List Bool) (hc : c.length = 8) : byteBitsMSB (UInt8.ofNat (valMSB c)) = c := by
  have hlt := valMSB_lt c
  rw [hc] at hlt
  rw [byteBitsMSB_eq, UInt8.toNat_ofNat', Nat.mod_eq_of_lt hlt, ← hc]
  exact msbBits_valMSB c

theorem packAux_bits : ∀ (fuel : Nat) (bs : List Bool), bs.length ≤ fuel →
    bytesBitsMSB (packAux fuel bs) = bs ++ List.replicate ((8 - bs.length % 8) % 8) false := by
  intro fuel
  induction fuel with
  | zero =>
    intro bs h
    have : bs = [] := List.eq_nil_of_length_eq_zero (by omega)
    subst this; rfl
  | succ fuel ih =>
    intro bs h
    rw [packAux]
    cases hbs : bs with
    | nil => rfl
    | cons x xs =>
      rw [← hbs]
      have hne : bs.isEmpty = false := by rw [hbs]; rfl
      rw [hne]
      simp only [Bool.false_eq_true, ↓reduceIte]
      have hpos : 0 < bs.length := by rw [hbs]; simp
      rw [bytesBitsMSB_cons, byteBitsMSB_ofNat_valMSB _ (by simp only [List.length_append, List.length_take, List.length_replicate]; omega),
        ih _ (by rw [List.length_drop]; omega)]
      rw [List.length_take, List.length_drop]
      by_cases h8 : 8 ≤ bs.length
      · rw [Nat.min_eq_left h8, Nat.sub_self, List.replicate_zero, List.append_nil, ← List.append_assoc,
          List.take_append_drop]
        congr 2
        omega
      · have hd : bs.drop 8 = [] := List.drop_eq_nil_of_le (by omega)
        have ht : bs.take 8 = bs := List.take_of_length_le (by omega)
        rw [hd, ht, Nat.min_eq_right (by omega), List.nil_append]
        have : (8 - (bs.length - 8) % 8) % 8 = 0 := by omega
        rw [this, List.replicate_zero, List.append_nil]
        congr 2
        omega

/-- the packed stream, read back most significant bit first, is the bit string and its zero padding -/
theorem packBits_bits (bs : List Bool) :
    bytesBitsMSB (packBits bs) = bs ++ List.replicate ((8 - bs.length % 8) % 8) false :=
  packAux_bits _ bs (Nat.le_refl _)

/-! ## the input side -/

/-- bytes in `inbuf` not yet moved to the bit buffer -/
def buffered (st : St Rd) : Bytes := (st.inbuf.toList.take st.cur.iEnd).drop st.cur.iPtr

/-- real bytes not yet in the bit buffer (none once the end of the file has been seen) -/
def pending (st : St Rd) : Bytes :=
  if st.inputEnd = 0 then buffered st ++ st.src.file.drop st.src.pos else []

/-- `bs` = the real bits the decoder has not consumed: the bit buffer is some of them followed by
    the `input_end` made-up zero bits, the rest is still in `inbuf` / the file -/
structure View (st : St Rd) (bs : List Bool) : Prop where
  inbuf : st.inbuf.size = 2048
  ptr   : st.cur.iPtr ≤ st.cur.iEnd
  iend  : st.cur.iEnd ≤ 2048
  bits  : ∃ real, st.cur.bits = real ++ List.replicate st.inputEnd false ∧ bs = real ++ bytesBitsMSB (pending st)
  fin   : st.inputEnd ≠ 0 → st.cur.iPtr = st.cur.iEnd ∧ bs.length < 16

/-- ring, output and code-length arrays are untouched -/
def Keep (st s : St Rd) : Prop :=
  s.window = st.window ∧ s.pos = st.pos ∧ s.out = st.out ∧ ∀ t, s.lens t = st.lens t

theorem Keep.refl (st : St Rd) : Keep st st := ⟨rfl, rfl, rfl, fun _ => rfl⟩
theorem Keep.trans {a b c : St Rd} (h1 : Keep a b) (h2 : Keep b c) : Keep a c :=
  ⟨h2.1.trans h1.1, h2.2.1.trans h1.2.1, h2.2.2.1.trans h1.2.2.1, fun t => (h2.2.2.2 t).trans (h1.2.2.2 t)⟩

theorem take_set_succ {α : Type} : ∀ (l : List α) (p : Nat) (b : α), p < l.length →
    (l.set p b).take (p + 1) = l.take p ++ [b]
  | [], _, _, h => by simp at h
  | x :: xs, 0, b, _ => by simp
  | x :: xs, p + 1, b, h => by
    simp only [List.set_cons_succ, List.take_succ_cons, List.cons_append, List.cons.injEq, true_and]
    exact take_set_succ xs p b (by simpa using h)

theorem blit_toList : ∀ (got : Bytes) (a : Array UInt8) (k : Nat), k + got.length ≤ a.size →
    (blit a k got).toList = a.toList.take k ++ got ++ a.toList.drop (k + got.length)
  | [], a, k, _ => by simp [blit]
  | b :: rest, a, k, h => by
    rw [List.length_cons] at h
    rw [blit, blit_toList rest _ (k + 1) (by rw [Array.size_setIfInBounds]; omega), Array.toList_setIfInBounds,
      take_set_succ _ _ _ (by rw [Array.length_toList]; omega), List.drop_set, if_pos (by omega), List.length_cons,
      show k + 1 + rest.length = k + (rest.length + 1) by omega]
    simp only [List.append_assoc, List.cons_append, List.nil_append]

/-- `inbuf` with the made-up byte: the first byte is 0 -/
def Fake (s : St Rd) (bs : List Bool) : Prop :=
  s.inputEnd ≠ 0 ∧ s.cur.iPtr = 0 ∧ s.cur.iEnd = 1 ∧ s.inbuf.size = 2048 ∧ s.inbuf.toList.take 1 = [0] ∧
  s.cur.bits ++ List.replicate 8 false = bs ++ List.replicate s.inputEnd false ∧ bs.length < 16

/-- the `i_ptr` / `i_end` that `READ_BYTES` copies back into its locals after `lzh_read_input` -/
def promote (s : St Rd) : St Rd := { s with cur := { s.cur with iPtr := s.saved.iPtr, iEnd := s.saved.iEnd } }

theorem buffered_empty (st : St Rd) (h : st.cur.iEnd ≤ st.cur.iPtr) : buffered st = [] := by
  unfold buffered
  apply List.drop_eq_nil_of_le
  rw [List.length_take]; omega

theorem readInput_spec_R (st : St Rd) (bs : List Bool) (hv : View st bs) (hp : st.cur.iEnd ≤ st.cur.iPtr)
    (hlt : st.cur.bits.length < 16) :
    Runs (readInput Rd.src) st (fun _ s => Keep st s ∧ s.cur.bits = st.cur.bits ∧
      ((View (promote s) bs ∧ s.inputEnd = 0 ∧ s.saved.iPtr < s.saved.iEnd) ∨ Fake (promote s) bs))
      (fun _ _ => False) := by
  obtain ⟨hin, hptr, hiend, ⟨real, hbits, hbs⟩, hfin⟩ := hv
  have hbuf := buffered_empty st hp
  unfold readInput
  apply Runs.get_bind
  by_cases hk : st.inputEnd = 0
  · rw [if_neg (by simp [hk])]
    have hpend : pending st = st.src.file.drop st.src.pos := by simp [pending, hk, hbuf]
    rw [hk, List.replicate_zero, List.append_nil] at hbits
    have hread : Rd.src.read st.src kwajINPUT_SIZE = .ok (some ((st.src.file.drop st.src.pos).take kwajINPUT_SIZE),
        ({ st.src with pos := st.src.pos + ((st.src.file.drop st.src.pos).take kwajINPUT_SIZE).length } : Rd)) := rfl
    rw [hread]
    generalize hchunk : (st.src.file.drop st.src.pos).take kwajINPUT_SIZE = chunk
    cases chunk with
    | nil =>
      have hrest : st.src.file.drop st.src.pos = [] := by
        cases hd : st.src.file.drop st.src.pos with
        | nil => rfl
        | cons x xs => rw [hd] at hchunk; simp [kwajINPUT_SIZE] at hchunk
      refine Runs.set ⟨⟨rfl, rfl, rfl, fun _ => rfl⟩, rfl, .inr ⟨?_, rfl, rfl, ?_, ?_, ?_, ?_⟩⟩
      · show (8 : Nat) ≠ 0; decide
      · show (st.inbuf.setIfInBounds 0 0).size = 2048
        rw [Array.size_setIfInBounds]; exact hin
      · show (st.inbuf.setIfInBounds 0 0).toList.take 1 = [0]
        rw [Array.toList_setIfInBounds]
        exact take_set_succ _ 0 _ (by rw [Array.length_toList, hin]; decide)
      · show st.cur.bits ++ List.replicate 8 false = bs ++ List.replicate 8 false
        rw [hbs, hpend, hrest, hbits]; simp [bytesBitsMSB]
      · rw [hbs, hpend, hrest, ← hbits]; simpa [bytesBitsMSB] using hlt
    | cons x xs =>
      have hlen : (x :: xs).length ≤ 2048 := by rw [← hchunk, List.length_take]; exact Nat.min_le_left _ _
      dsimp only
      rw [if_neg (by rw [hin]; omega)]
      refine Runs.set ⟨⟨rfl, rfl, rfl, fun _ => rfl⟩, rfl, .inl ⟨⟨?_, ?_, hlen, ⟨real, ?_, ?_⟩, ?_⟩, hk, ?_⟩⟩
      · show (blit st.inbuf 0 (x :: xs)).size = 2048
        rw [blit_size]; exact hin
      · show 0 ≤ (x :: xs).length
        omega
      · show st.cur.bits = real ++ List.replicate st.inputEnd false
        rw [hk, List.replicate_zero, List.append_nil]; exact hbits
      · rw [hbs, hpend]
        congr 2
        show _ = pending (promote _)
        simp only [pending, promote, hk, ↓reduceIte, buffered]
        rw [blit_toList _ _ _ (by rw [hin]; omega), List.take_zero, List.nil_append, Nat.zero_add,
          List.take_left' rfl, List.drop_zero, ← List.drop_drop, ← hchunk, List.length_take]
        have := List.take_append_drop kwajINPUT_SIZE (st.src.file.drop st.src.pos)
        by_cases h2 : kwajINPUT_SIZE ≤ (st.src.file.drop st.src.pos).length
        · rw [Nat.min_eq_left h2]; exact this.symm
        · have h3 : (st.src.file.drop st.src.pos).length ≤ kwajINPUT_SIZE := by omega
          rw [Nat.min_eq_right h3, List.take_of_length_le h3, List.drop_of_length_le (Nat.le_refl _), List.append_nil]
      · intro h; exact absurd hk h
      · show 0 < (x :: xs).length
        simp
  · rw [if_pos hk]
    obtain ⟨hpe, hl16⟩ := hfin hk
    have hpend : pending st = [] := by simp [pending, hk]
    rw [hpend] at hbs
    refine Runs.set ⟨⟨rfl, rfl, rfl, fun _ => rfl⟩, rfl, .inr ⟨?_, rfl, rfl, ?_, ?_, ?_, hl16⟩⟩
    · show st.inputEnd + 8 ≠ 0; omega
    · show (st.inbuf.setIfInBounds 0 0).size = 2048
      rw [Array.size_setIfInBounds]; exact hin
    · show (st.inbuf.setIfInBounds 0 0).toList.take 1 = [0]
      rw [Array.toList_setIfInBounds]
      exact take_set_succ _ 0 _ (by rw [Array.length_toList, hin]; decide)
    · show st.cur.bits ++ List.replicate 8 false = bs ++ List.replicate (st.inputEnd + 8) false
      rw [hbits, hbs, ← List.replicate_append_replicate]; simp [bytesBitsMSB]

theorem buffered_cons (st : St Rd) (hin : st.inbuf.size = 2048) (hp : st.cur.iPtr < st.cur.iEnd) (he : st.cur.iEnd ≤ 2048) :
    ∃ h : st.cur.iPtr < st.inbuf.size, buffered st = st.inbuf[st.cur.iPtr] ::
      buffered { st with cur := { st.cur with iPtr := st.cur.iPtr + 1, bits := st.cur.bits ++ byteBitsMSB st.inbuf[st.cur.iPtr] } } := by
  refine ⟨by omega, ?_⟩
  unfold buffered
  have hl : st.cur.iPtr < (st.inbuf.toList.take st.cur.iEnd).length := by
    rw [List.length_take, Array.length_toList, hin]; omega
  rw [List.drop_eq_getElem_cons hl, List.getElem_take, Array.getElem_toList]

/-- the `*i_ptr++` / `INJECT_BITS` half of `READ_BYTES` -/
theorem takeByte_spec (st0 s1 : St Rd) (bs : List Bool) (hk : Keep st0 s1)
    (h : (View s1 bs ∧ s1.inputEnd = 0 ∧ s1.cur.iPtr < s1.cur.iEnd) ∨ Fake s1 bs) :
    Runs (get >>= fun st : St Rd =>
        if h : st.cur.iPtr < st.inbuf.size then
          (set { st with cur := { st.cur with iPtr := st.cur.iPtr + 1,
                                              bits := st.cur.bits ++ byteBitsMSB st.inbuf[st.cur.iPtr] } } : LM Rd PUnit)
        else throw (.fault (.oob "lzh->inbuf (*i_ptr++)"))) s1
      (fun _ s => View s bs ∧ Keep st0 s ∧ s.cur.bits.length = s1.cur.bits.length + 8) (fun _ _ => False) := by
  apply Runs.get_bind
  rcases h with ⟨hv, hk0, hlt⟩ | ⟨hk0, hp0, he1, hin, hz, hb, hl16⟩
  · obtain ⟨hin, hptr, hiend, ⟨real, hbits, hbs⟩, hfin⟩ := hv
    obtain ⟨hlt', hbuf⟩ := buffered_cons s1 hin hlt hiend
    rw [dif_pos hlt']
    refine Runs.set ⟨⟨hin, ?_, hiend, ⟨real ++ byteBitsMSB s1.inbuf[s1.cur.iPtr], ?_, ?_⟩, ?_⟩, hk, ?_⟩
    · show s1.cur.iPtr + 1 ≤ s1.cur.iEnd
      omega
    · show s1.cur.bits ++ _ = _
      rw [hbits, hk0]; simp
    · rw [hbs]
      simp only [pending, hk0, ↓reduceIte]
      rw [hbuf]
      simp only [List.cons_append, bytesBitsMSB_cons, List.append_assoc]
      rfl
    · intro h; exact absurd hk0 h
    · show (s1.cur.bits ++ _).length = _
      rw [List.length_append, byteBitsMSB_length_R]
  · have hlt' : s1.cur.iPtr < s1.inbuf.size := by omega
    rw [dif_pos hlt']
    have hb0 : s1.inbuf[s1.cur.iPtr] = 0 := by
      have h1 : s1.inbuf[0]? = some 0 := by
        have := congrArg (fun l => l[0]?) hz
        simpa [List.getElem?_take] using this
      have h2 : s1.inbuf[0]'(by omega) = 0 := by
        rw [Array.getElem?_eq_getElem (by omega)] at h1
        exact Option.some.inj h1
      simp only [hp0]; exact h2
    rw [hb0]
    have hz8 : byteBitsMSB 0 = List.replicate 8 false := by decide
    refine Runs.set ⟨⟨hin, ?_, ?_, ⟨bs, ?_, ?_⟩, ?_⟩, hk, ?_⟩
    · show s1.cur.iPtr + 1 ≤ s1.cur.iEnd
      omega
    · show s1.cur.iEnd ≤ 2048
      omega
    · show s1.cur.bits ++ byteBitsMSB 0 = _
      rw [hz8]; exact hb
    · simp [pending, hk0, bytesBitsMSB]
    · intro _
      exact ⟨by show s1.cur.iPtr + 1 = s1.cur.iEnd; omega, hl16⟩
    · show (s1.cur.bits ++ _).length = _
      rw [List.length_append, byteBitsMSB_length_R]

/-- `READ_BYTES` (called with fewer than 16 bits in the buffer): eight more bits in the buffer, the
    real stream is what it was -/
theorem readBytes_spec (st : St Rd) (bs : List Bool) (hv : View st bs) (hlt : st.cur.bits.length < 16) :
    Runs (readBytes Rd.src) st
      (fun _ s => View s bs ∧ Keep st s ∧ s.cur.bits.length = st.cur.bits.length + 8) (fun _ _ => False) := by
  unfold readBytes
  apply Runs.get_bind
  apply Runs.get_bind
  simp only
  split
  · rename_i hge
    refine Runs.bind (readInput_spec_R st bs hv hge hlt) ?_ (fun _ _ h => h)
    intro _ s1 ⟨hk1, hb1, hcase⟩
    apply Runs.modify_bind
    have := takeByte_spec st (promote s1) bs hk1 hcase
    rw [← hb1]
    exact this
  · rename_i hlt2
    exact takeByte_spec st st bs (Keep.refl _) (.inl ⟨hv, (by
      by_cases hk : st.inputEnd = 0
      · exact hk
      · have := (hv.fin hk).1; omega), by omega⟩)

/-- `ENSURE_BITS(n)`, `n ≤ 16`: the buffer gets its `n` bits — real ones as long as there are any,
    made-up zeros after them — and the real stream is what it was -/
theorem ensureBits_spec (n : Nat) (hn : n ≤ 16) (bs : List Bool) : ∀ (fuel : Nat) (st : St Rd), View st bs →
    (n + 7 - st.cur.bits.length) / 8 + 1 ≤ fuel →
    Runs (ensureBits Rd.src n fuel) st (fun _ s => View s bs ∧ Keep st s ∧ n ≤ s.cur.bits.length) (fun _ _ => False) := by
  intro fuel
  induction fuel with
  | zero => intro st _ hf; omega
  | succ fuel ih =>
    intro st hv hf
    rw [ensureBits]
    apply Runs.get_bind
    split
    · rename_i hlt
      refine Runs.bind (readBytes_spec st bs hv (by omega)) ?_ (fun _ _ h => h)
      intro _ s ⟨hv1, hk1, hl1⟩
      refine (ih s hv1 (by rw [hl1]; omega)).mono ?_ (fun _ _ h => h)
      intro _ s' ⟨a, b, c⟩
      exact ⟨a, Keep.trans hk1 b, c⟩
    · rename_i hge
      exact Runs.pure ⟨hv, Keep.refl _, by omega⟩

/-- what is in the bit buffer is the start of the real stream continued with zeros -/
theorem View.take {s : St Rd} {bs : List Bool} (hv : View s bs) (n : Nat) (hn : n ≤ 16) (hl : n ≤ s.cur.bits.length) :
    s.cur.bits.take n = (bs ++ List.replicate 16 false).take n := by
  obtain ⟨_, _, _, ⟨real, hbits, hbs⟩, _⟩ := hv
  by_cases hk : s.inputEnd = 0
  · rw [hk, List.replicate_zero, List.append_nil] at hbits
    rw [hbits] at hl ⊢
    rw [hbs, List.append_assoc, List.take_append_of_le_length hl]
  · have hpend : pending s = [] := by simp [pending, hk]
    rw [hpend] at hbs
    have hbs' : bs = real := by rw [hbs]; simp [bytesBitsMSB]
    rw [hbits, List.length_append, List.length_replicate] at hl
    rw [hbits, hbs']
    simp only [List.take_append, List.take_replicate]
    congr 2
    omega

/-- `REMOVE_BITS(L)` and the test the `_SAFE` macros make after it -/
theorem View.dropBits {s : St Rd} {bs : List Bool} (hv : View s bs) (L : Nat) (hl : L ≤ s.cur.bits.length) :
    (L ≤ bs.length → View { s with cur := { s.cur with bits := s.cur.bits.drop L } } (bs.drop L) ∧
      ¬(s.inputEnd ≠ 0 ∧ (s.cur.bits.drop L).length < s.inputEnd)) ∧
    (bs.length < L → s.inputEnd ≠ 0 ∧ (s.cur.bits.drop L).length < s.inputEnd) := by
  obtain ⟨hin, hptr, hiend, ⟨real, hbits, hbs⟩, hfin⟩ := hv
  have hreal : L ≤ bs.length → L ≤ real.length := by
    intro h
    by_cases hk : s.inputEnd = 0
    · rw [hk, List.replicate_zero, List.append_nil] at hbits
      rw [← hbits]; exact hl
    · have hpend : pending s = [] := by simp [pending, hk]
      rw [hpend] at hbs
      have hbs' : bs = real := by rw [hbs]; simp [bytesBitsMSB]
      rw [← hbs']; exact h
  constructor
  · intro h
    have hr := hreal h
    refine ⟨⟨hin, hptr, hiend, ⟨real.drop L, ?_, ?_⟩, ?_⟩, ?_⟩
    · show s.cur.bits.drop L = _
      rw [hbits, List.drop_append_of_le_length hr]
    · rw [hbs, List.drop_append_of_le_length hr]; rfl
    · intro hk
      obtain ⟨a, b⟩ := hfin hk
      exact ⟨a, by rw [List.length_drop]; omega⟩
    · rw [hbits, List.drop_append_of_le_length hr, List.length_append, List.length_replicate]
      omega
  · intro h
    have hk : s.inputEnd ≠ 0 := by
      intro hk
      rw [hk, List.replicate_zero, List.append_nil] at hbits
      have : real.length ≤ bs.length := by rw [hbs, List.length_append]; omega
      rw [hbits] at hl; omega
    have hpend : pending s = [] := by simp [pending, hk]
    rw [hpend] at hbs
    have hbs' : bs = real := by rw [hbs]; simp [bytesBitsMSB]
    refine ⟨hk, ?_⟩
    rw [List.length_drop, hbits, List.length_append, List.length_replicate, ← hbs']
    rw [hbits, List.length_append, List.length_replicate, ← hbs'] at hl
    omega

theorem safeCheck_spec (st : St Rd) :
    Runs (safeCheck : LM Rd Unit) st
      (fun _ s => s = st ∧ ¬(st.inputEnd ≠ 0 ∧ st.cur.bits.length < st.inputEnd))
      (fun e s => e = .ok ∧ s = st ∧ (st.inputEnd ≠ 0 ∧ st.cur.bits.length < st.inputEnd)) := by
  unfold safeCheck
  apply Runs.get_bind
  split
  · rename_i h; exact Runs.throw_ret ⟨rfl, rfl, h⟩
  · rename_i h; exact Runs.pure ⟨rfl, h⟩

/-- the state after `REMOVE_BITS` -/
def dropped (s : St Rd) (L : Nat) : St Rd := { s with cur := { s.cur with bits := s.cur.bits.drop L } }

theorem dropped_keep (s : St Rd) (L : Nat) : Keep s (dropped s L) := ⟨rfl, rfl, rfl, fun _ => rfl⟩

/-- `REMOVE_BITS(L)` followed by the `_SAFE` test, on a buffer that holds the `L` bits -/
theorem removeCheck_spec {γ : Type} (st s : St Rd) (bs : List Bool) (hv : View s bs) (hk : Keep st s) (L : Nat)
    (hl : L ≤ s.cur.bits.length) (v : γ) :
    Runs (removeBits L >>= fun _ => safeCheck >>= fun _ => (Pure.pure v : LM Rd γ)) s
      (fun a s' => a = v ∧ L ≤ bs.length ∧ View s' (bs.drop L) ∧ Keep st s')
      (fun e s' => e = .ok ∧ bs.length < L ∧ Keep st s') := by
  obtain ⟨h1, h2⟩ := hv.dropBits L hl
  unfold removeBits
  apply Runs.modify_bind
  refine Runs.bind (safeCheck_spec _) ?_ ?_
  · intro _ s' ⟨hs, hno⟩
    subst hs
    by_cases hc : L ≤ bs.length
    · exact Runs.pure ⟨rfl, hc, (h1 hc).1, Keep.trans hk (dropped_keep s L)⟩
    · exact absurd (h2 (by omega)) hno
  · intro e s' ⟨he, hs, hyes⟩
    subst hs
    by_cases hc : L ≤ bs.length
    · exact absurd hyes (h1 hc).2
    · exact ⟨he, by omega, Keep.trans hk (dropped_keep s L)⟩

/-- `READ_BITS_SAFE(v, n)`: `code` = the next `n` bits of the real stream continued with zeros.  If the
    real stream has them all, they are delivered; if not, the enclosing function returns OK. -/
theorem readBitsSafe_spec (n : Nat) (hn : n ≤ 16) (st : St Rd) (bs : List Bool) (hv : View st bs)
    (code tail : List Bool) (hz : bs ++ List.replicate 16 false = code ++ tail) (hc : code.length = n) :
    Runs (readBitsSafe Rd.src n) st
      (fun v s => v = bitsValMSB code ∧ n ≤ bs.length ∧ View s (bs.drop n) ∧ Keep st s)
      (fun e s => e = .ok ∧ bs.length < n ∧ Keep st s) := by
  unfold readBitsSafe
  refine Runs.bind (ensureBits_spec n hn bs 4 st hv (by omega)) ?_ (fun _ _ h => h.elim)
  intro _ s ⟨hv1, hk1, hl1⟩
  apply Runs.get_bind
  have ht : s.cur.bits.take n = code := by
    rw [hv1.take n hn hl1, hz, List.take_left' hc]
  rw [ht]
  exact removeCheck_spec st s bs hv1 hk1 n hl1 _

/-- `READ_HUFFSYM_SAFE`: `code` = a code word of the table the real stream, continued with zeros,
    starts with -/
theorem readHuffSymSafe_spec (c : Huff.Canon) (st : St Rd) (bs : List Bool) (hv : View st bs)
    (code tail : List Bool) (sym : Nat) (hz : bs ++ List.replicate 16 false = code ++ tail) (hc : code.length ≤ 16)
    (hdec : ∀ t, Huff.decode c (code ++ t) = some (sym, code.length)) :
    Runs (readHuffSymSafe Rd.src c) st
      (fun v s => v = sym ∧ code.length ≤ bs.length ∧ View s (bs.drop code.length) ∧ Keep st s)
      (fun e s => e = .ok ∧ bs.length < code.length ∧ Keep st s) := by
  unfold readHuffSymSafe
  refine Runs.bind (ensureBits_spec 16 (Nat.le_refl _) bs 4 st hv (by omega)) ?_ (fun _ _ h => h.elim)
  intro _ s ⟨hv1, hk1, hl1⟩
  apply Runs.get_bind
  have hl : code.length ≤ s.cur.bits.length := Nat.le_trans hc hl1
  have ht : s.cur.bits.take code.length = code := by
    rw [hv1.take code.length hc hl, hz, List.take_left' rfl]
  have hd : Huff.decode c s.cur.bits = some (sym, code.length) := by
    rw [← List.take_append_drop code.length s.cur.bits, ht]; exact hdec _
  rw [hd]
  exact removeCheck_spec st s bs hv1 hk1 code.length hl _

/-- a field of the real stream itself (not of its zero continuation): it is delivered -/
theorem readBits_real (n : Nat) (hn : n ≤ 16) (st : St Rd) (code rest : List Bool) (hv : View st (code ++ rest))
    (hc : code.length = n) :
    Runs (readBitsSafe Rd.src n) st (fun v s => v = bitsValMSB code ∧ View s rest ∧ Keep st s) (fun _ _ => False) := by
  refine (readBitsSafe_spec n hn st _ hv code (rest ++ List.replicate 16 false) (List.append_assoc ..) hc).mono ?_ ?_
  · intro v s ⟨a, _, b, c⟩
    rw [List.drop_left' hc] at b
    exact ⟨a, b, c⟩
  · intro e s ⟨_, h, _⟩
    rw [List.length_append] at h; omega

theorem readSym_real (c : Huff.Canon) (st : St Rd) (code rest : List Bool) (sym : Nat) (hv : View st (code ++ rest))
    (hc : code.length ≤ 16) (hdec : ∀ t, Huff.decode c (code ++ t) = some (sym, code.length)) :
    Runs (readHuffSymSafe Rd.src c) st (fun v s => v = sym ∧ View s rest ∧ Keep st s) (fun _ _ => False) := by
  refine (readHuffSymSafe_spec c st _ hv code (rest ++ List.replicate 16 false) sym (List.append_assoc ..) hc hdec).mono ?_ ?_
  · intro v s ⟨a, _, b, c⟩
    rw [List.drop_left' rfl] at b
    exact ⟨a, b, c⟩
  · intro e s ⟨_, h, _⟩
    rw [List.length_append] at h; omega

/-! ## the output side -/

def ring (st : St Rd) : Ring := ⟨st.window, st.pos, st.out⟩

/-- the input side is untouched -/
def InKeep (st s : St Rd) : Prop :=
  s.cur = st.cur ∧ s.inbuf = st.inbuf ∧ s.inputEnd = st.inputEnd ∧ s.src = st.src

theorem InKeep.refl (st : St Rd) : InKeep st st := ⟨rfl, rfl, rfl, rfl⟩
theorem InKeep.trans {a b c : St Rd} (h1 : InKeep a b) (h2 : InKeep b c) : InKeep a c :=
  ⟨h2.1.trans h1.1, h2.2.1.trans h1.2.1, h2.2.2.1.trans h1.2.2.1, h2.2.2.2.trans h1.2.2.2⟩

theorem View.inKeep {st s : St Rd} {bs : List Bool} (hv : View st bs) (h : InKeep st s) : View s bs := by
  obtain ⟨a, b, c, d⟩ := h
  have hp : pending s = pending st := by simp only [pending, buffered, a, b, c, d]
  obtain ⟨h1, h2, h3, h4, h5⟩ := hv
  exact ⟨by rw [b]; exact h1, by rw [a]; exact h2, by rw [a]; exact h3, by rw [a, c, hp]; exact h4, by rw [a, c]; exact h5⟩

theorem ring_of_keep {st s : St Rd} (h : Keep st s) : ring s = ring st := by
  obtain ⟨a, b, c, _⟩ := h
  simp only [ring, a, b, c]

theorem emitByte_spec (b : UInt8) (st : St Rd) (hok : (ring st).ok) :
    Runs (emitByte b : LM Rd Unit) st (fun _ s => ring s = (ring st).emit b ∧ InKeep st s) (fun _ _ => False) := by
  obtain ⟨h1, h2⟩ := hok
  have hlt : st.pos < st.window.size := by
    show (ring st).pos < (ring st).window.size
    rw [h1]; exact h2
  unfold emitByte
  apply Runs.get_bind
  rw [dif_pos hlt]
  refine Runs.set ⟨?_, rfl, rfl, rfl, rfl⟩
  show (⟨st.window.set st.pos b hlt, (st.pos + 1) % 4096, st.out.push b⟩ : Ring) =
    ⟨st.window.setIfInBounds st.pos b, (st.pos + 1) % 4096, st.out.push b⟩
  rw [Array.setIfInBounds, dif_pos hlt]

theorem copyMatch_spec (offset : Nat) : ∀ (len : Nat) (st : St Rd), (ring st).ok →
    Runs (copyMatch offset len : LM Rd Unit) st (fun _ s => ring s = copyBack offset len (ring st) ∧ InKeep st s)
      (fun _ _ => False)
  | 0, st, _ => by rw [copyMatch]; exact Runs.pure ⟨rfl, InKeep.refl _⟩
  | len + 1, st, hok => by
    have hlt : (st.pos + 4096 - offset) % 4096 < st.window.size := by
      show _ < (ring st).window.size
      rw [hok.1]; exact Nat.mod_lt _ (by decide)
    rw [copyMatch]
    apply Runs.get_bind
    simp only
    rw [dif_pos hlt]
    refine Runs.bind (emitByte_spec _ st hok) ?_ (fun _ _ h => h)
    intro _ s ⟨hr, hi⟩
    have hok' : (ring s).ok := by rw [hr]; exact Lzss.Ring.emit_ok hok _
    refine (copyMatch_spec offset len s hok').mono ?_ (fun _ _ h => h)
    intro _ s' ⟨hr', hi'⟩
    refine ⟨?_, InKeep.trans hi hi'⟩
    rw [hr', hr, copyBack]
    congr 2
    show st.window[(st.pos + 4096 - offset) % 4096] = st.window.getD ((st.pos + 4096 - offset) % 4096) 0
    simp [Array.getD, hlt]

theorem copyBack_ok (offset : Nat) : ∀ (n : Nat) {r : Ring}, r.ok → (copyBack offset n r).ok
  | 0, _, h => h
  | n + 1, _, h => copyBack_ok offset n (Lzss.Ring.emit_ok h _)

theorem emitAll_ok : ∀ (bs : Bytes) {r : Ring}, r.ok → (emitAll r bs).ok
  | [], _, h => h
  | b :: bs, _, h => emitAll_ok bs (Lzss.Ring.emit_ok h b)

/-- the literals of a run: each is read with the LITERAL table and goes to the ring -/
theorem literalRun_spec (lit : Huff.Canon)
    (hlit : ∀ sym < 256, ∀ t, Huff.decode lit (flatCode 8 sym ++ t) = some (sym, (flatCode 8 sym).length)) :
    ∀ (lits : Bytes) (st : St Rd) (rest : List Bool),
    View st ((lits.flatMap fun b => flatCode 8 b.toNat) ++ rest) → (ring st).ok →
    Runs (literalRun Rd.src lit lits.length) st (fun _ s => View s rest ∧ ring s = emitAll (ring st) lits)
      (fun _ _ => False)
  | [], st, rest, hv, _ => by
    rw [List.length_nil, literalRun]
    exact Runs.pure ⟨by simpa using hv, rfl⟩
  | b :: lits, st, rest, hv, hok => by
    rw [List.length_cons, literalRun]
    rw [List.flatMap_cons, List.append_assoc] at hv
    refine Runs.bind (readSym_real lit st _ _ b.toNat hv (by rw [flatCode, msbBits_length]; decide) (hlit _ b.toNat_lt)) ?_
      (fun _ _ h => h)
    intro j s1 ⟨hj, hv1, hk1⟩
    subst hj
    rw [UInt8.ofNat_toNat]
    have hok1 : (ring s1).ok := by rw [ring_of_keep hk1]; exact hok
    refine Runs.bind (emitByte_spec b s1 hok1) ?_ (fun _ _ h => h)
    intro _ s2 ⟨hr2, hi2⟩
    have hok2 : (ring s2).ok := by rw [hr2]; exact Lzss.Ring.emit_ok hok1 _
    refine (literalRun_spec lit hlit lits s2 rest (hv1.inKeep hi2) hok2).mono ?_ (fun _ _ h => h)
    intro _ s3 ⟨hv3, hr3⟩
    refine ⟨hv3, ?_⟩
    rw [hr3, hr2, ring_of_keep hk1]; rfl

/-! ## the token loop -/

/-- the five decoding tables read the flat codes: symbol `sym` of a table of width `w` is the `w`-bit
    number `sym` -/
structure Codes (tr : Trees) : Prop where
  m1  : ∀ sym < 16, ∀ t, Huff.decode tr.matchlen1 (flatCode 4 sym ++ t) = some (sym, (flatCode 4 sym).length)
  m2  : ∀ sym < 16, ∀ t, Huff.decode tr.matchlen2 (flatCode 4 sym ++ t) = some (sym, (flatCode 4 sym).length)
  ll  : ∀ sym < 32, ∀ t, Huff.decode tr.litlen (flatCode 5 sym ++ t) = some (sym, (flatCode 5 sym).length)
  off : ∀ sym < 64, ∀ t, Huff.decode tr.offset (flatCode 6 sym ++ t) = some (sym, (flatCode 6 sym).length)
  lit : ∀ sym < 256, ∀ t, Huff.decode tr.literal (flatCode 8 sym ++ t) = some (sym, (flatCode 8 sym).length)

theorem flatCode_length (w sym : Nat) : (flatCode w sym).length = w := msbBits_length w sym

theorem flatCode_zero (w : Nat) : flatCode w 0 = List.replicate w false := by
  simp only [flatCode, msbBits, Nat.zero_testBit]
  rw [List.map_const', List.length_range]

/-- a token takes at least 16 bits -/
theorem Tok.bits_length_ge (t : Tok) (h : t.wf) : 16 ≤ t.bits.length := by
  cases t with
  | mat len offset => simp only [Tok.bits, List.length_append, flatCode_length, msbBits_length]; omega
  | lits bs =>
    cases bs with
    | nil => simp [Tok.wf] at h
    | cons b bs =>
      simp only [Tok.bits, List.length_append, flatCode_length, List.flatMap_cons]
      omega

/-- the first symbol of a token, read with the table in force -/
theorem readLen_spec (tr : Trees) (hc : Codes tr) (litRun : Bool) (st : St Rd) (bs : List Bool) (hv : View st bs)
    (sym : Nat) (hs : sym < 16) (tail : List Bool) (hz : bs ++ List.replicate 16 false = flatCode 4 sym ++ tail) :
    Runs (if litRun = true then readHuffSymSafe Rd.src tr.matchlen2 else readHuffSymSafe Rd.src tr.matchlen1) st
      (fun v s => v = sym ∧ 4 ≤ bs.length ∧ View s (bs.drop 4) ∧ Keep st s)
      (fun e s => e = .ok ∧ bs.length < 4 ∧ Keep st s) := by
  have hl : (flatCode 4 sym).length = 4 := flatCode_length 4 sym
  cases litRun with
  | true =>
    rw [if_pos rfl]
    have := readHuffSymSafe_spec tr.matchlen2 st bs hv _ tail sym hz (by rw [hl]; decide) (hc.m2 sym hs)
    rw [hl] at this; exact this
  | false =>
    rw [if_neg (by decide)]
    have := readHuffSymSafe_spec tr.matchlen1 st bs hv _ tail sym hz (by rw [hl]; decide) (hc.m1 sym hs)
    rw [hl] at this; exact this

theorem zeros_split (p a : Nat) (ha : a ≤ 16) :
    List.replicate p false ++ List.replicate 16 false = List.replicate a false ++ List.replicate (p + 16 - a) false := by
  rw [List.replicate_append_replicate, List.replicate_append_replicate]
  congr 1
  omega

theorem offset_join (offset : Nat) : (offset / 64) <<< 6 ||| offset % 64 = offset := by
  rw [← Nat.shiftLeft_add_eq_or_of_lt (Nat.mod_lt _ (by decide) : offset % 64 < 2 ^ 6), Nat.shiftLeft_eq]
  omega

/-- what the loop body does once the match length symbol is known -/
def afterLen (tr : Trees) (fuel len : Nat) : LM Rd Unit :=
  if len > 0 then do
    let j ← readHuffSymSafe Rd.src tr.offset
    let j2 ← readBitsSafe Rd.src 6
    copyMatch ((j <<< 6) ||| j2) (len + 2)
    mainLoop Rd.src tr fuel false
  else do
    let l ← readHuffSymSafe Rd.src tr.litlen
    literalRun Rd.src tr.literal (l + 1)
    mainLoop Rd.src tr fuel (decide (l + 1 ≠ 32))

/-- the loop body re-cut at the first symbol (the model's two branches share their continuation) -/
theorem mainLoop_succ (tr : Trees) (fuel : Nat) (litRun : Bool) :
    mainLoop Rd.src tr (fuel + 1) litRun = (get >>= fun st : St Rd =>
      if st.inputEnd ≠ 0 then pure () else
        (if litRun = true then readHuffSymSafe Rd.src tr.matchlen2 else readHuffSymSafe Rd.src tr.matchlen1) >>=
          afterLen tr fuel) := by
  rw [mainLoop]
  cases litRun <;> rfl

/-- **the token loop**: on a real stream that holds the coding of `toks` and then fewer than 8 zero
    bits, the loop ends with OK (by its own test or through a `_SAFE` return) having applied exactly
    the tokens to the ring -/
theorem mainLoop_spec (tr : Trees) (hc : Codes tr) : ∀ (toks : List Tok) (fuel : Nat) (st : St Rd) (litRun : Bool)
    (pad : Nat), toks.length + 1 ≤ fuel → (∀ t ∈ toks, t.wf) → pad < 8 →
    View st (toks.flatMap Tok.bits ++ List.replicate pad false) → (ring st).ok →
    Runs (mainLoop Rd.src tr fuel litRun) st (fun _ s => ring s = expand toks (ring st))
      (fun e s => e = .ok ∧ ring s = expand toks (ring st)) := by
  intro toks
  induction toks with
  | nil =>
    intro fuel st litRun pad hfuel _ hpad hv hok
    obtain ⟨fuel, rfl⟩ : ∃ f, fuel = f + 1 := ⟨fuel - 1, by simp at hfuel; omega⟩
    rw [List.flatMap_nil, List.nil_append] at hv
    rw [mainLoop_succ]
    apply Runs.get_bind
    split
    · exact Runs.pure rfl
    · refine Runs.bind (readLen_spec tr hc litRun st _ hv 0 (by decide) _
        (by rw [flatCode_zero]; exact zeros_split pad 4 (by decide))) ?_ ?_
      · intro len s1 ⟨hlen, h4, hv1, hk1⟩
        subst hlen
        unfold afterLen
        rw [if_neg (by decide)]
        rw [List.drop_replicate] at hv1
        refine Runs.bind (readHuffSymSafe_spec tr.litlen s1 _ hv1 _ _ 0
          (by rw [flatCode_zero]; exact zeros_split (pad - 4) 5 (by decide)) (by rw [flatCode_length]; decide)
          (hc.ll 0 (by decide))) ?_ ?_
        · intro _ s2 ⟨_, h5, _, _⟩
          rw [flatCode_length, List.length_replicate] at h5
          omega
        · intro e s2 ⟨he, _, hk2⟩
          exact ⟨he, by rw [ring_of_keep hk2, ring_of_keep hk1]; rfl⟩
      · intro e s1 ⟨he, _, hk1⟩
        exact ⟨he, by rw [ring_of_keep hk1]; rfl⟩
  | cons t ts ih =>
    intro fuel st litRun pad hfuel hwf hpad hv hok
    obtain ⟨fuel, rfl⟩ : ∃ f, fuel = f + 1 := ⟨fuel - 1, by simp at hfuel; omega⟩
    have hfuel' : ts.length + 1 ≤ fuel := by simpa using hfuel
    have hwt : t.wf := hwf t (List.mem_cons_self ..)
    have hwf' : ∀ t ∈ ts, t.wf := fun t' h => hwf t' (List.mem_cons_of_mem _ h)
    have h16 := Tok.bits_length_ge t hwt
    rw [List.flatMap_cons, List.append_assoc] at hv
    have hie : st.inputEnd = 0 := by
      by_cases hk : st.inputEnd = 0
      · exact hk
      · have := (hv.fin hk).2
        rw [List.length_append] at this; omega
    rw [mainLoop_succ]
    apply Runs.get_bind
    rw [if_neg (by simp [hie])]
    generalize hrest : ts.flatMap Tok.bits ++ List.replicate pad false = rest at hv
    cases t with
    | mat len offset =>
      obtain ⟨w1, w2, w3⟩ := hwt
      simp only [Tok.bits, List.append_assoc] at hv
      refine Runs.bind (readLen_spec tr hc litRun st _ hv (len - 2) (by omega) _ (List.append_assoc ..)) ?_ ?_
      · intro l s1 ⟨hl, _, hv1, hk1⟩
        subst hl
        rw [List.drop_left' (flatCode_length 4 _)] at hv1
        unfold afterLen
        rw [if_pos (by omega)]
        refine Runs.bind (readSym_real tr.offset s1 _ _ (offset / 64) hv1 (by rw [flatCode_length]; decide)
          (hc.off _ (by omega))) ?_ (fun _ _ h => h.elim)
        intro j s2 ⟨hj, hv2, hk2⟩
        subst hj
        refine Runs.bind (readBits_real 6 (by decide) s2 _ _ hv2 (msbBits_length 6 _)) ?_ (fun _ _ h => h.elim)
        intro j2 s3 ⟨hj2, hv3, hk3⟩
        rw [bitsValMSB_msbBits, Nat.mod_mod_of_dvd _ (by decide : 2 ^ 6 ∣ 64)] at hj2
        subst hj2
        have hk : Keep st s3 := Keep.trans (Keep.trans hk1 hk2) hk3
        have hok3 : (ring s3).ok := by rw [ring_of_keep hk]; exact hok
        rw [show (2 ^ 6 : Nat) = 64 from rfl, offset_join, Nat.sub_add_cancel (by omega)]
        refine Runs.bind (copyMatch_spec offset len s3 hok3) ?_ (fun _ _ h => h.elim)
        intro _ s4 ⟨hr4, hi4⟩
        have hok4 : (ring s4).ok := by rw [hr4]; exact copyBack_ok _ _ hok3
        refine (ih fuel s4 false pad hfuel' hwf' hpad (by rw [hrest]; exact hv3.inKeep hi4) hok4).mono ?_ ?_
        · intro _ s5 h5
          rw [h5, hr4, ring_of_keep hk]; rfl
        · intro e s5 ⟨he, h5⟩
          exact ⟨he, by rw [h5, hr4, ring_of_keep hk]; rfl⟩
      · intro e s1 ⟨_, hlt, _⟩
        simp only [List.length_append, flatCode_length] at hlt
        omega
    | lits bs =>
      obtain ⟨w1, w2⟩ := hwt
      simp only [Tok.bits, List.append_assoc] at hv
      refine Runs.bind (readLen_spec tr hc litRun st _ hv 0 (by decide) _ (List.append_assoc ..)) ?_ ?_
      · intro l s1 ⟨hl, _, hv1, hk1⟩
        subst hl
        rw [List.drop_left' (flatCode_length 4 _)] at hv1
        unfold afterLen
        rw [if_neg (by decide)]
        refine Runs.bind (readSym_real tr.litlen s1 _ _ (bs.length - 1) hv1 (by rw [flatCode_length]; decide)
          (hc.ll _ (by omega))) ?_ (fun _ _ h => h.elim)
        intro j s2 ⟨hj, hv2, hk2⟩
        subst hj
        have hk : Keep st s2 := Keep.trans hk1 hk2
        have hok2 : (ring s2).ok := by rw [ring_of_keep hk]; exact hok
        rw [Nat.sub_add_cancel w1]
        refine Runs.bind (literalRun_spec tr.literal hc.lit bs s2 _ hv2 hok2) ?_ (fun _ _ h => h.elim)
        intro _ s3 ⟨hv3, hr3⟩
        have hok3 : (ring s3).ok := by rw [hr3]; exact emitAll_ok _ hok2
        refine (ih fuel s3 _ pad hfuel' hwf' hpad (by rw [hrest]; exact hv3) hok3).mono ?_ ?_
        · intro _ s5 h5
          rw [h5, hr3, ring_of_keep hk]; rfl
        · intro e s5 ⟨he, h5⟩
          exact ⟨he, by rw [h5, hr3, ring_of_keep hk]; rfl⟩
      · intro e s1 ⟨_, hlt, _⟩
        simp only [List.length_append, flatCode_length] at hlt
        omega

/-! ## the flat tables -/

theorem go_mono (c : Huff.Canon) (tail : List Bool) (r : Nat × Nat) : ∀ (fuel l code : Nat) (p : List Bool),
    Huff.decode.go c l fuel code p = some r → Huff.decode.go c l fuel code (p ++ tail) = some r := by
  intro fuel
  induction fuel with
  | zero => intro l code p h; simp [Huff.decode.go] at h
  | succ fuel ih =>
    intro l code p h
    cases p with
    | nil => simp [Huff.decode.go] at h
    | cons b p =>
      rw [List.cons_append]
      unfold Huff.decode.go at h ⊢
      dsimp only at h ⊢
      generalize code * 2 + (if b = true then 1 else 0) = code' at h ⊢
      split
      · rename_i hc; rw [if_pos hc] at h; exact h
      · rename_i hc; rw [if_neg hc] at h; exact ih _ _ _ h

theorem decode_mono (c : Huff.Canon) (p tail : List Bool) (r : Nat × Nat) (h : Huff.decode c p = some r) :
    Huff.decode c (p ++ tail) = some r := go_mono c tail r _ _ _ _ h

/-- the length `lzh_read_lens` gives every symbol of a type 0 table -/
def flatWidth (t : Tbl) : Nat :=
  if t.syms = 16 then 4 else if t.syms = 32 then 5 else if t.syms = 64 then 6 else if t.syms = 256 then 8 else 0

theorem flat_build_some (t : Tbl) : (Huff.build kwajTABLEBITS (List.replicate t.syms (flatWidth t))).isSome = true := by
  cases t <;> decide +kernel

theorem flat_decode_tab16 : ∀ sym < 16, ((Huff.build kwajTABLEBITS (List.replicate 16 4)).bind fun c =>
    Huff.decode c (flatCode 4 sym)) = some (sym, 4) := by decide +kernel
theorem flat_decode_tab32 : ∀ sym < 32, ((Huff.build kwajTABLEBITS (List.replicate 32 5)).bind fun c =>
    Huff.decode c (flatCode 5 sym)) = some (sym, 5) := by decide +kernel
theorem flat_decode_tab64 : ∀ sym < 64, ((Huff.build kwajTABLEBITS (List.replicate 64 6)).bind fun c =>
    Huff.decode c (flatCode 6 sym)) = some (sym, 6) := by decide +kernel
theorem flat_decode_tab256 : ∀ sym < 256, ((Huff.build kwajTABLEBITS (List.replicate 256 8)).bind fun c =>
    Huff.decode c (flatCode 8 sym)) = some (sym, 8) := by decide +kernel

theorem flat_decode (n w : Nat) (c : Huff.Canon) (hb : Huff.build kwajTABLEBITS (List.replicate n w) = some c)
    (htab : ∀ sym < n, ((Huff.build kwajTABLEBITS (List.replicate n w)).bind fun c =>
      Huff.decode c (flatCode w sym)) = some (sym, w)) :
    ∀ sym < n, ∀ t, Huff.decode c (flatCode w sym ++ t) = some (sym, (flatCode w sym).length) := by
  intro sym hs t
  have := htab sym hs
  rw [hb] at this
  rw [flatCode_length]
  exact decode_mono _ _ _ _ this

/-- trees built from the five flat length vectors read the flat codes -/
theorem codes_flat (tr : Trees)
    (h1 : Huff.build kwajTABLEBITS (List.replicate Tbl.MATCHLEN1.syms (flatWidth .MATCHLEN1)) = some tr.matchlen1)
    (h2 : Huff.build kwajTABLEBITS (List.replicate Tbl.MATCHLEN2.syms (flatWidth .MATCHLEN2)) = some tr.matchlen2)
    (h3 : Huff.build kwajTABLEBITS (List.replicate Tbl.LITLEN.syms (flatWidth .LITLEN)) = some tr.litlen)
    (h4 : Huff.build kwajTABLEBITS (List.replicate Tbl.OFFSET.syms (flatWidth .OFFSET)) = some tr.offset)
    (h5 : Huff.build kwajTABLEBITS (List.replicate Tbl.LITERAL.syms (flatWidth .LITERAL)) = some tr.literal) : Codes tr :=
  ⟨flat_decode 16 4 _ h1 flat_decode_tab16, flat_decode 16 4 _ h2 flat_decode_tab16, flat_decode 32 5 _ h3 flat_decode_tab32,
   flat_decode 64 6 _ h4 flat_decode_tab64, flat_decode 256 8 _ h5 flat_decode_tab256⟩

/-! ## the header: type nibbles and the five tables -/

theorem Runs.tryCatch {x : LM Rd α} {h : Halt → LM Rd α} {st : St Rd} {Q : α → St Rd → Prop} {R : Err → St Rd → Prop}
    (hx : Runs x st Q (fun _ _ => False)) : Runs (tryCatch x h) st Q R := by
  unfold Runs at *
  rw [run_tryCatch]
  rcases hh : x.run.run st with ⟨r, s⟩
  rw [hh] at hx
  cases r with
  | ok a => exact hx
  | error e => cases e <;> exact hx.elim

/-- the six type nibbles of a flat stream: all zero -/
theorem readTypes_spec (rest : List Bool) : ∀ (k : Nat) (acc : List Nat) (st : St Rd),
    View st (List.replicate (4 * k) false ++ rest) →
    Runs (readTypes Rd.src k acc) st (fun ts s => ts = acc.reverse ++ List.replicate k 0 ∧ View s rest ∧ Keep st s)
      (fun _ _ => False)
  | 0, acc, st, hv => by
    rw [readTypes]
    exact Runs.pure ⟨by simp, by simpa using hv, Keep.refl _⟩
  | k + 1, acc, st, hv => by
    rw [readTypes]
    have hsplit : List.replicate (4 * (k + 1)) false ++ rest =
        List.replicate 4 false ++ (List.replicate (4 * k) false ++ rest) := by
      rw [← List.append_assoc, List.replicate_append_replicate]
      congr 2
      omega
    rw [hsplit] at hv
    refine Runs.bind (readBits_real 4 (by decide) st _ _ hv rfl) ?_ (fun _ _ h => h)
    intro v s1 ⟨hv0, hv1, hk1⟩
    have : v = 0 := by rw [hv0]; rfl
    subst this
    refine (readTypes_spec rest k (0 :: acc) s1 hv1).mono ?_ (fun _ _ h => h)
    intro ts s2 ⟨a, b, c⟩
    refine ⟨?_, b, Keep.trans hk1 c⟩
    rw [a, List.reverse_cons, List.append_assoc]
    rfl

theorem setLens_lens (st : St Rd) (t : Tbl) (a : Array UInt8) : (st.setLens t a).lens t = a := by
  cases t <;> rfl

theorem setLens_setLens (st : St Rd) (t : Tbl) (a b : Array UInt8) : (st.setLens t a).setLens t b = st.setLens t b := by
  cases t <;> rfl

theorem setLens_self (st : St Rd) (t : Tbl) : st.setLens t (st.lens t) = st := by
  cases t <;> rfl

/-- `for (i = 0; i < numsyms; i++) lens[i] = c` on the part `i .. i + k` -/
theorem lensFill_spec (t : Tbl) (c : Nat) : ∀ (k i : Nat) (st : St Rd), i + k ≤ (st.lens t).size →
    ∃ a : Array UInt8, a.size = (st.lens t).size ∧
      a.toList = (st.lens t).toList.take i ++ List.replicate k (UInt8.ofNat (c % 256)) ++ (st.lens t).toList.drop (i + k) ∧
      Runs (lensFill t c k i : LM Rd Unit) st (fun _ s => s = st.setLens t a) (fun _ _ => False)
  | 0, i, st, _ => by
    refine ⟨st.lens t, rfl, by simp, ?_⟩
    rw [lensFill]
    exact Runs.pure (setLens_self st t).symm
  | k + 1, i, st, h => by
    have hi : i < (st.lens t).size := by omega
    obtain ⟨a, hsz, hl, hr⟩ := lensFill_spec t c k (i + 1) (st.setLens t ((st.lens t).set i (UInt8.ofNat (c % 256)) hi))
      (by rw [setLens_lens, Array.size_set]; omega)
    rw [setLens_lens] at hsz hl
    refine ⟨a, by rw [hsz, Array.size_set], ?_, ?_⟩
    · rw [hl, Array.toList_set, take_set_succ _ _ _ (by rw [Array.length_toList]; exact hi), List.drop_set,
        if_pos (by omega), show i + 1 + k = i + (k + 1) by omega, List.replicate_succ]
      simp
    · rw [lensFill]
      unfold setLen
      refine Runs.bind (Q := fun _ s => s = st.setLens t ((st.lens t).set i (UInt8.ofNat (c % 256)) hi)) ?_ ?_
        (fun _ _ h => h)
      · apply Runs.get_bind
        simp only
        rw [dif_pos hi]
        exact Runs.set rfl
      · intro _ s hs
        subst hs
        rw [setLens_setLens] at hr
        exact hr

theorem setLens_fields (st : St Rd) (t : Tbl) (a : Array UInt8) :
    (st.setLens t a).cur = st.cur ∧ (st.setLens t a).saved = st.saved ∧ (st.setLens t a).inbuf = st.inbuf ∧
    (st.setLens t a).inputEnd = st.inputEnd ∧ (st.setLens t a).src = st.src ∧ (st.setLens t a).window = st.window ∧
    (st.setLens t a).pos = st.pos ∧ (st.setLens t a).out = st.out := by
  cases t <;> exact ⟨rfl, rfl, rfl, rfl, rfl, rfl, rfl, rfl⟩

theorem setLens_sizes (st : St Rd) (t : Tbl) (a : Array UInt8) (ha : a.size = t.syms)
    (h : ∀ t', (st.lens t').size = t'.syms) : ∀ t', ((st.setLens t a).lens t').size = t'.syms := by
  intro t'
  have := h t'
  cases t <;> cases t' <;> first | exact ha | exact this

theorem flatWidth_byte (t : Tbl) : (UInt8.ofNat (flatWidth t % 256)).toNat = flatWidth t := by
  cases t <;> rfl

/-- the sizes of the five code-length arrays -/
def Sizes (st : St Rd) : Prop := ∀ t, (st.lens t).size = t.syms

/-- `lzh_read_lens` for type 0: the array is filled with the fixed width, the input is not touched -/
theorem readLensBody_flat (t : Tbl) (st : St Rd) (hsz : Sizes st) :
    ∃ a : Array UInt8, a.size = t.syms ∧ a.toList.map (·.toNat) = List.replicate t.syms (flatWidth t) ∧
      Runs (readLensBody Rd.src t 0) st
        (fun _ s => s = { ({ st with cur := st.saved } : St Rd).setLens t a with saved := st.saved }) (fun _ _ => False) := by
  obtain ⟨a, h1, h2, h3⟩ := lensFill_spec t (flatWidth t) t.syms 0 ({ st with cur := st.saved } : St Rd)
    (by show 0 + t.syms ≤ (st.lens t).size; rw [hsz t]; omega)
  have hl : (({ st with cur := st.saved } : St Rd).lens t) = st.lens t := by cases t <;> rfl
  rw [hl] at h1 h2
  refine ⟨a, by rw [h1, hsz t], ?_, ?_⟩
  · rw [h2, List.take_zero, List.nil_append, Nat.zero_add, List.drop_of_length_le (by rw [Array.length_toList, hsz t]; omega),
      List.append_nil, List.map_replicate, flatWidth_byte]
  · unfold readLensBody restoreBits storeBits
    apply Runs.modify_bind
    simp only [↓reduceIte]
    refine Runs.bind h3 ?_ (fun _ _ h => h)
    intro _ s hs
    subst hs
    refine Runs.modify ?_
    congr 1
    exact (setLens_fields _ t a).1

theorem lens_with_cur (s : St Rd) (c : BitPos) (t : Tbl) : ({ s with cur := c } : St Rd).lens t = s.lens t := by
  cases t <;> rfl
theorem lens_with_saved (s : St Rd) (c : BitPos) (t : Tbl) : ({ s with saved := c } : St Rd).lens t = s.lens t := by
  cases t <;> rfl

/-- `BUILD_TREE(tbl, 0)`: the flat table; nothing is read -/
theorem buildTree_flat (t : Tbl) (st : St Rd) (bs : List Bool) (hv : View st bs) (hsz : Sizes st) :
    Runs (buildTree Rd.src t 0) st
      (fun c s => Huff.build kwajTABLEBITS (List.replicate t.syms (flatWidth t)) = some c ∧ View s bs ∧
        ring s = ring st ∧ Sizes s)
      (fun _ _ => False) := by
  have hsz0 : Sizes ({ st with saved := st.cur } : St Rd) := by
    intro t'
    cases t'
    · exact hsz .MATCHLEN1
    · exact hsz .MATCHLEN2
    · exact hsz .LITLEN
    · exact hsz .OFFSET
    · exact hsz .LITERAL
  obtain ⟨a, ha1, ha2, hr⟩ := readLensBody_flat t ({ st with saved := st.cur } : St Rd) hsz0
  obtain ⟨c, hc⟩ := Option.isSome_iff_exists.mp (flat_build_some t)
  unfold buildTree storeBits
  apply Runs.modify_bind
  unfold readLens
  refine Runs.bind (Q := fun e s' => e = Err.ok ∧
      s' = { ({ ({ st with saved := st.cur } : St Rd) with cur := st.cur } : St Rd).setLens t a with saved := st.cur })
    (Runs.tryCatch (Runs.bind hr (fun _ s hs => Runs.pure ⟨rfl, hs⟩) (fun _ _ h => h))) ?_ (fun _ _ h => h)
  intro e s ⟨he, hs⟩
  subst he
  simp only [ne_eq, not_true_eq_false, ↓reduceIte]
  clear hr
  have hf := setLens_fields ({ ({ st with saved := st.cur } : St Rd) with cur := st.cur } : St Rd) t a
  have hsaved : s.saved = st.cur := by rw [hs]
  have hinbuf : s.inbuf = st.inbuf := by rw [hs]; exact hf.2.2.1
  have hiend : s.inputEnd = st.inputEnd := by rw [hs]; exact hf.2.2.2.1
  have hsrc : s.src = st.src := by rw [hs]; exact hf.2.2.2.2.1
  have hwin : s.window = st.window := by rw [hs]; exact hf.2.2.2.2.2.1
  have hpos : s.pos = st.pos := by rw [hs]; exact hf.2.2.2.2.2.2.1
  have hout : s.out = st.out := by rw [hs]; exact hf.2.2.2.2.2.2.2
  have hlens : s.lens t = a := by rw [hs, lens_with_saved, setLens_lens]
  have hsizes : Sizes s := by
    intro t'
    rw [hs, lens_with_saved]
    exact setLens_sizes _ t a ha1 (by intro t''; rw [lens_with_cur]; exact hsz0 t'') t'
  clear hs hf
  unfold restoreBits
  apply Runs.modify_bind
  apply Runs.get_bind
  rw [lens_with_cur, hlens, ha2, hc]
  refine Runs.pure ⟨rfl, hv.inKeep ⟨hsaved, hinbuf, hiend, hsrc⟩, ?_, ?_⟩
  · show (⟨s.window, s.pos, s.out⟩ : Ring) = ⟨st.window, st.pos, st.out⟩
    rw [hwin, hpos, hout]
  · intro t'
    rw [lens_with_cur]; exact hsizes t'

/-! ## `lzh_decompress` -/

theorem sizes_of_keep {st s : St Rd} (h : Keep st s) (hsz : Sizes st) : Sizes s := by
  intro t; rw [h.2.2.2 t]; exact hsz t

/-- the whole of `lzh_decompress` on a source that holds `encodeLzh toks` (from its read position on):
    it ends with OK — normally or through a `_SAFE` return — and the ring, started as 4096 spaces at
    position 0, has had exactly the tokens applied -/
theorem decompressBody_spec (toks : List Tok) (hwf : ∀ t ∈ toks, t.wf) (fuel : Nat) (hfuel : toks.length + 1 ≤ fuel)
    (st : St Rd) (hin : st.inbuf.size = 2048) (hsz : Sizes st)
    (hsrc : st.src.file.drop st.src.pos = encodeLzh toks) :
    Runs (decompressBody Rd.src fuel) st
      (fun _ s => ring s = expand toks ⟨Array.replicate 4096 0x20, 0, st.out⟩)
      (fun e s => e = .ok ∧ ring s = expand toks ⟨Array.replicate 4096 0x20, 0, st.out⟩) := by
  unfold decompressBody restoreBits
  apply Runs.modify_bind
  apply Runs.modify_bind
  apply Runs.modify_bind
  generalize hs3 : ({ ({ ({ st with saved := {}, inputEnd := 0 } : St Rd) with cur := ({} : BitPos) } : St Rd) with
    window := Array.replicate lzssWINDOW_SIZE (UInt8.ofNat lzssWINDOW_FILL), pos := 0 } : St Rd) = s3
  have hring3 : ring s3 = ⟨Array.replicate 4096 0x20, 0, st.out⟩ := by rw [← hs3]; rfl
  have hok3 : (ring s3).ok := by rw [hring3]; exact ⟨by simp, by show 0 < 4096; decide⟩
  have hsz3 : Sizes s3 := by
    rw [← hs3]
    intro t
    cases t
    · exact hsz .MATCHLEN1
    · exact hsz .MATCHLEN2
    · exact hsz .LITLEN
    · exact hsz .OFFSET
    · exact hsz .LITERAL
  generalize hpad : (8 - (lzhBits toks).length % 8) % 8 = pad
  have hpadlt : pad < 8 := by omega
  have hv3 : View s3 (List.replicate (4 * 6) false ++ (toks.flatMap Tok.bits ++ List.replicate pad false)) := by
    rw [← hs3]
    refine ⟨hin, Nat.le_refl _, Nat.zero_le _, ⟨[], rfl, ?_⟩, fun h => absurd rfl h⟩
    have hp : pending ({ ({ ({ st with saved := {}, inputEnd := 0 } : St Rd) with cur := ({} : BitPos) } : St Rd) with
        window := Array.replicate lzssWINDOW_SIZE (UInt8.ofNat lzssWINDOW_FILL), pos := 0 } : St Rd) = encodeLzh toks := by
      simp only [pending, buffered, ↓reduceIte, List.take_zero, List.drop_zero, List.nil_append]
      exact hsrc
    rw [hp, List.nil_append, encodeLzh, packBits_bits, hpad, lzhBits, List.append_assoc]
  clear hs3
  refine Runs.bind (readTypes_spec _ 6 [] s3 hv3) ?_ (fun _ _ h => h.elim)
  intro types s4 ⟨hty, hv4, hk4⟩
  subst hty
  have hsz4 := sizes_of_keep hk4 hsz3
  refine Runs.bind (buildTree_flat .MATCHLEN1 s4 _ hv4 hsz4) ?_ (fun _ _ h => h.elim)
  intro m1 s5 ⟨hm1, hv5, hr5, hsz5⟩
  refine Runs.bind (buildTree_flat .MATCHLEN2 s5 _ hv5 hsz5) ?_ (fun _ _ h => h.elim)
  intro m2 s6 ⟨hm2, hv6, hr6, hsz6⟩
  refine Runs.bind (buildTree_flat .LITLEN s6 _ hv6 hsz6) ?_ (fun _ _ h => h.elim)
  intro ll s7 ⟨hll, hv7, hr7, hsz7⟩
  refine Runs.bind (buildTree_flat .OFFSET s7 _ hv7 hsz7) ?_ (fun _ _ h => h.elim)
  intro off s8 ⟨hoff, hv8, hr8, hsz8⟩
  refine Runs.bind (buildTree_flat .LITERAL s8 _ hv8 hsz8) ?_ (fun _ _ h => h.elim)
  intro li s9 ⟨hli, hv9, hr9, hsz9⟩
  have hr : ring s9 = ⟨Array.replicate 4096 0x20, 0, st.out⟩ := by
    rw [hr9, hr8, hr7, hr6, hr5, ring_of_keep hk4, hring3]
  have hc : Codes ⟨m1, m2, ll, off, li⟩ := codes_flat _ hm1 hm2 hll hoff hli
  have := mainLoop_spec _ hc toks fuel s9 false pad hfuel hwf hpadlt hv9 (by rw [hr9, hr8, hr7, hr6, hr5, ring_of_keep hk4]; exact hok3)
  rw [hr] at this
  exact this

/-- from the body to `lzh_decompress`'s return value -/
theorem decompress_of_runs (fuel : Nat) (st : St Rd) (P : St Rd → Prop)
    (h : Runs (decompressBody Rd.src fuel) st (fun _ s => P s) (fun e s => e = .ok ∧ P s)) :
    ∃ st', decompress Rd.src fuel st = .ok ⟨.ok, st'.out.toList, st'⟩ ∧ P st' := by
  unfold Runs at h
  unfold decompress
  rcases hr : (decompressBody Rd.src fuel).run.run st with ⟨r, s⟩
  rw [hr] at h
  cases r with
  | ok a => exact ⟨s, rfl, h⟩
  | error e =>
    cases e with
    | ret e =>
      obtain ⟨he, hp⟩ := h
      subst he
      exact ⟨s, rfl, hp⟩
    | fault f => exact h.elim

end MsPack.Kwaj.Lzh
