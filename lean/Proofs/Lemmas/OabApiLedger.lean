import Proofs.Lemmas.KwajApiLedger
import MsPack.Oab.Api
/-
Ledger effect of the OAB API functions (model `MsPack/Oab/Api.lean`): every path of `copy_fh`,
`lzxd_init`, `lzxd_free`, `lzxd_set_reference_data`, the two block loops, the two `out:` labels,
`oabd_decompress` and `oabd_decompress_incremental`, under any fault plan, for any file contents,
and for any LZX decoder body that satisfies the frame law.

oabd.c acquires and releases in stack order (input handle, [base handle,] output handle, `buf`,
then per LZX block the three blocks of the stream), so the ledger during a call is described by
`Plus v ex hs`: the view `v` from before the call with the blocks `ex` and the handles `hs` pushed
on top.
-/
namespace MsPack.Oab.Api
open MsPack MsPack.Sys MsPack.Oab
open MsPack.Szdd.Api (Frame ok_add_alloc ok_add_handle)
open MsPack.Kwaj.Api (FrameLaw)

/-- the ledger is as in `v` with the blocks `ex` and the handles `hs` on top (newest first); fresh
    ids may have been consumed -/
structure Plus (v : View) (ex : List Nat) (hs : List (Nat × Mode)) (w' : World) : Prop where
  allocs  : w'.view.allocs = ex ++ v.allocs
  handles : w'.view.handles = hs ++ v.handles
  misuse  : w'.view.misuse = v.misuse
  nextId  : v.nextId ≤ w'.view.nextId
  ok      : w'.view.ok

section kit
variable {v : View} {ex : List Nat} {hs : List (Nat × Mode)} {w : World}

theorem Plus.of_view_eq (hv : v.ok) (h : w.view = v) : Plus v [] [] w :=
  ⟨by rw [h]; rfl, by rw [h]; rfl, by rw [h], by rw [h]; exact Nat.le_refl _, by rw [h]; exact hv⟩

theorem Plus.frame (p : Plus v [] [] w) : Frame v w := ⟨p.allocs, p.handles, p.misuse, p.nextId⟩

/-- a step that leaves the view alone -/
theorem Plus.keep (p : Plus v ex hs w) {w' : World} (h : w'.view = w.view) : Plus v ex hs w' :=
  ⟨by rw [h]; exact p.allocs, by rw [h]; exact p.handles, by rw [h]; exact p.misuse,
   by rw [h]; exact p.nextId, by rw [h]; exact p.ok⟩

/-- a step that satisfies the frame law -/
theorem Plus.step (p : Plus v ex hs w) {w' : World} (f : Frame w.view w') : Plus v ex hs w' :=
  ⟨f.allocs.trans p.allocs, f.handles.trans p.handles, f.misuse.trans p.misuse,
   Nat.le_trans p.nextId f.nextId, f.ok p.ok⟩

theorem Plus.alloc_none (p : Plus v ex hs w) (h : (alloc w).1 = none) : Plus v ex hs (alloc w).2 := by
  rcases alloc_spec w with ⟨_, a2⟩ | ⟨a1, _⟩
  · exact p.keep a2
  · rw [a1] at h; cases h

theorem Plus.alloc_some (p : Plus v ex hs w) {a : Nat} (h : (alloc w).1 = some a) :
    Plus v (a :: ex) hs (alloc w).2 := by
  rcases alloc_spec w with ⟨a1, _⟩ | ⟨a1, a2⟩
  · rw [a1] at h; cases h
  · rw [a1] at h; cases h
    have h0 : w.view.nextId = w.nextId := rfl
    refine ⟨?_, ?_, ?_, ?_, ?_⟩
    · rw [a2]; dsimp only; rw [p.allocs]; rfl
    · rw [a2]; exact p.handles
    · rw [a2]; exact p.misuse
    · rw [a2]; have := p.nextId; dsimp only; omega
    · rw [a2]; exact ok_add_alloc p.ok

theorem Plus.free_none (p : Plus v ex hs w) : Plus v ex hs (free none w).2 := p.keep (free_none_view w)

/-- `sys->free` of the newest block -/
theorem Plus.free_top {a : Nat} (p : Plus v (a :: ex) hs w) : Plus v ex hs (free (some a) w).2 := by
  have hmem : a ∈ w.view.allocs := by rw [p.allocs]; simp
  have hf := free_live_view w a hmem
  refine ⟨?_, ?_, ?_, ?_, ?_⟩
  · rw [hf]; dsimp only; rw [p.allocs]; simp
  · rw [hf]; exact p.handles
  · rw [hf]; exact p.misuse
  · rw [hf]; exact p.nextId
  · rw [hf]
    exact ⟨fun x hx => p.ok.allocs_lt x (List.mem_of_mem_erase hx), p.ok.handles_lt, p.ok.handles_nd⟩

/-- `sys->free(p)` where `p` is NULL or the newest block -/
theorem Plus.free_opt {o : Option Nat} (p : Plus v (o.toList ++ ex) hs w) : Plus v ex hs (free o w).2 := by
  cases o with
  | none => exact p.free_none
  | some a => exact p.free_top

theorem Plus.open_none {name : String} {m : Mode} (p : Plus v ex hs w) (h : (open_ name m w).1 = none) :
    Plus v ex hs (open_ name m w).2 := by
  rcases open_spec name m w with ⟨_, o2⟩ | ⟨o1, _⟩
  · exact p.keep o2
  · rw [o1] at h; cases h

theorem Plus.open_some {name : String} {m : Mode} (p : Plus v ex hs w) {id : Nat}
    (h : (open_ name m w).1 = some id) : Plus v ex ((id, m) :: hs) (open_ name m w).2 := by
  rcases open_spec name m w with ⟨o1, _⟩ | ⟨o1, o2⟩
  · rw [o1] at h; cases h
  · rw [o1] at h; cases h
    have h0 : w.view.nextId = w.nextId := rfl
    refine ⟨?_, ?_, ?_, ?_, ?_⟩
    · rw [o2]; exact p.allocs
    · rw [o2]; dsimp only; rw [p.handles]; rfl
    · rw [o2]; exact p.misuse
    · rw [o2]; have := p.nextId; dsimp only; omega
    · rw [o2]; exact ok_add_handle p.ok m

/-- `sys->close` of the newest handle -/
theorem Plus.close_top {id : Nat} {m : Mode} (p : Plus v ex ((id, m) :: hs) w) :
    Plus v ex hs (close id w).2 := by
  have hmem : (id, m) ∈ w.view.handles := by rw [p.handles]; simp
  have hc := close_live_view w p.ok id m hmem
  have hnd := p.ok.handles_nd
  rw [p.handles] at hnd
  simp only [List.cons_append, List.map_cons, List.nodup_cons] at hnd
  have hfil : w.view.handles.filter (·.1 ≠ id) = hs ++ v.handles := by
    rw [p.handles]
    simp only [List.cons_append, List.filter_cons, ne_eq, not_true_eq_false, decide_false,
      Bool.false_eq_true, ↓reduceIte]
    apply List.filter_eq_self.mpr
    intro h hh
    have : h.1 ≠ id := fun e => hnd.1 (List.mem_map.mpr ⟨h, hh, e⟩)
    simpa using this
  refine ⟨?_, ?_, ?_, ?_, ?_⟩
  · rw [hc]; exact p.allocs
  · rw [hc]; exact hfil
  · rw [hc]; exact p.misuse
  · rw [hc]; exact p.nextId
  · rw [hc]
    refine ⟨p.ok.allocs_lt, fun h hh => p.ok.handles_lt h ((List.mem_filter.mp hh).1), ?_⟩
    dsimp only
    rw [hfil]
    exact hnd.2

theorem Plus.read (p : Plus v ex hs w) (fh n : Nat) (h : (fh, Mode.read) ∈ hs ++ v.handles) :
    Plus v ex hs (read fh n w).2 :=
  p.keep (read_live_view w p.ok fh n (by rw [p.handles]; exact h))

theorem Plus.write (p : Plus v ex hs w) (fh : Nat) (bs : Bytes) (h : (fh, Mode.write) ∈ hs ++ v.handles) :
    Plus v ex hs (write fh bs w).2 :=
  p.keep (write_live_view w p.ok fh bs (by rw [p.handles]; exact h))

end kit

/-! ## steps that preserve a predicate on worlds -/

/-- running `x` in a world that satisfies `P` leads to a world that satisfies `P` -/
def Pres (P : World → Prop) {α} (x : M α) : Prop := ∀ w : World, P w → P (x w).2

theorem Pres.pure {P : World → Prop} {α} (a : α) : Pres P (Pure.pure a : M α) := fun _ hw => hw

theorem Pres.bind {P : World → Prop} {α β} {x : M α} {f : α → M β} (hx : Pres P x) (hf : ∀ a, Pres P (f a)) :
    Pres P (x >>= f) := fun w hw => by
  rw [bind_apply]; exact hf _ _ (hx w hw)

theorem Pres.read {v : View} {ex : List Nat} {hs : List (Nat × Mode)} (fh n : Nat)
    (h : (fh, Mode.read) ∈ hs ++ v.handles) : Pres (Plus v ex hs) (read fh n) := fun _ p => p.read fh n h

theorem Pres.write {v : View} {ex : List Nat} {hs : List (Nat × Mode)} (fh : Nat) (bs : Bytes)
    (h : (fh, Mode.write) ∈ hs ++ v.handles) : Pres (Plus v ex hs) (write fh bs) := fun _ p => p.write fh bs h

/-- `copy_fh` only reads `infh` and writes `outfh` (if there is one) -/
theorem copyFh_pres {v : View} {ex : List Nat} {hs : List (Nat × Mode)} (inFh : Nat) (outFh : Option Nat)
    (bufSize : Nat) (hin : (inFh, Mode.read) ∈ hs ++ v.handles)
    (hout : ∀ o, outFh = some o → (o, Mode.write) ∈ hs ++ v.handles) :
    ∀ fuel todo, Pres (Plus v ex hs) (copyFh inFh outFh bufSize fuel todo) := by
  intro fuel
  induction fuel with
  | zero => intro todo; rw [copyFh.eq_1]; exact Pres.pure _
  | succ fuel ih =>
    intro todo
    rw [copyFh.eq_2]
    split
    · exact Pres.pure _
    · dsimp only
      generalize (if bufSize > todo then todo else bufSize) = run
      refine Pres.bind (Pres.read inFh _ hin) fun r => ?_
      cases r with
      | none => exact Pres.pure _
      | some got =>
        dsimp only
        split
        · exact Pres.pure _
        · cases outFh with
          | none => exact ih _
          | some o =>
            dsimp only
            refine Pres.bind (Pres.write o _ (hout o rfl)) fun r2 => ?_
            cases r2 with
            | none => exact Pres.pure _
            | some n => dsimp only; split; exact Pres.pure _; exact ih _

/-! ## the LZX stream: `lzxd_init`, `lzxd_free`, `lzxd_set_reference_data` -/

/-- the blocks of a live LZX stream, newest first -/
def lzxBlocks : Option Lzx → List Nat
  | none => []
  | some l => [l.inbuf, l.window, l.mem]

section
variable {v : View} {ex : List Nat} {hs : List (Nat × Mode)} {w : World}

/-- `lzxd_init`: NULL and nothing is held (whatever had been allocated was freed again), or a
    stream whose three blocks are on top of the ledger -/
theorem lzxdInit_spec (wb ibs : Nat) (p : Plus v ex hs w) :
    Plus v (lzxBlocks (lzxdInit wb ibs w).1 ++ ex) hs (lzxdInit wb ibs w).2 := by
  unfold lzxdInit
  split
  · rw [pure_apply]; exact p
  · rw [bind_apply]
    cases hs0 : (alloc w).1 with
    | none => dsimp only; rw [pure_apply]; exact p.alloc_none hs0
    | some s =>
      dsimp only
      have p1 := p.alloc_some hs0
      generalize (alloc w).2 = w1 at p1
      rw [bind_apply]
      cases hw0 : (alloc w1).1 with
      | none =>
        try dsimp only
        have p2 := p1.alloc_none hw0
        generalize (alloc w1).2 = w2 at p2
        rw [bind_apply]
        cases hb0 : (alloc w2).1 with
        | none =>
          try dsimp only
          have p3 := p2.alloc_none hb0
          generalize (alloc w2).2 = w3 at p3
          simp only [bind_apply, pure_apply]
          exact (p3.free_none.free_none).free_top
        | some b =>
          try dsimp only
          have p3 := p2.alloc_some hb0
          generalize (alloc w2).2 = w3 at p3
          simp only [bind_apply, pure_apply]
          exact (p3.free_none.free_top).free_top
      | some win =>
        try dsimp only
        have p2 := p1.alloc_some hw0
        generalize (alloc w1).2 = w2 at p2
        rw [bind_apply]
        cases hb0 : (alloc w2).1 with
        | none =>
          try dsimp only
          have p3 := p2.alloc_none hb0
          generalize (alloc w2).2 = w3 at p3
          simp only [bind_apply, pure_apply]
          exact (p3.free_top.free_none).free_top
        | some b =>
          try dsimp only
          have p3 := p2.alloc_some hb0
          generalize (alloc w2).2 = w3 at p3
          rw [pure_apply]
          exact p3

/-- `lzxd_free` releases exactly the three blocks -/
theorem lzxdFree_spec (l : Lzx) (p : Plus v (lzxBlocks (some l) ++ ex) hs w) : Plus v ex hs (lzxdFree l w).2 := by
  unfold lzxdFree
  simp only [bind_apply]
  exact (p.free_top.free_top).free_top

theorem lzxdFreeIf_spec (l : Option Lzx) (p : Plus v (lzxBlocks l ++ ex) hs w) : Plus v ex hs (lzxdFreeIf l w).2 := by
  cases l with
  | none => exact p
  | some l => exact lzxdFree_spec l p

theorem closeIf_spec (o : Option Nat) (m : Mode) (p : Plus v ex (o.toList.map (·, m) ++ hs) w) :
    Plus v ex hs (closeIf o w).2 := by
  cases o with
  | none => exact p
  | some fh => exact p.close_top

end

/-- `lzxd_set_reference_data` makes at most one read of the base file -/
theorem setReferenceData_pres {v : View} {ex : List Nat} {hs : List (Nat × Mode)} (wb baseFh length : Nat)
    (hb : (baseFh, Mode.read) ∈ hs ++ v.handles) : Pres (Plus v ex hs) (setReferenceData wb baseFh length) := by
  unfold setReferenceData
  split
  · exact Pres.pure _
  · split
    · exact Pres.pure _
    · refine Pres.bind (Pres.read baseFh _ hb) fun r => ?_
      cases r with
      | none => exact Pres.pure _
      | some bs => dsimp only; split <;> exact Pres.pure _

/-! ## the decoder body and the block loops -/

/-- the frame law for `lzxd_decompress` over `oabd_sys`: whatever it was set up with, run with a live
    input and a live output handle it leaves live blocks, live handles and the misuse record as they
    were (`oabd_sys_read` / `oabd_sys_write` call `read` on the first and `write` on the second) -/
def Lawful (body : Body) : Prop :=
  ∀ a : LzxArgs, FrameLaw fun inFh outFh => do let r ← body a inFh outFh; pure r.err

theorem Lawful.frame {body : Body} (h : Lawful body) (a : LzxArgs) (inFh outFh : Nat) (w : World) (hok : w.view.ok)
    (hin : (inFh, Mode.read) ∈ w.view.handles) (hout : (outFh, Mode.write) ∈ w.view.handles) :
    Frame w.view (body a inFh outFh w).2 := h a inFh outFh w hok hin hout

/-- what a round leaves: the blocks of the stream it reports as live, nothing else -/
def RoundPost (v : View) (ex : List Nat) (hs : List (Nat × Mode)) (w' : World) : Round → Prop
  | .done _ l => Plus v (lzxBlocks l ++ ex) hs w'
  | .next _ => Plus v ex hs w'
  | .hang => True

section
variable {v : View} {ex : List Nat} {hs : List (Nat × Mode)} {w : World}

theorem lzxTail_spec (body : Body) (hb : Lawful body) (a : LzxArgs) (l : Lzx) (inFh outFh bufSize blkCrc fuel next : Nat)
    (hin : (inFh, Mode.read) ∈ hs ++ v.handles) (hout : (outFh, Mode.write) ∈ hs ++ v.handles)
    (p : Plus v (lzxBlocks (some l) ++ ex) hs w) :
    RoundPost v ex hs (lzxTail body a l inFh outFh bufSize blkCrc fuel next w).2
      (lzxTail body a l inFh outFh bufSize blkCrc fuel next w).1 := by
  unfold lzxTail
  rw [bind_apply]
  have p1 := p.step (hb.frame a inFh outFh w p.ok (by rw [p.handles]; exact hin) (by rw [p.handles]; exact hout))
  generalize body a inFh outFh w = q1 at p1
  obtain ⟨r, w1⟩ := q1
  dsimp only at p1 ⊢
  split
  · rw [pure_apply]; exact p1
  · rw [bind_apply, bind_apply]
    have p2 := lzxdFree_spec l p1
    generalize lzxdFree l w1 = q2 at p2
    obtain ⟨_, w2⟩ := q2
    dsimp only at p2 ⊢
    have p3 := copyFh_pres inFh none bufSize hin (fun _ h => nomatch h) fuel r.available w2 p2
    generalize copyFh inFh none bufSize fuel r.available w2 = q3 at p3
    obtain ⟨r3, w3⟩ := q3
    dsimp only at p3 ⊢
    cases r3 with
    | none => dsimp only; rw [pure_apply]; exact True.intro
    | some e =>
      dsimp only
      split
      · rw [pure_apply]; exact p3
      · split <;> (rw [pure_apply]; exact p3)

theorem fullBlock_spec (body : Body) (hb : Lawful body) (inFh outFh bufSize fuel blockMax targetSize : Nat)
    (blkFlags blkCsize blkDsize blkCrc : Nat)
    (hin : (inFh, Mode.read) ∈ hs ++ v.handles) (hout : (outFh, Mode.write) ∈ hs ++ v.handles)
    (p : Plus v ex hs w) :
    RoundPost v ex hs (fullBlock body inFh outFh bufSize fuel blockMax targetSize blkFlags blkCsize blkDsize blkCrc w).2
      (fullBlock body inFh outFh bufSize fuel blockMax targetSize blkFlags blkCsize blkDsize blkCrc w).1 := by
  unfold fullBlock
  split
  · rw [pure_apply]; exact p
  · split
    · split
      · rw [pure_apply]; exact p
      · rw [bind_apply]
        have p1 := copyFh_pres inFh (some outFh) bufSize hin (fun o h => by cases h; exact hout) fuel blkDsize w p
        generalize copyFh inFh (some outFh) bufSize fuel blkDsize w = q1 at p1
        obtain ⟨r1, w1⟩ := q1
        dsimp only at p1 ⊢
        cases r1 with
        | none => dsimp only; rw [pure_apply]; exact True.intro
        | some e => dsimp only; split <;> (rw [pure_apply]; exact p1)
    · rw [bind_apply]
      have p1 := lzxdInit_spec (windowBits blkDsize) bufSize p
      generalize lzxdInit (windowBits blkDsize) bufSize w = q1 at p1
      obtain ⟨r1, w1⟩ := q1
      dsimp only at p1 ⊢
      cases r1 with
      | none => dsimp only; rw [pure_apply]; exact p1
      | some l => exact lzxTail_spec body hb _ l inFh outFh bufSize blkCrc fuel _ hin hout p1

theorem fullRound_spec (body : Body) (hb : Lawful body) (inFh outFh bufSize fuel blockMax targetSize : Nat)
    (hin : (inFh, Mode.read) ∈ hs ++ v.handles) (hout : (outFh, Mode.write) ∈ hs ++ v.handles)
    (p : Plus v ex hs w) :
    RoundPost v ex hs (fullRound body inFh outFh bufSize fuel blockMax targetSize w).2
      (fullRound body inFh outFh bufSize fuel blockMax targetSize w).1 := by
  unfold fullRound
  rw [bind_apply]
  have p1 := p.read inFh Generated.oabblkSIZEOF hin
  generalize read inFh Generated.oabblkSIZEOF w = q1 at p1
  obtain ⟨r1, w1⟩ := q1
  dsimp only at p1 ⊢
  cases r1 with
  | none => dsimp only; rw [pure_apply]; exact p1
  | some h =>
    dsimp only
    split
    · rw [pure_apply]; exact p1
    · exact fullBlock_spec body hb inFh outFh bufSize fuel blockMax targetSize _ _ _ _ hin hout p1

/-- what a block loop leaves on arrival at `out:` -/
def LoopPost (v : View) (ex : List Nat) (hs : List (Nat × Mode)) (w' : World) : Option (Err × Option Lzx) → Prop
  | none => True
  | some r => Plus v (lzxBlocks r.2 ++ ex) hs w'

end

theorem fullLoop_spec {v : View} {ex : List Nat} {hs : List (Nat × Mode)} (body : Body) (hb : Lawful body)
    (inFh outFh bufSize fuel blockMax : Nat)
    (hin : (inFh, Mode.read) ∈ hs ++ v.handles) (hout : (outFh, Mode.write) ∈ hs ++ v.handles) :
    ∀ (n targetSize : Nat) (w : World), Plus v ex hs w →
      LoopPost v ex hs (fullLoop body inFh outFh bufSize fuel blockMax n targetSize w).2
        (fullLoop body inFh outFh bufSize fuel blockMax n targetSize w).1 := by
  intro n
  induction n with
  | zero => intro t w _; rw [fullLoop.eq_1, pure_apply]; exact True.intro
  | succ n ih =>
    intro t w p
    rw [fullLoop.eq_2]
    split
    · rw [pure_apply]; exact p
    · rw [bind_apply]
      have p1 := fullRound_spec body hb inFh outFh bufSize fuel blockMax t hin hout p
      generalize fullRound body inFh outFh bufSize fuel blockMax t w = q1 at p1
      obtain ⟨r1, w1⟩ := q1
      dsimp only at p1 ⊢
      cases r1 with
      | done e l => dsimp only; rw [pure_apply]; exact p1
      | hang => dsimp only; rw [pure_apply]; exact True.intro
      | next t' => exact ih t' w1 p1

section
variable {v : View} {ex : List Nat} {hs : List (Nat × Mode)} {w : World}

theorem patchBlock_spec (body : Body) (hb : Lawful body) (inFh baseFh outFh bufSize lzxBuf fuel blockMax targetSize : Nat)
    (blkCsize blkDsize blkSsize blkCrc : Nat)
    (hin : (inFh, Mode.read) ∈ hs ++ v.handles) (hbase : (baseFh, Mode.read) ∈ hs ++ v.handles)
    (hout : (outFh, Mode.write) ∈ hs ++ v.handles) (p : Plus v ex hs w) :
    RoundPost v ex hs
      (patchBlock body inFh baseFh outFh bufSize lzxBuf fuel blockMax targetSize blkCsize blkDsize blkSsize blkCrc w).2
      (patchBlock body inFh baseFh outFh bufSize lzxBuf fuel blockMax targetSize blkCsize blkDsize blkSsize blkCrc w).1 := by
  unfold patchBlock
  split
  · rw [pure_apply]; exact p
  · dsimp only
    generalize windowBits (patchWindowSize blkSsize blkDsize) = wb
    rw [bind_apply]
    have p1 := lzxdInit_spec wb lzxBuf p
    generalize lzxdInit wb lzxBuf w = q1 at p1
    obtain ⟨r1, w1⟩ := q1
    dsimp only at p1 ⊢
    cases r1 with
    | none => dsimp only; rw [pure_apply]; exact p1
    | some l =>
      dsimp only
      rw [bind_apply]
      have p2 := setReferenceData_pres wb baseFh blkSsize hbase w1 p1
      generalize setReferenceData wb baseFh blkSsize w1 = q2 at p2
      obtain ⟨sr, w2⟩ := q2
      dsimp only at p2 ⊢
      split
      · rw [pure_apply]; exact p2
      · exact lzxTail_spec body hb _ l inFh outFh bufSize blkCrc fuel _ hin hout p2

theorem patchRound_spec (body : Body) (hb : Lawful body) (inFh baseFh outFh bufSize lzxBuf fuel blockMax targetSize : Nat)
    (hin : (inFh, Mode.read) ∈ hs ++ v.handles) (hbase : (baseFh, Mode.read) ∈ hs ++ v.handles)
    (hout : (outFh, Mode.write) ∈ hs ++ v.handles) (p : Plus v ex hs w) :
    RoundPost v ex hs (patchRound body inFh baseFh outFh bufSize lzxBuf fuel blockMax targetSize w).2
      (patchRound body inFh baseFh outFh bufSize lzxBuf fuel blockMax targetSize w).1 := by
  unfold patchRound
  rw [bind_apply]
  have p1 := p.read inFh Generated.patchblkSIZEOF hin
  generalize read inFh Generated.patchblkSIZEOF w = q1 at p1
  obtain ⟨r1, w1⟩ := q1
  dsimp only at p1 ⊢
  cases r1 with
  | none => dsimp only; rw [pure_apply]; exact p1
  | some h =>
    dsimp only
    split
    · rw [pure_apply]; exact p1
    · exact patchBlock_spec body hb inFh baseFh outFh bufSize lzxBuf fuel blockMax targetSize _ _ _ _ hin hbase hout p1

end

theorem patchLoop_spec {v : View} {ex : List Nat} {hs : List (Nat × Mode)} (body : Body) (hb : Lawful body)
    (inFh baseFh outFh bufSize lzxBuf fuel blockMax : Nat)
    (hin : (inFh, Mode.read) ∈ hs ++ v.handles) (hbase : (baseFh, Mode.read) ∈ hs ++ v.handles)
    (hout : (outFh, Mode.write) ∈ hs ++ v.handles) :
    ∀ (n targetSize : Nat) (w : World), Plus v ex hs w →
      LoopPost v ex hs (patchLoop body inFh baseFh outFh bufSize lzxBuf fuel blockMax n targetSize w).2
        (patchLoop body inFh baseFh outFh bufSize lzxBuf fuel blockMax n targetSize w).1 := by
  intro n
  induction n with
  | zero => intro t w _; rw [patchLoop.eq_1, pure_apply]; exact True.intro
  | succ n ih =>
    intro t w p
    rw [patchLoop.eq_2]
    split
    · rw [pure_apply]; exact p
    · rw [bind_apply]
      have p1 := patchRound_spec body hb inFh baseFh outFh bufSize lzxBuf fuel blockMax t hin hbase hout p
      generalize patchRound body inFh baseFh outFh bufSize lzxBuf fuel blockMax t w = q1 at p1
      obtain ⟨r1, w1⟩ := q1
      dsimp only at p1 ⊢
      cases r1 with
      | done e l => dsimp only; rw [pure_apply]; exact p1
      | hang => dsimp only; rw [pure_apply]; exact True.intro
      | next t' => exact ih t' w1 p1

/-! ## the `out:` labels and the two API functions -/

/-- `out:` gives back, newest first, the stream (if `lzx` is set), the handles that are set, and `buf` -/
theorem out_spec {v : View} {ex : List Nat} {hs : List (Nat × Mode)} {w : World}
    (l : Option Lzx) (outFh baseFh inFh buf : Option Nat)
    (p : Plus v (lzxBlocks l ++ (buf.toList ++ ex))
          (outFh.toList.map (·, Mode.write) ++ (baseFh.toList.map (·, Mode.read) ++ (inFh.toList.map (·, Mode.read) ++ hs))) w) :
    Plus v ex hs (out l outFh baseFh inFh buf w).2 := by
  unfold out
  simp only [bind_apply]
  exact (closeIf_spec inFh .read (closeIf_spec baseFh .read (closeIf_spec outFh .write (lzxdFreeIf_spec l p)))).free_opt

/-- the postcondition of an API call: if it returned, the ledger is as before the call -/
def RetPost {α} (v : View) (w' : World) : Option α → Prop
  | none => True
  | some _ => Plus v [] [] w'

theorem fullRun_spec {v : View} {w : World} (body : Body) (hb : Lawful body) (i : Inst) (inFh : Nat) (output : String)
    (fuel blockMax targetSize : Nat) (p : Plus v [] [(inFh, Mode.read)] w) :
    RetPost v (fullRun body i inFh output fuel blockMax targetSize w).2
      (fullRun body i inFh output fuel blockMax targetSize w).1 := by
  unfold fullRun
  rw [bind_apply]
  cases ho : (open_ output .write w).1 with
  | none =>
    dsimp only
    rw [bind_apply, pure_apply]
    exact out_spec none none none (some inFh) none (p.open_none ho)
  | some outFh =>
    dsimp only
    have p1 := p.open_some ho
    generalize (open_ output .write w).2 = w1 at p1
    rw [bind_apply]
    cases ha : (alloc w1).1 with
    | none =>
      dsimp only
      rw [bind_apply, pure_apply]
      exact out_spec none (some outFh) none (some inFh) none (p1.alloc_none ha)
    | some buf =>
      dsimp only
      have p2 := p1.alloc_some ha
      generalize (alloc w1).2 = w2 at p2
      rw [bind_apply]
      have p3 := fullLoop_spec body hb inFh outFh i.bufSize fuel blockMax (by simp) (by simp) fuel targetSize w2 p2
      generalize fullLoop body inFh outFh i.bufSize fuel blockMax fuel targetSize w2 = q3 at p3
      obtain ⟨r3, w3⟩ := q3
      dsimp only at p3 ⊢
      cases r3 with
      | none => dsimp only; rw [pure_apply]; exact True.intro
      | some r =>
        obtain ⟨e, l⟩ := r
        dsimp only
        rw [bind_apply, pure_apply]
        exact out_spec l (some outFh) none (some inFh) (some buf) p3

/-- `oabd_decompress`: whenever it returns, the ledger is as before the call -/
theorem decompress_spec (body : Body) (hb : Lawful body) (v : View) (hv : v.ok) (i : Inst) (input output : String)
    (fuel : Nat) (w : World) (hw : w.view = v) :
    RetPost v (decompress body i input output fuel w).2 (decompress body i input output fuel w).1 := by
  have p := Plus.of_view_eq hv hw
  unfold decompress
  rw [bind_apply]
  cases ho : (open_ input .read w).1 with
  | none =>
    dsimp only
    rw [bind_apply, pure_apply]
    exact out_spec none none none none none (p.open_none ho)
  | some inFh =>
    dsimp only
    have p1 := p.open_some ho
    generalize (open_ input .read w).2 = w1 at p1
    rw [bind_apply]
    have p2 := p1.read inFh Generated.oabheadSIZEOF (by simp)
    generalize read inFh Generated.oabheadSIZEOF w1 = q2 at p2
    obtain ⟨r2, w2⟩ := q2
    dsimp only at p2 ⊢
    cases r2 with
    | none =>
      dsimp only
      rw [bind_apply, pure_apply]
      exact out_spec none none none (some inFh) none p2
    | some hdr =>
      dsimp only
      split
      · rw [bind_apply, pure_apply]
        exact out_spec none none none (some inFh) none p2
      · split
        · rw [bind_apply, pure_apply]
          exact out_spec none none none (some inFh) none p2
        · exact fullRun_spec body hb i inFh output fuel _ _ p2

theorem patchRun_spec {v : View} {w : World} (body : Body) (hb : Lawful body) (i : Inst) (inFh : Nat) (base output : String)
    (lzxBuf fuel blockMax targetSize : Nat) (p : Plus v [] [(inFh, Mode.read)] w) :
    RetPost v (patchRun body i inFh base output lzxBuf fuel blockMax targetSize w).2
      (patchRun body i inFh base output lzxBuf fuel blockMax targetSize w).1 := by
  unfold patchRun
  generalize (if blockMax < Generated.patchblkSIZEOF then Generated.patchblkSIZEOF else blockMax) = bm
  rw [bind_apply]
  cases hb0 : (open_ base .read w).1 with
  | none =>
    dsimp only
    rw [bind_apply, pure_apply]
    exact out_spec none none none (some inFh) none (p.open_none hb0)
  | some baseFh =>
    dsimp only
    have p0 := p.open_some hb0
    generalize (open_ base .read w).2 = w0 at p0
    rw [bind_apply]
    cases ho : (open_ output .write w0).1 with
    | none =>
      dsimp only
      rw [bind_apply, pure_apply]
      exact out_spec none none (some baseFh) (some inFh) none (p0.open_none ho)
    | some outFh =>
      dsimp only
      have p1 := p0.open_some ho
      generalize (open_ output .write w0).2 = w1 at p1
      rw [bind_apply]
      cases ha : (alloc w1).1 with
      | none =>
        dsimp only
        rw [bind_apply, pure_apply]
        exact out_spec none (some outFh) (some baseFh) (some inFh) none (p1.alloc_none ha)
      | some buf =>
        dsimp only
        have p2 := p1.alloc_some ha
        generalize (alloc w1).2 = w2 at p2
        rw [bind_apply]
        have p3 := patchLoop_spec body hb inFh baseFh outFh i.bufSize lzxBuf fuel bm (by simp) (by simp) (by simp)
          fuel targetSize w2 p2
        generalize patchLoop body inFh baseFh outFh i.bufSize lzxBuf fuel bm fuel targetSize w2 = q3 at p3
        obtain ⟨r3, w3⟩ := q3
        dsimp only at p3 ⊢
        cases r3 with
        | none => dsimp only; rw [pure_apply]; exact True.intro
        | some r =>
          obtain ⟨e, l⟩ := r
          dsimp only
          rw [bind_apply, pure_apply]
          exact out_spec l (some outFh) (some baseFh) (some inFh) (some buf) p3

/-- `oabd_decompress_incremental`: whenever it returns, the ledger is as before the call -/
theorem decompressIncremental_spec (body : Body) (hb : Lawful body) (v : View) (hv : v.ok) (i : Inst)
    (input base output : String) (fuel : Nat) (w : World) (hw : w.view = v) :
    RetPost v (decompressIncremental body i input base output fuel w).2
      (decompressIncremental body i input base output fuel w).1 := by
  have p := Plus.of_view_eq hv hw
  unfold decompressIncremental
  rw [bind_apply]
  cases ho : (open_ input .read w).1 with
  | none =>
    dsimp only
    rw [bind_apply, pure_apply]
    exact out_spec none none none none none (p.open_none ho)
  | some inFh =>
    dsimp only
    have p1 := p.open_some ho
    generalize (open_ input .read w).2 = w1 at p1
    rw [bind_apply]
    have p2 := p1.read inFh Generated.patchheadSIZEOF (by simp)
    generalize read inFh Generated.patchheadSIZEOF w1 = q2 at p2
    obtain ⟨r2, w2⟩ := q2
    dsimp only at p2 ⊢
    cases r2 with
    | none =>
      dsimp only
      rw [bind_apply, pure_apply]
      exact out_spec none none none (some inFh) none p2
    | some hdr =>
      dsimp only
      split
      · rw [bind_apply, pure_apply]
        exact out_spec none none none (some inFh) none p2
      · split
        · rw [bind_apply, pure_apply]
          exact out_spec none none none (some inFh) none p2
        · exact patchRun_spec body hb i inFh base output _ fuel _ _ p2

/-! ## whole client programs -/

theorem runOp_spec (body : Body) (hb : Lawful body) (v : View) (hv : v.ok) (fuel : Nat) (i : Inst) (op : Op)
    (w : World) (hw : w.view = v) : RetPost v (runOp body fuel i op w).2 (runOp body fuel i op w).1 := by
  cases op with
  | decompress a b =>
    rw [runOp.eq_1, bind_apply]
    have h := decompress_spec body hb v hv i a b fuel w hw
    generalize decompress body i a b fuel w = q at h
    obtain ⟨r, w1⟩ := q
    dsimp only at h ⊢
    cases r with
    | none => dsimp only; rw [pure_apply]; exact True.intro
    | some e => dsimp only; rw [pure_apply]; exact h
  | decompressIncremental a b c =>
    rw [runOp.eq_2, bind_apply]
    have h := decompressIncremental_spec body hb v hv i a b c fuel w hw
    generalize decompressIncremental body i a b c fuel w = q at h
    obtain ⟨r, w1⟩ := q
    dsimp only at h ⊢
    cases r with
    | none => dsimp only; rw [pure_apply]; exact True.intro
    | some e => dsimp only; rw [pure_apply]; exact h
  | setParam pr va =>
    rw [runOp.eq_3, pure_apply]
    exact Plus.of_view_eq hv hw

theorem runOps_spec (body : Body) (hb : Lawful body) (fuel : Nat) (ops : List Op) :
    ∀ (v : View) (_ : v.ok) (i : Inst) (w : World) (_ : w.view = v),
      RetPost v (runOps body fuel ops i w).2 (runOps body fuel ops i w).1 := by
  induction ops with
  | nil => intro v hv i w hw; rw [runOps.eq_1, pure_apply]; exact Plus.of_view_eq hv hw
  | cons op ops ih =>
    intro v hv i w hw
    rw [runOps.eq_2, bind_apply]
    have h1 := runOp_spec body hb v hv fuel i op w hw
    generalize runOp body fuel i op w = q at h1
    obtain ⟨r1, w1⟩ := q
    dsimp only at h1 ⊢
    cases r1 with
    | none => dsimp only; rw [pure_apply]; exact True.intro
    | some i1 =>
      dsimp only
      have p1 : Plus v [] [] w1 := h1
      have h2 := ih w1.view p1.ok i1 w1 rfl
      generalize runOps body fuel ops i1 w1 = q2 at h2
      obtain ⟨r2, w2⟩ := q2
      dsimp only at h2 ⊢
      cases r2 with
      | none => exact True.intro
      | some i2 =>
        have p2 : Plus w1.view [] [] w2 := h2
        exact p1.step p2.frame

end MsPack.Oab.Api
