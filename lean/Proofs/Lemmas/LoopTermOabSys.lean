import Proofs.Lemmas.LoopTermSys
import MsPack.Oab.Api
/-!
# OAB over `Sys.M`: `copy_fh` and the two block loops never run out of fuel

The LZX block decoder is a parameter of the effect model (`Body`); it has no out-of-fuel outcome of
its own.  What the loops need of it (`BodyFwd`): it does not give the input handle more to read than
it had (it reads forward; it does not seek back, and does not put a longer file under the handle).
Measure: `Sys.inLeft w inFh`, the bytes the input handle can still deliver — every `copy_fh` round
that goes round again has read `run ≥ 1` bytes, every block-loop round a 16-byte header.
-/
namespace MsPack.Sys
open MsPack

/-- the computation does not give handle `fh` more to read -/
def NonInc (fh : Nat) {α : Type} (x : M α) : Prop := ∀ w, inLeft (x w).2 fh ≤ inLeft w fh

theorem NonInc.pure (fh : Nat) {α : Type} (a : α) : NonInc fh (pure a : M α) := fun _ => Nat.le_refl _

theorem NonInc.bind {fh : Nat} {α β : Type} {x : M α} {f : α → M β} (hx : NonInc fh x) (hf : ∀ a, NonInc fh (f a)) :
    NonInc fh (x >>= f) := fun w => by
  rw [bind_apply]
  exact Nat.le_trans (hf _ _) (hx w)

theorem NonInc.alloc (fh : Nat) : NonInc fh alloc := fun w => Nat.le_of_eq (alloc_inLeft w fh)
theorem NonInc.free (fh : Nat) (p : Option Nat) : NonInc fh (free p) := fun w => Nat.le_of_eq (free_inLeft p w fh)
theorem NonInc.write (fh id : Nat) (bs : Bytes) : NonInc fh (write id bs) := fun w => write_inLeft id bs w fh
theorem NonInc.read (fh id n : Nat) : NonInc fh (read id n) := fun w => by
  have := read_inLeft id n w fh; omega

theorem read_nextId (id n : Nat) (w : World) : (read id n w).2.nextId = w.nextId := by
  unfold read
  simp only [tick]
  split
  · rfl
  · split
    · rfl
    · split <;> rfl

/-- opening a file for reading leaves every older handle as it was -/
theorem openRead_inLeft_ne (name : String) (w : World) (fh : Nat) (hne : fh ≠ w.nextId) :
    inLeft (open_ name .read w).2 fh = inLeft w fh := by
  unfold open_
  simp only [tick]
  split
  · rfl
  · split
    · rfl
    · simp only [inLeft, findHandle, List.find?_cons]
      have : decide (w.nextId = fh) = false := by simp; omega
      simp [this]

/-- a successful open returns the next fresh id and moves the counter on -/
theorem open_id (name : String) (mode : Mode) (w : World) (f : Nat) (h : (open_ name mode w).1 = some f) :
    f = w.nextId ∧ (open_ name mode w).2.nextId = w.nextId + 1 := by
  unfold open_ at h ⊢
  simp only [tick] at h ⊢
  split at h
  · cases h
  · rename_i h1
    rw [if_neg h1]
    split at h
    · cases h
    · rename_i h2
      rw [if_neg h2]
      simp only [Option.some.injEq] at h
      exact ⟨h.symm, rfl⟩

end MsPack.Sys

namespace MsPack.Oab.Api
open MsPack MsPack.Sys MsPack.Generated MsPack.Oab

/-- what the loops need of the LZX block decoder body -/
def BodyFwd (body : Body) : Prop := ∀ (a : LzxArgs) (inFh outFh : Nat), NonInc inFh (body a inFh outFh)

/-- `copy_fh`: never gives the input more to read; with a buffer of at least one byte and more fuel
    than input bytes left it returns -/
theorem copyFh_spec (inFh : Nat) (outFh : Option Nat) (bufSize : Nat) : ∀ (fuel todo : Nat) (w : World),
    inLeft (copyFh inFh outFh bufSize fuel todo w).2 inFh ≤ inLeft w inFh ∧
    (1 ≤ bufSize → inLeft w inFh + 1 ≤ fuel → (copyFh inFh outFh bufSize fuel todo w).1 ≠ none) := by
  intro fuel
  induction fuel with
  | zero => intro todo w; simp only [copyFh, pure_apply]; exact ⟨Nat.le_refl _, fun _ h => by omega⟩
  | succ fuel ih =>
    intro todo w
    unfold copyFh
    by_cases ht : todo = 0
    · simp only [ht, ↓reduceIte, pure_apply]
      exact ⟨Nat.le_refl _, fun _ _ => by simp⟩
    · simp only [ht, ↓reduceIte, bind_apply]
      generalize hrun : (if bufSize > todo then todo else bufSize) = run
      have h1 := read_inLeft inFh run w inFh
      generalize read inFh run w = p1 at h1
      obtain ⟨r1, w1⟩ := p1
      match r1 with
      | none =>
        simp only [pure_apply, ↓reduceIte, Option.getD_none, List.length_nil] at h1 ⊢
        exact ⟨by omega, fun _ _ => by simp⟩
      | some got =>
        simp only [↓reduceIte, Option.getD_some] at h1 ⊢
        by_cases hg : got.length ≠ run
        · simp only [hg, ↓reduceIte, pure_apply, ne_eq, not_false_eq_true]
          exact ⟨by omega, fun _ _ => by simp⟩
        · simp only [hg, ↓reduceIte]
          have hg' : got.length = run := by simpa using hg
          match outFh with
          | none =>
            simp only
            obtain ⟨a, b⟩ := ih (todo - run) w1
            refine ⟨by omega, fun hb hf => b hb ?_⟩
            have : 1 ≤ run := by rw [← hrun]; split <;> omega
            omega
          | some o =>
            simp only [bind_apply]
            have h2 := write_inLeft o got w1 inFh
            generalize write o got w1 = p2 at h2
            obtain ⟨r2, w2⟩ := p2
            match r2 with
            | none =>
              simp only [pure_apply] at h2 ⊢
              exact ⟨by omega, fun _ _ => by simp⟩
            | some n =>
              (try simp only at h2 ⊢)
              by_cases hn : n ≠ run
              · rw [if_pos hn]
                simp only [pure_apply]
                exact ⟨by omega, fun _ _ => by simp⟩
              · rw [if_neg hn]
                obtain ⟨a, b⟩ := ih (todo - run) w2
                refine ⟨by omega, fun hb hf => b hb ?_⟩
                have : 1 ≤ run := by rw [← hrun]; split <;> omega
                omega

theorem lzxdInit_nonInc (fh wb ibs : Nat) : NonInc fh (lzxdInit wb ibs) := by
  unfold lzxdInit
  split
  · exact NonInc.pure _ _
  · apply NonInc.bind (NonInc.alloc _)
    intro r
    match r with
    | none => exact NonInc.pure _ _
    | some s =>
      simp only
      apply NonInc.bind (NonInc.alloc _)
      intro win
      apply NonInc.bind (NonInc.alloc _)
      intro inb
      match win, inb with
      | some w, some b => exact NonInc.pure _ _
      | none, inb =>
        exact NonInc.bind (NonInc.free _ _) fun _ => NonInc.bind (NonInc.free _ _) fun _ =>
          NonInc.bind (NonInc.free _ _) fun _ => NonInc.pure _ _
      | some w, none =>
        exact NonInc.bind (NonInc.free _ _) fun _ => NonInc.bind (NonInc.free _ _) fun _ =>
          NonInc.bind (NonInc.free _ _) fun _ => NonInc.pure _ _

theorem lzxdFree_nonInc (fh : Nat) (l : Lzx) : NonInc fh (lzxdFree l) :=
  NonInc.bind (NonInc.free _ _) fun _ => NonInc.bind (NonInc.free _ _) fun _ => NonInc.free _ _

theorem setReferenceData_nonInc (fh wb baseFh length : Nat) : NonInc fh (setReferenceData wb baseFh length) := by
  unfold setReferenceData
  split
  · exact NonInc.pure _ _
  · split
    · exact NonInc.pure _ _
    · apply NonInc.bind (NonInc.read _ _ _)
      intro r
      match r with
      | none => exact NonInc.pure _ _
      | some bs =>
        simp only
        split <;> exact NonInc.pure _ _

/-- what a block may do: it never gives the input more to read, and never reports `hang` -/
def RoundGood (inFh : Nat) (w : World) (p : Round × World) : Prop :=
  inLeft p.2 inFh ≤ inLeft w inFh ∧ p.1 ≠ .hang

theorem lzxTail_good (body : Body) (hB : BodyFwd body) (a : LzxArgs) (l : Lzx)
    (inFh outFh bufSize blkCrc fuel next : Nat) (hb : 1 ≤ bufSize) (w : World) (hf : inLeft w inFh + 1 ≤ fuel) :
    RoundGood inFh w (lzxTail body a l inFh outFh bufSize blkCrc fuel next w) := by
  unfold lzxTail
  simp only [bind_apply]
  have h1 := hB a inFh outFh w
  generalize body a inFh outFh w = p1 at h1
  obtain ⟨r, w1⟩ := p1
  simp only at h1 ⊢
  split
  · simp only [pure_apply, RoundGood]
    exact ⟨h1, by simp⟩
  · simp only [bind_apply]
    have h2 := lzxdFree_nonInc inFh l w1
    generalize lzxdFree l w1 = p2 at h2
    obtain ⟨u, w2⟩ := p2
    simp only at h2 ⊢
    obtain ⟨c1, c2⟩ := copyFh_spec inFh none bufSize fuel r.available w2
    have c3 := c2 hb (by omega)
    generalize copyFh inFh none bufSize fuel r.available w2 = p3 at c1 c3
    obtain ⟨r3, w3⟩ := p3
    match r3 with
    | none => exact absurd rfl c3
    | some e =>
      simp only at c1 ⊢
      split
      · simp only [pure_apply, RoundGood]; exact ⟨by omega, by simp⟩
      · split
        · simp only [pure_apply, RoundGood]; exact ⟨by omega, by simp⟩
        · simp only [pure_apply, RoundGood]; exact ⟨by omega, by simp⟩

theorem fullBlock_good (body : Body) (hB : BodyFwd body) (inFh outFh bufSize fuel blockMax targetSize : Nat)
    (blkFlags blkCsize blkDsize blkCrc : Nat) (hb : 1 ≤ bufSize) (w : World) (hf : inLeft w inFh + 1 ≤ fuel) :
    RoundGood inFh w (fullBlock body inFh outFh bufSize fuel blockMax targetSize blkFlags blkCsize blkDsize blkCrc w) := by
  unfold fullBlock
  split
  · simp only [pure_apply, RoundGood]; exact ⟨Nat.le_refl _, by simp⟩
  · split
    · split
      · simp only [pure_apply, RoundGood]; exact ⟨Nat.le_refl _, by simp⟩
      · simp only [bind_apply]
        obtain ⟨c1, c2⟩ := copyFh_spec inFh (some outFh) bufSize fuel blkDsize w
        have c3 := c2 hb hf
        generalize copyFh inFh (some outFh) bufSize fuel blkDsize w = p3 at c1 c3
        obtain ⟨r3, w3⟩ := p3
        match r3 with
        | none => exact absurd rfl c3
        | some e =>
          simp only at c1 ⊢
          split
          · simp only [pure_apply, RoundGood]; exact ⟨c1, by simp⟩
          · simp only [pure_apply, RoundGood]; exact ⟨c1, by simp⟩
    · simp only [bind_apply]
      have h1 := lzxdInit_nonInc inFh (windowBits blkDsize) bufSize w
      generalize lzxdInit (windowBits blkDsize) bufSize w = p1 at h1
      obtain ⟨r1, w1⟩ := p1
      match r1 with
      | none => simp only [pure_apply, RoundGood]; exact ⟨h1, by simp⟩
      | some l =>
        simp only at h1 ⊢
        have := lzxTail_good body hB ⟨windowBits blkDsize, bufSize, blkDsize, blkCsize, []⟩ l inFh outFh bufSize
          blkCrc fuel (targetSize - blkDsize) hb w1 (by omega)
        exact ⟨Nat.le_trans this.1 h1, this.2⟩

theorem patchBlock_good (body : Body) (hB : BodyFwd body) (inFh baseFh outFh bufSize lzxBuf fuel blockMax targetSize : Nat)
    (blkCsize blkDsize blkSsize blkCrc : Nat) (hb : 1 ≤ bufSize) (w : World) (hf : inLeft w inFh + 1 ≤ fuel) :
    RoundGood inFh w
      (patchBlock body inFh baseFh outFh bufSize lzxBuf fuel blockMax targetSize blkCsize blkDsize blkSsize blkCrc w) := by
  unfold patchBlock
  split
  · simp only [pure_apply, RoundGood]; exact ⟨Nat.le_refl _, by simp⟩
  · simp only [bind_apply]
    generalize windowBits (patchWindowSize blkSsize blkDsize) = wb
    have h1 := lzxdInit_nonInc inFh wb lzxBuf w
    generalize lzxdInit wb lzxBuf w = p1 at h1
    obtain ⟨r1, w1⟩ := p1
    match r1 with
    | none => simp only [pure_apply, RoundGood]; exact ⟨h1, by simp⟩
    | some l =>
      simp only [bind_apply] at h1 ⊢
      have h2 := setReferenceData_nonInc inFh wb baseFh blkSsize w1
      generalize setReferenceData wb baseFh blkSsize w1 = p2 at h2
      obtain ⟨sr, w2⟩ := p2
      simp only at h2 ⊢
      split
      · simp only [pure_apply, RoundGood]; exact ⟨by omega, by simp⟩
      · have := lzxTail_good body hB ⟨wb, lzxBuf, blkDsize, blkCsize, sr.2⟩ l inFh outFh bufSize
          blkCrc fuel (targetSize - blkDsize) hb w2 (by omega)
        exact ⟨by have := this.1; omega, this.2⟩

/-- a round that goes round again has consumed its 16-byte header -/
def RoundStep (inFh : Nat) (w : World) (p : Round × World) : Prop :=
  p.1 ≠ .hang ∧ inLeft p.2 inFh ≤ inLeft w inFh ∧ ∀ t, p.1 = .next t → inLeft p.2 inFh + 16 ≤ inLeft w inFh

theorem fullRound_step (body : Body) (hB : BodyFwd body) (inFh outFh bufSize fuel blockMax targetSize : Nat)
    (hb : 1 ≤ bufSize) (w : World) (hf : inLeft w inFh + 1 ≤ fuel) :
    RoundStep inFh w (fullRound body inFh outFh bufSize fuel blockMax targetSize w) := by
  unfold fullRound
  simp only [bind_apply]
  have h1 := read_inLeft inFh oabblkSIZEOF w inFh
  generalize read inFh oabblkSIZEOF w = p1 at h1
  obtain ⟨r1, w1⟩ := p1
  match r1 with
  | none =>
    simp only [pure_apply, RoundStep, ↓reduceIte, Option.getD_none, List.length_nil] at h1 ⊢
    exact ⟨by simp, by omega, by simp⟩
  | some h =>
    simp only [↓reduceIte, Option.getD_some] at h1 ⊢
    split
    · simp only [pure_apply, RoundStep]; exact ⟨by simp, by omega, by simp⟩
    · rename_i hl
      have hl' : h.length = 16 := by simpa [oabblkSIZEOF] using hl
      have := fullBlock_good body hB inFh outFh bufSize fuel blockMax targetSize (u32At h oabblk_Flags)
        (u32At h oabblk_CompSize) (u32At h oabblk_UncompSize) (u32At h oabblk_CRC) hb w1 (by omega)
      exact ⟨this.2, by have := this.1; omega, fun _ _ => by have := this.1; omega⟩

theorem patchRound_step (body : Body) (hB : BodyFwd body) (inFh baseFh outFh bufSize lzxBuf fuel blockMax targetSize : Nat)
    (hb : 1 ≤ bufSize) (w : World) (hf : inLeft w inFh + 1 ≤ fuel) :
    RoundStep inFh w (patchRound body inFh baseFh outFh bufSize lzxBuf fuel blockMax targetSize w) := by
  unfold patchRound
  simp only [bind_apply]
  have h1 := read_inLeft inFh patchblkSIZEOF w inFh
  generalize read inFh patchblkSIZEOF w = p1 at h1
  obtain ⟨r1, w1⟩ := p1
  match r1 with
  | none =>
    simp only [pure_apply, RoundStep, ↓reduceIte, Option.getD_none, List.length_nil] at h1 ⊢
    exact ⟨by simp, by omega, by simp⟩
  | some h =>
    simp only [↓reduceIte, Option.getD_some] at h1 ⊢
    split
    · simp only [pure_apply, RoundStep]; exact ⟨by simp, by omega, by simp⟩
    · rename_i hl
      have hl' : h.length = 16 := by simpa [patchblkSIZEOF] using hl
      have := patchBlock_good body hB inFh baseFh outFh bufSize lzxBuf fuel blockMax targetSize
        (u32At h patchblk_PatchSize) (u32At h patchblk_TargetSize) (u32At h patchblk_SourceSize) (u32At h patchblk_CRC)
        hb w1 (by omega)
      exact ⟨this.2, by have := this.1; omega, fun _ _ => by have := this.1; omega⟩

/-- `while (target_size)` of `oabd_decompress` -/
theorem fullLoop_no_hang (body : Body) (hB : BodyFwd body) (inFh outFh bufSize fuel blockMax : Nat) (hb : 1 ≤ bufSize) :
    ∀ (n targetSize : Nat) (w : World), inLeft w inFh + 1 ≤ fuel → inLeft w inFh / 16 + 1 ≤ n →
      (fullLoop body inFh outFh bufSize fuel blockMax n targetSize w).1 ≠ none := by
  intro n
  induction n with
  | zero => intro t w _ h; omega
  | succ n ih =>
    intro t w hf hn
    unfold fullLoop
    split
    · simp [pure_apply]
    · simp only [bind_apply]
      have h1 := fullRound_step body hB inFh outFh bufSize fuel blockMax t hb w hf
      generalize fullRound body inFh outFh bufSize fuel blockMax t w = p1 at h1
      obtain ⟨r1, w1⟩ := p1
      match r1 with
      | .done e l => simp [pure_apply]
      | .hang => exact absurd rfl h1.1
      | .next t' =>
        simp only [RoundStep] at h1 ⊢
        have := h1.2.2 t' rfl
        exact ih t' w1 (by omega) (by omega)

/-- `while (target_size)` of `oabd_decompress_incremental` -/
theorem patchLoop_no_hang (body : Body) (hB : BodyFwd body) (inFh baseFh outFh bufSize lzxBuf fuel blockMax : Nat)
    (hb : 1 ≤ bufSize) :
    ∀ (n targetSize : Nat) (w : World), inLeft w inFh + 1 ≤ fuel → inLeft w inFh / 16 + 1 ≤ n →
      (patchLoop body inFh baseFh outFh bufSize lzxBuf fuel blockMax n targetSize w).1 ≠ none := by
  intro n
  induction n with
  | zero => intro t w _ h; omega
  | succ n ih =>
    intro t w hf hn
    unfold patchLoop
    split
    · simp [pure_apply]
    · simp only [bind_apply]
      have h1 := patchRound_step body hB inFh baseFh outFh bufSize lzxBuf fuel blockMax t hb w hf
      generalize patchRound body inFh baseFh outFh bufSize lzxBuf fuel blockMax t w = p1 at h1
      obtain ⟨r1, w1⟩ := p1
      match r1 with
      | .done e l => simp [pure_apply]
      | .hang => exact absurd rfl h1.1
      | .next t' =>
        simp only [RoundStep] at h1 ⊢
        have := h1.2.2 t' rfl
        exact ih t' w1 (by omega) (by omega)

/-- `oabd_decompress` from the accepted header on -/
theorem fullRun_no_hang (body : Body) (hB : BodyFwd body) (i : Inst) (inFh : Nat) (output : String)
    (fuel blockMax targetSize : Nat) (hb : 1 ≤ i.bufSize) (w : World) (hf : inLeft w inFh + 1 ≤ fuel) :
    (fullRun body i inFh output fuel blockMax targetSize w).1 ≠ none := by
  unfold fullRun
  simp only [bind_apply]
  have h1 := openWrite_inLeft output w inFh
  generalize Sys.open_ output .write w = p1 at h1
  obtain ⟨r1, w1⟩ := p1
  match r1 with
  | none => simp [bind_apply, pure_apply]
  | some outFh =>
    simp only [bind_apply] at h1 ⊢
    have h2 := alloc_inLeft w1 inFh
    generalize alloc w1 = p2 at h2
    obtain ⟨r2, w2⟩ := p2
    match r2 with
    | none => simp [bind_apply, pure_apply]
    | some buf =>
      simp only [bind_apply] at h2 ⊢
      have h3 := fullLoop_no_hang body hB inFh outFh i.bufSize fuel blockMax hb fuel targetSize w2 (by omega)
        (by have : inLeft w2 inFh / 16 ≤ inLeft w2 inFh := Nat.div_le_self _ _; omega)
      generalize fullLoop body inFh outFh i.bufSize fuel blockMax fuel targetSize w2 = p3 at h3
      obtain ⟨r3, w3⟩ := p3
      match r3 with
      | none => exact absurd rfl h3
      | some (e, l) => simp [bind_apply, pure_apply]

/-- `oabd_decompress` (effect model): more fuel than the input file has bytes suffices -/
theorem decompress_no_hang (body : Body) (hB : BodyFwd body) (i : Inst) (input output : String) (fuel : Nat)
    (hb : 1 ≤ i.bufSize) (w : World) (hf : ((w.files.lookup input).getD []).length + 1 ≤ fuel) :
    (decompress body i input output fuel w).1 ≠ none := by
  unfold decompress
  simp only [bind_apply]
  have h1 := openRead_inSize input w
  generalize Sys.open_ input .read w = p1 at h1
  obtain ⟨r1, w1⟩ := p1
  match r1 with
  | none => simp [bind_apply, pure_apply]
  | some inFh =>
    simp only [bind_apply] at h1 ⊢
    have h2 := read_inLeft inFh oabheadSIZEOF w1 inFh
    have h3 := inLeft_le_inSize w1 inFh
    generalize read inFh oabheadSIZEOF w1 = p2 at h2
    obtain ⟨r2, w2⟩ := p2
    match r2 with
    | none => simp [bind_apply, pure_apply]
    | some hdr =>
      simp only at h2 ⊢
      split
      · simp [bind_apply, pure_apply]
      · split
        · simp [bind_apply, pure_apply]
        · exact fullRun_no_hang body hB i inFh output fuel _ _ hb w2 (by omega)

/-- `oabd_decompress_incremental` from the accepted header on; `inFh` is older than any id still to come -/
theorem patchRun_no_hang (body : Body) (hB : BodyFwd body) (i : Inst) (inFh : Nat) (base output : String)
    (lzxBuf fuel blockMax targetSize : Nat) (hb : 1 ≤ i.bufSize) (w : World) (hid : inFh < w.nextId)
    (hf : inLeft w inFh + 1 ≤ fuel) :
    (patchRun body i inFh base output lzxBuf fuel blockMax targetSize w).1 ≠ none := by
  unfold patchRun
  simp only [bind_apply]
  generalize (if blockMax < patchblkSIZEOF then patchblkSIZEOF else blockMax) = bm
  have h0 := openRead_inLeft_ne base w inFh (by omega)
  generalize Sys.open_ base .read w = p0 at h0
  obtain ⟨r0, w0⟩ := p0
  match r0 with
  | none => simp [bind_apply, pure_apply]
  | some baseFh =>
    simp only [bind_apply] at h0 ⊢
    have h1 := openWrite_inLeft output w0 inFh
    generalize Sys.open_ output .write w0 = p1 at h1
    obtain ⟨r1, w1⟩ := p1
    match r1 with
    | none => simp [bind_apply, pure_apply]
    | some outFh =>
      simp only [bind_apply] at h1 ⊢
      have h2 := alloc_inLeft w1 inFh
      generalize alloc w1 = p2 at h2
      obtain ⟨r2, w2⟩ := p2
      match r2 with
      | none => simp [bind_apply, pure_apply]
      | some buf =>
        simp only [bind_apply] at h2 ⊢
        have h3 := patchLoop_no_hang body hB inFh baseFh outFh i.bufSize lzxBuf fuel bm hb fuel targetSize w2
          (by omega) (by have : inLeft w2 inFh / 16 ≤ inLeft w2 inFh := Nat.div_le_self _ _; omega)
        generalize patchLoop body inFh baseFh outFh i.bufSize lzxBuf fuel bm fuel targetSize w2 = p3 at h3
        obtain ⟨r3, w3⟩ := p3
        match r3 with
        | none => exact absurd rfl h3
        | some (e, l) => simp [bind_apply, pure_apply]

/-- `oabd_decompress_incremental` (effect model): more fuel than the patch file has bytes suffices -/
theorem decompressIncremental_no_hang (body : Body) (hB : BodyFwd body) (i : Inst) (input base output : String)
    (fuel : Nat) (hb : 1 ≤ i.bufSize) (w : World) (hf : ((w.files.lookup input).getD []).length + 1 ≤ fuel) :
    (decompressIncremental body i input base output fuel w).1 ≠ none := by
  unfold decompressIncremental
  simp only [bind_apply]
  have h1 := openRead_inSize input w
  have hid := open_id input .read w
  generalize Sys.open_ input .read w = p1 at h1 hid
  obtain ⟨r1, w1⟩ := p1
  match r1 with
  | none => simp [bind_apply, pure_apply]
  | some inFh =>
    simp only [bind_apply] at h1 ⊢
    obtain ⟨hid1, hid2⟩ := hid inFh rfl
    simp only at hid2
    have h2 := read_inLeft inFh patchheadSIZEOF w1 inFh
    have h3 := inLeft_le_inSize w1 inFh
    have h4 := read_nextId inFh patchheadSIZEOF w1
    generalize read inFh patchheadSIZEOF w1 = p2 at h2 h4
    obtain ⟨r2, w2⟩ := p2
    match r2 with
    | none => simp [bind_apply, pure_apply]
    | some hdr =>
      simp only at h2 h4 ⊢
      split
      · simp [bind_apply, pure_apply]
      · split
        · simp [bind_apply, pure_apply]
        · exact patchRun_no_hang body hB i inFh base output 4096 fuel _ _ hb w2 (by omega) (by omega)

end MsPack.Oab.Api
