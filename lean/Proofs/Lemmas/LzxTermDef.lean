import MsPack.Oab.Decompress
/-!
What the OAB container loops need of the LZX block decoder (`lzxd_decompress` run over
`oabd_sys_read`): started with an empty input buffer and an empty bit buffer on a handle of `file`,
it does not run out of fuel, and it leaves the real input handle on the same file, not before where
it found it.  (Both decoder states oabd.c creates - `lzxd_init`, optionally followed by
`lzxd_set_reference_data` - have empty buffers: `Oab.lzxInit_fresh`, `Oab.setReferenceData_fresh`.)
-/
namespace MsPack.Oab
open MsPack

/-- the handle `r'` is `r` moved forward on the same file -/
def Adv (r r' : Rd) : Prop := r'.file = r.file ∧ r.pos ≤ r'.pos

/-- hypothesis on the LZX block decoder run with this fuel over `oabd_sys_read` on `file` -/
def LzxTerm (fuel : Nat) (file : Bytes) : Prop :=
  ∀ (lzx : Lzx.St InFile) (n : Nat), lzx.src.rd.file = file → lzx.inbuf = [] → lzx.bits = [] →
    Lzx.decompress sysRead fuel lzx n ≠ .error .hang ∧
    ∀ o, Lzx.decompress sysRead fuel lzx n = .ok o → Adv lzx.src.rd o.st.src.rd

end MsPack.Oab
