import MsPack.Cab.Headers
namespace MsPack.Cab
open MsPack

theorem readHeaders_fields (file : Bytes) (off : Nat) (sv : Bool) (c : Cabinet)
    (h : readHeaders file off sv = .ok c) :
    c.baseOffset = off ∧ ∃ buf r, (⟨file, off⟩ : Rd).readExact 36 = some (buf, r) ∧
      u32At buf 0 = 0x4643534D ∧ c.length = u32At buf 8 := by
  unfold readHeaders at h
  split at h
  · contradiction
  · rename_i buf r hrd
    split at h
    · contradiction
    · rename_i hsig
      dsimp only at h
      split at h
      · contradiction
      · split at h
        · contradiction
        · split at h
          · contradiction
          · split at h
            · contradiction
            · split at h
              · contradiction
              · split at h
                · contradiction
                · split at h
                  · contradiction
                  · simp only [Except.ok.injEq] at h
                    subst h
                    exact ⟨rfl, buf, r, hrd, by simpa using hsig, rfl⟩

end MsPack.Cab
