import Proofs.Lemmas.BlockBounds
import Proofs.Lemmas.FeederTerm
/-!
# The CAB feeder as a decoder source: which faults it can raise, and what it announces to LZX

* `readBlock_post` / `feederRead_post`: the only faults of `cabd_sys_read_block` / `cabd_sys_read`
  are the two `nullDeref` sites (`d->infh`, `d->data`) — and `hang` for `feederRead` when its fuel
  runs out; both are unreachable from a *live* feeder (`FeederLive`: handle open, part list not
  empty).
* `FeederLive` is preserved by every read that delivers bytes (`some _`); a read that returns
  `none` (= -1) leaves `readError ≠ ok` and may leave the handle closed (split block whose chain
  ends, next cabinet missing): safety after that rests on the decoder's sticky error.
* `feederSrc_read_no_fault`: with the fuel `feederSrc` uses, a live feeder raises no fault at all.
* `totalOut` / `FeederLen L`: the one value the feeder can ever announce through `lzxLength`.
-/
namespace MsPack.CabLift
open MsPack MsPack.Generated MsPack.Cab

def ndInfh : Fault := .nullDeref "cabd_sys_read_block: d->infh"
def ndData : Fault := .nullDeref "cabd_sys_read_block: d->data"

/-- what `readBlock` returns, given whether it was entered with an open handle and a part -/
def RBPost (live : Prop) : BlockResult → Prop
  | .ok _ _ rd parts => rd.isSome = true ∧ parts ≠ []
  | .err e _ _ => e ≠ .ok
  | .fault f => (¬ live ∧ (f = ndInfh ∨ f = ndData)) ∨ ∃ s, f = .oob s

theorem RBPost.of_live {p q : Prop} {r : BlockResult} (h : RBPost q r) (hq : q) : RBPost p r := by
  cases r with
  | ok a b c d => exact h
  | err e a b => exact h
  | fault f =>
    rcases h with ⟨hn, _⟩ | h
    · exact absurd hq hn
    · exact Or.inr h

theorem readBlock_post0 (files : Files) (ic ib : Bool) : ∀ (fuel : Nat) (rd : Option Rd) (parts : List Part)
    (acc : Bytes), RBPost (rd.isSome = true ∧ parts ≠ []) (readBlock files ic ib fuel rd parts acc) := by
  intro fuel
  induction fuel with
  | zero => intro rd parts acc; simp [readBlock, RBPost]
  | succ fuel ih =>
    intro rd parts acc
    unfold readBlock
    split
    · simp [RBPost, ndInfh]
    · simp [RBPost, ndData]
    · split
      · simp [RBPost]
      · simp only
        split
        · simp [RBPost]
        · split
          · simp [RBPost]
          · split
            · exact Or.inr ⟨_, rfl⟩
            · split
              · simp [RBPost]
              · split
                · simp [RBPost]
                · split
                  · simp [RBPost]
                  · split
                    · simp [RBPost]
                    · split
                      · simp [RBPost]
                      · exact (ih _ _ _).of_live ⟨rfl, by simp⟩

/-- the block reader: results keep the handle open, errors are errors, and the only faults are the
    two null dereferences, which need a closed handle or an empty part list on entry -/
def RBPost' (live : Prop) : BlockResult → Prop
  | .ok _ _ rd parts => rd.isSome = true ∧ parts ≠ []
  | .err e _ _ => e ≠ .ok
  | .fault f => ¬ live ∧ (f = ndInfh ∨ f = ndData)

theorem readBlock_post (files : Files) (ic ib : Bool) (fuel : Nat) (rd : Option Rd) (parts : List Part)
    (acc : Bytes) : RBPost' (rd.isSome = true ∧ parts ≠ []) (readBlock files ic ib fuel rd parts acc) := by
  have h := readBlock_post0 files ic ib fuel rd parts acc
  have hn := readBlock_no_oob files ic ib fuel rd parts acc
  cases hr : readBlock files ic ib fuel rd parts acc with
  | ok a b c d => rw [hr] at h; exact h
  | err e a b => rw [hr] at h; exact h
  | fault f =>
    rw [hr] at h
    rcases h with h | ⟨s, hs⟩
    · exact h
    · subst hs; exact absurd hr (hn s)

/-- `d->infh != NULL` and `d->data != NULL` -/
def FeederLive (fd : Feeder) : Prop := fd.rd.isSome = true ∧ fd.parts ≠ []

/-- what `feederRead` returns, given whether the feeder was live on entry -/
def FRPost (live : Prop) : Except Fault (Option Bytes × Feeder) → Prop
  | .error f => f = .hang ∨ (¬ live ∧ (f = ndInfh ∨ f = ndData))
  | .ok (some _, fd') => live → FeederLive fd'
  | .ok (none, fd') => fd'.readError ≠ .ok

theorem FRPost.mono {p q : Prop} {r : Except Fault (Option Bytes × Feeder)} (h : FRPost q r) (hpq : p → q) :
    FRPost p r := by
  cases r with
  | error f =>
    rcases h with h | ⟨hn, h⟩
    · exact Or.inl h
    · exact Or.inr ⟨fun hp => hn (hpq hp), h⟩
  | ok v =>
    obtain ⟨o, fd'⟩ := v
    cases o with
    | none => exact h
    | some g => exact fun hp => h (hpq hp)

theorem feederRead_post (files : Files) : ∀ (fuel : Nat) (fd : Feeder) (todo : Nat) (got : Bytes),
    FRPost (FeederLive fd) (feederRead files fuel fd todo got) := by
  intro fuel
  induction fuel with
  | zero => intro fd todo got; simp [feederRead, FRPost]
  | succ fuel ih =>
    intro fd todo got
    unfold feederRead
    split
    · exact fun h => h
    · split
      · exact (ih _ _ _).mono (fun h => h)
      · simp only
        split
        · show FeederLive fd → FeederLive _
          intro h
          split <;> exact h
        · have hb := readBlock_post files (fd.salvage || (fd.fixMszip && compMask fd.compType == 1)) fd.salvage
            (fd.parts.length + 1) fd.rd fd.parts []
          split
          · rename_i f hrb
            rw [hrb] at hb
            exact Or.inr hb
          · rename_i e rd parts hrb
            rw [hrb] at hb
            exact hb
          · rename_i payload out rd parts hrb
            rw [hrb] at hb
            refine (ih _ _ _).mono (fun _ => ?_)
            split <;> exact hb

/-- every fault of `cabd_sys_read` — for every feeder state — is the fuel bound or one of the two
    null dereferences of `cabd_sys_read_block` -/
theorem feederRead_fault_kinds (files : Files) (fuel : Nat) (fd : Feeder) (todo : Nat) (got : Bytes) (f : Fault)
    (h : feederRead files fuel fd todo got = .error f) : f = .hang ∨ f = ndInfh ∨ f = ndData := by
  have := feederRead_post files fuel fd todo got
  rw [h] at this
  rcases this with h | ⟨_, h⟩
  · exact Or.inl h
  · exact Or.inr h

/-- from a live feeder the only fault is the fuel bound -/
theorem feederRead_no_fault (files : Files) (fuel : Nat) (fd : Feeder) (todo : Nat) (got : Bytes) (f : Fault)
    (hl : FeederLive fd) (h : feederRead files fuel fd todo got = .error f) : f = .hang := by
  have := feederRead_post files fuel fd todo got
  rw [h] at this
  rcases this with h | ⟨hn, _⟩
  · exact h
  · exact absurd hl hn

/-- a read that delivers bytes leaves the feeder live -/
theorem feederRead_live (files : Files) (fuel : Nat) (fd : Feeder) (todo : Nat) (got g : Bytes) (fd' : Feeder)
    (hl : FeederLive fd) (h : feederRead files fuel fd todo got = .ok (some g, fd')) : FeederLive fd' := by
  have := feederRead_post files fuel fd todo got
  rw [h] at this
  exact this hl

/-- a read that returns -1 has recorded why -/
theorem feederRead_none (files : Files) (fuel : Nat) (fd : Feeder) (todo : Nat) (got : Bytes) (fd' : Feeder)
    (h : feederRead files fuel fd todo got = .ok (none, fd')) : fd'.readError ≠ .ok := by
  have := feederRead_post files fuel fd todo got
  rw [h] at this
  exact this

theorem feederFuel_enough (fd : Feeder) : feederMeasure fd + 1 ≤ feederFuel fd := by
  unfold feederMeasure feederFuel
  split <;> omega

/-- the source the decoders see never reports `hang` … -/
theorem feederSrc_read_no_hang (files : Files) (fd : Feeder) (n : Nat) :
    (feederSrc files).read fd n ≠ .error .hang :=
  feederRead_terminates files _ fd n [] (Or.inl (feederFuel_enough fd))

/-- … so for EVERY feeder state its faults are exactly the two null dereferences … -/
theorem feederSrc_read_fault_kinds (files : Files) (fd : Feeder) (n : Nat) (f : Fault)
    (h : (feederSrc files).read fd n = .error f) : f = ndInfh ∨ f = ndData := by
  rcases feederRead_fault_kinds files _ fd n [] f h with h' | h'
  · subst h'; exact absurd h (feederSrc_read_no_hang files fd n)
  · exact h'

/-- … and a live feeder raises no fault at all -/
theorem feederSrc_read_no_fault (files : Files) (fd : Feeder) (n : Nat) (f : Fault) (hl : FeederLive fd) :
    (feederSrc files).read fd n ≠ .error f := by
  intro h
  have := feederRead_no_fault files _ fd n [] f hl h
  subst this
  exact feederSrc_read_no_hang files fd n h

theorem feederSrc_read_live (files : Files) (fd : Feeder) (n : Nat) (g : Bytes) (fd' : Feeder)
    (hl : FeederLive fd) (h : (feederSrc files).read fd n = .ok (some g, fd')) : FeederLive fd' :=
  feederRead_live files _ fd n [] g fd' hl h

theorem feederSrc_read_none (files : Files) (fd : Feeder) (n : Nat) (fd' : Feeder)
    (h : (feederSrc files).read fd n = .ok (none, fd')) : fd'.readError ≠ .ok :=
  feederRead_none files _ fd n [] fd' h

/-! ## the length announced to LZX -/

/-- `ignore_cksum` of `cabd_sys_read` -/
def icOf (fd : Feeder) : Bool := fd.salvage || (fd.fixMszip && compMask fd.compType == 1)

/-- `d->outlen` after `k` more blocks (read errors do not add to it) -/
def totalOut (files : Files) (ic ib : Bool) : Nat → Nat → Option Rd → List Part → Nat
  | 0, outlen, _, _ => outlen
  | k + 1, outlen, rd, parts =>
    match readBlock files ic ib (parts.length + 1) rd parts [] with
    | .fault _ => outlen
    | .err _ rd' parts' => totalOut files ic ib k outlen rd' parts'
    | .ok _ out rd' parts' => totalOut files ic ib k (outlen + out) rd' parts'

/-- the feeder has announced nothing or `L`, and `L` is what it will announce if it gets to the
    folder's last block -/
def FeederLen (files : Files) (L : Nat) (fd : Feeder) : Prop :=
  (fd.lzxLen = none ∨ fd.lzxLen = some L) ∧
  (fd.block < fd.numBlocks →
    totalOut files (icOf fd) fd.salvage (fd.numBlocks - fd.block) fd.outlen fd.rd fd.parts = L)

theorem feederLen_exists (files : Files) (fd : Feeder) (h : fd.lzxLen = none) :
    FeederLen files (totalOut files (icOf fd) fd.salvage (fd.numBlocks - fd.block) fd.outlen fd.rd fd.parts) fd :=
  ⟨Or.inl h, fun _ => rfl⟩

theorem feederRead_len (files : Files) (L : Nat) : ∀ (fuel : Nat) (fd : Feeder) (todo : Nat) (got : Bytes)
    (r : Option Bytes) (fd' : Feeder), FeederLen files L fd →
    feederRead files fuel fd todo got = .ok (r, fd') → FeederLen files L fd' := by
  intro fuel
  induction fuel with
  | zero => intro fd todo got r fd' _ h; simp [feederRead] at h
  | succ fuel ih =>
    intro fd todo got r fd' hL h
    unfold feederRead at h
    split at h
    · simp only [Except.ok.injEq, Prod.mk.injEq] at h
      rw [← h.2]; exact hL
    · split at h
      · refine ih _ _ _ _ _ ?_ h
        exact ⟨hL.1, hL.2⟩
      · simp only at h
        split at h
        · rename_i hge
          simp only [Except.ok.injEq, Prod.mk.injEq] at h
          rw [← h.2]
          split
          · exact ⟨hL.1, fun hlt => by simp only at hlt hge; omega⟩
          · exact ⟨hL.1, fun hlt => by simp only at hlt hge; omega⟩
        · rename_i hlt
          simp only [ge_iff_le, Nat.not_le] at hlt
          have hk : fd.numBlocks - fd.block = (fd.numBlocks - (fd.block + 1)) + 1 := by omega
          have ht := hL.2 hlt
          rw [hk, totalOut] at ht
          split at h
          · contradiction
          · rename_i e rd parts hrb
            simp only [Except.ok.injEq, Prod.mk.injEq] at h
            rw [← h.2]
            refine ⟨hL.1, fun _ => ?_⟩
            have hrb' : readBlock files (icOf fd) fd.salvage (fd.parts.length + 1) fd.rd fd.parts [] = .err e rd parts := hrb
            rw [hrb'] at ht
            exact ht
          · rename_i payload out rd parts hrb
            have hrb' : readBlock files (icOf fd) fd.salvage (fd.parts.length + 1) fd.rd fd.parts [] =
                .ok payload out rd parts := hrb
            rw [hrb'] at ht
            simp only at ht
            refine ih _ _ _ _ _ ?_ h
            split
            · rename_i hc
              have h2 : fd.block + 1 ≥ fd.numBlocks := hc.1
              have h1 : fd.numBlocks - (fd.block + 1) = 0 := by omega
              rw [h1, totalOut] at ht
              refine ⟨Or.inr ?_, fun hlt' => ?_⟩
              · show some (fd.outlen + out) = some L
                rw [ht]
              · have h3 : fd.block + 1 < fd.numBlocks := hlt'
                omega
            · exact ⟨hL.1, fun _ => ht⟩

/-- **restricted `LenStable`**: from a feeder satisfying `FeederLen L`, a read leaves one that still
    does, and whatever is announced is `L` -/
theorem feederSrc_len_stable (files : Files) (L : Nat) (fd : Feeder) (n : Nat) (r : Option Bytes) (fd' : Feeder)
    (hL : FeederLen files L fd) (h : (feederSrc files).read fd n = .ok (r, fd')) :
    FeederLen files L fd' ∧ ∀ m, (feederSrc files).lzxLength fd' = some m → m = L := by
  have h' := feederRead_len files L _ fd n [] r fd' hL h
  refine ⟨h', fun m hm => ?_⟩
  have hm' : fd'.lzxLen = some m := hm
  rcases h'.1 with h1 | h1
  · rw [h1] at hm'; contradiction
  · rw [h1] at hm'; exact (Option.some.inj hm').symm

end MsPack.CabLift
