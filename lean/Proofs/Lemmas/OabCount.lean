import MsPack.Oab.Decompress
/-
C07 for OAB: the bytes written never exceed the header's target size, and OK means exactly that
many — for every input file.  Stored blocks and the loops are proved; an LZX block enters through
its counting law (`LzxCount`: `lzxd_decompress(lzx, n)` hands at most `n` bytes to `write`, exactly
`n` when it returns OK), the same hypothesis the CAB theorems make about the stream decoders.
-/
namespace MsPack.Oab
open MsPack MsPack.Generated

theorem copyFhLoop_count (toOut : Bool) (bufSize : Nat) : ∀ (fuel : Nat) (rd : Rd) (todo : Nat) (racc : Bytes) (c : CopyOut),
    copyFhLoop toOut bufSize fuel rd todo racc = .ok c →
    c.written.length ≤ racc.length + todo ∧ (c.err = .ok → toOut = true → c.written.length = racc.length + todo) := by
  intro fuel
  induction fuel with
  | zero =>
    intro rd todo racc c h
    rw [copyFhLoop.eq_1] at h
    split at h
    · simp only [Except.ok.injEq] at h; subst h; rename_i h0; simp [h0]
    · cases h
  | succ fuel ih =>
    intro rd todo racc c h
    rw [copyFhLoop.eq_2] at h
    split at h
    · simp only [Except.ok.injEq] at h; subst h; rename_i h0; simp [h0]
    · rename_i h0
      simp only at h
      generalize hrun : (if bufSize > todo then todo else bufSize) = run at h
      have hrl : run ≤ todo := by rw [← hrun]; split <;> omega
      generalize hrd : rd.read run = p at h
      obtain ⟨got, rd'⟩ := p
      simp only at h
      split at h
      · simp only [Except.ok.injEq] at h; subst h
        simp only [List.length_reverse]
        exact ⟨by omega, fun he => by cases he⟩
      · rename_i hgl
        have hgl' : got.length = run := by simpa using hgl
        obtain ⟨a, b⟩ := ih _ _ _ _ h
        cases toOut with
        | true =>
          simp only [↓reduceIte, List.length_append, List.length_reverse] at a b
          exact ⟨by omega, fun he _ => by have := b he trivial; omega⟩
        | false =>
          simp only [Bool.false_eq_true, ↓reduceIte] at a b
          exact ⟨by omega, fun _ ht => by cases ht⟩

theorem copyFh_count (rd : Rd) (n bufSize : Nat) (c : CopyOut) (h : copyFh true rd n bufSize = .ok c) :
    c.written.length ≤ n ∧ (c.err = .ok → c.written.length = n) := by
  have := copyFhLoop_count true bufSize n rd n [] c h
  simpa using this

/-- counting law of the LZX decoder as oabd.c uses it (hypothesis) -/
def LzxCount (fuel bufSize : Nat) : Prop :=
  ∀ (lzx : Lzx.St InFile) (n crc : Nat) (b : BlockOut), lzxBlockTail fuel bufSize lzx n crc = .ok b →
    b.written.length ≤ n ∧ (b.err = .ok → b.written.length = n)

/-- what a round may do: return (never with OK while bytes are outstanding), or grow the output by exactly the
    amount the outstanding target shrinks -/
def RoundOk (w : Bytes) (t : Nat) : Round → Prop
  | .done (e, w') => w'.length ≤ w.length + t ∧ e ≠ .ok
  | .next _ _ t' w' => ∃ d, d ≤ t ∧ t' = t - d ∧ w'.length = w.length + d

theorem fullBlock_count (fuel bufSize : Nat) (hL : LzxCount fuel bufSize) (fill : UInt8) (blockMax : Nat) (rd : Rd)
    (t : Nat) (w : Bytes) (r : Round) (h : fullBlock fuel bufSize fill blockMax rd t w = .ok r) :
    RoundOk w t r := by
  unfold fullBlock at h
  split at h
  · simp only [Except.ok.injEq] at h; subst h; simp [RoundOk]
  · rename_i buf infh hre
    simp only at h
    split at h
    · simp only [Except.ok.injEq] at h; subst h; simp [RoundOk]
    · rename_i hguard
      have hle : u32At buf oabblk_UncompSize ≤ t := by
        simp only [not_or, Nat.not_lt] at hguard; omega
      split at h
      · split at h
        · simp only [Except.ok.injEq] at h; subst h; simp [RoundOk]
        · split at h
          · cases h
          · rename_i c hc
            obtain ⟨c1, c2⟩ := copyFh_count _ _ _ _ hc
            split at h
            · rename_i hce
              simp only [Except.ok.injEq] at h; subst h
              simp only [RoundOk, List.length_append]
              exact ⟨by omega, hce⟩
            · rename_i hce
              have hce' : c.err = .ok := by simpa using hce
              simp only [Except.ok.injEq] at h; subst h
              simp only [RoundOk]
              exact ⟨_, hle, rfl, by simp only [List.length_append]; rw [c2 hce']⟩
      · split at h
        · simp only [Except.ok.injEq] at h; subst h; simp [RoundOk]
        · rename_i lzx hinit
          split at h
          · cases h
          · rename_i b hb
            obtain ⟨b1, b2⟩ := hL _ _ _ _ hb
            split at h
            · rename_i hbe
              simp only [Except.ok.injEq] at h; subst h
              simp only [RoundOk, List.length_append]
              exact ⟨by omega, hbe⟩
            · rename_i hbe
              have hbe' : b.err = .ok := by simpa using hbe
              simp only [Except.ok.injEq] at h; subst h
              simp only [RoundOk]
              exact ⟨_, hle, rfl, by simp only [List.length_append]; rw [b2 hbe']⟩

theorem fullLoop_count (fuel bufSize : Nat) (hL : LzxCount fuel bufSize) (fill : UInt8) (blockMax : Nat) :
    ∀ (n : Nat) (rd : Rd) (t : Nat) (w : Bytes) (e : Err) (w' : Bytes),
    fullLoop fuel bufSize fill blockMax n rd t w = .ok (e, w') →
    w'.length ≤ w.length + t ∧ (e = .ok → w'.length = w.length + t) := by
  intro n
  induction n with
  | zero =>
    intro rd t w e w' h
    rw [fullLoop.eq_1] at h
    split at h
    · simp only [Except.ok.injEq, Prod.mk.injEq] at h; obtain ⟨rfl, rfl⟩ := h; rename_i h0; simp [h0]
    · cases h
  | succ n ih =>
    intro rd t w e w' h
    rw [fullLoop.eq_2] at h
    split at h
    · simp only [Except.ok.injEq, Prod.mk.injEq] at h; obtain ⟨rfl, rfl⟩ := h; rename_i h0; simp [h0]
    · split at h
      · cases h
      · rename_i r hr
        have := fullBlock_count fuel bufSize hL fill blockMax rd t w _ hr
        simp only [Except.ok.injEq] at h
        subst h
        simp only [RoundOk] at this
        exact ⟨this.1, fun he => absurd he this.2⟩
      · rename_i rd' bp t' w1 hr
        have := fullBlock_count fuel bufSize hL fill blockMax rd t w _ hr
        simp only [RoundOk] at this
        obtain ⟨d, hd, rfl, hw1⟩ := this
        obtain ⟨a, b⟩ := ih _ _ _ _ _ h
        exact ⟨by omega, fun he => by have := b he; omega⟩

end MsPack.Oab

namespace MsPack.Oab
open MsPack MsPack.Generated

theorem patchBlock_count (fuel bufSize lzxBuf : Nat) (hL : LzxCount fuel bufSize) (fill : UInt8) (blockMax : Nat) (base : Bytes)
    (ob : Bool) (rd : Rd) (bp t : Nat) (w : Bytes) (r : Round)
    (h : patchBlock fuel bufSize lzxBuf fill blockMax base ob rd bp t w = .ok r) :
    RoundOk w t r := by
  -- (`split at h` keeps the previous `h` in the context; `subst`-ing `r` would re-check that large term with
  --  `lzxInit … 4096 …` in it, so the goal is rewritten instead)
  unfold patchBlock at h
  split at h
  · simp only [Except.ok.injEq] at h; subst h; simp [RoundOk]
  · rename_i buf infh hre
    simp only at h
    split at h
    · simp only [Except.ok.injEq] at h; subst h; simp [RoundOk]
    · rename_i hguard
      have hle : u32At buf patchblk_TargetSize ≤ t := by
        simp only [not_or, Nat.not_lt] at hguard; omega
      -- (`lzxInit … 4096 …` has a literal buffer size: `split` would evaluate its way into `Lzx.init`; keep it opaque)
      generalize lzxInit _ _ lzxBuf _ fill = li at h
      cases li with
      | none => simp only [Except.ok.injEq] at h; subst h; simp [RoundOk]
      | some lzx =>
        simp only at h
        -- keep the reference-data call opaque too: its result is only tested and passed on
        generalize Lzx.setReferenceData lzx (u32At buf patchblk_SourceSize) _ = sr at h
        split at h
        · rename_i hse
          simp only [Except.ok.injEq] at h; subst h
          simp only [RoundOk]
          exact ⟨by omega, hse⟩
        · split at h
          · cases h
          · rename_i b hb
            obtain ⟨b1, b2⟩ := hL _ _ _ _ hb
            split at h
            · rename_i hbe
              simp only [Except.ok.injEq] at h; subst h
              simp only [RoundOk, List.length_append]
              exact ⟨by omega, hbe⟩
            · rename_i hbe
              have hbe' : b.err = .ok := by simpa using hbe
              simp only [Except.ok.injEq] at h; subst h
              simp only [RoundOk]
              exact ⟨_, hle, rfl, by simp only [List.length_append]; rw [b2 hbe']⟩

theorem patchLoop_count (fuel bufSize lzxBuf : Nat) (hL : LzxCount fuel bufSize) (fill : UInt8) (blockMax : Nat) (base : Bytes) (ob : Bool) :
    ∀ (n : Nat) (rd : Rd) (bp t : Nat) (w : Bytes) (e : Err) (w' : Bytes),
    patchLoop fuel bufSize lzxBuf fill blockMax base ob n rd bp t w = .ok (e, w') →
    w'.length ≤ w.length + t ∧ (e = .ok → w'.length = w.length + t) := by
  intro n
  induction n with
  | zero =>
    intro rd bp t w e w' h
    rw [patchLoop.eq_1] at h
    split at h
    · simp only [Except.ok.injEq, Prod.mk.injEq] at h; obtain ⟨rfl, rfl⟩ := h; rename_i h0; simp [h0]
    · cases h
  | succ n ih =>
    intro rd bp t w e w' h
    rw [patchLoop.eq_2] at h
    split at h
    · simp only [Except.ok.injEq, Prod.mk.injEq] at h; obtain ⟨rfl, rfl⟩ := h; rename_i h0; simp [h0]
    · split at h
      · cases h
      · rename_i r hr
        have := patchBlock_count fuel bufSize lzxBuf hL fill blockMax base ob rd bp t w _ hr
        simp only [Except.ok.injEq] at h
        subst h
        simp only [RoundOk] at this
        exact ⟨this.1, fun he => absurd he this.2⟩
      · rename_i rd' bp' t' w1 hr
        have := patchBlock_count fuel bufSize lzxBuf hL fill blockMax base ob rd bp t w _ hr
        simp only [RoundOk] at this
        obtain ⟨d, hd, rfl, hw1⟩ := this
        obtain ⟨a, b⟩ := ih _ _ _ _ _ _ h
        exact ⟨by omega, fun he => by have := b he; omega⟩

theorem wrapLoop_ok (res : Except Fault (Err × Bytes)) (e : Err) (w : Bytes)
    (h : wrapLoop res = .ok ⟨e, some w⟩) : res = .ok (e, w) := by
  cases res with
  | error f => cases h
  | ok p =>
    obtain ⟨e', w'⟩ := p
    simp only [wrapLoop, Except.ok.injEq, Out.mk.injEq, Option.some.injEq] at h
    obtain ⟨rfl, rfl⟩ := h
    rfl

/-- `oabd_decompress`, any input: what reached the output is at most the header's TargetSize, and exactly
    that on MSPACK_ERR_OK -/
theorem decompress_count (fuel bufSize : Nat) (hL : LzxCount fuel bufSize) (fill : UInt8) (file : Bytes) (outIsIn : Bool)
    (e : Err) (w : Bytes) (h : decompress fuel bufSize fill (some file) outIsIn = .ok ⟨e, some w⟩) :
    ∃ hdr infh, (⟨file, 0⟩ : Rd).readExact oabheadSIZEOF = some (hdr, infh) ∧
      w.length ≤ u32At hdr oabhead_TargetSize ∧ (e = .ok → w.length = u32At hdr oabhead_TargetSize) := by
  unfold decompress at h
  simp only at h
  split at h
  · cases h
  · rename_i hdr infh hre
    refine ⟨hdr, infh, hre, ?_⟩
    split at h
    · cases h
    · unfold fullRun at h
      -- header fields opaque from here on (see the note on `fullRun` in the model)
      generalize u32At hdr oabhead_TargetSize = ts at h ⊢
      generalize u32At hdr oabhead_BlockMax = bm at h
      -- (no case split in this context: `split`/`cases` evaluate their way into the loop; `wrapLoop_ok` does it outside)
      have hl := wrapLoop_ok _ e w h
      have := fullLoop_count fuel bufSize hL fill _ _ _ _ _ _ _ hl
      exact ⟨by have := this.1; simp only [List.length_nil, Nat.zero_add] at this; exact this,
             fun he => by have := this.2 he; simp only [List.length_nil, Nat.zero_add] at this; exact this⟩

/-- `oabd_decompress_incremental`, any patch and base -/
theorem decompressIncremental_count (fuel bufSize : Nat) (hL : LzxCount fuel bufSize) (fill : UInt8) (file : Bytes)
    (base : Option Bytes) (outIsIn outIsBase : Bool) (e : Err) (w : Bytes)
    (h : decompressIncremental fuel bufSize fill (some file) base outIsIn outIsBase = .ok ⟨e, some w⟩) :
    ∃ hdr infh, (⟨file, 0⟩ : Rd).readExact patchheadSIZEOF = some (hdr, infh) ∧
      w.length ≤ u32At hdr patchhead_TargetSize ∧ (e = .ok → w.length = u32At hdr patchhead_TargetSize) := by
  unfold decompressIncremental at h
  simp only at h
  unfold incrementalOpened at h
  split at h
  · cases h
  · rename_i hdr infh hre
    refine ⟨hdr, infh, hre, ?_⟩
    split at h
    · cases h
    · unfold incrementalBase at h
      split at h
      · cases h
      · unfold incrementalLoop at h
        generalize u32At hdr patchhead_TargetSize = ts at h ⊢
        generalize u32At hdr patchhead_BlockMax = bm at h
        have hl := wrapLoop_ok _ e w h
        have := patchLoop_count fuel bufSize 4096 hL fill _ _ _ _ _ _ _ _ _ _ hl
        exact ⟨by have := this.1; simp only [List.length_nil, Nat.zero_add] at this; exact this,
               fun he => by have := this.2 he; simp only [List.length_nil, Nat.zero_add] at this; exact this⟩

end MsPack.Oab
