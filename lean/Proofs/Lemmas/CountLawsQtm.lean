import Lean
import Proofs.Lemmas.CountLaws
/-!
# Counting law of the Quantum decoder (lemmas for C07Qtm)

`Bal T r` — bytes handed to `write` so far + bytes still owed = the request — is kept by every
step of `qtmd_decompress`'s body, except between a `writeOut n` and the `out_bytes -= n` that
follows it; those two sites (window wrap inside a match, window wrap between frames) are treated as
one step each, from the state the `get` just before them returned (`Keeps.get_bind_from`).
-/
namespace MsPack.CountLaws.Qtm
open MsPack.Qtm MsPack.Generated MsPack.CountLaws
variable {σ : Type} (S : Src σ) (T : Nat)

section run
variable {ε s α β : Type}

theorem run_get_bind (f : s → ExceptT ε (StateM s) β) (st : s) :
    (MonadState.get >>= f).run.run st = (f st).run.run st := by
  rw [run_bind]; rfl
theorem run_throw_bind (e : ε) (f : α → ExceptT ε (StateM s) β) (st : s) :
    ((throw e : ExceptT ε (StateM s) α) >>= f).run.run st = (.error e, st) := by
  rw [run_bind]; rfl
theorem run_modify (g : s → s) (st : s) :
    (modify g : ExceptT ε (StateM s) PUnit).run.run st = (.ok ⟨⟩, g st) := rfl
theorem run_modify_bind (g : s → s) (f : PUnit → ExceptT ε (StateM s) β) (st : s) :
    (modify g >>= f).run.run st = (f ⟨⟩).run.run (g st) := by
  rw [run_bind]; rfl
theorem run_pure (a : α) (st : s) : (pure a : ExceptT ε (StateM s) α).run.run st = (.ok a, st) := rfl
theorem run_ite (c : Prop) [Decidable c] (a b : ExceptT ε (StateM s) α) (st : s) :
    (if c then a else b).run.run st = if c then a.run.run st else b.run.run st := by
  split <;> rfl
end run

theorem writeOut_run (p n : Nat) (r : Run σ) :
    (writeOut p n).run.run r =
      if n > 0 ∧ p + n > r.st.window.size then (.error (.fault (.oob "qtmd window (write)")), r)
      else (.ok (), { r with written := r.written ++ r.st.window.extract p (p + n) }) := by
  unfold writeOut
  simp only [run_get_bind, run_ite, run_throw_bind, run_modify]

/-- `writeOut n` followed by `out_bytes -= n`, from a balanced state that still owes `n` bytes -/
theorem KeepsFrom_write {β : Type} {r : Run σ} (hr : Bal T r) (p n : Nat) (hn : n ≤ r.outBytes)
    (g : Run σ → Run σ) (hg : ∀ r', (g r').written = r'.written ∧ (g r').outBytes = r'.outBytes - n)
    (rest : PUnit → QM σ β) (hrest : ∀ u, Keeps (Bal T) (rest u)) :
    KeepsFrom (Bal T) r (writeOut p n >>= fun _ => modify g >>= rest) := by
  constructor
  intro res s' h
  rw [run_bind, writeOut_run] at h
  by_cases hc : n > 0 ∧ p + n > r.st.window.size
  · rw [if_pos hc] at h; cases h; exact hr
  · rw [if_neg hc] at h
    dsimp only at h
    rw [run_modify_bind] at h
    refine (hrest _).out _ ?_ _ _ h
    unfold Bal at *
    rw [(hg _).1, (hg _).2]
    dsimp only
    have : (r.st.window.extract p (p + n)).size = n := by
      simp only [Array.size_extract]; omega
    rw [Array.size_append, this]
    omega

/-- `fail` never returns: what follows it does not matter -/
theorem KeepsFrom_fail_bind {α β : Type} {r : Run σ} (hr : Bal T r) (e : Err) (k : α → QM σ β) :
    KeepsFrom (Bal T) r (Qtm.fail e >>= k) := by
  constructor
  intro res s' h
  unfold Qtm.fail modSt at h
  rw [run_bind, run_modify_bind] at h
  change (Except.error (Halt.sys e), _) = _ at h
  cases h
  exact hr

section tactics
open Lean Elab Tactic Meta

/-- does `e` reach a `writeOut` without passing another `get >>= …`? -/
def directWrite (e : Expr) : Bool :=
  if e.isConstOf ``Qtm.writeOut then true
  else match e with
    | .app f a =>
      if e.isAppOf ``Bind.bind && e.getAppNumArgs == 6 && (e.getArg! 4).isAppOf ``MonadState.get then false
      else directWrite f || directWrite a
    | .lam _ _ b _ => directWrite b
    | .letE _ _ v b _ => directWrite v || directWrite b
    | .mdata _ b => directWrite b
    | _ => false

/-- goal `Keeps I (get >>= f)` where `f` writes before it looks at the state again: continue from
    exactly the state `get` returned -/
elab "keeps_special" : tactic => withMainContext do
  let g ← getMainGoal
  let t ← instantiateMVars (← g.getType)
  unless t.isAppOf ``Keeps do throwError "not a Keeps goal"
  let m := t.appArg!
  unless m.isAppOf ``Bind.bind && m.getAppNumArgs == 6 && (m.getArg! 4).isAppOf ``MonadState.get do
    throwError "not a get"
  unless directWrite (m.getArg! 5) do throwError "no write"
  evalTactic (← `(tactic| (refine Keeps.get_bind_from ?_; intro _ _)))

/-- a `KeepsFrom` goal with no write ahead: nothing special left, go back to `Keeps` -/
elab "keeps_back" : tactic => withMainContext do
  let g ← getMainGoal
  let t ← instantiateMVars (← g.getType)
  unless t.isAppOf ``KeepsFrom do throwError "not a KeepsFrom goal"
  if directWrite t.appArg! then throwError "a write is ahead"
  evalTactic (← `(tactic| (refine KeepsFrom.of_keeps ?_ ?_ <;> try assumption)))

end tactics

macro_rules | `(tactic| keeps_extra) => `(tactic| first
  | keeps_special
  | keeps_back
  | (refine KeepsFrom_fail_bind _ ?_ _ _; assumption)
  | (refine KeepsFrom_write _ ?_ _ _ ?_ _ ?_ _ ?_
     · assumption
     · omega
     · intro _; exact ⟨rfl, rfl⟩))


theorem symbolLoop_keeps (fuel frameEnd : Nat) : ∀ n, Keeps (Bal T) (symbolLoop S fuel frameEnd n) := by
  intro n
  induction n with
  | zero => rw [symbolLoop.eq_1]; keeps_auto
  | succ n ih =>
    rw [symbolLoop.eq_2]
    keeps_auto [getSymbol_keeps S T, readOffset_keeps S T, tableAt_keeps T, readManyBits_keeps S T, fail_keeps T,
      copyMasked_keeps T, copyFwd_keeps T]

theorem blockLoop_keeps (fuel : Nat) : ∀ n, Keeps (Bal T) (Qtm.blockLoop S fuel n) := by
  intro n
  induction n with
  | zero => rw [Qtm.blockLoop.eq_1]; keeps_auto
  | succ n ih =>
    rw [Qtm.blockLoop.eq_2]
    keeps_auto [readBits_keeps S T, symbolLoop_keeps S T, fail_keeps T, removeBits_keeps T, trailerScan_keeps S T]

/-- how `body` may end from a balanced state: normally with the whole request written, otherwise
    with at most the request written -/
def Fin (T : Nat) : Except Qtm.Halt Unit × Run σ → Prop
  | (.ok _, r) => r.written.size = T
  | (.error _, r) => r.written.size ≤ T

theorem body_fin (fuel : Nat) (r0 : Run σ) (h0 : Bal T r0) : Fin T ((body S fuel).run.run r0) := by
  unfold body
  rw [run_get_bind, run_bind]
  cases hr : (Qtm.blockLoop S fuel (2 * r0.outBytes + 4)).run.run r0 with
  | mk res r1 =>
    have h1 : Bal T r1 := (blockLoop_keeps S T fuel _).out r0 h0 _ _ hr
    unfold Bal at h1
    cases res with
    | error e => show r1.written.size ≤ T; omega
    | ok u =>
      dsimp only
      rw [run_get_bind, run_ite]
      split
      · rw [run_bind, writeOut_run]
        by_cases hc : r1.outBytes > 0 ∧ r1.st.oPtr + r1.outBytes > r1.st.window.size
        · rw [if_pos hc]; show r1.written.size ≤ T; omega
        · rw [if_neg hc]
          dsimp only
          rw [run_modify]
          show (r1.written ++ r1.st.window.extract r1.st.oPtr (r1.st.oPtr + r1.outBytes)).size = T
          rw [Array.size_append, Array.size_extract]
          omega
      · rename_i h0'
        rw [run_pure]
        show r1.written.size = T
        omega

/-- **counting law of `qtmd_decompress`**, every source, fuel, state and request size -/
theorem decompress_count (fuel : Nat) (st : St σ) (n : Nat) (o : DecodeOut (St σ))
    (h : Qtm.decompress S fuel st n = .ok o) :
    o.written.length ≤ n ∧ (o.err = .ok → o.written.length = n) := by
  unfold Qtm.decompress at h
  split at h
  · rename_i he
    cases h
    exact ⟨Nat.zero_le _, fun hc => absurd hc he⟩
  · dsimp only at h
    generalize hi : (if st.oEnd - st.oPtr > n then n else st.oEnd - st.oPtr) = i at h
    have hin : i ≤ n := by rw [← hi]; split <;> omega
    split at h
    · cases h
    · rename_i hg
      have hsz : (st.window.extract st.oPtr (st.oPtr + i)).size = i := by
        simp only [Array.size_extract]; omega
      split at h
      · cases h
        simp only [Array.length_toList, hsz]
        omega
      · split at h
        · cases h
        · rename_i e r heq
          cases h
          have hle : Fin n (Except.error (Halt.sys e), r) := by
            rw [← heq]; exact body_fin S n fuel _ (by unfold Bal; show (st.window.extract st.oPtr (st.oPtr + i)).size + (n - i) = n; rw [hsz]; omega)
          replace hle : r.written.size ≤ n := hle
          refine ⟨by simpa using hle, fun hc => absurd hc ?_⟩
          exact (body_throws S fuel).out _ _ _ heq
        · rename_i r heq
          cases h
          have hb : Fin n (Except.ok (), r) := by
            rw [← heq]; exact body_fin S n fuel _ (by unfold Bal; show (st.window.extract st.oPtr (st.oPtr + i)).size + (n - i) = n; rw [hsz]; omega)
          have heq' : r.written.size = n := hb
          simp only [Array.length_toList, heq']
          exact ⟨Nat.le_refl _, fun _ => trivial⟩

end MsPack.CountLaws.Qtm
