import Proofs.Lemmas.QtmModelBounds
/-!
# Quantum: memory safety of `qtmd_decompress` on the model

* `StInv st` — the invariant of `struct qtmd_stream` between calls (window allocated at its declared
  size, 1024 ≤ size ≤ 2^21, `o_end` and `window_posn` inside the window, bit buffer of at most 32
  bits, and `Model.Ok` for each of the nine models with the symbol bound its users need).
* `RInv ws wp r` — the same for the running decoder (struct + locals), with the window size and the
  local `window_posn` named so that helper lemmas also say "these did not change".
* `wp x Q E A r` — weakest precondition for the monad `QM`: running `x` from `r` ends normally in a
  state satisfying `Q`, or with a status code in a state satisfying `E`, or with a fault in `A`.
  All lemmas use `E = EI` (the struct invariant holds) and `A = Allowed S` (the fault is the
  iteration bound `hang`, or a fault the *source* `S.read` returned itself).
-/
set_option linter.unusedSimpArgs false
set_option linter.unusedVariables false
namespace MsPack.Qtm
open MsPack MsPack.Generated

/-! ## invariants -/

/-- the window/bit-buffer part of the stream invariant, over the raw values -/
structure WinInv (wsz ws oEnd wp bl bb : Nat) : Prop where
  wsz  : wsz = ws
  lo   : 1024 ≤ ws
  hi   : ws ≤ 2097152
  oend : oEnd ≤ ws
  posn : wp ≤ ws
  bl   : bl ≤ 32
  bb   : bb < u32

/-- the model part: every model satisfies `Model.Ok` with the symbol bound its users rely on
    (42 = dimension of `extra_bits`/`position_base`, 27 = dimension of `length_base`/`length_extra`) -/
structure ModInv (m0 m1 m2 m3 m4 m5 m6 m6len m7 : Model) : Prop where
  m0 : m0.Ok 65536
  m1 : m1.Ok 65536
  m2 : m2.Ok 65536
  m3 : m3.Ok 65536
  m4 : m4.Ok 42
  m5 : m5.Ok 42
  m6 : m6.Ok 42
  m6len : m6len.Ok 27
  m7 : m7.Ok 65536

/-- invariant of `struct qtmd_stream` between two calls of `qtmd_decompress` -/
def StInv {σ : Type} (st : St σ) : Prop :=
  WinInv st.window.size st.windowSize st.oEnd st.windowPosn st.bitsLeft st.bitBuffer ∧
  ModInv st.model0 st.model1 st.model2 st.model3 st.model4 st.model5 st.model6 st.model6len st.model7

/-- the symbols a model can deliver -/
def MId.B : MId → Nat
  | .m4 => 42 | .m5 => 42 | .m6 => 42 | .m6len => 27
  | .m0 => 65536 | .m1 => 65536 | .m2 => 65536 | .m3 => 65536 | .m7 => 65536

theorem StInv.model {σ : Type} {st : St σ} (h : StInv st) (id : MId) : (st.model id).Ok id.B := by
  cases id
  · exact h.2.m0
  · exact h.2.m1
  · exact h.2.m2
  · exact h.2.m3
  · exact h.2.m4
  · exact h.2.m5
  · exact h.2.m6
  · exact h.2.m6len
  · exact h.2.m7

theorem StInv.setModel {σ : Type} {st : St σ} (h : StInv st) (id : MId) (m : Model) (hm : m.Ok id.B) :
    StInv (st.setModel id m) := by
  obtain ⟨hw, h0, h1, h2, h3, h4, h5, h6, h6l, h7⟩ := h
  cases id
  · exact ⟨hw, hm, h1, h2, h3, h4, h5, h6, h6l, h7⟩
  · exact ⟨hw, h0, hm, h2, h3, h4, h5, h6, h6l, h7⟩
  · exact ⟨hw, h0, h1, hm, h3, h4, h5, h6, h6l, h7⟩
  · exact ⟨hw, h0, h1, h2, hm, h4, h5, h6, h6l, h7⟩
  · exact ⟨hw, h0, h1, h2, h3, hm, h5, h6, h6l, h7⟩
  · exact ⟨hw, h0, h1, h2, h3, h4, hm, h6, h6l, h7⟩
  · exact ⟨hw, h0, h1, h2, h3, h4, h5, hm, h6l, h7⟩
  · exact ⟨hw, h0, h1, h2, h3, h4, h5, h6, hm, h7⟩
  · exact ⟨hw, h0, h1, h2, h3, h4, h5, h6, h6l, hm⟩

theorem St.setModel_windowSize {σ : Type} (st : St σ) (id : MId) (m : Model) :
    (st.setModel id m).windowSize = st.windowSize := by cases id <;> rfl

/-- replacing the window contents by an array of the same size -/
theorem StInv.withWindow {σ : Type} {st : St σ} (h : StInv st) (w : Array UInt8)
    (hw : w.size = st.window.size) : StInv { st with window := w } :=
  ⟨⟨hw.trans h.1.wsz, h.1.lo, h.1.hi, h.1.oend, h.1.posn, h.1.bl, h.1.bb⟩, h.2⟩

/-- moving `o_ptr`, `o_end` -/
theorem StInv.withOut {σ : Type} {st : St σ} (h : StInv st) (p e : Nat) (he : e ≤ st.windowSize) :
    StInv { st with oPtr := p, oEnd := e } :=
  ⟨⟨h.1.wsz, h.1.lo, h.1.hi, he, h.1.posn, h.1.bl, h.1.bb⟩, h.2⟩

/-- invariant of the running decoder; `ws` = the window size, `wp` = the local `window_posn` -/
def RInv {σ : Type} (ws wp : Nat) (r : Run σ) : Prop :=
  StInv r.st ∧ r.st.windowSize = ws ∧ r.windowPosn = wp ∧ r.bitsLeft ≤ 32 ∧ r.bitBuffer < u32

theorem u32_pos : 0 < u32 := by rw [u32_eq]; omega

/-! ## weakest preconditions for `QM` -/

variable {σ : Type} (S : Src σ)

/-- a fault the decoder may end with: the iteration bound, or a fault handed up by the source -/
def Allowed (f : Fault) : Prop := f = .hang ∨ ∃ s n, S.read s n = .error f

/-- on a status-code exit the struct invariant holds -/
abbrev EI : Run σ → Prop := fun r => StInv r.st

def wp {α : Type} (x : QM σ α) (Q : α → Run σ → Prop) (E : Run σ → Prop) (A : Fault → Prop)
    (r : Run σ) : Prop :=
  match x.run.run r with
  | (.ok a, r') => Q a r'
  | (.error (.sys _), r') => E r'
  | (.error (.fault f), _) => A f

section
variable {α β : Type} {Q : α → Run σ → Prop} {E : Run σ → Prop} {A : Fault → Prop} {r : Run σ}

theorem wp_pure (a : α) : wp (pure a : QM σ α) Q E A r ↔ Q a r := by
  simp [wp, ExceptT.run, pure, ExceptT.pure, ExceptT.mk, StateT.run, StateT.pure]

theorem wp_bind (x : QM σ α) (f : α → QM σ β) {Q : β → Run σ → Prop} :
    wp (x >>= f) Q E A r ↔ wp x (fun a r' => wp (f a) Q E A r') E A r := by
  simp only [wp, ExceptT.run, bind, ExceptT.bind, ExceptT.mk, StateT.run, StateT.bind, ExceptT.bindCont]
  cases h : x r with
  | mk res r' =>
    cases res with
    | ok a => simp [h]
    | error e => cases e <;> simp [h, pure, StateT.pure]

theorem wp_get {Q : Run σ → Run σ → Prop} : wp (get : QM σ (Run σ)) Q E A r ↔ Q r r := by
  simp [wp, ExceptT.run, get, getThe, MonadStateOf.get, liftM, monadLift, MonadLift.monadLift,
    ExceptT.lift, ExceptT.mk, StateT.run, StateT.get, StateT.bind, StateT.map, Functor.map, pure,
    StateT.pure, bind]

theorem wp_set (s : Run σ) {Q : Unit → Run σ → Prop} : wp (set s : QM σ Unit) Q E A r ↔ Q () s := by
  simp [wp, ExceptT.run, set, MonadStateOf.set, liftM, monadLift, MonadLift.monadLift, ExceptT.lift,
    ExceptT.mk, StateT.run, StateT.set, StateT.bind, StateT.map, Functor.map, pure, StateT.pure, bind]

theorem wp_modify (g : Run σ → Run σ) {Q : Unit → Run σ → Prop} :
    wp (modify g : QM σ Unit) Q E A r ↔ Q () (g r) := by
  simp [wp, ExceptT.run, modify, modifyGet, MonadStateOf.modifyGet, liftM, monadLift,
    MonadLift.monadLift, ExceptT.lift, ExceptT.mk, StateT.run, StateT.modifyGet, StateT.bind,
    StateT.map, Functor.map, pure, StateT.pure, bind]

theorem wp_throw_sys (e : Err) : wp (throw (Halt.sys e) : QM σ α) Q E A r ↔ E r := by
  simp [wp, ExceptT.run, throw, throwThe, MonadExceptOf.throw, ExceptT.mk, StateT.run, pure, StateT.pure]

theorem wp_throw_fault (f : Fault) : wp (throw (Halt.fault f) : QM σ α) Q E A r ↔ A f := by
  simp [wp, ExceptT.run, throw, throwThe, MonadExceptOf.throw, ExceptT.mk, StateT.run, pure, StateT.pure]

theorem wp_ite (c : Prop) [Decidable c] (x y : QM σ α) :
    wp (if c then x else y) Q E A r ↔ (c → wp x Q E A r) ∧ (¬ c → wp y Q E A r) := by
  split <;> simp [*]

theorem wp_mono {x : QM σ α} {Q Q' : α → Run σ → Prop} (h : wp x Q E A r)
    (hq : ∀ a r', Q a r' → Q' a r') : wp x Q' E A r := by
  unfold wp at *
  split <;> simp_all

/-- both branches establish a mid-condition `P` from which the continuation goes on -/
theorem wp_ite_mid (P : α → Run σ → Prop) (c : Prop) [Decidable c] (x y : QM σ α)
    (hx : c → wp x P E A r) (hy : ¬ c → wp y P E A r) (hQ : ∀ a r', P a r' → Q a r') :
    wp (if c then x else y) Q E A r := by
  split
  · exact wp_mono (hx ‹_›) hQ
  · exact wp_mono (hy ‹_›) hQ
end

/-! ## the input side: `read_input`, `READ_BYTES`, `ENSURE_BITS`, `PEEK_BITS`, `REMOVE_BITS` -/

variable {ws wp₀ : Nat} {r : Run σ}

theorem fail_wp {α : Type} {Q : α → Run σ → Prop} (e : Err) (h : StInv r.st) :
    wp (fail e : QM σ α) Q EI (Allowed S) r := by
  unfold fail
  simp only [wp_bind, modSt, wp_modify, wp_throw_sys]
  exact h

theorem liftF_wp {α : Type} {Q : α → Run σ → Prop} (x : Except Fault α) (a : α) (hx : x = .ok a)
    (hQ : Q a r) : wp (liftF x : QM σ α) Q EI (Allowed S) r := by
  subst hx
  simp only [liftF, wp_pure]
  exact hQ

theorem readInput_wp {Q : Unit → Run σ → Prop} (h : RInv ws wp₀ r)
    (hQ : ∀ r', RInv ws wp₀ r' → r'.inbuf ≠ [] → r'.bitsLeft = r.bitsLeft → Q () r') :
    wp (readInput S) Q EI (Allowed S) r := by
  unfold readInput
  simp only [wp_bind, wp_get]
  split
  · rename_i f heq
    simp only [wp_throw_fault]
    exact Or.inr ⟨_, _, heq⟩
  · simp only [wp_bind, wp_set, wp_throw_sys]
    exact h.1
  · simp only [wp_ite, wp_bind, wp_set, wp_throw_sys]
    refine ⟨fun _ => h.1, fun _ => hQ _ h (by simp) rfl⟩
  · rename_i got src hne heq
    simp only [wp_set]
    refine hQ _ h ?_ rfl
    exact hne

theorem nextByte_wp {Q : Nat → Run σ → Prop} (h : RInv ws wp₀ r)
    (hQ : ∀ b r', RInv ws wp₀ r' → r'.bitsLeft = r.bitsLeft → Q b r') :
    wp (nextByte S) Q EI (Allowed S) r := by
  unfold nextByte
  simp only [wp_bind, wp_get, wp_ite, wp_pure]
  constructor
  · intro _
    apply readInput_wp S h
    intro r1 h1 hne hbl
    split
    · simp only [wp_bind, wp_set, wp_pure]
      exact hQ _ _ h1 hbl
    · rename_i he; exact absurd he hne
  · intro hne
    split
    · simp only [wp_bind, wp_set, wp_pure]
      exact hQ _ _ h rfl
    · rename_i he; simp [he] at hne

theorem readBytes_wp {Q : Unit → Run σ → Prop} (h : RInv ws wp₀ r) (hb : r.bitsLeft ≤ 16)
    (hQ : ∀ r', RInv ws wp₀ r' → r'.bitsLeft = r.bitsLeft + 16 → Q () r') :
    wp (readBytes S) Q EI (Allowed S) r := by
  unfold readBytes
  simp only [wp_bind]
  apply nextByte_wp S h
  intro b0 r1 h1 e1
  apply nextByte_wp S h1
  intro b1 r2 h2 e2
  simp only [wp_get, wp_ite, wp_pure, wp_set, wp_throw_fault]
  refine ⟨fun hc => ?_, fun _ => ?_⟩
  · omega
  · refine hQ _ ⟨h2.1, h2.2.1, h2.2.2.1, ?_, Nat.mod_lt _ u32_pos⟩ ?_
    · show r2.bitsLeft + 16 ≤ 32
      omega
    · show r2.bitsLeft + 16 = r.bitsLeft + 16
      omega

theorem ensureBits_wp {Q : Unit → Run σ → Prop} (n k : Nat) (hn : n ≤ 17) (h : RInv ws wp₀ r)
    (hQ : ∀ r', RInv ws wp₀ r' → Q () r') : wp (ensureBits S n k) Q EI (Allowed S) r := by
  induction k generalizing r with
  | zero =>
    simp only [ensureBits, wp_throw_fault]
    exact Or.inl rfl
  | succ k ih =>
    simp only [ensureBits, wp_bind, wp_get, wp_ite, wp_pure]
    refine ⟨fun hc => ?_, fun _ => hQ _ h⟩
    apply readBytes_wp S h (by omega)
    intro r1 h1 _
    exact ih h1

theorem pow_split (n : Nat) (hn : n ≤ 32) : 2 ^ n * 2 ^ (32 - n) = u32 := by
  rw [← Nat.pow_add]
  have : n + (32 - n) = 32 := by omega
  rw [this]; rfl

theorem peekBits_wp {Q : Nat → Run σ → Prop} (n : Nat) (hn : 1 ≤ n ∧ n ≤ 32) (h : RInv ws wp₀ r)
    (hQ : ∀ v, v < 2 ^ n → Q v r) : wp (peekBits n : QM σ Nat) Q EI (Allowed S) r := by
  unfold peekBits
  simp only [wp_bind, wp_get, wp_ite, wp_pure, wp_throw_fault]
  refine ⟨fun hc => by omega, fun _ => hQ _ ?_⟩
  rw [Nat.shiftRight_eq_div_pow, Nat.div_lt_iff_lt_mul (Nat.two_pow_pos _), pow_split n hn.2]
  exact h.2.2.2.2

theorem removeBits_wp {Q : Unit → Run σ → Prop} (n : Nat) (hn : n < 32) (h : RInv ws wp₀ r)
    (hQ : ∀ r', RInv ws wp₀ r' → r'.bitsLeft = r.bitsLeft - n → Q () r') :
    wp (removeBits n : QM σ Unit) Q EI (Allowed S) r := by
  unfold removeBits
  simp only [wp_bind, wp_ite, wp_pure, wp_throw_fault, wp_modify]
  refine ⟨fun hc => by omega, fun _ => hQ _ ⟨h.1, h.2.1, h.2.2.1, ?_, Nat.mod_lt _ u32_pos⟩ rfl⟩
  show r.bitsLeft - n ≤ 32
  have := h.2.2.2.1
  omega

theorem readBits_wp {Q : Nat → Run σ → Prop} (n : Nat) (hn : 1 ≤ n ∧ n ≤ 16) (h : RInv ws wp₀ r)
    (hQ : ∀ v r', RInv ws wp₀ r' → Q v r') : wp (readBits S n) Q EI (Allowed S) r := by
  unfold readBits
  simp only [wp_bind]
  apply ensureBits_wp S n 3 (by omega) h
  intro r1 h1
  apply peekBits_wp S n (by omega) h1
  intro v _
  apply removeBits_wp S n (by omega) h1
  intro r2 h2 _
  simp only [wp_pure]
  exact hQ _ _ h2

theorem shl_or_lt (val v a b : Nat) (hv : val < 2 ^ a) (hb : v < 2 ^ b) : shl val b ||| v < 2 ^ (a + b) := by
  apply Nat.or_lt_two_pow
  · rw [shl, pow2_eq, Nat.pow_add]
    exact Nat.mul_lt_mul_of_lt_of_le hv (Nat.le_refl _) (Nat.two_pow_pos _)
  · exact Nat.lt_of_lt_of_le hb (Nat.pow_le_pow_right (by omega) (by omega))

theorem readManyLoop_wp {Q : Nat → Run σ → Prop} (k needed val a : Nat) (hn : needed < 32)
    (hv : val < 2 ^ a) (h : RInv ws wp₀ r)
    (hQ : ∀ v r', RInv ws wp₀ r' → v < 2 ^ (a + needed) → Q v r') :
    wp (readManyLoop S k needed val) Q EI (Allowed S) r := by
  induction k generalizing r needed val a with
  | zero =>
    simp only [readManyLoop, wp_ite, wp_throw_fault, wp_pure]
    refine ⟨fun _ => Or.inl rfl, fun hc => hQ _ _ h ?_⟩
    have : needed = 0 := by omega
    subst this; exact hv
  | succ k ih =>
    rw [readManyLoop]
    by_cases hn0 : needed > 0
    · rw [if_pos hn0]
      simp -zeta only [wp_bind, wp_get]
      extract_lets jp
      have hjp : ∀ u r1, RInv ws wp₀ r1 → 16 ≤ r1.bitsLeft → wp (jp u) Q EI (Allowed S) r1 := by
        intro u r1 h1 hb1
        have hbl := h1.2.2.2.1
        simp only [jp, wp_bind, wp_get]
        generalize hbr : (if r1.bitsLeft < needed then r1.bitsLeft else needed) = bitrun
        have hbr1 : 1 ≤ bitrun ∧ bitrun ≤ needed ∧ bitrun ≤ 32 := by
          rw [← hbr]; split <;> omega
        apply peekBits_wp S bitrun ⟨hbr1.1, hbr1.2.2⟩ h1
        intro v hvb
        apply removeBits_wp S bitrun (by omega) h1
        intro r2 h2 _
        apply ih (needed - bitrun) _ (a + bitrun) (by omega) (shl_or_lt _ _ _ _ hv hvb) h2
        intro v' r' h' hv'
        apply hQ _ _ h'
        have : a + bitrun + (needed - bitrun) = a + needed := by omega
        rw [this] at hv'; exact hv'
      clear_value jp
      simp only [wp_ite, wp_bind]
      refine ⟨fun hc => ?_, fun hc => hjp _ _ h (by omega)⟩
      apply readBytes_wp S h hc
      intro r1 h1 e1
      exact hjp _ _ h1 (by omega)
    · rw [if_neg hn0]
      simp only [wp_pure]
      have : needed = 0 := by omega
      subst this
      exact hQ _ _ h hv

theorem readManyBits_wp {Q : Nat → Run σ → Prop} (bits : Nat) (hb : bits ≤ 31) (h : RInv ws wp₀ r)
    (hQ : ∀ v r', RInv ws wp₀ r' → v < 2 ^ bits → Q v r') :
    wp (readManyBits S bits) Q EI (Allowed S) r := by
  unfold readManyBits
  have hm : bits % 256 = bits := by omega
  simp only [hm]
  apply readManyLoop_wp S bits bits 0 0 (by omega) (by omega) h
  intro v r' h' hv
  apply hQ _ _ h'
  simpa using hv

/-! ## `GET_SYMBOL` -/

theorem renorm_wp {Q : Unit → Run σ → Prop} (fuel : Nat) (h : RInv ws wp₀ r)
    (hQ : ∀ r', RInv ws wp₀ r' → Q () r') : wp (renorm S fuel) Q EI (Allowed S) r := by
  induction fuel generalizing r with
  | zero =>
    simp only [renorm, wp_throw_fault]
    exact Or.inl rfl
  | succ fuel ih =>
    simp only [renorm, wp_bind, wp_get]
    split
    · simp only [wp_pure]; exact hQ _ h
    · rename_i hh ll cc _
      simp only [wp_bind, wp_set]
      have h0 : RInv ws wp₀ { r with H := hh, L := ll, C := cc } := h
      apply ensureBits_wp S 1 3 (by omega) h0
      intro r1 h1
      apply peekBits_wp S 1 (by omega) h1
      intro v _
      apply removeBits_wp S 1 (by omega) h1
      intro r2 h2 _
      simp only [wp_modify]
      exact ih (r := { r2 with C := _ }) h2

theorem getSymbol_wp {Q : Nat → Run σ → Prop} (fuel : Nat) (id : MId) (h : RInv ws wp₀ r)
    (hQ : ∀ v r', RInv ws wp₀ r' → v < id.B → Q v r') :
    wp (getSymbol S fuel id) Q EI (Allowed S) r := by
  unfold getSymbol
  simp only [wp_bind, wp_get]
  obtain ⟨o, eo, ho, hs⟩ := decodeSym_spec id.B (r.st.model id) (h.1.model id) r.H r.L r.C
  apply liftF_wp S _ o eo
  simp only [wp_set]
  have h1 : RInv ws wp₀ { r with st := r.st.setModel id o.model, H := o.H, L := o.L } :=
    ⟨h.1.setModel id o.model ho, by rw [← h.2.1]; exact St.setModel_windowSize _ _ _, h.2.2.1, h.2.2.2.1, h.2.2.2.2⟩
  apply renorm_wp S fuel h1
  intro r2 h2
  simp only [wp_pure]
  exact hQ _ _ h2 hs


/-! ## the window side -/

theorem copyFwdLoop_size (n s d : Nat) (w : Array UInt8) : (copyFwdLoop n s d w).size = w.size := by
  induction n generalizing s d w with
  | zero => rfl
  | succ n ih => simp [copyFwdLoop, ih]

theorem copyMaskedLoop_size (mask n j d : Nat) (w : Array UInt8) :
    (copyMaskedLoop mask n j d w).size = w.size := by
  induction n generalizing j d w with
  | zero => rfl
  | succ n ih => simp [copyMaskedLoop, ih]

theorem RInv.wsize (h : RInv ws wp₀ r) : r.st.window.size = ws := h.1.1.wsz.trans h.2.1

theorem copyFwd_wp {Q : Unit → Run σ → Prop} (n s d : Nat) (h : RInv ws wp₀ r)
    (hb : n > 0 → s + n ≤ ws ∧ d + n ≤ ws) (hQ : ∀ r', RInv ws wp₀ r' → Q () r') :
    wp (copyFwd n s d : QM σ Unit) Q EI (Allowed S) r := by
  unfold copyFwd
  have hsz := h.wsize
  simp only [wp_bind, wp_get, wp_ite, wp_throw_fault, wp_pure, wp_modify]
  refine ⟨fun hc => ?_, fun _ => hQ _ ⟨h.1.withWindow _ (copyFwdLoop_size _ _ _ _), h.2⟩⟩
  have := hb hc.1
  omega

theorem copyMasked_wp {Q : Unit → Run σ → Prop} (n j d : Nat) (h : RInv ws wp₀ r)
    (hb : n > 0 → d + n ≤ ws) (hQ : ∀ r', RInv ws wp₀ r' → Q () r') :
    wp (copyMasked n j d : QM σ Unit) Q EI (Allowed S) r := by
  unfold copyMasked
  have hsz := h.wsize
  have hlo := h.1.1.lo
  have hws := h.2.1
  simp only [wp_bind, wp_get, wp_ite, wp_throw_fault, wp_pure, wp_modify]
  refine ⟨fun hc => ?_, fun _ => hQ _ ⟨h.1.withWindow _ (copyMaskedLoop_size _ _ _ _ _), h.2⟩⟩
  have := hb hc.1
  omega

theorem writeOut_wp {Q : Unit → Run σ → Prop} (src n : Nat) (h : RInv ws wp₀ r)
    (hb : n > 0 → src + n ≤ ws)
    (hQ : ∀ r', RInv ws wp₀ r' → r'.st = r.st → r'.outBytes = r.outBytes → Q () r') :
    wp (writeOut src n : QM σ Unit) Q EI (Allowed S) r := by
  unfold writeOut
  have hsz := h.wsize
  simp only [wp_bind, wp_get, wp_ite, wp_throw_fault, wp_pure, wp_modify]
  refine ⟨fun hc => ?_, fun _ => hQ _ h rfl rfl⟩
  have := hb hc.1
  omega

theorem tableAt_wp {Q : Nat → Run σ → Prop} (what : String) (t : List Nat) (i v : Nat)
    (hv : t[i]? = some v) (hQ : Q v r) : wp (tableAt what t i : QM σ Nat) Q EI (Allowed S) r := by
  unfold tableAt
  simp only [hv, wp_pure]
  exact hQ

theorem extraBits_ok : ∀ sym, sym < 42 → (qtmExtraBits[sym]?).any (fun v => decide (v ≤ 19)) = true := by
  decide
theorem positionBase_ok : ∀ sym, sym < 42 → (qtmPositionBase[sym]?).isSome = true := by decide
theorem lengthExtra_ok : ∀ sym, sym < 27 → (qtmLengthExtra[sym]?).any (fun v => decide (v ≤ 5)) = true := by
  decide
theorem lengthBase_ok : ∀ sym, sym < 27 → (qtmLengthBase[sym]?).any (fun v => decide (v ≤ 254)) = true := by
  decide

theorem any_le {o : Option Nat} {b : Nat} (h : o.any (fun v => decide (v ≤ b)) = true) :
    ∃ v, o = some v ∧ v ≤ b := by
  cases o with
  | none => simp at h
  | some v => exact ⟨v, rfl, by simpa using h⟩

theorem readOffset_wp {Q : Nat → Run σ → Prop} (sym : Nat) (hs : sym < 42) (h : RInv ws wp₀ r)
    (hQ : ∀ v r', RInv ws wp₀ r' → Q v r') : wp (readOffset S sym) Q EI (Allowed S) r := by
  unfold readOffset
  obtain ⟨nb, hnb, hnb19⟩ := any_le (extraBits_ok sym hs)
  obtain ⟨pb, hpb⟩ := Option.isSome_iff_exists.mp (positionBase_ok sym hs)
  simp only [wp_bind]
  apply tableAt_wp S _ _ _ nb hnb
  apply readManyBits_wp S nb (by omega) h
  intro extra r1 h1 _
  apply tableAt_wp S _ _ _ pb hpb
  simp only [wp_pure]
  exact hQ _ _ h1

/-! ## the symbol loop -/

theorem RInv.withOut (h : RInv ws wp₀ r) (p e ob : Nat) (he : e ≤ ws) :
    RInv ws wp₀ { r with st := { r.st with oPtr := p, oEnd := e }, outBytes := ob } :=
  ⟨h.1.withOut p e (by rw [h.2.1]; exact he), h.2.1, h.2.2.1, h.2.2.2⟩

theorem symbolLoop_wp {Q : Unit → Run σ → Prop} (fuel frameEnd n : Nat) (hfe : frameEnd ≤ ws)
    (hwp : wp₀ ≤ ws) (h : RInv ws wp₀ r)
    (hQ : ∀ wp' r', RInv ws wp' r' → wp' ≤ ws → Q () r') :
    wp (symbolLoop S fuel frameEnd n) Q EI (Allowed S) r := by
  induction n generalizing r wp₀ with
  | zero =>
    simp only [symbolLoop, wp_bind, wp_get, wp_ite, wp_throw_fault, wp_pure]
    exact ⟨fun _ => Or.inl rfl, fun _ => hQ _ _ h hwp⟩
  | succ n ih =>
    rw [symbolLoop]
    simp -zeta only [wp_bind, wp_get]
    rw [wp_ite]
    refine ⟨fun hlt => ?_, fun _ => by simp only [wp_pure]; exact hQ _ _ h hwp⟩
    simp -zeta only [wp_bind]
    apply getSymbol_wp S fuel .m7 h
    intro sel r1 h1 _
    rw [wp_ite]
    refine ⟨fun hsel => ?_, fun hsel => ?_⟩
    · extract_lets mid
      simp -zeta only [wp_bind]
      apply getSymbol_wp S fuel mid h1
      intro sym r2 h2 _
      simp only [wp_bind, wp_get, wp_ite, wp_throw_fault, wp_pure, wp_modify]
      have hsz := h2.wsize
      have hw2 := h2.2.2.1
      have hw0 := h.2.2.1
      refine ⟨fun hc => by omega, fun _ => ?_⟩
      refine ih (wp₀ := wp₀ + 1) (by omega) ⟨h2.1.withWindow _ (by simp), h2.2.1, ?_, h2.2.2.2⟩
      show r2.windowPosn + 1 = wp₀ + 1
      omega
    · extract_lets jp
      have hjp : ∀ mo ml r3, RInv ws wp₀ r3 → ml ≤ 290 → wp (jp (mo, ml)) Q EI (Allowed S) r3 := by
        intro mo ml r3 h3 hml
        have hsz := h3.wsize
        have hw3 : r3.windowPosn = wp₀ := h3.2.2.1
        have hws3 : r3.st.windowSize = ws := h3.2.1
        have hw0 := h.2.2.1
        have hlo := h3.1.1.lo
        have hhi := h3.1.1.hi
        have hu := u32_eq
        simp only [jp, wp_bind, wp_get, wp_ite, wp_pure, wp_modify]
        have h4 : RInv ws wp₀ { r3 with frameTodo := (r3.frameTodo + u32 - ml % u32) % u32 } :=
          ⟨h3.1, h3.2.1, h3.2.2.1, h3.2.2.2⟩
        have hmod : (r3.windowPosn + ml) % u32 = r3.windowPosn + ml := Nat.mod_eq_of_lt (by omega)
        rw [hmod]
        refine ⟨fun hwrap => ?_, fun hnw => ?_⟩
        · apply copyMasked_wp S _ _ _ h4 (by intro _; omega)
          intro r5 h5
          refine ⟨fun _ => fail_wp S _ h5.1, fun _ => ?_⟩
          apply writeOut_wp S _ _ h5 (by intro _; omega)
          intro r6 h6 _ _
          apply copyMasked_wp S _ _ _ (RInv.withOut h6 0 0 _ (Nat.zero_le _)) (by intro _; omega)
          intro r8 h8
          refine hQ (wp₀ + ml - ws) _ ⟨h8.1, h8.2.1, ?_, h8.2.2.2⟩ (by omega)
          show r3.windowPosn + ml - r3.st.windowSize = wp₀ + ml - ws
          omega
        · have fin : ∀ r5, RInv ws wp₀ r5 → wp (symbolLoop S fuel frameEnd n) Q EI (Allowed S)
              { r5 with windowPosn := r3.windowPosn + ml } := by
            intro r5 h5
            refine ih (wp₀ := wp₀ + ml) (by omega) ⟨h5.1, h5.2.1, ?_, h5.2.2.2⟩
            show r3.windowPosn + ml = wp₀ + ml
            omega
          refine ⟨fun hgt => ⟨fun _ => fail_wp S _ h4.1, fun hj => ⟨fun hjl => ?_, fun hjl => ?_⟩⟩, fun hle => ?_⟩
          · apply copyFwd_wp S _ _ _ h4 (by intro _; omega)
            intro r5 h5
            apply copyFwd_wp S _ _ _ h5 (by intro _; omega)
            intro r6 h6
            exact fin r6 h6
          · apply copyFwd_wp S _ _ _ h4 (by intro _; omega)
            intro r5 h5
            exact fin r5 h5
          · apply copyFwd_wp S _ _ _ h4 (by intro _; omega)
            intro r5 h5
            exact fin r5 h5
      clear_value jp
      simp only [wp_ite, wp_bind, wp_pure]
      refine ⟨fun _ => ?_, fun _ => ⟨fun _ => ?_, fun _ => ⟨fun _ => ?_, fun _ => fail_wp S _ h1.1⟩⟩⟩
      · apply getSymbol_wp S fuel .m4 h1
        intro sym r2 h2 hs
        apply readOffset_wp S sym hs h2
        intro mo r3 h3
        exact hjp mo 3 r3 h3 (by omega)
      · apply getSymbol_wp S fuel .m5 h1
        intro sym r2 h2 hs
        apply readOffset_wp S sym hs h2
        intro mo r3 h3
        exact hjp mo 4 r3 h3 (by omega)
      · apply getSymbol_wp S fuel .m6len h1
        intro sym r2 h2 hs
        obtain ⟨nb, hnb, hnb5⟩ := any_le (lengthExtra_ok sym hs)
        obtain ⟨lb, hlb, hlb254⟩ := any_le (lengthBase_ok sym hs)
        apply tableAt_wp S _ _ _ nb hnb
        apply readManyBits_wp S nb (by omega) h2
        intro extra r3 h3 hex
        apply tableAt_wp S _ _ _ lb hlb
        apply getSymbol_wp S fuel .m6 h3
        intro sym' r4 h4 hs'
        apply readOffset_wp S sym' hs' h4
        intro mo r5 h5
        refine hjp mo _ r5 h5 ?_
        have : 2 ^ nb ≤ 2 ^ 5 := Nat.pow_le_pow_right (by omega) hnb5
        omega

/-! ## frames, blocks, the whole call -/

theorem trailerScan_wp {Q : Unit → Run σ → Prop} (fuel : Nat) (h : RInv ws wp₀ r)
    (hQ : ∀ r', RInv ws wp₀ r' → Q () r') : wp (trailerScan S fuel) Q EI (Allowed S) r := by
  induction fuel generalizing r with
  | zero =>
    simp only [trailerScan, wp_throw_fault]
    exact Or.inl rfl
  | succ fuel ih =>
    simp only [trailerScan, wp_bind]
    apply readBits_wp S 8 (by omega) h
    intro v r1 h1
    simp only [wp_ite, wp_pure]
    exact ⟨fun _ => ih h1, fun _ => hQ _ h1⟩

theorem blockLoop_wp {Q : Unit → Run σ → Prop} (fuel n : Nat) (hwp : wp₀ ≤ ws) (h : RInv ws wp₀ r)
    (hQ : ∀ wp' r', RInv ws wp' r' → wp' ≤ ws → r'.outBytes ≤ r'.st.oEnd - r'.st.oPtr → Q () r') :
    wp (blockLoop S fuel n) Q EI (Allowed S) r := by
  induction n generalizing r wp₀ with
  | zero =>
    simp only [blockLoop, wp_bind, wp_get, wp_ite, wp_throw_fault, wp_pure]
    exact ⟨fun _ => Or.inl rfl, fun _ => hQ _ _ h hwp (by omega)⟩
  | succ n ih =>
    rw [blockLoop]
    simp -zeta only [wp_bind, wp_get]
    rw [wp_ite]
    refine ⟨fun hlt => ?_, fun _ => by simp only [wp_pure]; exact hQ _ _ h hwp (by omega)⟩
    extract_lets jpW jpT jpF jpS
    have hW : ∀ u wp1 r1, RInv ws wp1 r1 → wp1 ≤ ws → wp (jpW u) Q EI (Allowed S) r1 := by
      intro u wp1 r1 h1 hw1
      have hoe := h1.1.1.oend
      have hws := h1.2.1
      simp only [jpW, wp_bind, wp_get, wp_ite, wp_pure, wp_modify]
      refine ⟨fun _ => ⟨fun hi => hQ _ _ h1 hw1 (by omega), fun hi => ?_⟩, fun _ => ih hw1 h1⟩
      apply writeOut_wp S _ _ h1 (by intro _; omega)
      intro r2 h2 _ _
      exact ih (wp₀ := 0) (Nat.zero_le _) ⟨h2.1.withOut 0 0 (Nat.zero_le _), h2.2.1, rfl, h2.2.2.2⟩
    have hT : ∀ u wp1 r1, RInv ws wp1 r1 → wp1 ≤ ws → wp (jpT u) Q EI (Allowed S) r1 := by
      intro u wp1 r1 h1 hw1
      simp only [jpT, wp_bind, wp_modify]
      apply trailerScan_wp S fuel h1
      intro r2 h2
      exact hW () wp1 _ ⟨h2.1, h2.2.1, h2.2.2.1, h2.2.2.2⟩ hw1
    have hF : ∀ u wp1 r1, RInv ws wp1 r1 → wp1 ≤ ws → wp (jpF u) Q EI (Allowed S) r1 := by
      intro u wp1 r1 h1 hw1
      simp only [jpF, wp_bind, wp_get, wp_ite]
      refine ⟨fun _ => ⟨fun _ => ?_, fun _ => hT () wp1 _ h1 hw1⟩, fun _ => hW () wp1 _ h1 hw1⟩
      apply removeBits_wp S _ (by omega) h1
      intro r2 h2 _
      exact hT () wp1 _ h2 hw1
    have hS : ∀ u wp1 r1, RInv ws wp1 r1 → wp1 ≤ ws → wp (jpS u) Q EI (Allowed S) r1 := by
      intro u wp1 r1 h1 hw1
      have hws := h1.2.1
      simp -zeta only [jpS, wp_bind, wp_get]
      extract_lets wpv fe1 fe2 fe3
      have hfe : fe3 ≤ ws := by simp only [fe3]; split <;> omega
      simp only [wp_bind]
      apply symbolLoop_wp S fuel fe3 _ hfe hw1 h1
      intro wp2 r2 h2 hw2
      simp only [wp_modify, wp_get, wp_ite, wp_bind]
      have h3 : RInv ws wp2 { r2 with st := { r2.st with oEnd := r2.windowPosn } } :=
        ⟨h2.1.withOut r2.st.oPtr r2.windowPosn (by rw [h2.2.1, h2.2.2.1]; exact hw2), h2.2.1, h2.2.2.1, h2.2.2.2⟩
      exact ⟨fun _ => fail_wp S _ h3.1, fun _ => hF () wp2 _ h3 hw2⟩
    clear_value jpS jpF jpT jpW
    simp only [wp_ite, wp_bind, wp_modify]
    refine ⟨fun _ => ?_, fun _ => hS () wp₀ _ h hwp⟩
    have h0 : RInv ws wp₀ { r with H := 65535, L := 0 } := ⟨h.1, h.2.1, h.2.2.1, h.2.2.2⟩
    apply readBits_wp S 16 (by omega) h0
    intro c r1 h1
    exact hS () wp₀ _ ⟨h1.1, h1.2.1, h1.2.2.1, h1.2.2.2⟩ hwp

theorem body_wp {Q : Unit → Run σ → Prop} (fuel : Nat) (hwp : wp₀ ≤ ws) (h : RInv ws wp₀ r)
    (hQ : ∀ wp' r', RInv ws wp' r' → wp' ≤ ws → Q () r') :
    wp (body S fuel) Q EI (Allowed S) r := by
  unfold body
  simp only [wp_bind, wp_get]
  apply blockLoop_wp S fuel _ hwp h
  intro wp1 r1 h1 hw1 hob
  have hoe := h1.1.1.oend
  have hws := h1.2.1
  simp only [wp_get, wp_ite, wp_pure, wp_bind]
  refine ⟨fun hne => ?_, fun _ => hQ _ _ h1 hw1⟩
  apply writeOut_wp S _ _ h1 (by intro _; omega)
  intro r2 h2 hst _
  simp only [wp_modify]
  refine hQ wp1 _ ⟨h2.1.withOut _ r2.st.oEnd h2.1.1.oend, h2.2.1, h2.2.2.1, h2.2.2.2⟩ hw1

/-- what a call of `decompress` may end with -/
def DecOk (res : Except Fault (DecodeOut (St σ))) : Prop :=
  match res with
  | .ok o => StInv o.st
  | .error f => Allowed S f

theorem decompress_spec (fuel : Nat) (st : St σ) (n : Nat) (h : StInv st) :
    DecOk S (decompress S fuel st n) := by
  unfold decompress
  split
  · exact h
  · extract_lets i0 i1 w st1 ob r0
    have hile : i1 ≤ st.oEnd - st.oPtr := by simp only [i1, i0]; split <;> omega
    clear_value i1
    have hoe := h.1.oend
    have hwsz := h.1.wsz
    have hst1 : StInv st1 := h.withOut _ _ hoe
    have hr0 : RInv st.windowSize st.windowPosn r0 := ⟨hst1, rfl, rfl, h.1.bl, h.1.bb⟩
    clear_value w ob
    split
    · rename_i hc
      omega
    · split
      · exact hst1
      · have hb := body_wp S fuel (Q := fun _ r' => ∃ wp', RInv st.windowSize wp' r' ∧ wp' ≤ st.windowSize)
          h.1.posn hr0 (fun wp' r' h' hw' => ⟨wp', h', hw'⟩)
        clear_value r0
        unfold wp at hb
        split
        · rename_i f r' heq
          rw [heq] at hb
          exact hb
        · rename_i e r' heq
          rw [heq] at hb
          exact hb
        · rename_i r' heq
          rw [heq] at hb
          obtain ⟨wp', h', hw'⟩ := hb
          refine ⟨⟨h'.1.1.wsz, h'.1.1.lo, h'.1.1.hi, h'.1.1.oend, ?_, ?_, h'.2.2.2.2⟩, h'.1.2⟩
          · show r'.windowPosn ≤ r'.st.windowSize
            rw [h'.2.1, h'.2.2.1]; exact hw'
          · show r'.bitsLeft % 256 ≤ 32
            have := h'.2.2.2.1
            omega

/-- `qtmd_init` establishes the invariant -/
theorem init_StInv (src : σ) (wb ibs : Nat) (fill : UInt8) (st : St σ)
    (h : init src wb ibs fill = some st) : StInv st := by
  unfold init at h
  by_cases hwb : wb < 10 ∨ wb > 21
  · simp [hwb] at h
  · by_cases hsz : (ibs + 1) / 2 * 2 < 2
    · simp [hwb, hsz] at h
    · simp only [hwb, hsz, if_false] at h
      cases h
      have hwb1 : 10 ≤ wb := by omega
      have hwb2 : wb ≤ 21 := by omega
      have hlo : 1024 ≤ 2 ^ wb := by
        have : 2 ^ 10 ≤ 2 ^ wb := Nat.pow_le_pow_right (by omega) hwb1
        omega
      have hhi : 2 ^ wb ≤ 2097152 := by
        have : 2 ^ wb ≤ 2 ^ 21 := Nat.pow_le_pow_right (by omega) hwb2
        omega
      refine ⟨⟨by simp, hlo, hhi, Nat.zero_le _, Nat.zero_le _, Nat.zero_le _, u32_pos⟩, ?_⟩
      refine ⟨?_, ?_, ?_, ?_, ?_, ?_, ?_, ?_, ?_⟩
      all_goals (apply initModel_Ok <;> try simp only [qtmM0Dim, qtmM4Dim, qtmM5Dim, qtmM6Dim, qtmM6lenDim, qtmM7Dim])
      all_goals (try split)
      all_goals omega

end MsPack.Qtm
