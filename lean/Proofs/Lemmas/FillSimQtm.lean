import MsPack.Qtm.Decoder
import Proofs.Lemmas.FillSim
/-!
# Quantum decoder: fill independence (C11)

Two runs of `Qtm.decompress` from `init … f1` and `init … f2` (two allocator fill bytes) deliver the
same statuses and the same bytes.

The fill byte enters the state in `H`, `L`, `C` (overwritten by the frame header before the first
use) and in the cells `syms[i]`, `i > entries`, of the nine model arrays (never indexed).
-/
set_option linter.unusedSimpArgs false
set_option linter.unusedVariables false
namespace MsPack.Qtm
open MsPack MsPack.Generated MsPack.FillSim

/-! ## the pure model functions -/

/-- two models with `n` entries that agree in everything except the cells above `n` -/
structure MAgree (n : Nat) (a b : Model) : Prop where
  ea : a.entries = n
  eb : b.entries = n
  pos : 1 ≤ n
  sl : a.shiftsleft = b.shiftsleft
  ag : Agree (n + 1) a.syms b.syms

/-- result relation on `Except Fault`: the same fault, or related values -/
def ExR {α : Type} (R : α → α → Prop) : Except Fault α → Except Fault α → Prop
  | .ok a, .ok b => R a b
  | .error e, .error f => e = f
  | _, _ => False

theorem ExR.bind {α β : Type} {R : α → α → Prop} {Q : β → β → Prop} {x y : Except Fault α}
    {f g : α → Except Fault β} (h : ExR R x y) (hf : ∀ a b, R a b → ExR Q (f a) (g b)) :
    ExR Q (x >>= f) (y >>= g) := by
  cases x <;> cases y <;> simp only [ExR] at h
  · exact h
  · exact hf _ _ h

theorem ExR.bind_eq {α β : Type} {Q : β → β → Prop} (x : Except Fault α)
    {f g : α → Except Fault β} (hf : ∀ a, ExR Q (f a) (g a)) :
    ExR Q (x >>= f) (x >>= g) := by
  cases x
  · exact rfl
  · exact hf _

theorem ExR.mono {α : Type} {R Q : α → α → Prop} {x y : Except Fault α} (h : ExR R x y)
    (hq : ∀ a b, R a b → Q a b) : ExR Q x y := by
  cases x <;> cases y <;> simp only [ExR] at h ⊢
  · exact h
  · exact hq _ _ h

theorem ExR.eq_of {α : Type} {x y : Except Fault α} (h : ExR Eq x y) : x = y := by
  cases x <;> cases y <;> simp only [ExR] at h
  · rw [h]
  · rw [h]

theorem ExR.pure {α : Type} {R : α → α → Prop} {a b : α} (h : R a b) :
    ExR R (Pure.pure a : Except Fault α) (Pure.pure b) := h

section model
variable {n : Nat} {a b : Model}

theorem MAgree.sym (h : MAgree n a b) {i : Nat} (hi : i ≤ n) : a.sym i = b.sym i := by
  simp only [Model.sym, h.ag.get? (Nat.lt_succ_of_le hi)]

theorem MAgree.setCumfreq (h : MAgree n a b) {i : Nat} (hi : i ≤ n) (v : Nat) :
    ExR (MAgree n) (a.setCumfreq i v) (b.setCumfreq i v) := by
  unfold Model.setCumfreq
  have hs := h.ag.size
  by_cases hia : i < a.syms.size
  · have hib : i < b.syms.size := hs ▸ hia
    rw [dif_pos hia, dif_pos hib]
    have : a.syms[i] = b.syms[i] := h.ag.get (Nat.lt_succ_of_le hi) hia hib
    rw [this]
    exact ⟨h.ea, h.eb, h.pos, h.sl, h.ag.set _ _ hia hib⟩
  · have hib : ¬ i < b.syms.size := hs ▸ hia
    rw [dif_neg hia, dif_neg hib]
    exact rfl

theorem MAgree.setSym (h : MAgree n a b) (i : Nat) (s : ModelSym) :
    ExR (MAgree n) (a.setSym i s) (b.setSym i s) := by
  unfold Model.setSym
  have hs := h.ag.size
  by_cases hia : i < a.syms.size
  · have hib : i < b.syms.size := hs ▸ hia
    rw [dif_pos hia, dif_pos hib]
    exact ⟨h.ea, h.eb, h.pos, h.sl, h.ag.set _ _ hia hib⟩
  · have hib : ¬ i < b.syms.size := hs ▸ hia
    rw [dif_neg hia, dif_neg hib]
    exact rfl

theorem halveLoop_agree : ∀ (k : Nat) (a b : Model), MAgree n a b → k ≤ n →
    ExR (MAgree n) (halveLoop k a) (halveLoop k b)
  | 0, a, b, h, _ => h
  | i + 1, a, b, h, hk => by
    rw [halveLoop, halveLoop, ← h.sym (i := i) (by omega), ← h.sym (i := i + 1) hk]
    refine ExR.bind_eq _ fun s => ExR.bind_eq _ fun nx => ?_
    exact ExR.bind (h.setCumfreq (by omega) _) fun a' b' h' => halveLoop_agree i a' b' h' (by omega)

theorem toFreqLoop_agree : ∀ (k i : Nat) (a b : Model), MAgree n a b → i + k ≤ n →
    ExR (MAgree n) (toFreqLoop k i a) (toFreqLoop k i b)
  | 0, _, a, b, h, _ => h
  | k + 1, i, a, b, h, hk => by
    rw [toFreqLoop, toFreqLoop, ← h.sym (i := i) (by omega), ← h.sym (i := i + 1) (by omega)]
    refine ExR.bind_eq _ fun s => ExR.bind_eq _ fun nx => ?_
    exact ExR.bind (h.setCumfreq (by omega) _) fun a' b' h' =>
      toFreqLoop_agree k (i + 1) a' b' h' (by omega)

theorem resumLoop_agree : ∀ (k : Nat) (a b : Model), MAgree n a b → k ≤ n →
    ExR (MAgree n) (resumLoop k a) (resumLoop k b)
  | 0, a, b, h, _ => h
  | i + 1, a, b, h, hk => by
    rw [resumLoop, resumLoop, ← h.sym (i := i) (by omega), ← h.sym (i := i + 1) hk]
    refine ExR.bind_eq _ fun s => ExR.bind_eq _ fun nx => ?_
    exact ExR.bind (h.setCumfreq (by omega) _) fun a' b' h' => resumLoop_agree i a' b' h' (by omega)

theorem bumpLoop_agree : ∀ (k : Nat) (a b : Model), MAgree n a b → k ≤ n + 1 →
    ExR (MAgree n) (bumpLoop k a) (bumpLoop k b)
  | 0, a, b, h, _ => h
  | i + 1, a, b, h, hk => by
    rw [bumpLoop, bumpLoop, ← h.sym (i := i) (by omega)]
    refine ExR.bind_eq _ fun s => ?_
    exact ExR.bind (h.setCumfreq (by omega) _) fun a' b' h' => bumpLoop_agree i a' b' h' (by omega)

theorem sortInner_agree : ∀ (k i j : Nat) (a b : Model), MAgree n a b → i ≤ n → j + k ≤ n + 1 →
    ExR (MAgree n) (sortInner k i j a) (sortInner k i j b)
  | 0, _, _, a, b, h, _, _ => h
  | k + 1, i, j, a, b, h, hi, hk => by
    rw [sortInner, sortInner, ← h.sym hi, ← h.sym (i := j) (by omega)]
    refine ExR.bind_eq _ fun s => ExR.bind_eq _ fun t => ?_
    simp only
    split
    · refine ExR.bind (h.setSym _ _) fun a1 b1 h1 => ExR.bind (h1.setSym _ _) fun a' b' h' => ?_
      exact sortInner_agree k i (j + 1) a' b' h' hi (by omega)
    · exact sortInner_agree k i (j + 1) a b h hi (by omega)

theorem sortOuter_agree : ∀ (k i : Nat) (a b : Model), MAgree n a b → (i + k ≤ n ∨ k = 0) →
    ExR (MAgree n) (sortOuter k i a) (sortOuter k i b)
  | 0, _, a, b, h, _ => h
  | k + 1, i, a, b, h, hk => by
    rw [sortOuter, sortOuter, h.ea, h.eb]
    refine ExR.bind (sortInner_agree _ _ _ a b h (by omega) (by omega)) fun a' b' h' => ?_
    exact sortOuter_agree k (i + 1) a' b' h' (by omega)

theorem updateModel_agree (h : MAgree n a b) : ExR (MAgree n) (updateModel a) (updateModel b) := by
  unfold updateModel
  simp only [h.ea, h.eb, ← h.sl]
  split
  · exact halveLoop_agree _ _ _ ⟨rfl, rfl, h.pos, rfl, h.ag⟩ (Nat.le_refl _)
  · refine ExR.bind (toFreqLoop_agree (n := n) n 0 _ _ ⟨rfl, rfl, h.pos, rfl, h.ag⟩ (by omega)) fun a1 b1 h1 => ?_
    rw [h1.ea, h1.eb]
    refine ExR.bind (sortOuter_agree (n - 1) 0 _ _ h1 (by omega)) fun a2 b2 h2 => ?_
    rw [h2.ea, h2.eb]
    exact resumLoop_agree n _ _ h2 (Nat.le_refl _)

theorem scanSym_agree (h : MAgree n a b) (symf : Nat) : ∀ (k i : Nat), i + k ≤ n + 1 →
    scanSym a symf k i = scanSym b symf k i
  | 0, _, _ => rfl
  | k + 1, i, hk => by
    rw [scanSym, scanSym, ← h.sym (i := i) (by omega)]
    congr 1
    funext s
    split
    · rfl
    · exact scanSym_agree h symf k (i + 1) (by omega)

theorem scanSym_bound (m : Model) (symf : Nat) : ∀ (k i j : Nat), scanSym m symf k i = .ok j → j ≤ i + k
  | 0, i, j, h => by
    simp only [scanSym] at h
    cases h
    omega
  | k + 1, i, j, h => by
    rw [scanSym] at h
    cases hs : m.sym i with
    | error e => rw [hs] at h; cases h
    | ok s =>
      rw [hs] at h
      simp only [bind, Except.bind] at h
      split at h
      · cases h; omega
      · have := scanSym_bound m symf k (i + 1) j h
        omega

/-- what `decodeSym` delivers: the same symbol and interval, models that still agree -/
def SymOutR (n : Nat) (o1 o2 : SymOut) : Prop :=
  o1.sym = o2.sym ∧ o1.H = o2.H ∧ o1.L = o2.L ∧ MAgree n o1.model o2.model

theorem ExR.bind_eq' {α β : Type} {Q : β → β → Prop} (x : Except Fault α)
    {f g : α → Except Fault β} (hf : ∀ a, x = .ok a → ExR Q (f a) (g a)) :
    ExR Q (x >>= f) (x >>= g) := by
  cases x
  · exact rfl
  · exact hf _ rfl

theorem decodeSym_agree (h : MAgree n a b) (H L C : Nat) :
    ExR (SymOutR n) (decodeSym a H L C) (decodeSym b H L C) := by
  unfold decodeSym
  rw [← h.sym (i := 0) (by omega), h.ea, h.eb]
  refine ExR.bind_eq _ fun s0 => ?_
  simp only
  split
  · exact rfl
  rw [← scanSym_agree h _ _ _ (by have := h.pos; omega)]
  refine ExR.bind_eq' _ fun i hsc => ?_
  have hi := scanSym_bound _ _ _ _ _ hsc
  have hpos := h.pos
  split
  · exact rfl
  rw [← h.sym (i := i - 1) (by omega), ← h.sym (i := i) (by omega)]
  refine ExR.bind_eq _ fun sPrev => ?_
  refine ExR.bind_eq _ fun sCur => ?_
  split
  · exact rfl
  refine ExR.bind (bumpLoop_agree i a b h (by omega)) fun a1 b1 hb => ?_
  rw [← hb.sym (i := 0) (by omega)]
  refine ExR.bind_eq _ fun s => ?_
  split
  · exact ExR.bind (updateModel_agree hb) fun a2 b2 h2 => ⟨rfl, rfl, rfl, h2⟩
  · exact ⟨rfl, rfl, rfl, hb⟩

end model


/-! ## the stream state -/
section state
variable {σ : Type}

/-- two models in step -/
def MA (a b : Model) : Prop := MAgree a.entries a b

/-- stream structs: everything equal except the struct copies of `H`, `L`, `C` (unconstrained
    here) and the nine models, which are in step -/
structure StSim (a b : St σ) : Prop where
  eq : b = { a with H := b.H, L := b.L, C := b.C, model0 := b.model0, model1 := b.model1,
                    model2 := b.model2, model3 := b.model3, model4 := b.model4, model5 := b.model5,
                    model6 := b.model6, model6len := b.model6len, model7 := b.model7 }
  ms : ∀ id, MA (a.model id) (b.model id)

/-- running states: the structs related by `StSim`, the locals equal except `H`, `L` (equal if
    `hl`) and `C` (equal if `c`) -/
structure RS (hl c : Bool) (r1 r2 : Run σ) : Prop where
  eq : r2 = { r1 with st := r2.st, H := r2.H, L := r2.L, C := r2.C }
  st : StSim r1.st r2.st
  hl : hl = true → r1.H = r2.H ∧ r1.L = r2.L
  c : c = true → r1.C = r2.C

theorem RS.split {hl c : Bool} {r1 r2 : Run σ} (h : RS hl c r1 r2) :
    ∃ st2 H L C, r2 = { r1 with st := st2, H := H, L := L, C := C } ∧
    ∃ sH sL sC m0 m1 m2 m3 m4 m5 m6 m6l m7,
      st2 = { r1.st with H := sH, L := sL, C := sC, model0 := m0, model1 := m1, model2 := m2,
                         model3 := m3, model4 := m4, model5 := m5, model6 := m6, model6len := m6l,
                         model7 := m7 } :=
  ⟨_, _, _, _, h.eq, _, _, _, _, _, _, _, _, _, _, _, _, h.st.eq⟩

theorem RS.cast {hl c hl' c' : Bool} {r1 r2 : Run σ} (h : RS hl c r1 r2) (e1 : hl = hl') (e2 : c = c') :
    RS hl' c' r1 r2 := by
  subst e1 e2
  exact h

theorem RS.weaken {hl c : Bool} {r1 r2 : Run σ} (h : RS hl c r1 r2) : RS false false r1 r2 :=
  ⟨h.eq, h.st, (fun x => by cases x), (fun x => by cases x)⟩

/-- `.sys` is only thrown with the sticky error set -/
def okHalt : Halt → Err → Prop
  | .fault _, _ => True
  | .sys _, e => e ≠ .ok

/-- exceptions: the same one, thrown in related states (the locals do not matter any more) -/
def EE : Halt → Halt → Run σ → Run σ → Prop :=
  fun e1 e2 t1 t2 => e1 = e2 ∧ RS false false t1 t2 ∧ okHalt e1 t1.st.error

macro "qsimp" : tactic =>
  `(tactic| simp (maxSteps := 10000000) only [wp2_get_bind, wp2_set_bind, wp2_modify_bind, wp2_modifyGet_bind, wp2_pure_bind,
      wp2_throw_bind, wp2_pure, wp2_throw, wp2_get, wp2_set, wp2_modify, wp2_modifyGet, bind_assoc, pure_bind])

set_option hygiene false in
/-- replace the second state by a record update of the first -/
macro "rs_split" h:ident : tactic =>
  `(tactic| obtain ⟨st2, H2, L2, C2, rfl, sH, sL, sC, m0, m1, m2, m3, m4, m5, m6, m6l, m7, rfl⟩ := RS.split $h)

/-- close `RS` goals after a step that touched no `H`/`L`/`C`/model -/
macro "rs_done" h:ident : tactic =>
  `(tactic| exact ⟨rfl, ⟨rfl, ($h).st.ms⟩, ($h).hl, ($h).c⟩)

variable (S : Src σ) {hl c : Bool}

theorem readInput_sim {s1 s2 : Run σ} (h : RS hl c s1 s2) :
    wp2 (readInput S) (readInput S) (EqR (RS hl c)) EE s1 s2 := by
  rs_split h
  unfold readInput
  qsimp
  split
  · qsimp
    exact ⟨rfl, h.weaken, trivial⟩
  · qsimp
    refine ⟨rfl, ?_, by simp [okHalt]⟩
    exact ⟨rfl, ⟨rfl, h.st.ms⟩, (fun x => by cases x), (fun x => by cases x)⟩
  · split
    · qsimp
      refine ⟨rfl, ?_, by simp [okHalt]⟩
      exact ⟨rfl, ⟨rfl, h.st.ms⟩, (fun x => by cases x), (fun x => by cases x)⟩
    · qsimp
      refine ⟨rfl, ?_⟩
      rs_done h
  · qsimp
    refine ⟨rfl, ?_⟩
    rs_done h


theorem nextByte_sim {s1 s2 : Run σ} (h : RS hl c s1 s2) :
    wp2 (nextByte S) (nextByte S) (EqR (RS hl c)) EE s1 s2 := by
  rs_split h
  unfold nextByte
  qsimp
  split
  · apply wp2_bind_eq (readInput_sim S h)
    intro _ t1 t2 ht
    rs_split ht
    qsimp
    split
    · qsimp
      refine ⟨rfl, ?_⟩
      rs_done ht
    · qsimp
      exact ⟨rfl, ht.weaken, trivial⟩
  · qsimp
    split
    · qsimp
      refine ⟨rfl, ?_⟩
      rs_done h
    · qsimp
      exact ⟨rfl, h.weaken, trivial⟩

theorem readBytes_sim {s1 s2 : Run σ} (h : RS hl c s1 s2) :
    wp2 (readBytes S) (readBytes S) (EqR (RS hl c)) EE s1 s2 := by
  unfold readBytes
  apply wp2_bind_eq (nextByte_sim S h); intro b0 t1 t2 h1
  apply wp2_bind_eq (nextByte_sim S h1); intro b1 t1 t2 h2
  rs_split h2
  qsimp
  split
  · qsimp
    exact ⟨rfl, h2.weaken, trivial⟩
  · qsimp
    refine ⟨rfl, ?_⟩
    rs_done h2

theorem ensureBits_sim (n : Nat) : ∀ (k : Nat) {s1 s2 : Run σ}, RS hl c s1 s2 →
    wp2 (ensureBits S n k) (ensureBits S n k) (EqR (RS hl c)) EE s1 s2
  | 0, s1, s2, h => by
    rw [ensureBits]
    qsimp
    exact ⟨rfl, h.weaken, trivial⟩
  | k + 1, s1, s2, h => by
    rw [ensureBits]
    rs_split h
    qsimp
    split
    · apply wp2_bind_eq (readBytes_sim S h); intro _ t1 t2 ht
      exact ensureBits_sim n k ht
    · qsimp
      exact ⟨rfl, h⟩

theorem peekBits_sim (n : Nat) {s1 s2 : Run σ} (h : RS hl c s1 s2) :
    wp2 (peekBits n) (peekBits n) (EqR (RS hl c)) EE s1 s2 := by
  rs_split h
  unfold peekBits
  split
  · qsimp
    exact ⟨rfl, h.weaken, trivial⟩
  · qsimp
    exact ⟨rfl, h⟩

theorem removeBits_sim (n : Nat) {s1 s2 : Run σ} (h : RS hl c s1 s2) :
    wp2 (removeBits n) (removeBits n) (EqR (RS hl c)) EE s1 s2 := by
  rs_split h
  unfold removeBits
  split
  · qsimp
    exact ⟨rfl, h.weaken, trivial⟩
  · qsimp
    refine ⟨rfl, ?_⟩
    rs_done h

theorem readBits_sim (n : Nat) {s1 s2 : Run σ} (h : RS hl c s1 s2) :
    wp2 (readBits S n) (readBits S n) (EqR (RS hl c)) EE s1 s2 := by
  unfold readBits
  apply wp2_bind_eq (ensureBits_sim S n 3 h); intro _ t1 t2 h1
  apply wp2_bind_eq (peekBits_sim n h1); intro v t1 t2 h2
  apply wp2_bind_eq (removeBits_sim n h2); intro _ t1 t2 h3
  qsimp
  exact ⟨rfl, h3⟩

theorem readManyLoop_sim : ∀ (k needed val : Nat) {s1 s2 : Run σ}, RS hl c s1 s2 →
    wp2 (readManyLoop S k needed val) (readManyLoop S k needed val) (EqR (RS hl c)) EE s1 s2
  | 0, needed, val, s1, s2, h => by
    rw [readManyLoop]
    split
    · qsimp
      exact ⟨rfl, h.weaken, trivial⟩
    · qsimp
      exact ⟨rfl, h⟩
  | k + 1, needed, val, s1, s2, h => by
    rw [readManyLoop]
    split
    · rs_split h
      qsimp
      split
      · apply wp2_bind_eq (readBytes_sim S h); intro _ t1 t2 h1
        rs_split h1
        qsimp
        apply wp2_bind_eq (peekBits_sim _ h1); intro v t1 t2 h2
        apply wp2_bind_eq (removeBits_sim _ h2); intro _ t1 t2 h3
        exact readManyLoop_sim k _ _ h3
      · qsimp
        apply wp2_bind_eq (peekBits_sim _ h); intro v t1 t2 h2
        apply wp2_bind_eq (removeBits_sim _ h2); intro _ t1 t2 h3
        exact readManyLoop_sim k _ _ h3
    · qsimp
      exact ⟨rfl, h⟩

theorem readManyBits_sim (bits : Nat) {s1 s2 : Run σ} (h : RS hl c s1 s2) :
    wp2 (readManyBits S bits) (readManyBits S bits) (EqR (RS hl c)) EE s1 s2 :=
  readManyLoop_sim S _ _ _ h

theorem tableAt_sim (what : String) (t : List Nat) (i : Nat) {s1 s2 : Run σ} (h : RS hl c s1 s2) :
    wp2 (tableAt what t i) (tableAt what t i) (EqR (RS hl c)) EE s1 s2 := by
  unfold tableAt
  split
  · qsimp
    exact ⟨rfl, h⟩
  · qsimp
    exact ⟨rfl, h.weaken, trivial⟩

theorem readOffset_sim (sym : Nat) {s1 s2 : Run σ} (h : RS hl c s1 s2) :
    wp2 (readOffset S sym) (readOffset S sym) (EqR (RS hl c)) EE s1 s2 := by
  unfold readOffset
  apply wp2_bind_eq (tableAt_sim _ _ _ h); intro nb t1 t2 h1
  apply wp2_bind_eq (readManyBits_sim S nb h1); intro extra t1 t2 h2
  apply wp2_bind_eq (tableAt_sim _ _ _ h2); intro pb t1 t2 h3
  qsimp
  exact ⟨rfl, h3⟩


set_option hygiene false in
/-- `rs_split` for equal locals: `H2`, `L2`, `C2` are replaced too -/
macro "rs_strong" h:ident : tactic =>
  `(tactic| (rs_split $h; obtain ⟨e1, e2⟩ := ($h).hl rfl; have e3 := ($h).c rfl
             change _ = H2 at e1; change _ = L2 at e2; change _ = C2 at e3; subst e1 e2 e3))

theorem renorm_sim : ∀ (fuel : Nat) {s1 s2 : Run σ}, RS true true s1 s2 →
    wp2 (renorm S fuel) (renorm S fuel) (EqR (RS true true)) EE s1 s2
  | 0, s1, s2, h => by
    rw [renorm]
    qsimp
    exact ⟨rfl, h.weaken, trivial⟩
  | fuel + 1, s1, s2, h => by
    rw [renorm]
    rs_strong h
    qsimp
    split
    · qsimp
      exact ⟨rfl, h⟩
    · qsimp
      rename_i hh ll cc _
      have h0 : RS true true { s1 with H := hh, L := ll, C := cc }
          { ({ s1 with st := _ } : Run σ) with H := hh, L := ll, C := cc } :=
        ⟨rfl, ⟨rfl, h.st.ms⟩, fun _ => ⟨rfl, rfl⟩, fun _ => rfl⟩
      apply wp2_bind_eq (ensureBits_sim S 1 3 h0); intro _ t1 t2 h1
      apply wp2_bind_eq (peekBits_sim 1 h1); intro b t1 t2 h2
      apply wp2_bind_eq (removeBits_sim 1 h2); intro _ t1 t2 h3
      rs_strong h3
      qsimp
      apply renorm_sim fuel
      exact ⟨rfl, ⟨rfl, h3.st.ms⟩, fun _ => ⟨rfl, rfl⟩, fun _ => rfl⟩

theorem StSim.split {a b : St σ} (h : StSim a b) :
    ∃ sH sL sC m0 m1 m2 m3 m4 m5 m6 m6l m7,
      b = { a with H := sH, L := sL, C := sC, model0 := m0, model1 := m1, model2 := m2,
                   model3 := m3, model4 := m4, model5 := m5, model6 := m6, model6len := m6l,
                   model7 := m7 } :=
  ⟨_, _, _, _, _, _, _, _, _, _, _, _, h.eq⟩

theorem StSim.setModel {a b : St σ} (h : StSim a b) (id : MId) {ma mb : Model} (hm : MA ma mb) :
    StSim (a.setModel id ma) (b.setModel id mb) := by
  obtain ⟨sH, sL, sC, m0, m1, m2, m3, m4, m5, m6, m6l, m7, rfl⟩ := h.split
  have hh : ∀ id, MA (a.model id) (St.model _ id) := h.ms
  cases id <;> refine ⟨rfl, fun id' => ?_⟩ <;> cases id' <;>
    first
      | exact hm
      | exact hh .m0
      | exact hh .m1
      | exact hh .m2
      | exact hh .m3
      | exact hh .m4
      | exact hh .m5
      | exact hh .m6
      | exact hh .m6len
      | exact hh .m7

theorem liftF_sim {α : Type} {R : α → α → Prop} {x y : Except Fault α} (hxy : ExR R x y)
    {s1 s2 : Run σ} (h : RS hl c s1 s2) :
    wp2 (liftF x) (liftF y) (fun a b t1 t2 => R a b ∧ t1 = s1 ∧ t2 = s2) EE s1 s2 := by
  cases x <;> cases y <;> simp only [ExR] at hxy
  · subst hxy
    exact ⟨rfl, h.weaken, trivial⟩
  · exact ⟨hxy, rfl, rfl⟩

theorem getSymbol_sim (fuel : Nat) (id : MId) {s1 s2 : Run σ} (h : RS true true s1 s2) :
    wp2 (getSymbol S fuel id) (getSymbol S fuel id) (EqR (RS true true)) EE s1 s2 := by
  rs_strong h
  unfold getSymbol
  qsimp
  apply wp2_bind (liftF_sim (decodeSym_agree (h.st.ms id) s1.H s1.L s1.C) h)
  intro o1 o2 t1 t2 ho
  obtain ⟨⟨hs, hH, hL, hm⟩, rfl, rfl⟩ := ho
  qsimp
  have hma : MA o1.model o2.model := by
    unfold MA
    rw [hm.ea]
    exact hm
  have h0 : RS true true { t1 with st := t1.st.setModel id o1.model, H := o1.H, L := o1.L }
      { ({ t1 with st := _ } : Run σ) with st := St.setModel _ id o2.model, H := o2.H, L := o2.L } :=
    ⟨rfl, h.st.setModel id hma, fun _ => ⟨hH, hL⟩, fun _ => rfl⟩
  apply wp2_bind_eq (renorm_sim S fuel h0); intro _ t1 t2 h1
  qsimp
  exact ⟨hs, h1⟩

theorem fail_sim {α : Type} (e : Err) (he : e ≠ .ok) (Q : α → α → Run σ → Run σ → Prop)
    {s1 s2 : Run σ} (h : RS hl c s1 s2) :
    wp2 (fail e : QM σ α) (fail e) Q EE s1 s2 := by
  rs_split h
  unfold fail modSt
  qsimp
  exact ⟨rfl, ⟨rfl, ⟨rfl, h.st.ms⟩, (fun x => by cases x), (fun x => by cases x)⟩, he⟩

theorem copyFwd_sim (n s d : Nat) {s1 s2 : Run σ} (h : RS hl c s1 s2) :
    wp2 (copyFwd n s d) (copyFwd n s d) (EqR (RS hl c)) EE s1 s2 := by
  rs_split h
  unfold copyFwd
  qsimp
  split
  · qsimp
    exact ⟨rfl, h.weaken, trivial⟩
  · qsimp
    refine ⟨rfl, ?_⟩
    rs_done h

theorem copyMasked_sim (n j d : Nat) {s1 s2 : Run σ} (h : RS hl c s1 s2) :
    wp2 (copyMasked n j d) (copyMasked n j d) (EqR (RS hl c)) EE s1 s2 := by
  rs_split h
  unfold copyMasked
  qsimp
  split
  · qsimp
    exact ⟨rfl, h.weaken, trivial⟩
  · qsimp
    refine ⟨rfl, ?_⟩
    rs_done h

theorem writeOut_sim (src n : Nat) {s1 s2 : Run σ} (h : RS hl c s1 s2) :
    wp2 (writeOut src n) (writeOut src n) (EqR (RS hl c)) EE s1 s2 := by
  rs_split h
  unfold writeOut
  qsimp
  split
  · qsimp
    exact ⟨rfl, h.weaken, trivial⟩
  · qsimp
    refine ⟨rfl, ?_⟩
    rs_done h

/-- the part of one `symbolLoop` iteration after the match offset and length are known
    (a copy of the source text, so that the four selector branches can share one proof) -/
def matchTail (fuel frameEnd n : Nat) (matchOffset matchLength : Nat) : QM σ Unit := do
        modify fun r => { r with frameTodo := (r.frameTodo + u32 - matchLength % u32) % u32 }
        let r ← get
        let wp := r.windowPosn
        let ws := r.st.windowSize
        if (wp + matchLength) % u32 > ws then
          -- the match destination wraps the window
          let i := ws - wp
          let j := (wp + u32 - matchOffset % u32) % u32
          copyMasked i j wp
          -- flush everything up to the end of the window
          let r ← get
          let fl := ws - r.st.oPtr
          if fl > r.outBytes then fail .decrunch
          writeOut r.st.oPtr fl
          modify fun r => { r with outBytes := r.outBytes - fl, st := { r.st with oPtr := 0, oEnd := 0 } }
          copyMasked (matchLength - i) ((j + i) % u32) 0
          modify fun r => { r with windowPosn := wp + matchLength - ws }
          -- `break`
        else
          if matchOffset > wp then
            let j := matchOffset - wp
            if j > ws then fail .decrunch
            if j < matchLength then
              copyFwd j (ws - j) wp
              copyFwd (matchLength - j) 0 (wp + j)
            else
              copyFwd matchLength (ws - j) wp
          else
            copyFwd matchLength (wp - matchOffset) wp
          modify fun r => { r with windowPosn := wp + matchLength }
          symbolLoop S fuel frameEnd n

theorem symbolLoop_succ (fuel frameEnd n : Nat) :
    symbolLoop S fuel frameEnd (n + 1) = (do
    if (← get).windowPosn < frameEnd then
      let selector ← getSymbol S fuel .m7
      if selector < 4 then
        let id : MId := if selector = 0 then .m0 else if selector = 1 then .m1
                        else if selector = 2 then .m2 else .m3
        let sym ← getSymbol S fuel id
        let wp := (← get).windowPosn
        if wp ≥ (← get).st.window.size then throw (.fault (.oob "qtmd window (literal)"))
        modify fun r => { r with st := { r.st with window := r.st.window.setIfInBounds wp (UInt8.ofNat (sym % 256)) },
                                 windowPosn := wp + 1,
                                 frameTodo := (r.frameTodo + u32 - 1) % u32 }
        symbolLoop S fuel frameEnd n
      else
        let (matchOffset, matchLength) ←
          if selector = 4 then do
            let sym ← getSymbol S fuel .m4
            pure ((← readOffset S sym), 3)
          else if selector = 5 then do
            let sym ← getSymbol S fuel .m5
            pure ((← readOffset S sym), 4)
          else if selector = 6 then do
            let sym ← getSymbol S fuel .m6len
            let nb ← tableAt "qtmd length_extra[]" qtmLengthExtra sym
            let extra ← readManyBits S nb
            let lb ← tableAt "qtmd length_base[]" qtmLengthBase sym
            let ml := lb + extra + 5
            let sym ← getSymbol S fuel .m6
            pure ((← readOffset S sym), ml)
          else fail .decrunch
        matchTail S fuel frameEnd n matchOffset matchLength
    else pure () : QM σ Unit) := by
  rw [symbolLoop]
  rfl

theorem wp2_ite {ε s α β : Type} {p : Prop} [i1 : Decidable p] [i2 : Decidable p]
    {a1 b1 : ExceptT ε (StateM s) α} {a2 b2 : ExceptT ε (StateM s) β}
    {Q : α → β → s → s → Prop} {E : ε → ε → s → s → Prop} {s1 s2 : s}
    (ht : p → wp2 a1 a2 Q E s1 s2) (hf : ¬ p → wp2 b1 b2 Q E s1 s2) :
    wp2 (@ite _ p i1 a1 b1) (@ite _ p i2 a2 b2) Q E s1 s2 := by
  by_cases h : p
  · rw [if_pos h, if_pos h]; exact ht h
  · rw [if_neg h, if_neg h]; exact hf h

theorem matchTail_sim (fuel frameEnd n : Nat)
    (ih : ∀ {t1 t2 : Run σ}, RS true true t1 t2 →
      wp2 (symbolLoop S fuel frameEnd n) (symbolLoop S fuel frameEnd n) (EqR (RS true true)) EE t1 t2)
    (mo ml : Nat) {s1 s2 : Run σ} (h : RS true true s1 s2) :
    wp2 (matchTail S fuel frameEnd n mo ml) (matchTail S fuel frameEnd n mo ml)
      (EqR (RS true true)) EE s1 s2 := by
  rs_split h
  unfold matchTail
  qsimp
  apply wp2_ite
  · intro _
    apply wp2_bind_eq (copyMasked_sim _ _ _ (by rs_done h)); intro _ t1 t2 h1
    rs_split h1
    qsimp
    apply wp2_ite
    · intro _
      exact fail_sim _ (by decide) _ h1
    · intro _
      apply wp2_bind_eq (writeOut_sim _ _ h1); intro _ t1 t2 h2
      rs_split h2
      qsimp
      apply wp2_bind_eq (copyMasked_sim _ _ _ (by rs_done h2)); intro _ t1 t2 h4
      rs_split h4
      qsimp
      refine ⟨rfl, ?_⟩
      rs_done h4
  · intro _
    have fin : ∀ {t1 t2 : Run σ}, RS true true t1 t2 →
        wp2 (do modify fun r => { r with windowPosn := s1.windowPosn + ml }
                symbolLoop S fuel frameEnd n : QM σ Unit)
            (do modify fun r => { r with windowPosn := s1.windowPosn + ml }
                symbolLoop S fuel frameEnd n : QM σ Unit) (EqR (RS true true)) EE t1 t2 := by
      intro t1 t2 ht
      rs_split ht
      qsimp
      apply ih
      rs_done ht
    apply wp2_ite
    · intro _
      apply wp2_ite
      · intro _
        exact fail_sim _ (by decide) _ (by rs_done h)
      · intro _
        apply wp2_ite
        · intro _
          apply wp2_bind_eq (copyFwd_sim _ _ _ (by rs_done h)); intro _ t1 t2 h1
          apply wp2_bind_eq (copyFwd_sim _ _ _ h1); intro _ t1 t2 h2
          exact fin h2
        · intro _
          apply wp2_bind_eq (copyFwd_sim _ _ _ (by rs_done h)); intro _ t1 t2 h1
          exact fin h1
    · intro _
      apply wp2_bind_eq (copyFwd_sim _ _ _ (by rs_done h)); intro _ t1 t2 h1
      exact fin h1

theorem symbolLoop_sim (fuel frameEnd : Nat) : ∀ (n : Nat) {s1 s2 : Run σ}, RS true true s1 s2 →
    wp2 (symbolLoop S fuel frameEnd n) (symbolLoop S fuel frameEnd n) (EqR (RS true true)) EE s1 s2
  | 0, s1, s2, h => by
    rw [symbolLoop]
    rs_split h
    qsimp
    split
    · qsimp
      exact ⟨rfl, h.weaken, trivial⟩
    · qsimp
      exact ⟨rfl, h⟩
  | n + 1, s1, s2, h => by
    rw [symbolLoop_succ]
    rs_split h
    qsimp
    apply wp2_ite
    · intro _
      apply wp2_bind_eq (getSymbol_sim S fuel .m7 h); intro selector t1 t2 h1
      apply wp2_ite
      · intro _
        apply wp2_bind_eq (getSymbol_sim S fuel _ h1); intro sym t1 t2 h2
        rs_split h2
        qsimp
        apply wp2_ite
        · intro _
          qsimp
          exact ⟨rfl, h2.weaken, trivial⟩
        · intro _
          qsimp
          apply symbolLoop_sim fuel frameEnd n
          rs_done h2
      · intro _
        apply wp2_ite
        · intro _
          apply wp2_bind_eq (getSymbol_sim S fuel _ h1); intro sym t1 t2 h2
          apply wp2_bind_eq (readOffset_sim S sym h2); intro off t1 t2 h3
          exact matchTail_sim S fuel frameEnd n (symbolLoop_sim fuel frameEnd n) _ _ h3
        · intro _
          apply wp2_ite
          · intro _
            apply wp2_bind_eq (getSymbol_sim S fuel _ h1); intro sym t1 t2 h2
            apply wp2_bind_eq (readOffset_sim S sym h2); intro off t1 t2 h3
            exact matchTail_sim S fuel frameEnd n (symbolLoop_sim fuel frameEnd n) _ _ h3
          · intro _
            apply wp2_ite
            · intro _
              apply wp2_bind_eq (getSymbol_sim S fuel _ h1); intro sym t1 t2 h2
              apply wp2_bind_eq (tableAt_sim _ _ _ h2); intro nb t1 t2 h3
              apply wp2_bind_eq (readManyBits_sim S nb h3); intro extra t1 t2 h4
              apply wp2_bind_eq (tableAt_sim _ _ _ h4); intro lb t1 t2 h5
              apply wp2_bind_eq (getSymbol_sim S fuel _ h5); intro sym2 t1 t2 h6
              apply wp2_bind_eq (readOffset_sim S sym2 h6); intro off t1 t2 h7
              exact matchTail_sim S fuel frameEnd n (symbolLoop_sim fuel frameEnd n) _ _ h7
            · intro _
              exact fail_sim _ (by decide) _ h1
    · intro _
      qsimp
      exact ⟨rfl, h⟩

theorem trailerScan_sim : ∀ (fuel : Nat) {s1 s2 : Run σ}, RS hl c s1 s2 →
    wp2 (trailerScan S fuel) (trailerScan S fuel) (EqR (RS hl c)) EE s1 s2
  | 0, s1, s2, h => by
    rw [trailerScan]
    qsimp
    exact ⟨rfl, h.weaken, trivial⟩
  | fuel + 1, s1, s2, h => by
    rw [trailerScan]
    apply wp2_bind_eq (readBits_sim S 8 h); intro i t1 t2 h1
    apply wp2_ite
    · intro _
      exact trailerScan_sim fuel h1
    · intro _
      qsimp
      exact ⟨rfl, h1⟩

/-- between the blocks of `blockLoop`: the locals `H`, `L`, `C` have to be equal only while a frame
    header has been read -/
def RSW (r1 r2 : Run σ) : Prop := RS r1.st.headerRead r1.st.headerRead r1 r2

set_option hygiene false in
/-- close `RS`/`RSW` goals after `rs_strong` -/
macro "rs_done_strong" h:ident : tactic =>
  `(tactic| exact ⟨rfl, ⟨rfl, ($h).st.ms⟩, fun _ => ⟨rfl, rfl⟩, fun _ => rfl⟩)

theorem writeOut_simW (src n : Nat) {s1 s2 : Run σ} (h : RSW s1 s2) :
    wp2 (writeOut src n) (writeOut src n) (EqR RSW) EE s1 s2 := by
  rs_split h
  unfold writeOut
  qsimp
  split
  · qsimp
    exact ⟨rfl, h.weaken, trivial⟩
  · qsimp
    refine ⟨rfl, ?_⟩
    rs_done h

/-- the window-wrap part of one `blockLoop` iteration (copy of the source text) -/
def blockWrap (fuel n : Nat) : QM σ Unit := do
      let r ← get
      if r.windowPosn = r.st.windowSize then
        let i := r.st.oEnd - r.st.oPtr
        if i ≥ r.outBytes then pure ()     -- `break`
        else
          writeOut r.st.oPtr i
          modify fun r => { r with outBytes := r.outBytes - i, windowPosn := 0,
                                   st := { r.st with oPtr := 0, oEnd := 0 } }
          blockLoop S fuel n
      else blockLoop S fuel n

/-- one `blockLoop` iteration after the frame header (copy of the source text) -/
def blockRest (fuel n : Nat) : QM σ Unit := do
      let r ← get
      let wp := r.windowPosn
      let frameEnd := (wp + (r.outBytes - (r.st.oEnd - r.st.oPtr))) % u32
      let frameEnd := if (wp + r.frameTodo) % u32 < frameEnd
                      then (wp + r.frameTodo) % u32 else frameEnd
      let frameEnd := if frameEnd > r.st.windowSize then r.st.windowSize else frameEnd
      symbolLoop S fuel frameEnd (frameEnd - wp)
      modify fun r => { r with st := { r.st with oEnd := r.windowPosn } }
      if (← get).frameTodo > qtmFRAME_SIZE then fail .decrunch
      -- another frame completed?
      if (← get).frameTodo = 0 then
        let bl := (← get).bitsLeft
        if bl % 8 ≠ 0 then removeBits (bl % 8)
        trailerScan S fuel
        modify fun r => { r with frameTodo := qtmFRAME_SIZE, st := { r.st with headerRead := false } }
      blockWrap S fuel n

theorem blockLoop_succ (fuel n : Nat) :
    blockLoop S fuel (n + 1) = (do
    let r ← get
    if r.st.oEnd - r.st.oPtr < r.outBytes then
      -- frame header
      if !r.st.headerRead then
        modify fun r => { r with H := 0xFFFF, L := 0 }
        let c ← readBits S 16
        modify fun r => { r with C := c, st := { r.st with headerRead := true } }
      blockRest S fuel n
    else pure () : QM σ Unit) := by
  rw [blockLoop]
  rfl

theorem blockWrap_sim (fuel n : Nat)
    (ih : ∀ {t1 t2 : Run σ}, RSW t1 t2 →
      wp2 (blockLoop S fuel n) (blockLoop S fuel n) (EqR RSW) EE t1 t2)
    {s1 s2 : Run σ} (h : RSW s1 s2) :
    wp2 (blockWrap S fuel n) (blockWrap S fuel n) (EqR RSW) EE s1 s2 := by
  rs_split h
  unfold blockWrap
  qsimp
  apply wp2_ite
  · intro _
    apply wp2_ite
    · intro _
      qsimp
      exact ⟨rfl, h⟩
    · intro _
      apply wp2_bind_eq (writeOut_simW _ _ h); intro _ t1 t2 h1
      rs_split h1
      qsimp
      apply ih
      rs_done h1
  · intro _
    exact ih h

theorem blockRest_sim (fuel n : Nat)
    (ih : ∀ {t1 t2 : Run σ}, RSW t1 t2 →
      wp2 (blockLoop S fuel n) (blockLoop S fuel n) (EqR RSW) EE t1 t2)
    {s1 s2 : Run σ} (h : RS true true s1 s2) :
    wp2 (blockRest S fuel n) (blockRest S fuel n) (EqR RSW) EE s1 s2 := by
  rs_strong h
  unfold blockRest
  qsimp
  apply wp2_bind_eq (symbolLoop_sim S fuel _ _ h); intro _ t1 t2 h1
  rs_strong h1
  qsimp
  apply wp2_ite
  · intro _
    exact fail_sim _ (by decide) _ (hl := true) (c := true) (by rs_done_strong h1)
  · intro _
    apply wp2_ite
    · intro _
      apply wp2_ite
      · intro _
        apply wp2_bind_eq (removeBits_sim _ (hl := true) (c := true) (by rs_done_strong h1))
        intro _ t1 t2 h2
        apply wp2_bind_eq (trailerScan_sim S fuel h2); intro _ t1 t2 h3
        rs_strong h3
        qsimp
        apply blockWrap_sim S fuel n ih
        rs_done_strong h3
      · intro _
        apply wp2_bind_eq (trailerScan_sim S fuel (hl := true) (c := true) (by rs_done_strong h1))
        intro _ t1 t2 h3
        rs_strong h3
        qsimp
        apply blockWrap_sim S fuel n ih
        rs_done_strong h3
    · intro _
      apply blockWrap_sim S fuel n ih
      rs_done_strong h1

theorem blockLoop_sim (fuel : Nat) : ∀ (n : Nat) {s1 s2 : Run σ}, RSW s1 s2 →
    wp2 (blockLoop S fuel n) (blockLoop S fuel n) (EqR RSW) EE s1 s2
  | 0, s1, s2, h => by
    rw [blockLoop]
    rs_split h
    qsimp
    apply wp2_ite
    · intro _
      qsimp
      exact ⟨rfl, h.weaken, trivial⟩
    · intro _
      qsimp
      exact ⟨rfl, h⟩
  | n + 1, s1, s2, h => by
    rw [blockLoop_succ]
    cases hr : s1.st.headerRead with
    | false =>
      rw [RSW, hr] at h
      rs_split h
      qsimp
      apply wp2_ite
      · intro _
        apply wp2_ite
        · intro _
          qsimp
          apply wp2_bind_eq (readBits_sim S 16 (hl := true) (c := false)
            (by exact ⟨rfl, ⟨rfl, h.st.ms⟩, fun _ => ⟨rfl, rfl⟩, fun x => by cases x⟩))
          intro cc t1 t2 h1
          rs_split h1
          obtain ⟨e1, e2⟩ := h1.hl rfl
          change _ = H2 at e1; change _ = L2 at e2; subst e1 e2
          qsimp
          apply blockRest_sim S fuel n (blockLoop_sim fuel n)
          rs_done_strong h1
        · intro hc
          rw [hr] at hc
          exact (hc rfl).elim
      · intro _
        qsimp
        exact ⟨rfl, h.cast hr.symm hr.symm⟩
    | true =>
      rw [RSW, hr] at h
      rs_strong h
      qsimp
      apply wp2_ite
      · intro _
        apply wp2_ite
        · intro hc
          rw [hr] at hc
          cases hc
        · intro _
          exact blockRest_sim S fuel n (blockLoop_sim fuel n) h
      · intro _
        qsimp
        exact ⟨rfl, h.cast hr.symm hr.symm⟩

theorem body_sim (fuel : Nat) {s1 s2 : Run σ} (h : RSW s1 s2) :
    wp2 (body S fuel) (body S fuel) (EqR RSW) EE s1 s2 := by
  unfold body
  have e : s2.outBytes = s1.outBytes := by
    rs_split h
    rfl
  qsimp
  rw [e]
  apply wp2_bind_eq (blockLoop_sim S fuel _ h); intro _ t1 t2 h1
  rs_split h1
  qsimp
  apply wp2_ite
  · intro _
    apply wp2_bind_eq (writeOut_simW _ _ h1); intro _ t1 t2 h2
    rs_split h2
    qsimp
    refine ⟨rfl, ?_⟩
    rs_done h2
  · intro _
    qsimp
    exact ⟨rfl, h1⟩

end state

/-! ## `decompress`, `init`, and sequences of calls -/
section top
variable {σ : Type}

/-- stream structs between calls: `H`, `L`, `C` agree once a frame header has been read -/
def StSimH (a b : St σ) : Prop :=
  StSim a b ∧ (a.headerRead = true → a.H = b.H ∧ a.L = b.L ∧ a.C = b.C)

/-- between calls: in step, or both dead with the same sticky error -/
def TS (a b : St σ) : Prop := StSimH a b ∨ (a.error = b.error ∧ a.error ≠ .ok)

/-- what two calls of `decompress` deliver -/
def OutR : Except Fault (DecodeOut (St σ)) → Except Fault (DecodeOut (St σ)) → Prop
  | .ok o1, .ok o2 => o1.err = o2.err ∧ o1.written = o2.written ∧ TS o1.st o2.st
  | .error f1, .error f2 => f1 = f2
  | _, _ => False

theorem finish_sim {x1 x2 : Except Halt Unit × Run σ} (h : Post2 (EqR RSW) EE x1 x2) :
    OutR
      (match (generalizing := false) x1 with
        | (.error (.fault f), _) => .error f
        | (.error (.sys e), r) => .ok ⟨e, r.written.toList, r.st⟩
        | (.ok (), r) =>
          .ok ⟨.ok, r.written.toList,
               { r.st with inbuf := r.inbuf, bitBuffer := r.bitBuffer, bitsLeft := r.bitsLeft % 256,
                           windowPosn := r.windowPosn, frameTodo := r.frameTodo,
                           H := r.H, L := r.L, C := r.C }⟩)
      (match (generalizing := false) x2 with
        | (.error (.fault f), _) => .error f
        | (.error (.sys e), r) => .ok ⟨e, r.written.toList, r.st⟩
        | (.ok (), r) =>
          .ok ⟨.ok, r.written.toList,
               { r.st with inbuf := r.inbuf, bitBuffer := r.bitBuffer, bitsLeft := r.bitsLeft % 256,
                           windowPosn := r.windowPosn, frameTodo := r.frameTodo,
                           H := r.H, L := r.L, C := r.C }⟩) := by
  obtain ⟨r1, t1⟩ := x1
  obtain ⟨r2, t2⟩ := x2
  cases r1 with
  | ok u1 =>
    cases r2 with
    | error e2 => exact h.elim
    | ok u2 =>
      obtain ⟨_, ht⟩ := h
      rs_split ht
      refine ⟨rfl, rfl, Or.inl ⟨⟨rfl, ht.st.ms⟩, fun hh => ?_⟩⟩
      have hh' : t1.st.headerRead = true := hh
      obtain ⟨e1, e2⟩ := ht.hl hh'
      exact ⟨e1, e2, ht.c hh'⟩
  | error e1 =>
    cases r2 with
    | ok u2 => exact h.elim
    | error e2 =>
      obtain ⟨rfl, ht, hok⟩ := h
      rs_split ht
      cases e1 with
      | fault f => exact rfl
      | sys e => exact ⟨rfl, rfl, Or.inr ⟨rfl, hok⟩⟩

theorem decompress_sim (S : Src σ) (fuel : Nat) {a b : St σ} (h : TS a b) (n : Nat) :
    OutR (decompress S fuel a n) (decompress S fuel b n) := by
  rcases h with h | ⟨he, hne⟩
  · obtain ⟨sH, sL, sC, m0, m1, m2, m3, m4, m5, m6, m6l, m7, rfl⟩ := h.1.split
    unfold decompress
    simp only
    generalize (if a.oEnd - a.oPtr > n then n else a.oEnd - a.oPtr) = i
    split
    · exact ⟨rfl, rfl, Or.inl h⟩
    · split
      · exact rfl
      · split
        · exact ⟨rfl, rfl, Or.inl ⟨⟨rfl, h.1.ms⟩, h.2⟩⟩
        · refine finish_sim (x1 := (body S fuel).run.run _) (x2 := (body S fuel).run.run _) ?_
          apply body_sim S fuel
          exact ⟨rfl, ⟨rfl, h.1.ms⟩, fun hh => ⟨(h.2 hh).1, (h.2 hh).2.1⟩, fun hh => (h.2 hh).2.2⟩
  · unfold decompress
    rw [if_pos hne, if_pos (he ▸ hne)]
    exact ⟨he, rfl, Or.inr ⟨he, hne⟩⟩

theorem initModel_MA (dim start len : Nat) (f1 f2 : UInt8) (hl : 1 ≤ len) :
    MA (initModel dim start len f1) (initModel dim start len f2) := by
  refine ⟨rfl, rfl, hl, rfl, ?_, ?_⟩
  · simp [initModel]
  · intro i hi
    have hi' : i ≤ len := Nat.lt_succ_iff.mp hi
    simp only [initModel, List.getElem?_toArray, List.getElem?_map, List.getElem?_range]
    by_cases hd : i < dim
    · simp [hd, hi']
    · simp [hd]

/-- what `init` with two fill bytes delivers -/
def InitR : Option (St σ) → Option (St σ) → Prop
  | some a, some b => StSimH a b
  | none, none => True
  | _, _ => False

theorem init_sim (src : σ) (wb ibs : Nat) (f1 f2 : UInt8) :
    InitR (init src wb ibs f1) (init src wb ibs f2) := by
  unfold init
  split
  · trivial
  · rename_i hwb
    simp only
    split
    · trivial
    · refine ⟨⟨rfl, fun id => ?_⟩, fun hh => by cases hh⟩
      cases id <;> apply initModel_MA <;> (try split) <;> omega

/-- observable trace of a sequence of decompress calls -/
def trace (S : Src σ) (fuel : Nat) : St σ → List Nat → List (Except Fault (Err × Bytes))
  | _, [] => []
  | st, n :: ns => match decompress S fuel st n with
    | .error f => [.error f]
    | .ok o => .ok (o.err, o.written) :: trace S fuel o.st ns

theorem trace_sim (S : Src σ) (fuel : Nat) : ∀ (calls : List Nat) (a b : St σ), TS a b →
    trace S fuel a calls = trace S fuel b calls
  | [], _, _, _ => rfl
  | n :: ns, a, b, h => by
    have hd := decompress_sim S fuel h n
    rw [trace, trace]
    revert hd
    cases decompress S fuel a n <;> cases decompress S fuel b n <;> intro hd <;> simp only [OutR] at hd
    · rw [hd]
    · obtain ⟨e1, e2, e3⟩ := hd
      simp only
      rw [e1, e2, trace_sim S fuel ns _ _ e3]

/-- **C11 (Quantum)**: the statuses and bytes delivered by any sequence of `decompress` calls do
    not depend on the byte the allocator filled the stream object with -/
theorem C11_qtm_fill_independent (S : Src σ) (fuel : Nat) (src : σ) (wb ibs : Nat) (f1 f2 : UInt8)
    (calls : List Nat) :
    (init src wb ibs f1).map (fun st => trace S fuel st calls) =
    (init src wb ibs f2).map (fun st => trace S fuel st calls) := by
  have hi := init_sim src wb ibs f1 f2
  revert hi
  cases init src wb ibs f1 <;> cases init src wb ibs f2 <;> intro hi <;> simp only [InitR] at hi
  · rfl
  · simp only [Option.map_some]
    rw [trace_sim S fuel calls _ _ (Or.inl hi)]

/-- non-vacuity: the two initial states really differ -/
example : (init () 10 2 0).map (·.H) ≠ (init () 10 2 1).map (·.H) := by decide

example : (init () 10 2 0).map (fun st => st.model6.syms[42]?) ≠
    (init () 10 2 1).map (fun st => st.model6.syms[42]?) := by decide

end top
end MsPack.Qtm

