import Lean
import Proofs.Lemmas.CountLaws
import Proofs.Lemmas.FeederFaults
/-!
# Threading a source-state invariant through a decoder (kit + the MSZIP walk)

`Thr J E m`: started in a state satisfying `J`, the action `m` of `ExceptT ε (StateM s)` either
returns normally in a state satisfying `J` again, or ends with an exception `e` in a state `s'` with
`E e s'`.  For the decoders under the CAB feeder: `J st = FeederLive st.src` and `E` says "a fault is
not a null dereference; after a format error (`inf`) the feeder is still live; after a status
return it is live unless the sticky error is set".  The only helper that touches `src` is
`readInput`; there the feeder lemmas of `FeederFaults.lean` apply; all the others go through by
the structural tactic `thr_auto` (modelled on `keeps_auto` of `CountLaws.lean`).
-/
namespace MsPack.CabLift
open MsPack MsPack.Generated MsPack.Cab MsPack.CountLaws

section kit
variable {ε s α β : Type}

def ThrPost (J : s → Prop) (E : ε → s → Prop) : Except ε α → s → Prop
  | .ok _, s' => J s'
  | .error e, s' => E e s'

structure Thr (J : s → Prop) (E : ε → s → Prop) (m : ExceptT ε (StateM s) α) : Prop where
  out : ∀ st, J st → ∀ r s', m.run.run st = (r, s') → ThrPost J E r s'

theorem Thr.pure (J : s → Prop) (E : ε → s → Prop) (a : α) : Thr J E (pure a : ExceptT ε (StateM s) α) :=
  ⟨fun _ hj _ _ h => by cases h; exact hj⟩
theorem Thr.throw {J : s → Prop} {E : ε → s → Prop} {e : ε} (h : ∀ st, J st → E e st) :
    Thr J E (throw e : ExceptT ε (StateM s) α) :=
  ⟨fun _ hj _ _ h' => by cases h'; exact h _ hj⟩
theorem Thr.get (J : s → Prop) (E : ε → s → Prop) : Thr J E (get : ExceptT ε (StateM s) s) :=
  ⟨fun _ hj _ _ h => by cases h; exact hj⟩
theorem Thr.set {J : s → Prop} {E : ε → s → Prop} {x : s} (hx : J x) :
    Thr J E (set x : ExceptT ε (StateM s) PUnit) :=
  ⟨fun _ _ _ _ h => by cases h; exact hx⟩
theorem Thr.modify {J : s → Prop} {E : ε → s → Prop} {g : s → s} (hg : ∀ st, J st → J (g st)) :
    Thr J E (modify g : ExceptT ε (StateM s) PUnit) :=
  ⟨fun _ hj _ _ h => by cases h; exact hg _ hj⟩

theorem Thr.bind {J : s → Prop} {E : ε → s → Prop} {x : ExceptT ε (StateM s) α}
    {f : α → ExceptT ε (StateM s) β} (hx : Thr J E x) (hf : ∀ a, Thr J E (f a)) : Thr J E (x >>= f) := by
  constructor
  intro st hj r s' h
  rw [run_bind] at h
  cases hr : x.run.run st with
  | mk r1 s1 =>
    rw [hr] at h
    have h1 := hx.out st hj _ _ hr
    cases r1 with
    | ok a => exact (hf a).out _ h1 _ _ h
    | error e1 => cases h; exact h1

theorem Thr.get_bind {J : s → Prop} {E : ε → s → Prop} {f : s → ExceptT ε (StateM s) β}
    (hf : ∀ r, J r → Thr J E (f r)) : Thr J E (MonadState.get >>= f) := by
  constructor
  intro st hj r s' h
  rw [run_bind] at h
  exact (hf st hj).out st hj _ _ h

/-- the run from one given state -/
def ThrFrom (J : s → Prop) (E : ε → s → Prop) (st : s) (m : ExceptT ε (StateM s) α) : Prop :=
  ∀ r s', m.run.run st = (r, s') → ThrPost J E r s'

theorem Thr.get_bind_from {J : s → Prop} {E : ε → s → Prop} {f : s → ExceptT ε (StateM s) β}
    (hf : ∀ r, J r → ThrFrom J E r (f r)) : Thr J E (MonadState.get >>= f) := by
  constructor
  intro st hj r s' h
  rw [run_bind] at h
  exact hf st hj _ _ h

theorem thrFrom_throw {J : s → Prop} {E : ε → s → Prop} {e : ε} {st : s} (h : E e st) :
    ThrFrom J E st (throw e : ExceptT ε (StateM s) α) := by
  intro r s' h'; cases h'; exact h

theorem thrFrom_set {J : s → Prop} {E : ε → s → Prop} {x st : s} (hx : J x) :
    ThrFrom J E st (set x : ExceptT ε (StateM s) PUnit) := by
  intro r s' h; cases h; exact hx

theorem thrFrom_set_throw {J : s → Prop} {E : ε → s → Prop} {x st : s} {e : ε} (hx : E e x) :
    ThrFrom J E st ((do set x; throw e) : ExceptT ε (StateM s) α) := by
  intro r s' h
  rw [run_bind] at h
  cases h; exact hx

end kit

section tactics
open Lean Elab Tactic Meta

/-- `throws_jp` of `CountLaws.lean` for `Thr` goals -/
elab "thr_jp" : tactic => withMainContext do
  let g ← getMainGoal
  let t ← instantiateMVars (← g.getType)
  let some C := t.getAppFn.constName? | throwError "not a Thr goal"
  unless C == ``Thr do throwError "not a Thr goal"
  let .letE n ty v b _ := t.appArg! | throwError "no join point"
  let E := t.appFn!.appArg!
  let J := t.appFn!.appFn!.appArg!
  let .forallE rn rty _ _ ← whnfR ty
    | do let g' ← g.replaceTargetDefEq (mkApp t.appFn! (b.instantiate1 v))
         replaceMainGoal [g']
         return
  let t2 ← withLocalDeclD rn rty fun r => do
    mkForallFVars #[r] (← mkAppM C #[J, E, (mkApp v r).headBeta])
  let t1 ← withLocalDeclD n ty fun jp => do
    let hty ← withLocalDeclD rn rty fun r => do
      mkForallFVars #[r] (← mkAppM C #[J, E, mkApp jp r])
    withLocalDeclD `hjp hty fun hjp => do
      mkForallFVars #[jp, hjp] (mkApp t.appFn! (b.instantiate1 jp))
  let g1 ← mkFreshExprSyntheticOpaqueMVar t1
  let g2 ← mkFreshExprSyntheticOpaqueMVar t2
  g.assign (mkApp2 g1 v g2)
  replaceMainGoal [g2.mvarId!, g1.mvarId!]

elab "thr_hyp" : tactic => withMainContext do
  let g ← getMainGoal
  for d in (← getLCtx) do
    if d.isImplementationDetail then continue
    let ty ← instantiateMVars d.type
    if ty.getForallBody.isAppOf ``Thr then
      let s ← saveState
      try
        let gs ← withReducible (g.apply d.toExpr)
        replaceMainGoal gs
        return
      catch _ => s.restore
  throwError "no hypothesis applies"

end tactics

/-- closes `J x` after a `set`/`modify` that does not touch what `J` reads -/
syntax "thr_close" : tactic
macro_rules | `(tactic| thr_close) => `(tactic| assumption)

/-- closes `∀ st, J st → E e st` for a concrete exception `e` -/
syntax "thr_throw_close" : tactic
macro_rules | `(tactic| thr_throw_close) => `(tactic| fail "no rule")

syntax "thr_auto" (" [" term,* "]")? : tactic
macro_rules
  | `(tactic| thr_auto [$ts,*]) => do
    let alts ← ts.getElems.mapM fun t => `(tacticSeq| with_reducible apply $t)
    `(tactic| repeat' first
      | with_reducible exact Thr.pure _ _ _
      | with_reducible exact Thr.get _ _
      | ((with_reducible refine Thr.throw ?_); thr_throw_close)
      | ((with_reducible refine Thr.set ?_); thr_close)
      | ((with_reducible refine Thr.modify ?_); intro _ _; thr_close)
      | ((with_reducible refine Thr.get_bind ?_); intro _ _)
      | with_reducible refine Thr.bind ?_ ?_
      | thr_hyp
      $[| $alts]*
      | thr_jp
      | intro _
      | split)
  | `(tactic| thr_auto) => `(tactic| thr_auto [Thr.pure _ _ _])

/-! ## MSZIP under the CAB feeder -/
namespace ZipThread
open MsPack.Zip

/-- the feeder inside the decoder state is live -/
def ZJ (st : Zip.St Feeder) : Prop := FeederLive st.src

/-- what an exceptional end leaves: a fault is not a null dereference; after a format error the
    feeder is live; after a status return it is live unless the sticky error is set -/
def ZE : Zip.Halt → Zip.St Feeder → Prop
  | .fault f, _ => ∀ w, f ≠ .nullDeref w
  | .inf, st => ZJ st
  | .sys _, st => st.error = .ok → ZJ st

macro_rules | `(tactic| thr_close) => `(tactic| (unfold ZJ at *; assumption))
macro_rules | `(tactic| thr_throw_close) => `(tactic| (intro st hj; first
  | exact hj
  | exact (fun _ => hj)
  | (intro w h; cases h)))

variable (files : Files)

theorem readInput_thr : Thr ZJ ZE (readInput (feederSrc files)) := by
  unfold readInput
  refine Thr.get_bind_from fun st hj => ?_
  split
  · rename_i f hr
    exact absurd hr (feederSrc_read_no_fault files st.src _ f hj)
  · exact thrFrom_set_throw (fun he => by cases he)
  · rename_i src hr
    have hl : FeederLive src := feederSrc_read_live files st.src _ [] src hj hr
    split
    · exact thrFrom_set_throw (fun he => by cases he)
    · exact thrFrom_set hl
  · rename_i got src _ hr
    exact thrFrom_set (feederSrc_read_live files st.src _ got src hj hr)

theorem nextByte_thr : Thr ZJ ZE (nextByte (feederSrc files)) := by
  unfold nextByte; thr_auto [readInput_thr files]

theorem ensureBits_thr (n : Nat) : ∀ fuel, Thr ZJ ZE (ensureBits (feederSrc files) n fuel) := by
  intro fuel
  induction fuel with
  | zero => rw [ensureBits.eq_1]; thr_auto
  | succ fuel ih => rw [ensureBits.eq_2]; thr_auto [ih, nextByte_thr files]

theorem removeBits_thr (n : Nat) : Thr ZJ ZE (removeBits (σ := Feeder) n) := by
  unfold removeBits; thr_auto

theorem readBits_thr (n : Nat) : Thr ZJ ZE (readBits (feederSrc files) n) := by
  unfold readBits; thr_auto [ensureBits_thr files, removeBits_thr]

theorem readHuffSym_thr (c : Huff.Canon) : Thr ZJ ZE (readHuffSym (feederSrc files) c) := by
  unfold readHuffSym; thr_auto [ensureBits_thr files, removeBits_thr]

theorem readLensLoop_thr (c : Huff.Canon) (total : Nat) : ∀ fuel lens last,
    Thr ZJ ZE (readLensLoop (feederSrc files) c total fuel lens last) := by
  intro fuel
  induction fuel with
  | zero => intro lens last; rw [readLensLoop.eq_1]; thr_auto
  | succ fuel ih =>
    intro lens last; rw [readLensLoop.eq_2]
    thr_auto [ih, ensureBits_thr files, removeBits_thr, readBits_thr files]

theorem zipReadLens_rd_thr (blc : Nat) : ∀ k acc, Thr ZJ ZE (zipReadLens.rd (feederSrc files) blc k acc) := by
  intro k
  induction k with
  | zero => intro acc; rw [zipReadLens.rd.eq_1]; thr_auto
  | succ k ih => intro acc; rw [zipReadLens.rd.eq_2]; thr_auto [ih, readBits_thr files]

theorem zipReadLens_thr : Thr ZJ ZE (zipReadLens (feederSrc files)) := by
  unfold zipReadLens
  thr_auto [readBits_thr files, zipReadLens_rd_thr files, readLensLoop_thr files]

theorem flushWindow_thr (n : Nat) : Thr ZJ ZE (flushWindow (σ := Feeder) n) := by
  unfold flushWindow; thr_auto

theorem flushIfNeeded_thr : Thr ZJ ZE (flushIfNeeded (σ := Feeder)) := by
  unfold flushIfNeeded; thr_auto [flushWindow_thr]

theorem putByte_thr (b : UInt8) : Thr ZJ ZE (putByte (σ := Feeder) b) := by
  unfold putByte; thr_auto [flushIfNeeded_thr]

theorem copyStored_thr : ∀ fuel length, Thr ZJ ZE (copyStored (feederSrc files) fuel length) := by
  intro fuel
  induction fuel with
  | zero => intro length; rw [copyStored.eq_1]; thr_auto
  | succ fuel ih =>
    intro length; rw [copyStored.eq_2]
    thr_auto [ih, readInput_thr files, flushIfNeeded_thr]

theorem copyMatch_thr : ∀ length posn, Thr ZJ ZE (copyMatch (σ := Feeder) length posn) := by
  intro length
  induction length with
  | zero => intro posn; rw [copyMatch.eq_1]; thr_auto
  | succ length ih => intro posn; rw [copyMatch.eq_2]; thr_auto [ih, putByte_thr]

theorem huffBlock_thr (lit dist : Huff.Canon) : ∀ fuel, Thr ZJ ZE (huffBlock (feederSrc files) lit dist fuel) := by
  intro fuel
  induction fuel with
  | zero => rw [huffBlock.eq_1]; thr_auto
  | succ fuel ih =>
    rw [huffBlock.eq_2]
    thr_auto [ih, readHuffSym_thr files, readBits_thr files, putByte_thr, copyMatch_thr]

theorem inflate_more_thr : ∀ k acc, Thr ZJ ZE (inflate.more (feederSrc files) k acc) := by
  intro k
  induction k with
  | zero => intro acc; rw [inflate.more.eq_1]; thr_auto
  | succ k ih => intro acc; rw [inflate.more.eq_2]; thr_auto [ih, nextByte_thr files]

theorem inflate_thr : ∀ fuel, Thr ZJ ZE (inflate (feederSrc files) fuel) := by
  intro fuel
  induction fuel with
  | zero => rw [inflate.eq_1]; thr_auto
  | succ fuel ih =>
    rw [inflate.eq_2]
    thr_auto [ih, readBits_thr files, inflate_more_thr files, copyStored_thr files, zipReadLens_thr files,
      huffBlock_thr files, flushWindow_thr]

theorem scanCK_thr : ∀ fuel state, Thr ZJ ZE (scanCK (feederSrc files) fuel state) := by
  intro fuel
  induction fuel with
  | zero => intro state; rw [scanCK.eq_1]; thr_auto
  | succ fuel ih => intro state; rw [scanCK.eq_2]; thr_auto [ih, readBits_thr files]

/-! ### the API level -/

/-- what `runInflate` leaves, by result -/
def ZR : InfRes → Zip.St Feeder → Prop
  | .sys _, st => st.error = .ok → ZJ st
  | _, st => ZJ st

theorem runInflate_thr (fuel : Nat) (st : Zip.St Feeder) (hj : ZJ st) :
    (∀ f, runInflate (feederSrc files) fuel st = .error f → ∀ w, f ≠ .nullDeref w) ∧
    (∀ res s', runInflate (feederSrc files) fuel st = .ok (res, s') → ZR res s') := by
  unfold runInflate
  have h := (inflate_thr files fuel).out st hj
  split
  · rename_i s' heq
    refine ⟨fun f hf => ?_, fun res s2 hr => ?_⟩
    · cases hf
    · cases hr; exact h _ _ heq
  · rename_i f s' heq
    refine ⟨fun f' hf => ?_, fun res s2 hr => ?_⟩
    · cases hf; exact h _ _ heq
    · cases hr
  · rename_i s' heq
    refine ⟨fun f hf => ?_, fun res s2 hr => ?_⟩
    · cases hf
    · cases hr; exact h _ _ heq
  · rename_i e s' heq
    refine ⟨fun f hf => ?_, fun res s2 hr => ?_⟩
    · cases hf
    · cases hr; exact h _ _ heq

/-- one call: a fault is not a null dereference; the state returned has its feeder live unless the
    sticky error is set -/
def ZOut : Except Fault (Zip.Out Feeder) → Prop
  | .error f => ∀ w, f ≠ .nullDeref w
  | .ok o => o.st.error = .ok → ZJ o.st

theorem loopTail_thr (fuel n : Nat)
    (ih : ∀ (st : Zip.St Feeder) (outBytes : Nat) (w : Bytes), ZJ st →
      ZOut (decompressLoop (feederSrc files) fuel n st outBytes w))
    (res : InfRes) (st : Zip.St Feeder) (outBytes : Nat) (w : Bytes) (hr : ZR res st) :
    ZOut (CountLaws.Zip.loopTail (feederSrc files) fuel n res st outBytes w) := by
  unfold CountLaws.Zip.loopTail
  dsimp only
  split
  · split
    · exact hr
    · exact hr
  · rename_i hns
    apply ih
    cases res with
    | ok => exact hr
    | inf => exact hr
    | sys e => exact absurd rfl (hns e)

theorem repairSt_ZR (res : InfRes) (st : Zip.St Feeder) (h : ZR res st) : ZR res (CountLaws.Zip.repairSt res st) := by
  unfold CountLaws.Zip.repairSt
  split
  · cases res <;> exact h
  · exact h

theorem decompressLoop_thr (fuel : Nat) : ∀ (n : Nat) (st : Zip.St Feeder) (outBytes : Nat) (w : Bytes),
    ZJ st → ZOut (decompressLoop (feederSrc files) fuel n st outBytes w) := by
  intro n
  induction n with
  | zero => intro st outBytes w _; rw [decompressLoop.eq_1]; intro w h; cases h
  | succ n ih =>
    intro st outBytes w hj
    cases hd : decompressLoop (feederSrc files) fuel (n + 1) st outBytes w with
    | error f =>
      rw [decompressLoop.eq_2] at hd
      split at hd
      · cases hd
      · dsimp only at hd
        have hs := (scanCK_thr files fuel 0).out { st with bits := st.bits.drop (st.bits.length % 8) } hj
        split at hd
        · rename_i f' s heq
          cases hd
          exact hs _ _ heq
        · cases hd
        · cases hd
        · rename_i s heq
          have hj1 : ZJ { s with windowPosn := 0, bytesOutput := 0 } := hs _ _ heq
          have hri := runInflate_thr files fuel _ hj1
          split at hd
          · rename_i f' hrf
            cases hd
            exact hri.1 _ hrf
          · rename_i res s2 hrr
            split at hd
            · cases hd
            · change CountLaws.Zip.loopTail (feederSrc files) fuel n res (CountLaws.Zip.repairSt res s2) outBytes w = _ at hd
              have := loopTail_thr files fuel n ih res _ outBytes w (repairSt_ZR res s2 (hri.2 _ _ hrr))
              rw [hd] at this
              exact this
    | ok o =>
      rw [decompressLoop.eq_2] at hd
      split at hd
      · cases hd; exact fun _ => hj
      · dsimp only at hd
        have hs := (scanCK_thr files fuel 0).out { st with bits := st.bits.drop (st.bits.length % 8) } hj
        split at hd
        · cases hd
        · cases hd
          intro he; cases he
        · rename_i e s heq
          cases hd
          exact hs _ _ heq
        · rename_i s heq
          have hj1 : ZJ { s with windowPosn := 0, bytesOutput := 0 } := hs _ _ heq
          have hri := runInflate_thr files fuel _ hj1
          split at hd
          · cases hd
          · rename_i res s2 hrr
            have hsys : ∀ e, res = .sys e → e ≠ .ok :=
              fun e he => CountLaws.Zip.runInflate_sys (feederSrc files) fuel _ e s2 (he ▸ hrr)
            split at hd
            · rename_i hf
              cases hd
              intro he
              exfalso
              dsimp only at he
              cases res with
              | ok => exact hf.1 rfl
              | inf => cases he
              | sys e => exact hsys e rfl he
            · change CountLaws.Zip.loopTail (feederSrc files) fuel n res (CountLaws.Zip.repairSt res s2) outBytes w = _ at hd
              have := loopTail_thr files fuel n ih res _ outBytes w (repairSt_ZR res s2 (hri.2 _ _ hrr))
              rw [hd] at this
              exact this

theorem decompress_thr (fuel : Nat) (st : Zip.St Feeder) (n : Nat) (hj : st.error = .ok → ZJ st) :
    ZOut (Zip.decompress (feederSrc files) fuel st n) := by
  unfold Zip.decompress
  split
  · exact hj
  · rename_i he
    have hj' : ZJ st := hj (Decidable.not_not.mp he)
    dsimp only
    split
    · exact fun _ => hj'
    · exact decompressLoop_thr files fuel fuel _ _ _ hj'


end ZipThread

end MsPack.CabLift
