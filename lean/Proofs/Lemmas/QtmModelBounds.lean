import MsPack.Qtm.Invariant
/-!
# Quantum: the adaptive models never leave their arrays and never divide by zero

`Model.Ok B m` is the invariant of one `struct qtmd_model` between two `GET_SYMBOL`s:

* shape: `1 ≤ entries ≤ 64`, `entries < syms.size` (the array has the sentinel slot `syms[entries]`);
* the symbols stored in slots `0 .. entries-1` are `< B` (they are permuted by the sort of
  `qtmd_update_model`, never changed);
* frequencies: `cumfreq` is strictly decreasing over `0 .. entries`, the sentinel is `0`, and
  `cumfreq[0] ≤ 3800`.

`initModel` establishes it (`initModel_Ok`), `decodeSym` (= `GET_SYMBOL` without the
renormalisation) keeps it, returns a symbol `< B`, and cannot fault at all (`decodeSym_spec`):
in particular `syms[0].cumfreq ≠ 0`, so the `divZero` outcome is unreachable.
-/
namespace MsPack.Qtm
open MsPack MsPack.Generated

/-! ## accessors that do not need bounds proofs -/

def Model.el (m : Model) (k : Nat) : ModelSym := m.syms[k]?.getD default
def Model.cf (m : Model) (k : Nat) : Nat := (m.el k).cumfreq
def Model.sy (m : Model) (k : Nat) : Nat := (m.el k).sym

theorem Model.sym_el (m : Model) (i : Nat) (h : i < m.syms.size) : m.sym i = .ok (m.el i) := by
  simp [Model.sym, Model.el, h]

/-- `m'` has the shape of `m` (same `entries`, same array size) -/
def Model.Sh (m m' : Model) : Prop := m'.entries = m.entries ∧ m'.syms.size = m.syms.size

theorem Model.Sh.refl (m : Model) : m.Sh m := ⟨rfl, rfl⟩
theorem Model.Sh.trans {a b c : Model} (h1 : a.Sh b) (h2 : b.Sh c) : a.Sh c :=
  ⟨h2.1.trans h1.1, h2.2.trans h1.2⟩

def Model.putCf (m : Model) (i v : Nat) : Model :=
  { m with syms := m.syms.setIfInBounds i { sym := m.sy i, cumfreq := v } }

theorem Model.setCumfreq_put (m : Model) (i v : Nat) (h : i < m.syms.size) :
    m.setCumfreq i v = .ok (m.putCf i v) := by
  simp [Model.setCumfreq, h, Model.putCf, Model.sy, Model.el, Array.setIfInBounds]

theorem Model.putCf_el (m : Model) (i v k : Nat) (h : i < m.syms.size) :
    (m.putCf i v).el k = if k = i then { sym := m.sy i, cumfreq := v } else m.el k := by
  simp only [Model.putCf, Model.el, Array.getElem?_setIfInBounds]
  by_cases hk : i = k
  · subst hk; simp [h]
  · have : ¬ k = i := fun e => hk e.symm
    simp [hk, this]

@[simp] theorem Model.putCf_entries' (m : Model) (i v : Nat) : (m.putCf i v).entries = m.entries := rfl

theorem Model.putCf_sh (m : Model) (i v : Nat) : m.Sh (m.putCf i v) :=
  ⟨rfl, by simp [Model.putCf]⟩

theorem Model.putCf_cf (m : Model) (i v k : Nat) (h : i < m.syms.size) :
    (m.putCf i v).cf k = if k = i then v else m.cf k := by
  simp only [Model.cf, Model.putCf_el _ _ _ _ h]
  split <;> rfl

theorem Model.putCf_sy (m : Model) (i v k : Nat) (h : i < m.syms.size) :
    (m.putCf i v).sy k = m.sy k := by
  simp only [Model.sy, Model.putCf_el _ _ _ _ h]
  split
  · rename_i hk; subst hk; rfl
  · rfl

theorem Model.setSym_spec (m : Model) (i : Nat) (s : ModelSym) (h : i < m.syms.size) :
    ∃ m', m.setSym i s = .ok m' ∧ m.Sh m' ∧ ∀ k, m'.el k = if k = i then s else m.el k := by
  refine ⟨_, Model.setSym_ok m i s h, ⟨rfl, by simp⟩, ?_⟩
  intro k
  simp only [Model.el, Array.getElem?_set]
  by_cases hk : i = k
  · subst hk; simp
  · have : ¬ k = i := fun e => hk e.symm
    simp [hk, this]

/-! ## sums of a prefix -/

def sumF (f : Nat → Nat) : Nat → Nat
  | 0 => 0
  | n + 1 => sumF f n + f n

theorem sumF_congr (f g : Nat → Nat) (n : Nat) (h : ∀ k, k < n → g k = f k) : sumF g n = sumF f n := by
  induction n with
  | zero => rfl
  | succ n ih =>
    simp only [sumF]
    rw [ih (fun k hk => h k (by omega)), h n (by omega)]

theorem sumF_upd (f g : Nat → Nat) (i n : Nat) (hi : i < n) (h : ∀ k, k ≠ i → g k = f k) :
    sumF g n + f i = sumF f n + g i := by
  induction n with
  | zero => omega
  | succ n ih =>
    simp only [sumF]
    by_cases hn : i = n
    · subst hn
      have := sumF_congr f g i (fun k hk => h k (by omega))
      omega
    · have := ih (by omega)
      have := h n (fun e => hn e.symm)
      omega

theorem sumF_ge (f : Nat → Nat) (n : Nat) (h : ∀ k, k < n → 1 ≤ f k) : n ≤ sumF f n := by
  induction n with
  | zero => simp [sumF]
  | succ n ih =>
    simp only [sumF]
    have := ih (fun k hk => h k (by omega))
    have := h n (by omega)
    omega

/-! ## the invariant -/

structure Model.OkT (B T : Nat) (m : Model) : Prop where
  pos  : 1 ≤ m.entries
  lt   : m.entries < m.syms.size
  le64 : m.entries ≤ 64
  symB : ∀ k, k < m.entries → m.sy k < B
  dec  : ∀ k, k < m.entries → m.cf (k + 1) < m.cf k
  last : m.cf m.entries = 0
  top  : m.cf 0 ≤ T

/-- the invariant between two `GET_SYMBOL`s -/
abbrev Model.Ok (B : Nat) (m : Model) : Prop := m.OkT B 3800

/-- a strictly decreasing run is bounded by its first element -/
theorem cf_le_of_dec (m : Model) (a : Nat) (hd : ∀ k, a ≤ k → k < m.entries → m.cf (k + 1) < m.cf k) :
    ∀ d, a + d ≤ m.entries → m.cf (a + d) + d ≤ m.cf a := by
  intro d
  induction d with
  | zero => intro _; simp
  | succ d ih =>
    intro h
    have h1 := ih (by omega)
    have h2 := hd (a + d) (by omega) (by omega)
    have : a + (d + 1) = a + d + 1 := by omega
    rw [this]; omega

theorem cf_le_top (m : Model) (hd : ∀ k, k < m.entries → m.cf (k + 1) < m.cf k) (j : Nat)
    (hj : j ≤ m.entries) : m.cf j ≤ m.cf 0 := by
  have := cf_le_of_dec m 0 (fun k _ hk => hd k hk) j (by omega)
  simp only [Nat.zero_add] at this
  omega

/-! ## `initModel` -/

theorem initModel_el (dim start len : Nat) (fill : UInt8) (k : Nat) (hk : k ≤ len) (hl : len < dim) :
    (initModel dim start len fill).el k = { sym := (start + k) % 65536, cumfreq := (len - k) % 65536 } := by
  have : k < dim := by omega
  simp [Model.el, initModel, this, hk]

theorem initModel_Ok (dim start len : Nat) (fill : UInt8) (B : Nat) (h1 : 1 ≤ len) (h64 : len ≤ 64)
    (hl : len < dim) (hB : start + len ≤ B) : (initModel dim start len fill).Ok B := by
  have he : (initModel dim start len fill).entries = len := rfl
  refine ⟨by rw [he]; exact h1, by simp [initModel]; exact hl, by rw [he]; exact h64, ?_, ?_, ?_, ?_⟩
  · intro k hk
    rw [he] at hk
    simp only [Model.sy, initModel_el dim start len fill k (by omega) hl]
    omega
  · intro k hk
    rw [he] at hk
    simp only [Model.cf, initModel_el dim start len fill k (by omega) hl,
      initModel_el dim start len fill (k + 1) (by omega) hl]
    omega
  · simp only [he, Model.cf, initModel_el dim start len fill len (by omega) hl]
    omega
  · simp only [Model.cf, initModel_el dim start len fill 0 (by omega) hl]
    omega

/-! ## the loops of `qtmd_update_model` -/

theorem bumpLoop_spec (k : Nat) (m : Model) (hk : k ≤ m.entries) (hlt : m.entries < m.syms.size) :
    ∃ m', bumpLoop k m = .ok m' ∧ m.Sh m' ∧ (∀ j, m'.sy j = m.sy j) ∧
      (∀ j, m'.cf j = if j < k then (m.cf j + 8) % 65536 else m.cf j) := by
  induction k generalizing m with
  | zero => exact ⟨m, rfl, Model.Sh.refl m, fun _ => rfl, fun j => by simp⟩
  | succ i ih =>
    have h1 : i < m.syms.size := by omega
    simp only [bumpLoop, Model.sym_el _ _ h1, Model.setCumfreq_put _ _ _ h1, bind, Except.bind]
    obtain ⟨m', e, sh, hs, hc⟩ := ih (m.putCf i (((m.el i).cumfreq + 8) % 65536)) (by simp [Model.putCf]; omega)
      (by simp [Model.putCf]; omega)
    refine ⟨m', e, (Model.putCf_sh m i _).trans sh, ?_, ?_⟩
    · intro j; rw [hs j, Model.putCf_sy _ _ _ _ h1]
    · intro j
      rw [hc j, Model.putCf_cf _ _ _ _ h1]
      by_cases hji : j = i
      · subst hji
        have : ¬ j < j := by omega
        simp [this, Model.cf]
      · by_cases hlt' : j < i
        · have : j < i + 1 := by omega
          simp [hlt', this, hji]
        · have : ¬ j < i + 1 := by omega
          simp [hlt', this, hji]

theorem halveLoop_spec (k : Nat) (m : Model) (hk : k ≤ m.entries) (hlt : m.entries < m.syms.size)
    (hle : m.entries ≤ 64)
    (ha : ∀ j, j < k → m.cf j ≤ 3808)
    (hb : ∀ j, k ≤ j → j < m.entries → m.cf (j + 1) < m.cf j)
    (hc : m.cf m.entries = 0)
    (hd : ∀ j, k ≤ j → j ≤ m.entries → m.cf j ≤ 1904 + (m.entries - j)) :
    ∃ m', halveLoop k m = .ok m' ∧ m.Sh m' ∧ (∀ j, m'.sy j = m.sy j) ∧
      (∀ j, j < m.entries → m'.cf (j + 1) < m'.cf j) ∧ m'.cf m.entries = 0 ∧
      m'.cf 0 ≤ 1904 + m.entries := by
  induction k generalizing m with
  | zero =>
    exact ⟨m, rfl, Model.Sh.refl m, fun _ => rfl, fun j hj => hb j (by omega) hj, hc,
      by have := hd 0 (by omega) (by omega); omega⟩
  | succ i ih =>
    have h1 : i < m.syms.size := by omega
    have h2 : i + 1 < m.syms.size := by omega
    simp only [halveLoop, Model.sym_el _ _ h1, Model.sym_el _ _ h2, Model.setCumfreq_put _ _ _ h1,
      bind, Except.bind]
    generalize hcv : (if (m.el i).cumfreq / 2 ≤ (m.el (i + 1)).cumfreq then ((m.el (i + 1)).cumfreq + 1) % 65536
      else (m.el i).cumfreq / 2) = c
    have hci : m.cf i ≤ 3808 := ha i (by omega)
    have hnx : m.cf (i + 1) ≤ 1904 + (m.entries - (i + 1)) := hd (i + 1) (by omega) (by omega)
    have hc1 : m.cf (i + 1) < c := by
      simp only [Model.cf] at hci hnx ⊢
      rw [← hcv]; split <;> omega
    have hc2 : c ≤ 1904 + (m.entries - i) := by
      simp only [Model.cf] at hci hnx ⊢
      rw [← hcv]; split <;> omega
    have hcf := fun j => Model.putCf_cf m i c j h1
    obtain ⟨m', e, sh, hs, hdec, hlast, htop⟩ := ih (m.putCf i c) (by simp [Model.putCf]; omega)
      (by simp [Model.putCf]; omega) (by simpa using hle)
      (fun j hj => by rw [hcf]; have : ¬ j = i := by omega
                      simp only [this, if_false]; exact ha j (by omega))
      (fun j hj1 hj2 => by
        simp only [Model.putCf_entries'] at hj2
        rw [hcf, hcf]
        by_cases hji : j = i
        · subst hji
          have : ¬ j + 1 = j := by omega
          simp only [this, if_false, if_true]; exact hc1
        · have h3 : ¬ j + 1 = i := by omega
          simp only [hji, h3, if_false]; exact hb j (by omega) hj2)
      (by simp only [Model.putCf_entries']; rw [hcf]
          have : ¬ m.entries = i := by omega
          simp only [this, if_false]; exact hc)
      (fun j hj1 hj2 => by
        simp only [Model.putCf_entries'] at hj2 ⊢
        rw [hcf]
        by_cases hji : j = i
        · subst hji; simp only [if_true]; exact hc2
        · simp only [hji, if_false]; exact hd j (by omega) hj2)
    simp only [Model.putCf_entries'] at hdec hlast htop
    refine ⟨m', e, (Model.putCf_sh m i c).trans sh, ?_, hdec, hlast, htop⟩
    intro j; rw [hs j, Model.putCf_sy _ _ _ _ h1]

theorem toFreqLoop_spec (T : Nat) (k i : Nat) (m : Model) (hk : i + k = m.entries)
    (hlt : m.entries < m.syms.size)
    (hpos : ∀ j, j < i → 1 ≤ m.cf j)
    (hdec : ∀ j, i ≤ j → j < m.entries → m.cf (j + 1) < m.cf j)
    (hlast : m.cf m.entries = 0)
    (hbd : m.cf i ≤ 3808)
    (hsum : 2 * sumF m.cf i + m.cf i ≤ T + i) :
    ∃ m', toFreqLoop k i m = .ok m' ∧ m.Sh m' ∧ (∀ j, m'.sy j = m.sy j) ∧
      (∀ j, j < m.entries → 1 ≤ m'.cf j) ∧ m'.cf m.entries = 0 ∧
      2 * sumF m'.cf m.entries ≤ T + m.entries := by
  induction k generalizing m i with
  | zero =>
    have : i = m.entries := by omega
    subst this
    exact ⟨m, rfl, Model.Sh.refl m, fun _ => rfl, hpos, hlast, by omega⟩
  | succ k ih =>
    have h1 : i < m.syms.size := by omega
    have h2 : i + 1 < m.syms.size := by omega
    simp only [toFreqLoop, Model.sym_el _ _ h1, Model.sym_el _ _ h2, Model.setCumfreq_put _ _ _ h1,
      bind, Except.bind]
    generalize hcv : (((m.el i).cumfreq + 65536 - (m.el (i + 1)).cumfreq) % 65536 + 1) % 65536 / 2 = c
    have hnx : m.cf (i + 1) < m.cf i := hdec i (by omega) (by omega)
    have hc1 : 1 ≤ c ∧ 2 * c + m.cf (i + 1) ≤ m.cf i + 1 := by
      simp only [Model.cf] at hbd hnx ⊢
      rw [← hcv]; omega
    have hcf := fun j => Model.putCf_cf m i c j h1
    have hsm : sumF (m.putCf i c).cf i = sumF m.cf i :=
      sumF_congr _ _ _ (fun j hj => by rw [hcf]; have : ¬ j = i := by omega
                                       simp only [this, if_false])
    obtain ⟨m', e, sh, hs, hp', hl', hs'⟩ := ih (i + 1) (m.putCf i c) (by simp; omega)
      (by simp [Model.putCf]; omega)
      (fun j hj => by
        rw [hcf]
        by_cases hji : j = i
        · simp only [hji, if_true]; exact hc1.1
        · simp only [hji, if_false]; exact hpos j (by omega))
      (fun j hj1 hj2 => by
        simp only [Model.putCf_entries'] at hj2
        rw [hcf, hcf]
        have h3 : ¬ j = i := by omega
        have h4 : ¬ j + 1 = i := by omega
        simp only [h3, h4, if_false]; exact hdec j (by omega) hj2)
      (by simp only [Model.putCf_entries']; rw [hcf]
          have : ¬ m.entries = i := by omega
          simp only [this, if_false]; exact hlast)
      (by rw [hcf]
          have : ¬ i + 1 = i := by omega
          simp only [this, if_false]; omega)
      (by simp only [sumF]
          rw [hsm, hcf, hcf]
          have : ¬ i + 1 = i := by omega
          simp only [this, if_false, if_true]; omega)
    simp only [Model.putCf_entries'] at hp' hl' hs'
    refine ⟨m', e, (Model.putCf_sh m i c).trans sh, ?_, hp', hl', hs'⟩
    intro j; rw [hs j, Model.putCf_sy _ _ _ _ h1]

theorem sortInner_spec (P : ModelSym → Prop) (k i j : Nat) (m : Model) (hi : i < m.entries)
    (hij : i < j) (hk : j + k ≤ m.entries) (hlt : m.entries < m.syms.size)
    (hP : ∀ t, t < m.entries → P (m.el t)) :
    ∃ m', sortInner k i j m = .ok m' ∧ m.Sh m' ∧ (∀ t, m.entries ≤ t → m'.el t = m.el t) ∧
      (∀ t, t < m.entries → P (m'.el t)) ∧ sumF m'.cf m.entries = sumF m.cf m.entries := by
  induction k generalizing m j with
  | zero => exact ⟨m, rfl, Model.Sh.refl m, fun _ _ => rfl, hP, rfl⟩
  | succ k ih =>
    have h1 : i < m.syms.size := by omega
    have h2 : j < m.syms.size := by omega
    simp only [sortInner, Model.sym_el _ _ h1, Model.sym_el _ _ h2, bind, Except.bind]
    split
    · obtain ⟨ma, ea, sa, ela⟩ := Model.setSym_spec m i (m.el j) h1
      obtain ⟨mb, eb, sb, elb⟩ := Model.setSym_spec ma j (m.el i) (by rw [sa.2]; exact h2)
      simp only [ea, eb]
      have hen : mb.entries = m.entries := by rw [sb.1, sa.1]
      have elb' : ∀ t, mb.el t = if t = j then m.el i else if t = i then m.el j else m.el t := by
        intro t; rw [elb, ela]
      obtain ⟨m', e', s', hge, hP', hsum⟩ := ih (j + 1) mb (by rw [hen]; exact hi) (by omega)
        (by rw [hen]; omega)
        (by rw [hen, sb.2, sa.2]; exact hlt)
        (by intro t ht
            rw [hen] at ht
            rw [elb']
            split
            · exact hP i hi
            · split
              · exact hP j (by omega)
              · exact hP t ht)
      rw [hen] at hge hP' hsum
      refine ⟨m', e', (sa.trans sb).trans s', ?_, hP', ?_⟩
      · intro t ht
        rw [hge t ht, elb']
        have h3 : ¬ t = j := by omega
        have h4 : ¬ t = i := by omega
        simp only [h3, h4, if_false]
      · rw [hsum]
        have ha := sumF_upd m.cf ma.cf i m.entries hi (by
          intro t ht; simp only [Model.cf, ela, ht, if_false])
        have hb := sumF_upd ma.cf mb.cf j m.entries (by omega) (by
          intro t ht; simp only [Model.cf, elb, ht, if_false])
        have hai : ma.cf i = m.cf j := by simp only [Model.cf, ela, if_true]
        have haj : ma.cf j = m.cf j := by
          have : ¬ j = i := by omega
          simp only [Model.cf, ela, this, if_false]
        have hbj : mb.cf j = m.cf i := by simp only [Model.cf, elb, if_true]
        omega
    · simp only [pure, Except.pure]
      exact ih (j + 1) m hi (by omega) (by omega) hlt hP

theorem sortOuter_spec (P : ModelSym → Prop) (k i : Nat) (m : Model) (hk : i + k + 1 ≤ m.entries)
    (hlt : m.entries < m.syms.size) (hP : ∀ t, t < m.entries → P (m.el t)) :
    ∃ m', sortOuter k i m = .ok m' ∧ m.Sh m' ∧ (∀ t, m.entries ≤ t → m'.el t = m.el t) ∧
      (∀ t, t < m.entries → P (m'.el t)) ∧ sumF m'.cf m.entries = sumF m.cf m.entries := by
  induction k generalizing m i with
  | zero => exact ⟨m, rfl, Model.Sh.refl m, fun _ _ => rfl, hP, rfl⟩
  | succ k ih =>
    obtain ⟨m1, e1, s1, g1, p1, q1⟩ := sortInner_spec P (m.entries - (i + 1)) i (i + 1) m (by omega)
      (by omega) (by omega) hlt hP
    simp only [sortOuter, e1, bind, Except.bind]
    obtain ⟨m2, e2, s2, g2, p2, q2⟩ := ih (i + 1) m1 (by rw [s1.1]; omega) (by rw [s1.1, s1.2]; exact hlt)
      (by rw [s1.1]; exact p1)
    rw [s1.1] at g2 p2 q2
    exact ⟨m2, e2, s1.trans s2, fun t ht => by rw [g2 t ht, g1 t ht], p2, by rw [q2, q1]⟩

theorem resumLoop_spec (Tot : Nat) (k : Nat) (m : Model) (hk : k ≤ m.entries)
    (hlt : m.entries < m.syms.size) (hT : Tot ≤ 65535)
    (hpos : ∀ j, j < k → 1 ≤ m.cf j)
    (hdec : ∀ j, k ≤ j → j < m.entries → m.cf (j + 1) < m.cf j)
    (hlast : m.cf m.entries = 0)
    (hsum : sumF m.cf k + m.cf k = Tot) :
    ∃ m', resumLoop k m = .ok m' ∧ m.Sh m' ∧ (∀ j, m'.sy j = m.sy j) ∧
      (∀ j, j < m.entries → m'.cf (j + 1) < m'.cf j) ∧ m'.cf m.entries = 0 ∧ m'.cf 0 = Tot := by
  induction k generalizing m with
  | zero =>
    exact ⟨m, rfl, Model.Sh.refl m, fun _ => rfl, fun j hj => hdec j (by omega) hj, hlast,
      by simpa [sumF] using hsum⟩
  | succ i ih =>
    have h1 : i < m.syms.size := by omega
    have h2 : i + 1 < m.syms.size := by omega
    simp only [resumLoop, Model.sym_el _ _ h1, Model.sym_el _ _ h2, Model.setCumfreq_put _ _ _ h1,
      bind, Except.bind]
    generalize hcv : ((m.el i).cumfreq + (m.el (i + 1)).cumfreq) % 65536 = c
    have hpi : 1 ≤ m.cf i := hpos i (by omega)
    simp only [sumF] at hsum
    have hc1 : c = m.cf i + m.cf (i + 1) := by
      simp only [Model.cf] at hsum hpi ⊢
      rw [← hcv]; omega
    have hcf := fun j => Model.putCf_cf m i c j h1
    have hsm : sumF (m.putCf i c).cf i = sumF m.cf i :=
      sumF_congr _ _ _ (fun j hj => by rw [hcf]; have : ¬ j = i := by omega
                                       simp only [this, if_false])
    obtain ⟨m', e, sh, hs, hd', hl', ht'⟩ := ih (m.putCf i c) (by simp; omega)
      (by simp [Model.putCf]; omega)
      (fun j hj => by
        rw [hcf]
        have : ¬ j = i := by omega
        simp only [this, if_false]; exact hpos j (by omega))
      (fun j hj1 hj2 => by
        simp only [Model.putCf_entries'] at hj2
        rw [hcf, hcf]
        by_cases hji : j = i
        · subst hji
          have : ¬ j + 1 = j := by omega
          simp only [this, if_false, if_true]; omega
        · have h3 : ¬ j + 1 = i := by omega
          simp only [hji, h3, if_false]; exact hdec j (by omega) hj2)
      (by simp only [Model.putCf_entries']; rw [hcf]
          have : ¬ m.entries = i := by omega
          simp only [this, if_false]; exact hlast)
      (by rw [hsm, hcf]; simp only [if_true]; omega)
    simp only [Model.putCf_entries'] at hd' hl' ht'
    refine ⟨m', e, (Model.putCf_sh m i c).trans sh, ?_, hd', hl', ht'⟩
    intro j; rw [hs j, Model.putCf_sy _ _ _ _ h1]

/-- `qtmd_update_model` on a model whose total has just passed 3800 (it is at most 3808) -/
theorem updateModel_spec (B : Nat) (m : Model) (h : m.OkT B 3808) :
    ∃ m', updateModel m = .ok m' ∧ m'.Ok B := by
  have hall : ∀ j, j ≤ m.entries → m.cf j ≤ 3808 :=
    fun j hj => Nat.le_trans (cf_le_top m h.dec j hj) h.top
  have hpos := h.pos; have hlt := h.lt; have hle := h.le64
  by_cases hsl : m.shiftsleft - 1 ≠ 0
  · simp only [updateModel]
    rw [if_pos hsl]
    obtain ⟨m', e, sh, hs, hd, hl, ht⟩ := halveLoop_spec m.entries { m with shiftsleft := m.shiftsleft - 1 }
      (Nat.le_refl _) h.lt h.le64 (fun j hj => hall j (Nat.le_of_lt hj)) (fun j h1 h2 => absurd h2 (Nat.not_lt.mpr h1)) h.last
      (fun j h1 h2 => by
        have : j = m.entries := Nat.le_antisymm h2 h1
        subst this
        have := h.last
        show m.cf m.entries ≤ _
        omega)
    refine ⟨m', e, ?_, ?_, ?_, ?_, ?_, ?_, ?_⟩
    · rw [sh.1]; exact hpos
    · rw [sh.1, sh.2]; exact hlt
    · rw [sh.1]; exact hle
    · intro k hk; rw [sh.1] at hk; rw [hs k]; exact h.symB k hk
    · intro k hk; rw [sh.1] at hk; exact hd k hk
    · rw [sh.1]; exact hl
    · have : m'.cf 0 ≤ 1904 + m.entries := ht
      omega
  · simp only [updateModel]
    rw [if_neg hsl]
    obtain ⟨m1, e1, s1, y1, p1, l1, q1⟩ := toFreqLoop_spec (m.cf 0) m.entries 0 { m with shiftsleft := 50 }
      (by simp) h.lt (fun j hj => by omega) (fun j _ hj => h.dec j hj) h.last h.top
      (by simp only [sumF]; show 2 * 0 + m.cf 0 ≤ m.cf 0 + 0; omega)
    have en1 : m1.entries = m.entries := s1.1
    have sz1 : m1.syms.size = m.syms.size := s1.2
    have p1' : ∀ j, j < m.entries → 1 ≤ m1.cf j := p1
    have l1' : m1.cf m.entries = 0 := l1
    have q1' : 2 * sumF m1.cf m.entries ≤ m.cf 0 + m.entries := q1
    have y1' : ∀ j, m1.sy j = m.sy j := y1
    obtain ⟨m2, e2, s2, g2, p2, q2⟩ := sortOuter_spec (fun x => x.sym < B ∧ 1 ≤ x.cumfreq) (m1.entries - 1) 0 m1
      (by omega) (by rw [en1, sz1]; exact hlt)
      (fun t ht => by
        rw [en1] at ht
        exact ⟨by have := h.symB t ht; rw [← y1' t] at this; exact this, p1' t ht⟩)
    rw [en1] at g2 p2 q2
    have en2 : m2.entries = m.entries := by rw [s2.1, en1]
    have sz2 : m2.syms.size = m.syms.size := by rw [s2.2, sz1]
    have l2 : m2.cf m.entries = 0 := by
      simp only [Model.cf] at l1' ⊢
      rw [g2 m.entries (Nat.le_refl _)]; exact l1'
    have ht := h.top
    obtain ⟨m3, e3, s3, y3, d3, l3, t3⟩ := resumLoop_spec (sumF m2.cf m.entries) m2.entries m2 (Nat.le_refl _)
      (by rw [en2, sz2]; exact hlt) (by rw [q2]; omega)
      (fun j hj => by rw [en2] at hj; exact (p2 j hj).2) (fun j h1 h2 => by omega)
      (by rw [en2]; exact l2) (by rw [en2, l2]; omega)
    rw [en2] at d3 l3
    simp only [bind, Except.bind, e1, e2, e3]
    refine ⟨m3, rfl, ?_, ?_, ?_, ?_, ?_, ?_, ?_⟩
    · rw [s3.1, en2]; exact hpos
    · rw [s3.1, s3.2, en2, sz2]; exact hlt
    · rw [s3.1, en2]; exact hle
    · intro k hk; rw [s3.1, en2] at hk; rw [y3 k]; exact (p2 k hk).1
    · intro k hk; rw [s3.1, en2] at hk; exact d3 k hk
    · rw [s3.1, en2]; exact l3
    · rw [t3, q2]; omega

/-- `GET_SYMBOL` (without the renormalisation loop) on a model that satisfies the invariant: no
    fault of any kind, the invariant holds for the updated model, the symbol is one of the model's -/
theorem decodeSym_spec (B : Nat) (m : Model) (h : m.Ok B) (H L C : Nat) :
    ∃ o, decodeSym m H L C = .ok o ∧ o.model.Ok B ∧ o.sym < B := by
  have hw : m.WF m.syms.size := ⟨rfl, h.lt⟩
  have hpos := h.pos; have hlt := h.lt
  have h0 : 0 < m.syms.size := by omega
  obtain ⟨i, ei, ia, ib⟩ := scanSym_ok m hw
    ((((C + 1 + u32 - L) % u32 * (m.el 0).cumfreq + u32 - 1) % u32 / ((H + 65536 - L) % 65536 + 1)) % 65536)
    (m.entries - 1) 1 (by omega)
  have hi1 : i - 1 < m.syms.size := by omega
  have hi : i < m.syms.size := by omega
  obtain ⟨m1, e1, s1, y1, c1⟩ := bumpLoop_spec i m (by omega) h.lt
  have h0' : 0 < m1.syms.size := by rw [s1.2]; exact h0
  have hall : ∀ j, j ≤ m.entries → m.cf j ≤ 3800 :=
    fun j hj => Nat.le_trans (cf_le_top m h.dec j hj) h.top
  have c1' : ∀ j, j ≤ m.entries → m1.cf j = if j < i then m.cf j + 8 else m.cf j := by
    intro j hj
    rw [c1 j]
    have := hall j hj
    split
    · omega
    · rfl
  have hk1 : m1.OkT B 3808 := by
    refine ⟨by rw [s1.1]; exact hpos, by rw [s1.1, s1.2]; exact hlt, by rw [s1.1]; exact h.le64, ?_, ?_, ?_, ?_⟩
    · intro k hk; rw [s1.1] at hk; rw [y1 k]; exact h.symB k hk
    · intro k hk
      rw [s1.1] at hk
      rw [c1' k (by omega), c1' (k + 1) (by omega)]
      have := h.dec k hk
      split <;> split <;> omega
    · rw [s1.1, c1' _ (Nat.le_refl _)]
      have : ¬ m.entries < i := by omega
      simp only [this, if_false]; exact h.last
    · rw [c1' 0 (by omega)]
      have := h.top
      split <;> omega
  have htot : ¬ (m.el 0).cumfreq = 0 := by
    have := h.dec 0 (by omega)
    simp only [Model.cf] at this
    omega
  unfold decodeSym
  simp only [Model.sym_el _ _ h0, bind, Except.bind, ei]
  have hr : ¬ ((H + 65536 - L) % 65536 + 1 = 0) := by omega
  simp only [hr, if_false, pure, Except.pure]
  have hi0 : ¬ (i = 0) := by omega
  simp only [hi0, if_false, Model.sym_el _ _ hi1, Model.sym_el _ _ hi, htot, e1, Model.sym_el _ _ h0']
  have hsym : (m.el (i - 1)).sym < B := h.symB (i - 1) (by omega)
  split
  · obtain ⟨m2, e2, k2⟩ := updateModel_spec B m1 hk1
    simp only [e2]
    exact ⟨_, rfl, k2, hsym⟩
  · rename_i hgt
    refine ⟨_, rfl, ⟨hk1.pos, hk1.lt, hk1.le64, hk1.symB, hk1.dec, hk1.last, ?_⟩, hsym⟩
    simp only [Model.cf]
    omega
end MsPack.Qtm
