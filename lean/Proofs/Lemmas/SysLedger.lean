import MsPack.Sys
/-
What each primitive of the instrumented system does to the *ledger view* of the world:
live allocation ids, live handles as (id, mode) pairs, recorded misuse, next fresh id.
File contents, handle positions, call counters and the fault plan are deliberately not part of
the view: the lemmas hold whatever they are, i.e. for every file content and every fault plan.
-/
namespace MsPack.Sys

/-! ## `M` is a plain state-passing function -/
theorem bind_apply {α β} (x : M α) (f : α → M β) (w : World) : (x >>= f) w = f (x w).1 (x w).2 := rfl
theorem pure_apply {α} (a : α) (w : World) : (pure a : M α) w = (a, w) := rfl

structure View where
  allocs  : List Nat
  handles : List (Nat × Mode)
  misuse  : List Misuse
  nextId  : Nat

def World.view (w : World) : View :=
  ⟨w.liveAllocs, w.liveHandles.map (fun h => (h.id, h.mode)), w.misuse, w.nextId⟩

/-- handle ids are unique and every id is below the next fresh one -/
structure View.ok (v : View) : Prop where
  allocs_lt  : ∀ a ∈ v.allocs, a < v.nextId
  handles_lt : ∀ h ∈ v.handles, h.1 < v.nextId
  handles_nd : (v.handles.map (·.1)).Nodup

theorem tick_view (k : Kind) (w : World) : (tick k w).2.view = w.view := rfl

theorem alloc_spec (w : World) :
    ((alloc w).1 = none ∧ (alloc w).2.view = w.view) ∨
    ((alloc w).1 = some w.nextId ∧
      (alloc w).2.view = { w.view with allocs := w.nextId :: w.view.allocs, nextId := w.nextId + 1 }) := by
  unfold alloc
  simp only [tick]
  split
  · left; exact ⟨rfl, rfl⟩
  · right; exact ⟨rfl, rfl⟩

theorem free_none_view (w : World) : (free none w).2.view = w.view := rfl

theorem free_live_view (w : World) (a : Nat) (h : a ∈ w.view.allocs) :
    (free (some a) w).2.view = { w.view with allocs := w.view.allocs.erase a } := by
  have h' : a ∈ w.liveAllocs := by simpa [World.view] using h
  simp only [free, List.contains_iff_mem, h', ↓reduceIte, World.view]

theorem open_spec (name : String) (mode : Mode) (w : World) :
    ((open_ name mode w).1 = none ∧ (open_ name mode w).2.view = w.view) ∨
    ((open_ name mode w).1 = some w.nextId ∧
      (open_ name mode w).2.view =
        { w.view with handles := (w.nextId, mode) :: w.view.handles, nextId := w.nextId + 1 }) := by
  unfold open_
  simp only [tick]
  split
  · left; exact ⟨rfl, rfl⟩
  · split
    · left; exact ⟨rfl, rfl⟩
    · right; exact ⟨rfl, rfl⟩

/-- in a list with pairwise different ids, the id determines the element -/
theorem eq_of_id_eq : ∀ (l : List Handle), (l.map (·.id)).Nodup → ∀ x ∈ l, ∀ y ∈ l, x.id = y.id → x = y := by
  intro l
  induction l with
  | nil => intro _ x hx; cases hx
  | cons a as ih =>
    intro hnd x hx y hy hxy
    simp only [List.map_cons, List.nodup_cons] at hnd
    simp only [List.mem_cons] at hx hy
    rcases hx with rfl | hx <;> rcases hy with rfl | hy
    · rfl
    · exact absurd (List.mem_map.mpr ⟨y, hy, hxy.symm⟩) hnd.1
    · exact absurd (List.mem_map.mpr ⟨x, hx, hxy⟩) hnd.1
    · exact ih hnd.2 x hx y hy hxy

theorem ids_nodup (w : World) (hok : w.view.ok) : (w.liveHandles.map (·.id)).Nodup := by
  have := hok.handles_nd
  simp only [World.view, List.map_map] at this
  exact this

/-- a handle the view lists is found, with that mode -/
theorem findHandle_of_view (w : World) (hok : w.view.ok) (id : Nat) (m : Mode)
    (h : (id, m) ∈ w.view.handles) :
    ∃ hd, findHandle w id = some hd ∧ hd ∈ w.liveHandles ∧ hd.id = id ∧ hd.mode = m := by
  simp only [World.view, List.mem_map, Prod.mk.injEq] at h
  obtain ⟨y, hy, hyid, hym⟩ := h
  unfold findHandle
  cases hf : w.liveHandles.find? (fun x => decide (x.id = id)) with
  | none =>
    have := List.find?_eq_none.mp hf y hy
    simp [hyid] at this
  | some hd =>
    have hmem := List.mem_of_find?_eq_some hf
    have hid : hd.id = id := by simpa using List.find?_some hf
    have : hd = y := eq_of_id_eq _ (ids_nodup w hok) hd hmem y hy (by rw [hid, hyid])
    exact ⟨hd, rfl, hmem, hid, by rw [this]; exact hym⟩

theorem setHandle_view (w : World) (hok : w.view.ok) (h h' : Handle) (hmem : h ∈ w.liveHandles)
    (hid : h'.id = h.id) (hm : h'.mode = h.mode) : (setHandle h' w).view = w.view := by
  unfold setHandle World.view
  simp only [List.map_map]
  congr 1
  apply List.map_congr_left
  intro x hx
  simp only [Function.comp]
  split
  · rename_i hxe
    have : x = h := eq_of_id_eq _ (ids_nodup w hok) x hx h hmem (by rw [hxe, hid])
    rw [this, hid, hm]
  · rfl

theorem close_live_view (w : World) (hok : w.view.ok) (id : Nat) (m : Mode) (h : (id, m) ∈ w.view.handles) :
    (close id w).2.view = { w.view with handles := w.view.handles.filter (·.1 ≠ id) } := by
  obtain ⟨hd, hf, _, _, _⟩ := findHandle_of_view w hok id m h
  unfold close
  rw [hf]
  simp only [World.view, List.filter_map, View.mk.injEq, true_and, and_true]
  congr 1

/-- `read` on a live read handle changes nothing the ledger sees -/
theorem read_live_view (w : World) (hok : w.view.ok) (id n : Nat) (h : (id, Mode.read) ∈ w.view.handles) :
    (read id n w).2.view = w.view := by
  obtain ⟨hd, hf, hmem, hid, hmode⟩ := findHandle_of_view w hok id .read h
  unfold read
  simp only [tick]
  have hf' : findHandle { w with counts := w.counts.bump Kind.read } id = some hd := hf
  rw [hf']
  simp only [hmode, ne_eq, not_true_eq_false, ↓reduceIte]
  split
  · rfl
  · exact setHandle_view { w with counts := w.counts.bump Kind.read } hok hd _ hmem rfl hmode.symm

theorem write_live_view (w : World) (hok : w.view.ok) (id : Nat) (bs : Bytes) (h : (id, Mode.write) ∈ w.view.handles) :
    (write id bs w).2.view = w.view := by
  obtain ⟨hd, hf, hmem, hid, hmode⟩ := findHandle_of_view w hok id .write h
  unfold write
  simp only [tick]
  have hf' : findHandle { w with counts := w.counts.bump Kind.write } id = some hd := hf
  rw [hf']
  simp only [hmode, ne_eq, not_true_eq_false, ↓reduceIte]
  split
  · rfl
  · exact setHandle_view _ hok hd _ hmem rfl hmode.symm

theorem seek_live_view (w : World) (hok : w.view.ok) (id off : Nat) (m : Mode) (h : (id, m) ∈ w.view.handles) :
    (seekStart id off w).2.view = w.view := by
  obtain ⟨hd, hf, hmem, hid, hmode⟩ := findHandle_of_view w hok id m h
  unfold seekStart
  simp only [tick]
  have hf' : findHandle { w with counts := w.counts.bump Kind.seek } id = some hd := hf
  rw [hf']
  simp only
  split
  · rfl
  · exact setHandle_view _ hok hd _ hmem rfl rfl

theorem seekCur_live_view (w : World) (hok : w.view.ok) (id : Nat) (off : Int) (m : Mode) (h : (id, m) ∈ w.view.handles) :
    (seekCur id off w).2.view = w.view := by
  obtain ⟨hd, hf, hmem, hid, hmode⟩ := findHandle_of_view w hok id m h
  unfold seekCur
  simp only [tick]
  have hf' : findHandle { w with counts := w.counts.bump Kind.seek } id = some hd := hf
  rw [hf']
  simp only
  split
  · rfl
  · split
    · rfl
    · exact setHandle_view _ hok hd _ hmem rfl rfl

end MsPack.Sys
