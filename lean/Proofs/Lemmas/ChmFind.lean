import MsPack.Chm.Find
import Proofs.Lemmas.ChmEncode
import Proofs.Props.C15
/-
`chmd_fast_find` on the directories `encodeChm` writes, lemmas: skipping an ENCINT, the linear scan of
`search_chunk` against a specification-level scan (`scanFrom`), `search_chunk` on a writer's chunk whose
quick-reference area needs no offsets (`searchChunk_linear`), `read_chunk` with a consistent chunk cache, and the
PMGL chain walk.
-/
namespace MsPack.Chm
open MsPack MsPack.Generated
open MsPack.Oab (enc32 read_prefix readExact_prefix drop_after ofNat_toNat_lt)
open MsPack.Cab (enc16 u16_enc16 u32_enc32 getD_append_right')

/-! ## skipping an ENCINT without decoding it -/

theorem skipEncint_run (chunk : Bytes) (e : Nat) : ∀ (cont : Bytes) (last : UInt8) (rest : Bytes) (fuel p : Nat),
    chunk.drop p = cont ++ last :: rest → (∀ x ∈ cont, x &&& 0x80 ≠ 0) → last &&& 0x80 = 0 →
    p + cont.length < e → cont.length + 1 ≤ fuel →
    skipEncint chunk e fuel p = .ok (p + cont.length + 1) := by
  intro cont
  induction cont with
  | nil =>
    intro last rest fuel p hd _ hl hp hf
    simp only [List.nil_append, List.length_nil, Nat.add_zero] at *
    match fuel, hf with
    | fuel + 1, _ =>
      have hget := getElem?_of_drop hd
      rw [skipEncint, if_pos hp]
      simp only [hget, hl, ne_eq, not_true_eq_false, ↓reduceIte]
  | cons x xs ih =>
    intro last rest fuel p hd hall hl hp hf
    simp only [List.cons_append, List.length_cons] at *
    match fuel, hf with
    | fuel + 1, hf =>
      have hget := getElem?_of_drop hd
      have hx : x &&& 0x80 ≠ 0 := hall x (by simp)
      rw [skipEncint, if_pos (by omega)]
      simp only [hget, hx, ne_eq, not_false_eq_true, ↓reduceIte]
      rw [ih last rest fuel (p + 1) (drop_succ_of_drop hd) (fun y hy => hall y (by simp [hy])) hl (by omega) (by omega)]
      congr 1; omega

/-- the skipping loop steps exactly over any ENCINT the writer emits -/
theorem skipEncint_put (chunk : Bytes) (p e n fuel : Nat) (rest : Bytes)
    (hd : chunk.drop p = putEncint n ++ rest) (he : p + (putEncint n).length ≤ e)
    (hf : (putEncint n).length ≤ fuel) :
    skipEncint chunk e fuel p = .ok (p + (putEncint n).length) := by
  have hlen : (putEncint n).length = encintExtra 8 n + 1 := putEncintN_length _ _
  have hdl := digits_length (encintExtra 8 n) (n / 128)
  have hdlt := digits_lt (encintExtra 8 n) (n / 128)
  have hmod : n % 128 < 128 := Nat.mod_lt _ (by decide)
  have hd' : chunk.drop p = (encintDigits (encintExtra 8 n) (n / 128)).map (fun d => UInt8.ofNat (d + 128)) ++
      UInt8.ofNat (n % 128) :: rest := by
    rw [hd, putEncint, putEncintN_eq, encodeEncint, List.append_assoc]; rfl
  have := skipEncint_run chunk e _ _ rest fuel p hd'
    (by intro x hx; simp only [List.mem_map] at hx; obtain ⟨d, hd, rfl⟩ := hx; exact (cont_byte d (hdlt d hd)).1)
    (last_byte _ hmod).1 (by simp [hdl]; omega) (by simp [hdl]; omega)
  rw [this, hlen]
  simp [hdl]; omega

/-! ## the specification-level scan of one chunk's entries -/

/-- what the linear scan of `search_chunk` does on a PMGL chunk, in terms of the entries written at `p`: the index
    just behind the name of the first entry that compares equal, unless an entry that sorts after `fname` comes
    first or the entries run out -/
def scanFrom (fname : Bytes) : Nat → List EntrySpec → Option Nat
  | _, [] => none
  | p, en :: es =>
    if compare fname en.name = 0 then some (p + (putEncint en.name.length).length + en.name.length)
    else if compare fname en.name < 0 then none
    else scanFrom fname (p + (encEntry en).length) es

def toSearch (e : Nat) : Option Nat → Search
  | none => .notFound
  | some q => .found q e

theorem scanFrom_none (fname : Bytes) : ∀ (es : List EntrySpec) (p : Nat),
    (∀ en ∈ es, compare fname en.name ≠ 0) → scanFrom fname p es = none
  | [], _, _ => rfl
  | en :: es, p, h => by
    rw [scanFrom, if_neg (h en (List.mem_cons_self ..))]
    split
    · rfl
    · exact scanFrom_none fname es _ (fun g hg => h g (List.mem_cons_of_mem _ hg))

theorem encEntries_cons (en : EntrySpec) (es : List EntrySpec) : encEntries (en :: es) = encEntry en ++ encEntries es := by
  simp [encEntries]

theorem encEntries_append (a b : List EntrySpec) : encEntries (a ++ b) = encEntries a ++ encEntries b := by
  simp [encEntries]

theorem scanFrom_found (fname : Bytes) (en : EntrySpec) (post : List EntrySpec) (heq : compare fname en.name = 0) :
    ∀ (pre : List EntrySpec) (p : Nat), (∀ x ∈ pre, compare fname x.name > 0) →
    scanFrom fname p (pre ++ en :: post) =
      some (p + (encEntries pre).length + (putEncint en.name.length).length + en.name.length)
  | [], p, _ => by simp [scanFrom, heq, encEntries]
  | x :: pre, p, h => by
    have hx := h x (List.mem_cons_self ..)
    rw [List.cons_append, scanFrom, if_neg (by omega), if_neg (by omega),
      scanFrom_found fname en post heq pre _ (fun g hg => h g (List.mem_cons_of_mem _ hg)), encEntries_cons,
      List.length_append]
    congr 1; omega

/-! ## one entry at `p` -/

theorem entry_head (chunk : Bytes) (p e : Nat) (he : e < 4294967296) (en : EntrySpec) (rest : Bytes)
    (hd : chunk.drop p = encEntry en ++ rest) (hfit : p + (encEntry en).length ≤ e) :
    readEncint chunk p e = .ok ⟨en.name.length, p + (putEncint en.name.length).length, false⟩ ∧
    (chunk.drop (p + (putEncint en.name.length).length)).take en.name.length = en.name ∧
    chunk.drop (p + (putEncint en.name.length).length + en.name.length) =
      putEncint en.sec ++ (putEncint en.offset ++ (putEncint en.length ++ rest)) := by
  have hel := encEntry_length en
  rw [hel] at hfit
  have hd1 : chunk.drop p = putEncint en.name.length ++ (en.name ++ (putEncint en.sec ++ (putEncint en.offset ++
      (putEncint en.length ++ rest)))) := by
    rw [hd]; simp [encEntry, List.append_assoc]
  have r1 := readEncint_put chunk p e en.name.length _ (by omega) hd1 (by omega)
  have hd2 := drop_after chunk p _ _ hd1
  refine ⟨r1, ?_, drop_after chunk _ _ _ hd2⟩
  rw [hd2, List.take_left']; rfl

/-! ## the linear scan -/

theorem linear_spec (chunk : Bytes) (e : Nat) (he : e < 4294967296) (fname : Bytes) :
    ∀ (es : List EntrySpec) (p : Nat) (res : Option Nat) (rest : Bytes),
    chunk.drop p = encEntries es ++ rest → p + (encEntries es).length ≤ e →
    linear chunk e fname true es.length p res = .ok (toSearch e (scanFrom fname p es))
  | [], p, res, rest, _, _ => by cases res <;> simp [linear, scanFrom, toSearch]
  | en :: es, p, res, rest, hd, hfit => by
    have hel := encEntry_length en
    rw [encEntries_cons, List.length_append] at hfit
    rw [encEntries_cons, List.append_assoc] at hd
    obtain ⟨r1, hname, hd3⟩ := entry_head chunk p e he en _ hd (by omega)
    rw [hel] at hfit
    have s1 := skipEncint_put chunk _ e en.sec (e - (p + (putEncint en.name.length).length + en.name.length) + 1) _ hd3
      (by omega) (by omega)
    have hd4 := drop_after chunk _ _ _ hd3
    have s2 := skipEncint_put chunk _ e en.offset (e - (p + (putEncint en.name.length).length + en.name.length +
      (putEncint en.sec).length) + 1) _ hd4 (by omega) (by omega)
    have hd5 := drop_after chunk _ _ _ hd4
    have s3 := skipEncint_put chunk _ e en.length (e - (p + (putEncint en.name.length).length + en.name.length +
      (putEncint en.sec).length + (putEncint en.offset).length) + 1) _ hd5 (by omega) (by omega)
    have hd6 := drop_after chunk _ _ _ hd5
    have hpos : p + (putEncint en.name.length).length + en.name.length + (putEncint en.sec).length +
        (putEncint en.offset).length + (putEncint en.length).length = p + (encEntry en).length := by omega
    rw [hpos] at hd6 s3
    have ih := linear_spec chunk e he fname es (p + (encEntry en).length) res rest hd6 (by omega)
    have hm1 : en.name.length % 4294967296 = en.name.length := Nat.mod_eq_of_lt (by omega)
    have hm2 : (e - (p + (putEncint en.name.length).length)) % 4294967296 = e - (p + (putEncint en.name.length).length) :=
      Nat.mod_eq_of_lt (by omega)
    have hgt : ¬ (en.name.length > e - (p + (putEncint en.name.length).length)) := by omega
    cases res <;>
    · rw [List.length_cons, linear, r1]
      simp only [Bool.false_eq_true, false_or, hm1, hm2, hgt, ↓reduceIte, hname]
      rw [scanFrom]
      by_cases h0 : compare fname en.name = 0
      · simp only [h0, ↓reduceIte, toSearch]
      · rw [if_neg h0, if_neg h0]
        by_cases h1 : compare fname en.name < 0
        · simp only [h1, ↓reduceIte, toSearch]
        · rw [if_neg h1, if_neg h1]
          simp only [s1, s2, s3]
          exact ih

/-! ## `search_chunk` on a chunk the writer made -/

/-- `qr_density` of `search_chunk` -/
def qrDensity (density : Nat) : Nat := 1 + 2 ^ (if density < 16 then density else 16)

theorem qrDensity_bounds (density : Nat) : 2 ≤ qrDensity density ∧ qrDensity density ≤ 65537 := by
  unfold qrDensity
  have h1 : 1 ≤ 2 ^ (if density < 16 then density else 16) := Nat.one_le_two_pow
  have h2 : 2 ^ (if density < 16 then density else 16) ≤ 2 ^ 16 := Nat.pow_le_pow_right (by decide) (by split <;> omega)
  have h3 : (2 : Nat) ^ 16 = 65536 := by decide
  omega

/-- The writer's quick-reference area holds the entry count and no offsets.  That is a complete quick-reference
    area exactly when the chunk has a single quick-reference group (at most `qr_density` entries).  `search_chunk`
    also copes when the free space is too small for the offsets its arithmetic expects (it then ignores the
    area).  In every other case it would read offsets out of the zero padding and skip entries. -/
def noQuickref (cs density : Nat) (es : List EntrySpec) : Prop :=
  es.length ≤ qrDensity density ∨
  cs - 22 - (encEntries es).length < 2 * ((es.length + qrDensity density - 1) / qrDensity density)

/-- the first (and only) round of the binary search when there is one quick-reference group -/
theorem bsearch_single (chunk : Bytes) (cs e : Nat) (he : e < 4294967296) (fname : Bytes) (en : EntrySpec) (rest : Bytes)
    (hd : chunk.drop 20 = encEntry en ++ rest) (hfit : 20 + (encEntry en).length ≤ e) (fuel : Nat) :
    bsearch chunk cs 20 e fname (fuel + 1) 0 0 =
      .ok (if compare fname en.name = 0 then
             .done (compare fname en.name) (20 + (putEncint en.name.length).length) en.name.length 0 0
           else if compare fname en.name < 0 then .ret0
           else .done (compare fname en.name) (20 + (putEncint en.name.length).length) en.name.length 1 0) := by
  obtain ⟨r1, hname, _⟩ := entry_head chunk 20 e he en rest hd hfit
  have hel := encEntry_length en
  have hm1 : en.name.length % 4294967296 = en.name.length := Nat.mod_eq_of_lt (by omega)
  have hm2 : (e - (20 + (putEncint en.name.length).length)) % 4294967296 = e - (20 + (putEncint en.name.length).length) :=
    Nat.mod_eq_of_lt (by omega)
  have hgt : ¬ (en.name.length > e - (20 + (putEncint en.name.length).length)) := by omega
  rw [bsearch]
  simp only [Nat.add_zero, Nat.zero_div, qrTarget, ↓reduceIte, r1, Bool.false_eq_true, false_or, hm1, hm2, hgt, hname]
  by_cases h0 : compare fname en.name = 0
  · simp only [h0, ↓reduceIte]
  · rw [if_neg h0, if_neg h0]
    by_cases h1 : compare fname en.name < 0
    · simp only [h1, ↓reduceIte, ne_eq, not_true_eq_false]
    · rw [if_neg h1, if_neg h1]
      simp

/-- **`search_chunk` degenerates to the linear scan** on a PMGL chunk whose quick-reference area is the entry
    count alone (stated for any chunk with the writer's fields, so that no concrete bytes are in the way) -/
theorem searchChunk_generic (h : Header) (chunk fname : Bytes) (es : List EntrySpec) (tail : Bytes)
    (hsig : byteAt chunk 3 = 0x4C)
    (hqr : u32At chunk pmgl_QuickRefSize = h.chunkSize - 20 - (encEntries es).length)
    (hnum : u16At chunk (h.chunkSize - 2) = es.length)
    (hbody : chunk.drop 20 = encEntries es ++ tail)
    (hfit : chunkFits h.chunkSize es) (hcs : h.chunkSize ≤ 8192) (hne : es ≠ [])
    (hq : noQuickref h.chunkSize h.density es) :
    searchChunk h chunk fname = .ok (toSearch (20 + (encEntries es).length) (scanFrom fname 20 es)) := by
  obtain ⟨hf1, hf2⟩ := hfit
  obtain ⟨hD1, hD2⟩ := qrDensity_bounds h.density
  unfold noQuickref at hq
  have hn0 : es.length ≠ 0 := fun h0 => hne (List.length_eq_zero_iff.mp h0)
  have he : h.chunkSize - (h.chunkSize - 20 - (encEntries es).length) = 20 + (encEntries es).length := by omega
  have hlin := linear_spec chunk (20 + (encEntries es).length) (by omega) fname es 20 none tail hbody (Nat.le_refl _)
  unfold searchChunk
  zeta_head
  rw [hsig, hqr, hnum]
  have hDdef : 1 + 2 ^ (if h.density < 16 then h.density else 16) = qrDensity h.density := rfl
  simp only [hDdef]
  generalize qrDensity h.density = D at *
  simp only [hn0, ↓reduceIte, pmgl_Entries, he]
  have hk1 : ¬ (h.chunkSize - 20 - (encEntries es).length > h.chunkSize) := by omega
  rw [if_neg hk1]
  have hmod : (es.length + D - 1) % 4294967296 = es.length + D - 1 := Nat.mod_eq_of_lt (by omega)
  rw [hmod]
  have hQ : es.length ≤ D → (es.length + D - 1) / D = 1 := fun hle =>
    Nat.div_eq_of_lt_le (by omega) (by omega)
  generalize (es.length + D - 1) / D = Q at *
  have hdec : decide True = true := rfl
  rw [hdec]
  by_cases hc : Int.ofNat (Q * 2) > Int.ofNat (h.chunkSize - 20 - (encEntries es).length) - 2
  · rw [if_pos hc, if_neg (Nat.lt_irrefl 0)]
    exact hlin
  · rw [if_neg hc]
    have hQ1 : Q = 1 := by
      rcases hq with hle | ht
      · exact hQ hle
      · exfalso; apply hc; simp only [Int.ofNat_eq_natCast]; omega
    subst hQ1
    rw [if_pos (by omega)]
    cases es with
    | nil => exact absurd rfl hne
    | cons en es' =>
      have hd1 : chunk.drop 20 = encEntry en ++ (encEntries es' ++ tail) := by
        rw [hbody, encEntries_cons, List.append_assoc]
      have hbs := bsearch_single chunk h.chunkSize (20 + (encEntries (en :: es')).length) (by omega) fname en _ hd1
        (by rw [encEntries_cons, List.length_append]; omega) 1
      rw [hbs]
      rw [scanFrom] at hlin ⊢
      by_cases h0 : compare fname en.name = 0
      · simp only [h0, ↓reduceIte, toSearch, Nat.add_assoc]
      · rw [if_neg h0] at hlin ⊢
        rw [if_neg h0]
        by_cases h1 : compare fname en.name < 0
        · simp only [h1, ↓reduceIte, toSearch]
        · rw [if_neg h1] at hlin ⊢
          rw [if_neg h1]
          simp only [h0, ↓reduceIte, qrTarget, Nat.reduceAdd, Nat.reduceDiv, Nat.zero_mul, Nat.zero_mod, Nat.sub_zero,
            Nat.add_mod_right]
          have hm : (en :: es').length % 4294967296 = (en :: es').length := Nat.mod_eq_of_lt (by omega)
          have hle : ¬ ((en :: es').length > D) := by
            rcases hq with hle | ht
            · omega
            · exfalso; apply hc; simp only [Int.ofNat_eq_natCast]; omega
          rw [hm, if_neg hle]
          exact hlin

/-- the header fields of a writer's chunk that `read_chunk`, `search_chunk` and the chain walk look at -/
theorem encChunk_find_fields (cs total i : Nat) (es : List EntrySpec) (hfit : chunkFits cs es) (hcs : cs ≤ 8192)
    (htot : total ≤ 100000) (hi : i < total) :
    (byteAt (encChunk cs total i es) 0 = 0x50 ∧ byteAt (encChunk cs total i es) 1 = 0x4D ∧
     byteAt (encChunk cs total i es) 2 = 0x47 ∧ byteAt (encChunk cs total i es) 3 = 0x4C) ∧
    u32At (encChunk cs total i es) pmgl_QuickRefSize = cs - 20 - (encEntries es).length ∧
    u32At (encChunk cs total i es) pmgl_NextChunk = (if i + 1 = total then 0xFFFFFFFF else i + 1) := by
  have hf1 := hfit.1
  refine ⟨?_, ?_, ?_⟩
  · simp only [encChunk, enc32, byteAt, List.cons_append, List.append_assoc, List.getD_cons_zero, List.getD_cons_succ]
    decide
  · have := u32_at (cs - 20 - (encEntries es).length) 4 (by omega) (enc32 0x4C474D50)
      ((enc32 0 ++ enc32 (if i = 0 then 0xFFFFFFFF else i - 1) ++ enc32 (if i + 1 = total then 0xFFFFFFFF else i + 1)) ++
       (encEntries es ++ (List.replicate (cs - 22 - (encEntries es).length) 0 ++ enc16 es.length))) rfl
    simpa [encChunk, List.append_assoc, pmgl_QuickRefSize] using this
  · have := u32_at (if i + 1 = total then 0xFFFFFFFF else i + 1) 16 (by split <;> omega)
      (enc32 0x4C474D50 ++ enc32 (cs - 20 - (encEntries es).length) ++ enc32 0 ++ enc32 (if i = 0 then 0xFFFFFFFF else i - 1))
      (encEntries es ++ (List.replicate (cs - 22 - (encEntries es).length) 0 ++ enc16 es.length)) rfl
    simpa [encChunk, List.append_assoc, pmgl_NextChunk] using this

/-- **`searchChunk_linear`**: on the writer's chunk, for any header with the specification's chunk size and density,
    `search_chunk` is the linear scan with early exit: it reports the position behind the name of the first entry
    that compares equal to `fname`, or "not found" as soon as an entry sorts after `fname` or the entries run out -/
theorem searchChunk_linear (h : Header) (total i : Nat) (es : List EntrySpec) (fname : Bytes)
    (hfit : chunkFits h.chunkSize es) (hcs : h.chunkSize ≤ 8192) (htot : total ≤ 100000) (hi : i < total) (hne : es ≠ [])
    (hq : noQuickref h.chunkSize h.density es) :
    searchChunk h (encChunk h.chunkSize total i es) fname =
      .ok (toSearch (20 + (encEntries es).length) (scanFrom fname 20 es)) := by
  obtain ⟨⟨_, _, _, hsig⟩, hqr, _⟩ := encChunk_find_fields h.chunkSize total i es hfit hcs htot hi
  obtain ⟨_, hnum, tail, hbody⟩ := encChunk_fields h.chunkSize total i es hfit
  exact searchChunk_generic h _ fname es tail hsig hqr hnum hbody hfit hcs hne hq

/-- a chunk without entries is refused (`num_entries == 0`) -/
theorem searchChunk_empty (h : Header) (total i : Nat) (fname : Bytes) (hcs : 22 ≤ h.chunkSize) :
    searchChunk h (encChunk h.chunkSize total i []) fname = .ok .bad := by
  have hnum := (encChunk_fields h.chunkSize total i [] ⟨by simp [encEntries]; omega, by simp⟩).2.1
  generalize encChunk h.chunkSize total i [] = chunk at hnum
  unfold searchChunk
  zeta_head
  rw [hnum]
  rfl

/-! ## reading the entry that was found -/

theorem readFound_spec (chunk : Bytes) (q e : Nat) (st : FF) (en : EntrySpec) (rest : Bytes) (hwf : en.wf)
    (hd : chunk.drop q = putEncint en.sec ++ (putEncint en.offset ++ (putEncint en.length ++ rest)))
    (hfit : q + (putEncint en.sec).length + (putEncint en.offset).length + (putEncint en.length).length ≤ e) :
    readFound chunk q e st =
      .ok ⟨.ok, { st with error := .ok }, ⟨some en.sec, Int.ofNat en.offset, Int.ofNat en.length⟩⟩ := by
  obtain ⟨hs, ho, hl, _⟩ := hwf
  have r1 := readEncint_put chunk q e en.sec _ (by omega) hd (by omega)
  have hd2 := drop_after chunk _ _ _ hd
  have r2 := readEncint_put chunk _ e en.offset _ ho hd2 (by omega)
  have hd3 := drop_after chunk _ _ _ hd2
  have r3 := readEncint_put chunk _ e en.length _ hl hd3 (by omega)
  have hm3 : en.sec % 4294967296 = en.sec := Nat.mod_eq_of_lt (by omega)
  have hsec : (if en.sec = 0 then 0 else 1) = en.sec := by split <;> omega
  unfold readFound
  simp only [r1, r2, r3, hm3, hsec, Bool.or_self, Bool.false_eq_true, ↓reduceIte]

/-! ## `read_chunk` with a consistent chunk cache -/

/-- chunk number `n` of the file `encodeChm s` -/
def chunkOf (s : ChmSpec) (n : Nat) : Bytes := encChunk s.chunkSize s.numChunks n (s.chunks.getD n [])

/-- the header `open()` returned, with some state of the chunk cache -/
def withCache (s : ChmSpec) (filename : String) (cc : Option (List (Nat × Bytes))) : Header :=
  { s.listed filename with chunkCache := cc }

/-- every chunk the cache holds is the chunk of that number in the file -/
def CacheOk (s : ChmSpec) (cc : Option (List (Nat × Bytes))) : Prop :=
  ∀ l, cc = some l → ∀ k b, l.lookup k = some b → b = chunkOf s k

theorem cacheOk_none (s : ChmSpec) : CacheOk s none := by
  intro l h; cases h

theorem encChunks_drop (cs total : Nat) : ∀ (chunks : List (List EntrySpec)) (i k : Nat),
    (∀ c ∈ chunks, chunkFits cs c) → k < chunks.length →
    ∃ rest, (encChunks cs total i chunks).drop (k * cs) = encChunk cs total (i + k) (chunks.getD k []) ++ rest
  | [], _, _, _, hk => by simp at hk
  | c :: chunks, i, 0, _, _ => ⟨encChunks cs total (i + 1) chunks, by simp [encChunks]⟩
  | c :: chunks, i, k + 1, hfit, hk => by
    obtain ⟨rest, ih⟩ := encChunks_drop cs total chunks (i + 1) k (fun g hg => hfit g (List.mem_cons_of_mem _ hg))
      (by simpa using hk)
    refine ⟨rest, ?_⟩
    have hlen := encChunk_length cs total i c (hfit c (List.mem_cons_self ..)).1
    have hmul : (k + 1) * cs = (encChunk cs total i c).length + k * cs := by rw [hlen, Nat.succ_mul]; omega
    rw [encChunks, hmul, ← List.drop_drop, List.drop_left, ih, List.getD_cons_succ]
    congr 2; omega

theorem chunk_at (s : ChmSpec) (hwf : s.wf) (n : Nat) (hn : n < s.numChunks) :
    ∃ rest, (encodeChm s).drop (s.dirOffset + n * s.chunkSize) = chunkOf s n ++ rest := by
  obtain ⟨_, _, _, _, d5⟩ := chm_layout s
  have hfit : ∀ c ∈ s.chunks, chunkFits s.chunkSize c := fun c hc => (hwf.2.2.2.2.2.2.2.2 c hc).1
  obtain ⟨rest, hd⟩ := encChunks_drop s.chunkSize s.numChunks s.chunks 0 n hfit hn
  refine ⟨rest ++ s.content, ?_⟩
  rw [← List.drop_drop, d5, List.drop_append_of_le_length, hd, Nat.zero_add, List.append_assoc]
  · rfl
  · rw [encChunks_length _ _ _ _ hfit]
    have : n * s.chunkSize = s.chunkSize * n := Nat.mul_comm ..
    rw [this]
    exact Nat.mul_le_mul_left _ (Nat.le_of_lt hn)

theorem chunkOf_fits (s : ChmSpec) (hwf : s.wf) (n : Nat) : chunkFits s.chunkSize (s.chunks.getD n []) := by
  by_cases hn : n < s.chunks.length
  · have : s.chunks.getD n [] = s.chunks[n] := by simp [List.getD_eq_getElem?_getD, hn]
    rw [this]
    exact (hwf.2.2.2.2.2.2.2.2 _ (List.getElem_mem hn)).1
  · have : s.chunks.getD n [] = [] := by simp [List.getD_eq_getElem?_getD, Nat.le_of_not_lt hn]
    rw [this]
    have := (wf_chunkSize s hwf).1
    exact ⟨by simp [encEntries]; omega, by simp⟩

/-- `read_chunk` delivers the chunk of that number, leaves `self->error` alone and keeps the cache consistent -/
theorem readChunk_spec (s : ChmSpec) (hwf : s.wf) (filename : String) (err : Err) (cc : Option (List (Nat × Bytes)))
    (hok : CacheOk s cc) (n : Nat) (hn : n < s.numChunks) :
    ∃ cc', CacheOk s cc' ∧
      readChunk ⟨err, withCache s filename cc⟩ (encodeChm s) n = (some (chunkOf s n), ⟨err, withCache s filename cc'⟩) := by
  obtain ⟨hn1, hn2⟩ := wf_numChunks s hwf
  obtain ⟨hc1, hc2⟩ := wf_chunkSize s hwf
  obtain ⟨hm, hs0, hfl⟩ := wf_sizes s hwf
  have hok' : CacheOk s (some (cc.getD [])) := by
    intro l hl k b hb
    cases hl
    cases cc with
    | none => simp at hb
    | some l' => exact hok l' rfl k b hb
  have hnum : (withCache s filename cc).numChunks = s.numChunks := rfl
  cases hlook : (cc.getD []).lookup n with
  | some c =>
    refine ⟨some (cc.getD []), hok', ?_⟩
    unfold readChunk
    zeta_head
    rw [hnum, if_neg (by omega)]
    have hc := hok' _ rfl n c hlook
    subst hc
    have hcache : (withCache s filename cc).chunkCache.getD [] = cc.getD [] := rfl
    simp only [hcache, hlook]
    rfl
  | none =>
    refine ⟨some ((n, chunkOf s n) :: cc.getD []), ?_, ?_⟩
    · intro l hl k b hb
      cases hl
      rw [List.lookup_cons] at hb
      by_cases hkn : k = n
      · subst hkn; simp at hb; exact hb.symm
      · have : (k == n) = false := by simp [hkn]
        rw [this] at hb
        exact hok' _ rfl k b hb
    · obtain ⟨rest, hd⟩ := chunk_at s hwf n hn
      have hlen : (chunkOf s n).length = s.chunkSize := encChunk_length _ _ _ _ (chunkOf_fits s hwf n).1
      have hre := readExact_prefix _ _ _ _ hd
      rw [hlen] at hre
      have hle : n * s.chunkSize ≤ s.chunkSize * s.numChunks := by
        rw [Nat.mul_comm]; exact Nat.mul_le_mul_left _ (Nat.le_of_lt hn)
      have hmod : n * s.chunkSize % 4294967296 = n * s.chunkSize := Nat.mod_eq_of_lt (by omega)
      have hseek : seekAbs ⟨encodeChm s, 0⟩ ((withCache s filename cc).dirOffset +
          Int.ofNat (n * (withCache s filename cc).chunkSize % 4294967296)) =
          some ⟨encodeChm s, s.dirOffset + n * s.chunkSize⟩ := by
        have h1 : (withCache s filename cc).dirOffset = Int.ofNat s.dirOffset := rfl
        have h2 : (withCache s filename cc).chunkSize = s.chunkSize := rfl
        rw [h1, h2, hmod]
        have h3 : Int.ofNat s.dirOffset + Int.ofNat (n * s.chunkSize) = Int.ofNat (s.dirOffset + n * s.chunkSize) := by
          simp
        rw [h3, seekAbs_nat]
      have hcache : (withCache s filename cc).chunkCache.getD [] = cc.getD [] := rfl
      have hcs : (withCache s filename cc).chunkSize = s.chunkSize := rfl
      obtain ⟨⟨b0, b1, b2, b3⟩, _, _⟩ := encChunk_find_fields s.chunkSize s.numChunks n (s.chunks.getD n [])
        (chunkOf_fits s hwf n) hc2 hn2 hn
      unfold readChunk
      zeta_head
      rw [hnum, if_neg (by omega)]
      simp only [hcache, hlook, hseek]
      simp only [hcs, hre]
      have hsig : byteAt (chunkOf s n) 0 = 0x50 ∧ byteAt (chunkOf s n) 1 = 0x4D ∧ byteAt (chunkOf s n) 2 = 0x47 ∧
          (byteAt (chunkOf s n) 3 = 0x4C ∨ byteAt (chunkOf s n) 3 = 0x49) := ⟨b0, b1, b2, Or.inl b3⟩
      rw [if_neg (fun hnot => hnot hsig)]
      rfl

/-! ## the PMGL chain walk -/

theorem chunkOf_next (s : ChmSpec) (hwf : s.wf) (n : Nat) (hn : n < s.numChunks) :
    u32At (chunkOf s n) pmgl_NextChunk = (if n + 1 = s.numChunks then 0xFFFFFFFF else n + 1) :=
  (encChunk_find_fields s.chunkSize s.numChunks n (s.chunks.getD n []) (chunkOf_fits s hwf n) (wf_chunkSize s hwf).2
    (wf_numChunks s hwf).2 hn).2.2

/-- one round of the walk on a chunk in which `search_chunk` does not find the name -/
theorem walk_step (s : ChmSpec) (hwf : s.wf) (filename : String) (fname : Bytes) (n : Nat) (hn : n < s.numChunks)
    (r : Search) (hr : ∀ cc, searchChunk (withCache s filename cc) (chunkOf s n) fname = .ok r)
    (hnf : r = .notFound ∨ r = .bad) (fuel : Nat) (last : Search) (err : Err) (cc : Option (List (Nat × Bytes)))
    (hok : CacheOk s cc) :
    ∃ cc', CacheOk s cc' ∧
      walk (encodeChm s) fname (fuel + 1) n last ⟨err, withCache s filename cc⟩ =
        walk (encodeChm s) fname fuel (if n + 1 = s.numChunks then 0xFFFFFFFF else n + 1) r
          ⟨err, withCache s filename cc'⟩ := by
  obtain ⟨cc', hok', hrc⟩ := readChunk_spec s hwf filename err cc hok n hn
  refine ⟨cc', hok', ?_⟩
  have hlast : (⟨err, withCache s filename cc⟩ : FF).hdr.lastPmgl = s.numChunks - 1 := rfl
  have hnext := chunkOf_next s hwf n hn
  have hne : ¬ (n = if n + 1 = s.numChunks then 0xFFFFFFFF else n + 1) := by
    have := (wf_numChunks s hwf).2
    split <;> omega
  rw [walk, hlast, if_neg (by omega), hrc]
  simp only [hr cc']
  rcases hnf with rfl | rfl
  · simp only [hnext]
    rw [if_neg hne]
  · simp only [hnext]
    rw [if_neg hne]

/-- the round on the chunk in which `search_chunk` finds the name -/
theorem walk_step_found (s : ChmSpec) (hwf : s.wf) (filename : String) (fname : Bytes) (n : Nat) (hn : n < s.numChunks)
    (q e : Nat) (hr : ∀ cc, searchChunk (withCache s filename cc) (chunkOf s n) fname = .ok (.found q e))
    (fuel : Nat) (last : Search) (err : Err) (cc : Option (List (Nat × Bytes))) (hok : CacheOk s cc) :
    ∃ cc', CacheOk s cc' ∧
      walk (encodeChm s) fname (fuel + 1) n last ⟨err, withCache s filename cc⟩ =
        readFound (chunkOf s n) q e ⟨err, withCache s filename cc'⟩ := by
  obtain ⟨cc', hok', hrc⟩ := readChunk_spec s hwf filename err cc hok n hn
  refine ⟨cc', hok', ?_⟩
  have hlast : (⟨err, withCache s filename cc⟩ : FF).hdr.lastPmgl = s.numChunks - 1 := rfl
  rw [walk, hlast, if_neg (by omega), hrc]
  simp only [hr cc']

/-- the walk has run past `last_pmgl` -/
theorem walk_end (file fname : Bytes) (n : Nat) (last : Search) (st : FF) (hn : ¬ n ≤ st.hdr.lastPmgl) :
    ∀ fuel, walk file fname fuel n last st =
      .ok ⟨if last = .bad then .dataformat else .ok, { st with error := if last = .bad then .dataformat else .ok }, {}⟩
  | 0 => by rw [walk]; simp only [hn, not_false_eq_true, ↓reduceIte]
  | fuel + 1 => by rw [walk]; simp only [hn, not_false_eq_true, ↓reduceIte]

/-- no chunk has the name: the walk visits every chunk and ends with MSPACK_ERR_OK and an empty result -/
theorem walk_notFound (s : ChmSpec) (hwf : s.wf) (filename : String) (fname : Bytes)
    (hall : ∀ j, j < s.numChunks → ∀ cc, searchChunk (withCache s filename cc) (chunkOf s j) fname = .ok .notFound) :
    ∀ (d n fuel : Nat), n + d + 1 = s.numChunks → d + 1 ≤ fuel → ∀ (last : Search) (err : Err)
      (cc : Option (List (Nat × Bytes))), CacheOk s cc →
      ∃ cc', CacheOk s cc' ∧ walk (encodeChm s) fname fuel n last ⟨err, withCache s filename cc⟩ =
        .ok ⟨.ok, ⟨.ok, withCache s filename cc'⟩, {}⟩ := by
  intro d
  induction d with
  | zero =>
    intro n fuel hnd hf last err cc hok
    match fuel, hf with
    | fuel + 1, _ =>
      obtain ⟨cc', hok', hw⟩ := walk_step s hwf filename fname n (by omega) .notFound (hall n (by omega)) (Or.inl rfl)
        fuel last err cc hok
      refine ⟨cc', hok', ?_⟩
      rw [hw, if_pos (by omega), walk_end]
      · rfl
      · have := (wf_numChunks s hwf).2
        show ¬ (4294967295 ≤ s.numChunks - 1)
        omega
  | succ d ih =>
    intro n fuel hnd hf last err cc hok
    match fuel, hf with
    | fuel + 1, hf =>
      obtain ⟨cc', hok', hw⟩ := walk_step s hwf filename fname n (by omega) .notFound (hall n (by omega)) (Or.inl rfl)
        fuel last err cc hok
      obtain ⟨cc'', hok'', hw'⟩ := ih (n + 1) fuel (by omega) (by omega) .notFound err cc' hok'
      refine ⟨cc'', hok'', ?_⟩
      rw [hw, if_neg (by omega), hw']

/-- chunk `k` has the name and no earlier chunk does: the walk reaches chunk `k` and reads the entry -/
theorem walk_found (s : ChmSpec) (hwf : s.wf) (filename : String) (fname : Bytes) (k : Nat) (hk : k < s.numChunks)
    (q e : Nat) (hfound : ∀ cc, searchChunk (withCache s filename cc) (chunkOf s k) fname = .ok (.found q e))
    (hbefore : ∀ j, j < k → ∃ r, (r = .notFound ∨ r = .bad) ∧
      ∀ cc, searchChunk (withCache s filename cc) (chunkOf s j) fname = .ok r) :
    ∀ (d n fuel : Nat), n + d = k → d + 1 ≤ fuel → ∀ (last : Search) (err : Err)
      (cc : Option (List (Nat × Bytes))), CacheOk s cc →
      ∃ cc', CacheOk s cc' ∧ walk (encodeChm s) fname fuel n last ⟨err, withCache s filename cc⟩ =
        readFound (chunkOf s k) q e ⟨err, withCache s filename cc'⟩ := by
  intro d
  induction d with
  | zero =>
    intro n fuel hnd hf last err cc hok
    have : n = k := by omega
    subst this
    match fuel, hf with
    | fuel + 1, _ => exact walk_step_found s hwf filename fname n hk q e hfound fuel last err cc hok
  | succ d ih =>
    intro n fuel hnd hf last err cc hok
    match fuel, hf with
    | fuel + 1, hf =>
      obtain ⟨r, hr1, hr2⟩ := hbefore n (by omega)
      obtain ⟨cc', hok', hw⟩ := walk_step s hwf filename fname n (by omega) r hr2 hr1 fuel last err cc hok
      obtain ⟨cc'', hok'', hw'⟩ := ih (n + 1) fuel (by omega) (by omega) r err cc' hok'
      refine ⟨cc'', hok'', ?_⟩
      rw [hw, if_neg (by omega), hw']

/-! ## `compare` on ASCII names: case-insensitive lexicographic byte order -/

/-- the case-folded characters of an ASCII name -/
def foldKey (a : Bytes) : List Nat := a.map (fun b => toLower b.toNat)

/-- difference at the first position where two lists differ -/
def lexGo : List Nat → List Nat → Option Int
  | x :: a, y :: b => if x ≠ y then some (Int.ofNat x - Int.ofNat y) else lexGo a b
  | _, _ => none

/-- lexicographic comparison, a proper prefix sorting first -/
def lexCmp (a b : List Nat) : Int :=
  match lexGo a b with
  | some d => d
  | none => Int.ofNat a.length - Int.ofNat b.length

theorem compareGo_ascii : ∀ (a b : Bytes) (fuel : Nat), (∀ x ∈ a, x.toNat < 0x80) → (∀ x ∈ b, x.toNat < 0x80) →
    a.length < fuel → compareGo fuel a b = lexGo (foldKey a) (foldKey b)
  | [], b, fuel + 1, _, _, _ => by simp [compareGo, foldKey, lexGo]
  | x :: a, [], fuel + 1, _, _, _ => by simp [compareGo, foldKey, lexGo]
  | x :: a, y :: b, fuel + 1, ha, hb, hf => by
    have hx : x.toNat < 0x80 := ha x (by simp)
    have hy : y.toNat < 0x80 := hb y (by simp)
    have ih := compareGo_ascii a b fuel (fun z hz => ha z (by simp [hz])) (fun z hz => hb z (by simp [hz]))
      (by simpa using hf)
    unfold compareGo
    simp only [List.isEmpty_cons, Bool.false_eq_true, or_self, ↓reduceIte]
    simp only [getUtf8Char, hx, hy, ↓reduceIte, foldKey, List.map_cons, lexGo]
    by_cases h1 : x.toNat = y.toNat
    · simp only [h1, ↓reduceIte, ne_eq, not_true_eq_false]
      exact ih
    · rw [if_neg h1]
      by_cases h2 : toLower x.toNat = toLower y.toNat
      · simp only [h2, ne_eq, not_true_eq_false, ↓reduceIte]
        exact ih
      · simp only [ne_eq, h2, not_false_eq_true, ↓reduceIte]

/-- for ASCII names `compare` is the lexicographic comparison of the case-folded bytes -/
theorem compare_ascii (a b : Bytes) (ha : ∀ x ∈ a, x.toNat < 0x80) (hb : ∀ x ∈ b, x.toNat < 0x80) :
    compare a b = lexCmp (foldKey a) (foldKey b) := by
  unfold compare lexCmp
  rw [compareGo_ascii a b _ ha hb (Nat.lt_succ_self _)]
  cases lexGo (foldKey a) (foldKey b) <;> simp [foldKey]

theorem lexCmp_nil_cons (y : Nat) (b : List Nat) : lexCmp [] (y :: b) < 0 := by
  simp only [lexCmp, lexGo, List.length_nil, List.length_cons, Int.ofNat_eq_natCast]; omega

theorem lexCmp_cons_nil (x : Nat) (a : List Nat) : lexCmp (x :: a) [] > 0 := by
  simp only [lexCmp, lexGo, List.length_nil, List.length_cons, Int.ofNat_eq_natCast]; omega

theorem lexCmp_cons (x y : Nat) (a b : List Nat) :
    lexCmp (x :: a) (y :: b) = if x ≠ y then Int.ofNat x - Int.ofNat y else lexCmp a b := by
  unfold lexCmp
  rw [lexGo]
  by_cases h : x = y
  · simp only [h, ne_eq, not_true_eq_false, ↓reduceIte, List.length_cons, Int.ofNat_eq_natCast]
    split <;> first | rfl | omega
  · simp only [ne_eq, h, not_false_eq_true, ↓reduceIte]

theorem lexCmp_antisymm : ∀ (a b : List Nat), lexCmp b a = - lexCmp a b
  | [], [] => by simp [lexCmp, lexGo]
  | [], y :: b => by simp only [lexCmp, lexGo, List.length_nil, List.length_cons, Int.ofNat_eq_natCast]; omega
  | x :: a, [] => by simp only [lexCmp, lexGo, List.length_nil, List.length_cons, Int.ofNat_eq_natCast]; omega
  | x :: a, y :: b => by
    rw [lexCmp_cons, lexCmp_cons, lexCmp_antisymm a b]
    by_cases h : x = y
    · simp [h]
    · have h' : ¬ y = x := fun e => h e.symm
      simp only [ne_eq, h, h', not_false_eq_true, ↓reduceIte, Int.ofNat_eq_natCast]; omega

theorem lexCmp_eq_zero : ∀ (a b : List Nat), lexCmp a b = 0 → a = b
  | [], [], _ => rfl
  | [], y :: b, h => by have := lexCmp_nil_cons y b; omega
  | x :: a, [], h => by have := lexCmp_cons_nil x a; omega
  | x :: a, y :: b, h => by
    rw [lexCmp_cons] at h
    by_cases hxy : x = y
    · simp only [hxy, ne_eq, not_true_eq_false, ↓reduceIte] at h
      rw [hxy, lexCmp_eq_zero a b h]
    · simp only [ne_eq, hxy, not_false_eq_true, ↓reduceIte, Int.ofNat_eq_natCast] at h; omega

theorem lexCmp_trans : ∀ (a b c : List Nat), lexCmp a b < 0 → lexCmp b c < 0 → lexCmp a c < 0
  | [], _, z :: c, _, _ => lexCmp_nil_cons z c
  | _, [], [], _, h2 => by simp [lexCmp, lexGo] at h2
  | _, y :: b, [], _, h2 => by have := lexCmp_cons_nil y b; omega
  | x :: a, [], _, h1, _ => by have := lexCmp_cons_nil x a; omega
  | x :: a, y :: b, z :: c, h1, h2 => by
    rw [lexCmp_cons] at h1 h2 ⊢
    by_cases hxy : x = y
    · subst hxy
      simp only [ne_eq, not_true_eq_false, ↓reduceIte] at h1
      by_cases hxz : x = z
      · subst hxz
        simp only [ne_eq, not_true_eq_false, ↓reduceIte] at h2 ⊢
        exact lexCmp_trans a b c h1 h2
      · simp only [ne_eq, hxz, not_false_eq_true, ↓reduceIte] at h2 ⊢
        exact h2
    · simp only [ne_eq, hxy, not_false_eq_true, ↓reduceIte, Int.ofNat_eq_natCast] at h1
      by_cases hyz : y = z
      · subst hyz
        simp only [ne_eq, hxy, not_false_eq_true, ↓reduceIte, Int.ofNat_eq_natCast]
        exact h1
      · simp only [ne_eq, hyz, not_false_eq_true, ↓reduceIte, Int.ofNat_eq_natCast] at h2
        have hxz : ¬ x = z := by omega
        simp only [ne_eq, hxz, not_false_eq_true, ↓reduceIte, Int.ofNat_eq_natCast]
        omega

end MsPack.Chm
