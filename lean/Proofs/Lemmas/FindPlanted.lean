import Proofs.Lemmas.Find
import Proofs.Lemmas.Headers
/-
Completeness of the signature scanner: junk that does not contain the four signature bytes, then a header —
the scanner reports exactly that header's offset and length fields, whatever state the junk left it in.
-/
namespace MsPack.Cab
open MsPack

/-- "MSCF" -/
def sig : Bytes := [0x4D, 0x53, 0x43, 0x46]

theorem infix_of_suffix {l a b : Bytes} (h : l <:+: b) (pre : Bytes) (hab : a = pre ++ b) : l <:+: a := by
  obtain ⟨s, t, hst⟩ := h
  exact ⟨pre ++ s, t, by rw [hab, ← hst]; simp [List.append_assoc]⟩

theorem u8_of_toNat {b : UInt8} {n : Nat} (hn : n < 256) (h : b.toNat = n) : b = UInt8.ofNat n := by
  apply UInt8.toNat_inj.mp
  rw [h]; simp [UInt8.toNat_ofNat, Nat.mod_eq_of_lt hn]

/-- scanning bytes that contain no signature (not even one completed by what was matched before) never produces
    a candidate and leaves the scanner in one of the four signature-matching states -/
theorem scan_junk : ∀ (junk : Bytes) (pos : Nat) (st : ScanSt), st.state ≤ 3 → ¬ sig <:+: (sig.take st.state ++ junk) →
    ∃ st', scanBuf junk pos st = .inl st' ∧ st'.state ≤ 3 := by
  intro junk
  induction junk with
  | nil => intro pos st h _; exact ⟨st, rfl, h⟩
  | cons b rest ih =>
    intro pos st hst hno
    obtain ⟨s, cl, fo⟩ := st
    simp only at hst hno
    have hs : s = 0 ∨ s = 1 ∨ s = 2 ∨ s = 3 := by omega
    simp only [scanBuf]
    rcases hs with rfl | rfl | rfl | rfl
    · -- state 0
      simp only [scanByte]
      by_cases h : b.toNat = 0x4D
      · simp only [h, ↓reduceIte]
        apply ih
        · simp
        · have hb := u8_of_toNat (by omega) h
          intro hin; apply hno; subst hb; simpa [sig] using hin
      · simp only [h, ↓reduceIte]
        apply ih
        · simp
        · intro hin; apply hno
          exact infix_of_suffix (by simpa using hin) [b] (by simp)
    · -- state 1
      simp only [scanByte]
      by_cases h : b.toNat = 0x53
      · simp only [h, ↓reduceIte]
        apply ih
        · simp
        · have hb := u8_of_toNat (by omega) h
          intro hin; apply hno; subst hb; simpa [sig] using hin
      · by_cases h2 : b.toNat = 0x4D
        · simp only [h2, ↓reduceIte, Nat.reduceEqDiff]
          apply ih
          · simp
          · have hb := u8_of_toNat (by omega) h2
            intro hin; apply hno; subst hb
            exact infix_of_suffix (by simpa [sig] using hin) [0x4D] (by simp [sig])
        · simp only [h, h2, ↓reduceIte]
          apply ih
          · simp
          · intro hin; apply hno
            exact infix_of_suffix (by simpa using hin) [0x4D, b] (by simp [sig])
    · -- state 2
      simp only [scanByte]
      by_cases h : b.toNat = 0x43
      · simp only [h, ↓reduceIte]
        apply ih
        · simp
        · have hb := u8_of_toNat (by omega) h
          intro hin; apply hno; subst hb; simpa [sig] using hin
      · by_cases h2 : b.toNat = 0x4D
        · simp only [h2, ↓reduceIte, Nat.reduceEqDiff]
          apply ih
          · simp
          · have hb := u8_of_toNat (by omega) h2
            intro hin; apply hno; subst hb
            exact infix_of_suffix (by simpa [sig] using hin) [0x4D, 0x53] (by simp [sig])
        · simp only [h, h2, ↓reduceIte]
          apply ih
          · simp
          · intro hin; apply hno
            exact infix_of_suffix (by simpa using hin) [0x4D, 0x53, b] (by simp [sig])
    · -- state 3
      simp only [scanByte]
      by_cases h : b.toNat = 0x46
      · exfalso; apply hno
        have hb := u8_of_toNat (by omega) h
        subst hb
        exact ⟨[], rest, by simp [sig]⟩
      · by_cases h2 : b.toNat = 0x4D
        · simp only [h2, ↓reduceIte, Nat.reduceEqDiff]
          apply ih
          · simp
          · have hb := u8_of_toNat (by omega) h2
            intro hin; apply hno; subst hb
            exact infix_of_suffix (by simpa [sig] using hin) [0x4D, 0x53, 0x43] (by simp [sig])
        · simp only [h, h2, ↓reduceIte]
          apply ih
          · simp
          · intro hin; apply hno
            exact infix_of_suffix (by simpa using hin) [0x4D, 0x53, 0x43, b] (by simp [sig])

/-- from any of the four signature-matching states, a 20-byte header start is reported as a candidate at its
    own offset with its two length fields -/
theorem scan_header (hdr : Bytes) (hlen : 20 ≤ hdr.length) (hsig : u32At hdr 0 = 0x4643534D) (pos : Nat) (st : ScanSt)
    (hst : st.state ≤ 3) :
    scanBuf hdr pos st = .inr ⟨pos, u32At hdr 8, u32At hdr 16⟩ := by
  rcases hdr with _ | ⟨b0, _ | ⟨b1, _ | ⟨b2, _ | ⟨b3, _ | ⟨b4, _ | ⟨b5, _ | ⟨b6, _ | ⟨b7, _ | ⟨b8, _ | ⟨b9, _ | ⟨b10, _ | ⟨b11, _ | ⟨b12, _ | ⟨b13, _ | ⟨b14, _ | ⟨b15, _ | ⟨b16, _ | ⟨b17, _ | ⟨b18, _ | ⟨b19, tail⟩⟩⟩⟩⟩⟩⟩⟩⟩⟩⟩⟩⟩⟩⟩⟩⟩⟩⟩⟩
  all_goals try (simp only [List.length_cons, List.length_nil] at hlen; omega)
  simp only [u32At, byteAt, le32, List.getD_cons_zero, List.getD_cons_succ] at hsig ⊢
  have h0 := b0.toNat_lt; have h1 := b1.toNat_lt; have h2 := b2.toNat_lt; have h3 := b3.toNat_lt
  have e0 : b0.toNat = 0x4D := by omega
  have e1 : b1.toNat = 0x53 := by omega
  have e2 : b2.toNat = 0x43 := by omega
  have e3 : b3.toNat = 0x46 := by omega
  obtain ⟨s, cl, fo⟩ := st
  simp only at hst
  have hs : s = 0 ∨ s = 1 ∨ s = 2 ∨ s = 3 := by omega
  rcases hs with rfl | rfl | rfl | rfl <;>
    simp [scanBuf, scanByte, e0, e1, e2, e3] <;> omega

/-- what `atHit` returns extends the accumulator at its head -/
theorem atHit_acc (sv : Bool) (file : Bytes) (hit : Hit) (acc : List Cabinet) :
    ∃ pre, (atHit sv file hit acc).2 = pre ++ acc := by
  unfold atHit
  split
  · split
    · exact ⟨[_], rfl⟩
    · exact ⟨[], rfl⟩
  · exact ⟨[], rfl⟩

/-- the result list starts with what had been found before -/
theorem findLoop_acc (n : Nat) (sv : Bool) (file : Bytes) (start : Nat) (acc : List Cabinet) :
    ∃ tail, (findLoop n sv file start acc).1 = acc.reverse ++ tail := by
  fun_induction findLoop n sv file start acc with
  | case1 start acc hs => exact ⟨[], by simp⟩
  | case2 start acc hit hs off' acc' hat hge =>
    obtain ⟨pre, h⟩ := atHit_acc sv file hit acc
    rw [hat] at h; simp only at h
    exact ⟨pre.reverse, by simp [h]⟩
  | case3 start acc hit hs off' acc' hat hge hlt ih =>
    obtain ⟨pre, h⟩ := atHit_acc sv file hit acc
    rw [hat] at h; simp only at h
    obtain ⟨tail, ht⟩ := ih
    exact ⟨pre.reverse ++ tail, by rw [ht, h]; simp⟩
  | case4 start acc hit hs off' acc' hat hge hlt =>
    obtain ⟨pre, h⟩ := atHit_acc sv file hit acc
    rw [hat] at h; simp only at h
    exact ⟨pre.reverse, by simp [h]⟩

/-- one round of the restart loop with a known candidate: the result starts with what `atHit` made of it -/
theorem findLoop_hit (n : Nat) (sv : Bool) (file : Bytes) (start : Nat) (acc : List Cabinet) (hit : Hit)
    (h : scanChunks n file start {} = some hit) :
    ∃ tail, (findLoop n sv file start acc).1 = (atHit sv file hit acc).2.reverse ++ tail := by
  fun_induction findLoop n sv file start acc with
  | case1 start acc hs => rw [hs] at h; contradiction
  | case2 start acc hit' hs off' acc' hat hge =>
    rw [hs] at h; simp only [Option.some.injEq] at h; subst h
    rw [hat]; exact ⟨[], by simp⟩
  | case3 start acc hit' hs off' acc' hat hge hlt ih =>
    rw [hs] at h; simp only [Option.some.injEq] at h; subst h
    rw [hat]; exact findLoop_acc n sv file off' acc'
  | case4 start acc hit' hs off' acc' hat hge hlt =>
    rw [hs] at h; simp only [Option.some.injEq] at h; subst h
    rw [hat]; exact ⟨[], by simp⟩

end MsPack.Cab
