import MsPack.Lzss.Decoder
import MsPack.Spec.Lzss
/-
LZSS (lzssd.c) round trip, lemmas: the token-level specification (`Tok`, `Ring`, `expand`), the
byte coding (`encode`), and what each piece of the decoder model does on a fault-free file source
when the unread input (`rem`: buffered bytes ++ rest of the file) starts with a token's coding —
for every input-buffer size ≥ 1, i.e. wherever the buffer refills fall.
-/
namespace MsPack.Lzss
open MsPack MsPack.Generated

theorem Ring.emit_ok {r : Ring} (h : r.ok) (b : UInt8) : (r.emit b).ok := by
  refine ⟨?_, Nat.mod_lt _ (by decide)⟩
  simp [Ring.emit, h.1]

theorem Ring.copy_ok : ∀ (n mpos : Nat) {r : Ring}, r.ok → (Ring.copy n mpos r).ok
  | 0, _, _, h => h
  | n + 1, _, _, h => Ring.copy_ok n _ (Ring.emit_ok h _)

theorem Ring.apply_ok {r : Ring} (h : r.ok) (t : Tok) : (r.apply t).ok := by
  cases t with
  | lit b => exact Ring.emit_ok h b
  | mat m l => exact Ring.copy_ok l m h

theorem expand_ok : ∀ (toks : List Tok) {r : Ring}, r.ok → (expand toks r).ok
  | [], _, h => h
  | t :: ts, _, h => expand_ok ts (Ring.apply_ok h t)

theorem ctrl_lt : ∀ (g : List Tok), ctrl g < 2 ^ g.length
  | [] => by simp [ctrl]
  | t :: ts => by
    have := ctrl_lt ts
    simp only [ctrl, List.length_cons, Nat.pow_succ]
    split <;> omega

theorem ctrl_testBit : ∀ (g : List Tok) (i : Nat) (h : i < g.length), (ctrl g).testBit i = g[i].isLit
  | t :: ts, 0, _ => by
    simp only [ctrl, Nat.testBit_zero, List.getElem_cons_zero]
    cases t.isLit <;> simp <;> omega
  | t :: ts, i + 1, h => by
    have ih := ctrl_testBit ts i (by simpa using h)
    simp only [ctrl, List.getElem_cons_succ, Nat.testBit_succ]
    rw [← ih]
    congr 1
    split <;> omega

theorem nibbles : ∀ h, h < 16 → ∀ d, d < 16 →
    ((h * 16 + d) &&& 0xF0) <<< 4 = h <<< 8 ∧ ((h * 16 + d) &&& 0x0F) = d := by
  decide

/-- the two bytes of a match decode to its position and length -/
theorem match_bytes_decode (m : Nat) (hm : m < 4096) (d : Nat) (hd : d < 16) :
    (m % 256) ||| (((m / 256 * 16 + d) &&& 0xF0) <<< 4) = m ∧ ((m / 256 * 16 + d) &&& 0x0F) = d := by
  obtain ⟨h1, h2⟩ := nibbles (m / 256) (by omega) d hd
  refine ⟨?_, h2⟩
  rw [h1, Nat.or_comm, ← Nat.shiftLeft_add_eq_or_of_lt (Nat.mod_lt m (by decide : 0 < 2 ^ 8)), Nat.shiftLeft_eq]
  omega

/-! ## the decoder on a file source -/

/-- the input not yet consumed: what is buffered, then the rest of the file -/
def rem (st : St Rd) : Bytes := st.inbuf ++ st.src.file.drop st.src.pos
def ring (st : St Rd) : Ring := ⟨st.window, st.pos, st.out⟩

/-- same ring, buffer size and file; only the input position moved -/
structure Same (st st' : St Rd) : Prop where
  ring  : ring st' = ring st
  size  : st'.inbufSize = st.inbufSize
  file  : st'.src.file = st.src.file

theorem nextByte_cons (st : St Rd) (hb : 1 ≤ st.inbufSize) (b : UInt8) (rest : Bytes) (h : rem st = b :: rest) :
    ∃ st', nextByte Rd.src st = .ok b st' ∧ rem st' = rest ∧ Same st st' := by
  unfold nextByte
  cases hi : st.inbuf with
  | cons x xs =>
    simp only [rem, hi, List.cons_append, List.cons.injEq] at h
    obtain ⟨rfl, h⟩ := h
    exact ⟨_, rfl, h, rfl, rfl, rfl⟩
  | nil =>
    simp only [rem, hi, List.nil_append] at h
    simp only [Rd.src, Rd.read, h]
    obtain ⟨n, hn⟩ : ∃ n, st.inbufSize = n + 1 := ⟨st.inbufSize - 1, by omega⟩
    simp only [hn, List.take_succ_cons]
    refine ⟨_, rfl, ?_, rfl, hn.symm, rfl⟩
    simp only [rem, List.length_cons, List.length_take]
    have : st.src.file.drop (st.src.pos + (min n rest.length + 1)) = rest.drop (min n rest.length) := by
      rw [← List.drop_drop, h, List.drop_succ_cons]
    rw [this]
    by_cases hl : n ≤ rest.length
    · rw [Nat.min_eq_left hl, List.take_append_drop]
    · have : rest.length ≤ n := by omega
      rw [Nat.min_eq_right this, List.take_of_length_le this, List.drop_length, List.append_nil]

theorem nextByte_nil (st : St Rd) (h : rem st = []) :
    ∃ st', nextByte Rd.src st = .ret .ok st' ∧ ring st' = ring st := by
  unfold nextByte
  simp only [rem, List.append_eq_nil_iff] at h
  rw [h.1]
  simp only [Rd.src, Rd.read, h.2, List.take_nil]
  exact ⟨_, rfl, rfl⟩

theorem emitByte_spec (st : St Rd) (hok : (ring st).ok) (b : UInt8) :
    ∃ st', emitByte st b = .ok () st' ∧ ring st' = (ring st).emit b ∧ rem st' = rem st ∧ st'.inbufSize = st.inbufSize := by
  unfold emitByte
  have : st.pos < st.window.size := by have := hok.1; have := hok.2; simp only [ring] at *; omega
  rw [if_pos this]
  exact ⟨_, rfl, rfl, rfl, rfl⟩

theorem copyMatch_spec : ∀ (len mpos : Nat) (st : St Rd), (ring st).ok → mpos < 4096 →
    ∃ st', copyMatch len mpos st = .ok () st' ∧ ring st' = Ring.copy len mpos (ring st) ∧ rem st' = rem st ∧
      st'.inbufSize = st.inbufSize
  | 0, _, st, _, _ => ⟨st, rfl, rfl, rfl, rfl⟩
  | len + 1, mpos, st, hok, hm => by
    unfold copyMatch
    have hw : mpos < st.window.size := by have := hok.1; simp only [ring] at this; omega
    rw [dif_pos hw]
    obtain ⟨st1, h1, r1, m1, s1⟩ := emitByte_spec st hok st.window[mpos]
    rw [h1]
    have hok1 : (ring st1).ok := r1 ▸ Ring.emit_ok hok _
    obtain ⟨st2, h2, r2, m2, s2⟩ := copyMatch_spec len ((mpos + 1) % lzssWINDOW_SIZE) st1 hok1 (Nat.mod_lt _ (by decide))
    refine ⟨st2, h2, ?_, m2.trans m1, s2.trans s1⟩
    rw [r2, r1]
    simp only [Ring.copy, lzssWINDOW_SIZE]
    congr 2
    simp [ring, Array.getD, hw]

theorem u8_toNat (x : Nat) (h : x < 256) : (UInt8.ofNat x).toNat = x := by
  simp [UInt8.toNat_ofNat']; omega

theorem and_pow_ne_zero (c j : Nat) : (c &&& 2 ^ j ≠ 0) ↔ c.testBit j = true := by
  constructor
  · intro h
    cases hb : c.testBit j with
    | true => rfl
    | false =>
      exfalso; apply h
      apply Nat.eq_of_testBit_eq
      intro i
      rw [Nat.testBit_and, Nat.testBit_two_pow, Nat.zero_testBit]
      by_cases hij : j = i
      · subst hij; simp [hb]
      · simp [hij]
  · intro hb h
    have : (c &&& 2 ^ j).testBit j = true := by
      rw [Nat.testBit_and, Nat.testBit_two_pow, hb]; simp
    rw [h, Nat.zero_testBit] at this
    cases this

theorem shl_one_pow (j : Nat) : (2 ^ j) <<< 1 = 2 ^ (j + 1) := by
  rw [Nat.shiftLeft_eq, Nat.pow_one]; exact (Nat.pow_succ ..).symm

/-- one `for (i = 1; i & 0xFF; i <<= 1)` loop from bit `j` on: `g` = the tokens still coded in this group, `k` = the
    iterations left.  A full group falls through with the ring advanced over `g`; a short (last) group ends in
    `return MSPACK_ERR_OK` at the end of the input, with the ring advanced over `g` as well. -/
theorem tokenLoop_spec (c : Nat) : ∀ (g : List Tok) (k j : Nat) (st : St Rd) (tail : Bytes),
    g.length ≤ k → (∀ t (h : t < g.length), c.testBit (j + t) = g[t].isLit) → (∀ t ∈ g, t.wf) →
    (ring st).ok → 1 ≤ st.inbufSize → rem st = g.flatMap Tok.bytes ++ tail → (g.length < k → tail = []) →
    (g.length = k → ∃ st', tokenLoop Rd.src c k (2 ^ j) st = .ok () st' ∧ ring st' = expand g (ring st) ∧ rem st' = tail ∧
        st'.inbufSize = st.inbufSize) ∧
    (g.length < k → ∃ st', tokenLoop Rd.src c k (2 ^ j) st = .ret .ok st' ∧ ring st' = expand g (ring st)) := by
  intro g
  induction g with
  | nil =>
    intro k j st tail _ _ _ hok hb hrem htail
    refine ⟨?_, ?_⟩
    · intro hk
      simp only [List.length_nil] at hk
      subst hk
      exact ⟨st, rfl, rfl, by simpa using hrem, rfl⟩
    · intro hk
      obtain ⟨k, rfl⟩ : ∃ m, k = m + 1 := ⟨k - 1, by simp at hk; omega⟩
      have hr : rem st = [] := by rw [hrem, htail hk]; rfl
      obtain ⟨st', h1, r1⟩ := nextByte_nil st hr
      refine ⟨st', ?_, r1⟩
      unfold tokenLoop
      split <;> rw [h1]
  | cons t g ih =>
    intro k j st tail hlen hbits hwf hok hb hrem htail
    obtain ⟨k, rfl⟩ : ∃ m, k = m + 1 := ⟨k - 1, by simp at hlen; omega⟩
    have hbit0 : c.testBit j = t.isLit := by
      have := hbits 0 (by simp)
      simpa only [Nat.add_zero, List.getElem_cons_zero] using this
    have hbits' : ∀ u (h : u < g.length), c.testBit (j + 1 + u) = g[u].isLit := by
      intro u hu
      have := hbits (u + 1) (by simpa using hu)
      simpa [Nat.add_assoc, Nat.add_comm 1 u] using this
    have hwf' : ∀ u ∈ g, u.wf := fun u hu => hwf u (List.mem_cons_of_mem _ hu)
    have hlen' : g.length ≤ k := by simpa using hlen
    have htail' : g.length < k → tail = [] := fun h => htail (by simpa using h)
    -- what the recursive call gives, once the head token has been decoded into state `st1`
    have step : ∀ st1 : St Rd, (ring st1).ok → st1.inbufSize = st.inbufSize → rem st1 = g.flatMap Tok.bytes ++ tail →
        ring st1 = (ring st).apply t →
        (g.length = k → ∃ st', tokenLoop Rd.src c k (2 ^ (j + 1)) st1 = .ok () st' ∧ ring st' = expand (t :: g) (ring st) ∧
            rem st' = tail ∧ st'.inbufSize = st.inbufSize) ∧
        (g.length < k → ∃ st', tokenLoop Rd.src c k (2 ^ (j + 1)) st1 = .ret .ok st' ∧ ring st' = expand (t :: g) (ring st)) := by
      intro st1 hok1 hs1 hrem1 hr1
      obtain ⟨a, b⟩ := ih k (j + 1) st1 tail hlen' hbits' hwf' hok1 (hs1 ▸ hb) hrem1 htail'
      refine ⟨fun h => ?_, fun h => ?_⟩
      · obtain ⟨st', e, r, m, s⟩ := a h
        exact ⟨st', e, by rw [r, hr1]; rfl, m, s.trans hs1⟩
      · obtain ⟨st', e, r⟩ := b h
        exact ⟨st', e, by rw [r, hr1]; rfl⟩
    cases t with
    | lit b =>
      have hc : c &&& 2 ^ j ≠ 0 := (and_pow_ne_zero c j).mpr (by rw [hbit0]; rfl)
      have hrem0 : rem st = b :: (g.flatMap Tok.bytes ++ tail) := by rw [hrem]; rfl
      obtain ⟨st0, e0, m0, s0⟩ := nextByte_cons st hb b _ hrem0
      have hok0 : (ring st0).ok := s0.ring ▸ hok
      obtain ⟨st1, e1, r1, m1, s1⟩ := emitByte_spec st0 hok0 b
      have hok1 : (ring st1).ok := r1 ▸ Ring.emit_ok hok0 b
      obtain ⟨a, b'⟩ := step st1 hok1 (s1.trans s0.size) (m1.trans m0) (by rw [r1, s0.ring]; rfl)
      simp only [List.length_cons, Nat.add_right_cancel_iff, Nat.add_lt_add_iff_right]
      refine ⟨fun h => ?_, fun h => ?_⟩
      · obtain ⟨st', e, rest⟩ := a h
        refine ⟨st', ?_, rest⟩
        rw [tokenLoop.eq_2, if_pos hc, e0]; simp only; rw [e1]; simp only; rw [shl_one_pow, e]
      · obtain ⟨st', e, rest⟩ := b' h
        refine ⟨st', ?_, rest⟩
        rw [tokenLoop.eq_2, if_pos hc, e0]; simp only; rw [e1]; simp only; rw [shl_one_pow, e]
    | mat m l =>
      have hc : ¬(c &&& 2 ^ j ≠ 0) := by rw [and_pow_ne_zero, hbit0]; simp [Tok.isLit]
      obtain ⟨hm, hl3, hl18⟩ : m < 4096 ∧ 3 ≤ l ∧ l ≤ 18 := hwf _ (List.mem_cons_self ..)
      have hrem0 : rem st = UInt8.ofNat (m % 256) :: (UInt8.ofNat (m / 256 * 16 + (l - 3)) :: (g.flatMap Tok.bytes ++ tail)) := by
        rw [hrem]; rfl
      obtain ⟨st0, e0, m0, s0⟩ := nextByte_cons st hb _ _ hrem0
      obtain ⟨st0', e0', m0', s0'⟩ := nextByte_cons st0 (s0.size ▸ hb) _ _ m0
      have hok0 : (ring st0').ok := by rw [s0'.ring, s0.ring]; exact hok
      obtain ⟨d1, d2⟩ := match_bytes_decode m hm (l - 3) (by omega)
      have hb0 : (UInt8.ofNat (m % 256)).toNat = m % 256 := u8_toNat _ (Nat.mod_lt _ (by decide))
      have hb1 : (UInt8.ofNat (m / 256 * 16 + (l - 3))).toNat = m / 256 * 16 + (l - 3) := u8_toNat _ (by omega)
      have hmpos : (UInt8.ofNat (m % 256)).toNat ||| (((UInt8.ofNat (m / 256 * 16 + (l - 3))).toNat &&& 0xF0) <<< 4) = m := by
        rw [hb0, hb1]; exact d1
      have hlen2 : ((UInt8.ofNat (m / 256 * 16 + (l - 3))).toNat &&& 0x0F) + 3 = l := by
        rw [hb1, d2]; omega
      obtain ⟨st1, e1, r1, m1, s1⟩ := copyMatch_spec l m st0' hok0 hm
      have hok1 : (ring st1).ok := r1 ▸ Ring.copy_ok l m hok0
      obtain ⟨a, b'⟩ := step st1 hok1 (s1.trans (s0'.size.trans s0.size)) (m1.trans m0')
        (by rw [r1, s0'.ring, s0.ring]; rfl)
      simp only [List.length_cons, Nat.add_right_cancel_iff, Nat.add_lt_add_iff_right]
      refine ⟨fun h => ?_, fun h => ?_⟩
      · obtain ⟨st', e, rest⟩ := a h
        refine ⟨st', ?_, rest⟩
        rw [tokenLoop.eq_2, if_neg hc, e0]; simp only; rw [e0']; simp only
        rw [hmpos, hlen2, e1]; simp only; rw [shl_one_pow, e]
      · obtain ⟨st', e, rest⟩ := b' h
        refine ⟨st', ?_, rest⟩
        rw [tokenLoop.eq_2, if_neg hc, e0]; simp only; rw [e0']; simp only
        rw [hmpos, hlen2, e1]; simp only; rw [shl_one_pow, e]

theorem encode_nil : encode [] = [] := by rw [encode]; simp

theorem encode_cons (toks : List Tok) (h : toks ≠ []) :
    encode toks = UInt8.ofNat (ctrl (toks.take 8)) :: ((toks.take 8).flatMap Tok.bytes ++ encode (toks.drop 8)) := by
  rw [encode, dif_neg h]; rfl

theorem expand_append (a b : List Tok) (r : Ring) : expand (a ++ b) r = expand b (expand a r) := by
  simp [expand, List.foldl_append]

/-- the whole `for (;;)` loop (no inversion of the control bytes): the ring advances over all tokens
    and the function returns `MSPACK_ERR_OK` at the end of the input -/
theorem mainLoop_spec : ∀ (n : Nat) (toks : List Tok), toks.length ≤ n → ∀ (fuel : Nat) (st : St Rd),
    toks.length + 1 ≤ fuel → (∀ t ∈ toks, t.wf) → (ring st).ok → 1 ≤ st.inbufSize → rem st = encode toks →
    ∃ st', mainLoop Rd.src 0 fuel st = .ret .ok st' ∧ ring st' = expand toks (ring st) := by
  intro n
  induction n with
  | zero =>
    intro toks hl fuel st hf _ _ _ hrem
    have : toks = [] := List.length_eq_zero_iff.mp (by omega)
    subst this
    obtain ⟨fuel, rfl⟩ : ∃ m, fuel = m + 1 := ⟨fuel - 1, by omega⟩
    obtain ⟨st', e, r⟩ := nextByte_nil st (by rw [hrem, encode_nil])
    exact ⟨st', by rw [mainLoop.eq_2, e], r⟩
  | succ n ih =>
    intro toks hl fuel st hf hwf hok hb hrem
    obtain ⟨fuel, rfl⟩ : ∃ m, fuel = m + 1 := ⟨fuel - 1, by omega⟩
    by_cases hnil : toks = []
    · subst hnil
      obtain ⟨st', e, r⟩ := nextByte_nil st (by rw [hrem, encode_nil])
      exact ⟨st', by rw [mainLoop.eq_2, e], r⟩
    · have hpos : 0 < toks.length := List.length_pos_iff.mpr hnil
      rw [encode_cons toks hnil] at hrem
      obtain ⟨st0, e0, m0, s0⟩ := nextByte_cons st hb _ _ hrem
      have hgl : (toks.take 8).length ≤ 8 := by simp [List.length_take]; omega
      have hc : (UInt8.ofNat (ctrl (toks.take 8))).toNat ^^^ 0 = ctrl (toks.take 8) := by
        rw [Nat.xor_zero, u8_toNat]
        have := ctrl_lt (toks.take 8)
        have : 2 ^ (toks.take 8).length ≤ 2 ^ 8 := Nat.pow_le_pow_right (by decide) hgl
        omega
      have hwfg : ∀ t ∈ toks.take 8, t.wf := fun t ht => hwf t (List.mem_of_mem_take ht)
      have hwfr : ∀ t ∈ toks.drop 8, t.wf := fun t ht => hwf t (List.mem_of_mem_drop ht)
      have htail : (toks.take 8).length < 8 → encode (toks.drop 8) = [] := by
        intro h
        have : toks.drop 8 = [] := by
          apply List.drop_eq_nil_of_le
          simp only [List.length_take] at h; omega
        rw [this, encode_nil]
      obtain ⟨a, b⟩ := tokenLoop_spec (ctrl (toks.take 8)) (toks.take 8) 8 0 st0 (encode (toks.drop 8)) hgl
        (fun t h => by simpa using ctrl_testBit (toks.take 8) t h) hwfg (s0.ring ▸ hok) (s0.size ▸ hb) m0 htail
      have hsplit : toks = toks.take 8 ++ toks.drop 8 := (List.take_append_drop 8 toks).symm
      by_cases hfull : (toks.take 8).length = 8
      · obtain ⟨st1, e1, r1, m1, s1⟩ := a hfull
        have hdl : (toks.drop 8).length ≤ n := by simp only [List.length_drop]; omega
        have hok1 : (ring st1).ok := by rw [r1, s0.ring]; exact expand_ok _ hok
        obtain ⟨st', e2, r2⟩ := ih (toks.drop 8) hdl fuel st1 (by simp only [List.length_drop]; omega) hwfr hok1
          (by rw [s1, s0.size]; exact hb) m1
        refine ⟨st', ?_, ?_⟩
        · rw [mainLoop.eq_2, e0]; simp only; rw [hc, Nat.pow_zero] at *; rw [e1]; simp only; exact e2
        · rw [r2, r1, s0.ring, ← expand_append, ← hsplit]
      · obtain ⟨st', e1, r1⟩ := b (by omega)
        have hd : toks.drop 8 = [] := by
          apply List.drop_eq_nil_of_le
          simp only [List.length_take] at hfull; omega
        refine ⟨st', ?_, ?_⟩
        · rw [mainLoop.eq_2, e0]; simp only; rw [hc, Nat.pow_zero] at *; rw [e1]
        · rw [r1, s0.ring]
          conv => rhs; rw [hsplit, hd, List.append_nil]

end MsPack.Lzss
