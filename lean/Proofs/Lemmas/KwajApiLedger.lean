import Proofs.Lemmas.SzddApiLedger
import MsPack.Kwaj.Api
/-
Ledger effect of the KWAJ API functions (model `MsPack/Kwaj/Api.lean`): every path of
`read_headers`, `open`, `close`, `extract` (all five methods), `decompress`, under any fault plan,
for any file contents, and for any pair of bit-level decoder bodies that satisfy the frame law.
-/
namespace MsPack.Kwaj.Api
open MsPack MsPack.Sys MsPack.Kwaj
open MsPack.Szdd.Api (Frame lzss lzss_spec ok_add_alloc ok_add_handle filter_fresh)

/-! ## functions that only read and seek: the view stays what it was -/

/-- running `x` in a world whose ledger view is `v` leaves the view `v` -/
def Keeps (v : View) {α} (x : M α) : Prop := ∀ w : World, w.view = v → (x w).2.view = v

theorem Keeps.pure {v : View} {α} (a : α) : Keeps v (Pure.pure a : M α) := fun _ hw => hw

theorem Keeps.bind {v : View} {α β} {x : M α} {f : α → M β} (hx : Keeps v x) (hf : ∀ a, Keeps v (f a)) :
    Keeps v (x >>= f) := fun w hw => by
  rw [bind_apply]; exact hf _ _ (hx w hw)

theorem Keeps.read {v : View} (hv : v.ok) (fh n : Nat) (h : (fh, Mode.read) ∈ v.handles) : Keeps v (read fh n) :=
  fun w hw => by subst hw; exact read_live_view w hv fh n h

theorem Keeps.write {v : View} (hv : v.ok) (fh : Nat) (bs : Bytes) (h : (fh, Mode.write) ∈ v.handles) :
    Keeps v (write fh bs) :=
  fun w hw => by subst hw; exact write_live_view w hv fh bs h

theorem Keeps.seekCur {v : View} (hv : v.ok) (fh : Nat) (off : Int) (h : (fh, Mode.read) ∈ v.handles) :
    Keeps v (seekCur fh off) :=
  fun w hw => by subst hw; exact seekCur_live_view w hv fh off .read h

theorem Keeps.seekStart {v : View} (hv : v.ok) (fh off : Nat) (h : (fh, Mode.read) ∈ v.handles) :
    Keeps v (seekStart fh off) :=
  fun w hw => by subst hw; exact seek_live_view w hv fh off .read h

theorem readOptLength_keeps {v : View} (hv : v.ok) (fh headers : Nat) (h : (fh, Mode.read) ∈ v.handles) :
    Keeps v (readOptLength fh headers) := by
  unfold readOptLength
  split
  · refine Keeps.bind (Keeps.read hv fh 4 h) fun r => ?_
    cases r with
    | none => exact Keeps.pure _
    | some b => dsimp only; split <;> exact Keeps.pure _
  · exact Keeps.pure _

theorem skipUnknown1_keeps {v : View} (hv : v.ok) (fh headers : Nat) (h : (fh, Mode.read) ∈ v.handles) :
    Keeps v (skipUnknown1 fh headers) := by
  unfold skipUnknown1
  split
  · refine Keeps.bind (Keeps.read hv fh 2 h) fun r => ?_
    cases r with
    | none => exact Keeps.pure _
    | some b => dsimp only; split <;> exact Keeps.pure _
  · exact Keeps.pure _

theorem skipUnknown2_keeps {v : View} (hv : v.ok) (fh headers : Nat) (h : (fh, Mode.read) ∈ v.handles) :
    Keeps v (skipUnknown2 fh headers) := by
  unfold skipUnknown2
  split
  · refine Keeps.bind (Keeps.read hv fh 2 h) fun r => ?_
    cases r with
    | none => exact Keeps.pure _
    | some b =>
      dsimp only
      split
      · exact Keeps.pure _
      · refine Keeps.bind (Keeps.seekCur hv fh _ h) fun c => ?_
        split <;> exact Keeps.pure _
  · exact Keeps.pure _

theorem readNamePart_keeps {v : View} (hv : v.ok) (fh maxLen : Nat) (st : Array UInt8 × Nat)
    (h : (fh, Mode.read) ∈ v.handles) : Keeps v (readNamePart fh maxLen st) := by
  unfold readNamePart
  refine Keeps.bind (Keeps.read hv fh maxLen h) fun r => ?_
  cases r with
  | none => exact Keeps.pure _
  | some buf =>
    dsimp only
    generalize copyName buf (buf.length + 1) 0 st.1 st.2 = c
    split
    · exact Keeps.pure _
    · split
      · exact Keeps.pure _
      · refine Keeps.bind (Keeps.seekCur hv fh _ h) fun c => ?_
        split <;> exact Keeps.pure _

theorem namePartIf_keeps {v : View} (hv : v.ok) (c : Bool) (fh maxLen : Nat) (st : Array UInt8 × Nat)
    (h : (fh, Mode.read) ∈ v.handles) : Keeps v (namePartIf c fh maxLen st) := by
  unfold namePartIf
  split
  · exact readNamePart_keeps hv fh maxLen st h
  · exact Keeps.pure _

theorem nameFields_keeps {v : View} (hv : v.ok) (fh headers : Nat) (h : (fh, Mode.read) ∈ v.handles) :
    Keeps v (nameFields fh headers) := by
  unfold nameFields
  refine Keeps.bind (namePartIf_keeps hv _ fh 9 _ h) fun r1 => ?_
  split
  · exact Keeps.pure _
  · dsimp only
    refine Keeps.bind (namePartIf_keeps hv _ fh 4 _ h) fun r2 => ?_
    split <;> exact Keeps.pure _

/-! ## the two optional blocks -/

/-- `p` = the result of at most one allocation made on the way from view `v` to world `w'`,
    and nothing else changed -/
structure Took (v : View) (p : Option Nat) (w' : World) : Prop where
  view : w'.view = { v with allocs := p.toList ++ v.allocs, nextId := v.nextId + p.toList.length }
  id   : ∀ a, p = some a → a = v.nextId

theorem Took.none_of_view_eq {v : View} {w' : World} (h : w'.view = v) : Took v none w' :=
  ⟨h, fun _ h => nomatch h⟩

theorem Took.ok {v : View} {p : Option Nat} {w' : World} (t : Took v p w') (hv : v.ok) : w'.view.ok := by
  cases p with
  | none => rw [t.view]; exact hv
  | some a =>
    rw [t.view, t.id a rfl]
    exact ok_add_alloc hv

/-- `alloc`, then something that keeps the view -/
theorem took_alloc_then {v : View} (hv : v.ok) {α} (w : World) (hw : w.view = v)
    (k : Nat → M α) (hk : ∀ v', v'.ok → v'.handles = v.handles → ∀ a, Keeps v' (k a)) :
    ∀ a, (alloc w).1 = some a → Took v (some a) (k a (alloc w).2).2 := by
  intro a ha
  rcases alloc_spec w with ⟨a1, _⟩ | ⟨a1, a2⟩
  · rw [a1] at ha; cases ha
  · rw [a1] at ha
    have hwn : w.nextId = v.nextId := by rw [← hw]; rfl
    have ha' : a = v.nextId := by rw [← hwn]; exact (Option.some.inj ha).symm
    rw [hw, hwn] at a2
    have hok1 : (alloc w).2.view.ok := by rw [a2]; exact ok_add_alloc hv
    refine ⟨?_, fun b hb => by cases hb; exact ha'⟩
    rw [hk _ hok1 (by rw [a2]) a (alloc w).2 rfl, a2, ha']
    rfl

theorem readNames_took {v : View} (hv : v.ok) (fh headers : Nat) (h : (fh, Mode.read) ∈ v.handles)
    (w : World) (hw : w.view = v) : Took v (readNames fh headers w).1.2.1 (readNames fh headers w).2 := by
  unfold readNames
  split
  · rw [bind_apply]
    cases ha : (alloc w).1 with
    | none =>
      dsimp only
      rw [pure_apply]
      rcases alloc_spec w with ⟨_, a2⟩ | ⟨a1, _⟩
      · exact Took.none_of_view_eq (a2.trans hw)
      · rw [a1] at ha; cases ha
    | some a =>
      dsimp only
      rw [bind_apply, pure_apply]
      exact took_alloc_then hv w hw (fun _ => nameFields fh headers)
        (fun v' hv' hh _ => nameFields_keeps hv' fh headers (hh ▸ h)) a ha
  · rw [pure_apply]; exact Took.none_of_view_eq hw

theorem readExtra_took {v : View} (hv : v.ok) (fh headers : Nat) (h : (fh, Mode.read) ∈ v.handles)
    (w : World) (hw : w.view = v) : Took v (readExtra fh headers w).1.2.1 (readExtra fh headers w).2 := by
  unfold readExtra
  split
  · rw [bind_apply]
    have h1 := Keeps.read hv fh 2 h w hw
    generalize read fh 2 w = p1 at h1
    obtain ⟨r1, w1⟩ := p1
    dsimp only at h1 ⊢
    cases r1 with
    | none => dsimp only; rw [pure_apply]; exact Took.none_of_view_eq h1
    | some b =>
      dsimp only
      split
      · rw [pure_apply]; exact Took.none_of_view_eq h1
      · rw [bind_apply]
        cases ha : (alloc w1).1 with
        | none =>
          dsimp only
          rw [pure_apply]
          rcases alloc_spec w1 with ⟨_, a2⟩ | ⟨a1, _⟩
          · exact Took.none_of_view_eq (a2.trans h1)
          · rw [a1] at ha; cases ha
        | some a =>
          dsimp only
          rw [bind_apply]
          have ht := took_alloc_then hv w1 h1 (fun _ => read fh (u16At b 0))
            (fun v' hv' hh _ => Keeps.read hv' fh _ (hh ▸ h)) a ha
          generalize read fh (u16At b 0) (alloc w1).2 = p2 at ht
          obtain ⟨r2, w2⟩ := p2
          dsimp only at ht ⊢
          cases r2 with
          | none => dsimp only; rw [pure_apply]; exact ht
          | some t => dsimp only; split <;> (rw [pure_apply]; exact ht)
  · rw [pure_apply]; exact Took.none_of_view_eq hw

/-- from view `v`: the optional blocks `fn` (first) and `ex` (second) were allocated, nothing else
    changed -/
structure Held (v : View) (fn ex : Option Nat) (w' : World) : Prop where
  allocs  : w'.view.allocs = ex.toList ++ (fn.toList ++ v.allocs)
  handles : w'.view.handles = v.handles
  misuse  : w'.view.misuse = v.misuse
  nextId  : v.nextId ≤ w'.view.nextId
  ok      : w'.view.ok

theorem Held.of_view_eq {v : View} {w' : World} (hv : v.ok) (h : w'.view = v) : Held v none none w' :=
  ⟨by rw [h]; rfl, by rw [h], by rw [h], by rw [h]; exact Nat.le_refl _, h ▸ hv⟩

theorem Took.held {v : View} {p : Option Nat} {w' : World} (t : Took v p w') (hv : v.ok) : Held v p none w' :=
  ⟨by rw [t.view]; rfl, by rw [t.view], by rw [t.view], by rw [t.view]; exact Nat.le_add_right _ _, t.ok hv⟩

theorem Held.took {v : View} {fn ex : Option Nat} {w1 w2 : World} (hh : Held v fn none w1)
    (t : Took w1.view ex w2) : Held v fn ex w2 :=
  ⟨by rw [t.view]; dsimp only; rw [hh.allocs]; rfl, by rw [t.view]; exact hh.handles,
   by rw [t.view]; exact hh.misuse, by rw [t.view]; exact Nat.le_trans hh.nextId (Nat.le_add_right _ _),
   t.ok hh.ok⟩

/-- `kwajd_read_headers` after the fixed part -/
theorem readOptional_held {v : View} (hv : v.ok) (fh ct off headers : Nat) (h : (fh, Mode.read) ∈ v.handles)
    (w : World) (hw : w.view = v) :
    Held v (readOptional fh ct off headers w).1.2.filename (readOptional fh ct off headers w).1.2.extra
      (readOptional fh ct off headers w).2 := by
  unfold readOptional
  dsimp only
  rw [bind_apply]
  have h1 := readOptLength_keeps hv fh headers h w hw
  generalize readOptLength fh headers w = p1 at h1
  obtain ⟨r1, w1⟩ := p1
  dsimp only at h1 ⊢
  split
  · rw [pure_apply]; exact Held.of_view_eq hv h1
  · rw [bind_apply]
    have h2 := skipUnknown1_keeps hv fh headers h w1 h1
    generalize skipUnknown1 fh headers w1 = p2 at h2
    obtain ⟨e2, w2⟩ := p2
    dsimp only at h2 ⊢
    split
    · rw [pure_apply]; exact Held.of_view_eq hv h2
    · rw [bind_apply]
      have h3 := skipUnknown2_keeps hv fh headers h w2 h2
      generalize skipUnknown2 fh headers w2 = p3 at h3
      obtain ⟨e3, w3⟩ := p3
      dsimp only at h3 ⊢
      split
      · rw [pure_apply]; exact Held.of_view_eq hv h3
      · rw [bind_apply]
        have h4 := readNames_took hv fh headers h w3 h3
        generalize readNames fh headers w3 = p4 at h4
        obtain ⟨r4, w4⟩ := p4
        dsimp only at h4 ⊢
        have hh4 := h4.held hv
        split
        · rw [pure_apply]; exact hh4
        · rw [bind_apply, pure_apply]
          have hfh : (fh, Mode.read) ∈ w4.view.handles := by rw [hh4.handles]; exact h
          exact hh4.took (readExtra_took hh4.ok fh headers hfh w4 rfl)

/-- `kwajd_read_headers`: whatever it returns, the ledger has grown by exactly the blocks it left
    in `hdr->filename` and `hdr->extra` -/
theorem readHeaders_held {v : View} (hv : v.ok) (fh : Nat) (h : (fh, Mode.read) ∈ v.handles)
    (w : World) (hw : w.view = v) :
    Held v (readHeaders fh w).1.2.filename (readHeaders fh w).1.2.extra (readHeaders fh w).2 := by
  unfold readHeaders
  rw [bind_apply]
  have h1 := Keeps.read hv fh Generated.kwajhSIZEOF h w hw
  generalize read fh Generated.kwajhSIZEOF w = p1 at h1
  obtain ⟨r1, w1⟩ := p1
  dsimp only at h1 ⊢
  cases r1 with
  | none => dsimp only; rw [pure_apply]; exact Held.of_view_eq hv h1
  | some buf =>
    dsimp only
    split
    · rw [pure_apply]; exact Held.of_view_eq hv h1
    · split
      · rw [pure_apply]; exact Held.of_view_eq hv h1
      · exact readOptional_held hv fh _ _ _ h w1 h1

/-! ## open and close -/

/-- what `open` leaves behind when it returns a header: the header block, the optional name and
    extra-text blocks, and one read handle, all fresh -/
structure Opened (v : View) (hd : Hdr) (w' : World) : Prop where
  fresh   : v.nextId ≤ hd.fh
  allocs  : w'.view.allocs = hd.f.extra.toList ++ (hd.f.filename.toList ++ hd.mem :: v.allocs)
  handles : w'.view.handles = (hd.fh, Mode.read) :: v.handles
  misuse  : w'.view.misuse = v.misuse
  ok      : w'.view.ok

theorem erase_second (x f : Nat) (rest : List Nat) : (x :: f :: rest).erase f = x :: rest := by
  by_cases h : x = f
  · subst h; simp
  · have : (x == f) = false := by simpa using h
    simp [this]

/-- `sys->free(p)` of NULL or of a live block -/
theorem free_opt_view (w : World) (p : Option Nat) (h : ∀ a, p = some a → a ∈ w.view.allocs) :
    (free p w).2.view = { w.view with allocs := p.elim w.view.allocs (w.view.allocs.erase ·) } := by
  cases p with
  | none => rfl
  | some a => exact free_live_view w a (h a rfl)

/-- `kwajd_close` gives back exactly what `open` took -/
theorem close_spec (v : View) (hv : v.ok) (i : Inst) (hd : Hdr) (w : World) (ho : Opened v hd w) :
    Frame v (close_ i hd w).2 := by
  unfold close_
  simp only [bind_apply, pure_apply]
  have hh : (hd.fh, Mode.read) ∈ w.view.handles := by rw [ho.handles]; simp
  have hc := close_live_view w ho.ok hd.fh .read hh
  generalize close hd.fh w = p1 at hc
  obtain ⟨_, w1⟩ := p1
  dsimp only at hc ⊢
  have ha1 : w1.view.allocs = hd.f.extra.toList ++ (hd.f.filename.toList ++ hd.mem :: v.allocs) := by
    rw [hc]; exact ho.allocs
  -- the three frees
  have hf1 := free_opt_view w1 hd.f.filename (by
    intro a ha; rw [ha1, ha]; simp)
  generalize free hd.f.filename w1 = p2 at hf1
  obtain ⟨_, w2⟩ := p2
  dsimp only at hf1 ⊢
  have ha2 : w2.view.allocs = hd.f.extra.toList ++ hd.mem :: v.allocs := by
    rw [hf1]; dsimp only; rw [ha1]
    cases hd.f.filename with
    | none => rfl
    | some a =>
      cases hd.f.extra with
      | none => simp
      | some x => exact erase_second x a _
  have hf2 := free_opt_view w2 hd.f.extra (by
    intro a ha; rw [ha2, ha]; simp)
  generalize free hd.f.extra w2 = p3 at hf2
  obtain ⟨_, w3⟩ := p3
  dsimp only at hf2 ⊢
  have ha3 : w3.view.allocs = hd.mem :: v.allocs := by
    rw [hf2]; dsimp only; rw [ha2]
    cases hd.f.extra with
    | none => rfl
    | some x => simp
  have hf3 := free_live_view w3 hd.mem (by rw [ha3]; simp)
  refine ⟨?_, ?_, ?_, ?_⟩
  · rw [hf3]; dsimp only; rw [ha3]; simp
  · rw [hf3, hf2, hf1, hc]
    simp only [ho.handles, List.filter_cons, ne_eq, not_true_eq_false, decide_false, Bool.false_eq_true, ↓reduceIte]
    exact filter_fresh hv _ ho.fresh
  · rw [hf3, hf2, hf1, hc]; exact ho.misuse
  · rw [hf3, hf2, hf1, hc]
    have := ho.ok.handles_lt (hd.fh, Mode.read) hh
    have h2 := ho.fresh
    simp only at this ⊢; omega

/-- the postcondition of `open`: nothing changed (NULL) or `Opened` -/
def OpenPost (v : View) (w' : World) : Option Hdr → Prop
  | none => Frame v w'
  | some hd => Opened v hd w'

/-- `kwajd_open`, every path -/
theorem open_spec' (v : View) (hv : v.ok) (i : Inst) (name : String) (w : World) (hw : w.view = v) :
    OpenPost v (open_ i name w).2 (open_ i name w).1.2 := by
  unfold open_
  simp only [bind_apply]
  have hwn : w.nextId = v.nextId := by rw [← hw]; rfl
  rcases open_spec name .read w with ⟨o1, o2⟩ | ⟨o1, o2⟩
  · rw [o1]; simp only [pure_apply]
    exact Frame.of_view_eq (o2.trans hw)
  · rw [o1]
    generalize Sys.open_ name Mode.read w = p1 at o2
    obtain ⟨_, w1⟩ := p1
    simp only [bind_apply] at o2 ⊢
    rw [hw] at o2
    have hok1 : w1.view.ok := by rw [o2, hwn]; exact ok_add_handle hv .read
    have hh1 : (w.nextId, Mode.read) ∈ w1.view.handles := by rw [o2]; simp
    have hn1 : w1.nextId = v.nextId + 1 := by
      have : w1.view.nextId = w.nextId + 1 := by rw [o2]
      rw [hwn] at this; exact this
    rcases alloc_spec w1 with ⟨a1, a2⟩ | ⟨a1, a2⟩
    · -- no memory for the header: close the handle again
      rw [a1]; simp only [bind_apply, pure_apply]
      have hc := close_live_view (alloc w1).2 (a2 ▸ hok1) w.nextId .read (a2 ▸ hh1)
      refine ⟨?_, ?_, ?_, ?_⟩
      · rw [hc, a2, o2]
      · rw [hc, a2, o2]; simp only [List.filter_cons, ne_eq, not_true_eq_false, decide_false, Bool.false_eq_true, ↓reduceIte]
        exact filter_fresh hv _ (by omega)
      · rw [hc, a2, o2]
      · rw [hc, a2, o2]; simp only; omega
    · -- both succeeded: read the headers
      rw [a1]; simp only [bind_apply]
      have hv2 : (alloc w1).2.view.ok := by
        rw [a2]
        have := ok_add_alloc hok1
        simpa [World.view] using this
      have hh2 : (w.nextId, Mode.read) ∈ (alloc w1).2.view.handles := by rw [a2]; exact hh1
      have hr := readHeaders_held hv2 w.nextId hh2 (alloc w1).2 rfl
      generalize readHeaders w.nextId (alloc w1).2 = p3 at hr
      obtain ⟨r3, w3⟩ := p3
      dsimp only at hr ⊢
      have ho : Opened v ⟨w1.nextId, w.nextId, r3.2⟩ w3 := by
        refine ⟨by dsimp only; omega, ?_, ?_, ?_, hr.ok⟩
        · rw [hr.allocs, a2, o2]
        · rw [hr.handles, a2, o2]
        · rw [hr.misuse, a2, o2]
      split
      · simp only [bind_apply, pure_apply]
        exact close_spec v hv i _ w3 ho
      · simp only [pure_apply]
        exact ho

/-! ## extract -/

/-- the frame law of a bit-level decoder body: run with a live input handle and a live output
    handle, it leaves live blocks, live handles and the misuse record as they were (it only calls
    `read` on the first and `write` on the second, or balances whatever else it does) -/
def FrameLaw (body : Nat → Nat → M Err) : Prop :=
  ∀ (inFh outFh : Nat) (w : World), w.view.ok →
    (inFh, Mode.read) ∈ w.view.handles → (outFh, Mode.write) ∈ w.view.handles →
    Frame w.view (body inFh outFh w).2

structure Decoders.Lawful (d : Decoders) : Prop where
  lzh   : FrameLaw d.lzh
  mszip : FrameLaw d.mszip

theorem Frame.free_top {v : View} {a : Nat} {w1 : World}
    (f : Frame { v with allocs := a :: v.allocs, nextId := v.nextId + 1 } w1) :
    Frame v (free (some a) w1).2 := by
  have hmem : a ∈ w1.view.allocs := by rw [f.allocs]; simp
  have hf := free_live_view w1 a hmem
  refine ⟨?_, ?_, ?_, ?_⟩
  · rw [hf]; dsimp only; rw [f.allocs]; simp
  · rw [hf]; exact f.handles
  · rw [hf]; exact f.misuse
  · rw [hf]; have := f.nextId; dsimp only at this ⊢; omega

/-- the world right after a successful `alloc` -/
theorem alloc_some {v : View} (w : World) (hw : w.view = v) (a : Nat) (ha : (alloc w).1 = some a) :
    (alloc w).2.view = { v with allocs := a :: v.allocs, nextId := v.nextId + 1 } ∧ a = v.nextId := by
  rcases alloc_spec w with ⟨a1, _⟩ | ⟨a1, a2⟩
  · rw [a1] at ha; cases ha
  · rw [a1] at ha
    have hwn : w.nextId = v.nextId := by rw [← hw]; rfl
    have ha' : a = v.nextId := by rw [← hwn]; exact (Option.some.inj ha).symm
    refine ⟨?_, ha'⟩
    rw [a2, hw, hwn, ha']

theorem ok_alloc_id {v : View} (hv : v.ok) {a : Nat} (ha : a = v.nextId) :
    View.ok { v with allocs := a :: v.allocs, nextId := v.nextId + 1 } := by
  subst ha; exact ok_add_alloc hv

theorem alloc_none {v : View} (w : World) (hw : w.view = v) (ha : (alloc w).1 = none) : (alloc w).2.view = v := by
  rcases alloc_spec w with ⟨_, a2⟩ | ⟨a1, _⟩
  · exact a2.trans hw
  · rw [a1] at ha; cases ha

theorem copyLoop_keeps {v : View} (hv : v.ok) (inFh outFh : Nat) (xor : Bool)
    (hin : (inFh, Mode.read) ∈ v.handles) (hout : (outFh, Mode.write) ∈ v.handles) :
    ∀ fuel, Keeps v (copyLoop inFh outFh xor fuel) := by
  intro fuel
  induction fuel with
  | zero => rw [copyLoop.eq_1]; exact Keeps.pure _
  | succ fuel ih =>
    rw [copyLoop.eq_2]
    refine Keeps.bind (Keeps.read hv inFh _ hin) fun r => ?_
    cases r with
    | none => exact Keeps.pure _
    | some chunk =>
      dsimp only
      split
      · exact Keeps.pure _
      · refine Keeps.bind (Keeps.write hv outFh _ hout) fun r2 => ?_
        cases r2 with
        | none => exact Keeps.pure _
        | some n => dsimp only; split; exact Keeps.pure _; exact ih

theorem stored_spec (v : View) (hv : v.ok) (inFh outFh : Nat) (xor : Bool) (fuel : Nat)
    (hin : (inFh, Mode.read) ∈ v.handles) (hout : (outFh, Mode.write) ∈ v.handles)
    (w : World) (hw : w.view = v) :
    ∀ e, (stored inFh outFh xor fuel w).1 = some e → Frame v (stored inFh outFh xor fuel w).2 := by
  intro e he
  unfold stored at he ⊢
  rw [bind_apply] at he ⊢
  cases ha : (alloc w).1 with
  | none =>
    dsimp only at he ⊢
    rw [pure_apply]
    exact Frame.of_view_eq (alloc_none w hw ha)
  | some a =>
    rw [ha] at he
    dsimp only at he ⊢
    rw [bind_apply] at he ⊢
    obtain ⟨a2, ha'⟩ := alloc_some w hw a ha
    have hv1 : View.ok { v with allocs := a :: v.allocs, nextId := v.nextId + 1 } := ok_alloc_id hv ha'
    have hk := copyLoop_keeps hv1 inFh outFh xor hin hout fuel (alloc w).2 a2
    generalize copyLoop inFh outFh xor fuel (alloc w).2 = p at hk he
    obtain ⟨r, w2⟩ := p
    dsimp only at hk he ⊢
    cases r with
    | none => dsimp only at he; rw [pure_apply] at he; cases he
    | some e' =>
      dsimp only
      rw [bind_apply, pure_apply]
      exact Frame.free_top (Frame.of_view_eq hk)

theorem lzh_spec (d : Decoders) (hd : FrameLaw d.lzh) (v : View) (hv : v.ok) (inFh outFh : Nat)
    (hin : (inFh, Mode.read) ∈ v.handles) (hout : (outFh, Mode.write) ∈ v.handles)
    (w : World) (hw : w.view = v) : Frame v (Api.lzh d inFh outFh w).2 := by
  unfold Api.lzh
  rw [bind_apply]
  cases ha : (alloc w).1 with
  | none =>
    dsimp only
    rw [pure_apply]
    exact Frame.of_view_eq (alloc_none w hw ha)
  | some a =>
    dsimp only
    rw [bind_apply, bind_apply, pure_apply]
    obtain ⟨a2, ha'⟩ := alloc_some w hw a ha
    have hv1 : View.ok { v with allocs := a :: v.allocs, nextId := v.nextId + 1 } := ok_alloc_id hv ha'
    have hb := hd inFh outFh (alloc w).2 (a2 ▸ hv1) (by rw [a2]; exact hin) (by rw [a2]; exact hout)
    rw [a2] at hb
    exact Frame.free_top hb

theorem mszip_spec (d : Decoders) (hd : FrameLaw d.mszip) (v : View) (hv : v.ok) (inFh outFh : Nat)
    (hin : (inFh, Mode.read) ∈ v.handles) (hout : (outFh, Mode.write) ∈ v.handles)
    (w : World) (hw : w.view = v) : Frame v (Api.mszip d inFh outFh w).2 := by
  unfold Api.mszip
  rw [bind_apply]
  cases ha : (alloc w).1 with
  | none =>
    dsimp only
    rw [pure_apply]
    exact Frame.of_view_eq (alloc_none w hw ha)
  | some z =>
    dsimp only
    rw [bind_apply]
    obtain ⟨a2, ha'⟩ := alloc_some w hw z ha
    have hv1 : View.ok { v with allocs := z :: v.allocs, nextId := v.nextId + 1 } := ok_alloc_id hv ha'
    generalize (alloc w).2 = w1 at a2
    cases hb : (alloc w1).1 with
    | none =>
      dsimp only
      rw [bind_apply, pure_apply]
      exact Frame.free_top (Frame.of_view_eq (alloc_none w1 a2 hb))
    | some b =>
      dsimp only
      rw [bind_apply, bind_apply, bind_apply, pure_apply]
      obtain ⟨b2, hb'⟩ := alloc_some w1 a2 b hb
      have hv2 := ok_alloc_id hv1 hb'
      have hbody := hd inFh outFh (alloc w1).2 (b2 ▸ hv2) (by rw [b2]; exact hin) (by rw [b2]; exact hout)
      rw [b2] at hbody
      exact Frame.free_top (Frame.free_top hbody)

/-- "decompress based on format": whenever it returns, the ledger is as before -/
theorem method_spec (d : Decoders) (hd : d.Lawful) (v : View) (hv : v.ok) (ct inFh outFh fuel : Nat)
    (hin : (inFh, Mode.read) ∈ v.handles) (hout : (outFh, Mode.write) ∈ v.handles)
    (w : World) (hw : w.view = v) :
    ∀ e, (method d ct inFh outFh fuel w).1 = some e → Frame v (method d ct inFh outFh fuel w).2 := by
  intro e he
  unfold method at he ⊢
  split at he
  · rename_i hc; rw [if_pos hc]
    exact stored_spec v hv inFh outFh _ fuel hin hout w hw e he
  · rename_i hc; rw [if_neg hc]
    split at he
    · rename_i hc2; rw [if_pos hc2]
      exact lzss_spec v hv inFh outFh _ true fuel hin hout w hw e he
    · rename_i hc2; rw [if_neg hc2]
      split
      · rw [bind_apply, pure_apply]; exact lzh_spec d hd.lzh v hv inFh outFh hin hout w hw
      · split
        · rw [bind_apply, pure_apply]; exact mszip_spec d hd.mszip v hv inFh outFh hin hout w hw
        · rw [pure_apply]; exact Frame.of_view_eq hw

/-- `kwajd_extract` on an open header: whenever it returns, the ledger is as before the call (the
    output handle it opened is closed, the buffers / decoder states freed), on every path -/
theorem extract_spec (d : Decoders) (hd' : d.Lawful) (v : View) (i : Inst) (hd : Hdr) (out : String) (fuel : Nat)
    (w : World) (ho : Opened v hd w) :
    ∀ r, (extract d i hd out fuel w).1 = some r → Frame w.view (extract d i hd out fuel w).2 := by
  intro r hr
  have hok := ho.ok
  have hh : (hd.fh, Mode.read) ∈ w.view.handles := by rw [ho.handles]; simp
  unfold extract at hr ⊢
  simp only [bind_apply] at hr ⊢
  have hs := seek_live_view w hok hd.fh hd.f.dataOffset .read hh
  generalize seekStart hd.fh hd.f.dataOffset w = p1 at hs hr
  obtain ⟨b1, w1⟩ := p1
  simp only at hs hr ⊢
  cases b1 with
  | true => simp only [↓reduceIte, pure_apply] at hr ⊢; exact Frame.of_view_eq hs
  | false =>
    simp only [Bool.false_eq_true, ↓reduceIte, bind_apply] at hr ⊢
    have hok1 : w1.view.ok := hs ▸ hok
    rcases open_spec out .write w1 with ⟨o1, o2⟩ | ⟨o1, o2⟩
    · rw [o1] at hr ⊢; simp only [pure_apply] at hr ⊢
      exact Frame.of_view_eq (o2.trans hs)
    · rw [o1] at hr ⊢
      simp only [bind_apply] at hr ⊢
      generalize Sys.open_ out Mode.write w1 = p2 at o2 hr
      obtain ⟨_, w2⟩ := p2
      simp only at o2 hr ⊢
      have hv2 : w2.view.ok := by rw [o2]; exact ok_add_handle hok1 .write
      have hin : (hd.fh, Mode.read) ∈ w2.view.handles := by rw [o2]; simp [hs ▸ hh]
      have hout : (w1.nextId, Mode.write) ∈ w2.view.handles := by rw [o2]; simp
      have hl := method_spec d hd' w2.view hv2 hd.f.compType hd.fh w1.nextId fuel hin hout w2 rfl
      generalize method d hd.f.compType hd.fh w1.nextId fuel w2 = p3 at hl hr
      obtain ⟨r3, w3⟩ := p3
      simp only at hl hr ⊢
      match r3 with
      | none => simp only [pure_apply] at hr; cases hr
      | some e =>
        simp only [bind_apply, pure_apply] at hr ⊢
        have f3 := hl e rfl
        have hok3 := f3.ok hv2
        have hout3 : (w1.nextId, Mode.write) ∈ w3.view.handles := by rw [f3.handles]; exact hout
        have hc := close_live_view w3 hok3 w1.nextId .write hout3
        refine ⟨?_, ?_, ?_, ?_⟩
        · rw [hc]; simp only; rw [f3.allocs, o2, hs]
        · rw [hc]; simp only; rw [f3.handles, o2]
          simp only [List.filter_cons, ne_eq, not_true_eq_false, decide_false, Bool.false_eq_true, ↓reduceIte]
          rw [hs]; exact filter_fresh hok _ (by rw [← hs]; exact Nat.le_refl _)
        · rw [hc]; simp only; rw [f3.misuse, o2, hs]
        · rw [hc]; simp only
          have := f3.nextId; rw [o2] at this; simp only at this
          have h1 : w1.nextId = w.view.nextId := by rw [← hs]; rfl
          omega

theorem Opened.frame_back {v : View} {hd : Hdr} {w w' : World} (ho : Opened v hd w) (f : Frame w.view w') :
    Opened v hd w' :=
  ⟨ho.fresh, f.allocs.trans ho.allocs, f.handles.trans ho.handles, f.misuse.trans ho.misuse, f.ok ho.ok⟩

/-! ## decompress and whole client programs -/

/-- `kwajd_decompress`: whenever it returns, the ledger is as before the call -/
theorem decompress_spec (d : Decoders) (hd' : d.Lawful) (v : View) (hv : v.ok) (i : Inst) (input output : String)
    (fuel : Nat) (w : World) (hw : w.view = v) :
    ∀ r, (decompress d i input output fuel w).1 = some r → Frame v (decompress d i input output fuel w).2 := by
  intro r hr
  unfold decompress at hr ⊢
  simp only [bind_apply] at hr ⊢
  have ho := open_spec' v hv i input w hw
  generalize open_ i input w = p1 at ho hr
  obtain ⟨⟨i1, h?⟩, w1⟩ := p1
  simp only at ho hr ⊢
  match h? with
  | none => simp only [pure_apply] at hr ⊢; exact ho
  | some hd =>
    simp only [bind_apply] at hr ⊢
    have ho : Opened v hd w1 := ho
    have he := extract_spec d hd' v i1 hd output fuel w1 ho
    generalize extract d i1 hd output fuel w1 = p2 at he hr
    obtain ⟨r2, w2⟩ := p2
    simp only at he hr ⊢
    match r2 with
    | none => simp only [pure_apply] at hr; cases hr
    | some (i2, e) =>
      simp only [bind_apply, pure_apply] at hr ⊢
      exact close_spec v hv i2 hd w2 (ho.frame_back (he _ rfl))

theorem extracts_spec (d : Decoders) (hd' : d.Lawful) (v : View) (hd : Hdr) (fuel : Nat) (outs : List String) :
    ∀ (i : Inst) (w : World), Opened v hd w →
    ∀ r, (extracts d hd fuel outs i w).1 = some r → Opened v hd (extracts d hd fuel outs i w).2 := by
  induction outs with
  | nil => intro i w ho r _; exact ho
  | cons o os ih =>
    intro i w ho r hr
    rw [extracts.eq_2] at hr ⊢
    simp only [bind_apply] at hr ⊢
    have he := extract_spec d hd' v i hd o fuel w ho
    generalize extract d i hd o fuel w = p at he hr
    obtain ⟨r1, w1⟩ := p
    simp only at he hr ⊢
    match r1 with
    | none => simp only [pure_apply] at hr; cases hr
    | some (i1, e) =>
      simp only at hr ⊢
      exact ih i1 w1 (ho.frame_back (he _ rfl)) r hr

theorem runOp_spec (d : Decoders) (hd' : d.Lawful) (v : View) (hv : v.ok) (fuel : Nat) (i : Inst) (op : Op)
    (w : World) (hw : w.view = v) :
    ∀ r, (runOp d fuel i op w).1 = some r → Frame v (runOp d fuel i op w).2 := by
  intro r hr
  cases op with
  | decompress a b =>
    unfold runOp at hr ⊢
    simp only [bind_apply] at hr ⊢
    have hd := decompress_spec d hd' v hv i a b fuel w hw
    generalize decompress d i a b fuel w = p at hd hr
    obtain ⟨r1, w1⟩ := p
    simp only at hd hr ⊢
    match r1 with
    | none => simp only [pure_apply] at hr; cases hr
    | some (i1, e) => simp only [pure_apply]; exact hd _ rfl
  | session a outs =>
    unfold runOp at hr ⊢
    simp only [bind_apply] at hr ⊢
    have ho := open_spec' v hv i a w hw
    generalize open_ i a w = p1 at ho hr
    obtain ⟨⟨i1, h?⟩, w1⟩ := p1
    simp only at ho hr ⊢
    match h? with
    | none => simp only [pure_apply]; exact ho
    | some hd =>
      simp only [bind_apply] at hr ⊢
      have ho : Opened v hd w1 := ho
      have he := extracts_spec d hd' v hd fuel outs i1 w1 ho
      generalize extracts d hd fuel outs i1 w1 = p2 at he hr
      obtain ⟨r2, w2⟩ := p2
      simp only at he hr ⊢
      match r2 with
      | none => simp only [pure_apply] at hr; cases hr
      | some i2 =>
        simp only [bind_apply, pure_apply]
        exact close_spec v hv i2 hd w2 (he _ rfl)

theorem runOps_spec (d : Decoders) (hd' : d.Lawful) (fuel : Nat) (ops : List Op) :
    ∀ (v : View) (_ : v.ok) (i : Inst) (w : World) (_ : w.view = v),
    ∀ r, (runOps d fuel ops i w).1 = some r → Frame v (runOps d fuel ops i w).2 := by
  induction ops with
  | nil => intro v _ i w hw r _; exact Frame.of_view_eq hw
  | cons op ops ih =>
    intro v hv i w hw r hr
    rw [runOps.eq_2] at hr ⊢
    simp only [bind_apply] at hr ⊢
    have h1 := runOp_spec d hd' v hv fuel i op w hw
    generalize runOp d fuel i op w = p at h1 hr
    obtain ⟨r1, w1⟩ := p
    simp only at h1 hr ⊢
    match r1 with
    | none => simp only [pure_apply] at hr; cases hr
    | some i1 =>
      simp only at hr ⊢
      have f1 := h1 _ rfl
      exact f1.trans (ih w1.view (f1.ok hv) i1 w1 rfl r hr)

end MsPack.Kwaj.Api
