import Lean
import Proofs.Lemmas.CountLawsRead
import Proofs.Lemmas.CountLawsReadLzx
import Proofs.Lemmas.CountLawsReadQtm
/-!
# "A block refused by the block reader makes the call fail" — the walks (lemmas for C12Decoders)

`NR fd` ("not refused"): the feeder's last event was not a block refused by `readBlock` — its `readError` is OK, or it
has run past the folder's last block and recorded DATAFORMAT for that (`numBlocks < block`; that is what `cabd_sys_read`
does when a decoder reads ahead at the end of the folder, which is normal and harmless).  A feeder read that delivers bytes
(`some`) keeps `NR` (`feederRead_nr`); the read that meets a refused block returns `none`.

The `Tri` walk of `CountLaws.lean` over each decoder with the invariant "the source is `NR`": it holds at every normal
return (and at MSZIP's `inf` exits, which repair mode continues from); a status exception carries a non-OK status.
Hence: a `decompress` call that starts with an `NR` feeder and returns OK ends with an `NR` feeder.
-/
namespace MsPack.RefusedWalk
open MsPack MsPack.Cab MsPack.CountLaws

/-- the feeder's last event was not a block refused by the block reader: no error recorded, or the DATAFORMAT that
    `cabd_sys_read` records when it is asked for more after the folder's last block -/
def NR (fd : Feeder) : Prop := fd.readError = .ok ∨ (fd.numBlocks < fd.block ∧ fd.readError = .dataformat)

theorem feederRead_nr (files : Files) : ∀ (fuel : Nat) (fd : Feeder) (todo : Nat) (got g : Bytes) (fd' : Feeder),
    feederRead files fuel fd todo got = .ok (some g, fd') → NR fd → NR fd' := by
  intro fuel
  induction fuel with
  | zero => intro fd todo got g fd' h; simp [feederRead] at h
  | succ fuel ih =>
    intro fd todo got g fd' h hn
    unfold feederRead at h
    split at h
    · cases h; exact hn
    · split at h
      · exact ih _ _ _ _ _ h hn
      · simp only at h
        split at h
        · rename_i hge
          cases h
          try dsimp only at hge
          split
          · rcases hn with hn | ⟨h1, h2⟩
            · exact Or.inl hn
            · exact Or.inr ⟨by dsimp only; omega, h2⟩
          · exact Or.inr ⟨by dsimp only; omega, rfl⟩
        · split at h
          · cases h
          · cases h
          · refine ih _ _ _ _ _ h (Or.inl ?_)
            split <;> rfl

theorem feederSrc_nr (files : Files) (fd : Feeder) (n : Nat) (g : Bytes) (fd' : Feeder)
    (h : (feederSrc files).read fd n = .ok (some g, fd')) (hn : NR fd) : NR fd' :=
  feederRead_nr files _ fd n [] g fd' h hn

/-! ## MSZIP -/
section zip
open MsPack.Zip MsPack.CountLaws.ReadErr
open MsPack.CountLaws.Qtm (run_get_bind run_throw_bind run_modify run_modify_bind run_pure run_ite)
variable (files : Files)

def ZI (st : Zip.St Feeder) : Prop := NR st.src

def ZE : Zip.Halt → Zip.St Feeder → Prop
  | .sys e, _ => e ≠ .ok
  | .inf, st => ZI st
  | .fault _, _ => True

theorem ZI_of {a b : Zip.St Feeder} (h : ZI a) (h2 : b.src = a.src) : ZI b := by
  unfold ZI at *; rw [h2]; exact h

theorem ZE_read (st : Zip.St Feeder) : ZE (.sys .read) st := by
  show Err.read ≠ Err.ok
  intro hc; cases hc

open Lean Elab Tactic Meta in
elab "nrz_close" : tactic => withMainContext do
  let s0 ← saveState
  try
    evalTactic (← `(tactic| first | (show True; exact True.intro) | exact ZE_read _))
    return
  catch _ => s0.restore
  for d in (← getLCtx) do
    if d.isImplementationDetail then continue
    if (← instantiateMVars d.type).isAppOf ``ZI then
      let s ← saveState
      try
        let stx ← Term.exprToSyntax d.toExpr
        evalTactic (← `(tactic| first | exact ZI_of $stx rfl | (show ZI _; exact ZI_of $stx rfl)))
        return
      catch _ => s.restore
  throwError "nrz_close: nothing applies"

macro_rules | `(tactic| tri_close) => `(tactic| nrz_close)

theorem readInput_tri : Tri ZI ZE (Zip.readInput (feederSrc files)) := by
  constructor
  intro st hi r s' h
  unfold Zip.readInput at h
  rw [run_get_bind] at h
  split at h
  · rw [run_throw] at h; cases h; trivial
  · rw [run_set_bind, run_throw] at h; cases h
    exact ZE_read _
  · rename_i src hrd
    split at h
    · rw [run_set_bind, run_throw] at h; cases h
      exact ZE_read _
    · rw [run_set] at h; cases h
      exact feederSrc_nr files _ _ _ _ hrd hi
  · rename_i got src _ hrd
    rw [run_set] at h; cases h
    exact feederSrc_nr files _ _ _ _ hrd hi

local notation "ZS" => feederSrc files
local notation "ZT" => Tri ZI ZE

theorem nextByte_tri : ZT (Zip.nextByte ZS) := by
  unfold Zip.nextByte; tri_auto [readInput_tri files]

theorem ensureBits_tri (n : Nat) : ∀ fuel, ZT (Zip.ensureBits ZS n fuel) := by
  intro fuel
  induction fuel with
  | zero => rw [Zip.ensureBits.eq_1]; tri_auto
  | succ fuel ih => rw [Zip.ensureBits.eq_2]; tri_auto [nextByte_tri files]

theorem removeBits_tri (n : Nat) : ZT (Zip.removeBits (σ := Feeder) n) := by
  unfold Zip.removeBits; tri_auto

theorem readBits_tri (n : Nat) : ZT (Zip.readBits ZS n) := by
  unfold Zip.readBits; tri_auto [ensureBits_tri files, removeBits_tri]

theorem readHuffSym_tri (c : Huff.Canon) : ZT (Zip.readHuffSym ZS c) := by
  unfold Zip.readHuffSym; tri_auto [ensureBits_tri files, removeBits_tri]

theorem readLensLoop_tri (c : Huff.Canon) (total : Nat) : ∀ fuel lens last,
    ZT (Zip.readLensLoop ZS c total fuel lens last) := by
  intro fuel
  induction fuel with
  | zero => intro lens last; rw [Zip.readLensLoop.eq_1]; tri_auto
  | succ fuel ih =>
    intro lens last; rw [Zip.readLensLoop.eq_2]
    tri_auto [ensureBits_tri files, removeBits_tri, readBits_tri files]

theorem zipReadLens_rd_tri (blc : Nat) : ∀ k acc, ZT (zipReadLens.rd ZS blc k acc) := by
  intro k
  induction k with
  | zero => intro acc; rw [zipReadLens.rd.eq_1]; tri_auto
  | succ k ih => intro acc; rw [zipReadLens.rd.eq_2]; tri_auto [readBits_tri files]

theorem zipReadLens_tri : ZT (zipReadLens ZS) := by
  unfold zipReadLens
  tri_auto [readBits_tri files, zipReadLens_rd_tri files, readLensLoop_tri files]

theorem flushWindow_tri (n : Nat) : ZT (flushWindow (σ := Feeder) n) := by
  unfold flushWindow; tri_auto

theorem flushIfNeeded_tri : ZT (flushIfNeeded (σ := Feeder)) := by
  unfold flushIfNeeded; tri_auto [flushWindow_tri]

theorem putByte_tri (b : UInt8) : ZT (putByte (σ := Feeder) b) := by
  unfold putByte; tri_auto [flushIfNeeded_tri]

theorem copyStored_tri : ∀ fuel length, ZT (copyStored ZS fuel length) := by
  intro fuel
  induction fuel with
  | zero => intro length; rw [copyStored.eq_1]; tri_auto
  | succ fuel ih =>
    intro length; rw [copyStored.eq_2]
    tri_auto [readInput_tri files, flushIfNeeded_tri]

theorem copyMatch_tri : ∀ length posn, ZT (Zip.copyMatch (σ := Feeder) length posn) := by
  intro length
  induction length with
  | zero => intro posn; rw [Zip.copyMatch.eq_1]; tri_auto
  | succ length ih => intro posn; rw [Zip.copyMatch.eq_2]; tri_auto [putByte_tri]

theorem huffBlock_tri (lit dist : Huff.Canon) : ∀ fuel, ZT (huffBlock ZS lit dist fuel) := by
  intro fuel
  induction fuel with
  | zero => rw [huffBlock.eq_1]; tri_auto
  | succ fuel ih =>
    rw [huffBlock.eq_2]
    tri_auto [readHuffSym_tri files, readBits_tri files, putByte_tri, copyMatch_tri]

theorem inflate_more_tri : ∀ k acc, ZT (inflate.more ZS k acc) := by
  intro k
  induction k with
  | zero => intro acc; rw [inflate.more.eq_1]; tri_auto
  | succ k ih => intro acc; rw [inflate.more.eq_2]; tri_auto [nextByte_tri files]

theorem inflate_tri : ∀ fuel, ZT (inflate ZS fuel) := by
  intro fuel
  induction fuel with
  | zero => rw [inflate.eq_1]; tri_auto
  | succ fuel ih =>
    rw [inflate.eq_2]
    tri_auto [readBits_tri files, inflate_more_tri files, copyStored_tri files, zipReadLens_tri files,
      huffBlock_tri files, flushWindow_tri]

theorem scanCK_tri : ∀ fuel state, ZT (scanCK ZS fuel state) := by
  intro fuel
  induction fuel with
  | zero => intro state; rw [scanCK.eq_1]; tri_auto
  | succ fuel ih => intro state; rw [scanCK.eq_2]; tri_auto [readBits_tri files]


/-- what a `decompress` call must deliver: an OK return leaves the source `NR` -/
def ZOut (o : Zip.Out Feeder) : Prop := o.err = .ok → ZI o.st

def RI : InfRes → Zip.St Feeder → Prop
  | .sys e, _ => e ≠ .ok
  | _, s => ZI s

theorem runInflate_ri (fuel : Nat) (st : Zip.St Feeder) (hi : ZI st) (res : InfRes) (s : Zip.St Feeder)
    (h : runInflate ZS fuel st = .ok (res, s)) : RI res s := by
  unfold runInflate at h
  split at h
  · rename_i heq; cases h; exact (inflate_tri files fuel).out st hi _ _ heq
  · cases h
  · rename_i heq; cases h; exact (inflate_tri files fuel).out st hi _ _ heq
  · rename_i heq; cases h; exact (inflate_tri files fuel).out st hi _ _ heq

theorem loopTail_nr (fuel n : Nat)
    (ih : ∀ (st : Zip.St Feeder) (outBytes : Nat) (w : Bytes) (o : Zip.Out Feeder), ZI st →
      decompressLoop ZS fuel n st outBytes w = .ok o → ZOut o)
    (res : InfRes) (st : Zip.St Feeder) (hr : RI res st) (outBytes : Nat) (w : Bytes) (o : Zip.Out Feeder)
    (h : CountLaws.Zip.loopTail ZS fuel n res st outBytes w = .ok o) : ZOut o := by
  unfold CountLaws.Zip.loopTail at h
  dsimp only at h
  split at h
  · rename_i e
    split at h <;> cases h <;> exact fun hc => absurd hc hr
  · rename_i hne
    have hi : ZI st := by
      cases res with
      | sys e => exact absurd rfl (hne e)
      | ok => exact hr
      | inf => exact hr
    refine ih _ _ _ _ ?_ h
    exact ZI_of hi rfl

theorem repairSt_ri (res : InfRes) (st : Zip.St Feeder) (hr : RI res st) :
    RI res (CountLaws.Zip.repairSt res st) := by
  unfold CountLaws.Zip.repairSt
  split
  · cases res with
    | sys e => exact hr
    | ok => exact ZI_of hr rfl
    | inf => exact ZI_of hr rfl
  · exact hr

theorem decompressLoop_nr (fuel : Nat) : ∀ (n : Nat) (st : Zip.St Feeder) (outBytes : Nat) (w : Bytes)
    (o : Zip.Out Feeder), ZI st → decompressLoop ZS fuel n st outBytes w = .ok o → ZOut o := by
  intro n
  induction n with
  | zero => intro st outBytes w o _ h; rw [decompressLoop.eq_1] at h; cases h
  | succ n ih =>
    intro st outBytes w o hi h
    rw [decompressLoop.eq_2] at h
    split at h
    · cases h; exact fun _ => hi
    · dsimp only at h
      have hi1 : ZI { st with bits := st.bits.drop (st.bits.length % 8) } := ZI_of hi rfl
      split at h
      · cases h
      · cases h; exact fun hc => nomatch hc
      · rename_i e s heq
        cases h
        have he : ZE (.sys e) s := (scanCK_tri files fuel 0).out _ hi1 _ _ heq
        exact fun hc => absurd hc he
      · rename_i s heq
        have hs : ZI s := (scanCK_tri files fuel 0).out _ hi1 _ _ heq
        split at h
        · cases h
        · rename_i res s2 hri
          have hr := runInflate_ri files fuel _ (by exact ZI_of hs rfl) res s2 hri
          split at h
          · rename_i hf
            cases h
            cases res with
            | ok => exact absurd rfl hf.1
            | inf => exact fun hc => nomatch hc
            | sys e => exact fun hc => absurd hc hr
          · change CountLaws.Zip.loopTail ZS fuel n res (CountLaws.Zip.repairSt res s2) outBytes w = _ at h
            exact loopTail_nr files fuel n ih res _ (repairSt_ri res s2 hr) _ _ _ h

/-- **MSZIP**: a call that starts with an `NR` feeder and returns OK ends with an `NR` feeder -/
theorem zip_nr (fuel : Nat) (st : Zip.St Feeder) (n : Nat) (o : Zip.Out Feeder) (hj : ZI st)
    (h : Zip.decompress ZS fuel st n = .ok o) : ZOut o := by
  unfold Zip.decompress at h
  split at h
  · rename_i he; cases h; exact fun hc => absurd hc he
  · dsimp only at h
    split at h
    · cases h; exact fun _ => ZI_of hj rfl
    · exact decompressLoop_nr files fuel fuel { st with pending := st.pending.drop (min st.pending.length n) } _ _ _
        (ZI_of hj rfl) h

end zip

/-! ## LZX -/
namespace LzxW
open MsPack.Lzx MsPack.CountLaws.ReadErr
open MsPack.CountLaws.Qtm (run_get_bind run_throw_bind run_modify run_modify_bind run_pure run_ite)
variable (files : Files)

def LI (st : Lzx.St Feeder) : Prop := NR st.src

def LE : Lzx.Halt → Lzx.St Feeder → Prop
  | .sys e, _ => e ≠ .ok
  | .fault _, _ => True

theorem LI_of {a b : Lzx.St Feeder} (h : LI a) (h2 : b.src = a.src) : LI b := by
  unfold LI at *; rw [h2]; exact h

open Lean Elab Tactic Meta in
elab "nrl_close" : tactic => withMainContext do
  let s0 ← saveState
  try
    evalTactic (← `(tactic| (show True; exact True.intro)))
    return
  catch _ => s0.restore
  for d in (← getLCtx) do
    if d.isImplementationDetail then continue
    if (← instantiateMVars d.type).isAppOf ``LI then
      let s ← saveState
      try
        let stx ← Term.exprToSyntax d.toExpr
        evalTactic (← `(tactic| first
          | exact LI_of $stx rfl
          | (dsimp only; split <;> exact LI_of $stx rfl)))
        return
      catch _ => s.restore
  throwError "nrl_close: nothing applies"

macro_rules | `(tactic| tri_close) => `(tactic| nrl_close)

local notation "LS" => feederSrc files
local notation "LT" => Tri LI LE

theorem fail_tri {α : Type} : LT (Lzx.fail (σ := Feeder) (α := α) .decrunch) := by
  constructor
  intro st hi r s' h
  unfold Lzx.fail at h
  rw [run_modify_bind] at h
  cases h
  show Err.decrunch ≠ Err.ok
  intro hc; cases hc

theorem readInput_tri : LT (Lzx.readInput LS) := by
  constructor
  intro st hi r s' h
  unfold Lzx.readInput at h
  rw [run_get_bind] at h
  split at h
  · rw [run_throw] at h; cases h; trivial
  · rename_i got src hrd
    dsimp only at h
    split at h
    · rw [run_set_bind, run_throw] at h; cases h
      show Err.read ≠ Err.ok
      intro hc; cases hc
    · split at h
      · rw [run_set_bind, run_throw] at h; cases h
        show Err.read ≠ Err.ok
        intro hc; cases hc
      · rw [run_set] at h; cases h
        exact feederSrc_nr files _ _ _ _ hrd hi
    · rw [run_set] at h; cases h
      exact feederSrc_nr files _ _ _ _ hrd hi

theorem nextByte_tri : LT (Lzx.nextByte LS) := by
  unfold Lzx.nextByte; tri_auto [readInput_tri files]

theorem ensureBits_tri (n : Nat) : ∀ fuel, LT (Lzx.ensureBits LS n fuel) := by
  intro fuel
  induction fuel with
  | zero => rw [Lzx.ensureBits.eq_1]; tri_auto
  | succ fuel ih => rw [Lzx.ensureBits.eq_2]; tri_auto [nextByte_tri files]

theorem removeBits_tri (n : Nat) : LT (Lzx.removeBits (σ := Feeder) n) := by
  unfold Lzx.removeBits; tri_auto

theorem peekBits_tri (n : Nat) : LT (Lzx.peekBits (σ := Feeder) n) := by
  unfold Lzx.peekBits; tri_auto

theorem readBits_tri (n : Nat) : LT (Lzx.readBits LS n) := by
  unfold Lzx.readBits; tri_auto [ensureBits_tri files, removeBits_tri, peekBits_tri]

theorem readHuffSym_tri (t : Option Huff.Canon) (name : String) : LT (Lzx.readHuffSym LS t name) := by
  unfold Lzx.readHuffSym; tri_auto [ensureBits_tri files, removeBits_tri, fail_tri]

theorem getLen_tri (t : Tree) (x : Nat) : LT (getLen (σ := Feeder) t x) := by
  unfold getLen; tri_auto

theorem setLen_tri (t : Tree) (x : Nat) (v : UInt8) : LT (setLen (σ := Feeder) t x v) := by
  unfold setLen; tri_auto

theorem fillLens_tri (t : Tree) (v : UInt8) : ∀ y x, LT (fillLens (σ := Feeder) t v y x) := by
  intro y
  induction y with
  | zero => intro x; rw [fillLens.eq_1]; tri_auto
  | succ y ih => intro x; rw [fillLens.eq_2]; tri_auto [setLen_tri]

theorem readLensLoop_tri (t : Tree) (pre : Huff.Canon) (last : Nat) : ∀ fuel x,
    LT (Lzx.readLensLoop LS t pre last fuel x) := by
  intro fuel
  induction fuel with
  | zero => intro x; rw [Lzx.readLensLoop.eq_1]; tri_auto
  | succ fuel ih =>
    intro x; rw [Lzx.readLensLoop.eq_2]
    tri_auto [readHuffSym_tri files, readBits_tri files, fillLens_tri, getLen_tri, setLen_tri]

theorem readPretreeLens_tri : ∀ k x, LT (readPretreeLens LS k x) := by
  intro k
  induction k with
  | zero => intro x; rw [readPretreeLens.eq_1]; tri_auto
  | succ k ih => intro x; rw [readPretreeLens.eq_2]; tri_auto [readBits_tri files]

theorem readLengths_tri (fuel : Nat) (t : Tree) (first last : Nat) : LT (readLengths LS fuel t first last) := by
  unfold readLengths; tri_auto [readPretreeLens_tri files, readLensLoop_tri files, fail_tri]

theorem readAlignedLens_tri : ∀ k x, LT (readAlignedLens LS k x) := by
  intro k
  induction k with
  | zero => intro x; rw [readAlignedLens.eq_1]; tri_auto
  | succ k ih => intro x; rw [readAlignedLens.eq_2]; tri_auto [readBits_tri files]

theorem readRaw_tri : ∀ k acc, LT (readRaw LS k acc) := by
  intro k
  induction k with
  | zero => intro acc; rw [readRaw.eq_1]; tri_auto
  | succ k ih => intro acc; rw [readRaw.eq_2]; tri_auto [nextByte_tri files]

theorem readBlockHeader_tri (fuel : Nat) : LT (readBlockHeader LS fuel) := by
  unfold readBlockHeader
  tri_auto [nextByte_tri files, readBits_tri files, readAlignedLens_tri files, readLengths_tri files,
    getLen_tri, ensureBits_tri files, readRaw_tri files, fail_tri]

theorem winCopy_tri (n src dst : Nat) : LT (winCopy (σ := Feeder) n src dst) := by
  unfold winCopy; tri_auto

theorem putLiteral_tri (b : UInt8) : LT (putLiteral (σ := Feeder) b) := by
  unfold putLiteral
  refine Tri.bind (Tri.modifyGet ?_) ?_
  · intro st hi
    split
    · exact LI_of hi rfl
    · exact hi
  · intro ok; tri_auto

theorem readOffset_tri (c : RunCtx) (slot : Nat) : LT (Lzx.readOffset LS c slot) := by
  unfold Lzx.readOffset; tri_auto [readBits_tri files, readHuffSym_tri files]

theorem readExtraLen_tri : LT (readExtraLen LS) := by
  unfold readExtraLen
  tri_auto [ensureBits_tri files, peekBits_tri, removeBits_tri, readBits_tri files]

theorem copyMatch_tri (c : RunCtx) (mo ml : Nat) : LT (Lzx.copyMatch (σ := Feeder) c mo ml) := by
  unfold Lzx.copyMatch; tri_auto [winCopy_tri, fail_tri]

theorem decodeRun_tri (c : RunCtx) : ∀ fuel r, LT (decodeRun LS c fuel r) := by
  intro fuel
  induction fuel with
  | zero => intro r; rw [decodeRun.eq_1]; tri_auto
  | succ fuel ih =>
    intro r; rw [decodeRun.eq_2]
    tri_auto [readHuffSym_tri files, putLiteral_tri, fail_tri, readOffset_tri files,
      readExtraLen_tri files, copyMatch_tri]

theorem copyRaw_tri : ∀ fuel dest r, LT (copyRaw LS fuel dest r) := by
  intro fuel
  induction fuel with
  | zero => intro dest r; rw [copyRaw.eq_1]; tri_auto
  | succ fuel ih => intro dest r; rw [copyRaw.eq_2]; tri_auto [readInput_tri files]

theorem blockLoop_tri : ∀ fuel b, LT (Lzx.blockLoop LS fuel b) := by
  intro fuel
  induction fuel with
  | zero => intro b; rw [Lzx.blockLoop.eq_1]; tri_auto
  | succ fuel ih =>
    intro b; rw [Lzx.blockLoop.eq_2]
    tri_auto [readBlockHeader_tri files, decodeRun_tri files, copyRaw_tri files, fail_tri]

theorem frameBody_tri (fuel outBytes : Nat) : LT (frameBody LS fuel outBytes) := by
  unfold frameBody
  tri_auto [ensureBits_tri files, removeBits_tri, readBits_tri files, readInput_tri files,
    blockLoop_tri files, fail_tri]


def LOut (o : DecodeOut (Lzx.St Feeder)) : Prop := o.err = .ok → LI o.st

theorem frameLoop_nr (fuel endFrame : Nat) : ∀ (n : Nat) (st : Lzx.St Feeder) (outBytes : Nat)
    (acc : Array UInt8) (o : DecodeOut (Lzx.St Feeder)), LI st →
    frameLoop LS fuel endFrame n st outBytes acc = .ok o → LOut o := by
  intro n
  induction n with
  | zero =>
    intro st outBytes acc o hi h
    rw [frameLoop.eq_1] at h
    split at h
    · cases h
    · split at h
      · cases h; exact fun hc => nomatch hc
      · cases h; exact fun _ => hi
  | succ n ih =>
    intro st outBytes acc o hi h
    rw [frameLoop.eq_2] at h
    split at h
    · split at h
      · cases h
      · rename_i e s heq
        cases h
        have he : LE (.sys e) s := (frameBody_tri files fuel outBytes).out _ hi _ _ heq
        exact fun hc => absurd hc he
      · rename_i chunk s heq
        have hs : LI s := (frameBody_tri files fuel outBytes).out _ hi _ _ heq
        exact ih _ _ _ _ hs h
    · split at h
      · cases h; exact fun hc => nomatch hc
      · cases h; exact fun _ => hi

/-- **LZX**: a call that starts with an `NR` feeder and returns OK ends with an `NR` feeder -/
theorem lzx_nr (fuel : Nat) (st : Lzx.St Feeder) (n : Nat) (o : DecodeOut (Lzx.St Feeder)) (hi : LI st)
    (h : Lzx.decompress LS fuel st n = .ok o) : LOut o := by
  unfold Lzx.decompress at h
  split at h
  · rename_i he; cases h; exact fun hc => absurd hc he
  · dsimp only at h
    split at h
    · cases h
    · split at h
      · cases h
        exact fun _ => LI_of hi rfl
      · refine frameLoop_nr files fuel _ _ _ _ _ _ ?_ h
        exact LI_of hi rfl

end LzxW

/-! ## Quantum -/
namespace QtmW
open MsPack.Qtm MsPack.Generated MsPack.CountLaws.ReadErr
open MsPack.CountLaws.Qtm (run_get_bind run_throw_bind run_modify run_modify_bind run_pure run_ite)
variable (files : Files)

def QI (r : Run Feeder) : Prop := NR r.st.src

def QE : Qtm.Halt → Run Feeder → Prop
  | .sys e, _ => e ≠ .ok
  | .fault _, _ => True

theorem QI_of {a b : Run Feeder} (h : QI a) (h2 : b.st.src = a.st.src) : QI b := by
  unfold QI at *; rw [h2]; exact h

theorem setModel_src (st : Qtm.St Feeder) (id : MId) (m : Model) : (st.setModel id m).src = st.src := by
  cases id <;> rfl

open Lean Elab Tactic Meta in
elab "nrq_close" : tactic => withMainContext do
  let s0 ← saveState
  try
    evalTactic (← `(tactic| (show True; exact True.intro)))
    return
  catch _ => s0.restore
  for d in (← getLCtx) do
    if d.isImplementationDetail then continue
    if (← instantiateMVars d.type).isAppOf ``QI then
      let s ← saveState
      try
        let stx ← Term.exprToSyntax d.toExpr
        evalTactic (← `(tactic| first
          | exact QI_of $stx rfl
          | exact QI_of $stx (setModel_src _ _ _)))
        return
      catch _ => s.restore
  throwError "nrq_close: nothing applies"

macro_rules | `(tactic| tri_close) => `(tactic| nrq_close)

local notation "QS" => feederSrc files
local notation "QT" => Tri QI QE

theorem fail_tri {α : Type} : QT (Qtm.fail (σ := Feeder) (α := α) .decrunch) := by
  constructor
  intro st hi r s' h
  unfold Qtm.fail modSt at h
  rw [run_modify_bind] at h
  cases h
  show Err.decrunch ≠ Err.ok
  intro hc; cases hc

theorem liftF_tri {α : Type} (x : Except Fault α) : QT (liftF (σ := Feeder) x) := by
  unfold liftF; tri_auto

theorem readInput_tri : QT (Qtm.readInput QS) := by
  constructor
  intro st hi r s' h
  unfold Qtm.readInput at h
  rw [run_get_bind] at h
  split at h
  · rw [run_throw] at h; cases h; trivial
  · rw [run_set_bind, run_throw] at h; cases h
    show Err.read ≠ Err.ok
    intro hc; cases hc
  · rename_i src hrd
    split at h
    · rw [run_set_bind, run_throw] at h; cases h
      show Err.read ≠ Err.ok
      intro hc; cases hc
    · rw [run_set] at h; cases h
      exact feederSrc_nr files _ _ _ _ hrd hi
  · rename_i got src _ hrd
    rw [run_set] at h; cases h
    exact feederSrc_nr files _ _ _ _ hrd hi

theorem nextByte_tri : QT (Qtm.nextByte QS) := by
  unfold Qtm.nextByte; tri_auto [readInput_tri files]

theorem readBytes_tri : QT (readBytes QS) := by
  unfold readBytes; tri_auto [nextByte_tri files]

theorem ensureBits_tri (n : Nat) : ∀ k, QT (Qtm.ensureBits QS n k) := by
  intro k
  induction k with
  | zero => rw [Qtm.ensureBits.eq_1]; tri_auto
  | succ k ih => rw [Qtm.ensureBits.eq_2]; tri_auto [readBytes_tri files]

theorem peekBits_tri (n : Nat) : QT (Qtm.peekBits (σ := Feeder) n) := by
  unfold Qtm.peekBits; tri_auto

theorem removeBits_tri (n : Nat) : QT (Qtm.removeBits (σ := Feeder) n) := by
  unfold Qtm.removeBits; tri_auto

theorem readBits_tri (n : Nat) : QT (Qtm.readBits QS n) := by
  unfold Qtm.readBits; tri_auto [ensureBits_tri files, peekBits_tri, removeBits_tri]

theorem readManyLoop_tri : ∀ k needed val, QT (readManyLoop QS k needed val) := by
  intro k
  induction k with
  | zero => intro needed val; rw [readManyLoop.eq_1]; tri_auto
  | succ k ih =>
    intro needed val; rw [readManyLoop.eq_2]
    tri_auto [readBytes_tri files, peekBits_tri, removeBits_tri]

theorem readManyBits_tri (bits : Nat) : QT (readManyBits QS bits) := by
  unfold readManyBits; exact readManyLoop_tri files _ _ _

theorem renorm_tri : ∀ fuel, QT (renorm QS fuel) := by
  intro fuel
  induction fuel with
  | zero => rw [renorm.eq_1]; tri_auto
  | succ fuel ih =>
    rw [renorm.eq_2]; tri_auto [ensureBits_tri files, peekBits_tri, removeBits_tri]

theorem getSymbol_tri (fuel : Nat) (id : MId) : QT (getSymbol QS fuel id) := by
  unfold getSymbol; tri_auto [liftF_tri, renorm_tri files]

theorem tableAt_tri (what : String) (t : List Nat) (i : Nat) : QT (tableAt (σ := Feeder) what t i) := by
  unfold tableAt; tri_auto

theorem copyFwd_tri (n a d : Nat) : QT (Qtm.copyFwd (σ := Feeder) n a d) := by
  unfold Qtm.copyFwd; tri_auto

theorem copyMasked_tri (n j d : Nat) : QT (copyMasked (σ := Feeder) n j d) := by
  unfold copyMasked; tri_auto

theorem writeOut_tri (p n : Nat) : QT (writeOut (σ := Feeder) p n) := by
  unfold writeOut; tri_auto

theorem readOffset_tri (sym : Nat) : QT (Qtm.readOffset QS sym) := by
  unfold Qtm.readOffset; tri_auto [tableAt_tri, readManyBits_tri files]

theorem trailerScan_tri : ∀ fuel, QT (trailerScan QS fuel) := by
  intro fuel
  induction fuel with
  | zero => rw [trailerScan.eq_1]; tri_auto
  | succ fuel ih => rw [trailerScan.eq_2]; tri_auto [readBits_tri files]

theorem symbolLoop_tri (fuel frameEnd : Nat) : ∀ n, QT (symbolLoop QS fuel frameEnd n) := by
  intro n
  induction n with
  | zero => rw [symbolLoop.eq_1]; tri_auto
  | succ n ih =>
    rw [symbolLoop.eq_2]
    tri_auto [getSymbol_tri files, readOffset_tri files, tableAt_tri, readManyBits_tri files, fail_tri,
      copyMasked_tri, copyFwd_tri, writeOut_tri]

theorem blockLoop_tri (fuel : Nat) : ∀ n, QT (Qtm.blockLoop QS fuel n) := by
  intro n
  induction n with
  | zero => rw [Qtm.blockLoop.eq_1]; tri_auto
  | succ n ih =>
    rw [Qtm.blockLoop.eq_2]
    tri_auto [readBits_tri files, symbolLoop_tri files, fail_tri, removeBits_tri, trailerScan_tri files,
      writeOut_tri]

theorem body_tri (fuel : Nat) : QT (body QS fuel) := by
  unfold body
  tri_auto [blockLoop_tri files, writeOut_tri]


def QOut (o : DecodeOut (Qtm.St Feeder)) : Prop := o.err = .ok → NR o.st.src

/-- **Quantum**: a call that starts with an `NR` feeder and returns OK ends with an `NR` feeder -/
theorem qtm_nr (fuel : Nat) (st : Qtm.St Feeder) (n : Nat) (o : DecodeOut (Qtm.St Feeder)) (hj : NR st.src)
    (h : Qtm.decompress QS fuel st n = .ok o) : QOut o := by
  unfold Qtm.decompress at h
  split at h
  · rename_i he; cases h; exact fun hc => absurd hc he
  · dsimp only at h
    generalize (if st.oEnd - st.oPtr > n then n else st.oEnd - st.oPtr) = i at h
    split at h
    · cases h
    · split at h
      · cases h
        exact fun _ => hj
      · split at h
        · cases h
        · rename_i e r heq
          cases h
          have he : QE (.sys e) r := (body_tri files fuel).out _ (by exact hj) _ _ heq
          exact fun hc => absurd hc he
        · rename_i r heq
          cases h
          have hr : QI r := (body_tri files fuel).out _ (by exact hj) _ _ heq
          exact fun _ => hr

end QtmW

/-! ## the stored "decoder" and `Cab.decompress` for every method -/

theorem noned_nr (files : Files) (bs : Nat) : ∀ (fuel : Nat) (fd : Feeder) (bytes : Nat) (w : Bytes) (o : DecOut),
    nonedDecompress files bs fuel fd bytes w = .ok o → NR fd → o.err = .ok → NR o.feeder := by
  intro fuel
  induction fuel with
  | zero => intro fd bytes w o h; simp [nonedDecompress] at h
  | succ fuel ih =>
    intro fd bytes w o h hn he
    unfold nonedDecompress at h
    split at h
    · cases h; exact hn
    · dsimp only at h
      generalize (if bytes > bs then bs else bytes) = run at h
      split at h
      · cases h
      · cases h; cases he
      · rename_i got fd' hrd
        split at h
        · cases h; cases he
        · exact ih _ _ _ _ h (feederRead_nr files _ _ _ _ _ _ hrd hn) he

/-- **every compression type**: a decoder call that starts with an `NR` feeder and returns OK hands back an `NR` feeder -/
theorem decompress_nr (files : Files) (dec : Dec) (fd : Feeder) (n : Nat) (o : DecOut) (hn : NR fd)
    (h : decompress files dec fd n = .ok (some o)) (he : o.err = .ok) : NR o.feeder := by
  unfold decompress at h
  cases dec with
  | none bs e =>
    dsimp only at h
    split at h
    · rename_i hne
      simp only [Except.ok.injEq, Option.some.injEq] at h
      subst h
      exact absurd he hne
    · cases hr : nonedDecompress files bs (n / max bs 1 + 2) fd n [] with
      | error f => rw [hr] at h; cases h
      | ok o' =>
        rw [hr] at h
        simp only [Except.map, Except.ok.injEq, Option.some.injEq] at h
        subst h
        exact noned_nr files bs _ _ _ _ _ hr hn he
  | mszip st =>
    dsimp only at h
    split at h
    · cases h
    · rename_i oz hz
      simp only [Except.ok.injEq, Option.some.injEq] at h
      subst h
      exact zip_nr files _ _ _ _ (by exact hn) hz he
  | qtm st =>
    dsimp only at h
    split at h
    · cases h
    · rename_i oz hz
      simp only [Except.ok.injEq, Option.some.injEq] at h
      subst h
      exact QtmW.qtm_nr files _ _ _ _ (by exact hn) hz he
  | lzx st =>
    dsimp only at h
    split at h
    · cases h
    · rename_i oz hz
      simp only [Except.ok.injEq, Option.some.injEq] at h
      subst h
      exact LzxW.lzx_nr files _ _ _ _ (by exact hn) hz he
  | unsupported m => cases h

end MsPack.RefusedWalk
