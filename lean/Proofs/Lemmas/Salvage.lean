import MsPack.Cab.Extract
namespace MsPack.Cab
open MsPack

theorem readFiles_salvage_mono (nf : Nat) : ∀ (n : Nat) (r : Rd) (acc : List CFile) (x),
    readFiles nf false n r acc = .ok x → readFiles nf true n r acc = .ok x := by
  intro n
  induction n with
  | zero => intro r acc x h; simpa [readFiles] using h
  | succ n ih =>
    intro r acc x h
    unfold readFiles at h ⊢
    split at h
    · contradiction
    · simp only at h ⊢
      split at h
      · exact ih _ _ _ h
      · simp at h
      · simp at h

theorem readHeaders_salvage_mono (file : Bytes) (off : Nat) (c : Cabinet)
    (h : readHeaders file off false = .ok c) : readHeaders file off true = .ok c := by
  unfold readHeaders at h ⊢
  split at h
  · contradiction
  · split at h
    · contradiction
    · dsimp only at h ⊢
      split at h
      · contradiction
      · split at h
        · contradiction
        · split at h
          · contradiction
          · split at h
            · contradiction
            · split at h
              · contradiction
              · split at h
                · contradiction
                · rename_i hf
                  rw [readFiles_salvage_mono _ _ _ _ _ hf]
                  simp_all

/-- a block the strict reader lets through is delivered identically under any relaxation -/
theorem readBlock_relax_mono (files : Files) (ic ib : Bool) : ∀ (fuel : Nat) (rd : Option Rd) (parts : List Part)
    (acc : Bytes) (p : Bytes) (out : Nat) (rd' : Option Rd) (parts' : List Part),
    readBlock files false false fuel rd parts acc = .ok p out rd' parts' →
    readBlock files ic ib fuel rd parts acc = .ok p out rd' parts' := by
  intro fuel
  induction fuel with
  | zero => intro rd parts acc p out rd' parts' h; simp [readBlock] at h
  | succ fuel ih =>
    intro rd parts acc p out rd' parts' h
    unfold readBlock at h ⊢
    split at h
    · contradiction
    · contradiction
    · split at h
      · contradiction
      · simp only at h ⊢
        split at h
        · contradiction
        · split at h
          · contradiction
          · split at h
            · contradiction
            · split at h
              · contradiction
              · split at h
                · contradiction
                · split at h
                  · simp_all
                    repeat' split
                    all_goals first | rfl | omega | simp_all
                  · split at h
                    · contradiction
                    · split at h
                      · contradiction
                      · rename_i hlook
                        have := ih _ _ _ _ _ _ _ h
                        simp_all
                        repeat' split
                        all_goals first | rfl | omega | simp_all

end MsPack.Cab
