import Proofs.Lemmas.CabData
/-
A run of well-formed blocks of a stored folder followed by something the block reader refuses (a damaged
block): what the feeder, the stored decoder and `cabd_extract`'s phases do when asked for more bytes than the
run holds — the error reaches the caller.
-/
namespace MsPack.Cab
open MsPack MsPack.Generated
open MsPack.Oab (enc32 read_prefix readExact_prefix drop_after ofNat_toNat_lt)

/-- what follows the run is refused by the strict block reader with error `e`, wherever in the file it is read
    from and whatever continuation cabinets there are -/
def BadTail (files : Files) (L : Lay) (e : Err) : Prop :=
  ∀ (pos fuel : Nat) (part : Part) (more : List Part), part.blockResv = 0 → L.file.drop pos = L.tail →
    ∃ rd' parts', readBlock files false false (fuel + 1) (some ⟨L.file, pos⟩) (part :: more) [] = .err e rd' parts'

theorem encData_length (b : DataBlk) : (encData b).length = 8 + b.payload.length := by
  simp [encData, enc32, enc16]; omega

/-- asked for more than the run still holds, the feeder reports the block reader's error -/
theorem feederRead_bad (files : Files) (L : Lay) (e : Err) (hbad : BadTail files L e) :
    ∀ (fuel : Nat) (fd : Feeder) (blks : List DataBlk) (R : Bytes) (todo : Nat) (got : Bytes),
    FeedInv L fd blks R → fd.salvage = false → L.total < fd.numBlocks → R.length < todo →
    2 * blks.length + (if fd.buf = [] then 1 else 2) ≤ fuel →
    ∃ fd', feederRead files fuel fd todo got = .ok (none, fd') ∧ fd'.readError = e := by
  intro fuel
  induction fuel with
  | zero => intro fd blks R todo got _ _ _ _ hf; split at hf <;> omega
  | succ fuel ih =>
    intro fd blks R todo got inv hsal htot htodo hf
    rw [feederRead.eq_2]
    have h0 : todo ≠ 0 := by omega
    rw [if_neg h0]
    by_cases hb : fd.buf = []
    · rw [if_neg (by simp [hb])]
      obtain ⟨pos, hrd, hdrop⟩ := inv.rd
      obtain ⟨part, more, hparts, hres⟩ := inv.parts
      have hcount := inv.count
      cases blks with
      | nil =>
        -- the run is used up: the next block is the refused one
        have hlt : ¬(fd.block ≥ fd.numBlocks) := by simp only [List.length_nil] at hcount; omega
        simp only [hlt, ↓reduceIte]
        have hd0 : L.file.drop pos = L.tail := by simpa using hdrop
        obtain ⟨rd', parts', hr⟩ := hbad pos (more.length + 1) part more hres hd0
        rw [hrd, hparts, List.length_cons, hsal]
        have h01 : ((0 : Nat) == 1) = false := rfl
        simp only [inv.comp, Bool.false_or, Bool.and_false, h01]
        rw [hr]
        exact ⟨_, rfl, rfl⟩
      | cons b bs =>
        have hbwf := inv.wf b (List.mem_cons_self ..)
        have hlt : ¬(fd.block ≥ fd.numBlocks) := by simp only [List.length_cons] at hcount; omega
        simp only [hlt, ↓reduceIte]
        generalize hbytes : L.file = bytes at hrd hdrop
        generalize hrest : L.tail = rest at hdrop
        have hdrop1 : bytes.drop pos = encData b ++ (bs.flatMap encData ++ rest) := by
          rw [hdrop]; simp [List.append_assoc]
        rw [hrd, hparts, List.length_cons,
          readBlock_stored files _ _ _ bytes pos part more b hbwf _ hres hdrop1]
        simp only [inv.comp, Nat.reduceEqDiff, ↓reduceIte, and_false]
        have hdrop2 : bytes.drop (pos + 8 + b.payload.length) = bs.flatMap encData ++ rest := by
          have := drop_after bytes pos (encData b) _ hdrop1
          rw [encData_length, ← Nat.add_assoc] at this; exact this
        have hne : b.payload ≠ [] := by
          intro hnil; have := hbwf.1; rw [hnil] at this; simp at this
        let fd1 : Feeder := { fd with block := fd.block + 1, readError := .ok, rd := some ⟨bytes, pos + 8 + b.payload.length⟩,
                                      parts := part :: more, outlen := fd.outlen + b.payload.length, buf := b.payload }
        have inv1 : FeedInv L fd1 bs R := by
          refine ⟨⟨_, by rw [hbytes], by rw [hbytes, hrest]; exact hdrop2⟩, ⟨part, more, rfl, hres⟩, ?_, inv.comp, fun x hx => inv.wf x (List.mem_cons_of_mem _ hx), ?_⟩
          · simp only [fd1, List.length_cons] at hcount ⊢; omega
          · rw [inv.rest, hb]; simp [plainOf, fd1]
        have hf1 : 2 * bs.length + (if fd1.buf = [] then 1 else 2) ≤ fuel := by
          simp only [fd1, hne, ↓reduceIte]; simp only [List.length_cons, hb, ↓reduceIte] at hf; omega
        exact ih fd1 bs R todo got inv1 hsal htot htodo hf1
    · rw [if_pos (by simpa using hb)]
      let fd1 : Feeder := { fd with buf := fd.buf.drop todo }
      have hR : R = fd.buf ++ plainOf blks := inv.rest
      have hlen : fd.buf.length ≤ todo := by rw [hR, List.length_append] at htodo; omega
      have hb1 : fd1.buf = [] := List.drop_eq_nil_iff.mpr hlen
      have inv1 : FeedInv L fd1 blks (plainOf blks) := ⟨inv.rd, inv.parts, inv.count, inv.comp, inv.wf, by rw [hb1]; rfl⟩
      have htk : (fd.buf.take todo).length = fd.buf.length := by rw [List.length_take]; omega
      have htodo1 : (plainOf blks).length < todo - (fd.buf.take todo).length := by
        rw [htk]; rw [hR, List.length_append] at htodo; omega
      have hf1 : 2 * blks.length + (if fd1.buf = [] then 1 else 2) ≤ fuel := by
        rw [if_pos hb1]; simp only [hb, ↓reduceIte] at hf; omega
      exact ih fd1 blks _ _ _ inv1 hsal htot htodo1 hf1

/-- `noned_decompress` asked for more than the run holds: status READ, the feeder holding the block reader's error -/
theorem noned_bad (files : Files) (L : Lay) (e : Err) (hbad : BadTail files L e) (bs : Nat) (hbs : 0 < bs) :
    ∀ (fuel : Nat) (fd : Feeder) (blks : List DataBlk) (R : Bytes) (bytes : Nat) (w : Bytes),
    FeedInv L fd blks R → fd.salvage = false → L.total < fd.numBlocks → R.length < bytes → bytes / bs + 2 ≤ fuel →
    ∃ w' fd', nonedDecompress files bs fuel fd bytes w = .ok ⟨.read, w', .none bs .read, fd'⟩ ∧ fd'.readError = e := by
  intro fuel
  induction fuel with
  | zero => intro fd blks R bytes w _ _ _ _ hf; have := Nat.zero_le (bytes / bs); omega
  | succ fuel ih =>
    intro fd blks R bytes w inv hsal htot hb hf
    rw [nonedDecompress.eq_2]
    have h0 : bytes ≠ 0 := by omega
    rw [if_neg h0]
    simp only
    generalize hrun : (if bytes > bs then bs else bytes) = run
    have hrl : run ≤ bytes := by rw [← hrun]; split <;> omega
    have hr0 : 0 < run := by rw [← hrun]; split <;> omega
    by_cases hfit : run ≤ R.length
    · -- this chunk is still there
      obtain ⟨fd1, blks1, e1, inv1, hn1, hs1, _⟩ := feederRead_stored files L (feederFuel fd) fd blks R run [] inv hfit
        (Or.inr (feederFuel_enough L fd blks R inv))
      rw [e1]
      simp only [List.nil_append]
      have hlen : (R.take run).length = run := by rw [List.length_take]; omega
      rw [if_neg (by rw [hlen]; simp)]
      have hgt : bytes > bs := by
        apply Nat.lt_of_not_le; intro hc
        have : run = bytes := by rw [← hrun, if_neg (by omega)]
        omega
      have hrbs : run = bs := by rw [← hrun, if_pos hgt]
      have hf1 : (bytes - run) / bs + 2 ≤ fuel := by
        rw [hrbs]; have := Nat.div_eq_sub_div hbs (Nat.le_of_lt hgt); omega
      exact ih fd1 blks1 (R.drop run) (bytes - run) (w ++ R.take run) inv1 (hs1.trans hsal) (by rw [hn1]; exact htot)
        (by rw [List.length_drop]; omega) hf1
    · obtain ⟨fd1, e1, hre⟩ := feederRead_bad files L e hbad (feederFuel fd) fd blks R run [] inv hsal htot (by omega)
        (feederFuel_enough L fd blks R inv)
      rw [e1]
      exact ⟨w, fd1, rfl, hre⟩

/-- one decoder call through `runPhase` that needs more than the run holds: the block reader's error -/
theorem runPhase_bad (files : Files) (L : Lay) (e : Err) (hbad : BadTail files L e) (ds : DState) (bs : Nat) (hbs : 0 < bs)
    (blks : List DataBlk) (R : Bytes) (inv : FeedInv L ds.feeder blks R) (hsal : ds.feeder.salvage = false)
    (htot : L.total < ds.feeder.numBlocks) (n : Nat) (hn : R.length < n) :
    ∃ w ds', runPhase files ds (.none bs .ok) n = .ran e w ds' := by
  obtain ⟨w', fd', h, hre⟩ := noned_bad files L e hbad bs hbs (n / max bs 1 + 2) ds.feeder blks R n [] inv hsal htot hn
    (by rw [Nat.max_eq_left hbs]; exact Nat.le_refl _)
  refine ⟨w', { ds with offset := ds.offset + w'.length, feeder := fd', dec := some (.none bs .read) }, ?_⟩
  unfold runPhase decompress
  simp only [ne_eq, not_true_eq_false, ↓reduceIte, h, Except.map, hre]

end MsPack.Cab
