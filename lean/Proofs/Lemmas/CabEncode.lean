import MsPack.Cab.Headers
import MsPack.Spec.CabEncode
import Proofs.Lemmas.OabBlocks
/-
CAB header round trip, lemmas: the writer's layout (`encodeHeaders`), string reading, the DOS
date/time bit fields, and the folder / file entry loops of `cabd_read_headers` on that layout.
-/
namespace MsPack.Cab
open MsPack
open MsPack.Oab (enc32 read_prefix readExact_prefix drop_after ofNat_toNat_lt)

theorem getD_append_right' (l₁ l₂ : Bytes) (k : Nat) (d : UInt8) : (l₁ ++ l₂).getD (l₁.length + k) d = l₂.getD k d := by
  rw [List.getD_eq_getElem?_getD, List.getD_eq_getElem?_getD, List.getElem?_append_right (by omega)]
  congr 2; omega

theorem u16_enc16 (n : Nat) (h : n < 65536) (pre post : Bytes) :
    u16At (pre ++ enc16 n ++ post) pre.length = n := by
  simp only [u16At, byteAt, le16, enc16, List.append_assoc, List.cons_append, List.nil_append]
  have h0 := getD_append_right' pre (UInt8.ofNat (n % 256) :: UInt8.ofNat (n / 256 % 256) :: post) 0 0
  rw [Nat.add_zero] at h0
  rw [h0, getD_append_right']
  simp only [List.getD_cons_zero, List.getD_cons_succ]
  rw [ofNat_toNat_lt _ (Nat.mod_lt _ (by decide)), ofNat_toNat_lt _ (Nat.mod_lt _ (by decide))]
  omega

theorem u32_enc32 (n : Nat) (h : n < 4294967296) (pre post : Bytes) :
    u32At (pre ++ enc32 n ++ post) pre.length = n := by
  simp only [u32At, byteAt, le32, enc32, List.append_assoc, List.cons_append, List.nil_append]
  have h0 := getD_append_right' pre (UInt8.ofNat (n % 256) :: UInt8.ofNat (n / 256 % 256) :: UInt8.ofNat (n / 65536 % 256) :: UInt8.ofNat (n / 16777216 % 256) :: post) 0 0
  rw [Nat.add_zero] at h0
  rw [h0, getD_append_right', getD_append_right', getD_append_right']
  simp only [List.getD_cons_zero, List.getD_cons_succ]
  rw [ofNat_toNat_lt _ (Nat.mod_lt _ (by decide)), ofNat_toNat_lt _ (Nat.mod_lt _ (by decide)),
      ofNat_toNat_lt _ (Nat.mod_lt _ (by decide)), ofNat_toNat_lt _ (Nat.mod_lt _ (by decide))]
  omega

/-! ## strings -/

theorem idxOf_zero (a : Bytes) (h0 : ∀ b ∈ a, b ≠ 0) (tail : Bytes) :
    (a ++ 0 :: tail).idxOf? (0 : UInt8) = some a.length := by
  induction a with
  | nil => simp [List.idxOf?_cons]
  | cons x xs ih =>
    have hx : x ≠ 0 := h0 x (List.mem_cons_self ..)
    have := ih (fun b hb => h0 b (List.mem_cons_of_mem _ hb))
    simp only [List.cons_append, List.idxOf?_cons, beq_iff_eq, hx, ↓reduceIte, this, Option.map_some, List.length_cons]

/-- `cabd_read_string` on a NUL-terminated name of 1..255 bytes without NUL: the name, and the
    handle just after the terminator -/
theorem readString_spec (file : Bytes) (pos : Nat) (name rest : Bytes) (h0 : ∀ b ∈ name, b ≠ 0)
    (hl : name.length ≤ 255) (hne : name ≠ []) (hd : file.drop pos = name ++ 0 :: rest) (pe : Bool) :
    readString ⟨file, pos⟩ pe = .ok (name, ⟨file, pos + name.length + 1⟩) := by
  unfold readString
  simp only [Rd.read, hd, Rd.seekStart]
  have htake : (name ++ 0 :: rest).take 256 = name ++ 0 :: rest.take (255 - name.length) := by
    rw [List.take_append, List.take_of_length_le (by omega)]
    congr 1
    have : 256 - name.length = (255 - name.length) + 1 := by omega
    rw [this, List.take_succ_cons]
  rw [htake]
  have hlen : (name ++ 0 :: rest.take (255 - name.length)).length ≠ 0 := by simp
  rw [if_neg hlen, idxOf_zero name h0]
  have hnl : name.length ≠ 0 := fun h => hne (List.length_eq_zero_iff.mp h)
  simp only [hnl, false_and, ↓reduceIte, List.take_left']

/-! ## DOS date and time words -/

theorem and31 (x : Nat) : x &&& 0x1F = x % 32 := by
  have := Nat.and_two_pow_sub_one_eq_mod x 5
  simpa using this
theorem and15 (x : Nat) : x &&& 0xF = x % 16 := by
  have := Nat.and_two_pow_sub_one_eq_mod x 4
  simpa using this
theorem and63 (x : Nat) : x &&& 0x3F = x % 64 := by
  have := Nat.and_two_pow_sub_one_eq_mod x 6
  simpa using this
theorem shr5 (x : Nat) : x >>> 5 = x / 32 := by
  have := Nat.shiftRight_eq_div_pow x 5
  simpa using this
theorem shr9 (x : Nat) : x >>> 9 = x / 512 := by
  have := Nat.shiftRight_eq_div_pow x 9
  simpa using this
theorem shr11 (x : Nat) : x >>> 11 = x / 2048 := by
  have := Nat.shiftRight_eq_div_pow x 11
  simpa using this

theorem date_fields (y m d : Nat) (hy1 : 1980 ≤ y) (hy2 : y < 2108) (hm : m < 16) (hd : d < 32) :
    encDate y m d < 65536 ∧ (encDate y m d) &&& 0x1F = d ∧ ((encDate y m d) >>> 5) &&& 0xF = m ∧
    ((encDate y m d) >>> 9) + 1980 = y := by
  refine ⟨?_, ?_, ?_, ?_⟩
  · unfold encDate; omega
  · rw [and31]; unfold encDate; omega
  · rw [and15, shr5]; unfold encDate; omega
  · rw [shr9]; unfold encDate; omega

/-- `(x << 1) & 0x3E`: the low six bits of `2x` (bit 0 is clear anyway) -/
theorem shl1_and3E (x : Nat) : (x <<< 1) &&& 0x3E = (x * 2) % 64 := by
  apply Nat.eq_of_testBit_eq
  intro i
  have e64 : (64 : Nat) = 2 ^ 6 := rfl
  have e3 : (0x3E : Nat) = 2 * (2 ^ 5 - 1) := rfl
  rw [Nat.testBit_and, e64, Nat.testBit_mod_two_pow, Nat.shiftLeft_eq, Nat.pow_one]
  cases i with
  | zero => simp [Nat.testBit_zero, Nat.mul_mod_left]
  | succ i =>
    rw [e3, Nat.mul_comm x 2, Nat.testBit_succ, Nat.testBit_succ, Nat.mul_div_cancel_left _ (by decide : 0 < 2),
      Nat.mul_div_cancel_left _ (by decide : 0 < 2), Nat.testBit_two_pow_sub_one]
    by_cases hi : i < 5 <;> simp [hi] <;> omega

theorem time_fields (h m s : Nat) (hh : h < 32) (hm : m < 64) (hs : s < 64) (hev : s % 2 = 0) :
    encTime h m s < 65536 ∧ (encTime h m s) >>> 11 = h ∧ ((encTime h m s) >>> 5) &&& 0x3F = m ∧
    ((encTime h m s) <<< 1) &&& 0x3E = s := by
  refine ⟨?_, ?_, ?_, ?_⟩
  · unfold encTime; omega
  · rw [shr11]; unfold encTime; omega
  · rw [and63, shr5]; unfold encTime; omega
  · rw [shl1_and3E]; unfold encTime; omega

/-! ## folder entries -/

theorem folder_fields (f : FolderSpec) (h : f.wf) :
    (encFolder f).length = 8 ∧ u32At (encFolder f) 0 = f.dataOff ∧ u16At (encFolder f) 4 = f.numBlocks ∧
    u16At (encFolder f) 6 = f.compType := by
  obtain ⟨h1, h2, h3⟩ := h
  refine ⟨rfl, ?_, ?_, ?_⟩
  · have := u32_enc32 f.dataOff h1 [] (enc16 f.numBlocks ++ enc16 f.compType)
    simpa [encFolder, List.append_assoc] using this
  · have := u16_enc16 f.numBlocks h2 (enc32 f.dataOff) (enc16 f.compType)
    simpa [encFolder, enc32] using this
  · have := u16_enc16 f.compType h3 (enc32 f.dataOff ++ enc16 f.numBlocks) []
    simpa [encFolder, enc32, enc16] using this

theorem readFolders_spec (base : Nat) (file : Bytes) : ∀ (fs : List FolderSpec) (pos : Nat) (acc : List CFolder) (rest : Bytes),
    (∀ f ∈ fs, f.wf) → file.drop pos = fs.flatMap encFolder ++ rest →
    readFolders base 0 fs.length ⟨file, pos⟩ acc =
      .ok (acc.reverse ++ fs.map (FolderSpec.listed base), ⟨file, pos + 8 * fs.length⟩)
  | [], pos, acc, rest, _, _ => by simp [readFolders]
  | f :: fs, pos, acc, rest, hwf, hd => by
    obtain ⟨hl, f0, f4, f6⟩ := folder_fields f (hwf f (List.mem_cons_self ..))
    have hd1 : file.drop pos = encFolder f ++ (fs.flatMap encFolder ++ rest) := by
      rw [hd]; simp [List.append_assoc]
    have hre := readExact_prefix file pos _ _ hd1
    rw [hl] at hre
    have hd2 := drop_after file pos _ _ hd1
    rw [hl] at hd2
    have ih := readFolders_spec base file fs (pos + 8) (FolderSpec.listed base f :: acc) rest
      (fun g hg => hwf g (List.mem_cons_of_mem _ hg)) hd2
    rw [List.length_cons, readFolders, hre]
    generalize encFolder f = buf at f0 f4 f6
    simp only [ne_eq, not_true_eq_false, ↓reduceIte, f0, f4, f6]
    rw [show ({ compType := f.compType, numBlocks := f.numBlocks, dataOffset := base + f.dataOff } : CFolder) = FolderSpec.listed base f from rfl, ih]
    simp only [List.reverse_cons, List.append_assoc, List.cons_append, List.nil_append, List.map_cons, List.length_cons]
    congr 3; omega

/-! ## file entries -/

theorem file_fields (f : FileSpec) (n : Nat) (h : f.wf n) :
    (encFileFixed f).length = 16 ∧ u32At (encFileFixed f) 0 = f.length ∧ u32At (encFileFixed f) 4 = f.offset ∧
    u16At (encFileFixed f) 8 = f.folder ∧ u16At (encFileFixed f) 10 = encDate f.year f.month f.day ∧
    u16At (encFileFixed f) 12 = encTime f.hour f.minute f.second ∧ u16At (encFileFixed f) 14 = f.attribs := by
  obtain ⟨_, _, _, h1, h2, _, h3, h4, y1, y2, mo, d, hh, mi, s, ev⟩ := h
  have hdate := (date_fields f.year f.month f.day y1 y2 mo d).1
  have htime := (time_fields f.hour f.minute f.second hh mi s ev).1
  refine ⟨rfl, ?_, ?_, ?_, ?_, ?_, ?_⟩
  · have := u32_enc32 f.length h1 [] (enc32 f.offset ++ enc16 f.folder ++ enc16 (encDate f.year f.month f.day) ++ enc16 (encTime f.hour f.minute f.second) ++ enc16 f.attribs)
    simpa [encFileFixed, List.append_assoc] using this
  · have := u32_enc32 f.offset h2 (enc32 f.length) (enc16 f.folder ++ enc16 (encDate f.year f.month f.day) ++ enc16 (encTime f.hour f.minute f.second) ++ enc16 f.attribs)
    simpa [encFileFixed, List.append_assoc, enc32] using this
  · have := u16_enc16 f.folder (by omega) (enc32 f.length ++ enc32 f.offset) (enc16 (encDate f.year f.month f.day) ++ enc16 (encTime f.hour f.minute f.second) ++ enc16 f.attribs)
    simpa [encFileFixed, List.append_assoc, enc32] using this
  · have := u16_enc16 (encDate f.year f.month f.day) hdate (enc32 f.length ++ enc32 f.offset ++ enc16 f.folder) (enc16 (encTime f.hour f.minute f.second) ++ enc16 f.attribs)
    simpa [encFileFixed, List.append_assoc, enc32, enc16] using this
  · have := u16_enc16 (encTime f.hour f.minute f.second) htime (enc32 f.length ++ enc32 f.offset ++ enc16 f.folder ++ enc16 (encDate f.year f.month f.day)) (enc16 f.attribs)
    simpa [encFileFixed, List.append_assoc, enc32, enc16] using this
  · have := u16_enc16 f.attribs h4 (enc32 f.length ++ enc32 f.offset ++ enc16 f.folder ++ enc16 (encDate f.year f.month f.day) ++ enc16 (encTime f.hour f.minute f.second)) []
    simpa [encFileFixed, List.append_assoc, enc32, enc16] using this

theorem encFile_length (f : FileSpec) : (encFile f).length = 17 + f.name.length := by
  simp [encFile, encFileFixed, enc32, enc16]; omega

theorem readFiles_spec (nfolders : Nat) (salvage : Bool) (file : Bytes) :
    ∀ (fs : List FileSpec) (pos : Nat) (acc : List CFile) (rest : Bytes),
    (∀ f ∈ fs, f.wf nfolders) → file.drop pos = fs.flatMap encFile ++ rest →
    ∃ r, readFiles nfolders salvage fs.length ⟨file, pos⟩ acc = .ok (acc.reverse ++ fs.map FileSpec.listed, r)
  | [], pos, acc, rest, _, _ => ⟨⟨file, pos⟩, by simp [readFiles]⟩
  | f :: fs, pos, acc, rest, hwf, hd => by
    have hw := hwf f (List.mem_cons_self ..)
    obtain ⟨hl, f0, f4, f8, f10, f12, f14⟩ := file_fields f nfolders hw
    obtain ⟨n0, nne, nl, _, _, hfo, hfo2, _, y1, y2, mo, d, hh, mi, sc, ev⟩ := hw
    obtain ⟨_, dd, dm, dy⟩ := date_fields f.year f.month f.day y1 y2 mo d
    obtain ⟨_, th, tm, ts⟩ := time_fields f.hour f.minute f.second hh mi sc ev
    have hd1 : file.drop pos = encFileFixed f ++ (f.name ++ 0 :: (fs.flatMap encFile ++ rest)) := by
      rw [hd]; simp [encFile, List.append_assoc]
    have hre := readExact_prefix file pos _ _ hd1
    rw [hl] at hre
    have hd2 := drop_after file pos _ _ hd1
    rw [hl] at hd2
    have hstr := readString_spec file (pos + 16) f.name _ n0 nl nne hd2 false
    have hd3 : file.drop (pos + 16 + f.name.length + 1) = fs.flatMap encFile ++ rest := by
      have := drop_after file (pos + 16) (f.name ++ [0]) (fs.flatMap encFile ++ rest) (by rw [hd2]; simp)
      simpa [Nat.add_assoc] using this
    obtain ⟨r, ih⟩ := readFiles_spec nfolders salvage file fs (pos + 16 + f.name.length + 1) (FileSpec.listed f :: acc) rest
      (fun g hg => hwf g (List.mem_cons_of_mem _ hg)) hd3
    refine ⟨r, ?_⟩
    rw [List.length_cons, readFiles, hre]
    generalize encFileFixed f = buf at f0 f4 f8 f10 f12 f14
    have hres : resolveFolder f.folder nfolders = some f.folder := by
      simp only [resolveFolder, cffileCONTINUED_FROM_PREV, hfo2, hfo, ↓reduceIte]
    simp only [f0, f4, f8, f10, f12, f14, hres, hstr, dd, dm, dy, th, tm, ts]
    rw [show ({ name := f.name, length := f.length, attribs := f.attribs, offset := f.offset, folder := f.folder, fidx := f.folder,
                time_h := f.hour, time_m := f.minute, time_s := f.second, date_d := f.day, date_m := f.month, date_y := f.year } : CFile)
          = FileSpec.listed f from rfl, ih]
    simp only [List.reverse_cons, List.append_assoc, List.cons_append, List.nil_append, List.map_cons]

end MsPack.Cab
