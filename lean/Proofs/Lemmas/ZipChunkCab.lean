import Proofs.Props.C08Mszip
import Proofs.Lemmas.LoopTermZip
/-!
# From the chunking law to `Cab.extract` (lemmas for C08MszipCab)

* `ZipChunkCab.reach_advance`: a decoder state that the fresh state reaches by one OK call for a prefix `[0, off)` of a
  range `[0, N)` it can deliver in one OK call, delivers `[off, off + k)` with OK and then *is* the state the fresh
  one reaches by one OK call for `[0, off + k)` (same fuel throughout; `C08_mszip_chunk_split` twice).
* `ZipChunkCab.transfer`: a result obtained with one fuel is the result with any other fuel that does not run out
  (`C08_mszip_fuel_mono` both ways).
* `Cab.ZipChunkCab.decompress_mszip`: `Cab.decompress` on an MSZIP decoder in terms of `Zip.decompress`.
-/
namespace MsPack.Zip.ZipChunkCab
open MsPack MsPack.Generated MsPack.Zip

variable {σ : Type} (S : Src σ)

theorem reach_zero (fuel N : Nat) (Z0 ZN : St σ) (D : Bytes)
    (hfresh : decompress S fuel Z0 N = .ok ⟨.ok, D, ZN⟩) :
    decompress S fuel Z0 0 = .ok ⟨.ok, D.take 0, Z0⟩ := by
  have he := ZipChunk.decompressN_err_ok S fuel fuel Z0 N D ZN hfresh
  rw [ZipChunk.decompress_eq, ZipChunk.pend_exact S fuel fuel Z0 he 0 (Nat.zero_le _)]
  rfl

theorem reach_advance (fuel N : Nat) (Z0 ZN : St σ) (D : Bytes) (hst : ZipInv Z0)
    (hfresh : decompress S fuel Z0 N = .ok ⟨.ok, D, ZN⟩)
    (off k : Nat) (hk : off + k ≤ N) (Z : St σ)
    (hreach : decompress S fuel Z0 off = .ok ⟨.ok, D.take off, Z⟩) :
    ∃ Z1, decompress S fuel Z k = .ok ⟨.ok, (D.drop off).take k, Z1⟩ ∧
      decompress S fuel Z0 (off + k) = .ok ⟨.ok, D.take (off + k), Z1⟩ ∧
      ((D.drop off).take k).length = k := by
  have e : N = (off + k) + (N - (off + k)) := by omega
  rw [e] at hfresh
  obtain ⟨Z1, k1, _, _, hlen⟩ := C08_mszip_chunk_split S fuel Z0 hst (off + k) _ D ZN hfresh
  obtain ⟨Z', j1, _, j2, _⟩ := C08_mszip_chunk_split S fuel Z0 hst off k _ Z1 k1
  rw [hreach] at j1
  simp only [Except.ok.injEq, Out.mk.injEq, true_and] at j1
  obtain ⟨_, rfl⟩ := j1
  refine ⟨Z1, ?_, k1, ?_⟩
  · rw [List.drop_take] at j2
    have : off + k - off = k := by omega
    rw [this] at j2
    exact j2
  · rw [List.length_take, List.length_drop]; omega

theorem transfer (f0 f1 : Nat) (Z : St σ) (k : Nat) (o : Out σ)
    (h0 : decompress S f0 Z k = .ok o) (h1 : decompress S f1 Z k ≠ .error .hang) :
    decompress S f1 Z k = .ok o := by
  rcases Nat.le_total f0 f1 with h | h
  · obtain ⟨d, rfl⟩ := Nat.exists_eq_add_of_le h
    rw [C08_mszip_fuel_mono S f0 d Z k (by rw [h0]; exact fun hc => nomatch hc), h0]
  · obtain ⟨d, rfl⟩ := Nat.exists_eq_add_of_le h
    rw [← C08_mszip_fuel_mono S f1 d Z k h1, h0]

end MsPack.Zip.ZipChunkCab

namespace MsPack.Cab.ZipChunkCab
open MsPack MsPack.Generated MsPack.Cab

/-- `Cab.decompress` on an MSZIP decoder: `Zip.decompress` over the feeder with the fuel `chainFuel files fd` -/
theorem decompress_mszip (files : Files) (st : Zip.St Feeder) (fd : Feeder) (n : Nat) :
    decompress files (.mszip st) fd n =
      match Zip.decompress (feederSrc files) (chainFuel files fd) { st with src := fd } n with
      | .error f => .error f
      | .ok o => .ok (some ⟨o.err, o.written, .mszip o.st, o.st.src⟩) := rfl

theorem decompress_mszip_ok (files : Files) (st : Zip.St Feeder) (fd : Feeder) (n : Nat) (o : Zip.Out Feeder)
    (h : Zip.decompress (feederSrc files) (chainFuel files fd) { st with src := fd } n = .ok o) :
    decompress files (.mszip st) fd n = .ok (some ⟨o.err, o.written, .mszip o.st, o.st.src⟩) := by
  rw [decompress_mszip, h]

/-- a Cab-level OK result read back as the `Zip.decompress` result -/
theorem decompress_mszip_inv (files : Files) (st : Zip.St Feeder) (fd : Feeder) (n : Nat) (o : DecOut)
    (h : decompress files (.mszip st) fd n = .ok (some o)) :
    ∃ Z, Zip.decompress (feederSrc files) (chainFuel files fd) { st with src := fd } n = .ok ⟨o.err, o.written, Z⟩ ∧
      o.dec = .mszip Z ∧ o.feeder = Z.src := by
  rw [decompress_mszip] at h
  cases z : Zip.decompress (feederSrc files) (chainFuel files fd) { st with src := fd } n with
  | error f => rw [z] at h; cases h
  | ok o' =>
    rw [z] at h
    simp only [Except.ok.injEq, Option.some.injEq] at h
    subst h
    exact ⟨o'.st, rfl, rfl, rfl⟩

end MsPack.Cab.ZipChunkCab

/-! ## an OK call does not increase the bits still obtainable -/
namespace MsPack.Zip.ZipChunkCab
open MsPack MsPack.Generated MsPack.Zip MsPack.Zip.ZipChunk

variable {σ : Type} {S : Src σ} {rem : σ → Nat}

/-- a delivered frame leaves no more obtainable bits than there were -/
theorem frameStep_bits (hS : SrcOK S rem) (fuel : Nat) (st st' : St σ) (hf : bitsLeft rem st + 1 ≤ fuel)
    (h : frameStep S fuel st = .ok (.frame none st')) : bitsLeft rem st' ≤ bitsLeft rem st := by
  unfold frameStep at h
  dsimp only at h
  have h0 : Used rem st 0 { st with bits := st.bits.drop (st.bits.length % 8) } :=
    Used.drop (st.bits.length % 8) (Used.refl (rem := rem) st)
  have hs := scanCK_tri hS fuel 0 { st with bits := st.bits.drop (st.bits.length % 8) }
    (by unfold Used at h0; omega)
  unfold Tri at hs
  cases hr : (scanCK S fuel 0).run.run { st with bits := st.bits.drop (st.bits.length % 8) } with
  | mk r s =>
    rw [hr] at h hs
    cases r with
    | error e => cases e <;> simp at h
    | ok a =>
      cases a
      dsimp only at h hs
      have h01 := h0.trans hs
      have hb : bitsLeft rem { s with windowPosn := 0, bytesOutput := 0 } = bitsLeft rem s := rfl
      have hr2 := runInflate_spec hS fuel { s with windowPosn := 0, bytesOutput := 0 } zipFRAME_SIZE_pos
        (by rw [hb]; unfold Used at h01; omega)
      cases hri : runInflate S fuel { s with windowPosn := 0, bytesOutput := 0 } with
      | error f => rw [hri] at h; cases h
      | ok pr =>
        obtain ⟨res, s2⟩ := pr
        rw [hri] at h hr2
        dsimp only at h
        have hle : res ≠ .sys .ok → (∀ e, res ≠ .sys e) → bitsLeft rem s2 ≤ bitsLeft rem st := by
          intro _ hns
          cases res with
          | sys e => exact absurd rfl (hns e)
          | ok => dsimp only at hr2; rw [hb] at hr2; unfold Used at h01; omega
          | inf => dsimp only at hr2; rw [hb] at hr2; unfold Used at h01; omega
        split at h
        · simp at h
        · cases res with
          | sys e => simp at h
          | ok =>
            simp only [ne_eq, not_true_eq_false, ↓reduceIte, Except.ok.injEq, FrameRes.frame.injEq, true_and] at h
            subst h
            exact hle (fun hc => nomatch hc) (fun e hc => nomatch hc)
          | inf =>
            simp only [ne_eq, reduceCtorEq, not_false_eq_true, ↓reduceIte, Except.ok.injEq, FrameRes.frame.injEq,
              true_and] at h
            subst h
            exact hle (fun hc => nomatch hc) (fun e hc => nomatch hc)

/-- an OK call leaves no more obtainable bits than there were (fuel above them) -/
theorem ok_bits (hS : SrcOK S rem) (fuel : Nat) : ∀ (n : Nat) (Z : St σ) (out : Nat) (w : Bytes) (Z1 : St σ),
    WinOk Z → bitsLeft rem Z + 1 ≤ fuel → decompressN S fuel n Z out = .ok ⟨.ok, w, Z1⟩ →
    bitsLeft rem Z1 ≤ bitsLeft rem Z := by
  intro n
  induction n using Nat.strongRecOn with
  | _ n ih =>
    intro Z out w Z1 hw hf h
    have he := decompressN_err_ok S fuel n Z out w Z1 h
    by_cases ha : out ≤ Z.pending.length
    · rw [pend_exact S fuel n Z he out ha] at h
      simp only [Except.ok.injEq, Out.mk.injEq, true_and] at h
      obtain ⟨_, rfl⟩ := h
      exact Nat.le_refl _
    · have ho : Z.pending.length < out := by omega
      obtain ⟨st', n', w', rfl, hfs, h3, h4, h5, _, h6⟩ := past_ok S fuel n Z out w Z1 hw ho h
      have hb := frameStep_bits hS fuel { Z with pending := [] } st' hf hfs
      have := ih (n' + 1) (by omega) { st' with pending := st'.window.toList.take st'.bytesOutput } _ _ _ h3
        (Nat.le_trans (Nat.add_le_add_right hb 1) hf) h6
      exact Nat.le_trans this hb

theorem decompress_ok_bits (hS : SrcOK S rem) (fuel : Nat) (Z : St σ) (out : Nat) (w : Bytes) (Z1 : St σ)
    (hw : ZipInv Z) (hf : bitsLeft rem Z + 1 ≤ fuel) (h : decompress S fuel Z out = .ok ⟨.ok, w, Z1⟩) :
    bitsLeft rem Z1 ≤ bitsLeft rem Z :=
  ok_bits hS fuel fuel Z out w Z1 hw hf h

end MsPack.Zip.ZipChunkCab
