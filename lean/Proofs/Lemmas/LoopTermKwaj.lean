import Proofs.Lemmas.LoopTerm
import Proofs.Lemmas.LoopTermLzh
import Proofs.Lemmas.LoopTermZip
import MsPack.Driver.Kwaj
/-!
`kwajd_extract` / `kwajd_decompress` (pure model): all five methods together, with the fuel the
driver passes (`16 × file length + 100000`).
-/
namespace MsPack.Kwaj
open MsPack MsPack.Generated

/-- `kwajd_extract` with the driver's fuel never reports `hang`, whatever the method and the data -/
theorem extract_no_hang (fill : UInt8) (h : Handle) :
    extract fill (Driver.Kwaj.fuelFor h.rd.file.length) h ≠ .error .hang := by
  unfold extract
  simp only
  split
  · -- NONE / XOR
    have := copyLoop_no_hang (decide (h.hdr.compType = compXOR)) (Driver.Kwaj.fuelFor h.rd.file.length)
      (h.rd.seekStart h.hdr.dataOffset) #[] (by unfold Driver.Kwaj.fuelFor Rd.left Rd.seekStart; simp only; omega)
    split
    · rename_i f heq
      rw [heq] at this
      simpa using this
    · simp
  · split
    · -- SZDD
      have := Lzss.decompress_no_hang Rd.src Rd.left Rd.src_finite (Driver.Kwaj.fuelFor h.rd.file.length)
        (h.rd.seekStart h.hdr.dataOffset) kwajINPUT_SIZE lzssMODE_QBASIC
        (by unfold Driver.Kwaj.fuelFor Rd.left Rd.seekStart; simp only; omega)
      split
      · rename_i f heq
        rw [heq] at this
        simpa using this
      · simp
    · split
      · -- LZH
        have := Lzh.C04_lzh_extract_fuel_no_hang h.rd h.hdr.dataOffset fill
        split
        · rename_i f heq
          unfold Driver.Kwaj.fuelFor at heq
          rw [heq] at this
          simpa using this
        · simp
      · split
        · -- MSZIP
          split
          · simp
          · rename_i z hz
            have := Zip.C04_zip_decompressKwaj_driver_no_hang (h.rd.seekStart h.hdr.dataOffset) fill z hz
            split
            · rename_i f heq
              have hfile : (h.rd.seekStart h.hdr.dataOffset).file.length = h.rd.file.length := rfl
              rw [hfile, heq] at this
              simpa using this
            · simp
        · simp

/-- `kwajd_decompress` with the driver's fuel -/
theorem decompress_no_hang (fill : UInt8) (err : Err) (file : Option Bytes) :
    decompress fill (Driver.Kwaj.fuelFor (file.getD []).length) err file ≠ .error .hang := by
  unfold decompress
  have ho := open_good fill err file
  generalize open_ fill err file = p at ho
  match p with
  | .error f => simpa using ho
  | .ok (none, e) => simp
  | .ok (some h, e) =>
    simp only at ho ⊢
    have := extract_no_hang fill h
    rw [ho] at this
    split
    · rename_i f heq
      rw [heq] at this
      simpa using this
    · simp

end MsPack.Kwaj
