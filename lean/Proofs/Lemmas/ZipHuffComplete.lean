import MsPack.Huff
/-!
# The 7-bit code-length table of `zip_read_lens` is complete

`Huff.build 7 lens` accepts only length vectors whose Kraft sum over lengths 1..7 is exactly 1
(when no length exceeds 7, which holds for the 3-bit fields of the code-length code).  For such
a vector every 7-bit word decodes: `bl_table[PEEK_BITS(7)]` never meets an entry that
`make_decode_table` did not write.
-/
namespace MsPack.Huff

/-- Kraft sum over lengths 1..7 in terms of how often each length occurs -/
theorem kraft7_acc (lens : List Nat) : ∀ acc,
    lens.foldl (fun acc l => if 1 ≤ l ∧ l ≤ 7 then acc + 2 ^ (16 - l) else acc) acc =
      acc + 32768 * lens.count 1 + 16384 * lens.count 2 + 8192 * lens.count 3 + 4096 * lens.count 4
        + 2048 * lens.count 5 + 1024 * lens.count 6 + 512 * lens.count 7 := by
  induction lens with
  | nil => intro acc; simp
  | cons l rest ih =>
    intro acc
    rw [List.foldl_cons, ih]
    simp only [List.count_cons]
    by_cases h : 1 ≤ l ∧ l ≤ 7
    · have : l = 1 ∨ l = 2 ∨ l = 3 ∨ l = 4 ∨ l = 5 ∨ l = 6 ∨ l = 7 := by omega
      rcases this with rfl | rfl | rfl | rfl | rfl | rfl | rfl <;> simp <;> omega
    · rw [if_neg h]
      have h1 : (l == 1) = false := by simp; omega
      have h2 : (l == 2) = false := by simp; omega
      have h3 : (l == 3) = false := by simp; omega
      have h4 : (l == 4) = false := by simp; omega
      have h5 : (l == 5) = false := by simp; omega
      have h6 : (l == 6) = false := by simp; omega
      have h7 : (l == 7) = false := by simp; omega
      simp [h1, h2, h3, h4, h5, h6, h7]

end MsPack.Huff

namespace MsPack.Huff

theorem range_map_getD (l : List Nat) : (List.range l.length).map (fun i => l.getD i 0) = l := by
  apply List.ext_getElem
  · simp
  · intro i h1 h2
    simp at h1
    simp [h1]

theorem symsOfLen_size (lens : List Nat) (l : Nat) : (symsOfLen lens l).size = lens.count l := by
  unfold symsOfLen
  rw [List.size_toArray]
  conv => rhs; rw [← range_map_getD lens]
  rw [List.count_eq_countP, List.countP_map, List.countP_eq_length_filter]
  congr 1

theorem mkCanon7 (lens : List Nat) :
    let c1 := (symsOfLen lens 1).size
    let c2 := (symsOfLen lens 2).size
    let c3 := (symsOfLen lens 3).size
    let c4 := (symsOfLen lens 4).size
    let c5 := (symsOfLen lens 5).size
    let c6 := (symsOfLen lens 6).size
    let f2 := (0 + c1) * 2
    let f3 := (f2 + c2) * 2
    let f4 := (f3 + c3) * 2
    let f5 := (f4 + c4) * 2
    let f6 := (f5 + c5) * 2
    let f7 := (f6 + c6) * 2
    mkCanon lens 7 = { first := #[0, f2, f3, f4, f5, f6, f7],
                       syms := #[symsOfLen lens 1, symsOfLen lens 2, symsOfLen lens 3, symsOfLen lens 4,
                                 symsOfLen lens 5, symsOfLen lens 6, symsOfLen lens 7],
                       maxLen := 7 } := by
  intro c1 c2 c3 c4 c5 c6 f2 f3 f4 f5 f6 f7
  simp [mkCanon, mkCanon.go, c1, c2, c3, c4, c5, c6, f2, f3, f4, f5, f6, f7]

end MsPack.Huff

namespace MsPack.Huff

theorem decode7_complete (lens : List Nat) (hk : kraft lens 7 = 65536) (b1 b2 b3 b4 b5 b6 b7 : Bool) (rest : List Bool) :
    decode (mkCanon lens 7) (b1 :: b2 :: b3 :: b4 :: b5 :: b6 :: b7 :: rest) ≠ none := by
  have hk' := kraft7_acc lens 0
  unfold kraft at hk
  rw [hk] at hk'
  simp only [← symsOfLen_size] at hk'
  rw [mkCanon7]
  simp only [decode, decode.go]
  generalize (symsOfLen lens 1) = s1 at *
  generalize (symsOfLen lens 2) = s2 at *
  generalize (symsOfLen lens 3) = s3 at *
  generalize (symsOfLen lens 4) = s4 at *
  generalize (symsOfLen lens 5) = s5 at *
  generalize (symsOfLen lens 6) = s6 at *
  generalize (symsOfLen lens 7) = s7 at *
  have hb : ∀ b : Bool, (if b = true then 1 else 0 : Nat) ≤ 1 := by intro b; cases b <;> simp
  have h1 := hb b1; have h2 := hb b2; have h3 := hb b3; have h4 := hb b4
  have h5 := hb b5; have h6 := hb b6; have h7 := hb b7
  generalize (if b1 = true then 1 else 0 : Nat) = x1 at *
  generalize (if b2 = true then 1 else 0 : Nat) = x2 at *
  generalize (if b3 = true then 1 else 0 : Nat) = x3 at *
  generalize (if b4 = true then 1 else 0 : Nat) = x4 at *
  generalize (if b5 = true then 1 else 0 : Nat) = x5 at *
  generalize (if b6 = true then 1 else 0 : Nat) = x6 at *
  generalize (if b7 = true then 1 else 0 : Nat) = x7 at *
  simp only [Array.getD_eq_getD_getElem?, List.getElem?_toArray, List.getElem?_cons_zero, List.getElem?_cons_succ,
    Nat.sub_self, Option.getD_some, Nat.reduceAdd, Nat.reduceSub]
  generalize s1.size = n1 at *
  generalize s2.size = n2 at *
  generalize s3.size = n3 at *
  generalize s4.size = n4 at *
  generalize s5.size = n5 at *
  generalize s6.size = n6 at *
  generalize s7.size = n7 at *
  split
  · simp
  split
  · simp
  split
  · simp
  split
  · simp
  split
  · simp
  split
  · simp
  split
  · simp
  exfalso
  omega

end MsPack.Huff

namespace MsPack.Huff

theorem kraft_le7 (lens : List Nat) (hle : ∀ l ∈ lens, l ≤ 7) : kraft lens 16 = kraft lens 7 := by
  unfold kraft
  generalize 0 = acc
  induction lens generalizing acc with
  | nil => rfl
  | cons l rest ih =>
    rw [List.foldl_cons, List.foldl_cons]
    have hl : l ≤ 7 := hle l (List.mem_cons_self ..)
    have : (1 ≤ l ∧ l ≤ 16) ↔ (1 ≤ l ∧ l ≤ 7) := by omega
    simp only [this]
    exact ih (fun l h => hle l (List.mem_cons_of_mem _ h)) _

/-- a 7-bit table built from lengths ≤ 7 decodes every 7-bit word (`bl_table` has no unset entry) -/
theorem build7_complete (lens : List Nat) (hle : ∀ l ∈ lens, l ≤ 7) (c : Canon) (h : build 7 lens = some c)
    (bits : List Bool) (hb : 7 ≤ bits.length) : decode c (bits.take 7) ≠ none := by
  unfold build accepts at h
  dsimp only at h
  rw [kraft_le7 lens hle] at h
  split at h
  · rename_i hacc
    simp only [Option.some.injEq] at h
    subst h
    have hk : kraft lens 7 = 65536 := by
      split at hacc
      · cases hacc
      · split at hacc
        · assumption
        · cases hacc
    match bits, hb with
    | b1 :: b2 :: b3 :: b4 :: b5 :: b6 :: b7 :: rest, _ =>
      exact decode7_complete lens hk b1 b2 b3 b4 b5 b6 b7 []
  · rename_i hacc
    exfalso
    split at hacc
    · cases hacc
    · split at hacc
      · cases hacc
      · cases hacc
  · cases h

end MsPack.Huff
