import MsPack.Kwaj.Lzh
import Proofs.Lemmas.FillSim
/-!
# KWAJ LZH: two runs from states that differ only in never-read cells of `inbuf` stay in step

`Sim a b`: every field equal except `inbuf`, whose two versions have the same size and the same
contents below both copies of `i_end` (`saved.iEnd`, `cur.iEnd`) — the only cells `READ_BYTES` can
reach.  Every helper of `Kwaj/Lzh.lean` preserves it and returns equal values.
-/
set_option linter.unusedSimpArgs false
set_option linter.unusedVariables false
namespace MsPack.Kwaj.Lzh
open MsPack MsPack.Generated MsPack.FillSim
variable {σ : Type}

structure Sim (a b : St σ) : Prop where
  eq : b = { a with inbuf := b.inbuf }
  inbufSz : b.inbuf.size = a.inbuf.size
  inbufAg : ∀ i, (i < a.saved.iEnd ∨ i < a.cur.iEnd) → b.inbuf[i]? = a.inbuf[i]?

theorem Sim.split {a b : St σ} (h : Sim a b) : ∃ ib, b = { a with inbuf := ib } := ⟨_, h.eq⟩

/-- exceptions: the same one, thrown in related states -/
def EE : Halt → Halt → St σ → St σ → Prop := fun e1 e2 t1 t2 => e1 = e2 ∧ Sim t1 t2

macro "wsimp" : tactic =>
  `(tactic| simp only [wp2_get_bind, wp2_set_bind, wp2_modify_bind, wp2_modifyGet_bind, wp2_pure_bind,
      wp2_throw_bind, wp2_pure, wp2_throw, wp2_get, wp2_set, wp2_modify, wp2_modifyGet, bind_assoc, pure_bind])

section
variable (S : Src σ)

theorem blit_agree : ∀ (got : Bytes) (k : Nat) (a b : Array UInt8) (P : Nat → Prop),
    a.size = b.size → (∀ i, P i → b[i]? = a[i]?) →
    (blit b k got).size = (blit a k got).size ∧
    ∀ i, (P i ∨ (k ≤ i ∧ i < k + got.length)) → (blit b k got)[i]? = (blit a k got)[i]?
  | [], k, a, b, P, hs, h => by
    simp only [blit, List.length_nil]
    exact ⟨hs.symm, fun i hi => by rcases hi with hi | hi; exact h i hi; omega⟩
  | x :: rest, k, a, b, P, hs, h => by
    simp only [blit, List.length_cons]
    have := blit_agree rest (k + 1) (a.setIfInBounds k x) (b.setIfInBounds k x) (fun i => P i ∨ i = k)
      (by simp [hs]) (by
        intro i hi
        rw [Array.getElem?_setIfInBounds, Array.getElem?_setIfInBounds, hs]
        split
        · rfl
        · rcases hi with hi | hi
          · exact h i hi
          · omega)
    refine ⟨this.1, fun i hi => this.2 i ?_⟩
    rcases hi with hi | hi
    · exact Or.inl (Or.inl hi)
    · by_cases hik : i = k
      · exact Or.inl (Or.inr hik)
      · exact Or.inr (by omega)

theorem readInput_sim {s1 s2 : St σ} (h : Sim s1 s2) :
    wp2 (readInput S) (readInput S) (fun _ _ t1 t2 => Sim t1 t2 ∧ t1.saved.iPtr < t1.saved.iEnd) EE s1 s2 := by
  obtain ⟨ib, rfl⟩ := h.split
  unfold readInput
  wsimp
  have hz : ∀ (src : σ) (ie : Nat) (sv : BitPos), sv.iEnd = 1 →
      Sim { s1 with src := src, inputEnd := ie, inbuf := s1.inbuf.setIfInBounds 0 0, saved := sv }
          { s1 with src := src, inputEnd := ie, inbuf := ib.setIfInBounds 0 0, saved := sv } := by
    intro src ie sv hsv
    refine ⟨rfl, ?_, ?_⟩
    · have := h.inbufSz
      simp only at this
      simp [this]
    · intro i hi
      have hsz := h.inbufSz
      simp only at hsz
      simp only [Array.getElem?_setIfInBounds, hsz]
      split
      · rfl
      · apply h.inbufAg
        simp only [hsv] at hi
        omega
  split
  · wsimp
    exact ⟨hz _ _ _ rfl, by simp⟩
  · split
    · wsimp
      exact ⟨rfl, h⟩
    · wsimp
      exact ⟨rfl, rfl, h.inbufSz, h.inbufAg⟩
    · wsimp
      exact ⟨hz _ _ _ rfl, by simp⟩
    · rename_i got src hne hr
      have hsz := h.inbufSz
      simp only at hsz
      simp only [hsz]
      split
      · wsimp
        exact ⟨rfl, h⟩
      · wsimp
        have hb := blit_agree got 0 s1.inbuf ib (fun i => i < s1.saved.iEnd ∨ i < s1.cur.iEnd)
          hsz.symm h.inbufAg
        refine ⟨⟨rfl, hb.1, ?_⟩, ?_⟩
        · intro i hi
          apply hb.2
          simp only at hi
          rcases hi with hi | hi
          · exact Or.inr (by omega)
          · exact Or.inl (Or.inr hi)
        · cases got with
          | nil => exact (hne rfl).elim
          | cons x r => simp

abbrev QS {α : Type} : α → α → St σ → St σ → Prop := EqR Sim

/-- the part of `READ_BYTES` after the refill -/
def readBytesTail : LM σ Unit := do
  let st ← get
  if h : st.cur.iPtr < st.inbuf.size then
    let b := st.inbuf[st.cur.iPtr]
    set { st with cur := { st.cur with iPtr := st.cur.iPtr + 1, bits := st.cur.bits ++ byteBitsMSB b } }
  else throw (.fault (.oob "lzh->inbuf (*i_ptr++)"))

theorem readBytesTail_sim {t1 t2 : St σ} (ht : Sim t1 t2) (hlt : t1.cur.iPtr < t1.cur.iEnd) :
    wp2 readBytesTail readBytesTail QS EE t1 t2 := by
  unfold readBytesTail
  obtain ⟨ib', rfl⟩ := ht.split
  wsimp
  have hsz := ht.inbufSz
  simp only at hsz
  simp only [hsz]
  split
  · rename_i hin
    wsimp
    have hb : ib'[t1.cur.iPtr]'(by omega) = t1.inbuf[t1.cur.iPtr] := by
      have := ht.inbufAg t1.cur.iPtr (Or.inr hlt)
      simp only at this
      rw [Array.getElem?_eq_getElem (by omega), Array.getElem?_eq_getElem hin] at this
      exact Option.some.inj this
    simp only [hb]
    exact ⟨rfl, rfl, ht.inbufSz, fun i hi => ht.inbufAg i (by simp only at hi ⊢; omega)⟩
  · wsimp
    exact ⟨rfl, ht⟩

theorem readBytes_sim {s1 s2 : St σ} (h : Sim s1 s2) :
    wp2 (readBytes S) (readBytes S) QS EE s1 s2 := by
  unfold readBytes
  wsimp
  obtain ⟨ib, rfl⟩ := h.split
  simp only
  split
  · apply wp2_bind (readInput_sim S h)
    intro _ _ t1 t2 ⟨ht, hlt⟩
    obtain ⟨ib', rfl⟩ := ht.split
    rw [wp2_modify_bind]
    apply readBytesTail_sim
    · exact ⟨rfl, ht.inbufSz, fun i hi => ht.inbufAg i (by simp only at hi ⊢; omega)⟩
    · exact hlt
  · exact readBytesTail_sim h (by omega)

theorem ensureBits_sim (n : Nat) : ∀ (fuel : Nat) {s1 s2 : St σ}, Sim s1 s2 →
    wp2 (ensureBits S n fuel) (ensureBits S n fuel) QS EE s1 s2
  | 0, s1, s2, h => by
    rw [ensureBits]
    wsimp
    exact ⟨rfl, h⟩
  | fuel + 1, s1, s2, h => by
    rw [ensureBits]
    wsimp
    obtain ⟨ib, rfl⟩ := h.split
    simp only
    split
    · apply wp2_bind_eq (readBytes_sim S h)
      intro _ t1 t2 ht
      exact ensureBits_sim n fuel ht
    · wsimp
      exact ⟨rfl, h⟩

theorem removeBits_sim (n : Nat) {s1 s2 : St σ} (h : Sim s1 s2) :
    wp2 (removeBits n) (removeBits n) QS EE s1 s2 := by
  obtain ⟨ib, rfl⟩ := h.split
  unfold removeBits
  wsimp
  exact ⟨rfl, rfl, h.inbufSz, h.inbufAg⟩

theorem safeCheck_sim {s1 s2 : St σ} (h : Sim s1 s2) :
    wp2 safeCheck safeCheck QS EE s1 s2 := by
  obtain ⟨ib, rfl⟩ := h.split
  unfold safeCheck
  wsimp
  split
  · wsimp
    exact ⟨rfl, h⟩
  · wsimp
    exact ⟨rfl, h⟩

theorem readBitsSafe_sim (n : Nat) {s1 s2 : St σ} (h : Sim s1 s2) :
    wp2 (readBitsSafe S n) (readBitsSafe S n) QS EE s1 s2 := by
  unfold readBitsSafe
  apply wp2_bind_eq (ensureBits_sim S n 4 h)
  intro _ t1 t2 ht
  wsimp
  apply wp2_bind_eq (removeBits_sim n ht)
  intro _ u1 u2 hu
  apply wp2_bind_eq (safeCheck_sim hu)
  intro _ v1 v2 hv
  wsimp
  obtain ⟨ib, rfl⟩ := ht.split
  exact ⟨rfl, hv⟩

theorem readHuffSymSafe_sim (c : Huff.Canon) {s1 s2 : St σ} (h : Sim s1 s2) :
    wp2 (readHuffSymSafe S c) (readHuffSymSafe S c) QS EE s1 s2 := by
  unfold readHuffSymSafe
  apply wp2_bind_eq (ensureBits_sim S 16 4 h)
  intro _ t1 t2 ht
  wsimp
  obtain ⟨ib, rfl⟩ := ht.split
  simp only
  split
  · wsimp
    exact ⟨rfl, ht⟩
  · apply wp2_bind_eq (removeBits_sim _ ht)
    intro _ u1 u2 hu
    apply wp2_bind_eq (safeCheck_sim hu)
    intro _ v1 v2 hv
    wsimp
    exact ⟨rfl, hv⟩

theorem storeBits_sim {s1 s2 : St σ} (h : Sim s1 s2) :
    wp2 (storeBits : LM σ Unit) storeBits QS EE s1 s2 := by
  obtain ⟨ib, rfl⟩ := h.split
  unfold storeBits
  wsimp
  exact ⟨rfl, rfl, h.inbufSz, fun i hi => h.inbufAg i (by simp only at hi ⊢; omega)⟩

theorem restoreBits_sim {s1 s2 : St σ} (h : Sim s1 s2) :
    wp2 (restoreBits : LM σ Unit) restoreBits QS EE s1 s2 := by
  obtain ⟨ib, rfl⟩ := h.split
  unfold restoreBits
  wsimp
  exact ⟨rfl, rfl, h.inbufSz, fun i hi => h.inbufAg i (by simp only at hi ⊢; omega)⟩

theorem setLen_sim (t : Tbl) (i c : Nat) {s1 s2 : St σ} (h : Sim s1 s2) :
    wp2 (setLen t i c : LM σ Unit) (setLen t i c) QS EE s1 s2 := by
  obtain ⟨ib, rfl⟩ := h.split
  unfold setLen
  wsimp
  cases t <;> simp only [St.lens, St.setLens] <;> apply wp2_dite <;> intro hc <;> wsimp <;>
    first | exact ⟨rfl, rfl, h.inbufSz, h.inbufAg⟩ | exact ⟨rfl, h⟩

theorem lensFill_sim (t : Tbl) (c : Nat) : ∀ (k i : Nat) {s1 s2 : St σ}, Sim s1 s2 →
    wp2 (lensFill t c k i : LM σ Unit) (lensFill t c k i) QS EE s1 s2
  | 0, i, s1, s2, h => by rw [lensFill]; wsimp; exact ⟨rfl, h⟩
  | k + 1, i, s1, s2, h => by
    rw [lensFill]
    apply wp2_bind_eq (setLen_sim t i c h)
    intro _ t1 t2 ht
    exact lensFill_sim t c k (i + 1) ht

theorem lensType1_sim (t : Tbl) : ∀ (k i c : Nat) {s1 s2 : St σ}, Sim s1 s2 →
    wp2 (lensType1 S t k i c) (lensType1 S t k i c) QS EE s1 s2
  | 0, i, c, s1, s2, h => by rw [lensType1]; wsimp; exact ⟨rfl, h⟩
  | k + 1, i, c, s1, s2, h => by
    rw [lensType1]
    apply wp2_bind_eq (readBitsSafe_sim S 1 h)
    intro sel t1 t2 ht
    split
    · apply wp2_bind_eq (setLen_sim t i c ht)
      intro _ u1 u2 hu
      exact lensType1_sim t k (i + 1) c hu
    · apply wp2_bind_eq (readBitsSafe_sim S 1 ht)
      intro sel2 u1 u2 hu
      split
      · apply wp2_bind_eq (setLen_sim t i _ hu)
        intro _ v1 v2 hv
        exact lensType1_sim t k (i + 1) _ hv
      · apply wp2_bind_eq (readBitsSafe_sim S 4 hu)
        intro c' v1 v2 hv
        apply wp2_bind_eq (setLen_sim t i _ hv)
        intro _ w1 w2 hw
        exact lensType1_sim t k (i + 1) _ hw

theorem lensType2_sim (t : Tbl) : ∀ (k i c : Nat) {s1 s2 : St σ}, Sim s1 s2 →
    wp2 (lensType2 S t k i c) (lensType2 S t k i c) QS EE s1 s2
  | 0, i, c, s1, s2, h => by rw [lensType2]; wsimp; exact ⟨rfl, h⟩
  | k + 1, i, c, s1, s2, h => by
    rw [lensType2]
    apply wp2_bind_eq (readBitsSafe_sim S 2 h)
    intro sel t1 t2 ht
    have tail : ∀ (c' : Nat) (u1 u2 : St σ), Sim u1 u2 →
        wp2 (do setLen t i c'; lensType2 S t k (i + 1) c') (do setLen t i c'; lensType2 S t k (i + 1) c') QS EE u1 u2 := by
      intro c' u1 u2 hu
      apply wp2_bind_eq (setLen_sim t i _ hu)
      intro _ v1 v2 hv
      exact lensType2_sim t k (i + 1) _ hv
    simp only []
    split
    · apply wp2_bind_eq (readBitsSafe_sim S 4 ht)
      intro c' u1 u2 hu
      exact tail c' u1 u2 hu
    · wsimp
      exact tail _ t1 t2 ht

theorem lensType3_sim (t : Tbl) : ∀ (k i : Nat) {s1 s2 : St σ}, Sim s1 s2 →
    wp2 (lensType3 S t k i) (lensType3 S t k i) QS EE s1 s2
  | 0, i, s1, s2, h => by rw [lensType3]; wsimp; exact ⟨rfl, h⟩
  | k + 1, i, s1, s2, h => by
    rw [lensType3]
    apply wp2_bind_eq (readBitsSafe_sim S 4 h)
    intro c' u1 u2 hu
    apply wp2_bind_eq (setLen_sim t i _ hu)
    intro _ v1 v2 hv
    exact lensType3_sim t k (i + 1) hv

theorem readLensBody_sim (t : Tbl) (type : Nat) {s1 s2 : St σ} (h : Sim s1 s2) :
    wp2 (readLensBody S t type) (readLensBody S t type) QS EE s1 s2 := by
  unfold readLensBody
  apply wp2_bind_eq (restoreBits_sim h)
  intro _ t1 t2 ht
  split
  · apply wp2_bind_eq (lensFill_sim t _ _ _ ht)
    intro _ u1 u2 hu
    exact storeBits_sim hu
  · split
    · apply wp2_bind_eq (readBitsSafe_sim S 4 ht)
      intro c u1 u2 hu
      apply wp2_bind_eq (setLen_sim t 0 c hu)
      intro _ v1 v2 hv
      apply wp2_bind_eq (lensType1_sim S t _ _ _ hv)
      intro _ w1 w2 hw
      exact storeBits_sim hw
    · split
      · apply wp2_bind_eq (readBitsSafe_sim S 4 ht)
        intro c u1 u2 hu
        apply wp2_bind_eq (setLen_sim t 0 c hu)
        intro _ v1 v2 hv
        apply wp2_bind_eq (lensType2_sim S t _ _ _ hv)
        intro _ w1 w2 hw
        exact storeBits_sim hw
      · split
        · apply wp2_bind_eq (lensType3_sim S t _ _ ht)
          intro _ w1 w2 hw
          exact storeBits_sim hw
        · wsimp
          exact ⟨rfl, ht⟩

theorem readLens_sim (t : Tbl) (type : Nat) {s1 s2 : St σ} (h : Sim s1 s2) :
    wp2 (readLens S t type) (readLens S t type) QS EE s1 s2 := by
  unfold readLens
  apply wp2_tryCatch
  have hb : wp2 (do readLensBody S t type; pure Err.ok) (do readLensBody S t type; pure Err.ok) QS EE s1 s2 := by
    apply wp2_bind_eq (readLensBody_sim S t type h)
    intro _ t1 t2 ht
    wsimp
    exact ⟨rfl, ht⟩
  apply wp2_mono hb
  · intro a b t1 t2 hq; exact hq
  · intro e1 e2 t1 t2 ⟨he, ht⟩
    subst he
    cases e1 with
    | ret e => wsimp; exact ⟨rfl, ht⟩
    | fault f => wsimp; exact ⟨rfl, ht⟩

theorem buildTree_sim (t : Tbl) (type : Nat) {s1 s2 : St σ} (h : Sim s1 s2) :
    wp2 (buildTree S t type) (buildTree S t type) QS EE s1 s2 := by
  unfold buildTree
  apply wp2_bind_eq (storeBits_sim h)
  intro _ t1 t2 ht
  apply wp2_bind_eq (readLens_sim S t type ht)
  intro err u1 u2 hu
  split
  · wsimp
    exact ⟨rfl, hu⟩
  · wsimp
    apply wp2_bind_eq (restoreBits_sim hu)
    intro _ v1 v2 hv
    obtain ⟨ib, rfl⟩ := hv.split
    wsimp
    have hl : ∀ ib', (St.lens { v1 with inbuf := ib' } t) = v1.lens t := by
      intro ib'; cases t <;> rfl
    simp only [hl]
    split
    · wsimp; exact ⟨rfl, hv⟩
    · wsimp; exact ⟨rfl, hv⟩

theorem emitByte_sim (b : UInt8) {s1 s2 : St σ} (h : Sim s1 s2) :
    wp2 (emitByte b : LM σ Unit) (emitByte b) QS EE s1 s2 := by
  obtain ⟨ib, rfl⟩ := h.split
  unfold emitByte
  wsimp
  split
  · wsimp; exact ⟨rfl, rfl, h.inbufSz, h.inbufAg⟩
  · wsimp; exact ⟨rfl, h⟩

theorem copyMatch_sim (offset : Nat) : ∀ (len : Nat) {s1 s2 : St σ}, Sim s1 s2 →
    wp2 (copyMatch offset len : LM σ Unit) (copyMatch offset len) QS EE s1 s2
  | 0, s1, s2, h => by rw [copyMatch]; wsimp; exact ⟨rfl, h⟩
  | len + 1, s1, s2, h => by
    rw [copyMatch]
    obtain ⟨ib, rfl⟩ := h.split
    wsimp
    split
    · apply wp2_bind_eq (emitByte_sim _ h)
      intro _ t1 t2 ht
      exact copyMatch_sim offset len ht
    · wsimp; exact ⟨rfl, h⟩

theorem literalRun_sim (lit : Huff.Canon) : ∀ (len : Nat) {s1 s2 : St σ}, Sim s1 s2 →
    wp2 (literalRun S lit len) (literalRun S lit len) QS EE s1 s2
  | 0, s1, s2, h => by rw [literalRun]; wsimp; exact ⟨rfl, h⟩
  | len + 1, s1, s2, h => by
    rw [literalRun]
    apply wp2_bind_eq (readHuffSymSafe_sim S lit h)
    intro j t1 t2 ht
    apply wp2_bind_eq (emitByte_sim _ ht)
    intro _ u1 u2 hu
    exact literalRun_sim lit len hu

theorem mainLoop_sim (tr : Trees) : ∀ (fuel : Nat) (litRun : Bool) {s1 s2 : St σ}, Sim s1 s2 →
    wp2 (mainLoop S tr fuel litRun) (mainLoop S tr fuel litRun) QS EE s1 s2
  | 0, _, s1, s2, h => by rw [mainLoop]; wsimp; exact ⟨rfl, h⟩
  | fuel + 1, litRun, s1, s2, h => by
    rw [mainLoop]
    obtain ⟨ib, rfl⟩ := h.split
    wsimp
    split
    · wsimp; exact ⟨rfl, h⟩
    · have tail : ∀ (len : Nat) (t1 t2 : St σ), Sim t1 t2 →
          wp2 (if len > 0 then do
                let j ← readHuffSymSafe S tr.offset
                let j_1 ← readBitsSafe S 6
                copyMatch (j <<< 6 ||| j_1) (len + 2)
                mainLoop S tr fuel false
              else do
                let __do_lift ← readHuffSymSafe S tr.litlen
                literalRun S tr.literal (__do_lift + 1)
                mainLoop S tr fuel (decide (__do_lift + 1 ≠ 32)))
            (if len > 0 then do
                let j ← readHuffSymSafe S tr.offset
                let j_1 ← readBitsSafe S 6
                copyMatch (j <<< 6 ||| j_1) (len + 2)
                mainLoop S tr fuel false
              else do
                let __do_lift ← readHuffSymSafe S tr.litlen
                literalRun S tr.literal (__do_lift + 1)
                mainLoop S tr fuel (decide (__do_lift + 1 ≠ 32))) QS EE t1 t2 := by
        intro len t1 t2 ht
        split
        · apply wp2_bind_eq (readHuffSymSafe_sim S _ ht)
          intro j u1 u2 hu
          apply wp2_bind_eq (readBitsSafe_sim S 6 hu)
          intro j2 v1 v2 hv
          apply wp2_bind_eq (copyMatch_sim _ _ hv)
          intro _ w1 w2 hw
          exact mainLoop_sim tr fuel false hw
        · apply wp2_bind_eq (readHuffSymSafe_sim S _ ht)
          intro j u1 u2 hu
          apply wp2_bind_eq (literalRun_sim S _ _ hu)
          intro _ w1 w2 hw
          exact mainLoop_sim tr fuel _ hw
      split
      · apply wp2_bind_eq (readHuffSymSafe_sim S _ h)
        intro len t1 t2 ht
        exact tail len t1 t2 ht
      · apply wp2_bind_eq (readHuffSymSafe_sim S _ h)
        intro len t1 t2 ht
        exact tail len t1 t2 ht

theorem readTypes_sim : ∀ (k : Nat) (acc : List Nat) {s1 s2 : St σ}, Sim s1 s2 →
    wp2 (readTypes S k acc) (readTypes S k acc) QS EE s1 s2
  | 0, acc, s1, s2, h => by rw [readTypes]; wsimp; exact ⟨rfl, h⟩
  | k + 1, acc, s1, s2, h => by
    rw [readTypes]
    apply wp2_bind_eq (readBitsSafe_sim S 4 h)
    intro t u1 u2 hu
    exact readTypes_sim k _ hu

/-- before `lzh_decompress` has run its initialisation: `inbuf` and the ring may differ -/
structure Sim0 (a b : St σ) : Prop where
  eq : b = { a with inbuf := b.inbuf, window := b.window }
  inbufSz : b.inbuf.size = a.inbuf.size

theorem decompressBody_sim (fuel : Nat) {s1 s2 : St σ} (h : Sim0 s1 s2) :
    wp2 (decompressBody S fuel) (decompressBody S fuel) QS EE s1 s2 := by
  obtain ⟨ib, w, rfl⟩ : ∃ ib w, s2 = { s1 with inbuf := ib, window := w } := ⟨_, _, h.eq⟩
  unfold decompressBody restoreBits
  simp only [wp2_modify_bind]
  have h0 : Sim
      { s1 with saved := {}, inputEnd := 0, cur := {},
                window := Array.replicate lzssWINDOW_SIZE (UInt8.ofNat lzssWINDOW_FILL), pos := 0 }
      { s1 with saved := {}, inputEnd := 0, cur := {}, inbuf := ib,
                window := Array.replicate lzssWINDOW_SIZE (UInt8.ofNat lzssWINDOW_FILL), pos := 0 } :=
    ⟨rfl, h.inbufSz, fun i hi => by simp only at hi; omega⟩
  apply wp2_bind_eq (readTypes_sim S 6 [] h0)
  intro types t1 t2 ht
  apply wp2_bind_eq (buildTree_sim S _ _ ht)
  intro m1 a1 a2 ha
  apply wp2_bind_eq (buildTree_sim S _ _ ha)
  intro m2 b1 b2 hb
  apply wp2_bind_eq (buildTree_sim S _ _ hb)
  intro ll c1 c2 hc
  apply wp2_bind_eq (buildTree_sim S _ _ hc)
  intro off d1 d2 hd
  apply wp2_bind_eq (buildTree_sim S _ _ hd)
  intro li e1 e2 he
  exact mainLoop_sim S _ fuel false he

theorem init_sim0 (src : σ) (f1 f2 : UInt8) : Sim0 (init src f1) (init src f2) :=
  ⟨rfl, by simp [init]⟩

/-- what the caller of `lzh_decompress` sees -/
def observe : Except Fault (Out σ) → Except Fault (Err × Bytes)
  | .error f => .error f
  | .ok o => .ok (o.err, o.written)

theorem decompress_sim0 (fuel : Nat) {s1 s2 : St σ} (h : Sim0 s1 s2) :
    observe (decompress S fuel s1) = observe (decompress S fuel s2) := by
  have hw := decompressBody_sim S fuel h
  unfold wp2 at hw
  unfold decompress
  cases h1 : ((decompressBody S fuel).run.run s1 : Except Halt Unit × St σ) with
  | mk r1 t1 =>
    cases h2 : ((decompressBody S fuel).run.run s2 : Except Halt Unit × St σ) with
    | mk r2 t2 =>
      rw [h1, h2] at hw
      cases r1 with
      | ok a =>
        cases r2 with
        | ok b =>
          obtain ⟨_, hs⟩ := hw
          obtain ⟨ib, rfl⟩ := hs.split
          rfl
        | error e => exact hw.elim
      | error e1 =>
        cases r2 with
        | ok b => exact hw.elim
        | error e2 =>
          obtain ⟨rfl, hs⟩ := hw
          obtain ⟨ib, rfl⟩ := hs.split
          cases e1 <;> rfl

end
end MsPack.Kwaj.Lzh
