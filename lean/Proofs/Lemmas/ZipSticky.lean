import Proofs.Lemmas.ZipChunk
import Proofs.Lemmas.CountLaws
/-!
# MSZIP: a status other than OK leaves the sticky error set

`K'` is the error-field triple `K` of `ZipChunk.lean` with one more fact at a `sys e` exception: the state's sticky
`error` is set (the only `sys` exit is `read_input`, which stores MSPACK_ERR_READ before it returns).  The helper lemmas
are those of `ZipChunk.lean`, re-run for the stronger triple; `decompress_sticky` then walks `decompressLoop`.
-/
set_option linter.unusedSimpArgs false
set_option linter.unusedVariables false
namespace MsPack.Zip.ZipSticky
open MsPack MsPack.Generated MsPack.Zip

variable {σ : Type} (S : Src σ)

/-! ## the error-field triple -/

/-- what an exceptional exit may look like: `sys` carries a real error; `inf` leaves the sticky error alone -/
def EOk (e0 : Err) (h : Halt) (s : St σ) : Prop :=
  match h with
  | .sys e => e ≠ .ok ∧ s.error ≠ .ok
  | .inf => s.error = e0
  | .fault _ => True

/-- running `m` from `st`: a normal return leaves `error = e0`; an exception satisfies `EOk` -/
def K (e0 : Err) {α : Type} (m : ZM σ α) (st : St σ) : Prop :=
  match exec m st with
  | (.ok _, s) => s.error = e0
  | (.error h, s) => EOk e0 h s

section rules
variable {α β : Type} {e0 : Err}

theorem K_bind {x : ZM σ α} {f : α → ZM σ β} {st : St σ}
    (hx : K e0 x st) (hf : ∀ a s, s.error = e0 → K e0 (f a) s) : K e0 (x >>= f) st := by
  unfold K at hx ⊢
  rw [exec_bind]
  cases h : exec x st with
  | mk r s =>
    rw [h] at hx
    cases r with
    | ok a => exact hf a s hx
    | error e => exact hx

theorem K_exec_ok {m : ZM σ α} {st s : St σ} {a : α} (h : K e0 m st) (he : exec m st = (.ok a, s)) :
    s.error = e0 := by
  unfold K at h; rw [he] at h; exact h

theorem K_exec_error {m : ZM σ α} {st s : St σ} {e : Halt} (h : K e0 m st) (he : exec m st = (.error e, s)) :
    EOk e0 e s := by
  unfold K at h; rw [he] at h; exact h

theorem K_get_bind (f : St σ → ZM σ β) (st : St σ) : K e0 (get >>= f) st = K e0 (f st) st := by
  unfold K; rw [exec_bind, exec_get]
theorem K_set_bind (s : St σ) (f : PUnit → ZM σ β) (st : St σ) : K e0 (set s >>= f) st = K e0 (f ⟨⟩) s := by
  unfold K; rw [exec_bind, exec_set]
theorem K_modify_bind (g : St σ → St σ) (f : PUnit → ZM σ β) (st : St σ) :
    K e0 (modify g >>= f) st = K e0 (f ⟨⟩) (g st) := by
  unfold K; rw [exec_bind, exec_modify]
theorem K_pure_bind (a : α) (f : α → ZM σ β) (st : St σ) : K e0 (pure a >>= f) st = K e0 (f a) st := by
  unfold K; rw [exec_bind, exec_pure]
theorem K_throw_bind (e : Halt) (f : α → ZM σ β) (st : St σ) : K e0 (throw e >>= f) st = EOk e0 e st := by
  unfold K; rw [exec_bind, exec_throw]
theorem K_pure (a : α) (st : St σ) : K e0 (pure a : ZM σ α) st = (st.error = e0) := by
  unfold K; rw [exec_pure]
theorem K_throw (e : Halt) (st : St σ) : K e0 (throw e : ZM σ α) st = EOk e0 e st := by
  unfold K; rw [exec_throw]
theorem K_get (st : St σ) : K e0 (get : ZM σ (St σ)) st = (st.error = e0) := by
  unfold K; rw [exec_get]
theorem K_set (s st : St σ) : K e0 (set s : ZM σ PUnit) st = (s.error = e0) := by
  unfold K; rw [exec_set]
theorem K_modify (g : St σ → St σ) (st : St σ) : K e0 (modify g : ZM σ PUnit) st = ((g st).error = e0) := by
  unfold K; rw [exec_modify]

theorem EOk_inf (s : St σ) : EOk e0 .inf s = (s.error = e0) := rfl
theorem EOk_fault (f : Fault) (s : St σ) : EOk e0 (.fault f) s = True := rfl
theorem EOk_sys (e : Err) (s : St σ) : EOk e0 (.sys e) s = (e ≠ .ok ∧ s.error ≠ .ok) := rfl
end rules

attribute [irreducible] K

/-- executes `get`/`set`/`modify`/`pure`/`throw` heads (same rewriting set as `zsimp`) -/
macro "ksimp" : tactic =>
  `(tactic| try simp only [K_get_bind, K_set_bind, K_modify_bind, K_pure_bind, K_throw_bind, K_pure,
      K_throw, K_get, K_set, K_modify, bind_assoc, pure_bind])

/-- `ksimp`, then close what is left: an `error = e0` fact in the context or a trivial exception side condition -/
macro "kfin" : tactic =>
  `(tactic| (ksimp; first | done | assumption | (simp only [EOk_inf, EOk_fault, EOk_sys]; first | done | assumption | (intro hh; cases hh) | (constructor <;> (intro hh; cases hh)) | (constructor <;> simp))))

/-! ## one lemma per helper -/

theorem readInput_k (e0 : Err) (st : St σ) (h : st.error = e0) : K e0 (readInput S) st := by
  unfold readInput
  ksimp
  split
  · kfin
  · kfin
  · split
    · kfin
    · kfin
  · kfin

theorem nextByte_k (e0 : Err) (st : St σ) (h : st.error = e0) : K e0 (nextByte S) st := by
  unfold nextByte
  ksimp
  split
  · refine K_bind (readInput_k S e0 st h) ?_
    intro _ s hs
    ksimp
    split
    · kfin
    · kfin
  · ksimp
    split
    · kfin
    · kfin

theorem ensureBits_k (n : Nat) : ∀ (fuel : Nat) (e0 : Err) (st : St σ), st.error = e0 →
    K e0 (ensureBits S n fuel) st := by
  intro fuel
  induction fuel with
  | zero => intro e0 st h; rw [ensureBits.eq_1]; kfin
  | succ fuel ih =>
    intro e0 st h
    rw [ensureBits.eq_2]
    ksimp
    split
    · refine K_bind (nextByte_k S e0 st h) ?_
      intro b s hs
      ksimp
      exact ih e0 _ hs
    · kfin

theorem removeBits_k (n : Nat) (e0 : Err) (st : St σ) (h : st.error = e0) : K e0 (removeBits (σ := σ) n) st := by
  unfold removeBits
  kfin

theorem readBits_k (n : Nat) (e0 : Err) (st : St σ) (h : st.error = e0) : K e0 (readBits S n) st := by
  unfold readBits
  refine K_bind (ensureBits_k S n 3 e0 st h) ?_
  intro _ s hs
  ksimp
  refine K_bind (removeBits_k n e0 s hs) ?_
  intro _ s' hs'
  kfin

theorem readHuffSym_k (c : Huff.Canon) (e0 : Err) (st : St σ) (h : st.error = e0) : K e0 (readHuffSym S c) st := by
  unfold readHuffSym
  refine K_bind (ensureBits_k S 16 3 e0 st h) ?_
  intro _ s hs
  ksimp
  split
  · refine K_bind (removeBits_k _ e0 s hs) ?_
    intro _ s hs
    kfin
  · kfin

theorem readLensLoop_k (c : Huff.Canon) (total : Nat) : ∀ (fuel : Nat) (lens : List Nat) (last : Nat) (e0 : Err)
    (st : St σ), st.error = e0 → K e0 (readLensLoop S c total fuel lens last) st := by
  intro fuel
  induction fuel with
  | zero => intro lens last e0 st h; rw [readLensLoop.eq_1]; kfin
  | succ fuel ih =>
    intro lens last e0 st h
    rw [readLensLoop.eq_2]
    split
    · kfin
    · refine K_bind (ensureBits_k S 7 2 e0 st h) ?_
      intro _ s hs
      ksimp
      split
      · kfin
      · refine K_bind (removeBits_k _ e0 s hs) ?_
        intro _ s hs
        split
        · exact ih _ _ e0 s hs
        · split
          · kfin
          · try ksimp
            refine K_bind (readBits_k S _ e0 s hs) ?_
            intro v s hs
            have key : ∀ run val, K e0 (if lens.length + run > total then throw Halt.inf
                else readLensLoop S c total fuel (lens ++ List.replicate run val) last) s := by
              intro run val
              split
              · kfin
              · exact ih _ _ e0 s hs
            exact key _ _

theorem zipReadLens_rd_k (blc : Nat) : ∀ (k : Nat) (acc : List (Nat × Nat)) (e0 : Err) (st : St σ),
    st.error = e0 → K e0 (zipReadLens.rd S blc k acc) st := by
  intro k
  induction k with
  | zero => intro acc e0 st h; rw [zipReadLens.rd.eq_1]; kfin
  | succ k ih =>
    intro acc e0 st h
    rw [zipReadLens.rd.eq_2]
    refine K_bind (readBits_k S 3 e0 st h) ?_
    intro v s hs
    exact ih _ e0 s hs

theorem zipReadLens_k (e0 : Err) (st : St σ) (h : st.error = e0) : K e0 (zipReadLens S) st := by
  unfold zipReadLens
  refine K_bind (readBits_k S _ e0 st h) ?_
  intro v1 s hs
  refine K_bind (readBits_k S _ e0 s hs) ?_
  intro v2 s hs
  refine K_bind (readBits_k S _ e0 s hs) ?_
  intro v3 s hs
  ksimp
  split
  · kfin
  · split
    · kfin
    · refine K_bind (zipReadLens_rd_k S _ _ [] e0 s hs) ?_
      intro pairs s hs
      split
      · kfin
      · refine K_bind (readLensLoop_k S _ _ _ _ _ e0 s hs) ?_
        intro lens s hs
        kfin

theorem scanCK_k : ∀ (fuel state : Nat) (e0 : Err) (st : St σ), st.error = e0 → K e0 (scanCK S fuel state) st := by
  intro fuel
  induction fuel with
  | zero => intro state e0 st h; rw [scanCK.eq_1]; kfin
  | succ fuel ih =>
    intro state e0 st h
    rw [scanCK.eq_2]
    refine K_bind (readBits_k S _ e0 st h) ?_
    intro v s hs
    have key : ∀ x, K e0 (if x = 2 then pure () else scanCK S fuel x) s := by
      intro x
      split
      · kfin
      · exact ih _ e0 s hs
    exact key _

theorem flushWindow_k (n : Nat) (e0 : Err) (st : St σ) (h : st.error = e0) : K e0 (flushWindow (σ := σ) n) st := by
  unfold flushWindow
  ksimp
  split
  · kfin
  · kfin

theorem flushIfNeeded_k (e0 : Err) (st : St σ) (h : st.error = e0) : K e0 (flushIfNeeded (σ := σ)) st := by
  unfold flushIfNeeded
  ksimp
  split
  · refine K_bind (flushWindow_k _ e0 st h) ?_
    intro _ s hs
    kfin
  · kfin

theorem putByte_k (b : UInt8) (e0 : Err) (st : St σ) (h : st.error = e0) : K e0 (putByte (σ := σ) b) st := by
  unfold putByte
  ksimp
  split
  · ksimp
    exact flushIfNeeded_k e0 _ h
  · kfin

theorem copyMatch_k : ∀ (length posn : Nat) (e0 : Err) (st : St σ), st.error = e0 →
    K e0 (copyMatch (σ := σ) length posn) st := by
  intro length
  induction length with
  | zero => intro posn e0 st h; rw [copyMatch.eq_1]; kfin
  | succ length ih =>
    intro posn e0 st h
    rw [copyMatch.eq_2]
    ksimp
    refine K_bind (putByte_k _ e0 st h) ?_
    intro _ s hs
    exact ih _ e0 s hs

theorem copyStored_k : ∀ (fuel length : Nat) (e0 : Err) (st : St σ), st.error = e0 →
    K e0 (copyStored S fuel length) st := by
  intro fuel
  induction fuel with
  | zero => intro length e0 st h; rw [copyStored.eq_1]; kfin
  | succ fuel ih =>
    intro length e0 st h
    rw [copyStored.eq_2]
    split
    · kfin
    · ksimp
      have key : ∀ st : St σ, st.error = e0 → K e0 (do
          let st ← get
          let run := min (min length st.inbuf.length) (zipFRAME_SIZE - st.windowPosn)
          let chunk := st.inbuf.take run
          let w := chunk.foldl (fun (acc : Array UInt8 × Nat) b => (acc.1.setIfInBounds acc.2 b, acc.2 + 1)) (st.window, st.windowPosn)
          set { st with inbuf := st.inbuf.drop run, window := w.1, windowPosn := st.windowPosn + run }
          flushIfNeeded
          copyStored S fuel (length - run)) st := by
        intro st h
        ksimp
        refine K_bind (flushIfNeeded_k e0 _ h) ?_
        intro _ s hs
        exact ih _ e0 s hs
      split
      · refine K_bind (readInput_k S e0 st h) ?_
        intro _ s hs
        exact key s hs
      · exact key st h

theorem huffBlock_k (lit dist : Huff.Canon) : ∀ (fuel : Nat) (e0 : Err) (st : St σ), st.error = e0 →
    K e0 (huffBlock S lit dist fuel) st := by
  intro fuel
  induction fuel with
  | zero => intro e0 st h; rw [huffBlock.eq_1]; kfin
  | succ fuel ih =>
    intro e0 st h
    rw [huffBlock.eq_2]
    refine K_bind (readHuffSym_k S lit e0 st h) ?_
    intro code s hs
    split
    · refine K_bind (putByte_k _ e0 s hs) ?_
      intro _ s hs
      exact ih e0 s hs
    · split
      · kfin
      · ksimp
        split
        · kfin
        · ksimp
          refine K_bind (readBits_k S _ e0 s hs) ?_
          intro v s hs
          ksimp
          refine K_bind (readHuffSym_k S dist e0 s hs) ?_
          intro dc s hs
          split
          · kfin
          · ksimp
            refine K_bind (readBits_k S _ e0 s hs) ?_
            intro v2 s hs
            ksimp
            refine K_bind (copyMatch_k _ _ e0 s hs) ?_
            intro _ s hs
            exact ih e0 s hs

theorem inflate_more_k : ∀ (k : Nat) (acc : List UInt8) (e0 : Err) (st : St σ), st.error = e0 →
    K e0 (inflate.more S k acc) st := by
  intro k
  induction k with
  | zero => intro acc e0 st h; rw [inflate.more.eq_1]; kfin
  | succ k ih =>
    intro acc e0 st h
    rw [inflate.more.eq_2]
    refine K_bind (nextByte_k S e0 st h) ?_
    intro b s hs
    exact ih _ e0 s hs

theorem inflate_k : ∀ (fuel : Nat) (e0 : Err) (st : St σ), st.error = e0 → K e0 (inflate S fuel) st := by
  intro fuel
  induction fuel with
  | zero => intro e0 st h; rw [inflate.eq_1]; kfin
  | succ fuel ih =>
    intro e0 st h
    rw [inflate.eq_2]
    refine K_bind (readBits_k S 1 e0 st h) ?_
    intro lastBlock s hs
    refine K_bind (readBits_k S 2 e0 s hs) ?_
    intro blockType s hs
    have tail : ∀ s : St σ, s.error = e0 → K e0 (if lastBlock = 0 then inflate S fuel
        else do
          let st ← get
          if st.windowPosn ≠ 0 then flushWindow st.windowPosn else pure ()) s := by
      intro s hs
      split
      · exact ih e0 s hs
      · ksimp
        split
        · exact flushWindow_k _ e0 s hs
        · kfin
    ksimp
    split
    · ksimp
      split
      · kfin
      · ksimp
        refine K_bind (inflate_more_k S _ _ e0 { s with bits := [] } hs) ?_
        intro lb s hs
        ksimp
        split
        · kfin
        · ksimp
          refine K_bind (copyStored_k S _ _ e0 s hs) ?_
          intro _ s hs
          exact tail s hs
    · split
      · have rest : ∀ s : St σ, s.error = e0 → K e0 (do
            let st ← get
            match Huff.build zipLITERAL_TABLEBITS st.litLens with
              | none => do
                let __r ← throw Halt.inf
                (fun (_ : Unit) => if lastBlock = 0 then inflate S fuel
                  else do
                    let st ← get
                    if st.windowPosn ≠ 0 then flushWindow st.windowPosn else pure ()) __r
              | some lit =>
                match Huff.build zipDISTANCE_TABLEBITS st.distLens with
                | none => do
                  let __r ← throw Halt.inf
                  (fun (_ : Unit) => if lastBlock = 0 then inflate S fuel
                    else do
                      let st ← get
                      if st.windowPosn ≠ 0 then flushWindow st.windowPosn else pure ()) __r
                | some dist => do
                  let __r ← huffBlock S lit dist fuel
                  (fun (_ : Unit) => if lastBlock = 0 then inflate S fuel
                    else do
                      let st ← get
                      if st.windowPosn ≠ 0 then flushWindow st.windowPosn else pure ()) __r) s := by
          intro s hs
          ksimp
          split
          · kfin
          · split
            · kfin
            · refine K_bind (huffBlock_k S _ _ _ e0 s hs) ?_
              intro _ s hs
              exact tail s hs
        split
        · rw [K_modify_bind]
          exact rest _ hs
        · refine K_bind (zipReadLens_k S e0 s hs) ?_
          intro _ s hs
          exact rest s hs
      · kfin


/-! ## `runInflate`, the block loop, the call -/

theorem runInflate_k (fuel : Nat) (st : St σ) (e0 : Err) (h0 : st.error = e0) (r : InfRes) (s : St σ)
    (h : runInflate S fuel st = .ok (r, s)) :
    (r = .ok → s.error = e0) ∧ (r = .inf → s.error = e0) ∧ (∀ e, r = .sys e → e ≠ .ok ∧ s.error ≠ .ok) := by
  have hk := inflate_k S fuel e0 st h0
  unfold runInflate at h
  change (match exec (inflate S fuel) st with
    | (.ok (), st') => Except.ok (InfRes.ok, st')
    | (.error (.fault f), _) => .error f
    | (.error .inf, st') => .ok (.inf, st')
    | (.error (.sys e), st') => .ok (.sys e, st')) = _ at h
  cases hr : exec (inflate S fuel) st with
  | mk r' s' =>
    rw [hr] at h
    cases r' with
    | ok a =>
      simp only [Except.ok.injEq, Prod.mk.injEq] at h
      obtain ⟨h1, h2⟩ := h
      subst h1 h2
      have := K_exec_ok hk hr
      exact ⟨fun _ => this, nofun, nofun⟩
    | error e =>
      have hw := K_exec_error hk hr
      cases e with
      | inf =>
        simp only [Except.ok.injEq, Prod.mk.injEq] at h
        obtain ⟨h1, h2⟩ := h
        subst h1 h2
        exact ⟨nofun, fun _ => hw, nofun⟩
      | sys e =>
        simp only [Except.ok.injEq, Prod.mk.injEq] at h
        obtain ⟨h1, h2⟩ := h
        subst h1 h2
        refine ⟨nofun, nofun, fun e' hc => ?_⟩
        cases hc
        exact hw
      | fault g => cases h

theorem repairSt_error (res : InfRes) (st : St σ) : (CountLaws.Zip.repairSt res st).error = st.error := by
  unfold CountLaws.Zip.repairSt
  split <;> rfl

theorem loopTail_sticky (fuel n : Nat)
    (ih : ∀ (st : St σ) (outBytes : Nat) (w : Bytes) (o : Out σ),
      decompressLoop S fuel n st outBytes w = .ok o → o.err ≠ .ok → o.st.error ≠ .ok)
    (res : InfRes) (st : St σ) (hres : ∀ e, res = .sys e → e ≠ .ok ∧ st.error ≠ .ok) (outBytes : Nat) (w : Bytes)
    (o : Out σ) (h : CountLaws.Zip.loopTail S fuel n res st outBytes w = .ok o) (he : o.err ≠ .ok) :
    o.st.error ≠ .ok := by
  unfold CountLaws.Zip.loopTail at h
  dsimp only at h
  split at h
  · rename_i e
    have := (hres e rfl).2
    split at h <;> cases h <;> exact this
  · exact ih _ _ _ _ h he

theorem decompressLoop_sticky (fuel : Nat) : ∀ (n : Nat) (st : St σ) (outBytes : Nat) (w : Bytes) (o : Out σ),
    decompressLoop S fuel n st outBytes w = .ok o → o.err ≠ .ok → o.st.error ≠ .ok := by
  intro n
  induction n with
  | zero => intro st outBytes w o h; rw [decompressLoop.eq_1] at h; cases h
  | succ n ih =>
    intro st outBytes w o h he
    rw [decompressLoop.eq_2] at h
    split at h
    · cases h; exact absurd rfl he
    · dsimp only at h
      have hk := scanCK_k S fuel 0 _ { st with bits := st.bits.drop (st.bits.length % 8) } rfl
      split at h
      · cases h
      · cases h; intro hc; cases hc
      · rename_i e s heq
        cases h
        exact (K_exec_error hk heq).2
      · rename_i s heq
        split at h
        · cases h
        · rename_i res s2 hri
          have hr := runInflate_k S fuel { s with windowPosn := 0, bytesOutput := 0 } _ rfl res s2 hri
          split at h
          · rename_i hf
            cases h
            dsimp only
            cases res with
            | ok => exact absurd rfl hf.1
            | inf => intro hc; cases hc
            | sys e => exact (hr.2.2 e rfl).1
          · change CountLaws.Zip.loopTail S fuel n res (CountLaws.Zip.repairSt res s2) outBytes w = _ at h
            refine loopTail_sticky S fuel n ih res _ (fun e hc => ?_) _ _ _ h he
            rw [repairSt_error]
            exact hr.2.2 e hc

/-- **MSZIP, sticky status**: a call that returns a status other than OK leaves `zip->error` set — every source,
    strict and repair mode alike -/
theorem decompress_sticky (fuel : Nat) (st : St σ) (n : Nat) (o : Out σ)
    (h : decompress S fuel st n = .ok o) (he : o.err ≠ .ok) : o.st.error ≠ .ok := by
  unfold decompress at h
  split at h
  · rename_i hne
    cases h
    exact hne
  · dsimp only at h
    split at h
    · cases h; exact absurd rfl he
    · exact decompressLoop_sticky S fuel fuel _ _ _ _ h he

end MsPack.Zip.ZipSticky
