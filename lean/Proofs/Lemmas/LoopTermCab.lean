import Proofs.Props.C04
/-!
CAB stored folders: `noned_decompress` never runs out of the `bytes / bufsize + 2` rounds
`decompress` passes (every round moves `min(bufsize, bytes) ≥ 1` bytes; the last round sees 0).
-/
namespace MsPack.Cab
open MsPack

theorem nonedDecompress_no_hang (files : Files) (bs : Nat) (hb : 1 ≤ bs) : ∀ (fuel : Nat) (fd : Feeder) (bytes : Nat) (w : Bytes),
    (if bytes = 0 then 1 else (bytes - 1) / bs + 2) ≤ fuel →
    nonedDecompress files bs fuel fd bytes w ≠ .error .hang := by
  intro fuel
  induction fuel with
  | zero =>
    intro fd bytes w h
    have := Nat.zero_le ((bytes - 1) / bs)
    split at h <;> omega
  | succ fuel ih =>
    intro fd bytes w h
    rw [nonedDecompress]
    by_cases hz : bytes = 0
    · simp [hz]
    · rw [if_neg hz] at h
      rw [if_neg hz]
      simp only
      generalize hrun : (if bytes > bs then bs else bytes) = run
      have hf := C04_feeder_fuel_suffices files fd run
      split
      · rename_i f heq
        intro hc
        simp only [Except.error.injEq] at hc
        subst hc
        exact hf heq
      · simp
      · split
        · simp
        · apply ih
          by_cases hgt : bytes > bs
          · rw [if_pos hgt] at hrun
            subst hrun
            have h1 : bytes - bs ≠ 0 := by omega
            rw [if_neg h1]
            have : (bytes - 1) / bs = (bytes - 1 - bs) / bs + 1 := Nat.div_eq_sub_div (by omega) (by omega)
            have h2 : bytes - bs - 1 = bytes - 1 - bs := by omega
            rw [h2]
            omega
          · rw [if_neg hgt] at hrun
            subst hrun
            have := Nat.zero_le ((bytes - 1) / bs)
            simp only [Nat.sub_self, ↓reduceIte]
            omega

/-- `decompress` of a stored folder (`noned_decompress` with its `bytes / bufsize + 2` rounds): no `hang`,
    for every buffer size ≥ 1 (`cabd_param` refuses DECOMPBUF < 4) -/
theorem decompress_none_no_hang (files : Files) (bs : Nat) (hb : 1 ≤ bs) (e : Err) (fd : Feeder) (bytes : Nat) :
    decompress files (.none bs e) fd bytes ≠ .error .hang := by
  unfold decompress
  simp only
  split
  · simp
  · have := nonedDecompress_no_hang files bs hb (bytes / (max bs 1) + 2) fd bytes [] (by
      have hm : max bs 1 = bs := by omega
      rw [hm]
      have := Nat.zero_le (bytes / bs)
      split
      · omega
      · have : (bytes - 1) / bs ≤ bytes / bs := Nat.div_le_div_right (by omega)
        omega)
    generalize nonedDecompress files bs (bytes / (max bs 1) + 2) fd bytes [] = r at this
    cases r with
    | error f => simpa [Except.map] using this
    | ok v => simp [Except.map]

end MsPack.Cab
