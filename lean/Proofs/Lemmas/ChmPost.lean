import Lean.Elab.Tactic
import MsPack.Chm.Headers
/-!
Walking through `chmd_read_headers` (`Chm.readHeaders`) with a postcondition `Q` on its result, one lemma per
`match`/`if`, applied syntactically (`apply`), so that neither the elaborator nor the kernel ever evaluates a header
field (`u32At buf i` = `… + d * 16777216`, `i64At`): see the note in `Proofs/Lemmas/ChmEncode.lean`.

How to use: `unfold readHeaders`, then `apply post_read …; intro b r`, `apply post_ite …`, `zeta_arg` where the goal's
argument starts with `have`s; *generalize* the discriminant of a `seekAbs`/`readChunks` match and the header fields
before applying the lemma of a match/`if` that mentions them (the unifier reduces matcher discriminants).
-/
namespace MsPack.Chm
open MsPack MsPack.Generated

open Lean Elab Tactic Meta in
/-- zeta-reduce the `have`/`let` bindings at the head of the last argument of the goal `Q e` (nothing below the
    head is touched: the kernel re-checks the step by a head reduction, see `zeta_head`) -/
elab "zeta_arg" : tactic => do
  let g ← getMainGoal
  let t := (← instantiateMVars (← g.getType)).consumeMData
  let .app f e := t | throwError "zeta_arg: not an application {t}"
  let rec go (fuel : Nat) (e : Expr) : Expr :=
    match fuel with
    | 0 => e
    | fuel + 1 =>
      match e with
      | .letE _ _ v b _ => go fuel (b.instantiate1 v)
      | .mdata _ e' => go fuel e'
      | _ => e
  let g' ← g.replaceTargetDefEq (.app f (go 64 e))
  replaceMainGoal [g']


section
variable {α : Type} {Q : α → Prop}
theorem post_read (x : Option (Bytes × Rd)) (n : Unit → α) (k : Bytes → Rd → α)
    (hn : Q (n ())) (hk : ∀ b r, Q (k b r)) : Q (readChunks.match_3 (fun _ => α) x n k) := by
  cases x with
  | none => exact hn
  | some v => exact hk v.1 v.2
theorem post_seek (x : Option Rd) (n : Unit → α) (k : Rd → α)
    (hn : Q (n ())) (hk : ∀ r, Q (k r)) : Q (readHeaders.match_3 (fun _ => α) x n k) := by
  cases x with
  | none => exact hn
  | some v => exact hk v
theorem post_ite (c : Prop) {inst : Decidable c} (a b : α) (ha : Q a) (hb : Q b) : Q (@ite _ c inst a b) := by
  split <;> assumption
theorem post_chunks (x : Except Fault (Except Err Walk)) (h1 : Fault → α) (h2 : Err → α) (h3 : Walk → α)
    (p1 : ∀ f, x = .error f → Q (h1 f)) (p2 : ∀ e, x = .ok (.error e) → Q (h2 e)) (p3 : ∀ w, x = .ok (.ok w) → Q (h3 w)) :
    Q (readHeaders.match_1 (fun _ => α) x h1 h2 h3) := by
  match x with
  | .error f => exact p1 f rfl
  | .ok (.error e) => exact p2 e rfl
  | .ok (.ok w) => exact p3 w rfl
end

/-- the only error the chunk loop of `chmd_read_headers` returns is MSPACK_ERR_READ -/
theorem readChunks_err_read (cs : Nat) : ∀ (n : Nat) (r : Rd) (w : Walk) (e : Err),
    readChunks cs n r w = .ok (.error e) → e = .read := by
  intro n
  induction n with
  | zero =>
    intro r w e h
    rw [readChunks.eq_1] at h
    cases h
  | succ n ih =>
    intro r w e h
    rw [readChunks.eq_2] at h
    split at h
    · cases h; rfl
    · split at h
      · exact ih _ _ _ h
      · simp +zeta only at h
        split at h
        · cases h
        · exact ih _ _ _ h

end MsPack.Chm
