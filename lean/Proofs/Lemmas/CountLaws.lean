import Lean
import Proofs.Lemmas.ZipBounds
import Proofs.Lemmas.LzxBounds
import Proofs.Lemmas.QtmBounds
import Proofs.Lemmas.Count
/-!
# Counting laws of the stream decoders (lemmas for C07Decoders)

"never more than asked; OK means exactly as many as asked" for one `decompress(state, n)` call of
the MSZIP, LZX and Quantum models.

Two ingredients:
* `Throws P m` — every exception the monadic action `m` can end with satisfies `P`; used with
  `P = "a status return carries a status ≠ OK"` (the decoders hand the thrown status back as the
  call's result, so OK can only come from the normal exit);
* the arithmetic of the output loops.
-/
namespace MsPack.CountLaws

/-! ## which exceptions an action of `ExceptT ε (StateM s)` can end with -/

section kit
variable {ε s α β : Type}

theorem run_bind (x : ExceptT ε (StateM s) α) (f : α → ExceptT ε (StateM s) β) (st : s) :
    (x >>= f).run.run st = match x.run.run st with
      | (.ok a, s') => (f a).run.run s'
      | (.error e, s') => (.error e, s') := by
  show (ExceptT.bind x f).run.run st = _
  simp only [ExceptT.bind, ExceptT.run, ExceptT.mk, StateT.run, bind, StateT.bind, ExceptT.bindCont]
  cases h : x st with
  | mk r s => cases r <;> rfl

/-- every exception `m` can end with satisfies `P` -/
structure Throws (P : ε → Prop) (m : ExceptT ε (StateM s) α) : Prop where
  out : ∀ st e st', m.run.run st = (.error e, st') → P e

theorem Throws.pure (P : ε → Prop) (a : α) : Throws P (pure a : ExceptT ε (StateM s) α) :=
  ⟨fun _ _ _ h => by cases h⟩

theorem Throws.bind {P : ε → Prop} {x : ExceptT ε (StateM s) α} {f : α → ExceptT ε (StateM s) β}
    (hx : Throws P x) (hf : ∀ a, Throws P (f a)) : Throws P (x >>= f) := by
  constructor
  intro st e st' h
  rw [run_bind] at h
  cases hr : x.run.run st with
  | mk r s1 =>
    rw [hr] at h
    cases r with
    | ok a => exact (hf a).out _ _ _ h
    | error e1 =>
      cases h
      exact hx.out _ _ _ hr

theorem Throws.throw {P : ε → Prop} {e : ε} (h : P e) : Throws P (throw e : ExceptT ε (StateM s) α) :=
  ⟨fun _ _ _ h' => by cases h'; exact h⟩

theorem Throws.get (P : ε → Prop) : Throws P (get : ExceptT ε (StateM s) s) :=
  ⟨fun _ _ _ h => by cases h⟩
theorem Throws.set (P : ε → Prop) (x : s) : Throws P (set x : ExceptT ε (StateM s) PUnit) :=
  ⟨fun _ _ _ h => by cases h⟩
theorem Throws.modify (P : ε → Prop) (g : s → s) : Throws P (modify g : ExceptT ε (StateM s) PUnit) :=
  ⟨fun _ _ _ h => by cases h⟩
theorem Throws.modifyGet (P : ε → Prop) (g : s → α × s) : Throws P (modifyGet g : ExceptT ε (StateM s) α) :=
  ⟨fun _ _ _ h => by cases h⟩

/-- every normal result of `m` satisfies `Q` -/
structure Returns (Q : α → Prop) (m : ExceptT ε (StateM s) α) : Prop where
  out : ∀ st a st', m.run.run st = (.ok a, st') → Q a

theorem Returns.pure {Q : α → Prop} {a : α} (h : Q a) : Returns Q (pure a : ExceptT ε (StateM s) α) :=
  ⟨fun _ _ _ h' => by cases h'; exact h⟩

/-- only the continuation matters -/
theorem Returns.bind {Q : β → Prop} {x : ExceptT ε (StateM s) α} {f : α → ExceptT ε (StateM s) β}
    (hf : ∀ a, Returns Q (f a)) : Returns Q (x >>= f) := by
  constructor
  intro st b st' h
  rw [run_bind] at h
  cases hr : x.run.run st with
  | mk r s1 =>
    rw [hr] at h
    cases r with
    | ok a => exact (hf a).out _ _ _ h
    | error e1 => cases h

theorem Returns.throw (Q : α → Prop) (e : ε) : Returns Q (throw e : ExceptT ε (StateM s) α) :=
  ⟨fun _ _ _ h' => by cases h'⟩

/-- `m` keeps the state predicate `I`, however it ends -/
structure Keeps (I : s → Prop) (m : ExceptT ε (StateM s) α) : Prop where
  out : ∀ st, I st → ∀ r s', m.run.run st = (r, s') → I s'

/-- the same for the run from one given state -/
structure KeepsFrom (I : s → Prop) (st : s) (m : ExceptT ε (StateM s) α) : Prop where
  out : ∀ r s', m.run.run st = (r, s') → I s'

theorem KeepsFrom.of_keeps {I : s → Prop} {st : s} {m : ExceptT ε (StateM s) α} (h : Keeps I m) (hi : I st) :
    KeepsFrom I st m := ⟨h.out st hi⟩

theorem Keeps.pure (I : s → Prop) (a : α) : Keeps I (pure a : ExceptT ε (StateM s) α) :=
  ⟨fun _ hi _ _ h => by cases h; exact hi⟩
theorem Keeps.throw (I : s → Prop) (e : ε) : Keeps I (throw e : ExceptT ε (StateM s) α) :=
  ⟨fun _ hi _ _ h => by cases h; exact hi⟩
theorem Keeps.get (I : s → Prop) : Keeps I (get : ExceptT ε (StateM s) s) :=
  ⟨fun _ hi _ _ h => by cases h; exact hi⟩
theorem Keeps.set {I : s → Prop} {x : s} (hx : I x) : Keeps I (set x : ExceptT ε (StateM s) PUnit) :=
  ⟨fun _ _ _ _ h => by cases h; exact hx⟩
theorem Keeps.modify {I : s → Prop} {g : s → s} (hg : ∀ st, I st → I (g st)) :
    Keeps I (modify g : ExceptT ε (StateM s) PUnit) :=
  ⟨fun _ hi _ _ h => by cases h; exact hg _ hi⟩

theorem Keeps.bind {I : s → Prop} {x : ExceptT ε (StateM s) α} {f : α → ExceptT ε (StateM s) β}
    (hx : Keeps I x) (hf : ∀ a, Keeps I (f a)) : Keeps I (x >>= f) := by
  constructor
  intro st hi r s' h
  rw [run_bind] at h
  cases hr : x.run.run st with
  | mk r1 s1 =>
    rw [hr] at h
    have h1 := hx.out st hi _ _ hr
    cases r1 with
    | ok a => exact (hf a).out _ h1 _ _ h
    | error e1 => cases h; exact h1

/-- after `get` the value in hand is a state satisfying `I` (and stays one, however stale) -/
theorem Keeps.get_bind {I : s → Prop} {f : s → ExceptT ε (StateM s) β}
    (hf : ∀ r, I r → Keeps I (f r)) : Keeps I (MonadState.get >>= f) := by
  constructor
  intro st hi r s' h
  rw [run_bind] at h
  exact (hf st hi).out st hi _ _ h

/-- … and the continuation starts in exactly that state -/
theorem Keeps.get_bind_from {I : s → Prop} {f : s → ExceptT ε (StateM s) β}
    (hf : ∀ r, I r → KeepsFrom I r (f r)) : Keeps I (MonadState.get >>= f) := by
  constructor
  intro st hi r s' h
  rw [run_bind] at h
  exact (hf st hi).out _ _ h

/-- Hoare triple with one invariant: from a state satisfying `I`, a normal return leaves a state
    satisfying `I`, an exception `e` leaves a state satisfying `E e` -/
structure Tri (I : s → Prop) (E : ε → s → Prop) (m : ExceptT ε (StateM s) α) : Prop where
  out : ∀ st, I st → ∀ r s', m.run.run st = (r, s') →
    match r with
    | .ok _ => I s'
    | .error e => E e s'

theorem Tri.pure (I : s → Prop) (E : ε → s → Prop) (a : α) : Tri I E (pure a : ExceptT ε (StateM s) α) :=
  ⟨fun _ hi _ _ h => by cases h; exact hi⟩
theorem Tri.get (I : s → Prop) (E : ε → s → Prop) : Tri I E (get : ExceptT ε (StateM s) s) :=
  ⟨fun _ hi _ _ h => by cases h; exact hi⟩
theorem Tri.throw {I : s → Prop} {E : ε → s → Prop} {e : ε} (h : ∀ st, I st → E e st) :
    Tri I E (throw e : ExceptT ε (StateM s) α) :=
  ⟨fun _ hi _ _ h' => by cases h'; exact h _ hi⟩
theorem Tri.set {I : s → Prop} {E : ε → s → Prop} {x : s} (hx : I x) :
    Tri I E (set x : ExceptT ε (StateM s) PUnit) :=
  ⟨fun _ _ _ _ h => by cases h; exact hx⟩
theorem Tri.modify {I : s → Prop} {E : ε → s → Prop} {g : s → s} (hg : ∀ st, I st → I (g st)) :
    Tri I E (modify g : ExceptT ε (StateM s) PUnit) :=
  ⟨fun _ hi _ _ h => by cases h; exact hg _ hi⟩

theorem Tri.modifyGet {I : s → Prop} {E : ε → s → Prop} {g : s → α × s} (hg : ∀ st, I st → I (g st).2) :
    Tri I E (modifyGet g : ExceptT ε (StateM s) α) :=
  ⟨fun _ hi _ _ h => by cases h; exact hg _ hi⟩

theorem Tri.bind {I : s → Prop} {E : ε → s → Prop} {x : ExceptT ε (StateM s) α}
    {f : α → ExceptT ε (StateM s) β} (hx : Tri I E x) (hf : ∀ a, Tri I E (f a)) : Tri I E (x >>= f) := by
  constructor
  intro st hi r s' h
  rw [run_bind] at h
  cases hr : x.run.run st with
  | mk r1 s1 =>
    rw [hr] at h
    have h1 := hx.out st hi _ _ hr
    cases r1 with
    | ok a => exact (hf a).out _ h1 _ _ h
    | error e1 => cases h; exact h1

theorem Tri.get_bind {I : s → Prop} {E : ε → s → Prop} {f : s → ExceptT ε (StateM s) β}
    (hf : ∀ r, I r → Tri I E (f r)) : Tri I E (MonadState.get >>= f) := by
  constructor
  intro st hi r s' h
  rw [run_bind] at h
  exact (hf st hi).out st hi _ _ h

end kit

/-- closes `P (thrown value)` for the status predicates below -/
macro "throws_triv" : tactic => `(tactic| first | (show True; exact True.intro) | (show _ ≠ _; intro h; cases h))

section tactics
open Lean Elab Tactic Meta

/-- goal `Throws P (have jp := f; body)` (a join point of the do-notation): prove the join point
    once (`∀ r, Throws P (f r)`), then the body with the join point abstract; an ordinary `have`
    is inlined.  (Inlining join points instead duplicates the continuation at every `if … then
    fail` of the C and makes the terms exponentially large.) -/
elab "throws_jp" : tactic => withMainContext do
  let g ← getMainGoal
  let t ← instantiateMVars (← g.getType)
  let some C := t.getAppFn.constName? | throwError "not a Throws/Returns goal"
  unless C == ``Throws || C == ``Returns || C == ``Keeps || C == ``KeepsFrom || C == ``Tri do
    throwError "not a Throws/Returns goal"
  let .letE n ty v b _ := t.appArg! | throwError "no join point"
  if C == ``KeepsFrom then
    let g' ← g.replaceTargetDefEq (mkApp t.appFn! (b.instantiate1 v))
    replaceMainGoal [g']
    return
  let .forallE rn rty _ _ ← whnfR ty
    | do let g' ← g.replaceTargetDefEq (mkApp t.appFn! (b.instantiate1 v))
         replaceMainGoal [g']
         return
  let t2 ← withLocalDeclD rn rty fun r => do
    mkForallFVars #[r] (mkApp t.appFn! (mkApp v r).headBeta)
  let t1 ← withLocalDeclD n ty fun jp => do
    let hty ← withLocalDeclD rn rty fun r => do
      mkForallFVars #[r] (mkApp t.appFn! (mkApp jp r))
    withLocalDeclD `hjp hty fun hjp => do
      mkForallFVars #[jp, hjp] (mkApp t.appFn! (b.instantiate1 jp))
  let g1 ← mkFreshExprSyntheticOpaqueMVar t1
  let g2 ← mkFreshExprSyntheticOpaqueMVar t2
  g.assign (mkApp2 g1 v g2)
  replaceMainGoal [g2.mvarId!, g1.mvarId!]

/-- apply a hypothesis of the form `∀ …, Throws P (…)` (a join point, an induction hypothesis) -/
elab "throws_hyp" : tactic => withMainContext do
  let g ← getMainGoal
  for d in (← getLCtx) do
    if d.isImplementationDetail then continue
    let ty ← instantiateMVars d.type
    if ty.getForallBody.isAppOf ``Throws || ty.getForallBody.isAppOf ``Returns || ty.getForallBody.isAppOf ``Keeps
        || ty.getForallBody.isAppOf ``Tri then
      let s ← saveState
      try
        let gs ← withReducible (g.apply d.toExpr)
        replaceMainGoal gs
        return
      catch _ => s.restore
  throwError "no hypothesis applies"

end tactics

/-- one structural step: the head of the action is `pure`/`get`/`set`/`modify`/`throw`/a bind or a
    binder.  Reducible transparency only: the actions contain 32768-sized literals and recursive
    callees that must not be unfolded by unification. -/
macro "throws_step" : tactic => `(tactic| first
  | with_reducible exact Throws.pure _ _
  | with_reducible exact Throws.get _
  | with_reducible exact Throws.set _ _
  | with_reducible exact Throws.modify _ _
  | with_reducible exact Throws.modifyGet _ _
  | with_reducible refine Throws.bind ?_ ?_
  | ((with_reducible refine Throws.throw ?_); throws_triv)
  | throws_hyp
  | intro _)

/-- `throws_step` to exhaustion, with the given facts about the callees, abstracting the
    do-notation's join points and splitting `if`/`match` -/
syntax "throws_auto" (" [" term,* "]")? : tactic
macro_rules
  | `(tactic| throws_auto) => `(tactic| repeat' first | throws_step | throws_jp | split)
  | `(tactic| throws_auto [$ts,*]) => do
    let alts ← ts.getElems.mapM fun t => `(tacticSeq| with_reducible apply $t)
    `(tactic| repeat' first | throws_step $[| $alts]* | throws_jp | split)

/-- the same for `Returns`: walks to the tail positions and leaves the `Q a` goals of the `pure`s -/
macro "returns_auto" : tactic => `(tactic| repeat' first
  | with_reducible refine Returns.bind ?_
  | with_reducible exact Returns.throw _ _
  | with_reducible refine Returns.pure ?_
  | throws_hyp
  | throws_jp
  | (intro _; skip)
  | split)

/-- the same for `Keeps`; `set`/`modify` goals are closed from the hypotheses by unfolding (the
    predicate must not mention the fields the action changes) -/
syntax "keeps_close" : tactic
macro_rules | `(tactic| keeps_close) => `(tactic| assumption)
/-- decoder-specific steps tried first (extended by `macro_rules` where needed) -/
syntax "keeps_extra" : tactic
macro_rules | `(tactic| keeps_extra) => `(tactic| fail "no extra step")
syntax "keeps_auto" (" [" term,* "]")? : tactic
macro_rules
  | `(tactic| keeps_auto [$ts,*]) => do
    let alts ← ts.getElems.mapM fun t => `(tacticSeq| with_reducible apply $t)
    `(tactic| repeat' first
      | keeps_extra
      | with_reducible exact Keeps.pure _ _
      | with_reducible exact Keeps.throw _ _
      | with_reducible exact Keeps.get _
      | ((with_reducible refine Keeps.set ?_); keeps_close)
      | ((with_reducible refine Keeps.modify ?_); intro _ _; keeps_close)
      | ((with_reducible refine Keeps.get_bind ?_); intro _ _)
      | with_reducible refine Keeps.bind ?_ ?_
      | throws_hyp
      $[| $alts]*
      | throws_jp
      | intro _
      | split)
  | `(tactic| keeps_auto) => `(tactic| keeps_auto [Keeps.pure _ _])

/-- the same for `Tri`; `tri_close` proves `I (updated state)` / `E e st` goals (decoder-specific) -/
syntax "tri_close" : tactic
macro_rules | `(tactic| tri_close) => `(tactic| assumption)
syntax "tri_auto" (" [" term,* "]")? : tactic
macro_rules
  | `(tactic| tri_auto [$ts,*]) => do
    let alts ← ts.getElems.mapM fun t => `(tacticSeq| with_reducible apply $t)
    `(tactic| repeat' first
      | with_reducible exact Tri.pure _ _ _
      | with_reducible exact Tri.get _ _
      | ((with_reducible refine Tri.throw ?_); intro _ _; tri_close)
      | ((with_reducible refine Tri.set ?_); tri_close)
      | ((with_reducible refine Tri.modify ?_); intro _ _; tri_close)
      | ((with_reducible refine Tri.modifyGet ?_); intro _ _; tri_close)
      | ((with_reducible refine Tri.get_bind ?_); intro _ _)
      | with_reducible refine Tri.bind ?_ ?_
      | throws_hyp
      $[| $alts]*
      | throws_jp
      | intro _
      | split)
  | `(tactic| tri_auto) => `(tactic| tri_auto [Tri.pure _ _ _])

/-! ## MSZIP -/
namespace Zip
open MsPack.Zip MsPack.Generated
variable {σ : Type} (S : Src σ)

/-- a status return of the MSZIP model never carries MSPACK_ERR_OK -/
def HaltOk : Zip.Halt → Prop
  | .sys e => e ≠ .ok
  | _ => True

theorem readInput_throws : Throws HaltOk (readInput S) := by
  unfold readInput; throws_auto

theorem nextByte_throws : Throws HaltOk (nextByte S) := by
  unfold nextByte; throws_auto [readInput_throws S]

theorem ensureBits_throws (n : Nat) : ∀ fuel, Throws HaltOk (ensureBits S n fuel) := by
  intro fuel
  induction fuel with
  | zero => rw [ensureBits.eq_1]; throws_auto
  | succ fuel ih => rw [ensureBits.eq_2]; throws_auto [ih, nextByte_throws S]

theorem removeBits_throws (n : Nat) : Throws HaltOk (removeBits (σ := σ) n) := by
  unfold removeBits; throws_auto

theorem readBits_throws (n : Nat) : Throws HaltOk (readBits S n) := by
  unfold readBits; throws_auto [ensureBits_throws S, removeBits_throws]

theorem readHuffSym_throws (c : Huff.Canon) : Throws HaltOk (readHuffSym S c) := by
  unfold readHuffSym; throws_auto [ensureBits_throws S, removeBits_throws]

theorem readLensLoop_throws (c : Huff.Canon) (total : Nat) : ∀ fuel lens last,
    Throws HaltOk (readLensLoop S c total fuel lens last) := by
  intro fuel
  induction fuel with
  | zero => intro lens last; rw [readLensLoop.eq_1]; throws_auto
  | succ fuel ih =>
    intro lens last; rw [readLensLoop.eq_2]
    throws_auto [ih, ensureBits_throws S, removeBits_throws, readBits_throws S]

theorem zipReadLens_rd_throws (blc : Nat) : ∀ k acc, Throws HaltOk (zipReadLens.rd S blc k acc) := by
  intro k
  induction k with
  | zero => intro acc; rw [zipReadLens.rd.eq_1]; throws_auto
  | succ k ih => intro acc; rw [zipReadLens.rd.eq_2]; throws_auto [ih, readBits_throws S]

theorem zipReadLens_throws : Throws HaltOk (zipReadLens S) := by
  unfold zipReadLens
  throws_auto [readBits_throws S, zipReadLens_rd_throws S, readLensLoop_throws S]

theorem flushWindow_throws (n : Nat) : Throws HaltOk (flushWindow (σ := σ) n) := by
  unfold flushWindow; throws_auto

theorem flushIfNeeded_throws : Throws HaltOk (flushIfNeeded (σ := σ)) := by
  unfold flushIfNeeded; throws_auto [flushWindow_throws]

theorem putByte_throws (b : UInt8) : Throws HaltOk (putByte (σ := σ) b) := by
  unfold putByte; throws_auto [flushIfNeeded_throws]

theorem copyStored_throws : ∀ fuel length, Throws HaltOk (copyStored S fuel length) := by
  intro fuel
  induction fuel with
  | zero => intro length; rw [copyStored.eq_1]; throws_auto
  | succ fuel ih =>
    intro length; rw [copyStored.eq_2]
    throws_auto [ih, readInput_throws S, flushIfNeeded_throws]

theorem copyMatch_throws : ∀ length posn, Throws HaltOk (copyMatch (σ := σ) length posn) := by
  intro length
  induction length with
  | zero => intro posn; rw [copyMatch.eq_1]; throws_auto
  | succ length ih => intro posn; rw [copyMatch.eq_2]; throws_auto [ih, putByte_throws]

theorem huffBlock_throws (lit dist : Huff.Canon) : ∀ fuel, Throws HaltOk (huffBlock S lit dist fuel) := by
  intro fuel
  induction fuel with
  | zero => rw [huffBlock.eq_1]; throws_auto
  | succ fuel ih =>
    rw [huffBlock.eq_2]
    throws_auto [ih, readHuffSym_throws S, readBits_throws S, putByte_throws, copyMatch_throws]

theorem inflate_more_throws : ∀ k acc, Throws HaltOk (inflate.more S k acc) := by
  intro k
  induction k with
  | zero => intro acc; rw [inflate.more.eq_1]; throws_auto
  | succ k ih => intro acc; rw [inflate.more.eq_2]; throws_auto [ih, nextByte_throws S]

theorem inflate_throws : ∀ fuel, Throws HaltOk (inflate S fuel) := by
  intro fuel
  induction fuel with
  | zero => rw [inflate.eq_1]; throws_auto
  | succ fuel ih =>
    rw [inflate.eq_2]
    throws_auto [ih, readBits_throws S, inflate_more_throws S, copyStored_throws S, zipReadLens_throws S,
      huffBlock_throws S, flushWindow_throws]

theorem scanCK_throws : ∀ fuel state, Throws HaltOk (scanCK S fuel state) := by
  intro fuel
  induction fuel with
  | zero => intro state; rw [scanCK.eq_1]; throws_auto
  | succ fuel ih => intro state; rw [scanCK.eq_2]; throws_auto [ih, readBits_throws S]

theorem runInflate_sys (fuel : Nat) (st : St σ) (e : Err) (s : St σ)
    (h : runInflate S fuel st = .ok (.sys e, s)) : e ≠ .ok := by
  unfold runInflate at h
  split at h
  · cases h
  · cases h
  · cases h
  · rename_i heq
    cases h
    exact (inflate_throws S fuel).out _ _ _ heq

/-- re-cut of `decompressLoop`: the state the repair mode leaves after a failed `inflate` -/
def repairSt (res : InfRes) (st : St σ) : St σ :=
  if res ≠ .ok then
    let bo := if st.bytesOutput = 0 ∧ st.windowPosn > 0 then st.bytesOutput + st.windowPosn else st.bytesOutput
    let win := (List.range (zipFRAME_SIZE - bo)).foldl (fun (a : Array UInt8) i => a.setIfInBounds (bo + i) 0) st.window
    { st with window := win, bytesOutput := zipFRAME_SIZE }
  else st

/-- re-cut of `decompressLoop`: handing out the frame and going round again -/
def loopTail (fuel n : Nat) (res : InfRes) (st : St σ) (outBytes : Nat) (w : Bytes) : Except Fault (Out σ) :=
  let frame := (st.window.toList.take st.bytesOutput)
  let i := min outBytes st.bytesOutput
  let w := w ++ frame.take i
  match res with
  | .sys e => if st.repair then .ok ⟨e, w, { st with pending := frame.drop i }⟩
              else .ok ⟨e, w, st⟩
  | _ => decompressLoop S fuel n { st with pending := frame.drop i } (outBytes - i) w

theorem repairSt_ok (res : InfRes) (st : St σ) (hw : WinOk st) (hi : res = .ok → Inv st) :
    WinOk (repairSt res st) ∧ (repairSt res st).bytesOutput ≤ zipFRAME_SIZE := by
  unfold repairSt
  split
  · refine ⟨?_, Nat.le_refl _⟩
    unfold WinOk
    dsimp only
    rw [foldl_setIfInBounds_size]
    exact hw
  · rename_i hres
    have := hi (Decidable.not_not.mp hres)
    exact ⟨hw, this.2.2⟩

theorem loopTail_count (fuel n : Nat)
    (ih : ∀ (st : St σ) (outBytes : Nat) (w : Bytes) (o : Out σ),
      decompressLoop S fuel n st outBytes w = .ok o →
      o.written.length ≤ w.length + outBytes ∧
      (WinOk st → o.err = .ok → o.written.length = w.length + outBytes))
    (res : InfRes) (hres : ∀ e, res = .sys e → e ≠ .ok) (st : St σ) (outBytes : Nat) (w : Bytes) (o : Out σ)
    (h : loopTail S fuel n res st outBytes w = .ok o) :
    o.written.length ≤ w.length + outBytes ∧
    (WinOk st → st.bytesOutput ≤ zipFRAME_SIZE → o.err = .ok → o.written.length = w.length + outBytes) := by
  unfold loopTail at h
  dsimp only at h
  have hlen : ((st.window.toList.take st.bytesOutput).take (min outBytes st.bytesOutput)).length ≤ outBytes := by
    simp only [List.length_take, Array.length_toList]; omega
  have hlen' : ((st.window.toList.take st.bytesOutput).take (min outBytes st.bytesOutput)).length
      ≤ min outBytes st.bytesOutput := by
    simp only [List.length_take, Array.length_toList]; omega
  have hlen2 : WinOk st → st.bytesOutput ≤ zipFRAME_SIZE →
      ((st.window.toList.take st.bytesOutput).take (min outBytes st.bytesOutput)).length
        = min outBytes st.bytesOutput := by
    intro hw hb
    unfold WinOk at hw
    simp only [List.length_take, Array.length_toList, hw]; omega
  split at h
  · rename_i e
    have he := hres e rfl
    split at h <;> cases h <;>
      exact ⟨by simp only [List.length_append]; omega, fun _ _ hc => absurd hc he⟩
  · have := ih _ _ _ _ h
    simp only [List.length_append] at this
    generalize ((st.window.toList.take st.bytesOutput).take (min outBytes st.bytesOutput)).length = a at *
    have hmin : min outBytes st.bytesOutput ≤ outBytes := Nat.min_le_left ..
    generalize min outBytes st.bytesOutput = i at *
    refine ⟨by omega, fun hw hb he => ?_⟩
    have h2 := this.2 hw he
    have h3 := hlen2 hw hb
    omega

theorem decompressLoop_count (fuel : Nat) : ∀ (n : Nat) (st : St σ) (outBytes : Nat) (w : Bytes) (o : Out σ),
    decompressLoop S fuel n st outBytes w = .ok o →
    o.written.length ≤ w.length + outBytes ∧
    (WinOk st → o.err = .ok → o.written.length = w.length + outBytes) := by
  intro n
  induction n with
  | zero => intro st outBytes w o h; rw [decompressLoop.eq_1] at h; cases h
  | succ n ih =>
    intro st outBytes w o h
    rw [decompressLoop.eq_2] at h
    split at h
    · cases h; rename_i h0; subst h0; simp
    · dsimp only at h
      split at h
      · cases h
      · cases h; simp
      · rename_i e s heq
        cases h
        refine ⟨by simp, fun _ he => absurd he ?_⟩
        exact (scanCK_throws S fuel 0).out _ _ _ heq
      · rename_i s heq
        split at h
        · cases h
        · rename_i res s2 hri
          have hsys : ∀ e, res = .sys e → e ≠ .ok := fun e he => runInflate_sys S fuel _ e s2 (he ▸ hri)
          split at h
          · rename_i hf
            cases h
            refine ⟨by simp, fun _ he => ?_⟩
            exfalso
            dsimp only at he
            cases res with
            | ok => exact hf.1 rfl
            | inf => cases he
            | sys e => exact hsys e rfl he
          · change loopTail S fuel n res (repairSt res s2) outBytes w = _ at h
            have := loopTail_count S fuel n ih res hsys _ _ _ _ h
            refine ⟨this.1, fun hw he => ?_⟩
            have hw1 : WinOk s :=
              ((scanCK_quiet S fuel 0).safeW S (st := { st with bits := st.bits.drop (st.bits.length % 8) }) hw).exec_ok heq
            have hi : Inv { s with windowPosn := 0, bytesOutput := 0 } :=
              ⟨hw1, by show 0 < zipFRAME_SIZE; decide, Nat.zero_le _⟩
            have h2 := runInflate_ok S fuel _ hi res s2 hri
            have h3 := repairSt_ok res s2 h2.1 h2.2
            exact this.2 h3.1 h3.2 he

theorem decompress_count (fuel : Nat) (st : St σ) (n : Nat) (o : Out σ)
    (h : decompress S fuel st n = .ok o) :
    o.written.length ≤ n ∧ (WinOk st → o.err = .ok → o.written.length = n) := by
  unfold decompress at h
  split at h
  · rename_i he
    cases h
    exact ⟨Nat.zero_le _, fun _ hc => absurd hc he⟩
  · dsimp only at h
    split at h
    · cases h
      simp only [List.length_take]
      omega
    · have := decompressLoop_count S fuel fuel _ _ _ _ h
      simp only [List.length_take] at this
      refine ⟨by omega, fun hw he => ?_⟩
      have := this.2 hw he
      omega

end Zip

/-! ## LZX -/
namespace Lzx
open MsPack.Lzx MsPack.Generated
variable {σ : Type} (S : Src σ)

/-- a status return of the LZX model never carries MSPACK_ERR_OK -/
def HaltOk : Lzx.Halt → Prop
  | .sys e => e ≠ .ok
  | _ => True

theorem fail_throws {α : Type} : Throws HaltOk (fail (σ := σ) (α := α) .decrunch) := by
  unfold fail; throws_auto

theorem readInput_throws : Throws HaltOk (readInput S) := by
  unfold readInput; throws_auto

theorem nextByte_throws : Throws HaltOk (nextByte S) := by
  unfold nextByte; throws_auto [readInput_throws S]

theorem ensureBits_throws (n : Nat) : ∀ fuel, Throws HaltOk (ensureBits S n fuel) := by
  intro fuel
  induction fuel with
  | zero => rw [ensureBits.eq_1]; throws_auto
  | succ fuel ih => rw [ensureBits.eq_2]; throws_auto [ih, nextByte_throws S]

theorem removeBits_throws (n : Nat) : Throws HaltOk (removeBits (σ := σ) n) := by
  unfold removeBits; throws_auto

theorem peekBits_throws (n : Nat) : Throws HaltOk (peekBits (σ := σ) n) := by
  unfold peekBits; throws_auto

theorem readBits_throws (n : Nat) : Throws HaltOk (readBits S n) := by
  unfold readBits; throws_auto [ensureBits_throws S, removeBits_throws, peekBits_throws]

theorem readHuffSym_throws (t : Option Huff.Canon) (name : String) : Throws HaltOk (readHuffSym S t name) := by
  unfold readHuffSym; throws_auto [ensureBits_throws S, removeBits_throws, fail_throws]

theorem getLen_throws (t : Tree) (x : Nat) : Throws HaltOk (getLen (σ := σ) t x) := by
  unfold getLen; throws_auto

theorem setLen_throws (t : Tree) (x : Nat) (v : UInt8) : Throws HaltOk (setLen (σ := σ) t x v) := by
  unfold setLen; throws_auto

theorem fillLens_throws (t : Tree) (v : UInt8) : ∀ y x, Throws HaltOk (fillLens (σ := σ) t v y x) := by
  intro y
  induction y with
  | zero => intro x; rw [fillLens.eq_1]; throws_auto
  | succ y ih => intro x; rw [fillLens.eq_2]; throws_auto [ih, setLen_throws]

theorem readLensLoop_throws (t : Tree) (pre : Huff.Canon) (last : Nat) : ∀ fuel x,
    Throws HaltOk (readLensLoop S t pre last fuel x) := by
  intro fuel
  induction fuel with
  | zero => intro x; rw [readLensLoop.eq_1]; throws_auto
  | succ fuel ih =>
    intro x; rw [readLensLoop.eq_2]
    throws_auto [ih, readHuffSym_throws S, readBits_throws S, fillLens_throws, getLen_throws, setLen_throws]

theorem readPretreeLens_throws : ∀ k x, Throws HaltOk (readPretreeLens S k x) := by
  intro k
  induction k with
  | zero => intro x; rw [readPretreeLens.eq_1]; throws_auto
  | succ k ih => intro x; rw [readPretreeLens.eq_2]; throws_auto [ih, readBits_throws S]

theorem readLengths_throws (fuel : Nat) (t : Tree) (first last : Nat) :
    Throws HaltOk (readLengths S fuel t first last) := by
  unfold readLengths; throws_auto [readPretreeLens_throws S, readLensLoop_throws S, fail_throws]

theorem readAlignedLens_throws : ∀ k x, Throws HaltOk (readAlignedLens S k x) := by
  intro k
  induction k with
  | zero => intro x; rw [readAlignedLens.eq_1]; throws_auto
  | succ k ih => intro x; rw [readAlignedLens.eq_2]; throws_auto [ih, readBits_throws S]

theorem readRaw_throws : ∀ k acc, Throws HaltOk (readRaw S k acc) := by
  intro k
  induction k with
  | zero => intro acc; rw [readRaw.eq_1]; throws_auto
  | succ k ih => intro acc; rw [readRaw.eq_2]; throws_auto [ih, nextByte_throws S]

theorem readBlockHeader_throws (fuel : Nat) : Throws HaltOk (readBlockHeader S fuel) := by
  unfold readBlockHeader
  throws_auto [nextByte_throws S, readBits_throws S, readAlignedLens_throws S, readLengths_throws S,
    getLen_throws, ensureBits_throws S, readRaw_throws S, fail_throws]

theorem winCopy_throws (n src dst : Nat) : Throws HaltOk (winCopy (σ := σ) n src dst) := by
  unfold winCopy; throws_auto

theorem putLiteral_throws (b : UInt8) : Throws HaltOk (putLiteral (σ := σ) b) := by
  unfold putLiteral; throws_auto

theorem readOffset_throws (c : RunCtx) (slot : Nat) : Throws HaltOk (readOffset S c slot) := by
  unfold readOffset; throws_auto [readBits_throws S, readHuffSym_throws S]

theorem readExtraLen_throws : Throws HaltOk (readExtraLen S) := by
  unfold readExtraLen
  throws_auto [ensureBits_throws S, peekBits_throws, removeBits_throws, readBits_throws S]

theorem copyMatch_throws (c : RunCtx) (mo ml : Nat) : Throws HaltOk (copyMatch (σ := σ) c mo ml) := by
  unfold copyMatch; throws_auto [winCopy_throws, fail_throws]

theorem decodeRun_throws (c : RunCtx) : ∀ fuel r, Throws HaltOk (decodeRun S c fuel r) := by
  intro fuel
  induction fuel with
  | zero => intro r; rw [decodeRun.eq_1]; throws_auto
  | succ fuel ih =>
    intro r; rw [decodeRun.eq_2]
    throws_auto [ih, readHuffSym_throws S, putLiteral_throws, fail_throws, readOffset_throws S,
      readExtraLen_throws S, copyMatch_throws]

theorem copyRaw_throws : ∀ fuel dest r, Throws HaltOk (copyRaw S fuel dest r) := by
  intro fuel
  induction fuel with
  | zero => intro dest r; rw [copyRaw.eq_1]; throws_auto
  | succ fuel ih => intro dest r; rw [copyRaw.eq_2]; throws_auto [ih, readInput_throws S]

theorem blockLoop_throws : ∀ fuel b, Throws HaltOk (blockLoop S fuel b) := by
  intro fuel
  induction fuel with
  | zero => intro b; rw [blockLoop.eq_1]; throws_auto
  | succ fuel ih =>
    intro b; rw [blockLoop.eq_2]
    throws_auto [ih, readBlockHeader_throws S, decodeRun_throws S, copyRaw_throws S, fail_throws]

theorem frameBody_throws (fuel outBytes : Nat) : Throws HaltOk (frameBody S fuel outBytes) := by
  unfold frameBody
  throws_auto [ensureBits_throws S, removeBits_throws, readBits_throws S, readInput_throws S,
    blockLoop_throws S, fail_throws]

theorem outSlice_size (st : St σ) (n : Nat) (c : Array UInt8) (h : outSlice st n = .ok c) : c.size = n := by
  unfold outSlice at h
  generalize (if st.oInE8 = true then st.e8Buf else st.window) = a at h
  dsimp only at h
  by_cases hc : st.oPtr + n ≤ a.size
  · rw [if_pos hc] at h
    cases h
    simp only [Array.size_extract]
    omega
  · rw [if_neg hc] at h
    cases h

theorem frameBody_returns (fuel outBytes : Nat) :
    Returns (fun c => c.size ≤ outBytes) (frameBody S fuel outBytes) := by
  unfold frameBody
  returns_auto
  rename_i heq _
  have h := outSlice_size _ _ _ heq
  rw [h]
  have key : ∀ fs : Nat, (if outBytes < fs then outBytes else fs) ≤ outBytes := by
    intro fs; split <;> omega
  exact key _

theorem frameLoop_count (fuel endFrame : Nat) : ∀ (n : Nat) (st : St σ) (outBytes : Nat) (acc : Array UInt8)
    (o : DecodeOut (St σ)), frameLoop S fuel endFrame n st outBytes acc = .ok o →
    o.written.length ≤ acc.size + outBytes ∧ (o.err = .ok → o.written.length = acc.size + outBytes) := by
  intro n
  induction n with
  | zero =>
    intro st outBytes acc o h
    rw [frameLoop.eq_1] at h
    split at h
    · cases h
    · split at h
      · cases h; exact ⟨by simp, fun hc => by cases hc⟩
      · rename_i h0
        cases h
        simp only [Decidable.not_not] at h0
        subst h0; simp
  | succ n ih =>
    intro st outBytes acc o h
    rw [frameLoop.eq_2] at h
    split at h
    · split at h
      · cases h
      · rename_i e s heq
        cases h
        exact ⟨by simp, fun hc => absurd hc ((frameBody_throws S fuel outBytes).out _ _ _ heq)⟩
      · rename_i chunk s heq
        have hc : chunk.size ≤ outBytes := (frameBody_returns S fuel outBytes).out _ _ _ heq
        have := ih _ _ _ _ h
        simp only [Array.size_append] at this
        refine ⟨by omega, fun he => ?_⟩
        have := this.2 he
        omega
    · split at h
      · cases h; exact ⟨by simp, fun hc => by cases hc⟩
      · rename_i h0
        cases h
        simp only [Decidable.not_not] at h0
        subst h0; simp

/-- **counting law of `lzxd_decompress`**, every source, fuel, state and request size -/
theorem decompress_count (fuel : Nat) (st : St σ) (n : Nat) (o : DecodeOut (St σ))
    (h : Lzx.decompress S fuel st n = .ok o) :
    o.written.length ≤ n ∧ (o.err = .ok → o.written.length = n) := by
  unfold Lzx.decompress at h
  split at h
  · rename_i he
    cases h
    exact ⟨Nat.zero_le _, fun hc => absurd hc he⟩
  · dsimp only at h
    split at h
    · cases h
    · rename_i chunk heq
      have hs := outSlice_size _ _ _ heq
      have hmin : min (st.oEnd - st.oPtr) n ≤ n := Nat.min_le_right ..
      generalize min (st.oEnd - st.oPtr) n = i at *
      split at h
      · cases h
        simp only [Array.length_toList]
        omega
      · have := frameLoop_count S fuel _ _ _ _ _ _ h
        refine ⟨by omega, fun he => ?_⟩
        have := this.2 he
        omega

end Lzx

end MsPack.CountLaws

/-! ## Quantum -/
namespace MsPack.CountLaws
namespace Qtm
open MsPack.Qtm MsPack.Generated
variable {σ : Type} (S : Src σ)

/-- a status return of the Quantum model never carries MSPACK_ERR_OK -/
def HaltOk : Qtm.Halt → Prop
  | .sys e => e ≠ .ok
  | _ => True

/-- bytes handed out so far + bytes still owed = the request -/
def Bal (T : Nat) (r : Run σ) : Prop := r.written.size + r.outBytes = T

theorem Bal_of {T : Nat} {a b : Run σ} (h : Bal T a) (h1 : b.written = a.written)
    (h2 : b.outBytes = a.outBytes) : Bal T b := by
  unfold Bal at *; rw [h1, h2]; exact h

open Lean Elab Tactic Meta in
/-- `Bal T b` from a hypothesis `Bal T a` with `b.written = a.written`, `b.outBytes = a.outBytes` by
    `rfl`.  (Not by defeq of `Bal T a` and `Bal T b`: the kernel compares the two `Run` records
    field by field first and gets lost in `… % u32`.) -/
elab "bal_close" : tactic => withMainContext do
  for d in (← getLCtx) do
    if d.isImplementationDetail then continue
    if (← instantiateMVars d.type).isAppOf ``Bal then
      let s ← saveState
      try
        let stx ← Term.exprToSyntax d.toExpr
        evalTactic (← `(tactic| exact Bal_of $stx rfl rfl))
        return
      catch _ => s.restore
  throwError "no balanced state in sight"

macro_rules | `(tactic| keeps_close) => `(tactic| bal_close)

section helpers
variable (T : Nat)

theorem fail_throws {α : Type} : Throws HaltOk (Qtm.fail (σ := σ) (α := α) .decrunch) := by
  unfold Qtm.fail modSt; throws_auto
theorem fail_keeps {α : Type} (e : Err) : Keeps (Bal T) (Qtm.fail (σ := σ) (α := α) e) := by
  unfold Qtm.fail modSt; keeps_auto

theorem liftF_throws {α : Type} (x : Except Fault α) : Throws HaltOk (liftF (σ := σ) x) := by
  unfold liftF; throws_auto
theorem liftF_keeps {α : Type} (x : Except Fault α) : Keeps (Bal T) (liftF (σ := σ) x) := by
  unfold liftF; keeps_auto

theorem readInput_throws : Throws HaltOk (Qtm.readInput S) := by
  unfold Qtm.readInput; throws_auto
theorem readInput_keeps : Keeps (Bal T) (Qtm.readInput S) := by
  unfold Qtm.readInput; keeps_auto

theorem nextByte_throws : Throws HaltOk (Qtm.nextByte S) := by
  unfold Qtm.nextByte; throws_auto [readInput_throws S]
theorem nextByte_keeps : Keeps (Bal T) (Qtm.nextByte S) := by
  unfold Qtm.nextByte; keeps_auto [readInput_keeps S T]

theorem readBytes_throws : Throws HaltOk (readBytes S) := by
  unfold readBytes; throws_auto [nextByte_throws S]
theorem readBytes_keeps : Keeps (Bal T) (readBytes S) := by
  unfold readBytes; keeps_auto [nextByte_keeps S T]

theorem ensureBits_throws (n : Nat) : ∀ k, Throws HaltOk (Qtm.ensureBits S n k) := by
  intro k
  induction k with
  | zero => rw [Qtm.ensureBits.eq_1]; throws_auto
  | succ k ih => rw [Qtm.ensureBits.eq_2]; throws_auto [readBytes_throws S]
theorem ensureBits_keeps (n : Nat) : ∀ k, Keeps (Bal T) (Qtm.ensureBits S n k) := by
  intro k
  induction k with
  | zero => rw [Qtm.ensureBits.eq_1]; keeps_auto
  | succ k ih => rw [Qtm.ensureBits.eq_2]; keeps_auto [readBytes_keeps S T]

theorem peekBits_throws (n : Nat) : Throws HaltOk (Qtm.peekBits (σ := σ) n) := by
  unfold Qtm.peekBits; throws_auto
theorem peekBits_keeps (n : Nat) : Keeps (Bal T) (Qtm.peekBits (σ := σ) n) := by
  unfold Qtm.peekBits; keeps_auto

theorem removeBits_throws (n : Nat) : Throws HaltOk (Qtm.removeBits (σ := σ) n) := by
  unfold Qtm.removeBits; throws_auto
theorem removeBits_keeps (n : Nat) : Keeps (Bal T) (Qtm.removeBits (σ := σ) n) := by
  unfold Qtm.removeBits; keeps_auto

theorem readBits_throws (n : Nat) : Throws HaltOk (Qtm.readBits S n) := by
  unfold Qtm.readBits; throws_auto [ensureBits_throws S, peekBits_throws, removeBits_throws]
theorem readBits_keeps (n : Nat) : Keeps (Bal T) (Qtm.readBits S n) := by
  unfold Qtm.readBits; keeps_auto [ensureBits_keeps S T, peekBits_keeps T, removeBits_keeps T]

theorem readManyLoop_throws : ∀ k needed val, Throws HaltOk (readManyLoop S k needed val) := by
  intro k
  induction k with
  | zero => intro needed val; rw [readManyLoop.eq_1]; throws_auto
  | succ k ih =>
    intro needed val; rw [readManyLoop.eq_2]
    throws_auto [readBytes_throws S, peekBits_throws, removeBits_throws]
theorem readManyLoop_keeps : ∀ k needed val, Keeps (Bal T) (readManyLoop S k needed val) := by
  intro k
  induction k with
  | zero => intro needed val; rw [readManyLoop.eq_1]; keeps_auto
  | succ k ih =>
    intro needed val; rw [readManyLoop.eq_2]
    keeps_auto [readBytes_keeps S T, peekBits_keeps T, removeBits_keeps T]

theorem readManyBits_throws (bits : Nat) : Throws HaltOk (readManyBits S bits) := by
  unfold readManyBits; exact readManyLoop_throws S _ _ _
theorem readManyBits_keeps (bits : Nat) : Keeps (Bal T) (readManyBits S bits) := by
  unfold readManyBits; exact readManyLoop_keeps S T _ _ _

theorem renorm_throws : ∀ fuel, Throws HaltOk (renorm S fuel) := by
  intro fuel
  induction fuel with
  | zero => rw [renorm.eq_1]; throws_auto
  | succ fuel ih =>
    rw [renorm.eq_2]; throws_auto [ensureBits_throws S, peekBits_throws, removeBits_throws]
theorem renorm_keeps : ∀ fuel, Keeps (Bal T) (renorm S fuel) := by
  intro fuel
  induction fuel with
  | zero => rw [renorm.eq_1]; keeps_auto
  | succ fuel ih =>
    rw [renorm.eq_2]; keeps_auto [ensureBits_keeps S T, peekBits_keeps T, removeBits_keeps T]

theorem getSymbol_throws (fuel : Nat) (id : MId) : Throws HaltOk (getSymbol S fuel id) := by
  unfold getSymbol; throws_auto [liftF_throws, renorm_throws S]
theorem getSymbol_keeps (fuel : Nat) (id : MId) : Keeps (Bal T) (getSymbol S fuel id) := by
  unfold getSymbol; keeps_auto [liftF_keeps T, renorm_keeps S T]

theorem tableAt_throws (what : String) (t : List Nat) (i : Nat) : Throws HaltOk (tableAt (σ := σ) what t i) := by
  unfold tableAt; throws_auto
theorem tableAt_keeps (what : String) (t : List Nat) (i : Nat) : Keeps (Bal T) (tableAt (σ := σ) what t i) := by
  unfold tableAt; keeps_auto

theorem copyFwd_throws (n a d : Nat) : Throws HaltOk (Qtm.copyFwd (σ := σ) n a d) := by
  unfold Qtm.copyFwd; throws_auto
theorem copyFwd_keeps (n a d : Nat) : Keeps (Bal T) (Qtm.copyFwd (σ := σ) n a d) := by
  unfold Qtm.copyFwd; keeps_auto

theorem copyMasked_throws (n j d : Nat) : Throws HaltOk (copyMasked (σ := σ) n j d) := by
  unfold copyMasked; throws_auto
theorem copyMasked_keeps (n j d : Nat) : Keeps (Bal T) (copyMasked (σ := σ) n j d) := by
  unfold copyMasked; keeps_auto

theorem writeOut_throws (p n : Nat) : Throws HaltOk (writeOut (σ := σ) p n) := by
  unfold writeOut; throws_auto

theorem readOffset_throws (sym : Nat) : Throws HaltOk (Qtm.readOffset S sym) := by
  unfold Qtm.readOffset; throws_auto [tableAt_throws, readManyBits_throws S]
theorem readOffset_keeps (sym : Nat) : Keeps (Bal T) (Qtm.readOffset S sym) := by
  unfold Qtm.readOffset; keeps_auto [tableAt_keeps T, readManyBits_keeps S T]

theorem trailerScan_throws : ∀ fuel, Throws HaltOk (trailerScan S fuel) := by
  intro fuel
  induction fuel with
  | zero => rw [trailerScan.eq_1]; throws_auto
  | succ fuel ih => rw [trailerScan.eq_2]; throws_auto [readBits_throws S]
theorem trailerScan_keeps : ∀ fuel, Keeps (Bal T) (trailerScan S fuel) := by
  intro fuel
  induction fuel with
  | zero => rw [trailerScan.eq_1]; keeps_auto
  | succ fuel ih => rw [trailerScan.eq_2]; keeps_auto [readBits_keeps S T]

end helpers

theorem symbolLoop_throws (fuel frameEnd : Nat) : ∀ n, Throws HaltOk (symbolLoop S fuel frameEnd n) := by
  intro n
  induction n with
  | zero => rw [symbolLoop.eq_1]; throws_auto
  | succ n ih =>
    rw [symbolLoop.eq_2]
    throws_auto [getSymbol_throws S, readOffset_throws S, tableAt_throws, readManyBits_throws S, fail_throws,
      copyMasked_throws, copyFwd_throws, writeOut_throws]

theorem blockLoop_throws (fuel : Nat) : ∀ n, Throws HaltOk (Qtm.blockLoop S fuel n) := by
  intro n
  induction n with
  | zero => rw [Qtm.blockLoop.eq_1]; throws_auto
  | succ n ih =>
    rw [Qtm.blockLoop.eq_2]
    throws_auto [readBits_throws S, symbolLoop_throws S, fail_throws, removeBits_throws, trailerScan_throws S,
      writeOut_throws]

theorem body_throws (fuel : Nat) : Throws HaltOk (body S fuel) := by
  unfold body
  throws_auto [blockLoop_throws S, writeOut_throws]

end Qtm
end MsPack.CountLaws

/-! ## `cabd_extract` with a decoder invariant -/
namespace MsPack.CountLaws.CabInv
open MsPack MsPack.Cab

/-- a predicate on decoder states that every `decompress` call keeps -/
def Kept (files : Files) (P : Dec → Prop) : Prop :=
  ∀ dec fd n o, P dec → decompress files dec fd n = .ok (some o) → P o.dec

/-- the decoder a (cached or absent) `self->d` carries satisfies `P` -/
def CacheOk (P : Dec → Prop) (d : Option DState) : Prop :=
  ∀ ds dec, d = some ds → ds.dec = some dec → P dec

theorem runPhase_kept (files : Files) (P : Dec → Prop) (hK : Kept files P) (ds : DState) (dec : Dec) (n : Nat)
    (hp : P dec) (e : Err) (w : Bytes) (ds' : DState) (h : runPhase files ds dec n = .ran e w ds') :
    ∀ dec', ds'.dec = some dec' → P dec' := by
  unfold runPhase at h
  split at h
  · contradiction
  · contradiction
  · rename_i o ho
    simp only [PhaseResult.ran.injEq] at h
    intro dec' hd
    rw [← h.2.2] at hd
    simp only [Option.some.injEq] at hd
    exact hd ▸ hK _ _ _ _ hp ho

theorem obtain_ok (files : Files) (P : Dec → Prop) (p : Params) (d : Option DState) (m : Member) (key : Nat)
    (hd : CacheOk P d) (hinit : ∀ dec, initDec p m.compType = some dec → P dec) (ds : DState)
    (h : obtainDState files p d m key = .ok ds) : ∀ dec, ds.dec = some dec → P dec := by
  have fresh : ∀ ds, freshDState files p m key = .ok ds → ∀ dec, ds.dec = some dec → P dec := by
    intro ds h
    unfold freshDState at h
    split at h
    · cases h
    · split at h
      · cases h
      · split at h
        · cases h
        · rename_i dec0 hi
          cases h
          intro dec hdec
          simp only [Option.some.injEq] at hdec
          exact hdec ▸ hinit _ hi
  unfold obtainDState at h
  split at h
  · split at h
    · cases h
      exact fun dec hdec => hd _ _ rfl hdec
    · exact fresh _ h
  · exact fresh _ h

theorem runPhases_count (files : Files) (P : Dec → Prop) (hL : ∀ dec, P dec → CountLaw files dec)
    (hK : Kept files P) (ds : DState) (hds : ∀ dec, ds.dec = some dec → P dec) (m : Member)
    (filelen : Nat) (e : Err) (w : Bytes) (d' : Option DState)
    (h : runPhases files ds m filelen = .done e (some w) d') : w.length ≤ filelen ∧ CacheOk P d' := by
  unfold runPhases at h
  split at h
  · simp at h
  · rename_i dec hdec
    have hp := hds _ hdec
    split at h
    · simp only [ExtractResult.done.injEq, Option.some.injEq] at h
      rw [← h.2.1, ← h.2.2]
      exact ⟨by simp, fun ds' dec' h1 h2 => by cases h1; exact hds _ h2⟩
    · simp only at h
      split at h
      · split at h
        · contradiction
        · contradiction
        · rename_i hr
          simp only [ExtractResult.done.injEq, Option.some.injEq] at h
          rw [← h.2.1, ← h.2.2]
          exact ⟨runPhase_count _ _ _ _ (hL _ hp) _ _ _ hr,
            fun ds' dec' h1 h2 => by cases h1; exact runPhase_kept files P hK _ _ _ hp _ _ _ hr _ h2⟩
      · split at h
        · contradiction
        · contradiction
        · rename_i e1 w1 ds1 hr1
          have hk1 := runPhase_kept files P hK _ _ _ hp _ _ _ hr1
          split at h
          · simp only [ExtractResult.done.injEq, Option.some.injEq] at h
            rw [← h.2.1, ← h.2.2]
            exact ⟨by simp, fun ds' dec' h1 h2 => by cases h1; exact hk1 _ h2⟩
          · split at h
            · simp at h
            · rename_i dec1 hdec1
              have hp1 := hk1 _ hdec1
              split at h
              · contradiction
              · contradiction
              · rename_i hr
                simp only [ExtractResult.done.injEq, Option.some.injEq] at h
                rw [← h.2.1, ← h.2.2]
                exact ⟨runPhase_count _ _ _ _ (hL _ hp1) _ _ _ hr,
                  fun ds' dec' h1 h2 => by cases h1; exact runPhase_kept files P hK _ _ _ hp1 _ _ _ hr _ h2⟩

/-- **C07, upper bound, with a decoder invariant**: the counting law is only needed for the decoder
    states `P` that `extract` can meet — those of the cache handed in, of `initDec`, and what
    `decompress` makes of them; the cache handed back satisfies `P` again -/
theorem extract_written_le (files : Files) (P : Dec → Prop) (hL : ∀ dec, P dec → CountLaw files dec)
    (hK : Kept files P) (p : Params) (d : Option DState) (m : Member) (hd : CacheOk P d)
    (hinit : ∀ dec, initDec p m.compType = some dec → P dec)
    (e : Err) (w : Bytes) (d' : Option DState)
    (h : extract files p d m = .done e (some w) d') : w.length ≤ m.length ∧ CacheOk P d' := by
  unfold extract at h
  split at h
  · simp at h
  · rename_i filelen key hc
    split at h
    · simp at h
    · rename_i ds hob
      have := runPhases_count files P hL hK ds (obtain_ok files P p d m key hd hinit ds hob) m filelen e w d' h
      exact ⟨Nat.le_trans this.1 (memberCheck_le _ _ _ _ hc), this.2⟩

theorem runPhases_ok (files : Files) (P : Dec → Prop) (hL : ∀ dec, P dec → CountLaw files dec)
    (hR : ∀ dec, P dec → ReadErrLaw files dec)
    (hK : Kept files P) (ds : DState) (hds : ∀ dec, ds.dec = some dec → P dec) (m : Member)
    (filelen : Nat) (w : Bytes) (d' : Option DState)
    (h : runPhases files ds m filelen = .done .ok (some w) d') : w.length = filelen := by
  unfold runPhases at h
  split at h
  · simp at h
  · rename_i dec hdec
    have hp := hds _ hdec
    split at h
    · rename_i h0
      simp only [ExtractResult.done.injEq, Option.some.injEq] at h; rw [← h.2.1, h0]; simp
    · simp only at h
      split at h
      · split at h
        · contradiction
        · contradiction
        · rename_i hr
          simp only [ExtractResult.done.injEq, Option.some.injEq] at h
          rw [← h.2.1]; rw [h.1] at hr; exact runPhase_ok _ _ _ _ (hL _ hp) (hR _ hp) _ _ hr
      · split at h
        · contradiction
        · contradiction
        · rename_i e1 w1 ds1 hr1
          have hk1 := runPhase_kept files P hK _ _ _ hp _ _ _ hr1
          split at h
          · rename_i hne
            simp only [ExtractResult.done.injEq] at h
            exact absurd h.1 hne
          · split at h
            · simp at h
            · rename_i dec1 hdec1
              have hp1 := hk1 _ hdec1
              split at h
              · contradiction
              · contradiction
              · rename_i hr
                simp only [ExtractResult.done.injEq, Option.some.injEq] at h
                rw [← h.2.1]; rw [h.1] at hr; exact runPhase_ok _ _ _ _ (hL _ hp1) (hR _ hp1) _ _ hr

/-- **C07, completeness on OK (strict mode), with a decoder invariant** -/
theorem extract_ok_complete (files : Files) (P : Dec → Prop) (hL : ∀ dec, P dec → CountLaw files dec)
    (hR : ∀ dec, P dec → ReadErrLaw files dec) (hK : Kept files P)
    (p : Params) (hs : p.salvage = false) (d : Option DState) (m : Member) (hd : CacheOk P d)
    (hinit : ∀ dec, initDec p m.compType = some dec → P dec) (w : Bytes) (d' : Option DState)
    (h : extract files p d m = .done .ok (some w) d') : w.length = m.length := by
  unfold extract at h
  split at h
  · simp at h
  · rename_i filelen key hc
    split at h
    · simp at h
    · rename_i ds hob
      rw [← memberCheck_strict _ _ _ _ hs hc]
      exact runPhases_ok files P hL hR hK ds (obtain_ok files P p d m key hd hinit ds hob) m filelen w d' h

end MsPack.CountLaws.CabInv
