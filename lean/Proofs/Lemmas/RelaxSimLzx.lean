import Lean
import Proofs.Lemmas.RelaxSim
/-!
# C18: the `Rel2` walk over the LZX decoder (lemmas for C18Extract)

The LZX decoder never looks at the relaxation flags; the two runs differ only in the feeder inside the state.
`LR a b`: `b` is `a` with its feeder replaced by an `FR`-related one.
-/
set_option linter.unusedSimpArgs false
namespace MsPack.CountLaws.Relax
open MsPack MsPack.Cab MsPack.Lzx
open MsPack.CountLaws.ReadErr (run_set_bind run_set run_throw)
open MsPack.CountLaws.Qtm (run_get_bind run_throw_bind run_modify run_modify_bind run_pure run_ite)

section kit
variable {ε s α β : Type}
theorem Rel2.modifyGet {R : s → s → Prop} {g1 g2 : s → α × s}
    (h : ∀ a b, R a b → (g2 b).1 = (g1 a).1 ∧ R (g1 a).2 (g2 b).2) :
    Rel2 R (modifyGet g1 : ExceptT ε (StateM s) α) (modifyGet g2) := by
  constructor
  intro s1 s2 hr a s1' h'
  cases h'
  exact ⟨(g2 s2).2, by show (Except.ok (g2 s2).1, (g2 s2).2) = _; rw [(h s1 s2 hr).1], (h s1 s2 hr).2⟩
end kit

variable (files : Files)

def LR (a b : Lzx.St Feeder) : Prop := ∃ fd, FR a.src fd ∧ b = { a with src := fd }

theorem lzx_outSlice_src (st : Lzx.St Feeder) (fd : Feeder) (n : Nat) :
    outSlice ({ st with src := fd } : Lzx.St Feeder) n = outSlice st n := rfl

open Lean Elab Tactic Meta in
/-- replace the second state by "the first with another feeder" and reduce its projections -/
elab "lr_norm" : tactic => withMainContext do
  for d in (← getLCtx).decls.toList.reverse.filterMap id do
    if d.isImplementationDetail then continue
    let ty ← instantiateMVars d.type
    if ty.isAppOf ``LR && ty.appArg!.isFVar then
      let h ← Term.exprToSyntax d.toExpr
      evalTactic (← `(tactic| (obtain ⟨_, _, h'⟩ := $h; subst h'; (try dsimp -zeta only); try simp -zeta only [lzx_outSlice_src])))
      return
  throwError "lr_norm: no LR hypothesis"

open Lean Elab Tactic Meta in
elab "lr_close" : tactic => withMainContext do
  let s0 ← saveState
  try
    evalTactic (← `(tactic| (refine ⟨_, by assumption, ?_⟩; first | (dsimp only; done) | rfl)))
    return
  catch _ => s0.restore
  for d in (← getLCtx) do
    if d.isImplementationDetail then continue
    if (← instantiateMVars d.type).isAppOf ``LR then
      let s ← saveState
      try
        let h ← Term.exprToSyntax d.toExpr
        evalTactic (← `(tactic| (obtain ⟨fd, hf, h'⟩ := $h; subst h'; refine ⟨fd, hf, ?_⟩; first | (dsimp only; done) | rfl)))
        return
      catch _ => s.restore
  throwError "lr_close: nothing applies"

macro_rules | `(tactic| rel_close) => `(tactic| lr_close)
macro_rules | `(tactic| rel_norm) => `(tactic| lr_norm)

local notation "LS" => feederSrc files
local notation "LL" => Rel2 LR

theorem lzx_fail_rel {α : Type} (e : Err) : LL (Lzx.fail (σ := Feeder) (α := α) e) (Lzx.fail e) := by
  constructor
  intro s1 s2 _ a s1' h
  unfold Lzx.fail at h
  rw [run_modify_bind] at h
  cases h

theorem lzx_removeBits_rel (n : Nat) : LL (Lzx.removeBits (σ := Feeder) n) (Lzx.removeBits n) := by
  unfold Lzx.removeBits; rel_auto

theorem lzx_peekBits_rel (n : Nat) : LL (Lzx.peekBits (σ := Feeder) n) (Lzx.peekBits n) := by
  unfold Lzx.peekBits; rel_auto

theorem lzx_readInput_rel : LL (Lzx.readInput LS) (Lzx.readInput LS) := by
  constructor
  intro s1 s2 hr a s1' h
  obtain ⟨fd, hf, rfl⟩ := hr
  unfold Lzx.readInput at h ⊢
  rw [run_get_bind] at h ⊢
  dsimp -zeta only at h ⊢
  split at h
  · rw [run_throw] at h; cases h
  · rename_i got src hrd
    dsimp only at h
    split at h
    · rw [run_set_bind, run_throw] at h; cases h
    · obtain ⟨fd2', h2, hf'⟩ := feederSrc_rel files _ _ _ _ _ hf hrd
      rw [h2]
      dsimp only
      have hl : (feederSrc files).lzxLength fd2' = (feederSrc files).lzxLength src := hf'.lzxLen
      rw [hl]
      split at h
      · rw [run_set_bind, run_throw] at h; cases h
      · rename_i hie
        rw [run_set] at h; cases h
        rw [if_neg hie, run_set]
        exact ⟨_, rfl, fd2', hf', rfl⟩
    · rename_i g hne
      obtain ⟨fd2', h2, hf'⟩ := feederSrc_rel files _ _ _ _ _ hf hrd
      rw [h2]
      dsimp only
      have hl : (feederSrc files).lzxLength fd2' = (feederSrc files).lzxLength src := hf'.lzxLen
      rw [hl]
      rw [run_set] at h; cases h
      cases g with
      | nil => exact absurd rfl hne
      | cons b rest =>
        dsimp only
        rw [run_set]
        exact ⟨_, rfl, fd2', hf', rfl⟩

theorem lzx_nextByte_rel : LL (Lzx.nextByte LS) (Lzx.nextByte LS) := by
  unfold Lzx.nextByte; rel_auto [lzx_readInput_rel files]

theorem lzx_ensureBits_rel (n : Nat) : ∀ fuel, LL (Lzx.ensureBits LS n fuel) (Lzx.ensureBits LS n fuel) := by
  intro fuel
  induction fuel with
  | zero => rw [Lzx.ensureBits.eq_1]; rel_auto
  | succ fuel ih => rw [Lzx.ensureBits.eq_2]; rel_auto [lzx_nextByte_rel files]

theorem lzx_readBits_rel (n : Nat) : LL (Lzx.readBits LS n) (Lzx.readBits LS n) := by
  unfold Lzx.readBits; rel_auto [lzx_ensureBits_rel files, lzx_removeBits_rel, lzx_peekBits_rel]

theorem lzx_readHuffSym_rel (t : Option Huff.Canon) (name : String) :
    LL (Lzx.readHuffSym LS t name) (Lzx.readHuffSym LS t name) := by
  unfold Lzx.readHuffSym; rel_auto [lzx_ensureBits_rel files, lzx_removeBits_rel, lzx_fail_rel]

theorem lzx_getLen_rel (t : Tree) (x : Nat) : LL (getLen (σ := Feeder) t x) (getLen t x) := by
  unfold getLen; rel_auto

theorem lzx_setLen_rel (t : Tree) (x : Nat) (v : UInt8) : LL (setLen (σ := Feeder) t x v) (setLen t x v) := by
  unfold setLen; rel_auto

theorem lzx_fillLens_rel (t : Tree) (v : UInt8) : ∀ y x, LL (fillLens (σ := Feeder) t v y x) (fillLens t v y x) := by
  intro y
  induction y with
  | zero => intro x; rw [fillLens.eq_1]; rel_auto
  | succ y ih => intro x; rw [fillLens.eq_2]; rel_auto [lzx_setLen_rel]

theorem lzx_readLensLoop_rel (t : Tree) (pre : Huff.Canon) (last : Nat) : ∀ fuel x,
    LL (Lzx.readLensLoop LS t pre last fuel x) (Lzx.readLensLoop LS t pre last fuel x) := by
  intro fuel
  induction fuel with
  | zero => intro x; rw [Lzx.readLensLoop.eq_1]; rel_auto
  | succ fuel ih =>
    intro x; rw [Lzx.readLensLoop.eq_2]
    rel_auto [lzx_readHuffSym_rel files, lzx_readBits_rel files, lzx_fillLens_rel, lzx_getLen_rel, lzx_setLen_rel]

theorem lzx_readPretreeLens_rel : ∀ k x, LL (readPretreeLens LS k x) (readPretreeLens LS k x) := by
  intro k
  induction k with
  | zero => intro x; rw [readPretreeLens.eq_1]; rel_auto
  | succ k ih => intro x; rw [readPretreeLens.eq_2]; rel_auto [lzx_readBits_rel files]

theorem lzx_readLengths_rel (fuel : Nat) (t : Tree) (first last : Nat) :
    LL (readLengths LS fuel t first last) (readLengths LS fuel t first last) := by
  unfold readLengths; rel_auto [lzx_readPretreeLens_rel files, lzx_readLensLoop_rel files, lzx_fail_rel]

theorem lzx_readAlignedLens_rel : ∀ k x, LL (readAlignedLens LS k x) (readAlignedLens LS k x) := by
  intro k
  induction k with
  | zero => intro x; rw [readAlignedLens.eq_1]; rel_auto
  | succ k ih => intro x; rw [readAlignedLens.eq_2]; rel_auto [lzx_readBits_rel files]

theorem lzx_readRaw_rel : ∀ k acc, LL (readRaw LS k acc) (readRaw LS k acc) := by
  intro k
  induction k with
  | zero => intro acc; rw [readRaw.eq_1]; rel_auto
  | succ k ih => intro acc; rw [readRaw.eq_2]; rel_auto [lzx_nextByte_rel files]

theorem lzx_readBlockHeader_rel (fuel : Nat) : LL (readBlockHeader LS fuel) (readBlockHeader LS fuel) := by
  unfold readBlockHeader
  rel_auto [lzx_nextByte_rel files, lzx_readBits_rel files, lzx_readAlignedLens_rel files, lzx_readLengths_rel files,
    lzx_getLen_rel, lzx_ensureBits_rel files, lzx_readRaw_rel files, lzx_fail_rel]

/-- the `modifyGet` steps: same value, related states -/
macro "lr_mg" : tactic => `(tactic| (
  intro a b h
  obtain ⟨fd, hf, h'⟩ := h
  subst h'
  dsimp only
  first
    | exact ⟨rfl, fd, hf, rfl⟩
    | (split <;> exact ⟨rfl, fd, hf, rfl⟩)))

theorem lzx_winCopy_rel (n src dst : Nat) : LL (winCopy (σ := Feeder) n src dst) (winCopy n src dst) := by
  unfold winCopy
  refine Rel2.bind (Rel2.modifyGet ?_) ?_
  · lr_mg
  · intro r; rel_auto

theorem lzx_putLiteral_rel (b : UInt8) : LL (putLiteral (σ := Feeder) b) (putLiteral b) := by
  unfold putLiteral
  refine Rel2.bind (Rel2.modifyGet ?_) ?_
  · lr_mg
  · intro r; rel_auto

theorem lzx_readOffset_rel (c : RunCtx) (slot : Nat) : LL (Lzx.readOffset LS c slot) (Lzx.readOffset LS c slot) := by
  unfold Lzx.readOffset; rel_auto [lzx_readBits_rel files, lzx_readHuffSym_rel files]

theorem lzx_readExtraLen_rel : LL (readExtraLen LS) (readExtraLen LS) := by
  unfold readExtraLen
  rel_auto [lzx_ensureBits_rel files, lzx_peekBits_rel, lzx_removeBits_rel, lzx_readBits_rel files]

theorem lzx_copyMatch_rel (c : RunCtx) (mo ml : Nat) : LL (Lzx.copyMatch (σ := Feeder) c mo ml) (Lzx.copyMatch c mo ml) := by
  unfold Lzx.copyMatch; rel_auto [lzx_winCopy_rel, lzx_fail_rel]

theorem lzx_decodeRun_rel (c : RunCtx) : ∀ fuel r, LL (decodeRun LS c fuel r) (decodeRun LS c fuel r) := by
  intro fuel
  induction fuel with
  | zero => intro r; rw [decodeRun.eq_1]; rel_auto
  | succ fuel ih =>
    intro r; rw [decodeRun.eq_2]
    rel_auto [lzx_readHuffSym_rel files, lzx_putLiteral_rel, lzx_fail_rel, lzx_readOffset_rel files,
      lzx_readExtraLen_rel files, lzx_copyMatch_rel]

theorem lzx_copyRaw_rel : ∀ fuel dest r, LL (copyRaw LS fuel dest r) (copyRaw LS fuel dest r) := by
  intro fuel
  induction fuel with
  | zero => intro dest r; rw [copyRaw.eq_1]; rel_auto
  | succ fuel ih =>
    intro dest r; rw [copyRaw.eq_2]
    rel_auto [lzx_readInput_rel files]
    all_goals (refine Rel2.modifyGet ?_; lr_mg)

theorem lzx_blockLoop_rel : ∀ fuel b, LL (Lzx.blockLoop LS fuel b) (Lzx.blockLoop LS fuel b) := by
  intro fuel
  induction fuel with
  | zero => intro b; rw [Lzx.blockLoop.eq_1]; rel_auto
  | succ fuel ih =>
    intro b; rw [Lzx.blockLoop.eq_2]
    rel_auto [lzx_readBlockHeader_rel files, lzx_decodeRun_rel files, lzx_copyRaw_rel files, lzx_fail_rel]

theorem lzx_resetState_rel : LL (modify (resetState (σ := Feeder)) : LM Feeder PUnit) (modify resetState) := by
  refine Rel2.modify ?_
  intro a b h
  obtain ⟨fd, hf, h'⟩ := h
  subst h'
  refine ⟨fd, hf, ?_⟩
  unfold resetState
  dsimp only

end MsPack.CountLaws.Relax
