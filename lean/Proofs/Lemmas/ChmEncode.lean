import Lean
import MsPack.Chm.Headers
import MsPack.Spec.ChmEncode
import Proofs.Lemmas.CabEncode
import Proofs.Props.C03
/-
CHM directory round trip, lemmas: the ENCINT writer against `read_encint`, one directory entry, the entry
loop of a PMGL chunk, the chunk loop, and the field-extraction lemmas for the four fixed-size headers.
-/
namespace MsPack.Chm
open MsPack MsPack.Generated
open MsPack.Oab (enc32 read_prefix readExact_prefix drop_after ofNat_toNat_lt)
open MsPack.Cab (enc16 u16_enc16 u32_enc32 getD_append_right')

/-! ## ENCINT writer -/

theorem encintGroups_eq (k n : Nat) : encintGroups k n = encintDigits k n := by
  induction k generalizing n with
  | zero => rfl
  | succ k ih => simp [encintGroups, encintDigits, ih]

theorem putEncintN_eq (j n : Nat) : putEncintN j n = encodeEncint j n := by
  simp [putEncintN, encodeEncint, encintGroups_eq]

theorem putEncintN_length (j n : Nat) : (putEncintN j n).length = j + 1 := by
  simp [putEncintN, encintGroups_eq, digits_length]

theorem encintExtra_spec : ∀ (fuel n : Nat), n < 128 ^ (fuel + 1) →
    encintExtra fuel n ≤ fuel ∧ n < 128 ^ (encintExtra fuel n + 1)
  | 0, n, h => by simpa [encintExtra] using h
  | fuel + 1, n, h => by
    rw [encintExtra]
    by_cases hn : n < 128
    · simp [hn]
    · rw [if_neg hn]
      have h' : n / 128 < 128 ^ (fuel + 1) := by
        rw [Nat.pow_succ] at h; exact Nat.div_lt_of_lt_mul (by rw [Nat.mul_comm]; exact h)
      obtain ⟨h1, h2⟩ := encintExtra_spec fuel (n / 128) h'
      refine ⟨by omega, ?_⟩
      rw [Nat.pow_succ]
      have : n / 128 + 1 ≤ 128 ^ (encintExtra fuel (n / 128) + 1) := h2
      have h3 : (n / 128 + 1) * 128 ≤ 128 ^ (encintExtra fuel (n / 128) + 1) * 128 := Nat.mul_le_mul_right _ this
      omega

theorem two63 : (9223372036854775808 : Nat) = 128 ^ 9 := by decide

/-- `read_encint` on the shortest coding of `n < 2^63`, anywhere in a chunk -/
theorem readEncint_put (chunk : Bytes) (p e n : Nat) (rest : Bytes) (hn : n < 9223372036854775808)
    (hd : chunk.drop p = putEncint n ++ rest) (he : p + (putEncint n).length ≤ e) :
    readEncint chunk p e = .ok ⟨n, p + (putEncint n).length, false⟩ := by
  rw [two63] at hn
  obtain ⟨hj, hnj⟩ := encintExtra_spec 8 n hn
  have hlen : (putEncint n).length = encintExtra 8 n + 1 := putEncintN_length _ _
  rw [hlen] at he ⊢
  have hpl : p ≤ chunk.length := by
    have h1 := congrArg List.length hd
    rw [List.length_drop, List.length_append, hlen] at h1
    omega
  have htl : (chunk.take p).length = p := by rw [List.length_take]; omega
  have hsplit : chunk = chunk.take p ++ encodeEncint (encintExtra 8 n) n ++ rest := by
    rw [List.append_assoc, ← putEncintN_eq, ← putEncint, ← hd, List.take_append_drop]
  have := C03_encint_roundtrip (chunk.take p) rest (encintExtra 8 n) n e (by omega) hnj (by rw [htl]; omega)
  rw [← hsplit, htl] at this
  rw [this]
  rfl

theorem putEncint_pos (n : Nat) : 0 < (putEncint n).length := by
  rw [putEncint, putEncintN_length]; omega

/-! ## one directory entry -/

/-- `addEntry` on an entry that is not a system file -/
theorem addEntry_spec (w : Walk) (en : EntrySpec) (hwf : en.wf) :
    addEntry w en.name en.name.length en.sec (Int.ofNat en.offset) (Int.ofNat en.length) =
      if en.isFile then { w with filesRev := en.listed :: w.filesRev } else w := by
  obtain ⟨hs, _, _, hsys⟩ := hwf
  unfold addEntry EntrySpec.isFile
  by_cases h1 : en.name.length < 2 ∨ byteAt en.name 0 = 0 ∨ byteAt en.name 1 = 0
  · simp [h1]
  · rw [if_neg h1]
    have hoff : (Int.ofNat en.offset = 0) = (en.offset = 0) := by simp
    have hlen : (Int.ofNat en.length = 0) = (en.length = 0) := by simp
    have hpos : en.name.length > 0 := by omega
    simp only [hoff, hlen]
    by_cases h2 : en.offset = 0 ∧ en.length = 0 ∧ byteAt en.name (en.name.length - 1) = 0x2F
    · have h2' : en.offset = 0 ∧ en.length = 0 ∧ en.name.length > 0 ∧ byteAt en.name (en.name.length - 1) = 0x2F :=
        ⟨h2.1, h2.2.1, hpos, h2.2.2⟩
      rw [if_pos h2']
      simp [h1, h2]
    · have h2' : ¬ (en.offset = 0 ∧ en.length = 0 ∧ en.name.length > 0 ∧ byteAt en.name (en.name.length - 1) = 0x2F) :=
        fun h => h2 ⟨h.1, h.2.1, h.2.2.2⟩
      rw [if_neg h2', if_neg (by omega), if_neg hsys]
      have hsec : (if en.sec = 0 then 0 else 1) = en.sec := by split <;> omega
      simp only [h1, h2, not_false_eq_true, decide_true, Bool.and_self, ↓reduceIte, hsec]
      rfl

theorem encEntry_length (en : EntrySpec) :
    (encEntry en).length = (putEncint en.name.length).length + (en.name.length + ((putEncint en.sec).length +
      ((putEncint en.offset).length + (putEncint en.length).length))) := by
  simp [encEntry]

/-- the walk after the entries `es` have been seen -/
def Walk.add (w : Walk) (es : List EntrySpec) : Walk :=
  { w with filesRev := ((es.filter EntrySpec.isFile).map EntrySpec.listed).reverse ++ w.filesRev }

theorem Walk.add_nil (w : Walk) : w.add [] = w := rfl

theorem Walk.add_cons (w : Walk) (en : EntrySpec) (es : List EntrySpec) :
    w.add (en :: es) = (if en.isFile then { w with filesRev := en.listed :: w.filesRev } else w).add es := by
  unfold Walk.add
  by_cases h : en.isFile <;> simp [h]

theorem Walk.add_append (w : Walk) (a b : List EntrySpec) : w.add (a ++ b) = (w.add a).add b := by
  simp [Walk.add, List.filter_append]

theorem Walk.add_err (w : Walk) (es : List EntrySpec) : (w.add es).err = w.err := rfl

/-! ## the entry loop of one chunk -/

theorem readEntries_spec (chunk : Bytes) (e : Nat) (he : e < 4294967296) :
    ∀ (es : List EntrySpec) (p : Nat) (w : Walk) (rest : Bytes),
    (∀ en ∈ es, en.wf) → w.err = false → chunk.drop p = encEntries es ++ rest → p + (encEntries es).length ≤ e →
    readEntries chunk e es.length p w = .ok (w.add es, false)
  | [], p, w, rest, _, _, _, _ => by simp [readEntries, Walk.add_nil]
  | en :: es, p, w, rest, hwf, herr, hd, hfit => by
    have hw := hwf en (List.mem_cons_self ..)
    obtain ⟨hs, ho, hl, _⟩ := hw
    have hel := encEntry_length en
    have hcons : encEntries (en :: es) = encEntry en ++ encEntries es := by simp [encEntries]
    rw [hcons, List.length_append, hel] at hfit
    rw [hcons] at hd
    -- name length
    have hnl : en.name.length < 9223372036854775808 := by omega
    have hd1 : chunk.drop p = putEncint en.name.length ++ (en.name ++ (putEncint en.sec ++ (putEncint en.offset ++
        (putEncint en.length ++ (encEntries es ++ rest))))) := by
      rw [hd]; simp [encEntry, List.append_assoc]
    have r1 := readEncint_put chunk p e en.name.length _ hnl hd1 (by omega)
    have hd2 := drop_after chunk p _ _ hd1
    -- the name
    have hname : (chunk.drop (p + (putEncint en.name.length).length)).take en.name.length = en.name := by
      rw [hd2, List.take_left']; rfl
    have hd3 := drop_after chunk _ _ _ hd2
    -- section, offset, length
    have r2 := readEncint_put chunk _ e en.sec _ (by omega) hd3 (by omega)
    have hd4 := drop_after chunk _ _ _ hd3
    have r3 := readEncint_put chunk _ e en.offset _ ho hd4 (by omega)
    have hd5 := drop_after chunk _ _ _ hd4
    have r4 := readEncint_put chunk _ e en.length _ hl hd5 (by omega)
    have hd6 := drop_after chunk _ _ _ hd5
    have ih := readEntries_spec chunk e he es _ (if en.isFile then { w with filesRev := en.listed :: w.filesRev } else w)
      rest (fun g hg => hwf g (List.mem_cons_of_mem _ hg)) (by split <;> simp [herr]) hd6 (by omega)
    rw [List.length_cons, readEntries, r1]
    have hm1 : en.name.length % 4294967296 = en.name.length := Nat.mod_eq_of_lt (by omega)
    have hm2 : (e - (p + (putEncint en.name.length).length)) % 4294967296 = e - (p + (putEncint en.name.length).length) :=
      Nat.mod_eq_of_lt (by omega)
    have hm3 : en.sec % 4294967296 = en.sec := Nat.mod_eq_of_lt (by omega)
    have hgt : ¬ (en.name.length > e - (p + (putEncint en.name.length).length)) := by omega
    simp only [herr, Bool.false_eq_true, false_or, hm1, hm2, hgt, ↓reduceIte, r2, r3, r4, hname, hm3,
      Bool.or_self]
    rw [addEntry_spec w en (hwf en (List.mem_cons_self ..)), ih, Walk.add_cons]

/-! ## one PMGL chunk, and the chunk loop -/

theorem encChunk_length (cs total i : Nat) (es : List EntrySpec) (h : 22 + (encEntries es).length ≤ cs) :
    (encChunk cs total i es).length = cs := by
  simp [encChunk, enc32, enc16]; omega

theorem encChunk_fields (cs total i : Nat) (es : List EntrySpec) (h : chunkFits cs es) :
    u32At (encChunk cs total i es) 0 = 0x4C474D50 ∧ u16At (encChunk cs total i es) (cs - 2) = es.length ∧
    ∃ tail, (encChunk cs total i es).drop 20 = encEntries es ++ tail := by
  obtain ⟨h1, h2⟩ := h
  refine ⟨?_, ?_, ⟨_, List.drop_left' rfl⟩⟩
  · have := u32_enc32 0x4C474D50 (by omega) []
      ((enc32 (cs - 20 - (encEntries es).length) ++ enc32 0 ++
        enc32 (if i = 0 then 0xFFFFFFFF else i - 1) ++ enc32 (if i + 1 = total then 0xFFFFFFFF else i + 1)) ++
       (encEntries es ++ (List.replicate (cs - 22 - (encEntries es).length) 0 ++ enc16 es.length)))
    simpa [encChunk, List.append_assoc] using this
  · have := u16_enc16 es.length h2
      ((enc32 0x4C474D50 ++ enc32 (cs - 20 - (encEntries es).length) ++ enc32 0 ++
        enc32 (if i = 0 then 0xFFFFFFFF else i - 1) ++ enc32 (if i + 1 = total then 0xFFFFFFFF else i + 1)) ++
       (encEntries es ++ List.replicate (cs - 22 - (encEntries es).length) 0)) []
    have hl : ((enc32 0x4C474D50 ++ enc32 (cs - 20 - (encEntries es).length) ++ enc32 0 ++
        enc32 (if i = 0 then 0xFFFFFFFF else i - 1) ++ enc32 (if i + 1 = total then 0xFFFFFFFF else i + 1)) ++
       (encEntries es ++ List.replicate (cs - 22 - (encEntries es).length) 0)).length = cs - 2 := by
      simp [enc32]; omega
    rw [hl] at this
    simpa [encChunk, List.append_assoc] using this

/-- `readChunks` over the writer's chunks: every entry of every chunk is seen, in order -/
theorem readChunks_spec (cs total : Nat) (hcs : cs ≤ 8192) (file : Bytes) :
    ∀ (chunks : List (List EntrySpec)) (i pos : Nat) (w : Walk) (rest : Bytes),
    (∀ c ∈ chunks, chunkFits cs c ∧ ∀ en ∈ c, en.wf) → w.err = false →
    file.drop pos = encChunks cs total i chunks ++ rest →
    readChunks cs chunks.length ⟨file, pos⟩ w = .ok (.ok (w.add chunks.flatten))
  | [], i, pos, w, rest, _, _, _ => by simp [readChunks, Walk.add_nil]
  | c :: chunks, i, pos, w, rest, hwf, herr, hd => by
    obtain ⟨hfit, hens⟩ := hwf c (List.mem_cons_self ..)
    obtain ⟨fsig, fnum, tail, hbody⟩ := encChunk_fields cs total i c hfit
    have hlen := encChunk_length cs total i c hfit.1
    have hd1 : file.drop pos = encChunk cs total i c ++ (encChunks cs total (i + 1) chunks ++ rest) := by
      rw [hd, encChunks, List.append_assoc]
    have hre := readExact_prefix file pos _ _ hd1
    rw [hlen] at hre
    have hd2 := drop_after file pos _ _ hd1
    rw [hlen] at hd2
    have hent := readEntries_spec (encChunk cs total i c) (cs - 2) (by omega) c 20 w tail hens herr hbody
      (by have := hfit.1; omega)
    have ih := readChunks_spec cs total hcs file chunks (i + 1) (pos + cs) (w.add c) rest
      (fun g hg => hwf g (List.mem_cons_of_mem _ hg)) (by rw [Walk.add_err]; exact herr) hd2
    rw [List.length_cons, readChunks, hre]
    generalize encChunk cs total i c = chunk at fsig fnum hent
    simp only [pmgl_Signature, pmgl_Entries, fsig, fnum, ne_eq, not_true_eq_false, ↓reduceIte, hent,
      Bool.false_eq_true]
    rw [ih, List.flatten_cons, Walk.add_append]

theorem encChunks_length (cs total : Nat) : ∀ (chunks : List (List EntrySpec)) (i : Nat),
    (∀ c ∈ chunks, chunkFits cs c) → (encChunks cs total i chunks).length = cs * chunks.length
  | [], _, _ => by simp [encChunks]
  | c :: chunks, i, h => by
    rw [encChunks, List.length_append, encChunk_length cs total i c (h c (List.mem_cons_self ..)).1,
      encChunks_length cs total chunks (i + 1) (fun g hg => h g (List.mem_cons_of_mem _ hg)), List.length_cons,
      Nat.mul_succ, Nat.add_comm]

/-! ## field extraction -/

theorem u32_at (n k : Nat) (h : n < 4294967296) (pre post : Bytes) (hk : pre.length = k) :
    u32At (pre ++ enc32 n ++ post) k = n := by
  subst hk; exact u32_enc32 n h pre post

theorem u32BE_at (n k : Nat) (h : n < 4294967296) (pre post : Bytes) (hk : pre.length = k) :
    u32BEAt (pre ++ enc32BE n ++ post) k = n := by
  subst hk
  simp only [u32BEAt, byteAt, le32, enc32BE, List.append_assoc, List.cons_append, List.nil_append]
  have h0 := getD_append_right' pre (UInt8.ofNat (n / 16777216 % 256) :: UInt8.ofNat (n / 65536 % 256) ::
    UInt8.ofNat (n / 256 % 256) :: UInt8.ofNat (n % 256) :: post) 0 0
  rw [Nat.add_zero] at h0
  rw [h0, getD_append_right', getD_append_right', getD_append_right']
  simp only [List.getD_cons_zero, List.getD_cons_succ]
  rw [ofNat_toNat_lt _ (Nat.mod_lt _ (by decide)), ofNat_toNat_lt _ (Nat.mod_lt _ (by decide)),
      ofNat_toNat_lt _ (Nat.mod_lt _ (by decide)), ofNat_toNat_lt _ (Nat.mod_lt _ (by decide))]
  omega

theorem wrapI64_small (n : Nat) (h : n < 9223372036854775808) : wrapI64 (Int.ofNat n) = Int.ofNat n := by
  unfold wrapI64
  simp only [Int.ofNat_eq_natCast]
  omega

theorem i64_at (n k : Nat) (h : n < 9223372036854775808) (pre post : Bytes) (hk : pre.length = k) :
    i64At (pre ++ enc64 n ++ post) k = Int.ofNat n := by
  have h1 : u32At (pre ++ enc64 n ++ post) k = n % 4294967296 := by
    have := u32_at (n % 4294967296) k (Nat.mod_lt _ (by decide)) pre (enc32 (n / 4294967296) ++ post) hk
    simpa [enc64, List.append_assoc] using this
  have h2 : u32At (pre ++ enc64 n ++ post) (k + 4) = n / 4294967296 := by
    have := u32_at (n / 4294967296) (k + 4) (by omega) (pre ++ enc32 (n % 4294967296)) post (by simp [enc32, hk])
    simpa [enc64, List.append_assoc] using this
  unfold i64At
  rw [h1, h2]
  have : n % 4294967296 + n / 4294967296 * 4294967296 = n := by omega
  rw [this, wrapI64_small n h]

/-! ## the four fixed-size headers -/

theorem wf_numChunks (s : ChmSpec) (h : s.wf) : 0 < s.numChunks ∧ s.numChunks ≤ 100000 := by
  obtain ⟨_, _, _, _, _, hne, hn, _, _⟩ := h
  unfold ChmSpec.numChunks
  exact ⟨List.length_pos_iff.mpr hne, hn⟩

theorem wf_chunkSize (s : ChmSpec) (h : s.wf) : 22 ≤ s.chunkSize ∧ s.chunkSize ≤ 8192 := by
  obtain ⟨_, _, _, _, hcs, hne, _, _, hch⟩ := h
  refine ⟨?_, hcs⟩
  cases hc : s.chunks with
  | nil => exact absurd hc hne
  | cons c cs =>
    have := (hch c (by rw [hc]; exact List.mem_cons_self ..)).1.1
    omega

theorem wf_hs0Offset (s : ChmSpec) : s.hs0Offset = 88 ∨ s.hs0Offset = 96 := by
  unfold ChmSpec.hs0Offset; split <;> simp

theorem wf_sizes (s : ChmSpec) (h : s.wf) :
    s.chunkSize * s.numChunks ≤ 819200000 ∧ s.sec0Offset < 4294967296 ∧ s.fileLength < 9223372036854775808 := by
  obtain ⟨h1, h2⟩ := wf_numChunks s h
  obtain ⟨h3, h4⟩ := wf_chunkSize s h
  have h5 := wf_hs0Offset s
  have hc := h.2.2.2.2.2.2.2.1
  have : s.chunkSize * s.numChunks ≤ 8192 * 100000 := Nat.mul_le_mul h4 h2
  unfold ChmSpec.fileLength ChmSpec.sec0Offset ChmSpec.dirOffset ChmSpec.hs1Offset
  omega

theorem itsf_fields (s : ChmSpec) (h : s.wf) :
    (encItsf s).length = 56 ∧ u32At (encItsf s) 0 = 0x46535449 ∧ u32At (encItsf s) 4 = s.version ∧
    u32BEAt (encItsf s) 16 = s.timestamp ∧ u32At (encItsf s) 20 = s.language ∧
    (((encItsf s).drop 24).take 32).map UInt8.toNat = chmGuids := by
  obtain ⟨hv, ht, hl, _⟩ := h
  have hv' : s.version < 4294967296 := by omega
  refine ⟨rfl, ?_, ?_, ?_, ?_, ?_⟩
  · have := u32_at 0x46535449 0 (by omega) []
      (enc32 s.version ++ enc32 s.hs0Offset ++ enc32 1 ++ enc32BE s.timestamp ++ enc32 s.language ++ guidBytes) rfl
    simpa [encItsf, List.append_assoc] using this
  · have := u32_at s.version 4 hv' (enc32 0x46535449)
      (enc32 s.hs0Offset ++ enc32 1 ++ enc32BE s.timestamp ++ enc32 s.language ++ guidBytes) rfl
    simpa [encItsf, List.append_assoc] using this
  · have := u32BE_at s.timestamp 16 ht (enc32 0x46535449 ++ enc32 s.version ++ enc32 s.hs0Offset ++ enc32 1)
      (enc32 s.language ++ guidBytes) rfl
    simpa [encItsf, List.append_assoc] using this
  · have := u32_at s.language 20 hl
      (enc32 0x46535449 ++ enc32 s.version ++ enc32 s.hs0Offset ++ enc32 1 ++ enc32BE s.timestamp) guidBytes rfl
    simpa [encItsf, List.append_assoc] using this
  · have : (encItsf s).drop 24 = guidBytes := List.drop_left' rfl
    rw [this]
    decide

/-- the 40 bytes `chmd_read_headers` reads as the header section table: for version 2 the last 8 of them
    are already the start of header section 0 -/
def hstBuf (s : ChmSpec) : Bytes :=
  encHst s ++ (if s.version = 3 then enc64 s.sec0Offset else enc32 0x1FE ++ enc32 0)

theorem hst_fields (s : ChmSpec) (h : s.wf) :
    (hstBuf s).length = 40 ∧ i64At (hstBuf s) 0 = Int.ofNat s.hs0Offset ∧
    i64At (hstBuf s) 16 = Int.ofNat s.hs1Offset ∧ (s.version = 3 → i64At (hstBuf s) 32 = Int.ofNat s.sec0Offset) := by
  have h0 := wf_hs0Offset s
  obtain ⟨_, hs0, _⟩ := wf_sizes s h
  refine ⟨?_, ?_, ?_, ?_⟩
  · unfold hstBuf; split <;> rfl
  · have := i64_at s.hs0Offset 0 (by omega) []
      (enc64 24 ++ enc64 s.hs1Offset ++ enc64 (84 + s.chunkSize * s.numChunks) ++
        (if s.version = 3 then enc64 s.sec0Offset else enc32 0x1FE ++ enc32 0)) rfl
    simpa [hstBuf, encHst, List.append_assoc] using this
  · have := i64_at s.hs1Offset 16 (by unfold ChmSpec.hs1Offset; omega) (enc64 s.hs0Offset ++ enc64 24)
      (enc64 (84 + s.chunkSize * s.numChunks) ++
        (if s.version = 3 then enc64 s.sec0Offset else enc32 0x1FE ++ enc32 0)) rfl
    simpa [hstBuf, encHst, List.append_assoc] using this
  · intro hv
    have := i64_at s.sec0Offset 32 (by omega) (encHst s) [] rfl
    simpa [hstBuf, hv] using this

theorem hs0_fields (s : ChmSpec) (h : s.wf) :
    (encHs0 s).length = 24 ∧ i64At (encHs0 s) 8 = Int.ofNat s.fileLength := by
  obtain ⟨_, _, hfl⟩ := wf_sizes s h
  refine ⟨rfl, ?_⟩
  have := i64_at s.fileLength 8 hfl (enc32 0x1FE ++ enc32 0) (enc32 0 ++ enc32 0) rfl
  simpa [encHs0, List.append_assoc] using this

theorem itsp_fields (s : ChmSpec) (h : s.wf) :
    (encItsp s).length = 84 ∧ u32At (encItsp s) 0x10 = s.chunkSize ∧ u32At (encItsp s) 0x14 = s.density ∧
    u32At (encItsp s) 0x18 = 1 ∧ u32At (encItsp s) 0x1C = 0xFFFFFFFF ∧ u32At (encItsp s) 0x20 = 0 ∧
    u32At (encItsp s) 0x24 = s.numChunks - 1 ∧ u32At (encItsp s) 0x2C = s.numChunks := by
  obtain ⟨hn1, hn2⟩ := wf_numChunks s h
  obtain ⟨hc1, hc2⟩ := wf_chunkSize s h
  have hd := h.2.2.2.1
  refine ⟨rfl, ?_, ?_, ?_, ?_, ?_, ?_, ?_⟩
  · have := u32_at s.chunkSize 16 (by omega) (enc32 0x50535449 ++ enc32 1 ++ enc32 84 ++ enc32 0x0A) (enc32 s.density ++ enc32 1 ++ enc32 0xFFFFFFFF ++ enc32 0 ++ enc32 (s.numChunks - 1) ++ enc32 0xFFFFFFFF ++ enc32 s.numChunks ++ enc32 s.language ++ (itspGuid ++ (enc32 0x54 ++ enc32 0xFFFFFFFF ++ enc32 0xFFFFFFFF ++ enc32 0xFFFFFFFF))) rfl
    simpa [encItsp, List.append_assoc] using this
  · have := u32_at s.density 20 hd (enc32 0x50535449 ++ enc32 1 ++ enc32 84 ++ enc32 0x0A ++ enc32 s.chunkSize) (enc32 1 ++ enc32 0xFFFFFFFF ++ enc32 0 ++ enc32 (s.numChunks - 1) ++ enc32 0xFFFFFFFF ++ enc32 s.numChunks ++ enc32 s.language ++ (itspGuid ++ (enc32 0x54 ++ enc32 0xFFFFFFFF ++ enc32 0xFFFFFFFF ++ enc32 0xFFFFFFFF))) rfl
    simpa [encItsp, List.append_assoc] using this
  · have := u32_at 1 24 (by omega) (enc32 0x50535449 ++ enc32 1 ++ enc32 84 ++ enc32 0x0A ++ enc32 s.chunkSize ++ enc32 s.density) (enc32 0xFFFFFFFF ++ enc32 0 ++ enc32 (s.numChunks - 1) ++ enc32 0xFFFFFFFF ++ enc32 s.numChunks ++ enc32 s.language ++ (itspGuid ++ (enc32 0x54 ++ enc32 0xFFFFFFFF ++ enc32 0xFFFFFFFF ++ enc32 0xFFFFFFFF))) rfl
    simpa [encItsp, List.append_assoc] using this
  · have := u32_at 0xFFFFFFFF 28 (by omega) (enc32 0x50535449 ++ enc32 1 ++ enc32 84 ++ enc32 0x0A ++ enc32 s.chunkSize ++ enc32 s.density ++ enc32 1) (enc32 0 ++ enc32 (s.numChunks - 1) ++ enc32 0xFFFFFFFF ++ enc32 s.numChunks ++ enc32 s.language ++ (itspGuid ++ (enc32 0x54 ++ enc32 0xFFFFFFFF ++ enc32 0xFFFFFFFF ++ enc32 0xFFFFFFFF))) rfl
    simpa [encItsp, List.append_assoc] using this
  · have := u32_at 0 32 (by omega) (enc32 0x50535449 ++ enc32 1 ++ enc32 84 ++ enc32 0x0A ++ enc32 s.chunkSize ++ enc32 s.density ++ enc32 1 ++ enc32 0xFFFFFFFF) (enc32 (s.numChunks - 1) ++ enc32 0xFFFFFFFF ++ enc32 s.numChunks ++ enc32 s.language ++ (itspGuid ++ (enc32 0x54 ++ enc32 0xFFFFFFFF ++ enc32 0xFFFFFFFF ++ enc32 0xFFFFFFFF))) rfl
    simpa [encItsp, List.append_assoc] using this
  · have := u32_at (s.numChunks - 1) 36 (by omega) (enc32 0x50535449 ++ enc32 1 ++ enc32 84 ++ enc32 0x0A ++ enc32 s.chunkSize ++ enc32 s.density ++ enc32 1 ++ enc32 0xFFFFFFFF ++ enc32 0) (enc32 0xFFFFFFFF ++ enc32 s.numChunks ++ enc32 s.language ++ (itspGuid ++ (enc32 0x54 ++ enc32 0xFFFFFFFF ++ enc32 0xFFFFFFFF ++ enc32 0xFFFFFFFF))) rfl
    simpa [encItsp, List.append_assoc] using this
  · have := u32_at s.numChunks 44 (by omega) (enc32 0x50535449 ++ enc32 1 ++ enc32 84 ++ enc32 0x0A ++ enc32 s.chunkSize ++ enc32 s.density ++ enc32 1 ++ enc32 0xFFFFFFFF ++ enc32 0 ++ enc32 (s.numChunks - 1) ++ enc32 0xFFFFFFFF) (enc32 s.language ++ (itspGuid ++ (enc32 0x54 ++ enc32 0xFFFFFFFF ++ enc32 0xFFFFFFFF ++ enc32 0xFFFFFFFF))) rfl
    simpa [encItsp, List.append_assoc] using this

/-! ## stepping through `readHeaders` without waking the kernel

`readHeaders` tests 32-bit fields of buffers (`u32At buf i` = `… + d * 16777216`) and 64-bit ones
(`i64At`, `… % 18446744073709551616`) inside `if`s and `match`es.  Whenever the kernel has to compare two
such terms that are not syntactically equal it unfolds the matcher / `ite`, evaluates the discriminant
and peels those literals one `succ` at a time ("deep recursion", after minutes).  `simp`, `dsimp` and
`conv => zeta` all produce such comparisons on this function.  The theorem below therefore walks through
it with `rw` only (the motive makes both sides syntactically equal), using one generic lemma per matcher
and a head-only zeta step.
-/

open Lean Elab Tactic Meta in
/-- zeta-reduce the `have`/`let` bindings at the head of the left-hand side of an equation goal (only those:
    nothing below the head is touched, so the kernel re-checks the step by a head reduction) -/
elab "zeta_head" : tactic => do
  let g ← getMainGoal
  let t := (← instantiateMVars (← g.getType)).consumeMData
  let some (_, lhs, rhs) := t.eq? | throwError "zeta_head: not an equation {t}"
  let rec go (fuel : Nat) (e : Expr) : Expr :=
    match fuel with
    | 0 => e
    | fuel + 1 =>
      match e with
      | .letE _ _ v b _ => go fuel (b.instantiate1 v)
      | .mdata _ e' => go fuel e'
      | _ => e
  let g' ← g.replaceTargetDefEq (← mkEq (go 64 lhs) rhs)
  replaceMainGoal [g']

theorem matchRead_some {α : Type} (x : Option (Bytes × Rd)) (b : Bytes) (r : Rd) (h : x = some (b, r))
    (n : Unit → α) (k : Bytes → Rd → α) : readChunks.match_3 (fun _ => α) x n k = k b r := by subst h; rfl
theorem matchSeek_some {α : Type} (x : Option Rd) (r : Rd) (h : x = some r)
    (n : Unit → α) (k : Rd → α) : readHeaders.match_3 (fun _ => α) x n k = k r := by subst h; rfl
theorem matchChunks_ok {α : Type} (x : Except Fault (Except Err Walk)) (w : Walk) (h : x = .ok (.ok w))
    (h1 : Fault → α) (h2 : Err → α) (h3 : Walk → α) : readHeaders.match_1 (fun _ => α) x h1 h2 h3 = h3 w := by subst h; rfl


theorem sec0_value (s : ChmSpec) (hwf : s.wf) (x : Int) (hx : s.version = 3 → x = Int.ofNat s.sec0Offset) :
    (if s.version < 3 then wrapI64 (Int.ofNat s.dirOffset + Int.ofNat (s.chunkSize * s.numChunks % 4294967296)) else x) =
      Int.ofNat s.sec0Offset := by
  obtain ⟨hm, hs0, _⟩ := wf_sizes s hwf
  rcases hwf.1 with hv | hv
  · rw [if_pos (by omega)]
    have h1 : s.chunkSize * s.numChunks % 4294967296 = s.chunkSize * s.numChunks := Nat.mod_eq_of_lt (by omega)
    rw [h1]
    unfold wrapI64
    unfold ChmSpec.sec0Offset at hs0 ⊢
    simp only [Int.ofNat_eq_natCast]
    omega
  · rw [if_neg (by omega)]
    exact hx hv

theorem seekAbs_nat (file : Bytes) (p n : Nat) : seekAbs ⟨file, p⟩ (Int.ofNat n) = some ⟨file, n⟩ := by
  unfold seekAbs
  have : ¬ (Int.ofNat n < 0) := by simp only [Int.ofNat_eq_natCast]; omega
  rw [if_neg this]
  rfl

/-- where the parts of `encodeChm s` sit -/
theorem chm_layout (s : ChmSpec) :
    (∃ r, (encodeChm s).drop 0 = encItsf s ++ r) ∧ (∃ r, (encodeChm s).drop 56 = hstBuf s ++ r) ∧
    (∃ r, (encodeChm s).drop s.hs0Offset = encHs0 s ++ r) ∧ (∃ r, (encodeChm s).drop s.hs1Offset = encItsp s ++ r) ∧
    (encodeChm s).drop s.dirOffset = encChunks s.chunkSize s.numChunks 0 s.chunks ++ s.content := by
  have l1 : (encItsf s).length = 56 := rfl
  have l2 : (encHst s).length = 32 := rfl
  have l4 : (encHs0 s).length = 24 := rfl
  have l5 : (encItsp s).length = 84 := rfl
  have d0 : (encodeChm s).drop 0 = encItsf s ++ (encHst s ++ (encHst3 s ++ (encHs0 s ++ (encItsp s ++
      (encChunks s.chunkSize s.numChunks 0 s.chunks ++ s.content))))) := rfl
  have d1 := drop_after _ 0 _ _ d0
  rw [l1] at d1
  have d2 := drop_after _ _ _ _ d1
  rw [l2] at d2
  have d3 := drop_after _ _ _ _ d2
  have l3 : 0 + 56 + 32 + (encHst3 s).length = s.hs0Offset := by
    unfold encHst3 ChmSpec.hs0Offset; split <;> rfl
  rw [l3] at d3
  have d4 := drop_after _ _ _ _ d3
  rw [l4] at d4
  have d5 := drop_after _ _ _ _ d4
  rw [l5] at d5
  refine ⟨⟨_, d0⟩, ?_, ⟨_, d3⟩, ⟨_, d4⟩, d5⟩
  rw [Nat.zero_add] at d1
  rw [d1]
  by_cases hv : s.version = 3
  · exact ⟨encHs0 s ++ (encItsp s ++ (encChunks s.chunkSize s.numChunks 0 s.chunks ++ s.content)), by
      simp [hstBuf, encHst3, hv, List.append_assoc]⟩
  · exact ⟨enc64 s.fileLength ++ enc32 0 ++ enc32 0 ++ (encItsp s ++ (encChunks s.chunkSize s.numChunks 0 s.chunks ++ s.content)), by
      simp [hstBuf, encHst3, hv, encHs0, List.append_assoc]⟩


theorem encodeChm_length (s : ChmSpec) (h : s.wf) : (encodeChm s).length = s.fileLength := by
  have l1 : (encItsf s).length = 56 := rfl
  have l2 : (encHst s).length = 32 := rfl
  have l3 : (encHst3 s).length + 88 = s.hs0Offset := by
    unfold encHst3 ChmSpec.hs0Offset; split <;> rfl
  have l4 : (encHs0 s).length = 24 := rfl
  have l5 : (encItsp s).length = 84 := rfl
  have l6 := encChunks_length s.chunkSize s.numChunks s.chunks 0 (fun c hc => (h.2.2.2.2.2.2.2.2 c hc).1)
  unfold encodeChm ChmSpec.fileLength ChmSpec.sec0Offset ChmSpec.dirOffset ChmSpec.hs1Offset
  simp only [List.length_append, l1, l2, l4, l5, l6]
  unfold ChmSpec.numChunks
  omega

end MsPack.Chm
