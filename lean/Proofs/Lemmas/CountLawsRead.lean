import Lean
import Proofs.Lemmas.CountLaws
import Proofs.Lemmas.CountLawsQtm
import Proofs.Lemmas.FeederFaults
/-!
# `ReadErrLaw` for stored and MSZIP folders (lemmas for C07Decoders)

A decoder that reports MSPACK_ERR_READ has seen the CAB feeder fail, so the `READ → read_error`
substitution of `cabd_extract` cannot produce OK.  This is a joint property of decoder state and
feeder (`feeder.salvage = false`; a sticky READ in the decoder goes with `feeder.readError ≠ OK`).
-/
namespace MsPack.CountLaws.ReadErr
open MsPack MsPack.Cab

/-- `cabd_sys_read`: the salvage flag never changes; at most the bytes asked for are delivered; and in
    strict mode a short delivery has recorded DATAFORMAT -/
theorem feederRead_short (files : Files) : ∀ (fuel : Nat) (fd : Feeder) (todo : Nat) (got : Bytes)
    (r : Option Bytes) (fd' : Feeder), feederRead files fuel fd todo got = .ok (r, fd') →
    fd'.salvage = fd.salvage ∧
    ∀ g, r = some g → g.length ≤ got.length + todo ∧
      (fd.salvage = false → g.length < got.length + todo → fd'.readError = .dataformat) := by
  intro fuel
  induction fuel with
  | zero => intro fd todo got r fd' h; simp [feederRead] at h
  | succ fuel ih =>
    intro fd todo got r fd' h
    unfold feederRead at h
    split at h
    · rename_i h0
      cases h
      refine ⟨rfl, fun g hg => ?_⟩
      cases hg
      exact ⟨by omega, fun _ hl => by omega⟩
    · split at h
      · have := ih _ _ _ _ _ h
        refine ⟨this.1, fun g hg => ?_⟩
        have h2 := this.2 g hg
        simp only [List.length_append, List.length_take] at h2
        exact ⟨by omega, fun hs hl => h2.2 hs (by omega)⟩
      · simp only at h
        split at h
        · cases h
          refine ⟨by split <;> rfl, fun g hg => ?_⟩
          cases hg
          refine ⟨by omega, fun hs _ => ?_⟩
          simp only [hs]
          rfl
        · split at h
          · cases h
          · cases h
            exact ⟨rfl, fun g hg => by cases hg⟩
          · have := ih _ _ _ _ _ h
            refine ⟨?_, fun g hg => ?_⟩
            · rw [this.1]; split <;> rfl
            · have h2 := this.2 g hg
              refine ⟨h2.1, fun hs hl => h2.2 ?_ hl⟩
              split <;> exact hs

theorem feederSrc_salvage (files : Files) (fd : Feeder) (n : Nat) (r : Option Bytes) (fd' : Feeder)
    (h : (feederSrc files).read fd n = .ok (r, fd')) : fd'.salvage = fd.salvage :=
  (feederRead_short files _ fd n [] r fd' h).1

theorem feederSrc_le (files : Files) (fd : Feeder) (n : Nat) (g : Bytes) (fd' : Feeder)
    (h : (feederSrc files).read fd n = .ok (some g, fd')) : g.length ≤ n := by
  have := ((feederRead_short files _ fd n [] _ fd' h).2 g rfl).1
  simpa using this

theorem feederSrc_short (files : Files) (fd : Feeder) (n : Nat) (g : Bytes) (fd' : Feeder)
    (h : (feederSrc files).read fd n = .ok (some g, fd')) (hs : fd.salvage = false) (hl : g.length < n) :
    fd'.readError ≠ .ok := by
  have := ((feederRead_short files _ fd n [] _ fd' h).2 g rfl).2 hs (by simpa using hl)
  rw [this]; intro hc; cases hc


/-! ## MSZIP on the CAB feeder -/
section zip
open MsPack.Zip
open MsPack.CountLaws.Qtm (run_get_bind run_throw_bind run_modify run_modify_bind run_pure run_ite)
variable (files : Files)

section run
variable {ε s α β : Type}
theorem run_set_bind (x : s) (f : PUnit → ExceptT ε (StateM s) β) (st : s) :
    (set x >>= f).run.run st = (f ⟨⟩).run.run x := by
  rw [run_bind]; rfl
theorem run_set (x : s) (st : s) : (set x : ExceptT ε (StateM s) PUnit).run.run st = (.ok ⟨⟩, x) := rfl
theorem run_throw (e : ε) (st : s) : (throw e : ExceptT ε (StateM s) α).run.run st = (.error e, st) := rfl
end run

/-- while a call runs: no sticky error yet, strict mode, a real input buffer -/
def ZI (st : Zip.St Feeder) : Prop := st.error = .ok ∧ st.src.salvage = false ∧ st.inbufSize ≠ 0

/-- at an exception: a status return is READ, recorded in the state, and the feeder has failed -/
def ZE : Zip.Halt → Zip.St Feeder → Prop
  | .sys e, st => e = .read ∧ st.error = .read ∧ st.src.readError ≠ .ok ∧ st.src.salvage = false ∧ st.inbufSize ≠ 0
  | .inf, st => ZI st
  | .fault _, _ => True

theorem ZI_of {a b : Zip.St Feeder} (h : ZI a) (h1 : b.error = a.error) (h2 : b.src = a.src)
    (h3 : b.inbufSize = a.inbufSize) : ZI b := by
  unfold ZI at *; rw [h1, h2, h3]; exact h

open Lean Elab Tactic Meta in
/-- `ZI b` (or `ZE .inf b`) from a hypothesis `ZI a` whose three fields `b` leaves alone, by `rfl`s (not
    by defeq of the records, see `bal_close`); `ZE (.fault _) _` is `True` -/
elab "zi_close" : tactic => withMainContext do
  let s0 ← saveState
  try
    evalTactic (← `(tactic| (show True; exact True.intro)))
    return
  catch _ => s0.restore
  for d in (← getLCtx) do
    if d.isImplementationDetail then continue
    if (← instantiateMVars d.type).isAppOf ``ZI then
      let s ← saveState
      try
        let stx ← Term.exprToSyntax d.toExpr
        evalTactic (← `(tactic| first | exact ZI_of $stx rfl rfl rfl | (show ZI _; exact ZI_of $stx rfl rfl rfl)))
        return
      catch _ => s.restore
  throwError "zi_close: nothing applies"

macro_rules | `(tactic| tri_close) => `(tactic| zi_close)

theorem readInput_tri : Tri ZI ZE (Zip.readInput (feederSrc files)) := by
  constructor
  intro st hi r s' h
  unfold Zip.readInput at h
  rw [run_get_bind] at h
  obtain ⟨he, hs, hb⟩ := hi
  split at h
  · rw [run_throw] at h; cases h; trivial
  · rename_i src hrd
    rw [run_set_bind, run_throw] at h; cases h
    exact ⟨rfl, rfl, MsPack.CabLift.feederSrc_read_none files _ _ _ hrd,
      (feederSrc_salvage files _ _ _ _ hrd).trans hs, hb⟩
  · rename_i src hrd
    split at h
    · rw [run_set_bind, run_throw] at h; cases h
      exact ⟨rfl, rfl, feederSrc_short files _ _ _ _ hrd hs (by simp only [List.length_nil]; omega),
        (feederSrc_salvage files _ _ _ _ hrd).trans hs, hb⟩
    · rw [run_set] at h; cases h
      exact ⟨he, (feederSrc_salvage files _ _ _ _ hrd).trans hs, hb⟩
  · rename_i got src _ hrd
    rw [run_set] at h; cases h
    exact ⟨he, (feederSrc_salvage files _ _ _ _ hrd).trans hs, hb⟩

local notation "ZS" => feederSrc files
local notation "ZT" => Tri ZI ZE

theorem nextByte_tri : ZT (Zip.nextByte ZS) := by
  unfold Zip.nextByte; tri_auto [readInput_tri files]

theorem ensureBits_tri (n : Nat) : ∀ fuel, ZT (Zip.ensureBits ZS n fuel) := by
  intro fuel
  induction fuel with
  | zero => rw [Zip.ensureBits.eq_1]; tri_auto
  | succ fuel ih => rw [Zip.ensureBits.eq_2]; tri_auto [nextByte_tri files]

theorem removeBits_tri (n : Nat) : ZT (Zip.removeBits (σ := Feeder) n) := by
  unfold Zip.removeBits; tri_auto

theorem readBits_tri (n : Nat) : ZT (Zip.readBits ZS n) := by
  unfold Zip.readBits; tri_auto [ensureBits_tri files, removeBits_tri]

theorem readHuffSym_tri (c : Huff.Canon) : ZT (Zip.readHuffSym ZS c) := by
  unfold Zip.readHuffSym; tri_auto [ensureBits_tri files, removeBits_tri]

theorem readLensLoop_tri (c : Huff.Canon) (total : Nat) : ∀ fuel lens last,
    ZT (Zip.readLensLoop ZS c total fuel lens last) := by
  intro fuel
  induction fuel with
  | zero => intro lens last; rw [Zip.readLensLoop.eq_1]; tri_auto
  | succ fuel ih =>
    intro lens last; rw [Zip.readLensLoop.eq_2]
    tri_auto [ensureBits_tri files, removeBits_tri, readBits_tri files]

theorem zipReadLens_rd_tri (blc : Nat) : ∀ k acc, ZT (zipReadLens.rd ZS blc k acc) := by
  intro k
  induction k with
  | zero => intro acc; rw [zipReadLens.rd.eq_1]; tri_auto
  | succ k ih => intro acc; rw [zipReadLens.rd.eq_2]; tri_auto [readBits_tri files]

theorem zipReadLens_tri : ZT (zipReadLens ZS) := by
  unfold zipReadLens
  tri_auto [readBits_tri files, zipReadLens_rd_tri files, readLensLoop_tri files]

theorem flushWindow_tri (n : Nat) : ZT (flushWindow (σ := Feeder) n) := by
  unfold flushWindow; tri_auto

theorem flushIfNeeded_tri : ZT (flushIfNeeded (σ := Feeder)) := by
  unfold flushIfNeeded; tri_auto [flushWindow_tri]

theorem putByte_tri (b : UInt8) : ZT (putByte (σ := Feeder) b) := by
  unfold putByte; tri_auto [flushIfNeeded_tri]

theorem copyStored_tri : ∀ fuel length, ZT (copyStored ZS fuel length) := by
  intro fuel
  induction fuel with
  | zero => intro length; rw [copyStored.eq_1]; tri_auto
  | succ fuel ih =>
    intro length; rw [copyStored.eq_2]
    tri_auto [readInput_tri files, flushIfNeeded_tri]

theorem copyMatch_tri : ∀ length posn, ZT (Zip.copyMatch (σ := Feeder) length posn) := by
  intro length
  induction length with
  | zero => intro posn; rw [Zip.copyMatch.eq_1]; tri_auto
  | succ length ih => intro posn; rw [Zip.copyMatch.eq_2]; tri_auto [putByte_tri]

theorem huffBlock_tri (lit dist : Huff.Canon) : ∀ fuel, ZT (huffBlock ZS lit dist fuel) := by
  intro fuel
  induction fuel with
  | zero => rw [huffBlock.eq_1]; tri_auto
  | succ fuel ih =>
    rw [huffBlock.eq_2]
    tri_auto [readHuffSym_tri files, readBits_tri files, putByte_tri, copyMatch_tri]

theorem inflate_more_tri : ∀ k acc, ZT (inflate.more ZS k acc) := by
  intro k
  induction k with
  | zero => intro acc; rw [inflate.more.eq_1]; tri_auto
  | succ k ih => intro acc; rw [inflate.more.eq_2]; tri_auto [nextByte_tri files]

theorem inflate_tri : ∀ fuel, ZT (inflate ZS fuel) := by
  intro fuel
  induction fuel with
  | zero => rw [inflate.eq_1]; tri_auto
  | succ fuel ih =>
    rw [inflate.eq_2]
    tri_auto [readBits_tri files, inflate_more_tri files, copyStored_tri files, zipReadLens_tri files,
      huffBlock_tri files, flushWindow_tri]

theorem scanCK_tri : ∀ fuel state, ZT (scanCK ZS fuel state) := by
  intro fuel
  induction fuel with
  | zero => intro state; rw [scanCK.eq_1]; tri_auto
  | succ fuel ih => intro state; rw [scanCK.eq_2]; tri_auto [readBits_tri files]

/-- between calls: strict mode, a real input buffer, and a sticky READ goes with a failed feeder -/
def ZJ (st : Zip.St Feeder) : Prop :=
  st.src.salvage = false ∧ st.inbufSize ≠ 0 ∧ (st.error = .read → st.src.readError ≠ .ok)

/-- what a `decompress` call must deliver -/
def ZOut (o : Zip.Out Feeder) : Prop := ZJ o.st ∧ (o.err = .read → o.st.src.readError ≠ .ok)

theorem ZI.toJ {st : Zip.St Feeder} (h : ZI st) : ZJ st :=
  ⟨h.2.1, h.2.2, fun he => by rw [h.1] at he; cases he⟩

def RI : InfRes → Zip.St Feeder → Prop
  | .sys e, s => ZE (.sys e) s
  | _, s => ZI s

theorem runInflate_ri (fuel : Nat) (st : Zip.St Feeder) (hi : ZI st) (res : InfRes) (s : Zip.St Feeder)
    (h : runInflate ZS fuel st = .ok (res, s)) : RI res s := by
  unfold runInflate at h
  split at h
  · rename_i heq; cases h; exact (inflate_tri files fuel).out st hi _ _ heq
  · cases h
  · rename_i heq; cases h; exact (inflate_tri files fuel).out st hi _ _ heq
  · rename_i heq; cases h; exact (inflate_tri files fuel).out st hi _ _ heq

theorem loopTail_readErr (fuel n : Nat)
    (ih : ∀ (st : Zip.St Feeder) (outBytes : Nat) (w : Bytes) (o : Zip.Out Feeder), ZI st →
      decompressLoop ZS fuel n st outBytes w = .ok o → ZOut o)
    (res : InfRes) (st : Zip.St Feeder) (hr : RI res st) (outBytes : Nat) (w : Bytes) (o : Zip.Out Feeder)
    (h : CountLaws.Zip.loopTail ZS fuel n res st outBytes w = .ok o) : ZOut o := by
  unfold CountLaws.Zip.loopTail at h
  dsimp only at h
  split at h
  · rename_i e
    obtain ⟨he, h1, h2, h3, h4⟩ := hr
    split at h <;> cases h <;> exact ⟨⟨h3, h4, fun _ => h2⟩, fun _ => h2⟩
  · rename_i hne
    have hi : ZI st := by
      cases res with
      | sys e => exact absurd rfl (hne e)
      | ok => exact hr
      | inf => exact hr
    refine ih _ _ _ _ ?_ h
    exact ZI_of hi rfl rfl rfl

theorem repairSt_ri (res : InfRes) (st : Zip.St Feeder) (hr : RI res st) :
    RI res (CountLaws.Zip.repairSt res st) := by
  unfold CountLaws.Zip.repairSt
  split
  · cases res with
    | sys e => exact hr
    | ok => exact ZI_of hr rfl rfl rfl
    | inf => exact ZI_of hr rfl rfl rfl
  · exact hr

theorem decompressLoop_readErr (fuel : Nat) : ∀ (n : Nat) (st : Zip.St Feeder) (outBytes : Nat) (w : Bytes)
    (o : Zip.Out Feeder), ZI st → decompressLoop ZS fuel n st outBytes w = .ok o → ZOut o := by
  intro n
  induction n with
  | zero => intro st outBytes w o _ h; rw [decompressLoop.eq_1] at h; cases h
  | succ n ih =>
    intro st outBytes w o hi h
    rw [decompressLoop.eq_2] at h
    split at h
    · cases h; exact ⟨hi.toJ, fun hc => by cases hc⟩
    · dsimp only at h
      have hi1 : ZI { st with bits := st.bits.drop (st.bits.length % 8) } := ZI_of hi rfl rfl rfl
      split at h
      · cases h
      · rename_i s heq
        cases h
        have hs : ZI s := (scanCK_tri files fuel 0).out _ hi1 _ _ heq
        exact ⟨⟨hs.2.1, hs.2.2, fun hc => by cases hc⟩, fun hc => by cases hc⟩
      · rename_i e s heq
        cases h
        obtain ⟨he, h1, h2, h3, h4⟩ : ZE (.sys e) s := (scanCK_tri files fuel 0).out _ hi1 _ _ heq
        exact ⟨⟨h3, h4, fun _ => h2⟩, fun _ => h2⟩
      · rename_i s heq
        have hs : ZI s := (scanCK_tri files fuel 0).out _ hi1 _ _ heq
        split at h
        · cases h
        · rename_i res s2 hri
          have hr := runInflate_ri files fuel _ (by exact ZI_of hs rfl rfl rfl) res s2 hri
          split at h
          · rename_i hf
            cases h
            cases res with
            | ok => exact absurd rfl hf.1
            | inf => exact ⟨⟨hr.2.1, hr.2.2, fun hc => by cases hc⟩, fun hc => by cases hc⟩
            | sys e =>
              obtain ⟨he, h1, h2, h3, h4⟩ := hr
              exact ⟨⟨h3, h4, fun _ => h2⟩, fun _ => h2⟩
          · change CountLaws.Zip.loopTail ZS fuel n res (CountLaws.Zip.repairSt res s2) outBytes w = _ at h
            exact loopTail_readErr files fuel n ih res _ (repairSt_ri res s2 hr) _ _ _ h

/-- `mszipd_decompress` on the CAB feeder keeps `ZJ`, and a READ it reports goes with a failed feeder -/
theorem zip_readErr (fuel : Nat) (st : Zip.St Feeder) (n : Nat) (o : Zip.Out Feeder) (hj : ZJ st)
    (h : Zip.decompress ZS fuel st n = .ok o) : ZOut o := by
  unfold Zip.decompress at h
  split at h
  · cases h; exact ⟨hj, hj.2.2⟩
  · rename_i he
    have hi : ZI { st with pending := st.pending.drop (min st.pending.length n) } :=
      ⟨Decidable.not_not.mp he, hj.1, hj.2.1⟩
    dsimp only at h
    split at h
    · cases h; exact ⟨hi.toJ, fun hc => by cases hc⟩
    · exact decompressLoop_readErr files fuel fuel _ _ _ _ hi h

end zip

end MsPack.CountLaws.ReadErr

/-! ## `cabd_extract` over a joint decoder/feeder invariant -/
namespace MsPack.CountLaws.CabJoint
open MsPack MsPack.Cab MsPack.CountLaws.ReadErr

/-- what `extract` needs of one `decompress` call from a decoder/feeder pair in `J`: the pair it leaves is
    in `J`, the counting law, and a READ it reports goes with a failed feeder -/
def CallOk (files : Files) (J : Dec → Feeder → Prop) : Prop :=
  ∀ dec fd n o, J dec fd → decompress files dec fd n = .ok (some o) →
    J o.dec o.feeder ∧ (o.err = .ok → o.written.length = n) ∧ (o.err = .read → o.feeder.readError ≠ .ok)

def StateOk (J : Dec → Feeder → Prop) (ds : DState) : Prop := ∀ dec, ds.dec = some dec → J dec ds.feeder

theorem runPhase_ok (files : Files) (J : Dec → Feeder → Prop) (hC : CallOk files J) (ds : DState) (dec : Dec)
    (n : Nat) (hj : J dec ds.feeder) (e : Err) (w : Bytes) (ds' : DState)
    (h : runPhase files ds dec n = .ran e w ds') : StateOk J ds' ∧ (e = .ok → w.length = n) := by
  unfold runPhase at h
  split at h
  · contradiction
  · contradiction
  · rename_i o ho
    obtain ⟨h1, h2, h3⟩ := hC _ _ _ _ hj ho
    simp only [PhaseResult.ran.injEq] at h
    refine ⟨fun dec' hd => ?_, fun he => ?_⟩
    · rw [← h.2.2] at hd ⊢
      simp only [Option.some.injEq] at hd
      exact hd ▸ h1
    · rw [← h.2.1]
      by_cases hr : o.err = .read
      · rw [if_pos hr] at h; exact absurd (h.1.trans he) (h3 hr)
      · rw [if_neg hr] at h; exact h2 (h.1.trans he)

theorem runPhases_ok (files : Files) (J : Dec → Feeder → Prop) (hC : CallOk files J) (ds : DState)
    (hds : StateOk J ds) (m : Member) (filelen : Nat) (w : Bytes) (d' : Option DState)
    (h : runPhases files ds m filelen = .done .ok (some w) d') : w.length = filelen := by
  unfold runPhases at h
  split at h
  · simp at h
  · rename_i dec hdec
    have hp := hds _ hdec
    split at h
    · rename_i h0
      simp only [ExtractResult.done.injEq, Option.some.injEq] at h; rw [← h.2.1, h0]; simp
    · simp only at h
      split at h
      · split at h
        · contradiction
        · contradiction
        · rename_i hr
          simp only [ExtractResult.done.injEq, Option.some.injEq] at h
          rw [← h.2.1]
          exact (runPhase_ok files J hC _ _ _ hp _ _ _ hr).2 h.1
      · split at h
        · contradiction
        · contradiction
        · rename_i e1 w1 ds1 hr1
          have hk1 := (runPhase_ok files J hC _ _ _ hp _ _ _ hr1).1
          split at h
          · rename_i hne
            simp only [ExtractResult.done.injEq] at h
            exact absurd h.1 hne
          · split at h
            · simp at h
            · rename_i dec1 hdec1
              have hp1 := hk1 _ hdec1
              split at h
              · contradiction
              · contradiction
              · rename_i hr
                simp only [ExtractResult.done.injEq, Option.some.injEq] at h
                rw [← h.2.1]
                exact (runPhase_ok files J hC _ _ _ hp1 _ _ _ hr).2 h.1

/-- **C07, completeness on OK (strict mode), over a joint decoder/feeder invariant** -/
theorem extract_ok_complete (files : Files) (J : Dec → Feeder → Prop) (hC : CallOk files J)
    (p : Params) (hs : p.salvage = false) (d : Option DState) (m : Member)
    (hd : ∀ ds, d = some ds → StateOk J ds)
    (hfresh : ∀ key ds, freshDState files p m key = .ok ds → StateOk J ds)
    (w : Bytes) (d' : Option DState)
    (h : extract files p d m = .done .ok (some w) d') : w.length = m.length := by
  unfold extract at h
  split at h
  · simp at h
  · rename_i filelen key hc
    split at h
    · simp at h
    · rename_i ds hob
      rw [← memberCheck_strict _ _ _ _ hs hc]
      refine runPhases_ok files J hC ds ?_ m filelen w d' h
      unfold obtainDState at hob
      split at hob
      · split at hob
        · cases hob; exact hd _ rfl
        · exact hfresh _ _ hob
      · exact hfresh _ _ hob

/-- stored and MSZIP folders in strict mode: the feeder is not in salvage mode, a sticky READ in the
    decoder goes with a failed feeder; an MSZIP state has its window and a real input buffer -/
def CabJ : Dec → Feeder → Prop
  | .none _ e, fd => fd.salvage = false ∧ (e = .read → fd.readError ≠ .ok)
  | .mszip st, fd => fd.salvage = false ∧ st.inbufSize ≠ 0 ∧ Zip.WinOk st ∧ (st.error = .read → fd.readError ≠ .ok)
  | _, _ => False

theorem noned_readErr (files : Files) (bs : Nat) : ∀ (fuel : Nat) (fd : Feeder) (bytes : Nat) (w : Bytes) (o : DecOut),
    fd.salvage = false → nonedDecompress files bs fuel fd bytes w = .ok o →
    o.feeder.salvage = false ∧ o.dec = .none bs o.err ∧ (o.err = .read → o.feeder.readError ≠ .ok) := by
  intro fuel
  induction fuel with
  | zero => intro fd bytes w o _ h; simp [nonedDecompress] at h
  | succ fuel ih =>
    intro fd bytes w o hs h
    unfold nonedDecompress at h
    by_cases hb : bytes = 0
    · simp only [hb, ↓reduceIte, Except.ok.injEq] at h; subst h
      exact ⟨hs, rfl, fun hc => by cases hc⟩
    · simp only [hb, ↓reduceIte] at h
      generalize hrun : (if bytes > bs then bs else bytes) = run at h
      split at h
      · contradiction
      · rename_i fd' hr
        simp only [Except.ok.injEq] at h; subst h
        exact ⟨(feederSrc_salvage files _ _ _ _ hr).trans hs, rfl,
          fun _ => MsPack.CabLift.feederSrc_read_none files _ _ _ hr⟩
      · rename_i got fd' hr
        have hs' : fd'.salvage = false := (feederSrc_salvage files _ _ _ _ hr).trans hs
        by_cases hlen : got.length ≠ run
        · rw [if_pos hlen] at h; simp only [Except.ok.injEq] at h; subst h
          have hle := feederSrc_le files _ _ _ _ hr
          exact ⟨hs', rfl, fun _ => feederSrc_short files _ _ _ _ hr hs (by omega)⟩
        · rw [if_neg hlen] at h
          exact ih _ _ _ _ hs' h

theorem cabJ_callOk (files : Files) : CallOk files CabJ := by
  intro dec fd n o hj h
  cases dec with
  | none bs e =>
    obtain ⟨hs, hr⟩ := hj
    have hcount := countLaw_none files bs e fd n o h
    unfold decompress at h
    simp only at h
    split at h
    · rename_i he
      simp only [Except.ok.injEq, Option.some.injEq] at h; subst h
      exact ⟨⟨hs, hr⟩, fun hc => absurd hc he, hr⟩
    · cases hd : nonedDecompress files bs (n / max bs 1 + 2) fd n [] with
      | error f => simp [hd, Except.map] at h
      | ok o' =>
        simp only [hd, Except.map, Except.ok.injEq, Option.some.injEq] at h; subst h
        obtain ⟨h1, h2, h3⟩ := noned_readErr files bs _ _ _ _ _ hs hd
        refine ⟨?_, hcount.2, h3⟩
        rw [h2]
        exact ⟨h1, h3⟩
  | mszip st =>
    obtain ⟨hs, hb, hw, hr⟩ := hj
    unfold decompress at h
    simp only at h
    split at h
    · cases h
    · rename_i zo hz
      simp only [Except.ok.injEq, Option.some.injEq] at h
      subst h
      have hzj : ZJ ({ st with src := fd } : Zip.St Feeder) := ⟨hs, hb, hr⟩
      obtain ⟨⟨z1, z2, z3⟩, z4⟩ := zip_readErr files _ _ n zo hzj hz
      have hw' : Zip.WinOk zo.st := by
        have := Zip.decompress_ok (feederSrc files) (chainFuel files fd) ({ st with src := fd } : Zip.St Feeder) n hw
        rw [hz] at this; exact this
      have hc := CountLaws.Zip.decompress_count (feederSrc files) _ _ n zo hz
      exact ⟨⟨z1, z2, hw', z3⟩, hc.2 hw, z4⟩
  | qtm st => exact absurd hj id
  | lzx st => exact absurd hj id
  | unsupported k => exact absurd hj id

theorem zipInit_ok (src : Feeder) (n : Nat) (repair : Bool) (fill : UInt8) (st : Zip.St Feeder)
    (h : Zip.init src n repair fill = some st) : st.inbufSize ≠ 0 ∧ st.error = .ok := by
  unfold Zip.init at h
  dsimp only at h
  split at h
  · cases h
  · rename_i hlt
    simp only [Option.some.injEq] at h
    subst h
    exact ⟨by dsimp only; omega, rfl⟩

/-- a decoder freshly set up by a strict-mode `extract` on a stored or MSZIP folder is in `CabJ` -/
theorem fresh_stateOk (files : Files) (p : Params) (hs : p.salvage = false) (m : Member)
    (hct : compMask m.compType ≤ 1) (key : Nat) (ds : DState)
    (h : freshDState files p m key = .ok ds) : StateOk CabJ ds := by
  unfold freshDState at h
  split at h
  · cases h
  · split at h
    · cases h
    · split at h
      · cases h
      · rename_i dec0 hi
        cases h
        intro dec hdec
        simp only [Option.some.injEq] at hdec
        subst hdec
        unfold initDec at hi
        split at hi
        · cases hi
          exact ⟨hs, fun hc => by cases hc⟩
        · cases hz : Zip.init nullFeeder p.bufSize p.fixMszip p.fill with
          | none => simp [hz] at hi
          | some st =>
            simp only [hz, Option.map_some, Option.some.injEq] at hi
            subst hi
            have h1 := zipInit_ok _ _ _ _ _ hz
            exact ⟨hs, h1.1, Zip.init_winOk _ _ _ _ _ hz, fun hc => by rw [h1.2] at hc; cases hc⟩
        · rename_i h2; omega
        · rename_i h3; omega
        · rename_i h0 h1 h2 h3
          exfalso
          have : compMask m.compType = 0 ∨ compMask m.compType = 1 := by omega
          rcases this with h | h
          · exact h0 h
          · exact h1 h

theorem runPhases_stateOk (files : Files) (J : Dec → Feeder → Prop) (hC : CallOk files J) (ds : DState)
    (hds : StateOk J ds) (m : Member) (filelen : Nat) (e : Err) (w : Option Bytes) (ds' : DState)
    (h : runPhases files ds m filelen = .done e w (some ds')) : StateOk J ds' := by
  unfold runPhases at h
  split at h
  · simp only [ExtractResult.done.injEq, Option.some.injEq] at h; exact h.2.2 ▸ hds
  · rename_i dec hdec
    have hp := hds _ hdec
    split at h
    · simp only [ExtractResult.done.injEq, Option.some.injEq] at h; exact h.2.2 ▸ hds
    · simp only at h
      split at h
      · split at h
        · contradiction
        · contradiction
        · rename_i hr
          simp only [ExtractResult.done.injEq, Option.some.injEq] at h
          exact h.2.2 ▸ (runPhase_ok files J hC _ _ _ hp _ _ _ hr).1
      · split at h
        · contradiction
        · contradiction
        · rename_i e1 w1 ds1 hr1
          have hk1 := (runPhase_ok files J hC _ _ _ hp _ _ _ hr1).1
          split at h
          · simp only [ExtractResult.done.injEq, Option.some.injEq] at h; exact h.2.2 ▸ hk1
          · split at h
            · simp only [ExtractResult.done.injEq, Option.some.injEq] at h; exact h.2.2 ▸ hk1
            · rename_i dec1 hdec1
              have hp1 := hk1 _ hdec1
              split at h
              · contradiction
              · contradiction
              · rename_i hr
                simp only [ExtractResult.done.injEq, Option.some.injEq] at h
                exact h.2.2 ▸ (runPhase_ok files J hC _ _ _ hp1 _ _ _ hr).1

/-- the cache `extract` hands back is in `J` again, whatever the status -/
theorem extract_stateOk (files : Files) (J : Dec → Feeder → Prop) (hC : CallOk files J)
    (p : Params) (d : Option DState) (m : Member)
    (hd : ∀ ds, d = some ds → StateOk J ds)
    (hfresh : ∀ key ds, freshDState files p m key = .ok ds → StateOk J ds)
    (e : Err) (w : Option Bytes) (ds' : DState)
    (h : extract files p d m = .done e w (some ds')) : StateOk J ds' := by
  unfold extract at h
  split at h
  · simp only [ExtractResult.done.injEq] at h; exact hd _ h.2.2
  · rename_i filelen key hc
    split at h
    · simp at h
    · rename_i ds hob
      refine runPhases_stateOk files J hC ds ?_ m filelen e w ds' h
      unfold obtainDState at hob
      split at hob
      · split at hob
        · cases hob; exact hd _ rfl
        · exact hfresh _ _ hob
      · exact hfresh _ _ hob

end MsPack.CountLaws.CabJoint
