import Proofs.Lemmas.ZipBounds
/-!
# The chunking law of `Zip.decompress` (lemmas for C08Mszip)

`mszipd_decompress(zip, n)` serves the request from the bytes of the current frame that were not handed out yet
(`pending`) and inflates the next `CK` frame when they run out.  Asking for `a` bytes and then for `b` bytes is the
same as asking for `a + b` bytes at once: same status, same bytes, same decoder state.

Contents
* `K`: a third small triple over `ZM σ` that tracks the *sticky error field* and the *kind of exception*: a normal
  return and an `inf` exception leave `error` as it was, a `sys e` exception has `e ≠ ok` (the only one is `read`).
  One lemma per helper of `MsPack/Zip/Inflate.lean`.
* `frameStep`: the part of one `decompressLoop` iteration that does not depend on the number of bytes requested
  (align, `CK` scan, inflate, repair), with the `rfl`-style equation `loop_succ` that re-cuts the loop along it.
* `loop_acc`, `loop_mono`: accumulator and loop-count laws.
* `pend_exact`, `pend_past`, `pend_serve`, `loop_iter`: a request inside / beyond the pending bytes; one loop
  iteration = serving the request from the new frame put into `pending`.
* `chunk_joinN`, `chunk_splitN`, `ok_length`: the law, both directions (`decompressN` = `decompress` with the
  block-round count separated from the inner fuel; `decompress_eq : decompress S fuel = decompressN S fuel fuel`).
* `NH`, `huffBlock_nh`, `inflate_nh`, `scanCK_nh`, …, `decompress_fuel_mono`: more fuel for the inner loops gives
  the same result unless the fuel ran out.
-/
namespace MsPack.Zip.ZipChunk
open MsPack MsPack.Generated MsPack.Zip

variable {σ : Type} (S : Src σ)

/-! ## the error-field triple -/

/-- what an exceptional exit may look like: `sys` carries a real error; `inf` leaves the sticky error alone -/
def EOk (e0 : Err) (h : Halt) (s : St σ) : Prop :=
  match h with
  | .sys e => e ≠ .ok
  | .inf => s.error = e0
  | .fault _ => True

/-- running `m` from `st`: a normal return leaves `error = e0`; an exception satisfies `EOk` -/
def K (e0 : Err) {α : Type} (m : ZM σ α) (st : St σ) : Prop :=
  match exec m st with
  | (.ok _, s) => s.error = e0
  | (.error h, s) => EOk e0 h s

section rules
variable {α β : Type} {e0 : Err}

theorem K_bind {x : ZM σ α} {f : α → ZM σ β} {st : St σ}
    (hx : K e0 x st) (hf : ∀ a s, s.error = e0 → K e0 (f a) s) : K e0 (x >>= f) st := by
  unfold K at hx ⊢
  rw [exec_bind]
  cases h : exec x st with
  | mk r s =>
    rw [h] at hx
    cases r with
    | ok a => exact hf a s hx
    | error e => exact hx

theorem K_exec_ok {m : ZM σ α} {st s : St σ} {a : α} (h : K e0 m st) (he : exec m st = (.ok a, s)) :
    s.error = e0 := by
  unfold K at h; rw [he] at h; exact h

theorem K_exec_error {m : ZM σ α} {st s : St σ} {e : Halt} (h : K e0 m st) (he : exec m st = (.error e, s)) :
    EOk e0 e s := by
  unfold K at h; rw [he] at h; exact h

theorem K_get_bind (f : St σ → ZM σ β) (st : St σ) : K e0 (get >>= f) st = K e0 (f st) st := by
  unfold K; rw [exec_bind, exec_get]
theorem K_set_bind (s : St σ) (f : PUnit → ZM σ β) (st : St σ) : K e0 (set s >>= f) st = K e0 (f ⟨⟩) s := by
  unfold K; rw [exec_bind, exec_set]
theorem K_modify_bind (g : St σ → St σ) (f : PUnit → ZM σ β) (st : St σ) :
    K e0 (modify g >>= f) st = K e0 (f ⟨⟩) (g st) := by
  unfold K; rw [exec_bind, exec_modify]
theorem K_pure_bind (a : α) (f : α → ZM σ β) (st : St σ) : K e0 (pure a >>= f) st = K e0 (f a) st := by
  unfold K; rw [exec_bind, exec_pure]
theorem K_throw_bind (e : Halt) (f : α → ZM σ β) (st : St σ) : K e0 (throw e >>= f) st = EOk e0 e st := by
  unfold K; rw [exec_bind, exec_throw]
theorem K_pure (a : α) (st : St σ) : K e0 (pure a : ZM σ α) st = (st.error = e0) := by
  unfold K; rw [exec_pure]
theorem K_throw (e : Halt) (st : St σ) : K e0 (throw e : ZM σ α) st = EOk e0 e st := by
  unfold K; rw [exec_throw]
theorem K_get (st : St σ) : K e0 (get : ZM σ (St σ)) st = (st.error = e0) := by
  unfold K; rw [exec_get]
theorem K_set (s st : St σ) : K e0 (set s : ZM σ PUnit) st = (s.error = e0) := by
  unfold K; rw [exec_set]
theorem K_modify (g : St σ → St σ) (st : St σ) : K e0 (modify g : ZM σ PUnit) st = ((g st).error = e0) := by
  unfold K; rw [exec_modify]

theorem EOk_inf (s : St σ) : EOk e0 .inf s = (s.error = e0) := rfl
theorem EOk_fault (f : Fault) (s : St σ) : EOk e0 (.fault f) s = True := rfl
theorem EOk_sys (e : Err) (s : St σ) : EOk e0 (.sys e) s = (e ≠ .ok) := rfl
end rules

attribute [irreducible] K

/-- executes `get`/`set`/`modify`/`pure`/`throw` heads (same rewriting set as `zsimp`) -/
macro "ksimp" : tactic =>
  `(tactic| try simp only [K_get_bind, K_set_bind, K_modify_bind, K_pure_bind, K_throw_bind, K_pure,
      K_throw, K_get, K_set, K_modify, bind_assoc, pure_bind])

/-- `ksimp`, then close what is left: an `error = e0` fact in the context or a trivial exception side condition -/
macro "kfin" : tactic =>
  `(tactic| (ksimp; first | done | assumption | (simp only [EOk_inf, EOk_fault, EOk_sys]; first | done | assumption | (intro hh; cases hh))))

/-! ## one lemma per helper -/

theorem readInput_k (e0 : Err) (st : St σ) (h : st.error = e0) : K e0 (readInput S) st := by
  unfold readInput
  ksimp
  split
  · kfin
  · kfin
  · split
    · kfin
    · kfin
  · kfin

theorem nextByte_k (e0 : Err) (st : St σ) (h : st.error = e0) : K e0 (nextByte S) st := by
  unfold nextByte
  ksimp
  split
  · refine K_bind (readInput_k S e0 st h) ?_
    intro _ s hs
    ksimp
    split
    · kfin
    · kfin
  · ksimp
    split
    · kfin
    · kfin

theorem ensureBits_k (n : Nat) : ∀ (fuel : Nat) (e0 : Err) (st : St σ), st.error = e0 →
    K e0 (ensureBits S n fuel) st := by
  intro fuel
  induction fuel with
  | zero => intro e0 st h; rw [ensureBits.eq_1]; kfin
  | succ fuel ih =>
    intro e0 st h
    rw [ensureBits.eq_2]
    ksimp
    split
    · refine K_bind (nextByte_k S e0 st h) ?_
      intro b s hs
      ksimp
      exact ih e0 _ hs
    · kfin

theorem removeBits_k (n : Nat) (e0 : Err) (st : St σ) (h : st.error = e0) : K e0 (removeBits (σ := σ) n) st := by
  unfold removeBits
  kfin

theorem readBits_k (n : Nat) (e0 : Err) (st : St σ) (h : st.error = e0) : K e0 (readBits S n) st := by
  unfold readBits
  refine K_bind (ensureBits_k S n 3 e0 st h) ?_
  intro _ s hs
  ksimp
  refine K_bind (removeBits_k n e0 s hs) ?_
  intro _ s' hs'
  kfin

theorem readHuffSym_k (c : Huff.Canon) (e0 : Err) (st : St σ) (h : st.error = e0) : K e0 (readHuffSym S c) st := by
  unfold readHuffSym
  refine K_bind (ensureBits_k S 16 3 e0 st h) ?_
  intro _ s hs
  ksimp
  split
  · refine K_bind (removeBits_k _ e0 s hs) ?_
    intro _ s hs
    kfin
  · kfin

theorem readLensLoop_k (c : Huff.Canon) (total : Nat) : ∀ (fuel : Nat) (lens : List Nat) (last : Nat) (e0 : Err)
    (st : St σ), st.error = e0 → K e0 (readLensLoop S c total fuel lens last) st := by
  intro fuel
  induction fuel with
  | zero => intro lens last e0 st h; rw [readLensLoop.eq_1]; kfin
  | succ fuel ih =>
    intro lens last e0 st h
    rw [readLensLoop.eq_2]
    split
    · kfin
    · refine K_bind (ensureBits_k S 7 2 e0 st h) ?_
      intro _ s hs
      ksimp
      split
      · kfin
      · refine K_bind (removeBits_k _ e0 s hs) ?_
        intro _ s hs
        split
        · exact ih _ _ e0 s hs
        · split
          · kfin
          · try ksimp
            refine K_bind (readBits_k S _ e0 s hs) ?_
            intro v s hs
            have key : ∀ run val, K e0 (if lens.length + run > total then throw Halt.inf
                else readLensLoop S c total fuel (lens ++ List.replicate run val) last) s := by
              intro run val
              split
              · kfin
              · exact ih _ _ e0 s hs
            exact key _ _

theorem zipReadLens_rd_k (blc : Nat) : ∀ (k : Nat) (acc : List (Nat × Nat)) (e0 : Err) (st : St σ),
    st.error = e0 → K e0 (zipReadLens.rd S blc k acc) st := by
  intro k
  induction k with
  | zero => intro acc e0 st h; rw [zipReadLens.rd.eq_1]; kfin
  | succ k ih =>
    intro acc e0 st h
    rw [zipReadLens.rd.eq_2]
    refine K_bind (readBits_k S 3 e0 st h) ?_
    intro v s hs
    exact ih _ e0 s hs

theorem zipReadLens_k (e0 : Err) (st : St σ) (h : st.error = e0) : K e0 (zipReadLens S) st := by
  unfold zipReadLens
  refine K_bind (readBits_k S _ e0 st h) ?_
  intro v1 s hs
  refine K_bind (readBits_k S _ e0 s hs) ?_
  intro v2 s hs
  refine K_bind (readBits_k S _ e0 s hs) ?_
  intro v3 s hs
  ksimp
  split
  · kfin
  · split
    · kfin
    · refine K_bind (zipReadLens_rd_k S _ _ [] e0 s hs) ?_
      intro pairs s hs
      split
      · kfin
      · refine K_bind (readLensLoop_k S _ _ _ _ _ e0 s hs) ?_
        intro lens s hs
        kfin

theorem scanCK_k : ∀ (fuel state : Nat) (e0 : Err) (st : St σ), st.error = e0 → K e0 (scanCK S fuel state) st := by
  intro fuel
  induction fuel with
  | zero => intro state e0 st h; rw [scanCK.eq_1]; kfin
  | succ fuel ih =>
    intro state e0 st h
    rw [scanCK.eq_2]
    refine K_bind (readBits_k S _ e0 st h) ?_
    intro v s hs
    have key : ∀ x, K e0 (if x = 2 then pure () else scanCK S fuel x) s := by
      intro x
      split
      · kfin
      · exact ih _ e0 s hs
    exact key _

theorem flushWindow_k (n : Nat) (e0 : Err) (st : St σ) (h : st.error = e0) : K e0 (flushWindow (σ := σ) n) st := by
  unfold flushWindow
  ksimp
  split
  · kfin
  · kfin

theorem flushIfNeeded_k (e0 : Err) (st : St σ) (h : st.error = e0) : K e0 (flushIfNeeded (σ := σ)) st := by
  unfold flushIfNeeded
  ksimp
  split
  · refine K_bind (flushWindow_k _ e0 st h) ?_
    intro _ s hs
    kfin
  · kfin

theorem putByte_k (b : UInt8) (e0 : Err) (st : St σ) (h : st.error = e0) : K e0 (putByte (σ := σ) b) st := by
  unfold putByte
  ksimp
  split
  · ksimp
    exact flushIfNeeded_k e0 _ h
  · kfin

theorem copyMatch_k : ∀ (length posn : Nat) (e0 : Err) (st : St σ), st.error = e0 →
    K e0 (copyMatch (σ := σ) length posn) st := by
  intro length
  induction length with
  | zero => intro posn e0 st h; rw [copyMatch.eq_1]; kfin
  | succ length ih =>
    intro posn e0 st h
    rw [copyMatch.eq_2]
    ksimp
    refine K_bind (putByte_k _ e0 st h) ?_
    intro _ s hs
    exact ih _ e0 s hs

theorem copyStored_k : ∀ (fuel length : Nat) (e0 : Err) (st : St σ), st.error = e0 →
    K e0 (copyStored S fuel length) st := by
  intro fuel
  induction fuel with
  | zero => intro length e0 st h; rw [copyStored.eq_1]; kfin
  | succ fuel ih =>
    intro length e0 st h
    rw [copyStored.eq_2]
    split
    · kfin
    · ksimp
      have key : ∀ st : St σ, st.error = e0 → K e0 (do
          let st ← get
          let run := min (min length st.inbuf.length) (zipFRAME_SIZE - st.windowPosn)
          let chunk := st.inbuf.take run
          let w := chunk.foldl (fun (acc : Array UInt8 × Nat) b => (acc.1.setIfInBounds acc.2 b, acc.2 + 1)) (st.window, st.windowPosn)
          set { st with inbuf := st.inbuf.drop run, window := w.1, windowPosn := st.windowPosn + run }
          flushIfNeeded
          copyStored S fuel (length - run)) st := by
        intro st h
        ksimp
        refine K_bind (flushIfNeeded_k e0 _ h) ?_
        intro _ s hs
        exact ih _ e0 s hs
      split
      · refine K_bind (readInput_k S e0 st h) ?_
        intro _ s hs
        exact key s hs
      · exact key st h

theorem huffBlock_k (lit dist : Huff.Canon) : ∀ (fuel : Nat) (e0 : Err) (st : St σ), st.error = e0 →
    K e0 (huffBlock S lit dist fuel) st := by
  intro fuel
  induction fuel with
  | zero => intro e0 st h; rw [huffBlock.eq_1]; kfin
  | succ fuel ih =>
    intro e0 st h
    rw [huffBlock.eq_2]
    refine K_bind (readHuffSym_k S lit e0 st h) ?_
    intro code s hs
    split
    · refine K_bind (putByte_k _ e0 s hs) ?_
      intro _ s hs
      exact ih e0 s hs
    · split
      · kfin
      · ksimp
        split
        · kfin
        · ksimp
          refine K_bind (readBits_k S _ e0 s hs) ?_
          intro v s hs
          ksimp
          refine K_bind (readHuffSym_k S dist e0 s hs) ?_
          intro dc s hs
          split
          · kfin
          · ksimp
            refine K_bind (readBits_k S _ e0 s hs) ?_
            intro v2 s hs
            ksimp
            refine K_bind (copyMatch_k _ _ e0 s hs) ?_
            intro _ s hs
            exact ih e0 s hs

theorem inflate_more_k : ∀ (k : Nat) (acc : List UInt8) (e0 : Err) (st : St σ), st.error = e0 →
    K e0 (inflate.more S k acc) st := by
  intro k
  induction k with
  | zero => intro acc e0 st h; rw [inflate.more.eq_1]; kfin
  | succ k ih =>
    intro acc e0 st h
    rw [inflate.more.eq_2]
    refine K_bind (nextByte_k S e0 st h) ?_
    intro b s hs
    exact ih _ e0 s hs

theorem inflate_k : ∀ (fuel : Nat) (e0 : Err) (st : St σ), st.error = e0 → K e0 (inflate S fuel) st := by
  intro fuel
  induction fuel with
  | zero => intro e0 st h; rw [inflate.eq_1]; kfin
  | succ fuel ih =>
    intro e0 st h
    rw [inflate.eq_2]
    refine K_bind (readBits_k S 1 e0 st h) ?_
    intro lastBlock s hs
    refine K_bind (readBits_k S 2 e0 s hs) ?_
    intro blockType s hs
    have tail : ∀ s : St σ, s.error = e0 → K e0 (if lastBlock = 0 then inflate S fuel
        else do
          let st ← get
          if st.windowPosn ≠ 0 then flushWindow st.windowPosn else pure ()) s := by
      intro s hs
      split
      · exact ih e0 s hs
      · ksimp
        split
        · exact flushWindow_k _ e0 s hs
        · kfin
    ksimp
    split
    · ksimp
      split
      · kfin
      · ksimp
        refine K_bind (inflate_more_k S _ _ e0 { s with bits := [] } hs) ?_
        intro lb s hs
        ksimp
        split
        · kfin
        · ksimp
          refine K_bind (copyStored_k S _ _ e0 s hs) ?_
          intro _ s hs
          exact tail s hs
    · split
      · have rest : ∀ s : St σ, s.error = e0 → K e0 (do
            let st ← get
            match Huff.build zipLITERAL_TABLEBITS st.litLens with
              | none => do
                let __r ← throw Halt.inf
                (fun (_ : Unit) => if lastBlock = 0 then inflate S fuel
                  else do
                    let st ← get
                    if st.windowPosn ≠ 0 then flushWindow st.windowPosn else pure ()) __r
              | some lit =>
                match Huff.build zipDISTANCE_TABLEBITS st.distLens with
                | none => do
                  let __r ← throw Halt.inf
                  (fun (_ : Unit) => if lastBlock = 0 then inflate S fuel
                    else do
                      let st ← get
                      if st.windowPosn ≠ 0 then flushWindow st.windowPosn else pure ()) __r
                | some dist => do
                  let __r ← huffBlock S lit dist fuel
                  (fun (_ : Unit) => if lastBlock = 0 then inflate S fuel
                    else do
                      let st ← get
                      if st.windowPosn ≠ 0 then flushWindow st.windowPosn else pure ()) __r) s := by
          intro s hs
          ksimp
          split
          · kfin
          · split
            · kfin
            · refine K_bind (huffBlock_k S _ _ _ e0 s hs) ?_
              intro _ s hs
              exact tail s hs
        split
        · rw [K_modify_bind]
          exact rest _ hs
        · refine K_bind (zipReadLens_k S e0 s hs) ?_
          intro _ s hs
          exact rest s hs
      · kfin

/-! ## one loop iteration, re-cut -/

inductive FrameRes (σ : Type)
  | stop (e : Err) (st : St σ)
  | frame (se : Option Err) (st : St σ)

def frameStep (fuel : Nat) (st : St σ) : Except Fault (FrameRes σ) :=
  let st := { st with bits := st.bits.drop (st.bits.length % 8) }
  match (scanCK S fuel 0).run.run st with
  | (.error (.fault f), _) => .error f
  | (.error .inf, st) => .ok (.stop .decrunch { st with error := .decrunch })
  | (.error (.sys e), st) => .ok (.stop e st)
  | (.ok (), st) =>
    let st := { st with windowPosn := 0, bytesOutput := 0 }
    match runInflate S fuel st with
    | .error f => .error f
    | .ok (res, st) =>
      let failed := res ≠ .ok
      if failed ∧ !st.repair then
        let e := match res with | .sys e => e | _ => .decrunch
        .ok (.stop e { st with error := e })
      else
        let st := if failed then
            let bo := if st.bytesOutput = 0 ∧ st.windowPosn > 0 then st.bytesOutput + st.windowPosn else st.bytesOutput
            let win := (List.range (zipFRAME_SIZE - bo)).foldl (fun (a : Array UInt8) i => a.setIfInBounds (bo + i) 0) st.window
            { st with window := win, bytesOutput := zipFRAME_SIZE }
          else st
        match res with
        | .sys e => .ok (.frame (some e) st)
        | _ => .ok (.frame none st)

theorem loop_succ (fuel n : Nat) (st : St σ) (out : Nat) (w : Bytes) :
    decompressLoop S fuel (n + 1) st out w =
      if out = 0 then .ok ⟨.ok, w, st⟩ else
      match frameStep S fuel st with
      | .error f => .error f
      | .ok (.stop e st') => .ok ⟨e, w, st'⟩
      | .ok (.frame se st') =>
        let frame := st'.window.toList.take st'.bytesOutput
        let i := min out st'.bytesOutput
        match se with
        | some e => if st'.repair then .ok ⟨e, w ++ frame.take i, { st' with pending := frame.drop i }⟩
                    else .ok ⟨e, w ++ frame.take i, st'⟩
        | none => decompressLoop S fuel n { st' with pending := frame.drop i } (out - i) (w ++ frame.take i) := by
  rw [decompressLoop.eq_2]
  split
  · rfl
  · unfold frameStep
    dsimp only
    cases hr : (scanCK S fuel 0).run.run { st with bits := st.bits.drop (st.bits.length % 8) } with
    | mk r s =>
      cases r with
      | error e => cases e <;> rfl
      | ok a =>
        cases a
        dsimp only
        cases hri : runInflate S fuel { s with windowPosn := 0, bytesOutput := 0 } with
        | error f => rfl
        | ok p =>
          obtain ⟨res, s2⟩ := p
          dsimp only
          split
          · rfl
          · cases res <;> rfl

theorem runInflate_k (fuel : Nat) (st : St σ) (e0 : Err) (h0 : st.error = e0) (r : InfRes) (s : St σ)
    (h : runInflate S fuel st = .ok (r, s)) :
    (r = .ok → s.error = e0) ∧ (r = .inf → s.error = e0) ∧ (∀ e, r = .sys e → e ≠ .ok) := by
  have hk := inflate_k S fuel e0 st h0
  unfold runInflate at h
  change (match exec (inflate S fuel) st with
    | (.ok (), st') => Except.ok (InfRes.ok, st')
    | (.error (.fault f), _) => .error f
    | (.error .inf, st') => .ok (.inf, st')
    | (.error (.sys e), st') => .ok (.sys e, st')) = _ at h
  cases hr : exec (inflate S fuel) st with
  | mk r' s' =>
    rw [hr] at h
    cases r' with
    | ok a =>
      simp only [Except.ok.injEq, Prod.mk.injEq] at h
      obtain ⟨h1, h2⟩ := h
      subst h1 h2
      have := K_exec_ok hk hr
      exact ⟨fun _ => this, nofun, nofun⟩
    | error e =>
      have hw := K_exec_error hk hr
      cases e with
      | inf =>
        simp only [Except.ok.injEq, Prod.mk.injEq] at h
        obtain ⟨h1, h2⟩ := h
        subst h1 h2
        exact ⟨nofun, fun _ => hw, nofun⟩
      | sys e =>
        simp only [Except.ok.injEq, Prod.mk.injEq] at h
        obtain ⟨h1, h2⟩ := h
        subst h1 h2
        refine ⟨nofun, nofun, fun e' hc => ?_⟩
        cases hc
        exact hw
      | fault g => cases h

/-- what one iteration leaves -/
def FrameOk : FrameRes σ → Prop
  | .stop e _ => e ≠ .ok
  | .frame se st' => WinOk st' ∧ st'.bytesOutput ≤ zipFRAME_SIZE ∧ (se = none → st'.error = .ok) ∧
      (∀ e, se = some e → e ≠ .ok)

theorem frameStep_spec (fuel : Nat) (st : St σ) (hw : WinOk st) (he : st.error = .ok) (r : FrameRes σ)
    (h : frameStep S fuel st = .ok r) : FrameOk r := by
  unfold frameStep at h
  dsimp only at h
  have hs := (scanCK_quiet S fuel 0).safeW S (st := { st with bits := st.bits.drop (st.bits.length % 8) }) hw
  have hk := scanCK_k S fuel 0 .ok { st with bits := st.bits.drop (st.bits.length % 8) } he
  cases hr : (scanCK S fuel 0).run.run { st with bits := st.bits.drop (st.bits.length % 8) } with
  | mk r0 s =>
    rw [hr] at h
    cases r0 with
    | error e =>
      cases e with
      | fault g => cases h
      | inf => simp only [Except.ok.injEq] at h; subst h; intro hc; cases hc
      | sys e =>
        simp only [Except.ok.injEq] at h; subst h
        exact K_exec_error hk hr
    | ok a =>
      cases a
      have hw1 : WinOk s := hs.exec_ok hr
      have he1 : s.error = .ok := K_exec_ok hk hr
      dsimp only at h
      have hi : Inv { s with windowPosn := 0, bytesOutput := 0 } :=
        ⟨hw1, by show 0 < zipFRAME_SIZE; decide, Nat.zero_le _⟩
      cases hri : runInflate S fuel { s with windowPosn := 0, bytesOutput := 0 } with
      | error f => rw [hri] at h; cases h
      | ok p =>
        obtain ⟨res, s2⟩ := p
        rw [hri] at h
        have h2 := runInflate_ok S fuel _ hi res s2 hri
        have h3 := runInflate_k S fuel { s with windowPosn := 0, bytesOutput := 0 } .ok he1 res s2 hri
        dsimp only at h
        split at h
        · simp only [Except.ok.injEq] at h; subst h
          cases res with
          | ok => rename_i hc; exact absurd rfl hc.1
          | inf => intro hc; cases hc
          | sys e => exact h3.2.2 e rfl
        · cases res with
          | ok =>
            simp only [ne_eq, not_true_eq_false, ↓reduceIte, Except.ok.injEq] at h
            subst h
            have hi2 := h2.2 rfl
            exact ⟨h2.1, hi2.2.2, fun _ => h3.1 rfl, nofun⟩
          | inf =>
            simp only [ne_eq, reduceCtorEq, not_false_eq_true, ↓reduceIte, Except.ok.injEq] at h
            subst h
            refine ⟨?_, Nat.le_refl _, fun _ => h3.2.1 rfl, nofun⟩
            unfold WinOk
            dsimp only
            rw [foldl_setIfInBounds_size]
            exact h2.1
          | sys e =>
            simp only [ne_eq, reduceCtorEq, not_false_eq_true, ↓reduceIte, Except.ok.injEq] at h
            subst h
            refine ⟨?_, Nat.le_refl _, nofun, fun e' hc => ?_⟩
            · unfold WinOk
              dsimp only
              rw [foldl_setIfInBounds_size]
              exact h2.1
            · cases hc; exact h3.2.2 e rfl

/-! ## accumulator and loop-count laws -/

/-- put `w0` in front of what a run wrote -/
def pre (w0 : Bytes) : Except Fault (Out σ) → Except Fault (Out σ)
  | .error f => .error f
  | .ok o => .ok ⟨o.err, w0 ++ o.written, o.st⟩

theorem pre_ok_inv {w0 : Bytes} {r : Except Fault (Out σ)} {e : Err} {w : Bytes} {st : St σ}
    (h : pre w0 r = .ok ⟨e, w, st⟩) : ∃ w', r = .ok ⟨e, w', st⟩ ∧ w = w0 ++ w' := by
  cases r with
  | error f => cases h
  | ok o =>
    obtain ⟨e', w', st'⟩ := o
    simp only [pre, Except.ok.injEq, Out.mk.injEq] at h
    obtain ⟨rfl, rfl, rfl⟩ := h
    exact ⟨w', rfl, rfl⟩

theorem pre_ok (w0 : Bytes) (e : Err) (w : Bytes) (st : St σ) :
    pre w0 (.ok ⟨e, w, st⟩) = .ok ⟨e, w0 ++ w, st⟩ := rfl

theorem loop_acc (fuel : Nat) : ∀ (n : Nat) (st : St σ) (out : Nat) (w0 w : Bytes),
    decompressLoop S fuel n st out (w0 ++ w) = pre w0 (decompressLoop S fuel n st out w) := by
  intro n
  induction n with
  | zero => intro st out w0 w; rw [decompressLoop.eq_1, decompressLoop.eq_1]; rfl
  | succ n ih =>
    intro st out w0 w
    rw [loop_succ, loop_succ]
    split
    · rfl
    · cases hfs : frameStep S fuel st with
      | error f => rfl
      | ok r =>
        cases r with
        | stop e st' => rfl
        | frame se st' =>
          dsimp only
          cases se with
          | some e => dsimp only; split <;> simp only [pre, List.append_assoc]
          | none => dsimp only; rw [List.append_assoc]; exact ih ..

/-- more iterations allowed: same result, unless the loop count ran out -/
theorem loop_mono (fuel k : Nat) : ∀ (n : Nat) (st : St σ) (out : Nat) (w : Bytes),
    decompressLoop S fuel n st out w ≠ .error .hang →
    decompressLoop S fuel (n + k) st out w = decompressLoop S fuel n st out w := by
  intro n
  induction n with
  | zero => intro st out w h; rw [decompressLoop.eq_1] at h; exact absurd rfl h
  | succ n ih =>
    intro st out w h
    have e : n + 1 + k = (n + k) + 1 := by omega
    rw [e, loop_succ, loop_succ]
    rw [loop_succ] at h
    split
    · rfl
    · rename_i hout
      rw [if_neg hout] at h
      cases hfs : frameStep S fuel st with
      | error f => rfl
      | ok r =>
        cases r with
        | stop e st' => rfl
        | frame se st' =>
          rw [hfs] at h
          dsimp only at h ⊢
          cases se with
          | some e => rfl
          | none => dsimp only at h ⊢; exact ih _ _ _ h

/-- `decompress` with the block-loop count `n` separated from the bound `fuel` of the inner loops -/
def decompressN (fuel n : Nat) (st : St σ) (outBytes : Nat) : Except Fault (Out σ) :=
  if st.error ≠ .ok then .ok ⟨st.error, [], st⟩ else
  let i := min st.pending.length outBytes
  let w := st.pending.take i
  let st := { st with pending := st.pending.drop i }
  let outBytes := outBytes - i
  if outBytes = 0 then .ok ⟨.ok, w, st⟩
  else decompressLoop S fuel n st outBytes w

theorem decompress_eq (fuel : Nat) (st : St σ) (outBytes : Nat) :
    decompress S fuel st outBytes = decompressN S fuel fuel st outBytes := rfl

theorem decompressN_mono (fuel n k : Nat) (st : St σ) (out : Nat)
    (h : decompressN S fuel n st out ≠ .error .hang) :
    decompressN S fuel (n + k) st out = decompressN S fuel n st out := by
  unfold decompressN at h ⊢
  split
  · rfl
  · rename_i he
    rw [if_neg he] at h
    dsimp only at h ⊢
    split
    · rfl
    · rename_i ho
      rw [if_neg ho] at h
      exact loop_mono S fuel k n _ _ _ h

theorem decompressN_mono_ok (fuel n k : Nat) (st : St σ) (out : Nat) (o : Out σ)
    (h : decompressN S fuel n st out = .ok o) : decompressN S fuel (n + k) st out = .ok o := by
  rw [decompressN_mono S fuel n k st out (by rw [h]; exact fun hc => nomatch hc), h]

theorem decompressN_err_ok (fuel n : Nat) (st : St σ) (out : Nat) (w : Bytes) (st' : St σ)
    (h : decompressN S fuel n st out = .ok ⟨.ok, w, st'⟩) : st.error = .ok := by
  by_cases he : st.error = .ok
  · exact he
  · unfold decompressN at h
    rw [if_pos he] at h
    simp only [Except.ok.injEq, Out.mk.injEq] at h
    exact h.1

/-! ## requests inside / beyond the pending bytes -/

theorem pend_exact (fuel m : Nat) (st : St σ) (he : st.error = .ok) (a : Nat) (ha : a ≤ st.pending.length) :
    decompressN S fuel m st a = .ok ⟨.ok, st.pending.take a, { st with pending := st.pending.drop a }⟩ := by
  unfold decompressN
  rw [if_neg (fun h => h he)]
  dsimp only
  rw [Nat.min_eq_right ha, Nat.sub_self, if_pos rfl]

theorem pend_past (fuel m : Nat) (st : St σ) (he : st.error = .ok) (out : Nat) (ho : st.pending.length < out) :
    decompressN S fuel m st out =
      decompressLoop S fuel m { st with pending := [] } (out - st.pending.length) st.pending := by
  unfold decompressN
  rw [if_neg (fun h => h he)]
  dsimp only
  rw [Nat.min_eq_left (Nat.le_of_lt ho), if_neg (by omega), List.take_length, List.drop_length]

theorem pend_serve (fuel m : Nat) (st : St σ) (he : st.error = .ok) (a b : Nat) (ha : a ≤ st.pending.length) :
    decompressN S fuel m st (a + b) =
      pre (st.pending.take a) (decompressN S fuel m { st with pending := st.pending.drop a } b) := by
  have hne : ¬ (st.error ≠ .ok) := fun h => h he
  unfold decompressN
  dsimp only
  rw [if_neg hne, if_neg hne]
  have hj : min st.pending.length (a + b) = a + min (st.pending.drop a).length b := by
    rw [List.length_drop]; omega
  rw [hj, List.take_add, List.drop_drop]
  have ho : a + b - (a + min (st.pending.drop a).length b) = b - min (st.pending.drop a).length b := by omega
  rw [ho]
  split
  · rfl
  · rw [loop_acc]

/-! ## one iteration = serving from the new frame -/

theorem loop_iter (fuel n : Nat) (st st' : St σ) (out : Nat) (w : Bytes) (hout : out ≠ 0)
    (hfs : frameStep S fuel st = .ok (.frame none st')) (hw : WinOk st') (hb : st'.bytesOutput ≤ zipFRAME_SIZE)
    (he : st'.error = .ok) :
    decompressLoop S fuel (n + 2) st out w =
      pre w (decompressN S fuel (n + 1) { st' with pending := st'.window.toList.take st'.bytesOutput } out) := by
  have hw' : st'.window.size = zipFRAME_SIZE := hw
  have hlen : (st'.window.toList.take st'.bytesOutput).length = st'.bytesOutput := by
    rw [List.length_take, Array.length_toList, hw']; exact Nat.min_eq_left hb
  rw [loop_succ, if_neg hout, hfs]
  dsimp only
  unfold decompressN
  rw [if_neg (fun h => h he)]
  dsimp only
  rw [hlen, Nat.min_comm]
  split
  · rename_i h0
    rw [h0, loop_succ, if_pos rfl]
    rfl
  · rw [← loop_acc]

/-- a block loop that ended with `ok` went through a frame, and had an iteration to spare -/
theorem loop_ok_frame (fuel n : Nat) (st : St σ) (out : Nat) (w w1 : Bytes) (st1 : St σ) (hout : out ≠ 0)
    (hw : WinOk st) (he : st.error = .ok) (h : decompressLoop S fuel n st out w = .ok ⟨.ok, w1, st1⟩) :
    ∃ st' n', n = n' + 2 ∧ frameStep S fuel st = .ok (.frame none st') ∧ WinOk st' ∧
      st'.bytesOutput ≤ zipFRAME_SIZE ∧ st'.error = .ok := by
  cases n with
  | zero => rw [decompressLoop.eq_1] at h; cases h
  | succ n =>
    rw [loop_succ, if_neg hout] at h
    cases hfs : frameStep S fuel st with
    | error f => rw [hfs] at h; cases h
    | ok r =>
      have hs := frameStep_spec S fuel st hw he r hfs
      rw [hfs] at h
      cases r with
      | stop e st' =>
        simp only [Except.ok.injEq, Out.mk.injEq] at h
        exact absurd h.1 hs
      | frame se st' =>
        obtain ⟨h1, h2, h3, h4⟩ := hs
        dsimp only at h
        cases se with
        | some e =>
          dsimp only at h
          have := h4 e rfl
          split at h <;> (simp only [Except.ok.injEq, Out.mk.injEq] at h; exact absurd h.1 this)
        | none =>
          dsimp only at h
          cases n with
          | zero => rw [decompressLoop.eq_1] at h; cases h
          | succ n => exact ⟨st', n, rfl, rfl, h1, h2, h3 rfl⟩

/-! ## the chunking law -/

/-- a request beyond the pending bytes that ended `ok`: it is the pending bytes, then the same request (less the
    pending bytes) served from the next frame -/
theorem past_ok (fuel n : Nat) (st : St σ) (out : Nat) (w1 : Bytes) (st1 : St σ) (hw : WinOk st)
    (ho : st.pending.length < out) (h : decompressN S fuel n st out = .ok ⟨.ok, w1, st1⟩) :
    ∃ st' n' w1', n = n' + 2 ∧ frameStep S fuel { st with pending := [] } = .ok (.frame none st') ∧ WinOk st' ∧
      st'.bytesOutput ≤ zipFRAME_SIZE ∧ st'.error = .ok ∧ w1 = st.pending ++ w1' ∧
      decompressN S fuel (n' + 1) { st' with pending := st'.window.toList.take st'.bytesOutput }
        (out - st.pending.length) = .ok ⟨.ok, w1', st1⟩ := by
  have he := decompressN_err_ok S fuel n st out w1 st1 h
  rw [pend_past S fuel n st he out ho] at h
  have hout : out - st.pending.length ≠ 0 := by omega
  obtain ⟨st', n', rfl, hfs, h1, h2, h3⟩ := loop_ok_frame S fuel n { st with pending := [] } _ _ _ _ hout hw he h
  rw [loop_iter S fuel n' _ st' _ _ hout hfs h1 h2 h3] at h
  obtain ⟨w1', h5, h6⟩ := pre_ok_inv h
  exact ⟨st', n', w1', rfl, hfs, h1, h2, h3, h6, h5⟩

/-- **join**: `a` bytes with `ok`, then `b` bytes ⇒ `a + b` bytes at once give the second status, the two outputs
    in a row, and the same final state (loop counts add up) -/
theorem chunk_joinN (fuel : Nat) : ∀ (n : Nat) (st : St σ) (a : Nat) (w1 : Bytes) (st1 : St σ), WinOk st →
    decompressN S fuel n st a = .ok ⟨.ok, w1, st1⟩ →
    ∀ (m b : Nat) (e2 : Err) (w2 : Bytes) (st2 : St σ), decompressN S fuel m st1 b = .ok ⟨e2, w2, st2⟩ →
    decompressN S fuel (n + m) st (a + b) = .ok ⟨e2, w1 ++ w2, st2⟩ := by
  intro n
  induction n using Nat.strongRecOn with
  | _ n ih =>
    intro st a w1 st1 hw h m b e2 w2 st2 h2
    have he := decompressN_err_ok S fuel n st a w1 st1 h
    by_cases ha : a ≤ st.pending.length
    · rw [pend_exact S fuel n st he a ha] at h
      simp only [Except.ok.injEq, Out.mk.injEq, true_and] at h
      obtain ⟨rfl, rfl⟩ := h
      rw [pend_serve S fuel (n + m) st he a b ha, Nat.add_comm n m, decompressN_mono_ok S fuel m n _ _ _ h2]
      rfl
    · have ho : st.pending.length < a := by omega
      obtain ⟨st', n', w1', rfl, hfs, h3, h4, h5, rfl, h6⟩ := past_ok S fuel n st a w1 st1 hw ho h
      have hIH := ih (n' + 1) (by omega) { st' with pending := st'.window.toList.take st'.bytesOutput } _ _ _ h3 h6 m b e2 w2 st2 h2
      rw [pend_past S fuel _ st he (a + b) (by omega)]
      have e1 : n' + 2 + m = (n' + m) + 2 := by omega
      have e2' : a + b - st.pending.length = (a - st.pending.length) + b := by omega
      have e3 : n' + 1 + m = n' + m + 1 := by omega
      rw [e1, loop_iter S fuel (n' + m) _ st' _ _ (by omega) hfs h3 h4 h5, e2', ← e3, hIH, pre_ok, List.append_assoc]

/-- **split**: `a + b` bytes at once with `ok` ⇒ `a` bytes with `ok`, then `b` bytes with `ok`, the output cut at
    `a`, the same final state (same loop count) -/
theorem chunk_splitN (fuel : Nat) : ∀ (n : Nat) (st : St σ) (a b : Nat) (wt : Bytes) (st2 : St σ), WinOk st →
    decompressN S fuel n st (a + b) = .ok ⟨.ok, wt, st2⟩ →
    ∃ w1 st1 w2, decompressN S fuel n st a = .ok ⟨.ok, w1, st1⟩ ∧
      decompressN S fuel n st1 b = .ok ⟨.ok, w2, st2⟩ ∧ wt = w1 ++ w2 := by
  intro n
  induction n using Nat.strongRecOn with
  | _ n ih =>
    intro st a b wt st2 hw h
    have he := decompressN_err_ok S fuel n st (a + b) wt st2 h
    by_cases ha : a ≤ st.pending.length
    · rw [pend_serve S fuel n st he a b ha] at h
      obtain ⟨w2, h5, h6⟩ := pre_ok_inv h
      exact ⟨_, _, w2, pend_exact S fuel n st he a ha, h5, h6⟩
    · have ho : st.pending.length < a + b := by omega
      obtain ⟨st', n', wt', rfl, hfs, h3, h4, h5, rfl, h6⟩ := past_ok S fuel n st (a + b) wt st2 hw ho h
      have e2' : a + b - st.pending.length = (a - st.pending.length) + b := by omega
      rw [e2'] at h6
      obtain ⟨w1, st1, w2, k1, k2, rfl⟩ := ih (n' + 1) (by omega) { st' with pending := st'.window.toList.take st'.bytesOutput } _ _ _ _ h3 h6
      refine ⟨st.pending ++ w1, st1, w2, ?_, ?_, (List.append_assoc ..).symm⟩
      · rw [pend_past S fuel _ st he a (by omega),
          loop_iter S fuel n' _ st' _ _ (by omega) hfs h3 h4 h5, k1, pre_ok]
      · exact decompressN_mono_ok S fuel (n' + 1) 1 _ _ _ k2

/-- an `ok` answer has the length asked for -/
theorem ok_length (fuel : Nat) : ∀ (n : Nat) (st : St σ) (out : Nat) (w : Bytes) (st1 : St σ), WinOk st →
    decompressN S fuel n st out = .ok ⟨.ok, w, st1⟩ → w.length = out := by
  intro n
  induction n using Nat.strongRecOn with
  | _ n ih =>
    intro st out w st1 hw h
    have he := decompressN_err_ok S fuel n st out w st1 h
    by_cases ha : out ≤ st.pending.length
    · rw [pend_exact S fuel n st he out ha] at h
      simp only [Except.ok.injEq, Out.mk.injEq, true_and] at h
      obtain ⟨rfl, rfl⟩ := h
      rw [List.length_take]; omega
    · have ho : st.pending.length < out := by omega
      obtain ⟨st', n', w', rfl, hfs, h3, h4, h5, rfl, h6⟩ := past_ok S fuel n st out w st1 hw ho h
      have := ih (n' + 1) (by omega) { st' with pending := st'.window.toList.take st'.bytesOutput } _ _ _ h3 h6
      rw [List.length_append, this]; omega

/-! ## more fuel for the inner loops: same result, unless the fuel ran out -/

/-- `m'` does what `m` does wherever `m` does not end in `hang` -/
def NH {α : Type} (m m' : ZM σ α) : Prop :=
  ∀ st, (exec m st).1 ≠ .error (.fault .hang) → exec m' st = exec m st

theorem NH.refl {α : Type} (m : ZM σ α) : NH m m := fun _ _ => rfl

theorem NH.bind2 {α β : Type} {x x' : ZM σ α} {f g : α → ZM σ β} (hx : NH x x') (h : ∀ a, NH (f a) (g a)) :
    NH (x >>= f) (x' >>= g) := by
  intro st hnh
  rw [exec_bind] at hnh ⊢
  rw [exec_bind]
  cases hr : exec x st with
  | mk r s =>
    rw [hr] at hnh
    have hx' : exec x' st = exec x st := by
      apply hx
      rw [hr]
      cases r with
      | ok a => exact fun hc => nomatch hc
      | error e => intro hc; cases hc; exact hnh rfl
    rw [hx', hr]
    cases r with
    | ok a => exact h a s hnh
    | error e => rfl

theorem NH.hang {α : Type} (m' : ZM σ α) : NH (throw (.fault .hang) : ZM σ α) m' := by
  intro st hnh
  exact absurd rfl hnh

theorem huffBlock_nh (lit dist : Huff.Canon) (k : Nat) : ∀ fuel : Nat,
    NH (huffBlock S lit dist fuel) (huffBlock S lit dist (fuel + k)) := by
  intro fuel
  induction fuel with
  | zero => rw [huffBlock.eq_1]; exact NH.hang _
  | succ fuel ih =>
    have e : fuel + 1 + k = (fuel + k) + 1 := by omega
    rw [e, huffBlock.eq_2, huffBlock.eq_2]
    refine NH.bind2 (NH.refl _) (fun code => ?_)
    split
    · exact NH.bind2 (NH.refl _) (fun _ => ih)
    · split
      · exact NH.refl _
      · dsimp only
        have tail : ∀ (l p : Nat), NH (do copyMatch (σ := σ) l p; huffBlock S lit dist fuel)
            (do copyMatch (σ := σ) l p; huffBlock S lit dist (fuel + k)) :=
          fun l p => NH.bind2 (NH.refl _) (fun _ => ih)
        split
        · refine NH.bind2 (NH.refl _) (fun _ => ?_)
          refine NH.bind2 (NH.refl _) (fun _ => ?_)
          refine NH.bind2 (NH.refl _) (fun _ => ?_)
          split
          · refine NH.bind2 (NH.refl _) (fun _ => ?_)
            refine NH.bind2 (NH.refl _) (fun _ => ?_)
            refine NH.bind2 (NH.refl _) (fun _ => ?_)
            exact tail _ _
          · refine NH.bind2 (NH.refl _) (fun _ => ?_)
            refine NH.bind2 (NH.refl _) (fun _ => ?_)
            exact tail _ _
        · refine NH.bind2 (NH.refl _) (fun _ => ?_)
          refine NH.bind2 (NH.refl _) (fun _ => ?_)
          split
          · refine NH.bind2 (NH.refl _) (fun _ => ?_)
            refine NH.bind2 (NH.refl _) (fun _ => ?_)
            refine NH.bind2 (NH.refl _) (fun _ => ?_)
            exact tail _ _
          · refine NH.bind2 (NH.refl _) (fun _ => ?_)
            refine NH.bind2 (NH.refl _) (fun _ => ?_)
            exact tail _ _

theorem scanCK_nh (k : Nat) : ∀ fuel state : Nat, NH (scanCK S fuel state) (scanCK S (fuel + k) state) := by
  intro fuel
  induction fuel with
  | zero => intro state; rw [scanCK.eq_1]; exact NH.hang _
  | succ fuel ih =>
    intro state
    have e : fuel + 1 + k = (fuel + k) + 1 := by omega
    rw [e, scanCK.eq_2, scanCK.eq_2]
    refine NH.bind2 (NH.refl _) (fun i => ?_)
    have key : ∀ x, NH (if x = 2 then pure () else scanCK S fuel x)
        (if x = 2 then pure () else scanCK S (fuel + k) x) := by
      intro x
      split
      · exact NH.refl _
      · exact ih _
    exact key _

theorem inflate_nh (k : Nat) : ∀ fuel : Nat, NH (inflate S fuel) (inflate S (fuel + k)) := by
  intro fuel
  induction fuel with
  | zero => rw [inflate.eq_1]; exact NH.hang _
  | succ fuel ih =>
    have e : fuel + 1 + k = (fuel + k) + 1 := by omega
    have hb := fun lit dist => huffBlock_nh S lit dist k fuel
    rw [e, inflate.eq_2, inflate.eq_2]
    repeat (first
      | (with_reducible exact ih)
      | (with_reducible exact hb _ _)
      | (with_reducible exact NH.refl _)
      | (refine NH.bind2 ?_ (fun _ => ?_))
      | split
      | dsimp only)

theorem runInflate_nh (fuel k : Nat) (st : St σ) (h : runInflate S fuel st ≠ .error .hang) :
    runInflate S (fuel + k) st = runInflate S fuel st := by
  have hx : exec (inflate S (fuel + k)) st = exec (inflate S fuel) st := by
    apply inflate_nh S k fuel st
    intro hc
    apply h
    unfold runInflate
    cases hr : exec (inflate S fuel) st with
    | mk r s =>
      rw [hr] at hc
      have hr' : (inflate S fuel).run.run st = (r, s) := hr
      rw [hr']
      dsimp only at hc
      subst hc
      rfl
  unfold runInflate
  rw [show (inflate S (fuel + k)).run.run st = (inflate S fuel).run.run st from hx]

theorem frameStep_nh (fuel k : Nat) (st : St σ) (h : frameStep S fuel st ≠ .error .hang) :
    frameStep S (fuel + k) st = frameStep S fuel st := by
  unfold frameStep at h ⊢
  dsimp only at h ⊢
  have hx := scanCK_nh S k fuel 0 { st with bits := st.bits.drop (st.bits.length % 8) }
  cases hr : (scanCK S fuel 0).run.run { st with bits := st.bits.drop (st.bits.length % 8) } with
  | mk r s =>
    rw [hr] at h
    have hr' : exec (scanCK S fuel 0) { st with bits := st.bits.drop (st.bits.length % 8) } = (r, s) := hr
    rw [hr'] at hx
    have hx' := hx (by
      intro hc
      dsimp only at hc
      subst hc
      exact h rfl)
    rw [show (scanCK S (fuel + k) 0).run.run { st with bits := st.bits.drop (st.bits.length % 8) } = (r, s) from hx']
    cases r with
    | error e => cases e <;> rfl
    | ok a =>
      cases a
      dsimp only at h ⊢
      by_cases hri : runInflate S fuel { s with windowPosn := 0, bytesOutput := 0 } = .error .hang
      · rw [hri] at h
        exact absurd rfl h
      · rw [runInflate_nh S fuel k _ hri]

/-- the block loop with more fuel for the inner loops -/
theorem loop_fuel_mono (fuel k : Nat) : ∀ (n : Nat) (st : St σ) (out : Nat) (w : Bytes),
    decompressLoop S fuel n st out w ≠ .error .hang →
    decompressLoop S (fuel + k) n st out w = decompressLoop S fuel n st out w := by
  intro n
  induction n with
  | zero => intro st out w h; rw [decompressLoop.eq_1] at h; exact absurd rfl h
  | succ n ih =>
    intro st out w h
    rw [loop_succ, loop_succ]
    rw [loop_succ] at h
    split
    · rfl
    · rename_i hout
      rw [if_neg hout] at h
      by_cases hfs : frameStep S fuel st = .error .hang
      · rw [hfs] at h
        exact absurd rfl h
      · rw [frameStep_nh S fuel k st hfs]
        cases hf : frameStep S fuel st with
        | error f => rfl
        | ok r =>
          rw [hf] at h
          cases r with
          | stop e st' => rfl
          | frame se st' =>
            dsimp only at h ⊢
            cases se with
            | some e => rfl
            | none => dsimp only at h ⊢; exact ih _ _ _ h

theorem decompressN_fuel_mono (fuel k n : Nat) (st : St σ) (out : Nat)
    (h : decompressN S fuel n st out ≠ .error .hang) :
    decompressN S (fuel + k) n st out = decompressN S fuel n st out := by
  unfold decompressN at h ⊢
  split
  · rfl
  · rename_i he
    rw [if_neg he] at h
    dsimp only at h ⊢
    split
    · rfl
    · rename_i ho
      rw [if_neg ho] at h
      exact loop_fuel_mono S fuel k n _ _ _ h

/-- **`decompress` with more fuel**: same result, unless the fuel ran out -/
theorem decompress_fuel_mono (fuel k : Nat) (st : St σ) (out : Nat)
    (h : decompress S fuel st out ≠ .error .hang) :
    decompress S (fuel + k) st out = decompress S fuel st out := by
  rw [decompress_eq] at h
  have h1 := decompressN_fuel_mono S fuel k fuel st out h
  rw [decompress_eq, decompress_eq, decompressN_mono S (fuel + k) fuel k st out (by rw [h1]; exact h), h1]

end MsPack.Zip.ZipChunk
