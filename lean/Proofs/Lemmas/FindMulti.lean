import Proofs.Lemmas.FindPlanted
/-
Completeness of `cabd_find` for SEVERAL planted cabinets: a file
`junk_0 ++ cab_1 ++ junk_1 ++ … ++ cab_k ++ junk_k` whose junk pieces contain no signature and whose cabinets
occupy exactly `cablen` bytes.  The restart loop produces one candidate per planted cabinet (at its offset),
restarts right behind it in state 0, and nothing else.
-/
namespace MsPack.Cab
open MsPack

/-- one planted cabinet: the junk in front of it, the bytes it occupies, what it parses to -/
structure Planted where
  junk   : Bytes
  cab    : Bytes
  parsed : Cabinet

/-- `junk_0 ++ cab_1 ++ junk_1 ++ … ++ cab_k ++ last` -/
def layout : List Planted → Bytes → Bytes
  | [], last => last
  | s :: rest, last => s.junk ++ (s.cab ++ layout rest last)

/-- the premises for one planted cabinet whose first byte is at offset `off` of `file`: no signature in the junk
    in front of it; its bytes include the 20 header bytes the scanner looks at; its length field is the number of
    bytes it occupies; it parses; its two length fields pass the "likely cabinet" test -/
def SegOk (sv : Bool) (file : Bytes) (s : Planted) (off : Nat) : Prop :=
  ¬ sig <:+: s.junk ∧ 20 ≤ s.cab.length ∧ u32At s.cab 8 = s.cab.length ∧
  readHeaders file off sv = .ok s.parsed ∧
  plausible file.length sv ⟨off, u32At s.cab 8, u32At s.cab 16⟩ = true

/-- the premises for all planted cabinets of `segs`, the first junk piece starting at offset `off` of `file` -/
def PlantedAt (sv : Bool) (file : Bytes) : Nat → List Planted → Prop
  | _, [] => True
  | off, s :: rest =>
    SegOk sv file s (off + s.junk.length) ∧ PlantedAt sv file (off + s.junk.length + s.cab.length) rest

/-- the offsets of the planted cabinets when the first junk piece starts at `off` -/
def cabOffsets : Nat → List Planted → List Nat
  | _, [] => []
  | off, s :: rest => (off + s.junk.length) :: cabOffsets (off + s.junk.length + s.cab.length) rest

theorem cabOffsets_length : ∀ (segs : List Planted) (off : Nat), (cabOffsets off segs).length = segs.length
  | [], _ => rfl
  | _ :: rest, _ => by simp only [cabOffsets, List.length_cons, cabOffsets_length rest]

/-- `cabOffsets` are the real positions: in front of the `i`-th cabinet lie the earlier segments and its junk -/
theorem cabOffsets_spec : ∀ (segs : List Planted) (off i : Nat) (h : i < segs.length),
    (cabOffsets off segs)[i]'(by rw [cabOffsets_length]; exact h) =
      off + (layout (segs.take i) segs[i].junk).length
  | s :: rest, off, 0, _ => by simp [cabOffsets, layout]
  | s :: rest, off, i + 1, h => by
    simp only [cabOffsets, List.getElem_cons_succ, List.take_succ_cons, layout, List.length_append]
    rw [cabOffsets_spec rest _ i (by simpa using h)]
    omega

/-- the file splits at the `i`-th cabinet -/
theorem layout_split : ∀ (segs : List Planted) (last : Bytes) (i : Nat) (h : i < segs.length),
    layout segs last = layout (segs.take i) segs[i].junk ++ (segs[i].cab ++ layout (segs.drop (i + 1)) last)
  | s :: rest, last, 0, _ => by simp [layout]
  | s :: rest, last, i + 1, h => by
    simp only [List.take_succ_cons, layout, List.getElem_cons_succ, List.drop_succ_cons, List.append_assoc]
    rw [← layout_split rest last i (by simpa using h)]

/-- the recursive premise, from the premise for every (cabinet, offset) pair -/
theorem plantedAt_of_forall (sv : Bool) (file : Bytes) : ∀ (segs : List Planted) (off : Nat),
    (∀ p ∈ segs.zip (cabOffsets off segs), SegOk sv file p.1 p.2) → PlantedAt sv file off segs
  | [], _, _ => trivial
  | s :: rest, off, h => by
    refine ⟨h (s, off + s.junk.length) (by simp [cabOffsets]), plantedAt_of_forall sv file rest _ ?_⟩
    intro p hp
    exact h p (by simp only [cabOffsets, List.zip_cons_cons, List.mem_cons]; exact Or.inr hp)

theorem byteAt_append_left (a b : Bytes) (i : Nat) (h : i < a.length) : byteAt (a ++ b) i = byteAt a i := by
  simp only [byteAt, List.getD_eq_getElem?_getD, List.getElem?_append_left h]

theorem u32At_append_left (a b : Bytes) (i : Nat) (h : i + 4 ≤ a.length) : u32At (a ++ b) i = u32At a i := by
  simp only [u32At]
  rw [byteAt_append_left a b i (by omega), byteAt_append_left a b (i+1) (by omega),
    byteAt_append_left a b (i+2) (by omega), byteAt_append_left a b (i+3) (by omega)]

/-- what parses as a cabinet at `off` has 36 bytes there, beginning with the signature -/
theorem readHeaders_sig (file : Bytes) (off : Nat) (sv : Bool) (c : Cabinet)
    (hc : readHeaders file off sv = .ok c) :
    36 ≤ (file.drop off).length ∧ u32At (file.drop off) 0 = 0x4643534D := by
  obtain ⟨_, buf, r, hrd, hsig, _⟩ := readHeaders_fields _ _ _ _ hc
  have hbuf : buf = (file.drop off).take 36 ∧ 36 ≤ (file.drop off).length := by
    simp only [Rd.readExact, Rd.read] at hrd
    by_cases hl : ((file.drop off).take 36).length = 36
    · simp only [hl, ↓reduceIte, Option.some.injEq, Prod.mk.injEq] at hrd
      rw [List.length_take] at hl
      exact ⟨hrd.1.symm, by omega⟩
    · simp only [hl, ↓reduceIte] at hrd; contradiction
  refine ⟨hbuf.2, ?_⟩
  rw [← hsig, hbuf.1]
  simp only [u32At, byteAt, List.getD_eq_getElem?_getD, List.getElem?_take]
  simp

theorem layout_length_pos (s : Planted) (rest : List Planted) (last : Bytes) (h : 0 < s.cab.length) :
    0 < (layout (s :: rest) last).length := by
  simp only [layout, List.length_append]; omega

/-- junk without a signature, then a cabinet header: the one-buffer scan started in state 0 in front of the junk
    reports the cabinet's offset and its two length fields -/
theorem scanAll_seg (file junk cab rest : Bytes) (start : Nat) (hd : file.drop start = junk ++ (cab ++ rest))
    (hj : ¬ sig <:+: junk) (h20 : 20 ≤ cab.length) (hsig : u32At (cab ++ rest) 0 = 0x4643534D) :
    scanAll file start {} = some ⟨start + junk.length, u32At cab 8, u32At cab 16⟩ := by
  obtain ⟨st', hs1, hst'⟩ := scan_junk junk start {} (by simp) (by simpa using hj)
  have hs2 := scan_header (cab ++ rest) (by rw [List.length_append]; omega) hsig (start + junk.length) st' hst'
  rw [u32At_append_left _ _ 8 (by omega), u32At_append_left _ _ 16 (by omega)] at hs2
  unfold scanAll
  rw [hd, scanBuf_append, hs1]
  simp only [hs2]

/-- a plausible candidate that parses: the cabinet is linked in and the scan restarts right behind it -/
theorem atHit_ok (sv : Bool) (file : Bytes) (hit : Hit) (acc : List Cabinet) (c : Cabinet)
    (hpl : plausible file.length sv hit = true) (hc : readHeaders file hit.caboff sv = .ok c) :
    atHit sv file hit acc = (hit.caboff + hit.cablen, c :: acc) := by
  unfold atHit
  rw [if_pos hpl, hc]


theorem findLoop_none (n : Nat) (sv : Bool) (file : Bytes) (start : Nat) (acc : List Cabinet)
    (hs : scanChunks n file start {} = none) : findLoop n sv file start acc = (acc.reverse, .done) := by
  rw [findLoop, hs]

theorem findLoop_step (n : Nat) (sv : Bool) (file : Bytes) (start : Nat) (acc : List Cabinet) (hit : Hit)
    (off' : Nat) (acc' : List Cabinet)
    (hs : scanChunks n file start {} = some hit) (hat : atHit sv file hit acc = (off', acc')) :
    findLoop n sv file start acc =
      if off' ≥ file.length then (acc'.reverse, .done)
      else if start < off' then findLoop n sv file off' acc' else (acc'.reverse, .hang) := by
  rw [findLoop, hs]
  simp only [hat]
  split
  · rfl
  · split <;> rfl
/-- the restart loop on a planted file, started at the beginning of a junk piece: every planted cabinet from
    there on, in order, and nothing else -/
theorem findLoop_planted (n : Nat) (hn : 1 ≤ n) (sv : Bool) (file last : Bytes) (hlast : ¬ sig <:+: last) :
    ∀ (segs : List Planted) (pre : Bytes) (acc : List Cabinet),
      file = pre ++ layout segs last → PlantedAt sv file pre.length segs →
      (findLoop n sv file pre.length acc).1 = acc.reverse ++ segs.map (·.parsed) := by
  intro segs
  induction segs with
  | nil =>
    intro pre acc hf _
    have hscan : scanChunks n file pre.length {} = none := by
      rw [scanChunks_eq_scanAll n hn]; unfold scanAll
      have hd : file.drop pre.length = last := by rw [hf, List.drop_left]; rfl
      obtain ⟨st', h, _⟩ := scan_junk last pre.length {} (by simp) (by simpa using hlast)
      rw [hd, h]
    rw [findLoop_none n sv file _ acc hscan]; simp
  | cons s rest ih =>
    intro pre acc hf hp
    obtain ⟨⟨hj, h20, hlen, hc, hpl⟩, hrest⟩ := hp
    have hd : file.drop (pre.length + s.junk.length) = s.cab ++ layout rest last := by
      rw [hf]; simp only [layout]
      rw [← List.append_assoc, ← List.length_append, List.drop_left]
    have hd0 : file.drop pre.length = s.junk ++ (s.cab ++ layout rest last) := by
      rw [hf, List.drop_left]; rfl
    obtain ⟨_, hsig⟩ := readHeaders_sig _ _ _ _ hc
    rw [hd] at hsig
    have hscan : scanChunks n file pre.length {} =
        some ⟨pre.length + s.junk.length, u32At s.cab 8, u32At s.cab 16⟩ := by
      rw [scanChunks_eq_scanAll n hn]
      exact scanAll_seg file s.junk s.cab (layout rest last) pre.length hd0 hj h20 hsig
    -- from here on the two length fields are plain numbers
    rw [hlen] at hscan hpl
    generalize u32At s.cab 16 = fo at hscan hpl
    clear hsig hlen
    have hat : atHit sv file ⟨pre.length + s.junk.length, s.cab.length, fo⟩ acc =
        (pre.length + s.junk.length + s.cab.length, s.parsed :: acc) :=
      atHit_ok sv file ⟨pre.length + s.junk.length, s.cab.length, fo⟩ acc s.parsed hpl hc
    have hflen : file.length = pre.length + s.junk.length + s.cab.length + (layout rest last).length := by
      rw [hf]; simp only [layout, List.length_append]; omega
    rw [findLoop_step n sv file _ acc _ _ _ hscan hat]
    by_cases hge : pre.length + s.junk.length + s.cab.length ≥ file.length
    · rw [if_pos hge]
      have hnil : rest = [] := by
        cases rest with
        | nil => rfl
        | cons t r =>
          exfalso
          obtain ⟨⟨_, h20', _⟩, _⟩ := hrest
          have := layout_length_pos t r last (by omega)
          omega
      subst hnil; simp
    · rw [if_neg hge, if_pos (by omega)]
      have hih := ih (pre ++ s.junk ++ s.cab) (s.parsed :: acc)
        (by rw [hf]; simp only [layout, List.append_assoc])
        (by simpa only [List.length_append] using hrest)
      simp only [List.length_append] at hih
      rw [hih]; simp

end MsPack.Cab
