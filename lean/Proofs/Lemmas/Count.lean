import MsPack.Cab.Extract
namespace MsPack.Cab
open MsPack

theorem noned_count (files : Files) (bs : Nat) : ∀ (fuel : Nat) (fd : Feeder) (bytes : Nat) (w : Bytes) (o : DecOut),
    nonedDecompress files bs fuel fd bytes w = .ok o →
    o.written.length ≤ w.length + bytes ∧ (o.err = .ok → o.written.length = w.length + bytes) := by
  intro fuel
  induction fuel with
  | zero => intro fd bytes w o h; simp [nonedDecompress] at h
  | succ fuel ih =>
    intro fd bytes w o h
    unfold nonedDecompress at h
    by_cases hb : bytes = 0
    · simp only [hb, ↓reduceIte, Except.ok.injEq] at h; subst h; simp [hb]
    · simp only [hb, ↓reduceIte] at h
      generalize hrun : (if bytes > bs then bs else bytes) = run at h
      have hrunle : run ≤ bytes := by rw [← hrun]; split <;> omega
      split at h
      · contradiction
      · simp only [Except.ok.injEq] at h; subst h; simp
      · rename_i got fd' hr
        by_cases hlen : got.length ≠ run
        · rw [if_pos hlen] at h; simp only [Except.ok.injEq] at h; subst h; simp
        · rw [if_neg hlen] at h
          have := ih _ _ _ _ h
          simp only [List.length_append] at this
          simp only [Decidable.not_not] at hlen
          constructor
          · have := this.1; omega
          · intro he; have := this.2 he; omega

/-- L1, the counting law of a stream decoder: never more than asked, exactly as asked on OK -/
def CountLaw (files : Files) (dec : Dec) : Prop :=
  ∀ fd n o, decompress files dec fd n = .ok (some o) →
    o.written.length ≤ n ∧ (o.err = .ok → o.written.length = n)

theorem countLaw_none (files : Files) (bs : Nat) (e : Err) : CountLaw files (.none bs e) := by
  intro fd n o h
  unfold decompress at h
  simp only at h
  split at h
  · simp only [Except.ok.injEq, Option.some.injEq] at h; subst h
    rename_i he
    simp only [List.length_nil, Nat.zero_le, true_and]
    intro hc; exact absurd hc he
  · cases hd : nonedDecompress files bs (n / max bs 1 + 2) fd n [] with
    | error f => simp [hd, Except.map] at h
    | ok o' =>
      simp only [hd, Except.map, Except.ok.injEq, Option.some.injEq] at h; subst h
      simpa using noned_count files bs _ _ _ _ _ hd

theorem runPhase_count (files : Files) (ds : DState) (dec : Dec) (n : Nat) (hL : CountLaw files dec)
    (e : Err) (w : Bytes) (ds' : DState) (h : runPhase files ds dec n = .ran e w ds') :
    w.length ≤ n := by
  unfold runPhase at h
  split at h
  · contradiction
  · contradiction
  · rename_i o ho
    simp only [PhaseResult.ran.injEq] at h
    rw [← h.2.1]; exact (hL _ _ _ ho).1

/-- the member length actually extracted never exceeds the declared one -/
theorem memberCheck_le (p : Params) (m : Member) (filelen key : Nat)
    (h : memberCheck p m = .ok (filelen, key)) : filelen ≤ m.length := by
  unfold memberCheck at h
  simp only at h
  repeat' split at h
  all_goals first
    | contradiction
    | (simp only [Except.ok.injEq, Prod.mk.injEq] at h; omega)

theorem runPhases_count (files : Files) (hL : ∀ dec, CountLaw files dec) (ds : DState) (m : Member)
    (filelen : Nat) (e : Err) (w : Bytes) (d' : Option DState)
    (h : runPhases files ds m filelen = .done e (some w) d') : w.length ≤ filelen := by
  unfold runPhases at h
  split at h
  · simp at h
  · split at h
    · simp only [ExtractResult.done.injEq, Option.some.injEq] at h; rw [← h.2.1]; simp
    · simp only at h
      split at h
      · split at h
        · contradiction
        · contradiction
        · rename_i hr
          simp only [ExtractResult.done.injEq, Option.some.injEq] at h
          rw [← h.2.1]; exact runPhase_count _ _ _ _ (hL _) _ _ _ hr
      · split at h
        · contradiction
        · contradiction
        · split at h
          · simp only [ExtractResult.done.injEq, Option.some.injEq] at h; rw [← h.2.1]; simp
          · split at h
            · simp at h
            · split at h
              · contradiction
              · contradiction
              · rename_i hr
                simp only [ExtractResult.done.injEq, Option.some.injEq] at h
                rw [← h.2.1]; exact runPhase_count _ _ _ _ (hL _) _ _ _ hr

/-- **C07, upper bound**: whatever the cabinet, the parameters and the decoder cache, the bytes
    `extract` hands to the output never exceed the member's declared length -/
theorem extract_written_le (files : Files) (hL : ∀ dec, CountLaw files dec) (p : Params)
    (d : Option DState) (m : Member) (e : Err) (w : Bytes) (d' : Option DState)
    (h : extract files p d m = .done e (some w) d') : w.length ≤ m.length := by
  unfold extract at h
  split at h
  · simp at h
  · rename_i filelen key hc
    split at h
    · simp at h
    · exact Nat.le_trans (runPhases_count files hL _ _ _ _ _ _ h) (memberCheck_le _ _ _ _ hc)

/-- the substitution `READ → read_error` never turns a decoder's READ into OK: a decoder that
    reports a read failure has seen the feeder fail (proved per decoder where available;
    otherwise an explicit hypothesis of the theorems below) -/
def ReadErrLaw (files : Files) (dec : Dec) : Prop :=
  ∀ fd n o, decompress files dec fd n = .ok (some o) → o.err = .read → o.feeder.readError ≠ .ok

theorem memberCheck_strict (p : Params) (m : Member) (filelen key : Nat) (hs : p.salvage = false)
    (h : memberCheck p m = .ok (filelen, key)) : filelen = m.length := by
  unfold memberCheck at h
  simp only [hs, Bool.not_false, and_true, true_and] at h
  split at h
  · contradiction
  · split at h
    · contradiction
    · repeat' split at h
      all_goals first
        | contradiction
        | (simp only [Except.ok.injEq, Prod.mk.injEq] at h; exact h.1.symm)

theorem runPhase_ok (files : Files) (ds : DState) (dec : Dec) (n : Nat) (hL : CountLaw files dec)
    (hR : ReadErrLaw files dec) (w : Bytes) (ds' : DState)
    (h : runPhase files ds dec n = .ran .ok w ds') : w.length = n := by
  unfold runPhase at h
  split at h
  · contradiction
  · contradiction
  · rename_i o ho
    simp only [PhaseResult.ran.injEq] at h
    rw [← h.2.1]
    by_cases hr : o.err = .read
    · rw [if_pos hr] at h; exact absurd h.1 (hR _ _ _ ho hr)
    · rw [if_neg hr] at h; exact (hL _ _ _ ho).2 h.1

theorem runPhases_ok (files : Files) (hL : ∀ dec, CountLaw files dec) (hR : ∀ dec, ReadErrLaw files dec)
    (ds : DState) (m : Member) (filelen : Nat) (w : Bytes) (d' : Option DState)
    (h : runPhases files ds m filelen = .done .ok (some w) d') : w.length = filelen := by
  unfold runPhases at h
  split at h
  · simp at h
  · split at h
    · rename_i h0
      simp only [ExtractResult.done.injEq, Option.some.injEq] at h; rw [← h.2.1, h0]; simp
    · simp only at h
      split at h
      · split at h
        · contradiction
        · contradiction
        · rename_i hr
          simp only [ExtractResult.done.injEq, Option.some.injEq] at h
          rw [← h.2.1]; rw [h.1] at hr; exact runPhase_ok _ _ _ _ (hL _) (hR _) _ _ hr
      · split at h
        · contradiction
        · contradiction
        · split at h
          · rename_i hne
            simp only [ExtractResult.done.injEq] at h
            exact absurd h.1 hne
          · split at h
            · simp at h
            · split at h
              · contradiction
              · contradiction
              · rename_i hr
                simp only [ExtractResult.done.injEq, Option.some.injEq] at h
                rw [← h.2.1]; rw [h.1] at hr; exact runPhase_ok _ _ _ _ (hL _) (hR _) _ _ hr

/-- **C07, completeness on OK (strict mode)** -/
theorem extract_ok_complete (files : Files) (hL : ∀ dec, CountLaw files dec)
    (hR : ∀ dec, ReadErrLaw files dec) (p : Params) (hs : p.salvage = false)
    (d : Option DState) (m : Member) (w : Bytes) (d' : Option DState)
    (h : extract files p d m = .done .ok (some w) d') : w.length = m.length := by
  unfold extract at h
  split at h
  · simp at h
  · rename_i filelen key hc
    split at h
    · simp at h
    · rw [← memberCheck_strict _ _ _ _ hs hc]
      exact runPhases_ok files hL hR _ _ _ _ _ h

end MsPack.Cab
