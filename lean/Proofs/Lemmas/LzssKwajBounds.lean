import MsPack.Lzss.Decoder
import MsPack.Kwaj.Headers
import MsPack.Kwaj.Lzh
/-!
# Bounds invariants for LZSS (lzssd.c), the KWAJ header reader and the KWAJ LZH decoder (kwajd.c)

The models make every array access a checked one; the lemmas here say that, from a state that
satisfies the decoder's size/index invariant, no piece of the decoder takes a fault outcome of its
own: the only faults that can come out are `Fault.hang` (model fuel ran out) and whatever the
*source* (`Src.read`, a parameter) itself returned as a fault.
-/
namespace MsPack

/-- `f` is a fault the source hands out from some `read` -/
def SrcFault {σ : Type} (S : Src σ) (f : Fault) : Prop := ∃ s n, S.read s n = .error f

/-- the faults a decoder may pass on: fuel exhaustion of the model, or a fault of the source -/
def FaultOK {σ : Type} (S : Src σ) (f : Fault) : Prop := f = .hang ∨ SrcFault S f

/-- the `read` contract: never more than `n` bytes are delivered into an `n`-byte buffer -/
def Src.Bounded {σ : Type} (S : Src σ) : Prop :=
  ∀ s n got s', S.read s n = .ok (some got, s') → got.length ≤ n

/-- a source that raises no fault of its own (every source the models use is of this kind) -/
def Src.FaultFree {σ : Type} (S : Src σ) : Prop := ∀ s n f, S.read s n ≠ .error f

theorem Rd.src_faultFree : Rd.src.FaultFree := by
  intro s n f h; simp [Rd.src] at h

theorem Rd.src_bounded : Rd.src.Bounded := by
  intro s n got s' h
  simp only [Rd.src, Rd.read, Except.ok.injEq, Prod.mk.injEq, Option.some.injEq] at h
  rw [← h.1]; simp only [List.length_take]; omega

theorem FaultOK.of_faultFree {σ : Type} {S : Src σ} (hS : S.FaultFree) {f : Fault} (h : FaultOK S f) :
    f = .hang := by
  rcases h with h | ⟨s, n, h⟩
  · exact h
  · exact absurd h (hS s n f)

end MsPack

/-! ## LZSS -/
namespace MsPack.Lzss
open MsPack MsPack.Generated

variable {σ : Type} (S : Src σ)

/-- the ring has its 4096 bytes and `pos` is inside it -/
structure Inv (st : St σ) : Prop where
  wsize : st.window.size = lzssWINDOW_SIZE
  pos   : st.pos < lzssWINDOW_SIZE

/-- outcome of a piece of the decoder: states keep the invariant, faults are not the decoder's -/
def Good {α : Type} : Res σ α → Prop
  | .fault f => FaultOK S f
  | .ret _ st => Inv st
  | .ok _ st => Inv st

theorem initSt_inv (src : σ) (ibs mode : Nat) : Inv (initSt src ibs mode) := by
  refine ⟨by simp [initSt], ?_⟩
  simp only [initSt, lzssWINDOW_SIZE]
  split <;> omega

theorem nextByte_good {st : St σ} (h : Inv st) : Good S (nextByte S st) := by
  unfold nextByte
  split
  · exact ⟨h.1, h.2⟩
  · split
    · rename_i heq; exact .inr ⟨_, _, heq⟩
    · exact ⟨h.1, h.2⟩
    · exact ⟨h.1, h.2⟩
    · exact ⟨h.1, h.2⟩

theorem emitByte_good {st : St σ} (h : Inv st) (b : UInt8) : Good S (emitByte st b) := by
  unfold emitByte
  rw [if_pos (by rw [h.1]; exact h.2)]
  refine ⟨?_, Nat.mod_lt _ (by decide)⟩
  simp only [Array.size_setIfInBounds]; exact h.1

theorem copyMatch_good : ∀ (len mpos : Nat) (st : St σ), mpos < lzssWINDOW_SIZE → Inv st →
    Good S (copyMatch len mpos st)
  | 0, _, st, _, h => by rw [copyMatch]; exact h
  | len + 1, mpos, st, hm, h => by
    rw [copyMatch, dif_pos (by rw [h.1]; exact hm)]
    have he := emitByte_good S h (st.window[mpos]'(by rw [h.1]; exact hm))
    split
    · rename_i heq; rw [heq] at he
      exact copyMatch_good len _ _ (Nat.mod_lt _ (by decide)) he
    · rename_i heq; rw [heq] at he; exact he
    · rename_i heq; rw [heq] at he; exact he

/-- the 12-bit match position assembled from two input bytes -/
theorem mpos_lt (b0 b1 : UInt8) : b0.toNat ||| ((b1.toNat &&& 0xF0) <<< 4) < lzssWINDOW_SIZE := by
  have h0 : b0.toNat < 2 ^ 12 := Nat.lt_trans b0.toNat_lt (by decide)
  have h1 : (b1.toNat &&& 0xF0) <<< 4 < 2 ^ 12 := by
    have : b1.toNat &&& 0xF0 ≤ 0xF0 := Nat.and_le_right
    rw [Nat.shiftLeft_eq]; omega
  exact Nat.or_lt_two_pow h0 h1

theorem tokenLoop_good (c : Nat) : ∀ (k i : Nat) (st : St σ), Inv st → Good S (tokenLoop S c k i st)
  | 0, _, st, h => by rw [tokenLoop]; exact h
  | k + 1, i, st, h => by
    rw [tokenLoop]
    split
    · have h1 := nextByte_good S h
      split
      · rename_i heq; rw [heq] at h1; exact h1
      · rename_i heq; rw [heq] at h1; exact h1
      · rename_i b st1 heq; rw [heq] at h1
        have h2 := emitByte_good S h1 b
        split
        · rename_i heq; rw [heq] at h2; exact h2
        · rename_i heq; rw [heq] at h2; exact h2
        · rename_i heq; rw [heq] at h2; exact tokenLoop_good c k _ _ h2
    · have h1 := nextByte_good S h
      split
      · rename_i heq; rw [heq] at h1; exact h1
      · rename_i heq; rw [heq] at h1; exact h1
      · rename_i b0 st1 heq; rw [heq] at h1
        have h2 := nextByte_good S h1
        split
        · rename_i heq; rw [heq] at h2; exact h2
        · rename_i heq; rw [heq] at h2; exact h2
        · rename_i b1 st2 heq; rw [heq] at h2
          have h3 := copyMatch_good S ((b1.toNat &&& 0x0F) + 3) _ st2 (mpos_lt b0 b1) h2
          simp only
          split
          · rename_i heq; rw [heq] at h3; exact h3
          · rename_i heq; rw [heq] at h3; exact h3
          · rename_i heq; rw [heq] at h3; exact tokenLoop_good c k _ _ h3

theorem mainLoop_good (invert : Nat) : ∀ (fuel : Nat) (st : St σ), Inv st → Good S (mainLoop S invert fuel st)
  | 0, st, _ => by rw [mainLoop]; exact .inl rfl
  | fuel + 1, st, h => by
    rw [mainLoop]
    have h1 := nextByte_good S h
    split
    · rename_i heq; rw [heq] at h1; exact h1
    · rename_i heq; rw [heq] at h1; exact h1
    · rename_i cb st1 heq; rw [heq] at h1
      have h2 := tokenLoop_good S (cb.toNat ^^^ invert) 8 1 st1 h1
      split
      · rename_i heq; rw [heq] at h2; exact h2
      · rename_i heq; rw [heq] at h2; exact h2
      · rename_i heq; rw [heq] at h2; exact mainLoop_good invert fuel _ h2

/-- every fault `lzss_decompress` can end in is a fuel exhaustion or a fault raised by the source -/
theorem decompress_fault (fuel : Nat) (src : σ) (ibs mode : Nat) (f : Fault)
    (h : decompress S fuel src ibs mode = .error f) : FaultOK S f := by
  unfold decompress at h
  split at h
  · contradiction
  · simp only at h
    have hg := mainLoop_good S (if mode = lzssMODE_MSHELP then 0xFFFFFFFF else 0) fuel _
      (initSt_inv src ibs mode)
    split at h
    · rename_i heq
      rw [heq] at hg
      simp only [Except.error.injEq] at h
      subst h; exact hg
    · contradiction
    · contradiction

end MsPack.Lzss

/-! ## KWAJ header reader: the 13-byte file name buffer -/
namespace MsPack.Kwaj
open MsPack MsPack.Generated

/-- the copy loop stays inside the buffer when the `len - i` bytes still to copy fit behind `fn`;
    it advances `fn` by at most that many, and by at least one if it runs at all -/
theorem copyName_spec (buf : Bytes) (len : Nat) : ∀ (k i : Nat) (fnbuf : Array UInt8) (fn : Nat),
    fn + (len - i) ≤ fnbuf.size →
    ∃ fb' fn' i', copyName buf len k i fnbuf fn = .ok (fb', fn', i') ∧ fb'.size = fnbuf.size ∧
      fn ≤ fn' ∧ fn' ≤ fn + (len - i) ∧ (0 < k → i < len → fn < fn')
  | 0, i, fnbuf, fn, h => ⟨fnbuf, fn, i, by rw [copyName], rfl, Nat.le_refl _, by omega, by omega⟩
  | k + 1, i, fnbuf, fn, h => by
    rw [copyName]
    by_cases hi : i < len
    · rw [if_pos hi]
      have hfn : fn < fnbuf.size := by omega
      simp only [dif_pos hfn]
      split
      · exact ⟨_, _, _, rfl, by simp, by omega, by omega, by omega⟩
      · obtain ⟨fb', fn', i', he, hs, h1, h2, h3⟩ :=
          copyName_spec buf len k (i + 1) (fnbuf.set fn (byteAt buf i)) (fn + 1)
            (by simp only [Array.size_set]; omega)
        exact ⟨fb', fn', i', he, by simpa using hs, by omega, by omega, by omega⟩
    · rw [if_neg hi]; exact ⟨_, _, _, rfl, rfl, by omega, by omega, by omega⟩

theorem read_length_le (r : Rd) (n : Nat) : (r.read n).1.length ≤ n := by
  simp only [Rd.read, List.length_take]; omega

/-- one name part (`maxLen` bytes at most) written at `fn` with `fn + maxLen` inside the buffer:
    no fault, and the `fn` handed back is still `maxLen` short of the bound -/
theorem readNamePart_spec (r : Rd) (maxLen : Nat) (fnbuf : Array UInt8) (fn : Nat)
    (h : fn + maxLen ≤ fnbuf.size) :
    (∀ f, readNamePart r maxLen fnbuf fn ≠ .error f) ∧
    (∀ fb' fn' r', readNamePart r maxLen fnbuf fn = .ok (.ok (fb', fn'), r') →
      fb'.size = fnbuf.size ∧ fn' + 1 ≤ fn + maxLen) := by
  have hl := read_length_le r maxLen
  unfold readNamePart
  simp only
  generalize (r.read maxLen).1 = buf at hl
  generalize (r.read maxLen).2 = r1
  by_cases h2 : buf.length < 2
  · rw [if_pos h2]; exact ⟨by intro f; simp, by intro _ _ _ hc; simp at hc⟩
  · rw [if_neg h2]
    obtain ⟨fb, fn1, i1, he, hs, h1, h3, h4⟩ :=
      copyName_spec buf buf.length (buf.length + 1) 0 fnbuf fn (by omega)
    rw [he]
    simp only
    have hfn1 : fn < fn1 := h4 (by omega) (by omega)
    split
    · exact ⟨by intro f; simp, by intro _ _ _ hc; simp at hc⟩
    · rw [if_neg (by omega)]
      refine ⟨by intro f; simp, ?_⟩
      intro fb' fn' r' hc
      simp only [Except.ok.injEq, Prod.mk.injEq] at hc
      obtain ⟨⟨rfl, rfl⟩, _⟩ := hc
      exact ⟨hs, by omega⟩

theorem takeWhile_lt_of_mem : ∀ (l : List UInt8), (0 : UInt8) ∈ l →
    (l.takeWhile (· ≠ 0)).length < l.length
  | [], h => by simp at h
  | a :: l, h => by
    by_cases ha : a = 0
    · subst ha; simp [List.takeWhile]
    · have : (0 : UInt8) ∈ l := by
        rcases List.mem_cons.mp h with h | h
        · exact absurd h.symm ha
        · exact h
      have ih := takeWhile_lt_of_mem l this
      have hd : decide (a ≠ 0) = true := by simpa using ha
      simp only [List.takeWhile, hd, List.length_cons]
      omega

/-- once `*fn = '\0'` has been stored inside the buffer, reading the C string stops inside it -/
theorem cstr_set_zero (fnbuf : Array UInt8) (fn : Nat) (h : fn < fnbuf.size) :
    ∃ s, cstr (fnbuf.set fn 0) = .ok s := by
  unfold cstr
  simp only
  have hm : (0 : UInt8) ∈ (fnbuf.set fn 0).toList := by
    rw [Array.mem_toList_iff]
    exact Array.mem_set h
  rw [if_pos (takeWhile_lt_of_mem _ hm)]
  exact ⟨_, rfl⟩

theorem readNames_no_fault (fill : UInt8) (hdr : Header) (r : Rd) (f : Fault) :
    readNames fill hdr r ≠ .error f := by
  unfold readNames
  split
  · simp only
    -- the name part
    have hA : ∀ a : Except Fault (Except Err (Array UInt8 × Nat) × Rd),
        a = (if hasFlag hdr.headers hdrHASFILENAME then readNamePart r 9 (Array.replicate 13 fill) 0
             else .ok (.ok (Array.replicate 13 fill, 0), r)) →
        (∀ f, a ≠ .error f) ∧ ∀ fb fn r', a = .ok (.ok (fb, fn), r') → fb.size = 13 ∧ fn ≤ 8 := by
      intro a ha
      split at ha
      · obtain ⟨h1, h2⟩ := readNamePart_spec r 9 (Array.replicate 13 fill) 0 (by simp)
        subst ha
        refine ⟨h1, ?_⟩
        intro fb fn r' he
        have := h2 fb fn r' he
        simp only [Array.size_replicate] at this
        omega
      · subst ha
        refine ⟨by intro f; simp, ?_⟩
        intro fb fn r' he
        simp only [Except.ok.injEq, Prod.mk.injEq] at he
        obtain ⟨⟨rfl, rfl⟩, _⟩ := he
        simp
    obtain ⟨hA1, hA2⟩ := hA _ rfl
    split
    · rename_i f' heq; exact absurd heq (hA1 f')
    · simp
    · rename_i fb fn r1 heq
      obtain ⟨hsz, hfn⟩ := hA2 fb fn r1 heq
      -- the extension part
      have hB : ∀ b : Except Fault (Except Err (Array UInt8 × Nat) × Rd),
          b = (if hasFlag hdr.headers hdrHASFILEEXT then
                 if h : fn < fb.size then readNamePart r1 4 (fb.set fn 0x2E) (fn + 1)
                 else .error (.oob "kwajd_read_headers: *fn++ = '.'")
               else .ok (.ok (fb, fn), r1)) →
          (∀ f, b ≠ .error f) ∧ ∀ fb2 fn2 r', b = .ok (.ok (fb2, fn2), r') → fb2.size = 13 ∧ fn2 ≤ 12 := by
        intro b hb
        split at hb
        · rw [dif_pos (by omega)] at hb
          obtain ⟨h1, h2⟩ := readNamePart_spec r1 4 (fb.set fn 0x2E) (fn + 1)
            (by simp only [Array.size_set]; omega)
          subst hb
          refine ⟨h1, ?_⟩
          intro fb2 fn2 r' he
          have := h2 fb2 fn2 r' he
          simp only [Array.size_set] at this
          omega
        · subst hb
          refine ⟨by intro f; simp, ?_⟩
          intro fb2 fn2 r' he
          simp only [Except.ok.injEq, Prod.mk.injEq] at he
          obtain ⟨⟨rfl, rfl⟩, _⟩ := he
          exact ⟨hsz, by omega⟩
      obtain ⟨hB1, hB2⟩ := hB _ rfl
      split
      · rename_i f' heq; exact absurd heq (hB1 f')
      · simp
      · rename_i fb2 fn2 r2 heq
        obtain ⟨hsz2, hfn2⟩ := hB2 fb2 fn2 r2 heq
        rw [dif_pos (by omega)]
        obtain ⟨s, hs⟩ := cstr_set_zero fb2 fn2 (by omega)
        rw [hs]; simp
  · simp

/-- `kwajd_read_headers` takes no fault outcome at all -/
theorem readHeaders_no_fault (fill : UInt8) (r : Rd) (f : Fault) : readHeaders fill r ≠ .error f := by
  unfold readHeaders
  split
  · simp
  · split
    · simp
    · simp only
      split
      · simp
      · split
        · simp
        · split
          · simp
          · split
            · rename_i heq; exact absurd heq (readNames_no_fault _ _ _ _)
            · simp
            · simp

end MsPack.Kwaj

/-! ## KWAJ LZH decoder -/
namespace MsPack.Kwaj.Lzh
open MsPack MsPack.Generated

variable {σ : Type} (S : Src σ) {α β : Type}

/-! ### running the `ExceptT Halt (StateM (St σ))` stack -/

theorem run_pure (a : α) (st : St σ) : (pure a : LM σ α).run.run st = (.ok a, st) := rfl

theorem run_bind (x : LM σ α) (f : α → LM σ β) (st : St σ) :
    (x >>= f).run.run st =
      match x.run.run st with
      | (.ok a, st') => (f a).run.run st'
      | (.error e, st') => (.error e, st') := by
  show (ExceptT.bind x f).run.run st = _
  unfold ExceptT.bind
  simp only [ExceptT.run, ExceptT.mk, StateT.run, bind, StateT.bind]
  rcases h : x st with ⟨r, st'⟩
  cases r <;> simp [ExceptT.bindCont, pure, StateT.pure]

theorem run_get (st : St σ) : (get : LM σ (St σ)).run.run st = (.ok st, st) := rfl
theorem run_set (s st : St σ) : (set s : LM σ PUnit).run.run st = (.ok ⟨⟩, s) := rfl
theorem run_modify (g : St σ → St σ) (st : St σ) :
    (modify g : LM σ PUnit).run.run st = (.ok ⟨⟩, g st) := rfl
theorem run_throw (e : Halt) (st : St σ) : (throw e : LM σ α).run.run st = (.error e, st) := rfl

theorem run_tryCatch (x : LM σ α) (h : Halt → LM σ α) (st : St σ) :
    (tryCatch x h).run.run st =
      match x.run.run st with
      | (.ok a, st') => (.ok a, st')
      | (.error e, st') => (h e).run.run st' := by
  show (ExceptT.tryCatch x h).run.run st = _
  unfold ExceptT.tryCatch
  simp only [ExceptT.run, ExceptT.mk, StateT.run, bind, StateT.bind]
  rcases h : x st with ⟨r, st'⟩
  cases r <;> simp [pure, StateT.pure]

/-! ### the invariant -/

/-- sizes of the five length arrays, of `inbuf` and of the ring; `pos` inside the ring; both copies
    of `i_end` inside `inbuf` -/
structure Inv (st : St σ) : Prop where
  m1       : st.matchlen1Len.size = kwajMATCHLEN1_SYMS
  m2       : st.matchlen2Len.size = kwajMATCHLEN2_SYMS
  ll       : st.litlenLen.size = kwajLITLEN_SYMS
  off      : st.offsetLen.size = kwajOFFSET_SYMS
  lit      : st.literalLen.size = kwajLITERAL_SYMS
  inbuf    : st.inbuf.size = kwajINPUT_SIZE
  window   : st.window.size = lzssWINDOW_SIZE
  pos      : st.pos < lzssWINDOW_SIZE
  curEnd   : st.cur.iEnd ≤ kwajINPUT_SIZE
  savedEnd : st.saved.iEnd ≤ kwajINPUT_SIZE

theorem Inv.lens {st : St σ} (h : Inv st) (t : Tbl) : (st.lens t).size = t.syms := by
  cases t
  · exact h.m1
  · exact h.m2
  · exact h.ll
  · exact h.off
  · exact h.lit

/-- `lzh_init` establishes the invariant -/
theorem init_inv (src : σ) (fill : UInt8) : Inv (init src fill) := by
  constructor <;> simp [init, kwajINPUT_SIZE, lzssWINDOW_SIZE]

/-- components the invariant talks about carried over unchanged / re-proved one by one -/
syntax "inv_tac " term : tactic
macro_rules
  | `(tactic| inv_tac $h) => `(tactic|
      (constructor <;>
        first
        | (have t := Inv.m1 $h; exact t) | (have t := Inv.m2 $h; exact t) | (have t := Inv.ll $h; exact t)
        | (have t := Inv.off $h; exact t) | (have t := Inv.lit $h; exact t)
        | (have t := Inv.inbuf $h; exact t) | (have t := Inv.window $h; exact t)
        | (have t := Inv.pos $h; exact t) | (have t := Inv.curEnd $h; exact t)
        | (have t := Inv.savedEnd $h; exact t) | skip))

/-- what a run may end in: invariant kept (plus `Q` on normal return); faults only fuel/source -/
def Post (Q : α → St σ → Prop) : Except Halt α × St σ → Prop
  | (.ok a, st) => Inv st ∧ Q a st
  | (.error (.ret _), st) => Inv st
  | (.error (.fault f), _) => FaultOK S f

def SafeAt (x : LM σ α) (st : St σ) (Q : α → St σ → Prop) : Prop := Post S Q (x.run.run st)

/-- from every state with the invariant -/
def Safe (x : LM σ α) : Prop := ∀ st, Inv st → SafeAt S x st (fun _ _ => True)

variable {S}

theorem SafeAt.pure {a : α} {st : St σ} {Q : α → St σ → Prop} (h : Inv st) (hq : Q a st) :
    SafeAt S (pure a : LM σ α) st Q := ⟨h, hq⟩

theorem SafeAt.throw_ret {e : Err} {st : St σ} {Q : α → St σ → Prop} (h : Inv st) :
    SafeAt S (throw (.ret e) : LM σ α) st Q := h

theorem SafeAt.throw_fault {f : Fault} {st : St σ} {Q : α → St σ → Prop} (h : FaultOK S f) :
    SafeAt S (throw (.fault f) : LM σ α) st Q := h

theorem SafeAt.set {s st : St σ} {Q : PUnit → St σ → Prop} (h : Inv s) (hq : Q ⟨⟩ s) :
    SafeAt S (set s : LM σ PUnit) st Q := ⟨h, hq⟩

theorem SafeAt.modify {g : St σ → St σ} {st : St σ} {Q : PUnit → St σ → Prop} (h : Inv (g st))
    (hq : Q ⟨⟩ (g st)) : SafeAt S (modify g : LM σ PUnit) st Q := ⟨h, hq⟩

theorem SafeAt.bind {x : LM σ α} {f : α → LM σ β} {st : St σ} {Q : α → St σ → Prop}
    {R : β → St σ → Prop} (hx : SafeAt S x st Q)
    (hf : ∀ a st', Inv st' → Q a st' → SafeAt S (f a) st' R) : SafeAt S (x >>= f) st R := by
  unfold SafeAt at *
  rw [run_bind]
  rcases h : x.run.run st with ⟨r, st'⟩
  rw [h] at hx
  cases r with
  | ok a => exact hf a st' hx.1 hx.2
  | error e =>
    cases e with
    | ret e => exact hx
    | fault f => exact hx

theorem SafeAt.get_bind {f : St σ → LM σ β} {st : St σ} {R : β → St σ → Prop}
    (hf : SafeAt S (f st) st R) : SafeAt S (get >>= f) st R := by
  unfold SafeAt at *
  rw [run_bind, run_get]; exact hf

theorem SafeAt.mono {x : LM σ α} {st : St σ} {Q Q' : α → St σ → Prop} (hx : SafeAt S x st Q)
    (hq : ∀ a st', Inv st' → Q a st' → Q' a st') : SafeAt S x st Q' := by
  unfold SafeAt at *
  rcases h : x.run.run st with ⟨r, st'⟩
  rw [h] at hx
  cases r with
  | ok a => exact ⟨hx.1, hq a st' hx.1 hx.2⟩
  | error e =>
    cases e with
    | ret e => exact hx
    | fault f => exact hx

theorem Safe.pure (a : α) : Safe S (pure a : LM σ α) := fun _ h => SafeAt.pure h trivial

theorem Safe.throw_ret (e : Err) : Safe S (throw (.ret e) : LM σ α) := fun _ h => SafeAt.throw_ret h

theorem Safe.bind {x : LM σ α} {f : α → LM σ β} (hx : Safe S x) (hf : ∀ a, Safe S (f a)) :
    Safe S (x >>= f) := fun st h => SafeAt.bind (hx st h) (fun a st' h' _ => hf a st' h')

theorem Safe.getSt : Safe S (MonadState.get : LM σ (St σ)) := fun _ h => ⟨h, trivial⟩

theorem Safe.get_bind {f : St σ → LM σ β} (hf : ∀ s, Safe S (f s)) : Safe S (MonadState.get >>= f) :=
  fun st h => SafeAt.get_bind (hf st st h)

/-- compositional cases: sequencing, `pure`, `return e`, reading the state, branching -/
macro "safe_steps" : tactic => `(tactic|
  repeat' (first
    | assumption
    | exact Safe.getSt
    | with_reducible refine Safe.bind ?_ (fun _ => ?_)
    | with_reducible apply Safe.pure
    | with_reducible apply Safe.throw_ret
    | with_reducible refine Safe.get_bind (fun _ => ?_)
    | split))

/-- same, with a closing tactic for the leaves that need an argument -/
macro "safe_steps_with " t:tactic : tactic => `(tactic|
  repeat' (first
    | assumption
    | exact Safe.getSt
    | with_reducible refine Safe.bind ?_ (fun _ => ?_)
    | with_reducible apply Safe.pure
    | with_reducible apply Safe.throw_ret
    | with_reducible refine Safe.get_bind (fun _ => ?_)
    | with_reducible ($t:tactic)
    | dsimp only
    | split))

theorem Safe.modify {g : St σ → St σ} (hg : ∀ st, Inv st → Inv (g st)) :
    Safe S (modify g : LM σ PUnit) := fun st h => SafeAt.modify (hg st h) trivial

/-! ### the pieces -/

theorem storeBits_safe : Safe S (storeBits : LM σ Unit) := by
  intro st h; exact SafeAt.modify (by inv_tac h) trivial

theorem restoreBits_safe : Safe S (restoreBits : LM σ Unit) := by
  intro st h; exact SafeAt.modify (by inv_tac h) trivial

theorem blit_size : ∀ (got : Bytes) (a : Array UInt8) (k : Nat), (blit a k got).size = a.size
  | [], a, k => by rw [blit]
  | b :: rest, a, k => by rw [blit, blit_size rest]; simp

/-- `lzh_read_input`: what `read` delivers fits `inbuf` (the `read` contract), and `i_ptr` is put
    back to the start of the buffer -/
theorem readInput_safe (hB : S.Bounded) {st : St σ} (h : Inv st) :
    SafeAt S (readInput S) st (fun _ st' => st'.saved.iPtr = 0) := by
  unfold readInput
  apply SafeAt.get_bind
  split
  · refine SafeAt.set ?_ rfl
    inv_tac h
    · simp only [Array.size_setIfInBounds]; exact h.inbuf
    · simp [kwajINPUT_SIZE]
  · split
    · rename_i f heq; exact SafeAt.throw_fault (.inr ⟨_, _, heq⟩)
    · refine SafeAt.bind (Q := fun _ _ => True) (SafeAt.set (by inv_tac h) trivial) ?_
      intro _ st' h' _; exact SafeAt.throw_ret h'
    · refine SafeAt.set ?_ rfl
      inv_tac h
      · simp only [Array.size_setIfInBounds]; exact h.inbuf
      · simp [kwajINPUT_SIZE]
    · rename_i got src _ heq
      have hl := hB _ _ _ _ heq
      rw [if_neg (by rw [h.inbuf]; omega)]
      refine SafeAt.set ?_ rfl
      inv_tac h
      · rw [blit_size]; exact h.inbuf
      · exact hl

/-- `READ_BYTES`: `i_ptr` is below `i_end ≤ 2048`, or has just been reset to 0 by `lzh_read_input` -/
theorem readBytes_safe (hB : S.Bounded) : Safe S (readBytes S) := by
  intro st h
  unfold readBytes
  apply SafeAt.get_bind
  apply SafeAt.get_bind
  simp only
  have hjp : ∀ st1 : St σ, Inv st1 → st1.cur.iPtr < kwajINPUT_SIZE →
      SafeAt S (get >>= fun st : St σ =>
        if h : st.cur.iPtr < st.inbuf.size then
          (set { st with cur := { st.cur with iPtr := st.cur.iPtr + 1,
                                              bits := st.cur.bits ++ byteBitsMSB st.inbuf[st.cur.iPtr] } } : LM σ PUnit)
        else throw (.fault (.oob "lzh->inbuf (*i_ptr++)"))) st1 (fun _ _ => True) := by
    intro st1 h1 hp
    apply SafeAt.get_bind
    rw [dif_pos (by rw [h1.inbuf]; exact hp)]
    exact SafeAt.set (by inv_tac h1) trivial
  split
  · refine SafeAt.bind (readInput_safe hB h) ?_
    intro _ st1 h1 hq
    refine SafeAt.bind (Q := fun _ s => s.cur.iPtr = 0) (SafeAt.modify (by inv_tac h1) hq) ?_
    intro _ st2 h2 hq2
    exact hjp st2 h2 (by rw [hq2]; decide)
  · rename_i hlt
    exact hjp st h (by have := h.curEnd; omega)

theorem ensureBits_safe (hB : S.Bounded) (n : Nat) : ∀ fuel, Safe S (ensureBits S n fuel)
  | 0 => by intro st h; rw [ensureBits]; exact SafeAt.throw_fault (.inl rfl)
  | fuel + 1 => by
    have := ensureBits_safe hB n fuel
    have := readBytes_safe hB
    rw [ensureBits]
    safe_steps

theorem removeBits_safe (n : Nat) : Safe S (removeBits n : LM σ Unit) := by
  intro st h; exact SafeAt.modify (by inv_tac h) trivial

theorem safeCheck_safe : Safe S (safeCheck : LM σ Unit) := by
  unfold safeCheck
  safe_steps

theorem readBitsSafe_safe (hB : S.Bounded) (n : Nat) : Safe S (readBitsSafe S n) := by
  have := ensureBits_safe hB n 4
  have := removeBits_safe (S := S) n
  have := safeCheck_safe (S := S)
  unfold readBitsSafe
  safe_steps

theorem readHuffSymSafe_safe (hB : S.Bounded) (c : Huff.Canon) : Safe S (readHuffSymSafe S c) := by
  have := ensureBits_safe hB 16 4
  have := safeCheck_safe (S := S)
  unfold readHuffSymSafe
  safe_steps
  exact removeBits_safe _

theorem syms_pos (t : Tbl) : 0 < t.syms := by cases t <;> decide

theorem setLens_inv {st : St σ} (h : Inv st) (t : Tbl) (a : Array UInt8) (ha : a.size = t.syms) :
    Inv (st.setLens t a) := by
  cases t <;> (simp only [St.setLens]; inv_tac h; exact ha)

/-- `lens[i] = c` with `i < numsyms` -/
theorem setLen_safe (t : Tbl) (i : Nat) (hi : i < t.syms) (c : Nat) : Safe S (setLen t i c : LM σ Unit) := by
  intro st h
  unfold setLen
  apply SafeAt.get_bind
  simp only
  rw [dif_pos (by rw [h.lens]; exact hi)]
  exact SafeAt.set (setLens_inv h t _ (by rw [Array.size_set]; exact h.lens t)) trivial

theorem lensFill_safe (t : Tbl) (c : Nat) : ∀ k i, i + k ≤ t.syms → Safe S (lensFill t c k i : LM σ Unit)
  | 0, _, _ => by rw [lensFill]; exact Safe.pure _
  | k + 1, i, hk => by
    have := setLen_safe (S := S) t i (by omega) c
    have := lensFill_safe t c k (i + 1) (by omega)
    rw [lensFill]
    safe_steps

theorem lensType1_safe (hB : S.Bounded) (t : Tbl) : ∀ k i c, i + k ≤ t.syms → Safe S (lensType1 S t k i c)
  | 0, _, _, _ => by rw [lensType1]; exact Safe.pure _
  | k + 1, i, c, hk => by
    have hs := setLen_safe (S := S) t i (by omega)
    have ih := fun c => lensType1_safe hB t k (i + 1) c (by omega)
    have hr := readBitsSafe_safe hB
    rw [lensType1]
    safe_steps_with (first | exact hs _ | exact ih _ | exact hr _)

theorem lensType2_safe (hB : S.Bounded) (t : Tbl) : ∀ k i c, i + k ≤ t.syms → Safe S (lensType2 S t k i c)
  | 0, _, _, _ => by rw [lensType2]; exact Safe.pure _
  | k + 1, i, c, hk => by
    have hs := setLen_safe (S := S) t i (by omega)
    have ih := fun c => lensType2_safe hB t k (i + 1) c (by omega)
    have hr := readBitsSafe_safe hB
    rw [lensType2]
    generalize 2 ^ 32 = M
    safe_steps_with (first | exact hs _ | exact ih _ | exact hr _)

theorem lensType3_safe (hB : S.Bounded) (t : Tbl) : ∀ k i, i + k ≤ t.syms → Safe S (lensType3 S t k i)
  | 0, _, _ => by rw [lensType3]; exact Safe.pure _
  | k + 1, i, hk => by
    have hs := setLen_safe (S := S) t i (by omega)
    have ih := lensType3_safe hB t k (i + 1) (by omega)
    have hr := readBitsSafe_safe hB
    rw [lensType3]
    safe_steps_with (first | exact hs _ | exact hr _)

/-- `lzh_read_lens`: every `lens[i]` written has `i < numsyms` = the size of that table's array -/
theorem readLensBody_safe (hB : S.Bounded) (t : Tbl) (type : Nat) : Safe S (readLensBody S t type) := by
  have hp := syms_pos t
  have hs := setLen_safe (S := S) t 0 hp
  have hr := readBitsSafe_safe hB
  have h0 := fun c => lensFill_safe (S := S) t c t.syms 0 (by omega)
  have h1 := fun c => lensType1_safe hB t (t.syms - 1) 1 c (by omega)
  have h2 := fun c => lensType2_safe hB t (t.syms - 1) 1 c (by omega)
  have h3 := lensType3_safe hB t t.syms 0 (by omega)
  have := storeBits_safe (S := S)
  have := restoreBits_safe (S := S)
  unfold readLensBody
  safe_steps_with (first | exact hs _ | exact hr _ | exact h0 _ | exact h1 _ | exact h2 _)

theorem readLens_safe (hB : S.Bounded) (t : Tbl) (type : Nat) : Safe S (readLens S t type) := by
  intro st h
  have hb : Safe S (do readLensBody S t type; Pure.pure Err.ok : LM σ Err) :=
    Safe.bind (readLensBody_safe hB t type) (fun _ => Safe.pure _)
  have := hb st h
  unfold readLens
  unfold SafeAt at *
  rw [run_tryCatch]
  rcases hrun : (do readLensBody S t type; Pure.pure Err.ok : LM σ Err).run.run st with ⟨r, st'⟩
  rw [hrun] at this
  cases r with
  | ok a => exact this
  | error e =>
    cases e with
    | ret e => exact ⟨this, trivial⟩
    | fault f => exact this

theorem buildTree_safe (hB : S.Bounded) (t : Tbl) (type : Nat) : Safe S (buildTree S t type) := by
  have := storeBits_safe (S := S)
  have := restoreBits_safe (S := S)
  have := readLens_safe hB t type
  unfold buildTree
  safe_steps

/-- `window[pos] = b` with `pos < 4096`, and `pos` stays masked -/
theorem emitByte_safe (b : UInt8) : Safe S (emitByte b : LM σ Unit) := by
  intro st h
  unfold emitByte
  apply SafeAt.get_bind
  rw [dif_pos (by rw [h.window]; exact h.pos)]
  refine SafeAt.set ?_ trivial
  inv_tac h
  · rw [Array.size_set]; exact h.window
  · exact Nat.mod_lt _ (by decide)

/-- the match source index is masked to the ring -/
theorem copyMatch_safe (offset : Nat) : ∀ len, Safe S (copyMatch offset len : LM σ Unit)
  | 0 => by rw [copyMatch]; exact Safe.pure _
  | len + 1 => by
    intro st h
    rw [copyMatch]
    apply SafeAt.get_bind
    simp only
    rw [dif_pos (by rw [h.window]; exact Nat.mod_lt _ (by decide))]
    exact Safe.bind (emitByte_safe _) (fun _ => copyMatch_safe offset len) st h

theorem literalRun_safe (hB : S.Bounded) (c : Huff.Canon) : ∀ len, Safe S (literalRun S c len)
  | 0 => by rw [literalRun]; exact Safe.pure _
  | len + 1 => by
    have := readHuffSymSafe_safe hB c
    have := literalRun_safe hB c len
    rw [literalRun]
    safe_steps_with (exact emitByte_safe _)

theorem mainLoop_safe (hB : S.Bounded) (tr : Trees) : ∀ fuel b, Safe S (mainLoop S tr fuel b)
  | 0, _ => by intro st h; rw [mainLoop]; exact SafeAt.throw_fault (.inl rfl)
  | fuel + 1, b => by
    have ih := mainLoop_safe hB tr fuel
    have hh := readHuffSymSafe_safe hB
    have hr := readBitsSafe_safe hB
    have hl := literalRun_safe hB
    rw [mainLoop]
    safe_steps_with (first | exact ih _ | exact hh _ | exact hr _ | exact hl _ _ | exact copyMatch_safe _ _)

theorem readTypes_safe (hB : S.Bounded) : ∀ k acc, Safe S (readTypes S k acc)
  | 0, _ => by rw [readTypes]; exact Safe.pure _
  | k + 1, acc => by
    have ih := readTypes_safe hB k
    have hr := readBitsSafe_safe hB
    rw [readTypes]
    safe_steps_with (first | exact ih _ | exact hr _)

/-- the body of `lzh_decompress` keeps the invariant and raises no fault of its own -/
theorem decompressBody_safe (hB : S.Bounded) (fuel : Nat) : Safe S (decompressBody S fuel) := by
  have hb := buildTree_safe hB
  have hm := mainLoop_safe hB
  have ht := readTypes_safe hB
  have := restoreBits_safe (S := S)
  have m1 : Safe S (modify fun st => { st with saved := {}, inputEnd := 0 } : LM σ PUnit) :=
    Safe.modify (fun st h => by inv_tac h; simp)
  have m2 : Safe S (modify fun st => { st with window := Array.replicate lzssWINDOW_SIZE (UInt8.ofNat lzssWINDOW_FILL), pos := 0 } : LM σ PUnit) :=
    Safe.modify (fun st h => by inv_tac h <;> simp [lzssWINDOW_SIZE])
  unfold decompressBody
  safe_steps_with (first | exact hb _ _ | exact hm _ _ _ | exact ht _ _)

/-- faults of `lzh_decompress` from a state with the invariant: fuel or source only -/
theorem decompress_fault (hB : S.Bounded) (fuel : Nat) (st : St σ) (h : Inv st) (f : Fault)
    (he : decompress S fuel st = .error f) : FaultOK S f := by
  have hs := decompressBody_safe hB fuel st h
  unfold SafeAt at hs
  unfold decompress at he
  split at he
  · rename_i heq
    rw [heq] at hs
    simp only [Except.error.injEq] at he
    subst he; exact hs
  · contradiction
  · contradiction

/-- … and the state it hands back has the invariant again -/
theorem decompress_inv (hB : S.Bounded) (fuel : Nat) (st : St σ) (h : Inv st) (o : Out σ)
    (he : decompress S fuel st = .ok o) : Inv o.st := by
  have hs := decompressBody_safe hB fuel st h
  unfold SafeAt at hs
  unfold decompress at he
  split at he
  · contradiction
  · rename_i heq
    rw [heq] at hs
    simp only [Except.ok.injEq] at he
    subst he; exact hs
  · rename_i heq
    rw [heq] at hs
    simp only [Except.ok.injEq] at he
    subst he; exact hs.1

end MsPack.Kwaj.Lzh
