import Lean
import Proofs.Lemmas.CountLawsRead
/-!
# `ReadErrLaw` for LZX folders (lemmas for C07Decoders)

The `Tri` walk of `CountLawsRead.lean` over the LZX decoder on the CAB feeder: while a call runs the
state has no sticky error, the feeder is in strict mode and the input buffer is real (`LI`); a status
return `e` has been recorded in `error`, and if it is READ the feeder has failed (`LE`).
-/
namespace MsPack.CountLaws.ReadErrLzx
open MsPack MsPack.Cab MsPack.Lzx MsPack.CountLaws.ReadErr
open MsPack.CountLaws.Qtm (run_get_bind run_throw_bind run_modify run_modify_bind run_pure run_ite)
variable (files : Files)

def LI (st : Lzx.St Feeder) : Prop := st.error = .ok ∧ st.src.salvage = false ∧ st.inbufSize ≠ 0

def LE : Lzx.Halt → Lzx.St Feeder → Prop
  | .sys e, st => st.error = e ∧ e ≠ .ok ∧ (e = .read → st.src.readError ≠ .ok) ∧ st.src.salvage = false ∧
      st.inbufSize ≠ 0
  | .fault _, _ => True

theorem LI_of {a b : Lzx.St Feeder} (h : LI a) (h1 : b.error = a.error) (h2 : b.src = a.src)
    (h3 : b.inbufSize = a.inbufSize) : LI b := by
  unfold LI at *; rw [h1, h2, h3]; exact h

open Lean Elab Tactic Meta in
elab "li_close" : tactic => withMainContext do
  let s0 ← saveState
  try
    evalTactic (← `(tactic| (show True; exact True.intro)))
    return
  catch _ => s0.restore
  for d in (← getLCtx) do
    if d.isImplementationDetail then continue
    if (← instantiateMVars d.type).isAppOf ``LI then
      let s ← saveState
      try
        let stx ← Term.exprToSyntax d.toExpr
        evalTactic (← `(tactic| first
          | exact LI_of $stx rfl rfl rfl
          | (dsimp only; split <;> exact LI_of $stx rfl rfl rfl)))
        return
      catch _ => s.restore
  throwError "li_close: nothing applies"

macro_rules | `(tactic| tri_close) => `(tactic| li_close)

local notation "LS" => feederSrc files
local notation "LT" => Tri LI LE

theorem fail_tri {α : Type} : LT (Lzx.fail (σ := Feeder) (α := α) .decrunch) := by
  constructor
  intro st hi r s' h
  unfold Lzx.fail at h
  rw [run_modify_bind] at h
  cases h
  refine ⟨rfl, ?_, ?_, hi.2.1, hi.2.2⟩ <;> (intro hc; cases hc)

theorem readInput_tri : LT (Lzx.readInput LS) := by
  constructor
  intro st hi r s' h
  unfold Lzx.readInput at h
  rw [run_get_bind] at h
  obtain ⟨he, hs, hb⟩ := hi
  split at h
  · rw [run_throw] at h; cases h; trivial
  · rename_i got src hrd
    have hsv := (feederSrc_salvage files _ _ _ _ hrd).trans hs
    dsimp only at h
    split at h
    · rw [run_set_bind, run_throw] at h; cases h
      refine ⟨rfl, ?_, fun _ => MsPack.CabLift.feederSrc_read_none files _ _ _ hrd, hsv, hb⟩
      intro hc; cases hc
    · split at h
      · rw [run_set_bind, run_throw] at h; cases h
        refine ⟨rfl, ?_,
          fun _ => feederSrc_short files _ _ _ _ hrd hs (by simp only [List.length_nil]; omega), hsv, hb⟩
        intro hc; cases hc
      · rw [run_set] at h; cases h
        exact ⟨he, hsv, hb⟩
    · rw [run_set] at h; cases h
      exact ⟨he, hsv, hb⟩

theorem nextByte_tri : LT (Lzx.nextByte LS) := by
  unfold Lzx.nextByte; tri_auto [readInput_tri files]

theorem ensureBits_tri (n : Nat) : ∀ fuel, LT (Lzx.ensureBits LS n fuel) := by
  intro fuel
  induction fuel with
  | zero => rw [Lzx.ensureBits.eq_1]; tri_auto
  | succ fuel ih => rw [Lzx.ensureBits.eq_2]; tri_auto [nextByte_tri files]

theorem removeBits_tri (n : Nat) : LT (Lzx.removeBits (σ := Feeder) n) := by
  unfold Lzx.removeBits; tri_auto

theorem peekBits_tri (n : Nat) : LT (Lzx.peekBits (σ := Feeder) n) := by
  unfold Lzx.peekBits; tri_auto

theorem readBits_tri (n : Nat) : LT (Lzx.readBits LS n) := by
  unfold Lzx.readBits; tri_auto [ensureBits_tri files, removeBits_tri, peekBits_tri]

theorem readHuffSym_tri (t : Option Huff.Canon) (name : String) : LT (Lzx.readHuffSym LS t name) := by
  unfold Lzx.readHuffSym; tri_auto [ensureBits_tri files, removeBits_tri, fail_tri]

theorem getLen_tri (t : Tree) (x : Nat) : LT (getLen (σ := Feeder) t x) := by
  unfold getLen; tri_auto

theorem setLen_tri (t : Tree) (x : Nat) (v : UInt8) : LT (setLen (σ := Feeder) t x v) := by
  unfold setLen; tri_auto

theorem fillLens_tri (t : Tree) (v : UInt8) : ∀ y x, LT (fillLens (σ := Feeder) t v y x) := by
  intro y
  induction y with
  | zero => intro x; rw [fillLens.eq_1]; tri_auto
  | succ y ih => intro x; rw [fillLens.eq_2]; tri_auto [setLen_tri]

theorem readLensLoop_tri (t : Tree) (pre : Huff.Canon) (last : Nat) : ∀ fuel x,
    LT (Lzx.readLensLoop LS t pre last fuel x) := by
  intro fuel
  induction fuel with
  | zero => intro x; rw [Lzx.readLensLoop.eq_1]; tri_auto
  | succ fuel ih =>
    intro x; rw [Lzx.readLensLoop.eq_2]
    tri_auto [readHuffSym_tri files, readBits_tri files, fillLens_tri, getLen_tri, setLen_tri]

theorem readPretreeLens_tri : ∀ k x, LT (readPretreeLens LS k x) := by
  intro k
  induction k with
  | zero => intro x; rw [readPretreeLens.eq_1]; tri_auto
  | succ k ih => intro x; rw [readPretreeLens.eq_2]; tri_auto [readBits_tri files]

theorem readLengths_tri (fuel : Nat) (t : Tree) (first last : Nat) : LT (readLengths LS fuel t first last) := by
  unfold readLengths; tri_auto [readPretreeLens_tri files, readLensLoop_tri files, fail_tri]

theorem readAlignedLens_tri : ∀ k x, LT (readAlignedLens LS k x) := by
  intro k
  induction k with
  | zero => intro x; rw [readAlignedLens.eq_1]; tri_auto
  | succ k ih => intro x; rw [readAlignedLens.eq_2]; tri_auto [readBits_tri files]

theorem readRaw_tri : ∀ k acc, LT (readRaw LS k acc) := by
  intro k
  induction k with
  | zero => intro acc; rw [readRaw.eq_1]; tri_auto
  | succ k ih => intro acc; rw [readRaw.eq_2]; tri_auto [nextByte_tri files]

theorem readBlockHeader_tri (fuel : Nat) : LT (readBlockHeader LS fuel) := by
  unfold readBlockHeader
  tri_auto [nextByte_tri files, readBits_tri files, readAlignedLens_tri files, readLengths_tri files,
    getLen_tri, ensureBits_tri files, readRaw_tri files, fail_tri]

theorem winCopy_tri (n src dst : Nat) : LT (winCopy (σ := Feeder) n src dst) := by
  unfold winCopy; tri_auto

theorem putLiteral_tri (b : UInt8) : LT (putLiteral (σ := Feeder) b) := by
  unfold putLiteral
  refine Tri.bind (Tri.modifyGet ?_) ?_
  · intro st hi
    split
    · exact LI_of hi rfl rfl rfl
    · exact hi
  · intro ok; tri_auto

theorem readOffset_tri (c : RunCtx) (slot : Nat) : LT (Lzx.readOffset LS c slot) := by
  unfold Lzx.readOffset; tri_auto [readBits_tri files, readHuffSym_tri files]

theorem readExtraLen_tri : LT (readExtraLen LS) := by
  unfold readExtraLen
  tri_auto [ensureBits_tri files, peekBits_tri, removeBits_tri, readBits_tri files]

theorem copyMatch_tri (c : RunCtx) (mo ml : Nat) : LT (Lzx.copyMatch (σ := Feeder) c mo ml) := by
  unfold Lzx.copyMatch; tri_auto [winCopy_tri, fail_tri]

theorem decodeRun_tri (c : RunCtx) : ∀ fuel r, LT (decodeRun LS c fuel r) := by
  intro fuel
  induction fuel with
  | zero => intro r; rw [decodeRun.eq_1]; tri_auto
  | succ fuel ih =>
    intro r; rw [decodeRun.eq_2]
    tri_auto [readHuffSym_tri files, putLiteral_tri, fail_tri, readOffset_tri files,
      readExtraLen_tri files, copyMatch_tri]

theorem copyRaw_tri : ∀ fuel dest r, LT (copyRaw LS fuel dest r) := by
  intro fuel
  induction fuel with
  | zero => intro dest r; rw [copyRaw.eq_1]; tri_auto
  | succ fuel ih => intro dest r; rw [copyRaw.eq_2]; tri_auto [readInput_tri files]

theorem blockLoop_tri : ∀ fuel b, LT (Lzx.blockLoop LS fuel b) := by
  intro fuel
  induction fuel with
  | zero => intro b; rw [Lzx.blockLoop.eq_1]; tri_auto
  | succ fuel ih =>
    intro b; rw [Lzx.blockLoop.eq_2]
    tri_auto [readBlockHeader_tri files, decodeRun_tri files, copyRaw_tri files, fail_tri]

theorem frameBody_tri (fuel outBytes : Nat) : LT (frameBody LS fuel outBytes) := by
  unfold frameBody
  tri_auto [ensureBits_tri files, removeBits_tri, readBits_tri files, readInput_tri files,
    blockLoop_tri files, fail_tri]

/-- between calls: strict mode, a real input buffer, and a sticky READ goes with a failed feeder -/
def LJ (st : Lzx.St Feeder) : Prop :=
  st.src.salvage = false ∧ st.inbufSize ≠ 0 ∧ (st.error = .read → st.src.readError ≠ .ok)

/-- what a `decompress` call must deliver -/
def LOut (o : DecodeOut (Lzx.St Feeder)) : Prop := LJ o.st ∧ (o.err = .read → o.st.src.readError ≠ .ok)

theorem LI.toJ {st : Lzx.St Feeder} (h : LI st) : LJ st :=
  ⟨h.2.1, h.2.2, fun he => by rw [h.1] at he; cases he⟩

theorem LOut_ok {st : Lzx.St Feeder} (h : LI st) (w : Bytes) : LOut ⟨.ok, w, st⟩ :=
  ⟨h.toJ, fun hc => by cases hc⟩

theorem LOut_decrunch {st : Lzx.St Feeder} (h : LI st) (w : Bytes) :
    LOut ⟨.decrunch, w, { st with error := .decrunch }⟩ :=
  ⟨⟨h.2.1, h.2.2, fun hc => by cases hc⟩, fun hc => by cases hc⟩

theorem frameLoop_readErr (fuel endFrame : Nat) : ∀ (n : Nat) (st : Lzx.St Feeder) (outBytes : Nat)
    (acc : Array UInt8) (o : DecodeOut (Lzx.St Feeder)), LI st →
    frameLoop LS fuel endFrame n st outBytes acc = .ok o → LOut o := by
  intro n
  induction n with
  | zero =>
    intro st outBytes acc o hi h
    rw [frameLoop.eq_1] at h
    split at h
    · cases h
    · split at h
      · cases h; exact LOut_decrunch hi _
      · cases h; exact LOut_ok hi _
  | succ n ih =>
    intro st outBytes acc o hi h
    rw [frameLoop.eq_2] at h
    split at h
    · split at h
      · cases h
      · rename_i e s heq
        cases h
        obtain ⟨h1, h2, h3, h4, h5⟩ : LE (.sys e) s := (frameBody_tri files fuel outBytes).out _ hi _ _ heq
        exact ⟨⟨h4, h5, fun hc => h3 (h1.symm.trans hc)⟩, h3⟩
      · rename_i chunk s heq
        have hs : LI s := (frameBody_tri files fuel outBytes).out _ hi _ _ heq
        exact ih _ _ _ _ hs h
    · split at h
      · cases h; exact LOut_decrunch hi _
      · cases h; exact LOut_ok hi _

/-- `lzxd_decompress` on the CAB feeder keeps `LJ`, and a READ it reports goes with a failed feeder -/
theorem lzx_readErr (fuel : Nat) (st : Lzx.St Feeder) (n : Nat) (o : DecodeOut (Lzx.St Feeder)) (hj : LJ st)
    (h : Lzx.decompress LS fuel st n = .ok o) : LOut o := by
  unfold Lzx.decompress at h
  split at h
  · cases h; exact ⟨hj, hj.2.2⟩
  · rename_i he
    have hi : LI st := ⟨Decidable.not_not.mp he, hj.1, hj.2.1⟩
    dsimp only at h
    split at h
    · cases h
    · split at h
      · cases h
        refine LOut_ok ?_ _
        exact LI_of hi rfl rfl rfl
      · refine frameLoop_readErr files fuel _ _ _ _ _ _ ?_ h
        exact LI_of hi rfl rfl rfl

theorem lzxInit_ok (src : Feeder) (wb ri ibs ol : Nat) (d : Bool) (fill : UInt8) (st : Lzx.St Feeder)
    (h : Lzx.init src wb ri ibs ol d fill = some st) : st.inbufSize ≠ 0 ∧ st.error = .ok := by
  unfold Lzx.init at h
  cases d
  all_goals
    simp only [Bool.false_eq_true, if_false, if_true] at h
    split at h
    · contradiction
    · split at h
      · contradiction
      · rename_i hlt
        split at h
        · contradiction
        · simp only [Option.some.injEq] at h
          subst h
          exact ⟨by dsimp only; omega, rfl⟩

end MsPack.CountLaws.ReadErrLzx
