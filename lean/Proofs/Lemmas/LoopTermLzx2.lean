import Proofs.Lemmas.LoopTermLzx
import Proofs.Lemmas.CountLaws
/-!
# LZX: a call that returns OK does not raise the bits still obtainable

`LoopTermLzx.lean` threads `Inv_T G c B st` (`M rem st + c ≤ B`, `M` = buffered bits + 8 × (buffered bytes + bytes left in
the source) + 16 until the two made-up bytes are used) through every helper, but `frameLoop_post` / `decompress_post` only
keep "the source moved forward" for the state returned.  Here the same two walks keep the measure: a call that returns
MSPACK_ERR_OK returns a state with `M rem o.st ≤ M rem st` (`decompress_ok_M`).  (A status other than OK comes with the
sticky error set — `C02_cab_lzx_status_sticky` — after which `decompress` returns at once.)
-/
namespace MsPack.Lzx.Term2
open MsPack MsPack.Generated MsPack.Lzx

variable {σ : Type} (S : Src σ)

/-- what `frameLoop` / `decompress` return, as far as the measure goes -/
def FLPost2 (G : Ctx σ) (B : Nat) : Except Fault (DecodeOut (St σ)) → Prop
  | .ok o => o.err = .ok → G.T → M G.rem o.st ≤ B
  | .error _ => True

theorem frameLoop_post2 (B fuel endFrame : Nat) (hE : endFrame < 4294967296) :
    ∀ (n : Nat) (G : Ctx σ) (st : St σ) (ob : Nat) (acc : Array UInt8), SrcOk G S → Inv_T G 0 B st →
      (G.T → B + 3 ≤ fuel) → endFrame ≤ st.frame + n → FLPost2 G B (frameLoop S fuel endFrame n st ob acc) := by
  intro n
  induction n with
  | zero =>
    intro G st ob acc hS hI hf hn
    rw [frameLoop]
    rw [if_neg (by omega)]
    split
    · intro he; cases he
    · exact fun _ hT => by have := hI.le hT; omega
  | succ n ih =>
    intro G st ob acc hS hI hf hn
    rw [frameLoop]
    by_cases hlt : st.frame < endFrame ∧ ¬ (st.length ≠ 0 ∧ st.offset ≥ st.length)
    · rw [if_pos hlt]
      have hlt := hlt.1
      have h := frameBody_tr S hS 0 B fuel ob (fun hT => by have := hf hT; omega) st hI
      change Post_T G _ ((frameBody S fuel ob).run.run st) at h
      have hthr := CountLaws.Lzx.frameBody_throws S fuel ob
      rcases hr : (frameBody S fuel ob).run.run st with ⟨r, st1⟩
      rw [hr] at h
      cases r with
      | error e =>
        cases e with
        | sys e =>
          have hne : e ≠ .ok := hthr.out _ _ _ hr
          exact fun he => absurd he hne
        | fault f => trivial
      | ok chunk =>
        have hI' : Inv_T G.next 0 B st1 := h
        refine ih G.next st1 _ _ hS.next hI' hf ?_
        have h1 : st1.frame = (G.f0 + 1) % 4294967296 := hI'.frame
        have h2 := hI.frame
        rw [h1, ← h2, Nat.mod_eq_of_lt (by omega)]
        omega
    · rw [if_neg hlt]
      split
      · intro he; cases he
      · exact fun _ hT => by have := hI.le hT; omega

theorem decompress_post2 {G : Ctx σ} (hS : SrcOk G S) (B fuel : Nat) (st : St σ) (n : Nat) (hI : Inv_T G 0 B st)
    (hf : G.T → B + 3 ≤ fuel) : FLPost2 G B (decompress S fuel st n) := by
  unfold decompress
  by_cases he : st.error ≠ .ok
  · rw [if_pos he]; exact fun h => absurd h he
  · rw [if_neg he]
    dsimp only
    split
    · trivial
    · next chunk hs =>
      split
      · intro _ hT
        have h0 := hI.le hT
        refine Nat.le_trans (Nat.le_of_eq ?_) (Nat.le_trans (Nat.le_add_right _ 0) h0)
        rfl
      · refine frameLoop_post2 S B fuel _ (Nat.mod_lt _ (by omega)) _ G _ _ _ hS
          (hI.keep rfl rfl rfl rfl rfl) hf ?_
        dsimp only
        omega

/-- **an OK call does not raise the measure** (fuel above it) -/
theorem decompress_ok_M (rem : σ → Nat) (hS : Src.Finite S rem) (fuel : Nat) (st : St σ) (n : Nat)
    (hf : M rem st + 3 ≤ fuel) (o : DecodeOut (St σ)) (h : decompress S fuel st n = .ok o) (he : o.err = .ok) :
    M rem o.st ≤ M rem st := by
  let G : Ctx σ := ⟨True, fun _ _ => True, st.src, rem, st.frame⟩
  have hSok : SrcOk G S := ⟨fun _ _ _ _ _ => trivial, fun _ _ _ _ _ => trivial, fun _ => hS⟩
  have := decompress_post2 S hSok (M rem st) fuel st n ⟨trivial, rfl, fun _ => Nat.le_refl _⟩ (fun _ => hf)
  rw [h] at this
  exact this he trivial

/-- `C04_lzx_no_hang` with the premise it actually uses: `M rem st + 3 ≤ fuel` -/
theorem no_hang_M (rem : σ → Nat) (hS : Src.Finite S rem) (fuel : Nat) (st : St σ) (n : Nat)
    (hf : M rem st + 3 ≤ fuel) : decompress S fuel st n ≠ .error .hang := by
  let G : Ctx σ := ⟨True, fun _ _ => True, st.src, rem, st.frame⟩
  have hSok : SrcOk G S := ⟨fun _ _ _ _ _ => trivial, fun _ _ _ _ _ => trivial, fun _ => hS⟩
  have := decompress_post S hSok (M rem st) fuel st n ⟨trivial, rfl, fun _ => Nat.le_refl _⟩ (fun _ => hf)
  intro h
  rw [h] at this
  exact this trivial rfl

end MsPack.Lzx.Term2
