import Proofs.Lemmas.CabEncode
import MsPack.Cab.Extract
/-
CAB data area, stored folders: the writer's layout of CFDATA blocks (`encData`) and what the block
reader, the feeder and the stored-data decoder of the model do on it.
-/
namespace MsPack.Cab
open MsPack MsPack.Generated
open MsPack.Oab (enc32 read_prefix readExact_prefix drop_after ofNat_toNat_lt)

/-- one CFDATA block of a stored folder: checksum field (0 = none), both size fields = payload length -/
structure DataBlk where
  payload : Bytes
  ck      : Nat

def encData (b : DataBlk) : Bytes :=
  enc32 b.ck ++ enc16 b.payload.length ++ enc16 b.payload.length ++ b.payload

/-- the checksum the format prescribes for a block (libmspack's `cabd_checksum` over the payload, then over the
    two size fields) -/
def DataBlk.sum (b : DataBlk) : Nat :=
  cksum (enc16 b.payload.length ++ enc16 b.payload.length) (cksum b.payload 0)

def DataBlk.wf (b : DataBlk) : Prop :=
  0 < b.payload.length ∧ b.payload.length ≤ 32768 ∧ b.ck < 4294967296 ∧ (b.ck = 0 ∨ b.ck = b.sum)

theorem data_hdr_fields (b : DataBlk) (h : b.wf) :
    (enc32 b.ck ++ enc16 b.payload.length ++ enc16 b.payload.length).length = 8 ∧
    u32At (enc32 b.ck ++ enc16 b.payload.length ++ enc16 b.payload.length) 0 = b.ck ∧
    u16At (enc32 b.ck ++ enc16 b.payload.length ++ enc16 b.payload.length) 4 = b.payload.length ∧
    u16At (enc32 b.ck ++ enc16 b.payload.length ++ enc16 b.payload.length) 6 = b.payload.length ∧
    (enc32 b.ck ++ enc16 b.payload.length ++ enc16 b.payload.length).drop 4 = enc16 b.payload.length ++ enc16 b.payload.length := by
  obtain ⟨_, hl, hc, _⟩ := h
  refine ⟨rfl, ?_, ?_, ?_, rfl⟩
  · have := u32_enc32 b.ck hc [] (enc16 b.payload.length ++ enc16 b.payload.length)
    simpa [List.append_assoc] using this
  · have := u16_enc16 b.payload.length (by omega) (enc32 b.ck) (enc16 b.payload.length)
    simpa [enc32] using this
  · have := u16_enc16 b.payload.length (by omega) (enc32 b.ck ++ enc16 b.payload.length) []
    simpa [enc32, enc16] using this

/-- `cabd_sys_read_block` on a well-formed stored block: the payload, its size, the handle after it -/
theorem readBlock_stored (files : Files) (ic ib : Bool) (fuel : Nat) (bytes : Bytes) (pos : Nat) (part : Part) (more : List Part)
    (b : DataBlk) (hwf : b.wf) (rest : Bytes) (hres : part.blockResv = 0) (hd : bytes.drop pos = encData b ++ rest) :
    readBlock files ic ib (fuel + 1) (some ⟨bytes, pos⟩) (part :: more) [] =
      .ok b.payload b.payload.length (some ⟨bytes, pos + 8 + b.payload.length⟩) (part :: more) := by
  obtain ⟨hl8, f0, f4, f6, fdrop⟩ := data_hdr_fields b hwf
  obtain ⟨hpos, hle, hck, hsum⟩ := hwf
  have hd1 : bytes.drop pos = (enc32 b.ck ++ enc16 b.payload.length ++ enc16 b.payload.length) ++ (b.payload ++ rest) := by
    rw [hd]; simp [encData, List.append_assoc]
  have hre := readExact_prefix bytes pos _ _ hd1
  rw [hl8] at hre
  have hd2 := drop_after bytes pos _ _ hd1
  rw [hl8] at hd2
  have hre2 := readExact_prefix bytes (pos + 8) b.payload rest hd2
  rw [readBlock.eq_def]
  simp only [hre, hres, ne_eq, not_true_eq_false, ↓reduceIte]
  generalize enc32 b.ck ++ enc16 b.payload.length ++ enc16 b.payload.length = hdr at f0 f4 f6 fdrop
  simp only [f0, f4, f6, fdrop, List.length_nil, Nat.zero_add, hre2, List.nil_append]
  have c2 : ¬(b.payload.length > cabBLOCKMAX ∧ (!ib) = true) := by simp only [cabBLOCKMAX]; omega
  have c3 : ¬(b.payload.length > cabInputDim) := by simp only [cabInputDim]; omega
  have c4 : ¬(b.ck ≠ 0 ∧ (!ic) = true ∧ cksum (enc16 b.payload.length ++ enc16 b.payload.length) (cksum b.payload 0) ≠ b.ck) := by
    rcases hsum with h | h
    · simp [h]
    · intro ⟨_, _, h3⟩; exact h3 h.symm
  have c5 : b.payload.length ≠ 0 := by omega
  simp only [c2, c3, c4, c5, ↓reduceIte, not_false_eq_true]
  split
  · rename_i h; exfalso; have := h.1; simp only [cabINPUTMAX] at this; omega
  · rfl

/-! ## the feeder over the remaining blocks of a stored folder -/

def plainOf (blks : List DataBlk) : Bytes := blks.flatMap (·.payload)

/-- where a run of well-formed blocks lies: the cabinet file, the bytes that follow the run, the number of blocks
    in the run -/
structure Lay where
  file  : Bytes
  tail  : Bytes
  total : Nat

/-- the feeder stands in a stored folder of one cabinet file: `blks` are the blocks of the run not yet read, `R` the
    plaintext not yet handed out (what is buffered, then the remaining payloads); the folder may declare more
    blocks than the run has (what follows the run is `L.tail`) -/
structure FeedInv (L : Lay) (fd : Feeder) (blks : List DataBlk) (R : Bytes) : Prop where
  rd     : ∃ pos, fd.rd = some ⟨L.file, pos⟩ ∧ L.file.drop pos = blks.flatMap encData ++ L.tail
  parts  : ∃ part more, fd.parts = part :: more ∧ part.blockResv = 0
  count  : fd.block + blks.length = L.total ∧ L.total ≤ fd.numBlocks
  comp   : compMask fd.compType = 0
  wf     : ∀ b ∈ blks, b.wf
  rest   : R = fd.buf ++ plainOf blks

/-- serving `todo` bytes from buffer `a` first and the rest from what follows -/
theorem serve_split (a P : Bytes) (todo : Nat) :
    (a ++ P).take todo = a.take todo ++ ((a.drop todo) ++ P).take (todo - (a.take todo).length) ∧
    ((a.drop todo) ++ P).drop (todo - (a.take todo).length) = (a ++ P).drop todo ∧
    (todo ≤ (a ++ P).length → todo - (a.take todo).length ≤ ((a.drop todo) ++ P).length) := by
  by_cases hc : todo ≤ a.length
  · have h1 : (a.take todo).length = todo := by rw [List.length_take]; omega
    refine ⟨?_, ?_, fun _ => by omega⟩
    · rw [h1, Nat.sub_self, List.take_zero, List.append_nil, List.take_append_of_le_length hc]
    · rw [h1, Nat.sub_self, List.drop_zero, List.drop_append_of_le_length hc]
  · have hge : a.length ≤ todo := by omega
    have h1 : a.take todo = a := List.take_of_length_le hge
    have h2 : a.drop todo = [] := List.drop_of_length_le hge
    refine ⟨?_, ?_, fun h => ?_⟩
    · rw [h1, h2, List.nil_append, List.take_append]; rw [h1]
    · rw [h1, h2, List.nil_append, List.drop_append]; rw [h2]; rfl
    · rw [h1, h2, List.nil_append]; rw [List.length_append] at h; omega

theorem feederRead_stored (files : Files) (L : Lay) : ∀ (fuel : Nat) (fd : Feeder) (blks : List DataBlk) (R : Bytes) (todo : Nat) (got : Bytes),
    FeedInv L fd blks R → todo ≤ R.length → ((todo = 0 ∧ 1 ≤ fuel) ∨ 2 * blks.length + (if fd.buf = [] then 1 else 2) ≤ fuel) →
    ∃ fd' blks', feederRead files fuel fd todo got = .ok (some (got ++ R.take todo), fd') ∧ FeedInv L fd' blks' (R.drop todo) ∧
      fd'.numBlocks = fd.numBlocks ∧ fd'.salvage = fd.salvage ∧ fd'.fixMszip = fd.fixMszip := by
  intro fuel
  induction fuel with
  | zero => intro fd blks R todo got _ _ hf; rcases hf with ⟨_, h⟩ | hf
            · omega
            · split at hf <;> omega
  | succ fuel ih =>
    intro fd blks R todo got inv htodo hf
    rw [feederRead.eq_2]
    by_cases h0 : todo = 0
    · subst h0; rw [if_pos rfl]
      exact ⟨fd, blks, by simp, by simpa using inv, rfl, rfl, rfl⟩
    · rw [if_neg h0]
      have hf : 2 * blks.length + (if fd.buf = [] then 1 else 2) ≤ fuel + 1 := by
        rcases hf with ⟨h, _⟩ | hf
        · exact absurd h h0
        · exact hf
      by_cases hb : fd.buf = []
      · -- the buffer is empty: read the next block
        rw [if_neg (by simp [hb])]
        cases blks with
        | nil =>
          have : R = [] := by rw [inv.rest, hb]; rfl
          rw [this] at htodo; simp at htodo; exact absurd htodo h0
        | cons b bs =>
          obtain ⟨pos, hrd, hdrop⟩ := inv.rd
          obtain ⟨part, more, hparts, hres⟩ := inv.parts
          have hcount := inv.count
          generalize hbytes : L.file = bytes at hrd hdrop
          generalize hrest : L.tail = rest at hdrop
          have hbwf := inv.wf b (List.mem_cons_self ..)
          have hlt : ¬(fd.block ≥ fd.numBlocks) := by simp only [List.length_cons] at hcount; omega
          simp only [hlt, ↓reduceIte]
          have hdrop1 : bytes.drop pos = encData b ++ (bs.flatMap encData ++ rest) := by
            rw [hdrop]; simp [List.append_assoc]
          rw [hrd, hparts, List.length_cons,
            readBlock_stored files _ _ _ bytes pos part more b hbwf _ hres hdrop1]
          simp only [inv.comp, Nat.reduceEqDiff, ↓reduceIte, and_false]
          -- the state after the block has been taken in
          have hdrop2 : bytes.drop (pos + 8 + b.payload.length) = bs.flatMap encData ++ rest := by
            have := drop_after bytes pos (encData b) _ hdrop1
            have hl : (encData b).length = 8 + b.payload.length := by simp [encData, enc32, enc16]; omega
            rw [hl, ← Nat.add_assoc] at this; exact this
          have hne : b.payload ≠ [] := by
            intro hnil; have := hbwf.1; rw [hnil] at this; simp at this
          let fd1 : Feeder := { fd with block := fd.block + 1, readError := .ok, rd := some ⟨bytes, pos + 8 + b.payload.length⟩,
                                        parts := part :: more, outlen := fd.outlen + b.payload.length, buf := b.payload }
          have inv1 : FeedInv L fd1 bs R := by
            refine ⟨⟨_, by rw [hbytes], by rw [hbytes, hrest]; exact hdrop2⟩, ⟨part, more, rfl, hres⟩, ?_, inv.comp, fun x hx => inv.wf x (List.mem_cons_of_mem _ hx), ?_⟩
            · simp only [fd1, List.length_cons] at hcount ⊢; omega
            · rw [inv.rest, hb]; simp [plainOf, fd1]
          have hf1 : 2 * bs.length + (if fd1.buf = [] then 1 else 2) ≤ fuel := by
            simp only [fd1, hne, ↓reduceIte]; simp only [List.length_cons, hb, ↓reduceIte] at hf; omega
          obtain ⟨fd', blks', e, i', n', s', x'⟩ := ih fd1 bs R todo got inv1 htodo (Or.inr hf1)
          exact ⟨fd', blks', e, i', n', s', x'⟩
      · -- serve from the buffer
        rw [if_pos (by simpa using hb)]
        let fd1 : Feeder := { fd with buf := fd.buf.drop todo }
        have inv1 : FeedInv L fd1 blks (fd1.buf ++ plainOf blks) := ⟨inv.rd, inv.parts, inv.count, inv.comp, inv.wf, rfl⟩
        have hR : R = fd.buf ++ plainOf blks := inv.rest
        obtain ⟨sp1, sp2, sp3⟩ := serve_split fd.buf (plainOf blks) todo
        have htodo1 : todo - (fd.buf.take todo).length ≤ (fd1.buf ++ plainOf blks).length := sp3 (hR ▸ htodo)
        have hf1 : (todo - (fd.buf.take todo).length = 0 ∧ 1 ≤ fuel) ∨ 2 * blks.length + (if fd1.buf = [] then 1 else 2) ≤ fuel := by
          simp only [hb, ↓reduceIte] at hf
          by_cases hb1 : fd1.buf = []
          · right; rw [if_pos hb1]; omega
          · left
            have : todo < fd.buf.length := by
              apply Nat.lt_of_not_le; intro hle
              exact hb1 (List.drop_eq_nil_iff.mpr hle)
            rw [List.length_take]; omega
        obtain ⟨fd', blks', e, i', n', s', x'⟩ := ih fd1 blks _ (todo - (fd.buf.take todo).length) (got ++ fd.buf.take todo) inv1 htodo1 hf1
        refine ⟨fd', blks', ?_, ?_, n', s', x'⟩
        · rw [e, hR, sp1, List.append_assoc]
        · rw [hR, ← sp2]; exact i'

theorem take_take_drop (R : Bytes) (a n : Nat) (h : a ≤ n) : R.take a ++ (R.drop a).take (n - a) = R.take n := by
  have : n = a + (n - a) := by omega
  rw [this, List.take_add]; simp

theorem feederFuel_enough (L : Lay) (fd : Feeder) (blks : List DataBlk) (R : Bytes) (inv : FeedInv L fd blks R) :
    2 * blks.length + (if fd.buf = [] then 1 else 2) ≤ feederFuel fd := by
  have := inv.count
  simp only [feederFuel]; split <;> omega

/-- `noned_decompress` over a stored folder: exactly the next `bytes` bytes of the folder, status OK -/
theorem noned_stored (files : Files) (L : Lay) (bs : Nat) (hbs : 0 < bs) : ∀ (fuel : Nat) (fd : Feeder) (blks : List DataBlk) (R : Bytes) (bytes : Nat) (w : Bytes),
    FeedInv L fd blks R → bytes ≤ R.length → ((bytes = 0 ∧ 1 ≤ fuel) ∨ bytes / bs + 2 ≤ fuel) →
    ∃ fd' blks', nonedDecompress files bs fuel fd bytes w = .ok ⟨.ok, w ++ R.take bytes, .none bs .ok, fd'⟩ ∧
      FeedInv L fd' blks' (R.drop bytes) ∧ fd'.numBlocks = fd.numBlocks ∧ fd'.salvage = fd.salvage := by
  intro fuel
  induction fuel with
  | zero =>
    intro fd blks R bytes w _ _ hf
    have := Nat.zero_le (bytes / bs)
    rcases hf with ⟨_, h⟩ | h <;> omega
  | succ fuel ih =>
    intro fd blks R bytes w inv hb hf
    rw [nonedDecompress.eq_2]
    by_cases h0 : bytes = 0
    · subst h0; rw [if_pos rfl]; exact ⟨fd, blks, by simp, by simpa using inv, rfl, rfl⟩
    · rw [if_neg h0]
      have hf : bytes / bs + 2 ≤ fuel + 1 := by
        rcases hf with ⟨h, _⟩ | h
        · exact absurd h h0
        · exact h
      simp only
      generalize hrun : (if bytes > bs then bs else bytes) = run
      have hrl : run ≤ bytes := by rw [← hrun]; split <;> omega
      have hr0 : 0 < run := by rw [← hrun]; split <;> omega
      obtain ⟨fd1, blks1, e1, inv1, hn1, hs1, _⟩ := feederRead_stored files L (feederFuel fd) fd blks R run [] inv (by omega)
        (Or.inr (feederFuel_enough L fd blks R inv))
      rw [e1]
      simp only [List.nil_append]
      have hlen : (R.take run).length = run := by rw [List.length_take]; omega
      rw [if_neg (by rw [hlen]; simp)]
      have hf1 : (bytes - run = 0 ∧ 1 ≤ fuel) ∨ (bytes - run) / bs + 2 ≤ fuel := by
        by_cases hc : bytes > bs
        · right
          have : run = bs := by rw [← hrun, if_pos hc]
          rw [this]
          have := Nat.div_eq_sub_div hbs (Nat.le_of_lt hc)
          omega
        · left
          have : run = bytes := by rw [← hrun, if_neg hc]
          have := Nat.zero_le (bytes / bs)
          omega
      obtain ⟨fd2, blks2, e2, inv2, hn2, hs2⟩ := ih fd1 blks1 (R.drop run) (bytes - run) (w ++ R.take run) inv1
        (by rw [List.length_drop]; omega) hf1
      refine ⟨fd2, blks2, ?_, ?_, hn2.trans hn1, hs2.trans hs1⟩
      · rw [e2, List.append_assoc, take_take_drop R run bytes hrl]
      · rw [List.drop_drop] at inv2
        have : run + (bytes - run) = bytes := by omega
        rw [this] at inv2; exact inv2

theorem plain_length_le (blks : List DataBlk) (hwf : ∀ b ∈ blks, b.wf) : (plainOf blks).length ≤ blks.length * 32768 := by
  induction blks with
  | nil => simp [plainOf]
  | cons b bs ih =>
    have := (hwf b (List.mem_cons_self ..)).2.1
    have := ih (fun x hx => hwf x (List.mem_cons_of_mem _ hx))
    simp only [plainOf, List.flatMap_cons, List.length_append, List.length_cons] at *
    omega

/-- one decoder call on a stored folder through `runPhase` -/
theorem runPhase_stored (files : Files) (L : Lay) (ds : DState) (bs : Nat) (hbs : 0 < bs) (blks : List DataBlk) (R : Bytes)
    (inv : FeedInv L ds.feeder blks R) (n : Nat) (hn : n ≤ R.length) :
    ∃ ds' blks', runPhase files ds (.none bs .ok) n = .ran .ok (R.take n) ds' ∧ FeedInv L ds'.feeder blks' (R.drop n) ∧
      ds'.dec = some (.none bs .ok) ∧ ds'.offset = ds.offset + n ∧ ds'.feeder.numBlocks = ds.feeder.numBlocks ∧
      ds'.feeder.salvage = ds.feeder.salvage ∧ ds'.folder = ds.folder := by
  have hfuel : (n = 0 ∧ 1 ≤ n / max bs 1 + 2) ∨ n / bs + 2 ≤ n / max bs 1 + 2 := by
    right; rw [Nat.max_eq_left hbs]; exact Nat.le_refl _
  obtain ⟨fd', blks', e, inv', hn', hs'⟩ := noned_stored files L bs hbs (n / max bs 1 + 2) ds.feeder blks R n [] inv hn hfuel
  refine ⟨{ ds with offset := ds.offset + (R.take n).length, feeder := fd', dec := some (.none bs .ok) }, blks', ?_, inv', rfl, ?_, hn', hs', rfl⟩
  · unfold runPhase decompress
    simp only [ne_eq, not_true_eq_false, ↓reduceIte, e, Except.map, List.nil_append]
    rw [if_neg (by decide)]
  · simp only [List.length_take]; omega

end MsPack.Cab
