import MsPack.Lzx.Decoder
import MsPack.Oab.Decompress
import Proofs.Lemmas.HuffLen
import Proofs.Lemmas.LoopTerm
import Proofs.Lemmas.LzxTermDef
/-!
# C04 — LZX (`MsPack/Lzx/Decoder.lean`): the source only moves forward, the out-of-fuel outcome
is unreachable

One pass over every function of the decoder model proves two things at once (`Tr G P x Q`, a
Hoare triple over `LM σ = ExceptT Halt (StateM (St σ))`, ghost context `G : Ctx σ`):

* (A) the source state after the call is `G.R`-related to a fixed starting source state `G.s0`
  (normal exit and `return lzx->error = e` exit alike; the state survives a `throw`).  `readInput`
  is the only function that stores into `src`.
* (B) under the switch `G.T` (a proposition: `True` for the termination theorem, `False` when only
  (A) is wanted, so that (A) needs no assumption on the fuel): the fault `hang` is not raised.

Measure (B).  `M st = st.bits.length + 8 * st.inbuf.length + 8 * rem st.src + (if st.inputEnd then 0
else 16)`: the bits the decoder can still consume - bit buffer, input buffer, what the source can
still deliver, and the two zero bytes `read_input` makes up at the first end of input.  No function
of the decoder increases `M`; `READ_BITS(n)` lowers it by `n`, `READ_HUFFSYM` by the decoded
symbol's own length, at least one bit (`Huff.decode_len`), a byte taken from the input buffer by 8.
`Inv_T G c B st` says `M st + c ≤ B` (under `G.T`) for a ghost bound `B` that stays fixed: `c` counts
what has been consumed.  Every fuel loop consumes at least one bit per round (or leaves):

* `ensureBits n k`: every round adds 16 bits, `n ≤ bits + 16 * k` suffices (call sites: fuel 3,
  `n ≤ 17`);
* `readLensLoop`, `decodeRun`: every round starts with a `READ_HUFFSYM`; `M + 1 ≤ fuel` suffices;
* `copyRaw`: a round either refills an empty input buffer (the next one does not) or takes at
  least one byte; `M + 2 ≤ fuel` suffices;
* `blockLoop`: a round either reads a block header (≥ 3 bits) or decodes a non-empty run (≥ 1 symbol
  or ≥ 1 byte); the loops it calls get the fuel that is left; `M + 3 ≤ fuel` suffices;
* `e8Loop`: the position goes up every round, `dataend ≤ p + fuel` suffices (the caller passes
  `frame_size` for `dataend = frame_size - 10`);
* `frameLoop`: the frame counter goes up by one per round and no other function changes it (this
  is the `frame` component of `Inv_T`).

Result: `fuelBound rem st = bits buffered + 8 * (bytes buffered + rem st.src) + 19 ≤ fuel` excludes
`hang` from any decoder state (`C04_lzx_no_hang`); for the OAB source started with empty buffers
that is `8 * file.length + 19`, well below the `16 * file.length + 100000` the drivers pass
(`C04_lzx_oab_term`).  No loop of the model was found to be able to run out of such fuel.

The proofs step through the `do` blocks with the tactic `tr_step` (one Hoare rule per step, tried
at reducible transparency); a join point of a `do` block is verified once (`Tr_ite_cont`).
-/
namespace MsPack.Lzx
open MsPack MsPack.Generated

variable {σ : Type} {α β : Type}

/-! ## running the monad -/

/-- `x` run from state `st` -/
def run' (x : LM σ α) (st : St σ) : Except Halt α × St σ := x.run.run st

theorem run'_pure (a : α) (st : St σ) : run' (pure a : LM σ α) st = (.ok a, st) := rfl
theorem run'_get (st : St σ) : run' (get : LM σ (St σ)) st = (.ok st, st) := rfl
theorem run'_set (s st : St σ) : run' (set s : LM σ PUnit) st = (.ok ⟨⟩, s) := rfl
theorem run'_modify (f : St σ → St σ) (st : St σ) : run' (modify f : LM σ PUnit) st = (.ok ⟨⟩, f st) := rfl
theorem run'_modifyGet (f : St σ → α × St σ) (st : St σ) :
    run' (modifyGet f : LM σ α) st = (.ok (f st).1, (f st).2) := rfl
theorem run'_throw (e : Halt) (st : St σ) : run' (throw e : LM σ α) st = (.error e, st) := rfl

theorem run'_bind (x : LM σ α) (f : α → LM σ β) (st : St σ) :
    run' (x >>= f) st = match run' x st with
      | (.ok a, st') => run' (f a) st'
      | (.error e, st') => (.error e, st') := by
  show (x >>= f).run.run st = _
  simp only [run']
  rcases h : x.run.run st with ⟨r, s⟩
  cases r <;> simp [ExceptT.run_bind, StateT.run_bind, h] <;> rfl

/-! ## the ghost context, triples -/

/-- ghost context of a triple: the switch `T` for the termination half, the relation `R` on source
    states and the source state `s0` the run started from, the bytes-left function `rem` of the
    source, the value `f0` of the frame counter -/
structure Ctx (σ : Type) where
  T   : Prop
  R   : σ → σ → Prop
  s0  : σ
  rem : σ → Nat
  f0  : Nat

variable (G : Ctx σ)

/-- what a piece of the decoder may do: fall through in a state satisfying `Q`; execute
    `return lzx->error = e` with the source still `R`-related to the start; fault - under `T`, not
    by running out of fuel -/
def Post_T (Q : St σ → Prop) : Except Halt α × St σ → Prop
  | (.ok _, st') => Q st'
  | (.error (.sys _), st') => G.R G.s0 st'.src
  | (.error (.fault f), _) => G.T → f ≠ Fault.hang

def Tr (P : St σ → Prop) (x : LM σ α) (Q : St σ → Prop) : Prop := ∀ st, P st → Post_T G Q (run' x st)

variable {G}

theorem Tr_pure (P : St σ → Prop) (a : α) : Tr G P (pure a : LM σ α) P := fun _ h => h

theorem Tr_pure' {P Q : St σ → Prop} (a : α) (h : ∀ st, P st → Q st) : Tr G P (pure a : LM σ α) Q :=
  fun st hp => h st hp

theorem Tr_bind {P Q Q' : St σ → Prop} {x : LM σ α} {f : α → LM σ β}
    (hx : Tr G P x Q) (hf : ∀ a, Tr G Q (f a) Q') : Tr G P (x >>= f) Q' := by
  intro st hP
  have h := hx st hP
  rw [run'_bind]
  rcases hr : run' x st with ⟨r, st1⟩
  rw [hr] at h
  cases r with
  | ok a => exact hf a st1 h
  | error e => cases e <;> exact h

theorem Tr_weaken {P P' Q Q' : St σ → Prop} {x : LM σ α} (h : Tr G P x Q)
    (hP : ∀ st, P' st → P st) (hQ : ∀ st, Q st → Q' st) : Tr G P' x Q' := by
  intro st hp
  have := h st (hP st hp)
  rcases hr : run' x st with ⟨r, st1⟩
  rw [hr] at this
  cases r with
  | ok a => exact hQ _ this
  | error e => cases e <;> exact this

theorem Tr_pre {P P' Q : St σ → Prop} {x : LM σ α} (h : Tr G P x Q)
    (hP : ∀ st, P' st → P st) : Tr G P' x Q := Tr_weaken h hP (fun _ h => h)

theorem Tr_post {P Q Q' : St σ → Prop} {x : LM σ α} (h : Tr G P x Q)
    (hQ : ∀ st, Q st → Q' st) : Tr G P x Q' := Tr_weaken h (fun _ h => h) hQ

theorem Tr_get_bind {P Q : St σ → Prop} {f : St σ → LM σ β}
    (h : ∀ s, Tr G (fun st => P st ∧ st = s) (f s) Q) : Tr G P (get >>= f) Q := by
  intro st hP
  rw [run'_bind, run'_get]
  exact h st st ⟨hP, rfl⟩

theorem Tr_ite {P Q : St σ → Prop} {c : Prop} [Decidable c] {x y : LM σ α}
    (hx : c → Tr G P x Q) (hy : ¬ c → Tr G P y Q) : Tr G P (if c then x else y) Q := by
  split
  · exact hx ‹_›
  · exact hy ‹_›

theorem Tr_dite {P Q : St σ → Prop} {c : Prop} [Decidable c] {x : c → LM σ α} {y : ¬ c → LM σ α}
    (hx : ∀ h, Tr G P (x h) Q) (hy : ∀ h, Tr G P (y h) Q) : Tr G P (if h : c then x h else y h) Q := by
  split
  · exact hx _
  · exact hy _

/-- `if c then x` followed by the rest of a `do` block (the elaborator's join point `jp`) -/
theorem Tr_ite_jp {P Q1 Q : St σ → Prop} {c : Prop} [Decidable c] {x : LM σ PUnit} {jp : PUnit → LM σ β}
    (hx : c → Tr G P x Q1) (hn : ¬ c → ∀ st, P st → Q1 st) (hj : ∀ r, Tr G Q1 (jp r) Q) :
    Tr G P (if c then x >>= jp else jp ⟨⟩) Q := by
  split
  · exact Tr_bind (hx ‹_›) hj
  · exact Tr_pre (hj _) (hn ‹_›)

theorem Tr_modify {P Q : St σ → Prop} (g : St σ → St σ) (h : ∀ st, P st → Q (g st)) :
    Tr G P (modify g : LM σ PUnit) Q := fun st hp => h st hp

theorem Tr_set {P Q : St σ → Prop} (s : St σ) (h : ∀ st, P st → Q s) :
    Tr G P (set s : LM σ PUnit) Q := fun st hp => h st hp

theorem Tr_throw_fault {P Q : St σ → Prop} (f : Fault) (h : f ≠ .hang) :
    Tr G P (throw (.fault f) : LM σ α) Q := fun _ _ _ => h

/-- a fact that the precondition implies for every state may be used outright -/
theorem Tr_assume {P Q : St σ → Prop} {x : LM σ α} (φ : Prop) (h1 : ∀ st, P st → φ) (h2 : φ → Tr G P x Q) :
    Tr G P x Q := fun st hP => h2 (h1 st hP) st hP

theorem Tr_false {Q : St σ → Prop} (x : LM σ α) : Tr G (fun _ => False) x Q := fun _ h => h.elim

/-! ## the assumptions on the source, the measure, the invariant -/

/-- what the proofs need of the source: every read is an `R`-step, `R` is transitive; under `T` the
    source is finite with `rem` bytes left -/
structure SrcOk (G : Ctx σ) (S : Src σ) : Prop where
  step  : ∀ s n x s', S.read s n = .ok (x, s') → G.R s s'
  trans : ∀ a b c, G.R a b → G.R b c → G.R a c
  fin   : G.T → Src.Finite S G.rem

/-- bits the decoder can still consume -/
def M (rem : σ → Nat) (st : St σ) : Nat :=
  st.bits.length + 8 * st.inbuf.length + 8 * rem st.src + (if st.inputEnd then 0 else 16)

variable (G) in
/-- the source has only moved forward, the frame counter is `f0`, and (under `T`) at least `c`
    bits of the budget `B` have been consumed -/
structure Inv_T (c B : Nat) (st : St σ) : Prop where
  fwd   : G.R G.s0 st.src
  frame : st.frame = G.f0
  le    : G.T → M G.rem st + c ≤ B

/-- the fields the invariant reads -/
theorem Inv_T.keep {c B : Nat} {st st' : St σ} (h : Inv_T G c B st)
    (h1 : st'.src = st.src) (h2 : st'.frame = st.frame) (h3 : st'.bits = st.bits)
    (h4 : st'.inbuf = st.inbuf) (h5 : st'.inputEnd = st.inputEnd) : Inv_T G c B st' := by
  refine ⟨h1 ▸ h.fwd, h2 ▸ h.frame, fun hT => ?_⟩
  have := h.le hT
  simp only [M, h1, h3, h4, h5] at this ⊢
  exact this

theorem Inv_T.mono {c c' B : Nat} (hc : c' ≤ c) (st : St σ) (h : Inv_T G c B st) : Inv_T G c' B st :=
  ⟨h.fwd, h.frame, fun hT => by have := h.le hT; omega⟩

variable (S : Src σ)

/-- `return lzx->error = e` -/
theorem fail_tr (c B : Nat) (e : Err) (Q : St σ → Prop) : Tr G (Inv_T G c B) (fail e : LM σ α) Q := by
  intro st h
  exact h.fwd

theorem fail_tr' {P : St σ → Prop} (c B : Nat) (hP : ∀ st, P st → Inv_T G c B st) (e : Err) (Q : St σ → Prop) :
    Tr G P (fail e : LM σ α) Q := Tr_pre (fail_tr c B e Q) hP

/-! ## `read_input`, `READ_IF_NEEDED; *i_ptr++`, `ENSURE_BITS` -/

/-- `read_input` keeps the invariant and leaves a non-empty input buffer; the bit buffer is not
    touched -/
theorem readInput_tr (hS : SrcOk G S) (c B L : Nat) :
    Tr G (fun st => Inv_T G c B st ∧ st.bits.length = L) (readInput S)
      (fun st => Inv_T G c B st ∧ st.bits.length = L ∧ st.inbuf ≠ []) := by
  intro st ⟨hI, hL⟩
  unfold readInput
  simp only [run'_bind, run'_get]
  rcases hr : S.read st.src st.inbufSize with f | ⟨got, src⟩
  · simp only [run'_throw, Post_T]
    intro hT hh; subst hh; exact (hS.fin hT).no_hang _ _ hr
  · have hfwd : G.R G.s0 src := hS.trans _ _ _ hI.fwd (hS.step _ _ _ _ hr)
    simp only []
    cases got with
    | none => simp only [run'_bind, run'_set, run'_throw, Post_T]; exact hfwd
    | some got =>
      cases got with
      | nil =>
        simp only []
        cases he : st.inputEnd with
        | true => simp only [if_true, run'_bind, run'_set, run'_throw, Post_T]; exact hfwd
        | false =>
          simp only [Bool.false_eq_true, if_false, run'_set, Post_T]
          refine ⟨⟨hfwd, hI.frame, fun hT => ?_⟩, hL, by simp⟩
          have h1 := hI.le hT
          have h2 := (hS.fin hT).read_le _ _ _ _ hr
          simp only [M, he, Bool.false_eq_true, if_false, if_true, List.length_cons, List.length_nil] at h1 h2 ⊢
          omega
      | cons b rest =>
        simp only [run'_set, Post_T]
        refine ⟨⟨hfwd, hI.frame, fun hT => ?_⟩, hL, by simp⟩
        have h1 := hI.le hT
        have h2 := (hS.fin hT).read_le _ _ _ _ hr
        simp only [M] at h1 ⊢
        simp only [List.length_cons] at h2 ⊢
        omega

/-- `READ_IF_NEEDED; *i_ptr++`: one byte (8 bits of the budget) leaves the input buffer -/
theorem nextByte_tr (hS : SrcOk G S) (c B L : Nat) :
    Tr G (fun st => Inv_T G c B st ∧ st.bits.length = L) (nextByte S)
      (fun st => Inv_T G (c + 8) B st ∧ st.bits.length = L) := by
  unfold nextByte
  refine Tr_get_bind fun s0 => ?_
  refine Tr_ite_jp (Q1 := fun st => Inv_T G c B st ∧ st.bits.length = L) (fun _ => ?_) (fun _ _ h => h.1) fun _ => ?_
  · exact Tr_weaken (readInput_tr S hS c B L) (fun _ h => h.1) (fun _ h => ⟨h.1, h.2.1⟩)
  · refine Tr_get_bind fun s => ?_
    split
    · next b rest hb =>
      refine Tr_bind (Q := fun st => Inv_T G (c + 8) B st ∧ st.bits.length = L) ?_ fun _ => Tr_pure _ _
      refine Tr_set _ fun st ⟨⟨hI, hL⟩, hs⟩ => ?_
      subst hs
      refine ⟨⟨hI.fwd, hI.frame, fun hT => ?_⟩, hL⟩
      have := hI.le hT
      simp only [M, hb, List.length_cons] at this ⊢
      omega
    · exact Tr_throw_fault _ (by simp)

theorem wordBits_length (b0 b1 : UInt8) : (wordBits b0 b1).length = 16 := by simp [wordBits]

/-- `ENSURE_BITS(n)` with `k` units of fuel when at most `k` words are missing -/
theorem ensureBits_tr (hS : SrcOk G S) (c B n : Nat) : ∀ k : Nat,
    Tr G (fun st => Inv_T G c B st ∧ n ≤ st.bits.length + 16 * k) (ensureBits S n k)
      (fun st => Inv_T G c B st ∧ n ≤ st.bits.length) := by
  intro k
  induction k with
  | zero =>
    rw [ensureBits]
    refine Tr_get_bind fun s => Tr_ite (fun hc => ?_) (fun hc => ?_)
    · intro st ⟨⟨_, hn⟩, hs⟩; subst hs; omega
    · exact Tr_pure' _ (fun st h => ⟨h.1.1, by have := h.2; subst this; omega⟩)
  | succ k ih =>
    rw [ensureBits]
    refine Tr_get_bind fun s => Tr_ite (fun hc => ?_) (fun hc => ?_)
    · refine Tr_assume (n ≤ s.bits.length + 16 * (k + 1)) ?_ (fun hn => ?_)
      · intro st ⟨⟨_, hn⟩, hs⟩; subst hs; exact hn
      refine Tr_bind (Tr_pre (nextByte_tr S hS c B s.bits.length) ?_) (fun b0 => ?_)
      · intro st ⟨⟨hI, _⟩, hs⟩; subst hs; exact ⟨hI, rfl⟩
      refine Tr_bind (nextByte_tr S hS (c + 8) B s.bits.length) (fun b1 => ?_)
      refine Tr_bind (Q := fun st => Inv_T G c B st ∧ n ≤ st.bits.length + 16 * k) ?_ (fun _ => ih)
      refine Tr_modify _ fun st ⟨hI, hL⟩ => ?_
      refine ⟨⟨hI.fwd, hI.frame, fun hT => ?_⟩, ?_⟩
      · have := hI.le hT
        simp only [M, List.length_append, wordBits_length] at this ⊢
        omega
      · simp only [List.length_append, wordBits_length]; omega
    · exact Tr_pure' _ (fun st h => ⟨h.1.1, by have := h.2; subst this; omega⟩)

/-- the call sites: fuel 3, `n ≤ 48` (the model asks for at most 17) -/
theorem ensureBits3_tr (hS : SrcOk G S) (c B n : Nat) (hn : n ≤ 48) :
    Tr G (Inv_T G c B) (ensureBits S n 3) (fun st => Inv_T G c B st ∧ n ≤ st.bits.length) :=
  Tr_pre (ensureBits_tr S hS c B n 3) (fun _ h => ⟨h, by omega⟩)

theorem ensureBits3_tr' (hS : SrcOk G S) (c B n : Nat) (hn : n ≤ 48) :
    Tr G (Inv_T G c B) (ensureBits S n 3) (Inv_T G c B) :=
  Tr_post (ensureBits3_tr S hS c B n hn) (fun _ h => h.1)

/-! ## `REMOVE_BITS`, `PEEK_BITS`, `READ_BITS`, `READ_HUFFSYM` -/

theorem removeBits_tr (c B n : Nat) :
    Tr G (Inv_T G c B) (removeBits n : LM σ Unit) (Inv_T G c B) := by
  refine Tr_modify _ fun st h => ⟨h.fwd, h.frame, fun hT => ?_⟩
  have := h.le hT
  simp only [M, List.length_drop] at this ⊢
  omega

/-- removing `n ≤ bits_left` bits lowers the measure by `n` -/
theorem removeBits_strict (c B n : Nat) :
    Tr G (fun st => Inv_T G c B st ∧ n ≤ st.bits.length) (removeBits n : LM σ Unit) (Inv_T G (c + n) B) := by
  refine Tr_modify _ fun st ⟨h, hl⟩ => ⟨h.fwd, h.frame, fun hT => ?_⟩
  have := h.le hT
  simp only [M, List.length_drop] at this ⊢
  omega

theorem peekBits_tr (P : St σ → Prop) (n : Nat) : Tr G P (peekBits n : LM σ Nat) P := by
  unfold peekBits
  exact Tr_get_bind fun s => Tr_pure' _ (fun _ h => h.1)

/-- `READ_BITS(val, n)` consumes `n` bits -/
theorem readBits_strict (hS : SrcOk G S) (c B n : Nat) (hn : n ≤ 48) :
    Tr G (Inv_T G c B) (readBits S n) (Inv_T G (c + n) B) := by
  unfold readBits
  refine Tr_bind (ensureBits3_tr S hS c B n hn) fun _ => ?_
  refine Tr_bind (peekBits_tr _ n) fun _ => ?_
  exact Tr_bind (removeBits_strict c B n) fun _ => Tr_pure _ _

theorem readBits_tr (hS : SrcOk G S) (c B n : Nat) (hn : n ≤ 48) :
    Tr G (Inv_T G c B) (readBits S n) (Inv_T G c B) :=
  Tr_post (readBits_strict S hS c B n hn) (Inv_T.mono (Nat.le_add_right _ _))

/-- `READ_HUFFSYM`: the symbol's own length, at least one bit, is consumed -/
theorem readHuffSym_strict (hS : SrcOk G S) (c B : Nat) (tbl : Option Huff.Canon) (name : String) :
    Tr G (Inv_T G c B) (readHuffSym S tbl name) (Inv_T G (c + 1) B) := by
  unfold readHuffSym
  refine Tr_bind (ensureBits3_tr' S hS c B 16 (by omega)) fun _ => ?_
  split
  · exact Tr_throw_fault _ (by simp)
  · next cn =>
    refine Tr_get_bind fun s => ?_
    split
    · next sym len hd =>
      have hl := Huff.decode_len _ _ _ _ hd
      refine Tr_bind (Tr_weaken (removeBits_strict c B len) ?_ (Inv_T.mono (by omega))) fun _ => Tr_pure _ _
      intro st ⟨hI, hs⟩; subst hs; exact ⟨hI, hl.2⟩
    · exact fail_tr' c B (fun _ h => h.1) _ _

theorem readHuffSym_tr (hS : SrcOk G S) (c B : Nat) (tbl : Option Huff.Canon) (name : String) :
    Tr G (Inv_T G c B) (readHuffSym S tbl name) (Inv_T G c B) :=
  Tr_post (readHuffSym_strict S hS c B tbl name) (Inv_T.mono (Nat.le_succ _))


/-! ## stepping through `do` blocks -/

theorem Tr_get_bind' {P Q : St σ → Prop} {f : St σ → LM σ β}
    (h : ∀ s, Tr G P (f s) Q) : Tr G P (get >>= f) Q :=
  Tr_get_bind fun s => Tr_pre (h s) (fun _ h => h.1)

/-- `if c then x` followed by the rest `y` of the block, when `x` keeps the precondition -/
theorem Tr_ite_then {P Q : St σ → Prop} {c : Prop} [Decidable c] {x : LM σ α} {y : LM σ β}
    (hx : Tr G P x P) (hy : Tr G P y Q) : Tr G P (if c then x >>= fun _ => y else y) Q := by
  split
  · exact Tr_bind hx fun _ => hy
  · exact hy

theorem Tr_pure_bind {P Q : St σ → Prop} {a : α} {f : α → LM σ β} (h : Tr G P (f a) Q) :
    Tr G P (pure a >>= f) Q := by
  intro st hp
  rw [run'_bind, run'_pure]
  exact h st hp

/-- `if c then return lzx->error = e` followed by the rest: the fall-through keeps the precondition -/
theorem Tr_ite_fail {P Q : St σ → Prop} {c0 B : Nat} {c : Prop} [Decidable c] {e : Err} {k : α → LM σ β}
    {y : LM σ β} (hP : ∀ st, P st → Inv_T G c0 B st) (hy : Tr G P y Q) :
    Tr G P (if c then fail e >>= k else y) Q := by
  split
  · exact Tr_pre (Tr_bind (Q := fun _ => False) (fail_tr c0 B e _) fun _ => Tr_false _) hP
  · exact hy

theorem Tr_ite_then_eq {P Q : St σ → Prop} {s : St σ} {c : Prop} [Decidable c] {x : LM σ α} {y : LM σ β}
    (hx : Tr G P x P) (hy : Tr G P y Q) :
    Tr G (fun st => P st ∧ st = s) (if c then x >>= fun _ => y else y) Q :=
  Tr_pre (Tr_ite_then hx hy) (fun _ h => h.1)

theorem Tr_guard_eq {P Q : St σ → Prop} {s : St σ} {x : LM σ α}
    (h : Tr G (fun st => P st ∧ st = s) x Q) : Tr G (fun st => P st ∧ st = s) x Q := h

theorem Tr_get_bind_eq {P Q : St σ → Prop} {s : St σ} {f : St σ → LM σ β}
    (h : ∀ s', Tr G (fun st => P st ∧ st = s') (f s') Q) :
    Tr G (fun st => P st ∧ st = s) (get >>= f) Q :=
  Tr_pre (Tr_get_bind h) (fun _ h => h.1)

/-- `if c then x else y` where `x` ends in the same continuation `y` (a join point of the `do`
    block): `y` is verified once and may be assumed while verifying `x` -/
theorem Tr_ite_cont {P Q : St σ → Prop} {c : Prop} [Decidable c] {x y : LM σ β}
    (hy : Tr G P y Q) (hx : Tr G P y Q → Tr G P x Q) : Tr G P (if c then x else y) Q := by
  split
  · exact hx hy
  · exact hy

theorem Tr_throw_bind {P Q : St σ → Prop} (f : Fault) (k : α → LM σ β) (h : f ≠ .hang) :
    Tr G P (throw (.fault f) >>= k) Q :=
  Tr_bind (Q := fun _ => False) (Tr_throw_fault f h) fun _ => Tr_false _

theorem Tr_fail_bind (c B : Nat) (e : Err) (k : α → LM σ β) (Q : St σ → Prop) :
    Tr G (Inv_T G c B) (fail e >>= k) Q :=
  Tr_bind (Q := fun _ => False) (fail_tr c B e _) fun _ => Tr_false _

/-- out of fuel: excluded by the precondition (under `T`) -/
theorem Tr_hang {P Q : St σ → Prop} (h : ∀ st, P st → G.T → False) :
    Tr G P (throw (.fault .hang) : LM σ α) Q := fun st hp hT => (h st hp hT).elim

/-- storing a state that differs from the one just read in fields the invariant does not read -/
theorem Tr_set_keep {c B : Nat} {s s' : St σ} (h1 : s'.src = s.src) (h2 : s'.frame = s.frame)
    (h3 : s'.bits = s.bits) (h4 : s'.inbuf = s.inbuf) (h5 : s'.inputEnd = s.inputEnd) :
    Tr G (fun st => Inv_T G c B st ∧ st = s) (set s' : LM σ PUnit) (Inv_T G c B) :=
  Tr_set _ fun st h => by
    obtain ⟨hI, hs⟩ := h
    subst hs
    exact hI.keep h1 h2 h3 h4 h5

theorem Tr_set_bind_keep {c B : Nat} {s s' : St σ} {k : PUnit → LM σ β} {Q : St σ → Prop}
    (h1 : s'.src = s.src) (h2 : s'.frame = s.frame)
    (h3 : s'.bits = s.bits) (h4 : s'.inbuf = s.inbuf) (h5 : s'.inputEnd = s.inputEnd)
    (hk : ∀ u, Tr G (Inv_T G c B) (k u) Q) :
    Tr G (fun st => Inv_T G c B st ∧ st = s) (set s' >>= k) Q :=
  Tr_bind (Tr_set_keep h1 h2 h3 h4 h5) hk

/-- `get` in a state satisfying the invariant: the value read satisfies it (a fact about that
    value, kept in the context) -/
theorem Tr_get_bind_inv {c B : Nat} {Q : St σ → Prop} {f : St σ → LM σ β}
    (h : ∀ s, Inv_T G c B s → Tr G (Inv_T G c B) (f s) Q) : Tr G (Inv_T G c B) (get >>= f) Q :=
  Tr_get_bind fun s => Tr_assume (Inv_T G c B s) (fun st h => by obtain ⟨h1, hs⟩ := h; subst hs; exact h1)
    fun hs => Tr_pre (h s hs) (fun _ h => h.1)

/-- storing a value that satisfies the invariant up to fields the invariant does not read -/
theorem Tr_set_pure {P : St σ → Prop} {c B : Nat} {s s' : St σ} (hs : Inv_T G c B s)
    (h1 : s'.src = s.src) (h2 : s'.frame = s.frame)
    (h3 : s'.bits = s.bits) (h4 : s'.inbuf = s.inbuf) (h5 : s'.inputEnd = s.inputEnd) :
    Tr G P (set s' : LM σ PUnit) (Inv_T G c B) :=
  Tr_set _ fun _ _ => hs.keep h1 h2 h3 h4 h5

theorem Tr_set_bind_pure {P Q : St σ → Prop} {c B : Nat} {s s' : St σ} {k : PUnit → LM σ β}
    (hs : Inv_T G c B s) (h1 : s'.src = s.src) (h2 : s'.frame = s.frame)
    (h3 : s'.bits = s.bits) (h4 : s'.inbuf = s.inbuf) (h5 : s'.inputEnd = s.inputEnd)
    (hk : ∀ u, Tr G (Inv_T G c B) (k u) Q) : Tr G P (set s' >>= k) Q :=
  Tr_bind (Tr_set_pure hs h1 h2 h3 h4 h5) hk

theorem Tr_modify_keep {c B : Nat} (g : St σ → St σ) (h1 : ∀ st, (g st).src = st.src)
    (h2 : ∀ st, (g st).frame = st.frame) (h3 : ∀ st, (g st).bits = st.bits)
    (h4 : ∀ st, (g st).inbuf = st.inbuf) (h5 : ∀ st, (g st).inputEnd = st.inputEnd) :
    Tr G (Inv_T G c B) (modify g : LM σ PUnit) (Inv_T G c B) :=
  Tr_modify _ fun st h => h.keep (h1 st) (h2 st) (h3 st) (h4 st) (h5 st)

/-! ## array helpers: their faults are bounds faults -/

theorem copyFwd_no_hang : ∀ (n src dst : Nat) (w : Array UInt8) (f : Fault),
    copyFwd n src dst w = .error f → f ≠ .hang := by
  intro n
  induction n with
  | zero => intro src dst w f h; simp [copyFwd] at h
  | succ n ih =>
    intro src dst w f h
    rw [copyFwd] at h
    split at h
    · split at h
      · exact ih _ _ _ _ h
      · simp only [Except.error.injEq] at h; subst h; simp
    · simp only [Except.error.injEq] at h; subst h; simp

theorem writeBytes_no_hang : ∀ (bs : Bytes) (dst : Nat) (w : Array UInt8) (f : Fault),
    writeBytes bs dst w = .error f → f ≠ .hang := by
  intro bs
  induction bs with
  | nil => intro dst w f h; simp [writeBytes] at h
  | cons b rest ih =>
    intro dst w f h
    rw [writeBytes] at h
    split at h
    · exact ih _ _ _ h
    · simp only [Except.error.injEq] at h; subst h; simp

theorem copyAcross_no_hang (src : Array UInt8) (start : Nat) : ∀ (n k : Nat) (dst : Array UInt8) (f : Fault),
    copyAcross src start n k dst = .error f → f ≠ .hang := by
  intro n
  induction n with
  | zero => intro k dst f h; simp [copyAcross] at h
  | succ n ih =>
    intro k dst f h
    rw [copyAcross] at h
    split at h
    · simp only [Except.error.injEq] at h; subst h; simp
    · split at h
      · exact ih _ _ _ h
      · simp only [Except.error.injEq] at h; subst h; simp

/-- the E8 loop: the position goes up every round; `dataend ≤ p + fuel` rounds suffice -/
theorem e8Loop_no_hang (dataend : Nat) (filesize : Int) : ∀ (fuel p : Nat) (curpos : Int) (buf : Array UInt8),
    dataend ≤ p + fuel → e8Loop dataend filesize fuel p curpos buf ≠ .error .hang := by
  intro fuel
  induction fuel with
  | zero =>
    intro p curpos buf h
    rw [e8Loop]
    have : ¬ p < dataend := by omega
    simp [this]
  | succ fuel ih =>
    intro p curpos buf h
    rw [e8Loop]
    by_cases hp : p < dataend
    · rw [if_pos hp]
      cases hb : buf[p]? with
      | none => simp
      | some b =>
        simp only []
        by_cases hb8 : b ≠ 0xE8
        · rw [if_pos hb8]; exact ih _ _ _ (by omega)
        · rw [if_neg hb8]
          by_cases hsz : p + 1 + 3 < buf.size
          · rw [dif_pos hsz]; exact ih _ _ _ (by omega)
          · rw [dif_neg hsz]; simp
    · rw [if_neg hp]; simp


theorem e8Loop_no_hang0 (n : Nat) (filesize curpos : Int) (buf : Array UInt8) (f : Fault)
    (h : e8Loop (n - 10) filesize n 0 curpos buf = .error f) : f ≠ .hang := by
  intro hf
  subst hf
  exact e8Loop_no_hang _ _ _ _ _ _ (by omega) h

theorem outSlice_no_hang (st : St σ) (n : Nat) (f : Fault) (h : outSlice st n = .error f) : f ≠ .hang := by
  intro hf
  subst hf
  unfold outSlice at h
  dsimp only at h
  by_cases hc : st.oPtr + n ≤ (if st.oInE8 = true then st.e8Buf else st.window).size
  · rw [if_pos hc] at h; cases h
  · rw [if_neg hc] at h; cases h

/-- a fault taken from one of the array helpers is not `hang` -/
macro "tr_nohang" : tactic => `(tactic| first
  | (simp; done)
  | exact copyAcross_no_hang _ _ _ _ _ _ (by assumption)
  | exact outSlice_no_hang _ _ _ (by assumption)
  | exact e8Loop_no_hang0 _ _ _ _ _ (by assumption))

/-! ## the automation: one step through a `do` block whose every statement keeps `Inv_T G c B` -/

theorem nextByte_tr' (hS : SrcOk G S) (c B : Nat) : Tr G (Inv_T G c B) (nextByte S) (Inv_T G c B) := by
  intro st h
  have := Tr_weaken (nextByte_tr S hS c B st.bits.length) (P' := fun s => s = st ∧ Inv_T G c B s)
    (Q' := Inv_T G c B) (fun s hs => ⟨hs.2, by rw [hs.1]⟩) (fun s hs => Inv_T.mono (Nat.le_add_right _ _) s hs.1)
  exact this st ⟨rfl, h⟩

theorem readInput_tr' (hS : SrcOk G S) (c B : Nat) : Tr G (Inv_T G c B) (readInput S) (Inv_T G c B) := by
  intro st h
  have := Tr_weaken (readInput_tr S hS c B st.bits.length) (P' := fun s => s = st ∧ Inv_T G c B s)
    (Q' := Inv_T G c B) (fun s hs => ⟨hs.2, by rw [hs.1]⟩) (fun s hs => hs.1)
  exact this st ⟨rfl, h⟩

theorem getLen_tr (P : St σ → Prop) (t : Tree) (x : Nat) : Tr G P (getLen t x : LM σ Nat) P := by
  unfold getLen
  refine Tr_get_bind' fun s => ?_
  cases t <;> (dsimp only; split <;> first | exact Tr_pure _ _ | exact Tr_throw_fault _ (by simp))

theorem setLen_tr (c B : Nat) (t : Tree) (x : Nat) (v : UInt8) :
    Tr G (Inv_T G c B) (setLen t x v : LM σ Unit) (Inv_T G c B) := by
  unfold setLen
  refine Tr_get_bind fun s => ?_
  split
  · refine Tr_dite (fun _ => Tr_set_keep rfl rfl rfl rfl rfl) (fun _ => Tr_throw_fault _ (by simp))
  · refine Tr_dite (fun _ => Tr_set_keep rfl rfl rfl rfl rfl) (fun _ => Tr_throw_fault _ (by simp))

theorem fillLens_tr (c B : Nat) (t : Tree) (v : UInt8) : ∀ y x : Nat,
    Tr G (Inv_T G c B) (fillLens t v y x : LM σ Unit) (Inv_T G c B) := by
  intro y
  induction y with
  | zero => intro x; rw [fillLens]; exact Tr_pure _ _
  | succ y ih => intro x; rw [fillLens]; exact Tr_bind (setLen_tr c B t x v) fun _ => ih _

theorem winCopy_tr (c B n src dst : Nat) : Tr G (Inv_T G c B) (winCopy n src dst : LM σ Unit) (Inv_T G c B) := by
  intro st hI
  unfold winCopy
  simp only [run'_bind, run'_modifyGet]
  rcases hc : copyFwd n src dst st.window with f | w
  · simp only [run'_throw, Post_T]
    intro _; exact copyFwd_no_hang _ _ _ _ _ hc
  · simp only [run'_pure, Post_T]
    exact hI.keep rfl rfl rfl rfl rfl

theorem putLiteral_tr (c B : Nat) (b : UInt8) : Tr G (Inv_T G c B) (putLiteral b : LM σ Unit) (Inv_T G c B) := by
  intro st hI
  unfold putLiteral
  simp only [run'_bind, run'_modifyGet]
  by_cases h : st.windowPosn < st.window.size
  · simp only [h, dite_true, Bool.not_true, Bool.false_eq_true, if_false, run'_pure, Post_T]
    exact hI.keep rfl rfl rfl rfl rfl
  · simp only [h, dite_false, Bool.not_false, if_true, run'_throw, Post_T]
    intro _; simp

/-- a statement that keeps `Inv_T G c B` -/
syntax "tr_close" "[" term,* "]" : tactic
macro_rules
  | `(tactic| tr_close []) => `(tactic| fail)
  | `(tactic| tr_close [$h]) =>
    `(tactic| first | exact $h | exact $h _ | exact $h _ _ | exact $h _ _ _ | exact $h _ _ _ _)
  | `(tactic| tr_close [$h, $hs,*]) =>
    `(tactic| first | exact $h | exact $h _ | exact $h _ _ | exact $h _ _ _ | exact $h _ _ _ _ | tr_close [$hs,*])

macro "tr_leaf" "[" ihs:term,* "]" : tactic => `(tactic| with_reducible first
  | exact readBits_tr _ (by assumption) _ _ _ (by omega)
  | exact readHuffSym_tr _ (by assumption) _ _ _ _
  | exact getLen_tr _ _ _
  | exact setLen_tr _ _ _ _ _
  | exact fillLens_tr _ _ _ _ _ _
  | exact winCopy_tr _ _ _ _ _
  | exact putLiteral_tr _ _ _
  | exact ensureBits3_tr' _ (by assumption) _ _ _ (by omega)
  | exact removeBits_tr _ _ _
  | exact peekBits_tr _ _
  | exact nextByte_tr' _ (by assumption) _ _
  | exact readInput_tr' _ (by assumption) _ _
  | exact fail_tr _ _ _ _
  | exact Tr_modify_keep _ (fun _ => rfl) (fun _ => rfl) (fun _ => rfl) (fun _ => rfl) (fun _ => rfl)
  | exact Tr_pure _ _
  | tr_close [$ihs,*])

/-- one step through a `do` block -/
macro "tr_step" "[" ihs:term,* "]" : tactic => `(tactic| with_reducible first
  | exact Tr_pure _ _
  | exact fail_tr _ _ _ _
  | exact Tr_throw_fault _ (by tr_nohang)
  | exact Tr_fail_bind _ _ _ _ _
  | exact Tr_throw_bind _ _ (by tr_nohang)
  | tr_close [$ihs,*]
  | assumption
  | (have hinv := (by assumption : Inv_T _ _ _ _); refine Tr_set_bind_pure hinv rfl rfl rfl rfl rfl fun _ => ?_)
  | (have hinv := (by assumption : Inv_T _ _ _ _); exact Tr_set_pure hinv rfl rfl rfl rfl rfl)
  | refine Tr_pure_bind ?_
  | refine Tr_ite_fail (fun _ h => h) ?_
  | refine Tr_ite_then (by tr_leaf [$ihs,*]) ?_
  | refine Tr_ite_cont ?_ (fun _ => ?_)
  | refine Tr_ite (fun _ => ?_) (fun _ => ?_)
  | refine Tr_dite (fun _ => ?_) (fun _ => ?_)
  | refine Tr_get_bind_inv fun _ _ => ?_
  | refine Tr_bind (by tr_leaf [$ihs,*]) fun _ => ?_
  | tr_leaf [$ihs,*]
  | split
  | (dsimp only; split)
  | dsimp only)

theorem extraBits_le : ∀ e ∈ lzxExtraBits, e ≤ 17 := by decide

theorem extraBitsArr_le (slot e : Nat) (h : extraBitsArr[slot]? = some e) : e ≤ 17 := by
  apply extraBits_le
  have := Array.mem_of_getElem? h
  simpa [extraBitsArr] using this

/-! ## `copyMatch`, `readExtraLen`, `readOffset` -/

set_option maxHeartbeats 1000000 in
theorem copyMatch_tr (c B : Nat) (ctx : RunCtx) (mo ml : Nat) :
    Tr G (Inv_T G c B) (copyMatch ctx mo ml : LM σ Unit) (Inv_T G c B) := by
  unfold copyMatch
  repeat tr_step []

set_option maxHeartbeats 1000000 in
theorem readExtraLen_tr (hS : SrcOk G S) (c B : Nat) : Tr G (Inv_T G c B) (readExtraLen S) (Inv_T G c B) := by
  unfold readExtraLen
  repeat tr_step []


set_option maxHeartbeats 1000000 in
theorem readOffset_tr (hS : SrcOk G S) (c B : Nat) (ctx : RunCtx) (slot : Nat) :
    Tr G (Inv_T G c B) (readOffset S ctx slot) (Inv_T G c B) := by
  unfold readOffset
  refine Tr_ite (fun _ => ?_) (fun _ => ?_)
  · repeat tr_step []
  · split
    · next e he =>
      have := extraBitsArr_le _ _ he
      repeat tr_step []
    · tr_step []

/-! ## the length tables -/

set_option maxHeartbeats 1000000 in
theorem readPretreeLens_tr (hS : SrcOk G S) (c B : Nat) : ∀ k x : Nat,
    Tr G (Inv_T G c B) (readPretreeLens S k x) (Inv_T G c B) := by
  intro k
  induction k with
  | zero => intro x; rw [readPretreeLens]; exact Tr_pure _ _
  | succ k ih => intro x; rw [readPretreeLens]; repeat tr_step [ih]

set_option maxHeartbeats 1000000 in
theorem readAlignedLens_tr (hS : SrcOk G S) (c B : Nat) : ∀ k x : Nat,
    Tr G (Inv_T G c B) (readAlignedLens S k x) (Inv_T G c B) := by
  intro k
  induction k with
  | zero => intro x; rw [readAlignedLens]; exact Tr_pure _ _
  | succ k ih => intro x; rw [readAlignedLens]; repeat tr_step [ih]

set_option maxHeartbeats 1000000 in
theorem readRaw_tr (hS : SrcOk G S) (c B : Nat) : ∀ (k : Nat) (acc : Bytes),
    Tr G (Inv_T G c B) (readRaw S k acc) (Inv_T G c B) := by
  intro k
  induction k with
  | zero => intro acc; rw [readRaw]; exact Tr_pure _ _
  | succ k ih => intro acc; rw [readRaw]; repeat tr_step [ih]

set_option maxHeartbeats 1000000 in
/-- the symbol loop of `lzxd_read_lens`: every round starts with a `READ_HUFFSYM` -/
theorem readLensLoop_tr (hS : SrcOk G S) (B : Nat) (t : Tree) (pre : Huff.Canon) (last : Nat) :
    ∀ (fuel c x : Nat), (G.T → B + 1 ≤ fuel + c) →
      Tr G (Inv_T G c B) (readLensLoop S t pre last fuel x) (Inv_T G c B) := by
  intro fuel
  induction fuel with
  | zero =>
    intro c x hf
    rw [readLensLoop]
    exact Tr_hang fun st h hT => by have := h.le hT; have := hf hT; omega
  | succ fuel ih =>
    intro c x hf
    rw [readLensLoop]
    refine Tr_ite (fun _ => ?_) (fun _ => Tr_pure _ _)
    refine Tr_post (Q := Inv_T G (c + 1) B) ?_ (Inv_T.mono (Nat.le_succ _))
    refine Tr_bind (readHuffSym_strict S hS c B _ _) fun z => ?_
    have ih' : ∀ x, Tr G (Inv_T G (c + 1) B) (readLensLoop S t pre last fuel x) (Inv_T G (c + 1) B) :=
      fun x => ih (c + 1) x (fun hT => by have := hf hT; omega)
    repeat tr_step [ih']

theorem readLengths_tr (hS : SrcOk G S) (c B fuel : Nat) (hf : G.T → B + 1 ≤ fuel + c) (t : Tree)
    (first last : Nat) : Tr G (Inv_T G c B) (readLengths S fuel t first last) (Inv_T G c B) := by
  unfold readLengths
  refine Tr_bind (readPretreeLens_tr S hS c B _ _) fun _ => Tr_get_bind' fun s => ?_
  split
  · exact fail_tr _ _ _ _
  · exact readLensLoop_tr S hS B t _ last fuel c first hf

theorem Tr_modify_clearBits {c B : Nat} :
    Tr G (Inv_T G c B) (modify (fun st => { st with bits := [] }) : LM σ PUnit) (Inv_T G c B) :=
  Tr_modify _ fun st h => ⟨h.fwd, h.frame, fun hT => by
    have := h.le hT
    simp only [M, List.length_nil] at this ⊢
    omega⟩

set_option maxHeartbeats 1000000 in
/-- "initialise new block": at least the three bits of the block type are consumed -/
theorem readBlockHeader_tr (hS : SrcOk G S) (c B fuel : Nat) (hf : G.T → B + 1 ≤ fuel + c) :
    Tr G (Inv_T G c B) (readBlockHeader S fuel) (Inv_T G (c + 1) B) := by
  unfold readBlockHeader
  refine Tr_get_bind' fun s => ?_
  refine Tr_ite_then (nextByte_tr' S hS c B) ?_
  refine Tr_bind (readBits_strict S hS c B 3 (by omega)) fun bt => ?_
  refine Tr_weaken (P := Inv_T G (c + 1) B) (Q := Inv_T G (c + 1) B) ?_ (Inv_T.mono (by omega)) (fun _ h => h)
  have hl : ∀ t a b, Tr G (Inv_T G (c + 1) B) (readLengths S fuel t a b) (Inv_T G (c + 1) B) :=
    fun t a b => readLengths_tr S hS (c + 1) B fuel (fun hT => by have := hf hT; omega) t a b
  have ha := readAlignedLens_tr S hS (c + 1) B
  have hr := readRaw_tr S hS (c + 1) B
  have hc := Tr_modify_clearBits (G := G) (c := c + 1) (B := B)
  repeat tr_step [hl, ha, hr, hc]


/-! ## the run loops -/

set_option maxHeartbeats 1000000 in
/-- `while (this_run > 0)` of a verbatim / aligned block: every round starts with a `READ_HUFFSYM`;
    a run that has something to do consumes at least one bit -/
theorem decodeRun_tr (hS : SrcOk G S) (B : Nat) : ∀ (fuel c : Nat) (ctx : RunCtx) (r : Int),
    (G.T → B + 1 ≤ fuel + c) →
      Tr G (Inv_T G c B) (decodeRun S ctx fuel r) (fun st => Inv_T G c B st ∧ (0 < r → Inv_T G (c + 1) B st)) := by
  intro fuel
  induction fuel with
  | zero =>
    intro c ctx r hf
    rw [decodeRun]
    exact Tr_hang fun st h hT => by have := h.le hT; have := hf hT; omega
  | succ fuel ih =>
    intro c ctx r hf
    rw [decodeRun]
    refine Tr_ite (fun hr => ?_) (fun _ => ?_)
    · exact Tr_pure' _ fun st h => ⟨h, fun h0 => by omega⟩
    refine Tr_post (Q := Inv_T G (c + 1) B) ?_ (fun st h => ⟨Inv_T.mono (Nat.le_succ _) st h, fun _ => h⟩)
    refine Tr_bind (readHuffSym_strict S hS c B _ _) fun me => ?_
    have ih' : ∀ r, Tr G (Inv_T G (c + 1) B) (decodeRun S ctx fuel r) (Inv_T G (c + 1) B) :=
      fun r => Tr_post (ih (c + 1) ctx r (fun hT => by have := hf hT; omega)) (fun _ h => h.1)
    have h1 := copyMatch_tr (G := G) (c + 1) B ctx
    have h2 := readOffset_tr S hS (c + 1) B ctx
    have h3 := readExtraLen_tr S hS (c + 1) B
    repeat tr_step [ih', h1, h2, h3]

/-- payload of an uncompressed block: a round either refills the empty input buffer (the next one
    then finds it non-empty) or takes at least one byte -/
theorem copyRaw_aux (hS : SrcOk G S) (B : Nat) : ∀ (fuel c dest r : Nat), (G.T → B + 1 ≤ fuel + c) →
    Tr G (fun st => Inv_T G c B st ∧ (st.inbuf = [] → G.T → B + 2 ≤ fuel + c)) (copyRaw S fuel dest r)
      (fun st => Inv_T G c B st ∧ (0 < r → Inv_T G (c + 1) B st)) := by
  intro fuel
  induction fuel with
  | zero =>
    intro c dest r hf
    rw [copyRaw]
    exact Tr_hang fun st h hT => by have := h.1.le hT; have := hf hT; omega
  | succ fuel ih =>
    intro c dest r hf
    rw [copyRaw]
    refine Tr_ite (fun hr => ?_) (fun hr => ?_)
    · exact Tr_pure' _ fun st h => ⟨h.1, fun h0 => by omega⟩
    refine Tr_get_bind fun s => Tr_ite (fun he => ?_) (fun he => ?_)
    · -- refill
      refine Tr_assume (G.T → B + 2 ≤ fuel + 1 + c) ?_ fun hf2 => ?_
      · intro st ⟨⟨_, h2⟩, hs⟩
        subst hs
        exact h2 (by simpa using he)
      refine Tr_bind (Tr_pre (readInput_tr S hS c B s.bits.length) ?_) fun _ => ?_
      · intro st ⟨⟨hI, _⟩, hs⟩; subst hs; exact ⟨hI, rfl⟩
      refine Tr_pre (ih c dest r (fun hT => by have := hf2 hT; omega)) ?_
      intro st ⟨hI, _, hne⟩
      exact ⟨hI, fun h => absurd h hne⟩
    · -- take `min (bytes buffered) this_run` bytes
      intro st ⟨⟨hI, _⟩, hs⟩
      subst hs
      simp only [run'_bind, run'_modifyGet]
      rcases hw : writeBytes (List.take (min st.inbuf.length r) st.inbuf) dest st.window with f | w
      · simp only [run'_throw, Post_T]
        intro _; exact writeBytes_no_hang _ _ _ _ hw
      · simp only []
        have hlen : 0 < st.inbuf.length := by
          cases hb : st.inbuf with
          | nil => simp [hb] at he
          | cons a t => simp
        refine Tr_post (ih (c + 8) _ _ (fun hT => by have := hf hT; omega)) ?_ _ ⟨?_, ?_⟩
        · intro st' h
          exact ⟨Inv_T.mono (by omega) _ h.1, fun _ => Inv_T.mono (by omega) _ h.1⟩
        · refine ⟨hI.fwd, hI.frame, fun hT => ?_⟩
          have := hI.le hT
          simp only [M, List.length_drop] at this ⊢
          omega
        · intro _ hT
          have := hf hT
          omega

theorem copyRaw_tr (hS : SrcOk G S) (B fuel c dest r : Nat) (hf : G.T → B + 2 ≤ fuel + c) :
    Tr G (Inv_T G c B) (copyRaw S fuel dest r) (fun st => Inv_T G c B st ∧ (0 < r → Inv_T G (c + 1) B st)) :=
  Tr_pre (copyRaw_aux S hS B fuel c dest r (fun hT => by have := hf hT; omega)) (fun _ h => ⟨h, fun _ => hf⟩)


set_option maxHeartbeats 1000000 in
/-- `while (bytes_todo > 0)`: a round either reads a block header or decodes a non-empty run; the
    loops it calls get the fuel that is left -/
theorem blockLoop_tr (hS : SrcOk G S) (B : Nat) : ∀ (fuel c : Nat) (r : Int), (G.T → B + 3 ≤ fuel + c) →
    Tr G (Inv_T G c B) (blockLoop S fuel r) (Inv_T G c B) := by
  intro fuel
  induction fuel with
  | zero =>
    intro c r hf
    rw [blockLoop]
    exact Tr_hang fun st h hT => by have := h.le hT; have := hf hT; omega
  | succ fuel ih =>
    intro c r hf
    rw [blockLoop]
    refine Tr_ite (fun _ => Tr_pure _ _) (fun hr => ?_)
    refine Tr_post (Q := Inv_T G (c + 1) B) ?_ (Inv_T.mono (Nat.le_succ _))
    have ih' : ∀ r, Tr G (Inv_T G (c + 1) B) (blockLoop S fuel r) (Inv_T G (c + 1) B) :=
      fun r => ih (c + 1) r (fun hT => by have := hf hT; omega)
    have hd1 : ∀ ctx r, Tr G (Inv_T G (c + 1) B) (decodeRun S ctx fuel r) (Inv_T G (c + 1) B) :=
      fun ctx r => Tr_post (decodeRun_tr S hS B fuel (c + 1) ctx r (fun hT => by have := hf hT; omega))
        (fun _ h => h.1)
    have hc1 : ∀ d r, Tr G (Inv_T G (c + 1) B) (copyRaw S fuel d r) (Inv_T G (c + 1) B) :=
      fun d r => Tr_post (copyRaw_tr S hS B fuel (c + 1) d r (fun hT => by have := hf hT; omega))
        (fun _ h => h.1)
    refine Tr_get_bind fun s0 => ?_
    refine Tr_ite_jp (Q1 := fun st => Inv_T G c B st ∧ (st.blockRemaining = 0 → Inv_T G (c + 1) B st))
      (fun _ => ?_) (fun hne st h => ?_) fun _ => ?_
    · exact Tr_weaken (readBlockHeader_tr S hS c B fuel (fun hT => by have := hf hT; omega))
        (fun _ h => h.1) (fun st h => ⟨Inv_T.mono (Nat.le_succ _) st h, fun _ => h⟩)
    · obtain ⟨hI, hs⟩ := h
      subst hs
      exact ⟨hI, fun h0 => absurd h0 hne⟩
    · refine Tr_get_bind fun s1 => ?_
      refine Tr_assume (Inv_T G c B s1 ∧ (s1.blockRemaining = 0 → Inv_T G (c + 1) B s1))
        (fun st h => by obtain ⟨h1, hs⟩ := h; subst hs; exact h1) fun hQ => ?_
      by_cases hz : s1.blockRemaining = 0
      · -- a block header has just been read
        have hs1 : Inv_T G (c + 1) B s1 := hQ.2 hz
        refine Tr_pre (P := Inv_T G (c + 1) B) ?_ (fun st h => by rw [h.2]; exact hs1)
        repeat tr_step [ih', hd1, hc1]
      · -- a non-empty run of the current block
        have hpos : 0 < (if (s1.blockRemaining : Int) > r then r else s1.blockRemaining) := by
          split <;> omega
        refine Tr_pre (P := fun st => Inv_T G c B st ∧ st = s1) ?_ (fun st h => ⟨h.1.1, h.2⟩)
        refine Tr_set_bind_keep rfl rfl rfl rfl rfl fun _ => ?_
        refine Tr_ite (fun _ => ?_) (fun _ => Tr_ite (fun _ => ?_) (fun _ => ?_))
        · refine Tr_bind (Tr_post (decodeRun_tr S hS B fuel c _ _ (fun hT => by have := hf hT; omega))
            (fun _ h => h.2 hpos)) fun left => ?_
          repeat tr_step [ih']
        · refine Tr_bind (Tr_modify_keep _ (fun _ => rfl) (fun _ => rfl) (fun _ => rfl) (fun _ => rfl)
            (fun _ => rfl)) fun _ => ?_
          refine Tr_bind (Tr_post (copyRaw_tr S hS B fuel c _ _ (fun hT => by have := hf hT; omega))
            (fun _ h => h.2 (by have := hpos; omega))) fun _ => ?_
          repeat tr_step [ih']
        · exact Tr_fail_bind _ _ _ _ _


/-! ## one frame, the frame loop, `lzxd_decompress` -/

/-- the context after one more frame -/
def Ctx.next (G : Ctx σ) : Ctx σ := { G with f0 := (G.f0 + 1) % 4294967296 }

theorem SrcOk.next {G : Ctx σ} {S : Src σ} (h : SrcOk G S) : SrcOk G.next S := ⟨h.step, h.trans, h.fin⟩

set_option maxHeartbeats 1000000 in
/-- one iteration of `while (lzx->frame < end_frame)`: the frame counter goes up by one -/
theorem frameBody_tr (hS : SrcOk G S) (c B fuel ob : Nat) (hf : G.T → B + 3 ≤ fuel + c) :
    Tr G (Inv_T G c B) (frameBody S fuel ob) (Inv_T G.next c B) := by
  unfold frameBody
  have hb : ∀ r, Tr G (Inv_T G c B) (blockLoop S fuel r) (Inv_T G c B) := fun r => blockLoop_tr S hS B fuel c r hf
  have hreset : Tr G (Inv_T G c B) (modify resetState : LM σ PUnit) (Inv_T G c B) :=
    Tr_modify_keep _ (fun _ => rfl) (fun _ => rfl) (fun _ => rfl) (fun _ => rfl) (fun _ => rfl)
  have hfin : ∀ (s : St σ) (a1 a2 a3 a5 : Nat) (a : Array UInt8), Inv_T G c B s →
      Tr G (Inv_T G c B)
        (set { s with oPtr := a1, offset := a2, framePosn := a3, frame := (s.frame + 1) % 4294967296,
                      windowPosn := a5 } >>= fun _ => (pure a : LM σ (Array UInt8)))
        (Inv_T G.next c B) := by
    intro s a1 a2 a3 a5 a hI
    refine Tr_bind (Q := Inv_T G.next c B) (Tr_set _ fun _ _ => ?_) fun _ => Tr_pure _ _
    refine ⟨hI.fwd, by show (s.frame + 1) % 4294967296 = _; rw [hI.frame]; rfl, fun hT => ?_⟩
    have := hI.le hT
    simp only [M] at this ⊢
    exact this
  repeat' tr_step [hb, hreset]
  all_goals exact hfin _ _ _ _ _ _ (by assumption)

/-- what `frameLoop` / `decompress` may return -/
def FLPost (G : Ctx σ) : Except Fault (DecodeOut (St σ)) → Prop
  | .ok o => G.R G.s0 o.st.src
  | .error f => G.T → f ≠ Fault.hang

theorem frameLoop_post (B fuel endFrame : Nat) (hE : endFrame < 4294967296) :
    ∀ (n : Nat) (G : Ctx σ) (st : St σ) (ob : Nat) (acc : Array UInt8), SrcOk G S → Inv_T G 0 B st →
      (G.T → B + 3 ≤ fuel) → endFrame ≤ st.frame + n → FLPost G (frameLoop S fuel endFrame n st ob acc) := by
  intro n
  induction n with
  | zero =>
    intro G st ob acc hS hI hf hn
    rw [frameLoop]
    rw [if_neg (by omega)]
    split
    · exact hI.fwd
    · exact hI.fwd
  | succ n ih =>
    intro G st ob acc hS hI hf hn
    rw [frameLoop]
    by_cases hlt : st.frame < endFrame ∧ ¬ (st.length ≠ 0 ∧ st.offset ≥ st.length)
    · rw [if_pos hlt]
      have hlt := hlt.1
      have h := frameBody_tr S hS 0 B fuel ob (fun hT => by have := hf hT; omega) st hI
      change Post_T G _ ((frameBody S fuel ob).run.run st) at h
      rcases hr : (frameBody S fuel ob).run.run st with ⟨r, st1⟩
      rw [hr] at h
      cases r with
      | error e =>
        cases e with
        | sys e => exact h
        | fault f => exact h
      | ok chunk =>
        have hI' : Inv_T G.next 0 B st1 := h
        refine ih G.next st1 _ _ hS.next hI' hf ?_
        have h1 : st1.frame = (G.f0 + 1) % 4294967296 := hI'.frame
        have h2 := hI.frame
        rw [h1, ← h2, Nat.mod_eq_of_lt (by omega)]
        omega
    · rw [if_neg hlt]
      split
      · exact hI.fwd
      · exact hI.fwd

theorem decompress_post (hS : SrcOk G S) (B fuel : Nat) (st : St σ) (n : Nat) (hI : Inv_T G 0 B st)
    (hf : G.T → B + 3 ≤ fuel) : FLPost G (decompress S fuel st n) := by
  unfold decompress
  by_cases he : st.error ≠ .ok
  · rw [if_pos he]; exact hI.fwd
  · rw [if_neg he]
    dsimp only
    split
    · next f hs => exact fun _ => outSlice_no_hang _ _ _ hs
    · next chunk hs =>
      split
      · exact hI.fwd
      · refine frameLoop_post S B fuel _ (Nat.mod_lt _ (by omega)) _ G _ _ _ hS
          (hI.keep rfl rfl rfl rfl rfl) hf ?_
        dsimp only
        omega

/-! ## the theorems -/

/-- **C04 (LZX), the source only moves forward.**  For any source `S` and any reflexive, transitive
    relation `R` on source states that every `S.read` respects: the source state `lzxd_decompress`
    leaves behind is `R`-related to the one it found.  No assumption on the fuel. -/
theorem C04_lzx_src_forward (R : σ → σ → Prop) (hrefl : ∀ s, R s s) (htrans : ∀ a b c, R a b → R b c → R a c)
    (hstep : ∀ s n x s', S.read s n = .ok (x, s') → R s s')
    (fuel : Nat) (st : St σ) (n : Nat) (o : DecodeOut (St σ)) (h : decompress S fuel st n = .ok o) :
    R st.src o.st.src := by
  let G : Ctx σ := ⟨False, R, st.src, fun _ => 0, st.frame⟩
  have hS : SrcOk G S := ⟨hstep, htrans, fun h => h.elim⟩
  have := decompress_post S hS 0 fuel st n ⟨hrefl _, rfl, fun h => h.elim⟩ (fun h => h.elim)
  rw [h] at this
  exact this

/-- bits the decoder can still consume, as a bound on the fuel: `M` with the 16 made-up bits -/
def fuelBound (rem : σ → Nat) (st : St σ) : Nat :=
  st.bits.length + 8 * st.inbuf.length + 8 * rem st.src + 19

/-- **C04 (LZX), no hang.**  Over a finite source (`Src.Finite S rem`), from any decoder state,
    `lzxd_decompress` does not run out of fuel when given
    `bits buffered + 8 * (bytes buffered + bytes the source can still deliver) + 19` units. -/
theorem C04_lzx_no_hang (rem : σ → Nat) (hS : Src.Finite S rem) (fuel : Nat) (st : St σ) (n : Nat)
    (hf : fuelBound rem st ≤ fuel) : decompress S fuel st n ≠ .error .hang := by
  let G : Ctx σ := ⟨True, fun _ _ => True, st.src, rem, st.frame⟩
  have hSok : SrcOk G S := ⟨fun _ _ _ _ _ => trivial, fun _ _ _ _ _ => trivial, fun _ => hS⟩
  have hM : M rem st + 3 ≤ fuel := by
    simp only [fuelBound] at hf
    simp only [M]
    split <;> omega
  have := decompress_post S hSok (M rem st) fuel st n ⟨trivial, rfl, fun _ => Nat.le_refl _⟩ (fun _ => hM)
  intro h
  rw [h] at this
  exact this trivial rfl

end MsPack.Lzx

namespace MsPack.Oab
open MsPack

theorem Adv.refl (r : Rd) : Adv r r := ⟨rfl, Nat.le_refl _⟩

theorem Adv.trans {a b c : Rd} (h1 : Adv a b) (h2 : Adv b c) : Adv a c :=
  ⟨h2.1.trans h1.1, Nat.le_trans h1.2 h2.2⟩

/-- `oabd_sys_read` moves the handle forward on the same file -/
theorem sysRead_adv (s : InFile) (n : Nat) (x : Option Bytes) (s' : InFile)
    (h : sysRead.read s n = .ok (x, s')) : Adv s.rd s'.rd := by
  simp only [sysRead, Except.ok.injEq, Prod.mk.injEq] at h
  rw [← h.2]
  exact ⟨Rd.read_file _ _, by rw [Rd.read_pos]; omega⟩

/-- `oabd_sys_read` is a finite source: what is left of the file bounds what it can deliver -/
theorem sysRead_finite : Src.Finite sysRead (fun f => f.rd.left) where
  read_le := by
    intro s n c s' h
    simp only [sysRead, Except.ok.injEq, Prod.mk.injEq, Option.some.injEq] at h
    rw [← h.1, ← h.2]
    exact Nat.le_of_eq (Rd.read_left _ _)
  no_hang := by intro s n h; simp [sysRead] at h

/-- **C04 (LZX under OAB), the input handle only moves forward.** -/
theorem C04_lzx_oab_src_forward (fuel : Nat) (lzx : Lzx.St InFile) (n : Nat) (o : DecodeOut (Lzx.St InFile))
    (h : Lzx.decompress sysRead fuel lzx n = .ok o) : Adv lzx.src.rd o.st.src.rd :=
  Lzx.C04_lzx_src_forward sysRead (fun a b => Adv a.rd b.rd) (fun _ => Adv.refl _)
    (fun _ _ _ => Adv.trans) sysRead_adv fuel lzx n o h

/-- **C04 (LZX under OAB), no hang**, from any decoder state -/
theorem C04_lzx_oab_no_hang (fuel : Nat) (lzx : Lzx.St InFile) (n : Nat)
    (hf : lzx.bits.length + 8 * lzx.inbuf.length + 8 * lzx.src.rd.left + 19 ≤ fuel) :
    Lzx.decompress sysRead fuel lzx n ≠ .error .hang :=
  Lzx.C04_lzx_no_hang sysRead _ sysRead_finite fuel lzx n hf

/-- **C04 (LZX under OAB).**  With the fuel the drivers pass (16 × input bytes + 100000; in fact
    `8 * file.length + 19` suffices) the LZX block decoder, started with empty buffers on a handle
    of `file`, does not run out of fuel and leaves the handle on the same file, not before where
    it found it. -/
theorem C04_lzx_oab_term' (fuel : Nat) (file : Bytes) (hf : 8 * file.length + 19 ≤ fuel) :
    LzxTerm fuel file := by
  intro lzx n hfile hin hbits
  refine ⟨C04_lzx_oab_no_hang fuel lzx n ?_, fun o h => C04_lzx_oab_src_forward fuel lzx n o h⟩
  rw [hin, hbits]
  simp only [List.length_nil, Rd.left, hfile]
  omega

theorem C04_lzx_oab_term (fuel : Nat) (file : Bytes) (hf : 16 * file.length + 100000 ≤ fuel) :
    LzxTerm fuel file :=
  C04_lzx_oab_term' fuel file (by omega)

/-- non-vacuity: the driver's fuel, any file -/
example (file : Bytes) : LzxTerm (16 * file.length + 100000) file :=
  C04_lzx_oab_term _ file (Nat.le_refl _)

/-- non-vacuity: the file-backed source `Rd.src`, any decoder state -/
example (fuel : Nat) (st : Lzx.St Rd) (n : Nat) (hf : Lzx.fuelBound Rd.left st ≤ fuel) :
    Lzx.decompress Rd.src fuel st n ≠ .error .hang :=
  Lzx.C04_lzx_no_hang Rd.src Rd.left Rd.src_finite fuel st n hf

end MsPack.Oab
