import Lean
import Proofs.Lemmas.FeederThread
/-!
# Threading the feeder-liveness invariant through the Quantum decoder model

Same walk as `FeederThread.lean` (MSZIP): `QJ r = FeederLive r.st.src`; `QE`: a fault is not a null
dereference, after a status return the feeder is live unless the sticky error is set.  Two extras:
* the model's pure `Except Fault` part (`decodeSym` and the model update) is walked with `EN`
  ("never ends in a null dereference"), because `liftF` re-throws its faults;
* `QJ {r with …}` is never closed by defeq of the two records (the kernel gets lost in `… % u32`):
  `qj_close` uses `QJ_of h rfl` with the frame equation `b.st.src = a.st.src`.
-/
namespace MsPack.CabLift
open MsPack MsPack.Generated MsPack.Cab MsPack.CountLaws

/-! ## Quantum under the CAB feeder -/

/-- a pure model computation never ends in a null dereference -/
structure EN {α : Type} (x : Except Fault α) : Prop where
  out : ∀ f, x = .error f → ∀ w, f ≠ .nullDeref w

theorem EN.ok {α : Type} (a : α) : EN (.ok a : Except Fault α) := ⟨fun _ h => by cases h⟩
theorem EN.pure {α : Type} (a : α) : EN (pure a : Except Fault α) := ⟨fun _ h => by cases h⟩
theorem EN.err {α : Type} {f : Fault} (h : ∀ w, f ≠ .nullDeref w) : EN (.error f : Except Fault α) :=
  ⟨fun _ h' => by cases h'; exact h⟩
theorem EN.throw {α : Type} {f : Fault} (h : ∀ w, f ≠ .nullDeref w) : EN (throw f : Except Fault α) :=
  ⟨fun _ h' => by cases h'; exact h⟩
theorem EN.bind {α β : Type} {x : Except Fault α} {g : α → Except Fault β} (hx : EN x) (hg : ∀ a, EN (g a)) :
    EN (x >>= g) := by
  constructor
  intro f h
  cases x with
  | error e => cases h; exact hx.out _ rfl
  | ok a => exact (hg a).out _ h

section
open Lean Elab Tactic Meta
/-- join points / `have`s at the head of an `EN` goal -/
elab "en_jp" : tactic => withMainContext do
  let g ← getMainGoal
  let t ← instantiateMVars (← g.getType)
  let some C := t.getAppFn.constName? | throwError "not an EN goal"
  unless C == ``EN do throwError "not an EN goal"
  let .letE n ty v b _ := t.appArg! | throwError "no join point"
  let .forallE rn rty _ _ ← whnfR ty
    | do let g' ← g.replaceTargetDefEq (mkApp t.appFn! (b.instantiate1 v))
         replaceMainGoal [g']
         return
  let t2 ← withLocalDeclD rn rty fun r => do
    mkForallFVars #[r] (← mkAppM C #[(mkApp v r).headBeta])
  let t1 ← withLocalDeclD n ty fun jp => do
    let hty ← withLocalDeclD rn rty fun r => do
      mkForallFVars #[r] (← mkAppM C #[mkApp jp r])
    withLocalDeclD `hjp hty fun hjp => do
      mkForallFVars #[jp, hjp] (mkApp t.appFn! (b.instantiate1 jp))
  let g1 ← mkFreshExprSyntheticOpaqueMVar t1
  let g2 ← mkFreshExprSyntheticOpaqueMVar t2
  g.assign (mkApp2 g1 v g2)
  replaceMainGoal [g2.mvarId!, g1.mvarId!]

elab "en_hyp" : tactic => withMainContext do
  let g ← getMainGoal
  for d in (← getLCtx) do
    if d.isImplementationDetail then continue
    let ty ← instantiateMVars d.type
    if ty.getForallBody.isAppOf ``EN then
      let s ← saveState
      try
        let gs ← withReducible (g.apply d.toExpr)
        replaceMainGoal gs
        return
      catch _ => s.restore
  throwError "no hypothesis applies"
end

syntax "en_auto" (" [" term,* "]")? : tactic
macro_rules
  | `(tactic| en_auto [$ts,*]) => do
    let alts ← ts.getElems.mapM fun t => `(tacticSeq| with_reducible apply $t)
    `(tactic| repeat' first
      | with_reducible exact EN.ok _
      | with_reducible exact EN.pure _
      | ((with_reducible refine EN.err ?_); intro w h; cases h)
      | ((with_reducible refine EN.throw ?_); intro w h; cases h)
      | with_reducible refine EN.bind ?_ ?_
      | en_hyp
      $[| $alts]*
      | en_jp
      | intro _
      | split)
  | `(tactic| en_auto) => `(tactic| en_auto [EN.ok _])

namespace QtmThread
open MsPack.Qtm

theorem sym_en (m : Model) (i : Nat) : EN (m.sym i) := by unfold Model.sym; en_auto
theorem setCumfreq_en (m : Model) (i v : Nat) : EN (m.setCumfreq i v) := by unfold Model.setCumfreq; en_auto
theorem setSym_en (m : Model) (i : Nat) (x : ModelSym) : EN (m.setSym i x) := by unfold Model.setSym; en_auto

theorem halveLoop_en : ∀ k m, EN (halveLoop k m) := by
  intro k
  induction k with
  | zero => intro m; rw [halveLoop.eq_1]; en_auto
  | succ k ih => intro m; rw [halveLoop.eq_2]; en_auto [ih, sym_en, setCumfreq_en]

theorem toFreqLoop_en : ∀ k i m, EN (toFreqLoop k i m) := by
  intro k
  induction k with
  | zero => intro i m; rw [toFreqLoop.eq_1]; en_auto
  | succ k ih => intro i m; rw [toFreqLoop.eq_2]; en_auto [ih, sym_en, setCumfreq_en]

theorem sortInner_en : ∀ k i j m, EN (sortInner k i j m) := by
  intro k
  induction k with
  | zero => intro i j m; rw [sortInner.eq_1]; en_auto
  | succ k ih => intro i j m; rw [sortInner.eq_2]; en_auto [ih, sym_en, setSym_en]

theorem sortOuter_en : ∀ k i m, EN (sortOuter k i m) := by
  intro k
  induction k with
  | zero => intro i m; rw [sortOuter.eq_1]; en_auto
  | succ k ih => intro i m; rw [sortOuter.eq_2]; en_auto [ih, sortInner_en]

theorem resumLoop_en : ∀ k m, EN (resumLoop k m) := by
  intro k
  induction k with
  | zero => intro m; rw [resumLoop.eq_1]; en_auto
  | succ k ih => intro m; rw [resumLoop.eq_2]; en_auto [ih, sym_en, setCumfreq_en]

theorem updateModel_en (m : Model) : EN (updateModel m) := by
  unfold updateModel; en_auto [halveLoop_en, toFreqLoop_en, sortOuter_en, resumLoop_en]

theorem scanSym_en (m : Model) (symf : Nat) : ∀ k i, EN (scanSym m symf k i) := by
  intro k
  induction k with
  | zero => intro i; rw [scanSym.eq_1]; en_auto
  | succ k ih => intro i; rw [scanSym.eq_2]; en_auto [ih, sym_en]

theorem bumpLoop_en : ∀ k m, EN (bumpLoop k m) := by
  intro k
  induction k with
  | zero => intro m; rw [bumpLoop.eq_1]; en_auto
  | succ k ih => intro m; rw [bumpLoop.eq_2]; en_auto [ih, sym_en, setCumfreq_en]

theorem decodeSym_en (m : Model) (H L C : Nat) : EN (decodeSym m H L C) := by
  unfold decodeSym; en_auto [sym_en, scanSym_en, bumpLoop_en, updateModel_en]

/-- the feeder inside the decoder state is live -/
def QJ (r : Run Feeder) : Prop := FeederLive r.st.src

def QE : Qtm.Halt → Run Feeder → Prop
  | .fault f, _ => ∀ w, f ≠ .nullDeref w
  | .sys _, r => r.st.error = .ok → QJ r

theorem QJ_of {a b : Run Feeder} (h : QJ a) (h1 : b.st.src = a.st.src) : QJ b := by
  unfold QJ at *; rw [h1]; exact h

theorem setModel_src (st : Qtm.St Feeder) (id : MId) (m : Model) : (st.setModel id m).src = st.src := by
  cases id <;> rfl

open Lean Elab Tactic Meta in
/-- `QJ b` from a hypothesis `QJ a` with `b.st.src = a.st.src` by `rfl` -/
elab "qj_close" : tactic => withMainContext do
  for d in (← getLCtx) do
    if d.isImplementationDetail then continue
    if (← instantiateMVars d.type).isAppOf ``QJ then
      let s ← saveState
      try
        let stx ← Term.exprToSyntax d.toExpr
        evalTactic (← `(tactic| first | exact QJ_of $stx rfl | exact QJ_of $stx (setModel_src _ _ _)))
        return
      catch _ => s.restore
  throwError "no live state in sight"

macro_rules | `(tactic| thr_close) => `(tactic| qj_close)

variable (files : Files)

theorem fail_thr {α : Type} (e : Err) : Thr QJ QE (Qtm.fail (σ := Feeder) (α := α) e) := by
  unfold Qtm.fail modSt; thr_auto

theorem liftF_thr {α : Type} (x : Except Fault α) (hx : EN x) : Thr QJ QE (liftF (σ := Feeder) x) := by
  unfold liftF
  split
  · exact Thr.pure _ _ _
  · exact Thr.throw fun _ _ => hx.out _ rfl

theorem readInput_thr : Thr QJ QE (Qtm.readInput (feederSrc files)) := by
  unfold Qtm.readInput
  refine Thr.get_bind_from fun r hj => ?_
  split
  · rename_i f hr
    exact absurd hr (feederSrc_read_no_fault files r.st.src _ f hj)
  · exact thrFrom_set_throw (fun he => by cases he)
  · rename_i src hr
    have hl : FeederLive src := feederSrc_read_live files r.st.src _ [] src hj hr
    split
    · exact thrFrom_set_throw (fun he => by cases he)
    · exact thrFrom_set hl
  · rename_i got src _ hr
    exact thrFrom_set (feederSrc_read_live files r.st.src _ got src hj hr)

theorem nextByte_thr : Thr QJ QE (Qtm.nextByte (feederSrc files)) := by
  unfold Qtm.nextByte; thr_auto [readInput_thr files]

theorem readBytes_thr : Thr QJ QE (readBytes (feederSrc files)) := by
  unfold readBytes; thr_auto [nextByte_thr files]

theorem ensureBits_thr (n : Nat) : ∀ k, Thr QJ QE (Qtm.ensureBits (feederSrc files) n k) := by
  intro k
  induction k with
  | zero => rw [Qtm.ensureBits.eq_1]; thr_auto
  | succ k ih => rw [Qtm.ensureBits.eq_2]; thr_auto [ih, readBytes_thr files]

theorem peekBits_thr (n : Nat) : Thr QJ QE (Qtm.peekBits (σ := Feeder) n) := by
  unfold Qtm.peekBits; thr_auto

theorem removeBits_thr (n : Nat) : Thr QJ QE (Qtm.removeBits (σ := Feeder) n) := by
  unfold Qtm.removeBits; thr_auto

theorem readBits_thr (n : Nat) : Thr QJ QE (Qtm.readBits (feederSrc files) n) := by
  unfold Qtm.readBits; thr_auto [ensureBits_thr files, peekBits_thr, removeBits_thr]

theorem readManyLoop_thr : ∀ k needed val, Thr QJ QE (readManyLoop (feederSrc files) k needed val) := by
  intro k
  induction k with
  | zero => intro needed val; rw [readManyLoop.eq_1]; thr_auto
  | succ k ih =>
    intro needed val; rw [readManyLoop.eq_2]
    thr_auto [ih, readBytes_thr files, peekBits_thr, removeBits_thr]

theorem readManyBits_thr (bits : Nat) : Thr QJ QE (readManyBits (feederSrc files) bits) := by
  unfold readManyBits; exact readManyLoop_thr files _ _ _

theorem renorm_thr : ∀ fuel, Thr QJ QE (renorm (feederSrc files) fuel) := by
  intro fuel
  induction fuel with
  | zero => rw [renorm.eq_1]; thr_auto
  | succ fuel ih =>
    rw [renorm.eq_2]; thr_auto [ih, ensureBits_thr files, peekBits_thr, removeBits_thr]

theorem getSymbol_thr (fuel : Nat) (id : MId) : Thr QJ QE (getSymbol (feederSrc files) fuel id) := by
  unfold getSymbol
  thr_auto [liftF_thr, renorm_thr files, decodeSym_en]

theorem tableAt_thr (what : String) (t : List Nat) (i : Nat) : Thr QJ QE (tableAt (σ := Feeder) what t i) := by
  unfold tableAt; thr_auto

theorem copyFwd_thr (n a d : Nat) : Thr QJ QE (Qtm.copyFwd (σ := Feeder) n a d) := by
  unfold Qtm.copyFwd; thr_auto

theorem copyMasked_thr (n j d : Nat) : Thr QJ QE (copyMasked (σ := Feeder) n j d) := by
  unfold copyMasked; thr_auto

theorem writeOut_thr (p n : Nat) : Thr QJ QE (writeOut (σ := Feeder) p n) := by
  unfold writeOut; thr_auto

theorem readOffset_thr (sym : Nat) : Thr QJ QE (Qtm.readOffset (feederSrc files) sym) := by
  unfold Qtm.readOffset; thr_auto [tableAt_thr, readManyBits_thr files]

theorem trailerScan_thr : ∀ fuel, Thr QJ QE (trailerScan (feederSrc files) fuel) := by
  intro fuel
  induction fuel with
  | zero => rw [trailerScan.eq_1]; thr_auto
  | succ fuel ih => rw [trailerScan.eq_2]; thr_auto [ih, readBits_thr files]

theorem symbolLoop_thr (fuel frameEnd : Nat) : ∀ n, Thr QJ QE (symbolLoop (feederSrc files) fuel frameEnd n) := by
  intro n
  induction n with
  | zero => rw [symbolLoop.eq_1]; thr_auto
  | succ n ih =>
    rw [symbolLoop.eq_2]
    thr_auto [ih, getSymbol_thr files, readOffset_thr files, tableAt_thr, readManyBits_thr files, fail_thr,
      copyMasked_thr, copyFwd_thr, writeOut_thr]

theorem blockLoop_thr (fuel : Nat) : ∀ n, Thr QJ QE (Qtm.blockLoop (feederSrc files) fuel n) := by
  intro n
  induction n with
  | zero => rw [Qtm.blockLoop.eq_1]; thr_auto
  | succ n ih =>
    rw [Qtm.blockLoop.eq_2]
    thr_auto [ih, readBits_thr files, symbolLoop_thr files, fail_thr, removeBits_thr, trailerScan_thr files,
      writeOut_thr]

theorem body_thr (fuel : Nat) : Thr QJ QE (body (feederSrc files) fuel) := by
  unfold body
  thr_auto [blockLoop_thr files, writeOut_thr]

/-- one call: a fault is not a null dereference; the state returned has its feeder live unless the
    sticky error is set -/
def QOut : Except Fault (DecodeOut (Qtm.St Feeder)) → Prop
  | .error f => ∀ w, f ≠ .nullDeref w
  | .ok o => o.st.error = .ok → FeederLive o.st.src

theorem decompress_thr (fuel : Nat) (st : Qtm.St Feeder) (n : Nat) (hj : st.error = .ok → FeederLive st.src) :
    QOut (Qtm.decompress (feederSrc files) fuel st n) := by
  unfold Qtm.decompress
  split
  · exact hj
  · rename_i he
    have hj' : FeederLive st.src := hj (Decidable.not_not.mp he)
    extract_lets i0 i1 w st1 ob r0
    have hs1 : st1.src = st.src := rfl
    have hr0 : QJ r0 := by show FeederLive r0.st.src; exact hj'
    split
    · intro w h; cases h
    · split
      · intro _; show FeederLive st1.src; rw [hs1]; exact hj'
      · have hb := (body_thr files fuel).out r0 hr0
        split
        · rename_i f r heq
          exact hb _ _ heq
        · rename_i e r heq
          exact hb _ _ heq
        · rename_i r heq
          have : QJ r := hb _ _ heq
          exact fun _ => this

end QtmThread

end MsPack.CabLift
