import Proofs.Lemmas.SzddLedger
/-
Ledger effect of the SZDD API functions: every path of `open`, `extract`, `close`, `decompress`,
`create`, `destroy`, under any fault plan.
-/
namespace MsPack.Szdd.Api
open MsPack MsPack.Sys

theorem Frame.trans {v : View} {w1 w2 : World} (f1 : Frame v w1) (f2 : Frame w1.view w2) : Frame v w2 :=
  ⟨f2.allocs.trans f1.allocs, f2.handles.trans f1.handles, f2.misuse.trans f1.misuse,
   Nat.le_trans f1.nextId f2.nextId⟩

/-- `szddd_read_headers` only reads: the ledger is untouched -/
theorem readHeaders_view (w : World) (hok : w.view.ok) (fh : Nat) (h : (fh, Mode.read) ∈ w.view.handles) :
    (readHeaders fh w).2.view = w.view := by
  unfold readHeaders
  simp only [bind_apply]
  have h1 := read_live_view w hok fh 8 h
  generalize read fh 8 w = p1 at h1
  obtain ⟨r1, w1⟩ := p1
  simp only at h1 ⊢
  have hok1 : w1.view.ok := h1 ▸ hok
  have hh1 : (fh, Mode.read) ∈ w1.view.handles := h1 ▸ h
  match r1 with
  | none => simp only [pure_apply]; exact h1
  | some buf =>
    simp only
    by_cases hl : buf.length ≠ 8
    · rw [if_pos hl]; simp only [pure_apply]; exact h1
    · rw [if_neg hl]
      by_cases hs : sigEq buf Generated.szddSignatureExpand = true
      · rw [if_pos hs]
        simp only [bind_apply]
        have h2 := read_live_view w1 hok1 fh 6 hh1
        generalize read fh 6 w1 = p2 at h2
        obtain ⟨r2, w2⟩ := p2
        simp only at h2 ⊢
        match r2 with
        | none => simp only [pure_apply]; exact h2.trans h1
        | some b =>
          simp only
          split <;> (try split) <;> simp only [pure_apply] <;> exact h2.trans h1
      · rw [if_neg hs]
        by_cases hq : sigEq buf Generated.szddSignatureQbasic = true
        · rw [if_pos hq]
          simp only [bind_apply]
          have h2 := read_live_view w1 hok1 fh 4 hh1
          generalize read fh 4 w1 = p2 at h2
          obtain ⟨r2, w2⟩ := p2
          simp only at h2 ⊢
          match r2 with
          | none => simp only [pure_apply]; exact h2.trans h1
          | some b =>
            simp only
            split <;> simp only [pure_apply] <;> exact h2.trans h1
        · rw [if_neg hq]; simp only [pure_apply]; exact h1

/-- what `open` leaves behind when it returns a header: one block and one read handle, both fresh -/
structure Opened (v : View) (hd : Hdr) (w' : World) : Prop where
  fresh   : v.nextId ≤ hd.fh
  allocs  : w'.view.allocs = hd.mem :: v.allocs
  handles : w'.view.handles = (hd.fh, Mode.read) :: v.handles
  misuse  : w'.view.misuse = v.misuse
  ok      : w'.view.ok

theorem ok_add_handle {v : View} (hv : v.ok) (m : Mode) :
    View.ok { v with handles := (v.nextId, m) :: v.handles, nextId := v.nextId + 1 } := by
  constructor
  · intro a ha; have := hv.allocs_lt a ha; simp only; omega
  · intro h hh
    simp only [List.mem_cons] at hh
    rcases hh with rfl | hh
    · simp
    · have := hv.handles_lt h hh; simp only; omega
  · simp only [List.map_cons, List.nodup_cons]
    refine ⟨?_, hv.handles_nd⟩
    intro hmem
    obtain ⟨h, hh, heq⟩ := List.mem_map.mp hmem
    have := hv.handles_lt h hh
    omega

theorem ok_add_alloc {v : View} (hv : v.ok) :
    View.ok { v with allocs := v.nextId :: v.allocs, nextId := v.nextId + 1 } := by
  constructor
  · intro a ha
    simp only [List.mem_cons] at ha
    rcases ha with rfl | ha
    · simp
    · have := hv.allocs_lt a ha; simp only; omega
  · intro h hh; have := hv.handles_lt h hh; simp only; omega
  · exact hv.handles_nd

theorem filter_fresh {v : View} (hv : v.ok) (id : Nat) (hid : v.nextId ≤ id) :
    v.handles.filter (·.1 ≠ id) = v.handles := by
  apply List.filter_eq_self.mpr
  intro h hh
  have := hv.handles_lt h hh
  simp; omega

/-- `szddd_open`, every path -/
theorem open_spec' (v : View) (hv : v.ok) (i : Inst) (name : String) (w : World) (hw : w.view = v) :
    match (open_ i name w).1.2 with
    | none => Frame v (open_ i name w).2
    | some hd => Opened v hd (open_ i name w).2 := by
  unfold open_
  simp only [bind_apply]
  -- the open
  have hwn : w.nextId = v.nextId := by rw [← hw]; rfl
  rcases open_spec name .read w with ⟨o1, o2⟩ | ⟨o1, o2⟩
  · -- open failed: alloc may still succeed, and is then freed
    rw [o1]
    generalize Sys.open_ name Mode.read w = p1 at o2
    obtain ⟨_, w1⟩ := p1
    simp only at o2 ⊢
    have hw1 : w1.view = v := o2.trans hw
    rcases alloc_spec w1 with ⟨a1, a2⟩ | ⟨a1, a2⟩
    · rw [a1]; simp only [Option.isNone_none, ↓reduceIte, bind_apply, pure_apply]
      have := free_none_view (alloc w1).2
      exact Frame.of_view_eq ((this.trans a2).trans hw1)
    · rw [a1]; simp only [Option.isNone_some, Bool.false_eq_true, ↓reduceIte, bind_apply, pure_apply]
      have hmem : w1.nextId ∈ (alloc w1).2.view.allocs := by rw [a2]; simp
      have hf := free_live_view (alloc w1).2 w1.nextId hmem
      refine ⟨?_, ?_, ?_, ?_⟩
      · rw [hf, a2, hw1]; simp
      · rw [hf, a2, hw1]
      · rw [hf, a2, hw1]
      · rw [hf, a2, hw1]
        have : w1.nextId = v.nextId := by rw [← hw1]; rfl
        simp only; omega
  · -- open succeeded with handle id w.nextId
    rw [o1]
    generalize Sys.open_ name Mode.read w = p1 at o2
    obtain ⟨_, w1⟩ := p1
    simp only at o2 ⊢
    rw [hw] at o2
    have hok1 : w1.view.ok := by rw [o2, hwn]; exact ok_add_handle hv .read
    have hh1 : (w.nextId, Mode.read) ∈ w1.view.handles := by rw [o2]; simp
    have hn1 : w1.nextId = v.nextId + 1 := by
      have : w1.view.nextId = w.nextId + 1 := by rw [o2]
      rw [hwn] at this; exact this
    rcases alloc_spec w1 with ⟨a1, a2⟩ | ⟨a1, a2⟩
    · -- no memory for the header: close the handle again
      rw [a1]; simp only [Option.isNone_none, ↓reduceIte, bind_apply, pure_apply]
      have hc := close_live_view (alloc w1).2 (a2 ▸ hok1) w.nextId .read (a2 ▸ hh1)
      have hfn := free_none_view (close w.nextId (alloc w1).2).2
      refine ⟨?_, ?_, ?_, ?_⟩
      · rw [hfn, hc, a2, o2]
      · rw [hfn, hc, a2, o2]; simp only [List.filter_cons, ne_eq, not_true_eq_false, decide_false, Bool.false_eq_true, ↓reduceIte]
        exact filter_fresh hv _ (by omega)
      · rw [hfn, hc, a2, o2]
      · rw [hfn, hc, a2, o2]; simp only; omega
    · -- both succeeded: read the headers
      rw [a1]; simp only [bind_apply]
      have hv2 : (alloc w1).2.view.ok := by
        rw [a2]
        have := ok_add_alloc hok1
        simpa [World.view] using this
      have hh2 : (w.nextId, Mode.read) ∈ (alloc w1).2.view.handles := by rw [a2]; exact hh1
      have hr := readHeaders_view (alloc w1).2 hv2 w.nextId hh2
      generalize readHeaders w.nextId (alloc w1).2 = p3 at hr
      obtain ⟨r3, w3⟩ := p3
      simp only at hr ⊢
      match r3 with
      | .ok (fmt, miss, len) =>
        simp only [pure_apply]
        refine ⟨by simp only; omega, ?_, ?_, ?_, hr ▸ hv2⟩
        · rw [hr, a2, o2]
        · rw [hr, a2, o2]
        · rw [hr, a2, o2]
      | .error e =>
        simp only [bind_apply, pure_apply]
        have hc := close_live_view w3 (hr ▸ hv2) w.nextId .read (hr ▸ hh2)
        have hmem : w1.nextId ∈ (close w.nextId w3).2.view.allocs := by rw [hc, hr, a2]; simp
        have hf := free_live_view (close w.nextId w3).2 w1.nextId hmem
        refine ⟨?_, ?_, ?_, ?_⟩
        · rw [hf, hc, hr, a2, o2]; simp
        · rw [hf, hc, hr, a2, o2]; simp only [List.filter_cons, ne_eq, not_true_eq_false, decide_false, Bool.false_eq_true, ↓reduceIte]
          exact filter_fresh hv _ (by omega)
        · rw [hf, hc, hr, a2, o2]
        · rw [hf, hc, hr, a2, o2]; simp; omega

/-- `szddd_close` gives back exactly what `open` took -/
theorem close_spec (v : View) (hv : v.ok) (i : Inst) (hd : Hdr) (w : World) (ho : Opened v hd w) :
    Frame v (close_ i hd w).2 := by
  unfold close_
  simp only [bind_apply, pure_apply]
  have hh : (hd.fh, Mode.read) ∈ w.view.handles := by rw [ho.handles]; simp
  have hc := close_live_view w ho.ok hd.fh .read hh
  have hmem : hd.mem ∈ (close hd.fh w).2.view.allocs := by rw [hc]; simp [ho.allocs]
  have hf := free_live_view (close hd.fh w).2 hd.mem hmem
  refine ⟨?_, ?_, ?_, ?_⟩
  · rw [hf, hc]; simp [ho.allocs]
  · rw [hf, hc]
    simp only [ho.handles, List.filter_cons, ne_eq, not_true_eq_false, decide_false, Bool.false_eq_true, ↓reduceIte]
    exact filter_fresh hv _ ho.fresh
  · rw [hf, hc]; exact ho.misuse
  · rw [hf, hc]
    -- nextId never decreases: it is at least hd.fh + 1 > v.nextId
    have := ho.ok.handles_lt (hd.fh, Mode.read) hh
    have h2 := ho.fresh
    simp only at this ⊢; omega

/-- `szddd_extract` on an open header: whenever it returns, the ledger is as before the call
    (the output handle it opened is closed, the LZSS window freed), on every path -/
theorem extract_spec (v : View) (i : Inst) (hd : Hdr) (out : String) (fuel : Nat) (w : World) (ho : Opened v hd w) :
    ∀ r, (extract i hd out fuel w).1 = some r → Frame w.view (extract i hd out fuel w).2 := by
  intro r hr
  have hok := ho.ok
  have hh : (hd.fh, Mode.read) ∈ w.view.handles := by rw [ho.handles]; simp
  unfold extract at hr ⊢
  simp only [bind_apply] at hr ⊢
  have hs := seek_live_view w hok hd.fh (if hd.format = 0 then 14 else 12) .read hh
  generalize seekStart hd.fh (if hd.format = 0 then 14 else 12) w = p1 at hs hr
  obtain ⟨b1, w1⟩ := p1
  simp only at hs hr ⊢
  cases b1 with
  | true => simp only [↓reduceIte, pure_apply] at hr ⊢; exact Frame.of_view_eq hs
  | false =>
    simp only [Bool.false_eq_true, ↓reduceIte, bind_apply] at hr ⊢
    have hok1 : w1.view.ok := hs ▸ hok
    rcases open_spec out .write w1 with ⟨o1, o2⟩ | ⟨o1, o2⟩
    · rw [o1] at hr ⊢; simp only [pure_apply] at hr ⊢
      exact Frame.of_view_eq (o2.trans hs)
    · rw [o1] at hr ⊢
      simp only [bind_apply] at hr ⊢
      generalize Sys.open_ out Mode.write w1 = p2 at o2 hr
      obtain ⟨_, w2⟩ := p2
      simp only at o2 hr ⊢
      have hv2 : w2.view.ok := by rw [o2]; exact ok_add_handle hok1 .write
      have hin : (hd.fh, Mode.read) ∈ w2.view.handles := by rw [o2]; simp [hs ▸ hh]
      have hout : (w1.nextId, Mode.write) ∈ w2.view.handles := by rw [o2]; simp
      have hl := lzss_spec w2.view hv2 hd.fh w1.nextId Generated.szddINPUT_SIZE (hd.format ≠ 0) fuel hin hout w2 rfl
      generalize lzss hd.fh w1.nextId Generated.szddINPUT_SIZE (decide (hd.format ≠ 0)) fuel w2 = p3 at hl hr
      obtain ⟨r3, w3⟩ := p3
      simp only at hl hr ⊢
      match r3 with
      | none => simp only [pure_apply] at hr; cases hr
      | some e =>
        simp only [bind_apply, pure_apply] at hr ⊢
        have f3 := hl e rfl
        have hok3 := f3.ok hv2
        have hout3 : (w1.nextId, Mode.write) ∈ w3.view.handles := by rw [f3.handles]; exact hout
        have hc := close_live_view w3 hok3 w1.nextId .write hout3
        refine ⟨?_, ?_, ?_, ?_⟩
        · rw [hc]; simp only; rw [f3.allocs, o2, hs]
        · rw [hc]; simp only; rw [f3.handles, o2]
          simp only [List.filter_cons, ne_eq, not_true_eq_false, decide_false, Bool.false_eq_true, ↓reduceIte]
          rw [hs]; exact filter_fresh hok _ (by rw [← hs]; exact Nat.le_refl _)
        · rw [hc]; simp only; rw [f3.misuse, o2, hs]
        · rw [hc]; simp only
          have := f3.nextId; rw [o2] at this; simp only at this
          have h1 : w1.nextId = w.view.nextId := by rw [← hs]; rfl
          omega

theorem Opened.frame_back {v : View} {hd : Hdr} {w w' : World} (ho : Opened v hd w) (f : Frame w.view w') :
    Opened v hd w' :=
  ⟨ho.fresh, f.allocs.trans ho.allocs, f.handles.trans ho.handles, f.misuse.trans ho.misuse, f.ok ho.ok⟩

/-- `szddd_decompress`: whenever it returns, the ledger is as before the call -/
theorem decompress_spec (v : View) (hv : v.ok) (i : Inst) (input output : String) (fuel : Nat) (w : World)
    (hw : w.view = v) :
    ∀ r, (decompress i input output fuel w).1 = some r → Frame v (decompress i input output fuel w).2 := by
  intro r hr
  unfold decompress at hr ⊢
  simp only [bind_apply] at hr ⊢
  have ho := open_spec' v hv i input w hw
  generalize open_ i input w = p1 at ho hr
  obtain ⟨⟨i1, h?⟩, w1⟩ := p1
  simp only at ho hr ⊢
  match h? with
  | none => simp only [pure_apply] at hr ⊢; exact ho
  | some hd =>
    simp only [bind_apply] at ho hr ⊢
    have he := extract_spec v i1 hd output fuel w1 ho
    generalize extract i1 hd output fuel w1 = p2 at he hr
    obtain ⟨r2, w2⟩ := p2
    simp only at he hr ⊢
    match r2 with
    | none => simp only [pure_apply] at hr; cases hr
    | some (i2, e) =>
      simp only [bind_apply, pure_apply] at hr ⊢
      exact close_spec v hv i2 hd w2 (ho.frame_back (he _ rfl))

theorem extracts_spec (v : View) (hd : Hdr) (fuel : Nat) (outs : List String) :
    ∀ (i : Inst) (w : World), Opened v hd w →
    ∀ r, (extracts hd fuel outs i w).1 = some r → Opened v hd (extracts hd fuel outs i w).2 := by
  induction outs with
  | nil => intro i w ho r _; exact ho
  | cons o os ih =>
    intro i w ho r hr
    unfold extracts at hr ⊢
    simp only [bind_apply] at hr ⊢
    have he := extract_spec v i hd o fuel w ho
    generalize extract i hd o fuel w = p at he hr
    obtain ⟨r1, w1⟩ := p
    simp only at he hr ⊢
    match r1 with
    | none => simp only [pure_apply] at hr; cases hr
    | some (i1, e) =>
      simp only at hr ⊢
      exact ih i1 w1 (ho.frame_back (he _ rfl)) r hr

theorem runOp_spec (v : View) (hv : v.ok) (fuel : Nat) (i : Inst) (op : Op) (w : World) (hw : w.view = v) :
    ∀ r, (runOp fuel i op w).1 = some r → Frame v (runOp fuel i op w).2 := by
  intro r hr
  cases op with
  | decompress a b =>
    unfold runOp at hr ⊢
    simp only [bind_apply] at hr ⊢
    have hd := decompress_spec v hv i a b fuel w hw
    generalize decompress i a b fuel w = p at hd hr
    obtain ⟨r1, w1⟩ := p
    simp only at hd hr ⊢
    match r1 with
    | none => simp only [pure_apply] at hr; cases hr
    | some (i1, e) => simp only [pure_apply]; exact hd _ rfl
  | session a outs =>
    unfold runOp at hr ⊢
    simp only [bind_apply] at hr ⊢
    have ho := open_spec' v hv i a w hw
    generalize open_ i a w = p1 at ho hr
    obtain ⟨⟨i1, h?⟩, w1⟩ := p1
    simp only at ho hr ⊢
    match h? with
    | none => simp only [pure_apply]; exact ho
    | some hd =>
      simp only [bind_apply] at ho hr ⊢
      have he := extracts_spec v hd fuel outs i1 w1 ho
      generalize extracts hd fuel outs i1 w1 = p2 at he hr
      obtain ⟨r2, w2⟩ := p2
      simp only at he hr ⊢
      match r2 with
      | none => simp only [pure_apply] at hr; cases hr
      | some i2 =>
        simp only [bind_apply, pure_apply]
        exact close_spec v hv i2 hd w2 (he _ rfl)

theorem runOps_spec (fuel : Nat) (ops : List Op) :
    ∀ (v : View) (_ : v.ok) (i : Inst) (w : World) (_ : w.view = v),
    ∀ r, (runOps fuel ops i w).1 = some r → Frame v (runOps fuel ops i w).2 := by
  induction ops with
  | nil => intro v _ i w hw r _; exact Frame.of_view_eq hw
  | cons op ops ih =>
    intro v hv i w hw r hr
    unfold runOps at hr ⊢
    simp only [bind_apply] at hr ⊢
    have h1 := runOp_spec v hv fuel i op w hw
    generalize runOp fuel i op w = p at h1 hr
    obtain ⟨r1, w1⟩ := p
    simp only at h1 hr ⊢
    match r1 with
    | none => simp only [pure_apply] at hr; cases hr
    | some i1 =>
      simp only at hr ⊢
      have f1 := h1 _ rfl
      exact f1.trans (ih w1.view (f1.ok hv) i1 w1 rfl r hr)

end MsPack.Szdd.Api
