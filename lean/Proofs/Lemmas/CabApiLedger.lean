import Proofs.Lemmas.OabApiLedger
import MsPack.Cab.Api
/-
Ledger effect of the CAB API functions (model `MsPack/Cab/Api.lean`), under any fault plan, for any
file contents, for every value of the model's parameters.

cabd.c does not acquire and release in stack order: cabinets, their folders, files and strings live
from `open` / `search` to `close`, `self->d` with its input handle and decoder state lives from the
first `extract` to whichever `close` meets its folder (or to `destroy`), and `cabd_merge` moves
blocks from one set to another.  So the ledger during a session is described up to order:
`Own v bl hs w` = the world's live blocks are those of `v` plus a permutation of `bl`, its live
handles those of `v` plus a permutation of `hs`, nothing was misused.  Every function gets one
Hoare triple over `Own` (`Triple`), composed with `Triple.bind`.
-/
namespace MsPack.Cab.Api
open MsPack MsPack.Sys
open MsPack.Szdd.Api (Frame ok_add_alloc ok_add_handle)
open MsPack.Oab.Api (Plus)

/-- closes a goal `l₁ ~ l₂` between lists built from the same pieces with `::` and `++` -/
macro "perm_count" : tactic =>
  `(tactic| (rw [List.perm_iff_count]; intro x;
             simp only [Option.toList_some, Option.toList_none, List.map_cons, List.map_nil,
               List.count_append, List.count_cons, List.count_nil, List.count_singleton,
               List.append_assoc, List.cons_append, List.nil_append, List.append_nil] <;> omega))

/-- unfold the given block functions, then `perm_count` -/
syntax "perm_with" "[" Lean.Parser.Tactic.simpLemma,* "]" : tactic
macro_rules
  | `(tactic| perm_with [$ls,*]) =>
    `(tactic| ((try simp only [$ls,*]); (try (first | exact List.Perm.refl _ | perm_count))))

/-! ## two more facts about `Plus`: a block / a handle anywhere in the extra part -/

section
variable {v : View} {ex : List Nat} {hs : List (Nat × Mode)} {w : World}

theorem _root_.MsPack.Oab.Api.Plus.free_mem {a : Nat} (p : Plus v ex hs w) (h : a ∈ ex) : Plus v (ex.erase a) hs (free (some a) w).2 := by
  have hmem : a ∈ w.view.allocs := by rw [p.allocs]; exact List.mem_append_left _ h
  have hf := free_live_view w a hmem
  refine ⟨?_, ?_, ?_, ?_, ?_⟩
  · rw [hf]; dsimp only; rw [p.allocs, List.erase_append_left _ h]
  · rw [hf]; exact p.handles
  · rw [hf]; exact p.misuse
  · rw [hf]; exact p.nextId
  · rw [hf]
    exact ⟨fun x hx => p.ok.allocs_lt x (List.mem_of_mem_erase hx), p.ok.handles_lt, p.ok.handles_nd⟩

/-- with pairwise different ids, dropping an id is erasing the pair -/
theorem filter_ne_eq_erase : ∀ (l : List (Nat × Mode)) (id : Nat) (m : Mode), (l.map (·.1)).Nodup → (id, m) ∈ l →
    l.filter (·.1 ≠ id) = l.erase (id, m) := by
  intro l id m
  induction l with
  | nil => intro _ h; cases h
  | cons x xs ih =>
    intro hnd h
    simp only [List.map_cons, List.nodup_cons] at hnd
    by_cases hx : x = (id, m)
    · subst hx
      have : xs.filter (·.1 ≠ id) = xs := by
        apply List.filter_eq_self.mpr
        intro y hy
        have : y.1 ≠ id := fun e => hnd.1 (List.mem_map.mpr ⟨y, hy, e⟩)
        simpa using this
      have e1 : ((id, m) :: xs).erase (id, m) = xs := List.erase_cons_head ..
      rw [e1, List.filter_cons]
      simp only [ne_eq, not_true_eq_false, decide_false, Bool.false_eq_true, ↓reduceIte]
      exact this
    · have hin : (id, m) ∈ xs := by
        rcases List.mem_cons.mp h with e | e
        · exact absurd e.symm hx
        · exact e
      have h1 : x.1 ≠ id := fun e => hnd.1 (List.mem_map.mpr ⟨(id, m), hin, e.symm⟩)
      have hbeq : (x == (id, m)) = false := by simpa using hx
      rw [List.erase_cons, hbeq]
      simp only [List.filter_cons, ne_eq, h1, not_false_eq_true, decide_true, ↓reduceIte, Bool.false_eq_true]
      rw [← ih hnd.2 hin]

theorem _root_.MsPack.Oab.Api.Plus.close_mem {id : Nat} {m : Mode} (p : Plus v ex hs w) (h : (id, m) ∈ hs) :
    Plus v ex (hs.erase (id, m)) (close id w).2 := by
  have hmem : (id, m) ∈ w.view.handles := by rw [p.handles]; exact List.mem_append_left _ h
  have hc := close_live_view w p.ok id m hmem
  have hnd := p.ok.handles_nd
  have hfil : w.view.handles.filter (·.1 ≠ id) = hs.erase (id, m) ++ v.handles := by
    rw [filter_ne_eq_erase _ id m hnd hmem, p.handles, List.erase_append_left _ h]
  refine ⟨?_, ?_, ?_, ?_, ?_⟩
  · rw [hc]; exact p.allocs
  · rw [hc]; exact hfil
  · rw [hc]; exact p.misuse
  · rw [hc]; exact p.nextId
  · rw [hc]
    refine ⟨p.ok.allocs_lt, fun x hx => p.ok.handles_lt x ((List.mem_filter.mp hx).1), ?_⟩
    dsimp only
    exact List.Nodup.sublist (List.Sublist.map _ List.filter_sublist) hnd

end

/-! ## `seekEnd`, `tell` -/

theorem seekEnd_live_view (w : World) (hok : w.view.ok) (id : Nat) (m : Mode) (h : (id, m) ∈ w.view.handles) :
    (seekEnd id w).2.view = w.view := by
  obtain ⟨hd, hf, hmem, hid, hmode⟩ := findHandle_of_view w hok id m h
  unfold seekEnd
  simp only [tick]
  have hf' : findHandle { w with counts := w.counts.bump Kind.seek } id = some hd := hf
  rw [hf']
  simp only
  split
  · rfl
  · exact setHandle_view _ hok hd _ hmem rfl rfl

theorem tell_world (id : Nat) (w : World) : (tell id w).2 = w := rfl

/-! ## ownership up to order -/

/-- the ledger is as in `v` plus the blocks `bl` and the handles `hs`, in some order; fresh ids may
    have been consumed; nothing was misused -/
def Own (v : View) (bl : List Nat) (hs : List (Nat × Mode)) (w : World) : Prop :=
  ∃ ex hx, ex.Perm bl ∧ hx.Perm hs ∧ Plus v ex hx w

section
variable {v : View} {bl bl' : List Nat} {hs hs' : List (Nat × Mode)} {w w' : World}

theorem Own.perm (o : Own v bl hs w) (hb : bl.Perm bl') (hh : hs.Perm hs') : Own v bl' hs' w := by
  obtain ⟨ex, hx, p1, p2, p⟩ := o
  exact ⟨ex, hx, p1.trans hb, p2.trans hh, p⟩

theorem Own.permB (o : Own v bl hs w) (hb : bl.Perm bl') : Own v bl' hs w := o.perm hb (List.Perm.refl _)

theorem Own.permH (o : Own v bl hs w) (hh : hs.Perm hs') : Own v bl hs' w := o.perm (List.Perm.refl _) hh

theorem Own.of_view_eq (hv : v.ok) (h : w.view = v) : Own v [] [] w :=
  ⟨[], [], List.Perm.refl _, List.Perm.refl _, Plus.of_view_eq hv h⟩

theorem Own.frame (o : Own v [] [] w) : Frame v w := by
  obtain ⟨ex, hx, p1, p2, p⟩ := o
  have e1 : ex = [] := List.Perm.eq_nil p1
  have e2 : hx = [] := List.Perm.eq_nil p2
  subst e1; subst e2
  exact p.frame

theorem Own.ok (o : Own v bl hs w) : w.view.ok := by
  obtain ⟨_, _, _, _, p⟩ := o; exact p.ok

theorem Own.keep (o : Own v bl hs w) (h : w'.view = w.view) : Own v bl hs w' := by
  obtain ⟨ex, hx, p1, p2, p⟩ := o
  exact ⟨ex, hx, p1, p2, p.keep h⟩

theorem Own.step (o : Own v bl hs w) (f : Frame w.view w') : Own v bl hs w' := by
  obtain ⟨ex, hx, p1, p2, p⟩ := o
  exact ⟨ex, hx, p1, p2, p.step f⟩

theorem Own.mem_handles (o : Own v bl hs w) {h : Nat × Mode} (hm : h ∈ hs) : h ∈ w.view.handles := by
  obtain ⟨ex, hx, _, p2, p⟩ := o
  rw [p.handles]
  exact List.mem_append_left _ (p2.mem_iff.mpr hm)

theorem Own.alloc (o : Own v bl hs w) : Own v ((Sys.alloc w).1.toList ++ bl) hs (Sys.alloc w).2 := by
  obtain ⟨ex, hx, p1, p2, p⟩ := o
  cases ha : (Sys.alloc w).1 with
  | none => exact ⟨ex, hx, p1, p2, p.alloc_none ha⟩
  | some a => exact ⟨a :: ex, hx, List.Perm.cons a p1, p2, p.alloc_some ha⟩

theorem Own.free {a : Nat} (o : Own v (a :: bl) hs w) : Own v bl hs (Sys.free (some a) w).2 := by
  obtain ⟨ex, hx, p1, p2, p⟩ := o
  have hmem : a ∈ ex := p1.mem_iff.mpr (List.mem_cons_self ..)
  refine ⟨ex.erase a, hx, ?_, p2, p.free_mem hmem⟩
  exact List.Perm.cons_inv ((List.perm_cons_erase hmem).symm.trans p1)

theorem Own.free_opt {o' : Option Nat} (o : Own v (o'.toList ++ bl) hs w) : Own v bl hs (Sys.free o' w).2 := by
  cases o' with
  | none => exact o.keep (free_none_view w)
  | some a => exact o.free

theorem Own.open_ {name : String} {m : Mode} (o : Own v bl hs w) :
    Own v bl ((Sys.open_ name m w).1.toList.map (·, m) ++ hs) (Sys.open_ name m w).2 := by
  obtain ⟨ex, hx, p1, p2, p⟩ := o
  cases ho : (Sys.open_ name m w).1 with
  | none => exact ⟨ex, hx, p1, p2, p.open_none ho⟩
  | some id => exact ⟨ex, (id, m) :: hx, p1, List.Perm.cons _ p2, p.open_some ho⟩

theorem Own.close {id : Nat} {m : Mode} (o : Own v bl ((id, m) :: hs) w) : Own v bl hs (Sys.close id w).2 := by
  obtain ⟨ex, hx, p1, p2, p⟩ := o
  have hmem : (id, m) ∈ hx := p2.mem_iff.mpr (List.mem_cons_self ..)
  refine ⟨ex, hx.erase (id, m), p1, ?_, p.close_mem hmem⟩
  exact List.Perm.cons_inv ((List.perm_cons_erase hmem).symm.trans p2)

end

/-! ## Hoare triples in `Sys.M` -/

/-- from a world that satisfies `P`, `x` returns `a` in a world that satisfies `Q a` -/
def Triple {α} (P : World → Prop) (x : M α) (Q : α → World → Prop) : Prop := ∀ w, P w → Q (x w).1 (x w).2

theorem Triple.bind {α β} {P : World → Prop} {x : M α} {R : α → World → Prop} {f : α → M β}
    {Q : β → World → Prop} (hx : Triple P x R) (hf : ∀ a, Triple (R a) (f a) Q) : Triple P (x >>= f) Q :=
  fun w hw => by rw [bind_apply]; exact hf _ _ (hx w hw)

theorem Triple.pure {α} {P : World → Prop} {a : α} {Q : α → World → Prop} (h : ∀ w, P w → Q a w) :
    Triple P (Pure.pure a : M α) Q := h

theorem Triple.post {α} {P : World → Prop} {x : M α} {Q Q' : α → World → Prop} (h : Triple P x Q)
    (hq : ∀ a w, Q a w → Q' a w) : Triple P x Q' := fun w hw => hq _ _ (h w hw)

theorem Triple.pre {α} {P P' : World → Prop} {x : M α} {Q : α → World → Prop} (h : Triple P x Q)
    (hp : ∀ w, P' w → P w) : Triple P' x Q := fun w hw => h w (hp w hw)

section prim
variable {v : View} {bl : List Nat} {hs : List (Nat × Mode)}

theorem T.alloc : Triple (Own v bl hs) Sys.alloc (fun r => Own v (r.toList ++ bl) hs) := fun _ o => o.alloc

theorem T.free (p : Option Nat) : Triple (Own v (p.toList ++ bl) hs) (Sys.free p) (fun _ => Own v bl hs) :=
  fun _ o => o.free_opt

theorem T.free1 (a : Nat) : Triple (Own v (a :: bl) hs) (Sys.free (some a)) (fun _ => Own v bl hs) :=
  fun _ o => o.free

theorem T.open_ (name : String) (m : Mode) :
    Triple (Own v bl hs) (Sys.open_ name m) (fun r => Own v bl (r.toList.map (·, m) ++ hs)) := fun _ o => o.open_

theorem T.close (id : Nat) (m : Mode) : Triple (Own v bl ((id, m) :: hs)) (Sys.close id) (fun _ => Own v bl hs) :=
  fun _ o => o.close

theorem T.closeIf (fh : Option Nat) (m : Mode) :
    Triple (Own v bl (fh.toList.map (·, m) ++ hs)) (Api.closeIf fh) (fun _ => Own v bl hs) := by
  cases fh with
  | none => exact fun _ o => o
  | some id => exact T.close id m

theorem T.read (fh n : Nat) (h : (fh, Mode.read) ∈ hs) : Triple (Own v bl hs) (Sys.read fh n) (fun _ => Own v bl hs) :=
  fun w o => o.keep (read_live_view w o.ok fh n (o.mem_handles h))

theorem T.write (fh : Nat) (bs : Bytes) (h : (fh, Mode.write) ∈ hs) :
    Triple (Own v bl hs) (Sys.write fh bs) (fun _ => Own v bl hs) :=
  fun w o => o.keep (write_live_view w o.ok fh bs (o.mem_handles h))

theorem T.seekStart (fh off : Nat) (m : Mode) (h : (fh, m) ∈ hs) :
    Triple (Own v bl hs) (Sys.seekStart fh off) (fun _ => Own v bl hs) :=
  fun w o => o.keep (seek_live_view w o.ok fh off m (o.mem_handles h))

theorem T.seekCur (fh : Nat) (off : Int) (m : Mode) (h : (fh, m) ∈ hs) :
    Triple (Own v bl hs) (Sys.seekCur fh off) (fun _ => Own v bl hs) :=
  fun w o => o.keep (seekCur_live_view w o.ok fh off m (o.mem_handles h))

theorem T.seekEnd (fh : Nat) (m : Mode) (h : (fh, m) ∈ hs) :
    Triple (Own v bl hs) (Api.seekEnd fh) (fun _ => Own v bl hs) :=
  fun w o => o.keep (seekEnd_live_view w o.ok fh m (o.mem_handles h))

theorem T.tell (fh : Nat) : Triple (Own v bl hs) (Api.tell fh) (fun _ => Own v bl hs) := fun _ o => o

theorem T.ret {α} (a : α) {Q : α → World → Prop} {P : World → Prop} (h : ∀ w, P w → Q a w) :
    Triple P (Pure.pure a : M α) Q := h

end prim

/-! ## the blocks and handles a piece of the session state stands for -/

def filesBlocks : List FileEnt → List Nat
  | [] => []
  | f :: fs => f.name :: f.mem :: filesBlocks fs

def partsBlocks : List Part → List Nat
  | [] => []
  | p :: ps => p.mem :: partsBlocks ps

def foldersBlocks : List Folder → List Nat
  | [] => []
  | fo :: fs => partsBlocks fo.parts ++ fo.mem :: foldersBlocks fs

def Cab.strs (c : Cab) : List Nat :=
  c.prevname.toList ++ (c.nextname.toList ++ (c.previnfo.toList ++ c.nextinfo.toList))

def cabsBlocks : List Cab → List Nat
  | [] => []
  | c :: cs => c.strs ++ c.mem :: cabsBlocks cs

def Chain.blocks (c : Chain) : List Nat := filesBlocks c.files ++ (foldersBlocks c.folders ++ cabsBlocks c.cabs)

def decBlocks : Option DecState → List Nat
  | none => []
  | some s => s.frees

def dBlocks : Option DState → List Nat
  | none => []
  | some d => decBlocks d.state ++ [d.mem]

def dHandles : Option DState → List (Nat × Mode)
  | none => []
  | some d => d.infh.toList.map (·, Mode.read)

theorem filesBlocks_append (a b : List FileEnt) : filesBlocks (a ++ b) = filesBlocks a ++ filesBlocks b := by
  induction a with
  | nil => rfl
  | cons f fs ih => simp only [List.cons_append, filesBlocks, ih]

theorem partsBlocks_append (a b : List Part) : partsBlocks (a ++ b) = partsBlocks a ++ partsBlocks b := by
  induction a with
  | nil => rfl
  | cons f fs ih => simp only [List.cons_append, partsBlocks, ih]

theorem foldersBlocks_append (a b : List Folder) : foldersBlocks (a ++ b) = foldersBlocks a ++ foldersBlocks b := by
  induction a with
  | nil => rfl
  | cons f fs ih => simp only [List.cons_append, foldersBlocks, ih, List.append_assoc]

theorem cabsBlocks_append (a b : List Cab) : cabsBlocks (a ++ b) = cabsBlocks a ++ cabsBlocks b := by
  induction a with
  | nil => rfl
  | cons f fs ih => simp only [List.cons_append, cabsBlocks, ih, List.append_assoc]

theorem cabsBlocks_reverse (a : List Cab) : (cabsBlocks a.reverse).Perm (cabsBlocks a) := by
  induction a with
  | nil => exact List.Perm.refl _
  | cons c cs ih =>
    rw [List.reverse_cons, cabsBlocks_append]
    have : cabsBlocks [c] = c.strs ++ [c.mem] := rfl
    rw [this]
    show (cabsBlocks cs.reverse ++ (c.strs ++ [c.mem])).Perm (c.strs ++ c.mem :: cabsBlocks cs)
    refine (List.Perm.append_right _ ih).trans ?_
    perm_count

/-! ## `cabd_close` -/

section
variable {v : View} {bl : List Nat} {hs : List (Nat × Mode)}

theorem freeAll_spec : ∀ (l : List Nat), Triple (Own v (l ++ bl) hs) (freeAll l) (fun _ => Own v bl hs) := by
  intro l
  induction l with
  | nil => exact fun _ o => o
  | cons a as ih =>
    rw [freeAll.eq_2]
    exact Triple.bind (T.free1 a) fun _ => ih

theorem freeDecomp_spec (s : Option DecState) :
    Triple (Own v (decBlocks s ++ bl) hs) (freeDecomp s) (fun _ => Own v bl hs) := by
  cases s with
  | none => exact fun _ o => o
  | some s => exact freeAll_spec s.frees

/-- dropping `self->d` gives back its handle, its decoder blocks and itself -/
theorem dropD_spec (d : DState) :
    Triple (Own v (dBlocks (some d) ++ bl) (dHandles (some d) ++ hs)) (dropD d) (fun _ => Own v bl hs) := by
  unfold dropD
  refine Triple.bind (T.closeIf d.infh .read) fun _ => ?_
  refine Triple.bind ?_ fun _ => T.free1 d.mem
  refine Triple.pre (freeDecomp_spec d.state) fun w o => ?_
  exact o.permB (by perm_with [dBlocks, List.append_assoc, List.singleton_append])

theorem freeFiles_spec : ∀ (fs : List FileEnt),
    Triple (Own v (filesBlocks fs ++ bl) hs) (freeFiles fs) (fun _ => Own v bl hs) := by
  intro fs
  induction fs with
  | nil => exact fun _ o => o
  | cons f fs ih =>
    rw [freeFiles.eq_2]
    refine Triple.bind (T.free1 f.name) fun _ => ?_
    exact Triple.bind (T.free1 f.mem) fun _ => ih

theorem freeParts_spec : ∀ (ps : List Part),
    Triple (Own v (partsBlocks ps ++ bl) hs) (freeParts ps) (fun _ => Own v bl hs) := by
  intro ps
  induction ps with
  | nil => exact fun _ o => o
  | cons p ps ih =>
    rw [freeParts.eq_2]
    exact Triple.bind (T.free1 p.mem) fun _ => ih

theorem dropIf_spec (d : Option DState) (folder : Nat) :
    Triple (Own v (dBlocks d ++ bl) (dHandles d ++ hs)) (dropIf d folder)
      (fun d' => Own v (dBlocks d' ++ bl) (dHandles d' ++ hs)) := by
  unfold dropIf
  cases d with
  | none => exact fun _ o => o
  | some ds =>
    dsimp only
    split
    · exact Triple.bind (dropD_spec ds) fun _ => Triple.pure fun w o => o
    · exact fun _ o => o

/-- the folder loop: the folders go, and `self->d` goes with them if it was decoding one of them -/
theorem freeFolders_spec : ∀ (fs : List Folder) (d : Option DState),
    Triple (Own v (foldersBlocks fs ++ (dBlocks d ++ bl)) (dHandles d ++ hs)) (freeFolders d fs)
      (fun d' => Own v (dBlocks d' ++ bl) (dHandles d' ++ hs)) := by
  intro fs
  induction fs with
  | nil => intro d; exact fun _ o => o
  | cons fo fs ih =>
    intro d
    rw [freeFolders.eq_2]
    have hdrop := dropIf_spec (v := v) (bl := foldersBlocks (fo :: fs) ++ bl) (hs := hs) d fo.mem
    replace hdrop : Triple (Own v (foldersBlocks (fo :: fs) ++ (dBlocks d ++ bl)) (dHandles d ++ hs)) (dropIf d fo.mem)
        (fun d' => Own v (foldersBlocks (fo :: fs) ++ (dBlocks d' ++ bl)) (dHandles d' ++ hs)) :=
      (hdrop.pre fun w o => o.permB (by perm_count)).post fun d' w o => o.permB (by perm_count)
    refine Triple.bind hdrop fun d' => ?_
    refine Triple.bind ?_ fun _ => Triple.bind (T.free1 fo.mem) fun _ => ih d'
    refine Triple.pre (freeParts_spec fo.parts) fun w o => ?_
    exact o.permB (by perm_with [foldersBlocks, List.append_assoc])

theorem freeCabStrings_spec (c : Cab) :
    Triple (Own v (c.strs ++ bl) hs) (freeCabStrings c) (fun _ => Own v bl hs) := by
  unfold freeCabStrings
  refine Triple.bind ?_ fun _ => Triple.bind (T.free c.nextname) fun _ =>
    Triple.bind (T.free c.previnfo) fun _ => T.free c.nextinfo
  refine Triple.pre (T.free c.prevname) fun w o => ?_
  exact o.permB (by perm_with [Cab.strs, List.append_assoc])

theorem freeCabs_spec : ∀ (cs : List Cab),
    Triple (Own v (cabsBlocks cs ++ bl) hs) (freeCabs cs) (fun _ => Own v bl hs) := by
  intro cs
  induction cs with
  | nil => exact fun _ o => o
  | cons c cs ih =>
    rw [freeCabs.eq_2]
    refine Triple.bind ?_ fun _ => Triple.bind (T.free1 c.mem) fun _ => ih
    refine Triple.pre (freeCabStrings_spec c) fun w o => ?_
    exact o.permB (by perm_with [cabsBlocks, List.append_assoc])

/-- the two halves `cabd_close` walks make up the set's cabinets -/
theorem splitCabs_perm (cs : List Cab) (p : Nat) :
    (cabsBlocks (splitCabs cs p).1 ++ cabsBlocks (splitCabs cs p).2).Perm (cabsBlocks cs) := by
  unfold splitCabs
  split
  · dsimp only
    refine (List.Perm.append_right _ (cabsBlocks_reverse _)).trans ?_
    rw [← cabsBlocks_append, List.take_append_drop]
  · exact List.Perm.refl _

theorem splitCabs_nil (cs : List Cab) (p : Nat) : (splitCabs cs p).2 = [] → cabsBlocks cs = [] := by
  unfold splitCabs
  split
  · rename_i h
    intro e
    dsimp only at e
    have : (cs.drop p).length = 0 := by rw [e]; rfl
    rw [List.length_drop] at this
    omega
  · intro e; dsimp only at e; rw [e]; rfl

/-- one round of `while (origcab)`: everything the set owns is given back -/
theorem closeChain_spec (c : Chain) (p : Nat) (d : Option DState) :
    Triple (Own v (c.blocks ++ (dBlocks d ++ bl)) (dHandles d ++ hs)) (closeChain d c p)
      (fun d' => Own v (dBlocks d' ++ bl) (dHandles d' ++ hs)) := by
  unfold closeChain
  refine Triple.bind (R := fun _ => Own v (foldersBlocks c.folders ++ (dBlocks d ++ (cabsBlocks c.cabs ++ bl))) (dHandles d ++ hs))
    ?_ fun _ => ?_
  · refine Triple.pre (freeFiles_spec c.files) fun w o => ?_
    exact o.permB (by perm_with [Chain.blocks])
  · refine Triple.bind (freeFolders_spec c.folders d) fun d' => ?_
    have hsp := splitCabs_perm c.cabs p
    have hnil := splitCabs_nil c.cabs p
    generalize (splitCabs c.cabs p).1 = before at hsp
    generalize (splitCabs c.cabs p).2 = rest at hsp hnil
    cases rest with
    | nil =>
      refine Triple.pure fun w o => ?_
      rw [hnil rfl] at o
      exact o
    | cons o after =>
      dsimp only
      refine Triple.bind ?_ fun _ => Triple.bind (freeCabs_spec (bl := cabsBlocks after ++ (o.mem :: (dBlocks d' ++ bl))) before) fun _ =>
        Triple.bind (freeCabs_spec (bl := o.mem :: (dBlocks d' ++ bl)) after) fun _ => Triple.bind (T.free1 o.mem) fun _ =>
          Triple.pure fun w o => o
      refine Triple.pre (freeCabStrings_spec (bl := cabsBlocks before ++ (cabsBlocks after ++ (o.mem :: (dBlocks d' ++ bl)))) o) fun w ow => ?_
      refine ow.permB ?_
      have h2 : (cabsBlocks before ++ (o.strs ++ o.mem :: cabsBlocks after)).Perm (cabsBlocks c.cabs) := hsp
      refine (List.Perm.append_left (dBlocks d') (List.Perm.append_right bl h2.symm)).trans ?_
      perm_count

def groupBlocks (g : Group) : List Nat := g.flatMap Chain.blocks

theorem groupBlocks_cons (c : Chain) (cs : List Chain) : groupBlocks (c :: cs) = c.blocks ++ groupBlocks cs := by
  simp only [groupBlocks, List.flatMap_cons]

theorem closeChains_spec : ∀ (cs : List Chain) (d : Option DState),
    Triple (Own v (groupBlocks cs ++ (dBlocks d ++ bl)) (dHandles d ++ hs)) (closeChains d cs)
      (fun d' => Own v (dBlocks d' ++ bl) (dHandles d' ++ hs)) := by
  intro cs
  induction cs with
  | nil => intro d; exact fun _ o => o
  | cons c cs ih =>
    intro d
    rw [closeChains.eq_2]
    refine Triple.bind (R := fun d' => Own v (groupBlocks cs ++ (dBlocks d' ++ bl)) (dHandles d' ++ hs)) ?_ fun d' => ih d'
    have h := closeChain_spec (v := v) (bl := groupBlocks cs ++ bl) (hs := hs) c c.anchor d
    exact (h.pre fun w o => o.permB (by rw [groupBlocks_cons]; perm_count)).post fun d' w o => o.permB (by perm_count)

/-- what an API call leaves of the decompressor: the same `self`, and whatever `self->d` now is -/
def InstPost (v : View) (bl : List Nat) (hs : List (Nat × Mode)) (i : Inst) (i' : Inst) (w : World) : Prop :=
  i'.self = i.self ∧ Own v (dBlocks i'.d ++ bl) (dHandles i'.d ++ hs) w

/-- `cabd_close` gives back everything the group owns -/
theorem close_spec (i : Inst) (g : Group) (p : Nat) :
    Triple (Own v (groupBlocks g ++ (dBlocks i.d ++ bl)) (dHandles i.d ++ hs)) (close_ i g p) (InstPost v bl hs i) := by
  unfold close_
  split
  · exact Triple.pure fun w o => ⟨rfl, o⟩
  · rename_i c
    refine Triple.bind (R := fun d' => Own v (dBlocks d' ++ bl) (dHandles d' ++ hs)) ?_ fun d' =>
      Triple.pure fun w o => ⟨rfl, o⟩
    refine (closeChain_spec c p i.d).pre fun w o => o.permB ?_
    rw [groupBlocks_cons]; perm_with [groupBlocks, List.flatMap_nil, List.append_nil]
  · rename_i c cs _
    refine Triple.bind (R := fun d' => Own v (groupBlocks cs ++ (dBlocks d' ++ bl)) (dHandles d' ++ hs)) ?_ fun d' =>
      Triple.bind (closeChains_spec cs d') fun d'' => Triple.pure fun w o => ⟨rfl, o⟩
    have h := closeChain_spec (v := v) (bl := groupBlocks cs ++ bl) (hs := hs) c c.anchor i.d
    exact (h.pre fun w o => o.permB (by rw [groupBlocks_cons]; perm_count)).post fun d' w o => o.permB (by perm_count)

/-! ## `cabd_read_string`, `cabd_read_headers`, `cabd_open` -/

theorem readString_spec (fh : Nat) (pe : Bool) (h : (fh, Mode.read) ∈ hs) :
    Triple (Own v bl hs) (readString fh pe) (fun r => Own v (r.2.toList ++ bl) hs) := by
  unfold readString
  refine Triple.bind (T.tell fh) fun base => ?_
  refine Triple.bind (T.read fh 256 h) fun r => ?_
  cases r with
  | none => exact Triple.pure fun w o => o
  | some buf =>
    dsimp only
    split
    · exact Triple.pure fun w o => o
    · split
      · exact Triple.pure fun w o => o
      · refine Triple.bind (T.seekStart fh _ .read h) fun b => ?_
        split
        · exact Triple.pure fun w o => o
        · refine Triple.bind T.alloc fun a => ?_
          cases a with
          | none => exact Triple.pure fun w o => o
          | some s => exact Triple.pure fun w o => o

theorem readPair_spec (fh : Nat) (h : (fh, Mode.read) ∈ hs) :
    Triple (Own v bl hs) (readPair fh) (fun r => Own v (r.2.1.toList ++ (r.2.2.toList ++ bl)) hs) := by
  unfold readPair
  refine Triple.bind (readString_spec fh false h) fun r1 => ?_
  split
  · exact Triple.pure fun w o => o
  · refine Triple.bind (readString_spec fh true h) fun r2 => ?_
    exact Triple.pure fun w o => o.permB (by perm_count)

theorem pairIf_spec (c : Bool) (fh : Nat) (h : (fh, Mode.read) ∈ hs) :
    Triple (Own v bl hs) (pairIf c fh) (fun r => Own v (r.2.1.toList ++ (r.2.2.toList ++ bl)) hs) := by
  unfold pairIf
  split
  · exact readPair_spec fh h
  · exact Triple.pure fun w o => o

/-- a cabinet struct none of whose strings has been read yet -/
def Cab.fresh (c : Cab) : Prop := c.prevname = none ∧ c.nextname = none ∧ c.previnfo = none ∧ c.nextinfo = none

theorem readStrings_spec (fh flags : Nat) (c : Cab) (hc : c.fresh) (h : (fh, Mode.read) ∈ hs) :
    Triple (Own v bl hs) (readStrings fh flags c) (fun r w => r.2.mem = c.mem ∧ Own v (r.2.strs ++ bl) hs w) := by
  unfold readStrings
  obtain ⟨_, h2, _, h4⟩ := hc
  refine Triple.bind (pairIf_spec _ fh h) fun p => ?_
  split
  · refine Triple.pure fun w o => ⟨rfl, o.permB ?_⟩
    perm_with [Cab.strs, h2, h4, Option.toList_none, List.nil_append, List.append_nil]
  · refine Triple.bind (pairIf_spec _ fh h) fun n => ?_
    refine Triple.pure fun w o => ⟨rfl, o.permB ?_⟩
    perm_with [Cab.strs]

theorem readReserve_spec (fh flags : Nat) (h : (fh, Mode.read) ∈ hs) :
    Triple (Own v bl hs) (readReserve fh flags) (fun _ => Own v bl hs) := by
  unfold readReserve
  split
  · refine Triple.bind (T.read fh _ h) fun r => ?_
    cases r with
    | none => exact Triple.pure fun w o => o
    | some b =>
      dsimp only
      split
      · exact Triple.pure fun w o => o
      · split
        · refine Triple.bind (T.seekCur fh _ .read h) fun r => ?_
          split <;> exact Triple.pure fun w o => o
        · exact Triple.pure fun w o => o
  · exact Triple.pure fun w o => o

theorem skipResv_spec (fh resv : Nat) (h : (fh, Mode.read) ∈ hs) :
    Triple (Own v bl hs) (skipResv fh resv) (fun _ => Own v bl hs) := by
  unfold skipResv
  split
  · exact T.seekCur fh _ .read h
  · exact Triple.pure fun w o => o

theorem readFolders_spec (fh cab : Nat) (cabName : String) (offset resv : Nat) (h : (fh, Mode.read) ∈ hs) :
    ∀ (n : Nat) (acc : List Folder),
      Triple (Own v (foldersBlocks acc ++ bl) hs) (readFolders fh cab cabName offset resv n acc)
        (fun r => Own v (foldersBlocks r.2 ++ bl) hs) := by
  intro n
  induction n with
  | zero => intro acc; rw [readFolders.eq_1]; exact Triple.pure fun w o => o
  | succ n ih =>
    intro acc
    rw [readFolders.eq_2]
    refine Triple.bind (T.read fh _ h) fun r => ?_
    cases r with
    | none => exact Triple.pure fun w o => o
    | some b =>
      dsimp only
      split
      · exact Triple.pure fun w o => o
      · refine Triple.bind (skipResv_spec fh resv h) fun r => ?_
        split
        · exact Triple.pure fun w o => o
        · refine Triple.bind T.alloc fun a => ?_
          cases a with
          | none => exact Triple.pure fun w o => o
          | some m =>
            dsimp only
            refine (ih _).pre fun w o => o.permB ?_
            rw [foldersBlocks_append]
            perm_with [foldersBlocks, partsBlocks, Option.toList_some]

theorem readFiles_spec (fh : Nat) (salvage : Bool) (folders : List Folder) (nf : Nat) (h : (fh, Mode.read) ∈ hs) :
    ∀ (n : Nat) (acc : List FileEnt),
      Triple (Own v (filesBlocks acc ++ bl) hs) (readFiles fh salvage folders nf n acc)
        (fun r => Own v (filesBlocks r.2 ++ bl) hs) := by
  intro n
  induction n with
  | zero => intro acc; rw [readFiles.eq_1]; exact Triple.pure fun w o => o
  | succ n ih =>
    intro acc
    rw [readFiles.eq_2]
    refine Triple.bind (T.read fh _ h) fun r => ?_
    cases r with
    | none => exact Triple.pure fun w o => o
    | some b =>
      dsimp only
      split
      · exact Triple.pure fun w o => o
      · refine Triple.bind T.alloc fun a => ?_
        cases a with
        | none => exact Triple.pure fun w o => o
        | some m =>
          dsimp only
          refine Triple.bind (readString_spec fh false h) fun r => ?_
          generalize resolveFolder folders nf (u16At b Generated.cffileFolderIndex) = fo
          split
          · rename_i nm fo' h1 h2 h3
            refine (ih _).pre fun w o => o.permB ?_
            rw [filesBlocks_append, h3]
            perm_with [filesBlocks, Option.toList_some]
          · refine Triple.bind (T.free r.2) fun _ => ?_
            refine Triple.bind (T.free1 m) fun _ => ?_
            split
            · exact ih acc
            · exact Triple.pure fun w o => o

/-- `cabd_read_headers` after the fixed header: whatever it returns, the ledger has grown by exactly
    what hangs off `*cab` -/
theorem readHeadersBody_spec (fh : Nat) (c : Cab) (hc : c.fresh) (offset : Nat) (salvage : Bool)
    (numFolders numFiles flags : Nat) (h : (fh, Mode.read) ∈ hs) :
    Triple (Own v (c.mem :: bl) hs) (readHeadersBody fh c offset salvage numFolders numFiles flags)
      (fun r => Own v (r.2.blocks ++ bl) hs) := by
  unfold readHeadersBody
  have hfresh : cabsBlocks [c] = [c.mem] := by
    obtain ⟨h1, h2, h3, h4⟩ := hc
    simp only [cabsBlocks, Cab.strs, h1, h2, h3, h4, Option.toList_none, List.append_nil, List.nil_append]
  refine Triple.bind (readReserve_spec fh flags h) fun r => ?_
  split
  · refine Triple.pure fun w o => o.permB ?_
    perm_with [Chain.blocks, filesBlocks, foldersBlocks, hfresh, List.nil_append, List.singleton_append]
  · refine Triple.bind (readStrings_spec fh flags c hc h) fun s => ?_
    have hs1 : ∀ w, (s.2.mem = c.mem ∧ Own v (s.2.strs ++ (c.mem :: bl)) hs w) → Own v (cabsBlocks [s.2] ++ bl) hs w := by
      intro w ⟨e, o⟩
      refine o.permB ?_
      perm_with [cabsBlocks, e]
    split
    · refine Triple.pure fun w o => (hs1 w o).permB ?_
      perm_with [Chain.blocks, filesBlocks, foldersBlocks, List.nil_append]
    · refine Triple.bind (R := fun fo => Own v (foldersBlocks fo.2 ++ (cabsBlocks [s.2] ++ bl)) hs) ?_ fun fo => ?_
      · exact (readFolders_spec fh _ _ _ _ h numFolders []).pre fun w o => hs1 w o
      · split
        · refine Triple.pure fun w o => o.permB ?_
          perm_with [Chain.blocks, filesBlocks, List.nil_append, List.append_assoc]
        · refine Triple.bind (R := fun fi => Own v (filesBlocks fi.2 ++ (foldersBlocks fo.2 ++ (cabsBlocks [s.2] ++ bl))) hs)
            (readFiles_spec fh salvage fo.2 numFolders h numFiles []) fun fi => ?_
          have hfin : ∀ w, Own v (filesBlocks fi.2 ++ (foldersBlocks fo.2 ++ (cabsBlocks [s.2] ++ bl))) hs w →
              Own v (Chain.blocks { cabs := [s.2], folders := fo.2, files := fi.2 } ++ bl) hs w := by
            intro w o
            refine o.permB ?_
            perm_with [Chain.blocks, List.append_assoc]
          split
          · exact Triple.pure hfin
          · split <;> exact Triple.pure hfin

theorem readHeaders_spec (fh : Nat) (c : Cab) (hc : c.fresh) (offset : Nat) (salvage : Bool) (h : (fh, Mode.read) ∈ hs) :
    Triple (Own v (c.mem :: bl) hs) (readHeaders fh c offset salvage) (fun r => Own v (r.2.blocks ++ bl) hs) := by
  unfold readHeaders
  have hfresh : cabsBlocks [c] = [c.mem] := by
    obtain ⟨h1, h2, h3, h4⟩ := hc
    simp only [cabsBlocks, Cab.strs, h1, h2, h3, h4, Option.toList_none, List.append_nil, List.nil_append]
  have hbare : ∀ w, Own v (c.mem :: bl) hs w → Own v (Chain.blocks { cabs := [c] } ++ bl) hs w := by
    intro w o
    refine o.permB ?_
    perm_with [Chain.blocks, filesBlocks, foldersBlocks, hfresh, List.nil_append, List.singleton_append]
  refine Triple.bind (T.seekStart fh offset .read h) fun b => ?_
  split
  · exact Triple.pure hbare
  · refine Triple.bind (T.read fh _ h) fun r => ?_
    cases r with
    | none => exact Triple.pure hbare
    | some buf =>
      dsimp only
      split
      · exact Triple.pure hbare
      · split
        · exact Triple.pure hbare
        · split
          · exact Triple.pure hbare
          · split
            · exact Triple.pure hbare
            · exact readHeadersBody_spec fh c hc offset salvage _ _ _ h

def optChainBlocks : Option Chain → List Nat
  | none => []
  | some c => c.blocks

/-- the postcondition of `open` (and of one candidate of `search`): the cabinet, if one is returned,
    is owned on top of what was there -/
def OpenPost (v : View) (bl : List Nat) (hs : List (Nat × Mode)) (i : Inst) (r : Inst × Option Chain) (w : World) : Prop :=
  r.1.self = i.self ∧ Own v (optChainBlocks r.2 ++ (dBlocks r.1.d ++ bl)) (dHandles r.1.d ++ hs) w

/-- `cabd_open`, every path -/
theorem open_spec (i : Inst) (name : String) :
    Triple (Own v (dBlocks i.d ++ bl) (dHandles i.d ++ hs)) (open_ i name) (OpenPost v bl hs i) := by
  unfold open_
  refine Triple.bind (T.open_ name .read) fun r => ?_
  cases r with
  | none => exact Triple.pure fun w o => ⟨rfl, o⟩
  | some fh =>
    dsimp only
    refine Triple.bind T.alloc fun a => ?_
    cases a with
    | none =>
      dsimp only
      refine Triple.bind (T.close fh .read) fun _ => Triple.pure fun w o => ⟨rfl, o⟩
    | some m =>
      dsimp only
      have hc : Cab.fresh { mem := m, filename := name } := ⟨rfl, rfl, rfl, rfl⟩
      refine Triple.bind (readHeaders_spec fh _ hc 0 i.salvage (List.mem_cons_self ..)) fun r => ?_
      split
      · refine Triple.bind (R := InstPost v bl ((fh, Mode.read) :: hs) i) ?_ fun i' => ?_
        · refine (close_spec (bl := bl) (hs := (fh, Mode.read) :: hs) i [r.2] 0).pre fun w o => ?_
          refine o.perm ?_ ?_
          · rw [groupBlocks_cons]; perm_with [groupBlocks, List.flatMap_nil, List.append_nil]
          · perm_count
        · refine Triple.bind (R := fun _ w => i'.self = i.self ∧ Own v (dBlocks i'.d ++ bl) (dHandles i'.d ++ hs) w) ?_ fun _ =>
            Triple.pure fun w o => o
          intro w ⟨e, o⟩
          exact ⟨e, (o.permH (hs' := (fh, Mode.read) :: (dHandles i'.d ++ hs)) (by perm_count)).close⟩
      · refine Triple.bind (T.close fh .read) fun _ => Triple.pure fun w o => ⟨rfl, o⟩

/-! ## `cabd_extract` -/

theorem nonedInit_spec : Triple (Own v bl hs) nonedInit (fun r => Own v (decBlocks r ++ bl) hs) := by
  unfold nonedInit
  refine Triple.bind T.alloc fun st => Triple.bind T.alloc fun buf => ?_
  cases st <;> cases buf <;> dsimp only
  · exact Triple.bind (T.free _) fun _ => Triple.bind (T.free _) fun _ => Triple.pure fun w o => o
  · exact Triple.bind (T.free _) fun _ => Triple.bind (T.free _) fun _ => Triple.pure fun w o => o
  · exact Triple.bind (T.free _) fun _ => Triple.bind (T.free _) fun _ => Triple.pure fun w o => o
  · exact Triple.pure fun w o => o

theorem mszipdInit_spec (n : Nat) : Triple (Own v bl hs) (mszipdInit n) (fun r => Own v (decBlocks r ++ bl) hs) := by
  unfold mszipdInit
  split
  · exact Triple.pure fun w o => o
  · refine Triple.bind T.alloc fun z => ?_
    cases z with
    | none => exact Triple.pure fun w o => o
    | some z =>
      dsimp only
      refine Triple.bind T.alloc fun b => ?_
      cases b with
      | none => exact Triple.bind (T.free1 z) fun _ => Triple.pure fun w o => o
      | some b => exact Triple.pure fun w o => o

theorem winInit_spec (argsOk : Bool) (method : Nat) (frees : Nat → Nat → Nat → List Nat)
    (hf : ∀ s w b, (frees s w b).Perm [b, w, s]) :
    Triple (Own v bl hs) (winInit argsOk method frees) (fun r => Own v (decBlocks r ++ bl) hs) := by
  unfold winInit
  split
  · exact Triple.pure fun w o => o
  · refine Triple.bind T.alloc fun s => ?_
    cases s with
    | none => exact Triple.pure fun w o => o
    | some s =>
      dsimp only
      have hfail : ∀ (win inb : Option Nat), Triple (Own v (inb.toList ++ (win.toList ++ ((some s).toList ++ bl))) hs)
          (do Sys.free win; Sys.free inb; Sys.free (some s); Pure.pure (none : Option DecState))
          (fun r => Own v (decBlocks r ++ bl) hs) := by
        intro win inb
        refine Triple.bind (R := fun _ => Own v (inb.toList ++ (s :: bl)) hs) ?_ fun _ =>
          Triple.bind (T.free inb) fun _ => Triple.bind (T.free1 s) fun _ => Triple.pure fun w o => o
        exact (T.free (bl := inb.toList ++ (s :: bl)) win).pre fun w o => o.permB (by perm_count)
      refine Triple.bind T.alloc fun win => Triple.bind T.alloc fun inb => ?_
      cases win <;> cases inb <;> dsimp only
      · exact hfail _ _
      · exact hfail _ _
      · exact hfail _ _
      · refine Triple.pure fun w o => o.permB ?_
        rename_i wn ib
        show ((some ib).toList ++ ((some wn).toList ++ ((some s).toList ++ bl))).Perm (frees s wn ib ++ bl)
        exact (List.Perm.append_right bl (hf s wn ib).symm)

theorem initDecomp_spec (bufSize ct : Nat) :
    Triple (Own v bl hs) (initDecomp bufSize ct) (fun r => Own v (decBlocks r.2 ++ bl) hs) := by
  unfold initDecomp
  dsimp only
  split
  · exact Triple.bind nonedInit_spec fun s => Triple.pure fun w o => o
  · split
    · exact Triple.bind (mszipdInit_spec _) fun s => Triple.pure fun w o => o
    · split
      · exact Triple.bind (winInit_spec _ _ _ (fun s w b => by perm_count)) fun s => Triple.pure fun w o => o
      · split
        · exact Triple.bind (winInit_spec _ _ _ (fun s w b => by perm_count)) fun s => Triple.pure fun w o => o
        · exact Triple.pure fun w o => o

/-- "allocate generic decompression state": `self->d` exists afterwards, or there was none and there
    still is none -/
def EnsurePost (v : View) (bl : List Nat) (hs : List (Nat × Mode)) (d : Option DState) (r : Option DState)
    (w : World) : Prop :=
  match r with
  | none => d = none ∧ Own v bl hs w
  | some ds => Own v (dBlocks (some ds) ++ bl) (dHandles (some ds) ++ hs) w

theorem ensureD_spec (d : Option DState) :
    Triple (Own v (dBlocks d ++ bl) (dHandles d ++ hs)) (ensureD d) (EnsurePost v bl hs d) := by
  unfold ensureD
  cases d with
  | some ds => exact Triple.pure fun w o => o
  | none =>
    dsimp only
    refine Triple.bind T.alloc fun a => ?_
    cases a with
    | none => exact Triple.pure fun w o => ⟨rfl, o⟩
    | some m => exact Triple.pure fun w o => o

theorem switchCab_spec (d : DState) (fol : Folder) :
    Triple (Own v bl (dHandles (some d) ++ hs)) (switchCab d fol)
      (fun d1 w => d1.mem = d.mem ∧ d1.state = d.state ∧ Own v bl (dHandles (some d1) ++ hs) w) := by
  unfold switchCab
  split
  · refine Triple.bind (T.closeIf d.infh .read) fun _ => ?_
    refine Triple.bind (T.open_ fol.cabName .read) fun h => ?_
    exact Triple.pure fun w o => ⟨rfl, rfl, o⟩
  · exact Triple.pure fun w o => ⟨rfl, rfl, o⟩

/-- "change folder or reset the current folder": whatever it returns, `*self->d` owns what it says -/
theorem resetFolder_spec (bufSize : Nat) (d : DState) (fol : Folder) :
    Triple (Own v (dBlocks (some d) ++ bl) (dHandles (some d) ++ hs)) (resetFolder bufSize d fol)
      (fun r => Own v (dBlocks (some r.2) ++ bl) (dHandles (some r.2) ++ hs)) := by
  unfold resetFolder
  refine Triple.bind (R := fun _ => Own v (d.mem :: bl) (dHandles (some d) ++ hs)) ?_ fun _ => ?_
  · exact (freeDecomp_spec d.state).pre fun w o => o.permB (by perm_with [dBlocks])
  · refine Triple.bind (switchCab_spec (bl := d.mem :: bl) { d with state := none } fol) fun d1 => ?_
    have hpost : ∀ w, (d1.mem = d.mem ∧ d1.state = none ∧ Own v (d.mem :: bl) (dHandles (some d1) ++ hs) w) →
        Own v (dBlocks (some d1) ++ bl) (dHandles (some d1) ++ hs) w := by
      intro w ⟨e1, e2, o⟩
      refine o.permB ?_
      simp only [dBlocks, e1, e2, decBlocks, List.nil_append, List.singleton_append]
      exact List.Perm.refl _
    cases hfh : d1.infh with
    | none => exact Triple.pure hpost
    | some fh =>
      dsimp only
      have hmem : (fh, Mode.read) ∈ dHandles (some d1) ++ hs := by simp [dHandles, hfh]
      refine Triple.bind (R := fun _ w => d1.mem = d.mem ∧ d1.state = none ∧ Own v (d.mem :: bl) (dHandles (some d1) ++ hs) w) ?_ fun b => ?_
      · intro w ⟨e1, e2, o⟩
        exact ⟨e1, e2, T.seekStart fh fol.offset .read hmem w o⟩
      · split
        · exact Triple.pure hpost
        · refine Triple.bind (R := fun s w => d1.mem = d.mem ∧ d1.state = none ∧
              Own v (decBlocks s.2 ++ (d.mem :: bl)) (dHandles (some d1) ++ hs) w) ?_ fun s => ?_
          · intro w ⟨e1, e2, o⟩
            exact ⟨e1, e2, initDecomp_spec bufSize fol.compType w o⟩
          · cases hs2 : s.2 with
            | none =>
              dsimp only
              exact Triple.pure fun w h => hpost w h
            | some st =>
              dsimp only
              refine Triple.pure fun w ⟨e1, e2, o⟩ => ?_
              dsimp only
              refine o.perm ?_ ?_
              · simp only [dBlocks, decBlocks, e1]; perm_count
              · simp only [dHandles, hfh]; exact List.Perm.refl _

/-- the switch law for the decoder body: it leaves live blocks and the misuse record as they were;
    the live handles too, except that it may have closed the input handle it was given and opened
    another one in its place (or failed to: `none`), which it then reports as `d->infh`.  With
    `d->infh` NULL it touches no handle (the real decoders stay failed once failed). -/
structure Switched (v : View) (old new : Option Nat) (w' : World) : Prop where
  allocs  : w'.view.allocs = v.allocs
  misuse  : w'.view.misuse = v.misuse
  nextId  : v.nextId ≤ w'.view.nextId
  handles : (new = old ∧ w'.view.handles = v.handles) ∨
            (∃ o, old = some o ∧ w'.view.handles = new.toList.map (·, Mode.read) ++ v.handles.filter (·.1 ≠ o) ∧
              ∀ h, new = some h → v.nextId ≤ h ∧ h < w'.view.nextId)

def BodyLaw (body : Body) : Prop :=
  ∀ (a : BodyArgs) (inFh outFh : Option Nat) (w : World), w.view.ok →
    (∀ h, inFh = some h → (h, Mode.read) ∈ w.view.handles) →
    (∀ o, outFh = some o → (o, Mode.write) ∈ w.view.handles) →
    Switched w.view inFh (body a inFh outFh w).1.infh (body a inFh outFh w).2

theorem Own.switched {w w' : World} {old new : Option Nat}
    (o : Own v bl (old.toList.map (·, Mode.read) ++ hs) w) (s : Switched w.view old new w') :
    Own v bl (new.toList.map (·, Mode.read) ++ hs) w' := by
  rcases s.handles with ⟨e, hh⟩ | ⟨fh, e, hh, hfresh⟩
  · subst e
    exact o.step ⟨s.allocs, hh, s.misuse, s.nextId⟩
  · subst e
    obtain ⟨ex, hx, p1, p2, p⟩ := o
    have hmem : (fh, Mode.read) ∈ hx := p2.mem_iff.mpr (by simp)
    have hmemw : (fh, Mode.read) ∈ w.view.handles := by rw [p.handles]; exact List.mem_append_left _ hmem
    have hfil : w.view.handles.filter (·.1 ≠ fh) = hx.erase (fh, Mode.read) ++ v.handles := by
      rw [filter_ne_eq_erase _ fh .read p.ok.handles_nd hmemw, p.handles, List.erase_append_left _ hmem]
    refine ⟨ex, new.toList.map (·, Mode.read) ++ hx.erase (fh, Mode.read), p1, ?_, ?_⟩
    · refine List.Perm.append_left _ ?_
      exact List.Perm.cons_inv ((List.perm_cons_erase hmem).symm.trans p2)
    · refine ⟨s.allocs.trans p.allocs, ?_, s.misuse.trans p.misuse, Nat.le_trans p.nextId s.nextId, ?_⟩
      · rw [hh, hfil, List.append_assoc]
      · refine ⟨?_, ?_, ?_⟩
        · intro a ha; rw [s.allocs] at ha; exact Nat.lt_of_lt_of_le (p.ok.allocs_lt a ha) s.nextId
        · intro h hin
          rw [hh] at hin
          rcases List.mem_append.mp hin with h1 | h1
          · cases hn : new with
            | none => rw [hn] at h1; cases h1
            | some n =>
              rw [hn] at h1
              simp only [Option.toList_some, List.map_cons, List.map_nil, List.mem_singleton] at h1
              rw [h1]; exact (hfresh n hn).2
          · exact Nat.lt_of_lt_of_le (p.ok.handles_lt h (List.mem_filter.mp h1).1) s.nextId
        · rw [hh, List.map_append]
          refine List.nodup_append.mpr ⟨?_, ?_, ?_⟩
          · cases new <;> simp
          · exact List.Nodup.sublist (List.Sublist.map _ List.filter_sublist) p.ok.handles_nd
          · intro a ha b hb
            cases hn : new with
            | none => rw [hn] at ha; simp at ha
            | some n =>
              rw [hn] at ha
              simp only [Option.toList_some, List.map_cons, List.map_nil, List.mem_singleton] at ha
              obtain ⟨y, hy, rfl⟩ := List.mem_map.mp hb
              have := p.ok.handles_lt y (List.mem_filter.mp hy).1
              have := (hfresh n hn).1
              rw [ha]; omega

theorem body_spec {body : Body} (hb : BodyLaw body) (a : BodyArgs) (inFh outFh : Option Nat)
    (hout : ∀ o, outFh = some o → (o, Mode.write) ∈ hs) :
    Triple (Own v bl (inFh.toList.map (·, Mode.read) ++ hs)) (body a inFh outFh)
      (fun r => Own v bl (r.infh.toList.map (·, Mode.read) ++ hs)) := by
  intro w o
  refine o.switched (hb a inFh outFh w o.ok ?_ ?_)
  · intro h e; subst e; exact o.mem_handles (by simp)
  · intro x e; exact o.mem_handles (List.mem_append_right _ (hout x e))

theorem runBody_spec {body : Body} (hb : BodyLaw body) (salvage : Bool) (fol : Folder) (d : DState) (outFh : Nat)
    (skip : Bool) (hout : (outFh, Mode.write) ∈ hs) :
    Triple (Own v bl (dHandles (some d) ++ hs)) (runBody body salvage fol d outFh skip)
      (fun r w => r.2.mem = d.mem ∧ r.2.state = d.state ∧ Own v bl (dHandles (some r.2) ++ hs) w) := by
  unfold runBody
  refine Triple.bind (R := fun r1 => Own v bl (r1.infh.toList.map (·, Mode.read) ++ hs)) ?_ fun r1 => ?_
  · split
    · exact body_spec hb _ d.infh none (fun _ e => nomatch e)
    · exact Triple.pure fun w o => o
  · split
    · exact Triple.pure fun w o => ⟨rfl, rfl, o⟩
    · refine Triple.bind (body_spec hb _ r1.infh (some outFh) (fun x e => by cases e; exact hout)) fun r2 => ?_
      exact Triple.pure fun w o => ⟨rfl, rfl, o⟩

/-- `cabd_extract`: afterwards `self->d` owns what it says and nothing else has changed — the
    output handle is closed again on every path -/
theorem extract_spec {body : Body} (hb : BodyLaw body) (i : Inst) (fol : Folder) (sane rewind empty skip : Bool)
    (out : String) :
    Triple (Own v (dBlocks i.d ++ bl) (dHandles i.d ++ hs)) (extract body i fol sane rewind empty skip out)
      (fun r => InstPost v bl hs i r.1) := by
  unfold extract
  split
  · exact Triple.pure fun w o => ⟨rfl, o⟩
  · refine Triple.bind (ensureD_spec i.d) fun r => ?_
    cases r with
    | none =>
      refine Triple.pure fun w h => ?_
      obtain ⟨e, o⟩ : i.d = none ∧ Own v bl hs w := h
      refine ⟨rfl, ?_⟩
      show Own v (dBlocks i.d ++ bl) (dHandles i.d ++ hs) w
      rw [e]; exact o
    | some d =>
      dsimp only
      refine Triple.bind (R := fun r => Own v (dBlocks (some r.2) ++ bl) (dHandles (some r.2) ++ hs)) ?_ fun r => ?_
      · split
        · exact (resetFolder_spec i.bufSize d fol).pre fun w o => o
        · exact Triple.pure fun w o => o
      · split
        · exact Triple.pure fun w o => ⟨rfl, o⟩
        · refine Triple.bind (T.open_ out .write) fun fh => ?_
          cases fh with
          | none => exact Triple.pure fun w o => ⟨rfl, o⟩
          | some fh =>
            dsimp only
            refine Triple.bind (R := fun e w => e.2.mem = r.2.mem ∧ e.2.state = r.2.state ∧
                Own v (dBlocks (some r.2) ++ bl) (dHandles (some e.2) ++ ((fh, Mode.write) :: hs)) w) ?_ fun e => ?_
            · split
              · refine Triple.pure fun w o => ⟨rfl, rfl, o.permH ?_⟩
                perm_count
              · refine (runBody_spec hb i.salvage fol r.2 fh skip (List.mem_cons_self ..)).pre fun w o => o.permH ?_
                perm_count
            · refine Triple.bind (R := fun _ => Own v (dBlocks (some e.2) ++ bl) (dHandles (some e.2) ++ hs)) ?_ fun _ =>
                Triple.pure fun w o => ⟨rfl, o⟩
              intro w ⟨e1, e2, o⟩
              have hb2 : dBlocks (some e.2) = dBlocks (some r.2) := by simp only [dBlocks, e1, e2]
              rw [hb2]
              exact (o.permH (hs' := (fh, Mode.write) :: (dHandles (some e.2) ++ hs)) (by perm_count)).close

/-! ## `cabd_search`, `cabd_find` -/

theorem Triple.withProp {α} {p : Prop} {P : World → Prop} {x : M α} {Q : α → World → Prop} (h : Triple P x Q) :
    Triple (fun w => p ∧ P w) x (fun a w => p ∧ Q a w) := fun w hw => ⟨hw.1, h w hw.2⟩

theorem groupBlocks_append (a b : List Chain) : groupBlocks (a ++ b) = groupBlocks a ++ groupBlocks b := by
  simp only [groupBlocks, List.flatMap_append]

theorem groupBlocks_toList (c : Option Chain) : groupBlocks c.toList = optChainBlocks c := by
  cases c <;> simp [groupBlocks, optChainBlocks]

theorem groupBlocks_single (c : Chain) : groupBlocks [c] = c.blocks := by
  simp [groupBlocks]

/-- what one candidate leaves: the cabinet if it was read, nothing otherwise (a rejected candidate
    has been closed again) -/
def TryPost (v : View) (bl : List Nat) (hs : List (Nat × Mode)) (i : Inst) (r : Inst × Err × Option Chain) (w : World) : Prop :=
  (r.2.1 ≠ .ok → r.2.2 = none) ∧ r.1.self = i.self ∧
    Own v (optChainBlocks r.2.2 ++ (dBlocks r.1.d ++ bl)) (dHandles r.1.d ++ hs) w

theorem tryCab_spec (i : Inst) (fh : Nat) (name : String) (caboff : Nat) (h : (fh, Mode.read) ∈ hs) :
    Triple (Own v (dBlocks i.d ++ bl) (dHandles i.d ++ hs)) (tryCab i fh name caboff) (TryPost v bl hs i) := by
  unfold tryCab
  refine Triple.bind T.alloc fun a => ?_
  cases a with
  | none => exact Triple.pure fun w o => ⟨fun _ => rfl, rfl, o⟩
  | some m =>
    dsimp only
    have hc : Cab.fresh { mem := m, filename := name } := ⟨rfl, rfl, rfl, rfl⟩
    refine Triple.bind (readHeaders_spec fh _ hc caboff i.salvage (List.mem_append_right _ h)) fun r => ?_
    split
    · refine Triple.bind (R := InstPost v bl hs i) ?_ fun i' => ?_
      · refine (close_spec i [r.2] 0).pre fun w o => o.permB ?_
        rw [groupBlocks_single]
        exact List.Perm.refl _
      · split
        · exact Triple.pure fun w ⟨e, o⟩ => ⟨fun _ => rfl, e, o⟩
        · exact Triple.pure fun w ⟨e, o⟩ => ⟨fun _ => rfl, e, o⟩
    · exact Triple.pure fun w o => ⟨fun hne => absurd rfl hne, rfl, o⟩

/-- what `cabd_find` / `cabd_search` leave: the cabinets they return, on top of what was there -/
def FindPost (v : View) (bl : List Nat) (hs : List (Nat × Mode)) (i : Inst) (i' : Inst) (found : List Chain) (w : World) : Prop :=
  i'.self = i.self ∧ Own v (groupBlocks found ++ (dBlocks i'.d ++ bl)) (dHandles i'.d ++ hs) w

theorem find_spec (fh : Nat) (name : String) (h : (fh, Mode.read) ∈ hs) :
    ∀ (ss : List FindStep) (i : Inst) (acc : List Chain),
      Triple (Own v (groupBlocks acc ++ (dBlocks i.d ++ bl)) (dHandles i.d ++ hs)) (find fh name ss i acc)
        (fun r => FindPost v bl hs i r.1 r.2.2) := by
  intro ss
  induction ss with
  | nil => intro i acc; rw [find.eq_1]; exact Triple.pure fun w o => ⟨rfl, o⟩
  | cons st ss ih =>
    intro i acc
    rw [find.eq_2]
    refine Triple.bind (T.read fh _ (List.mem_append_right _ h)) fun r => ?_
    cases r with
    | none => exact Triple.pure fun w o => ⟨rfl, o⟩
    | some b =>
      dsimp only
      split
      · exact Triple.pure fun w o => ⟨rfl, o⟩
      · split
        · exact ih i acc
        · rename_i hit _
          refine Triple.bind (R := TryPost v (groupBlocks acc ++ bl) hs i) ?_ fun r => ?_
          · split
            · exact (tryCab_spec (bl := groupBlocks acc ++ bl) i fh name hit.caboff h).pre fun w o => o.permB (by perm_count)
            · exact Triple.pure fun w o => ⟨fun _ => rfl, rfl, o.permB (by perm_with [optChainBlocks])⟩
          · have hacc : ∀ w, TryPost v (groupBlocks acc ++ bl) hs i r w →
                r.1.self = i.self ∧ Own v (groupBlocks (acc ++ r.2.2.toList) ++ (dBlocks r.1.d ++ bl)) (dHandles r.1.d ++ hs) w := by
              intro w ⟨_, e, o⟩
              refine ⟨e, o.permB ?_⟩
              rw [groupBlocks_append, groupBlocks_toList]
              perm_count
            split
            · rename_i hne
              refine Triple.pure fun w ⟨hn, e, o⟩ => ⟨e, ?_⟩
              have : r.2.2 = none := hn hne
              rw [this] at o
              exact o.permB (by perm_with [optChainBlocks])
            · split
              · exact Triple.pure hacc
              · refine Triple.bind (R := fun _ w => r.1.self = i.self ∧
                    Own v (groupBlocks (acc ++ r.2.2.toList) ++ (dBlocks r.1.d ++ bl)) (dHandles r.1.d ++ hs) w) ?_ fun sk => ?_
                · intro w hw
                  obtain ⟨e, o⟩ := hacc w hw
                  exact ⟨e, T.seekStart fh _ .read (List.mem_append_right _ h) w o⟩
                · split
                  · exact Triple.pure fun w o => o
                  · intro w ⟨e, o⟩
                    obtain ⟨e2, o2⟩ := ih r.1 _ w o
                    exact ⟨e2.trans e, o2⟩

theorem fileLen_spec (fh : Nat) (h : (fh, Mode.read) ∈ hs) :
    Triple (Own v bl hs) (fileLen fh) (fun _ => Own v bl hs) := by
  unfold fileLen
  refine Triple.bind (T.tell fh) fun cur => Triple.bind (T.seekEnd fh .read h) fun b => ?_
  split
  · exact Triple.pure fun w o => o
  · refine Triple.bind (T.tell fh) fun _ => Triple.bind (T.seekStart fh cur .read h) fun b2 => ?_
    split <;> exact Triple.pure fun w o => o

/-- `cabd_search`: the search buffer and the file handle are given back on every path; the cabinets
    returned are owned on top of what was there -/
theorem search_spec (i : Inst) (name : String) (script : List FindStep) :
    Triple (Own v (dBlocks i.d ++ bl) (dHandles i.d ++ hs)) (search i name script)
      (fun r => FindPost v bl hs i r.1 r.2) := by
  unfold search
  refine Triple.bind T.alloc fun a => ?_
  cases a with
  | none => exact Triple.pure fun w o => ⟨rfl, o⟩
  | some buf =>
    dsimp only
    refine Triple.bind (T.open_ name .read) fun fh => ?_
    cases fh with
    | none => exact Triple.bind (T.free1 buf) fun _ => Triple.pure fun w o => ⟨rfl, o⟩
    | some fh =>
      dsimp only
      refine Triple.bind (fileLen_spec fh (List.mem_cons_self ..)) fun e => ?_
      refine Triple.bind (R := fun r => FindPost v (buf :: bl) ((fh, Mode.read) :: hs) i r.1 r.2.2) ?_ fun r => ?_
      · split
        · refine Triple.pure fun w o => ⟨rfl, o.perm ?_ ?_⟩
          · perm_with [groupBlocks, List.flatMap_nil]
          · perm_count
        · refine (find_spec (bl := buf :: bl) (hs := (fh, Mode.read) :: hs) fh name (List.mem_cons_self ..) script i []).pre
            fun w o => o.perm ?_ ?_
          · perm_with [groupBlocks, List.flatMap_nil]
          · perm_count
      · refine Triple.bind (R := fun _ w => r.1.self = i.self ∧
            Own v (buf :: (groupBlocks r.2.2 ++ (dBlocks r.1.d ++ bl))) (dHandles r.1.d ++ hs) w) ?_ fun _ => ?_
        · intro w ⟨e1, o⟩
          refine ⟨e1, ?_⟩
          exact (o.perm (bl' := buf :: (groupBlocks r.2.2 ++ (dBlocks r.1.d ++ bl)))
            (hs' := (fh, Mode.read) :: (dHandles r.1.d ++ hs)) (by perm_count) (by perm_count)).close
        · refine Triple.bind (R := fun _ w => r.1.self = i.self ∧
              Own v (groupBlocks r.2.2 ++ (dBlocks r.1.d ++ bl)) (dHandles r.1.d ++ hs) w) ?_ fun _ =>
            Triple.pure fun w o => o
          exact fun w ⟨e1, o⟩ => ⟨e1, o.free⟩

/-! ## `cabd_merge` -/

theorem delFiles_spec (rfol : Nat) : ∀ (fs : List FileEnt),
    Triple (Own v (filesBlocks fs ++ bl) hs) (delFiles rfol fs) (fun kept => Own v (filesBlocks kept ++ bl) hs) := by
  intro fs
  induction fs generalizing bl with
  | nil => exact Triple.pure fun w o => o
  | cons f fs ih =>
    rw [delFiles.eq_2]
    split
    · exact Triple.bind (T.free1 f.name) fun _ => Triple.bind (T.free1 f.mem) fun _ => ih
    · refine Triple.bind (R := fun rest => Own v (filesBlocks rest ++ (f.name :: f.mem :: bl)) hs) ?_ fun rest => ?_
      · exact (ih (bl := f.name :: f.mem :: bl)).pre fun w o => o.permB (by perm_with [filesBlocks])
      · exact Triple.pure fun w o => o.permB (by perm_with [filesBlocks])

theorem dropLast_getLast? {α} : ∀ (l : List α) (x : α), l.getLast? = some x → l.dropLast ++ [x] = l
  | [], _, h => by cases h
  | [a], x, h => by
    simp only [List.getLast?_singleton, Option.some.injEq] at h
    subst h; rfl
  | a :: b :: l, x, h => by
    rw [List.getLast?_cons_cons] at h
    rw [List.dropLast_cons_cons, List.cons_append, dropLast_getLast? (b :: l) x h]

/-- `cabd_merge`: nothing changed, or the joined set owns what the two sets owned, plus the new data
    part, minus the disused folder and the duplicate file entries -/
def MergePost (v : View) (bl : List Nat) (hs : List (Nat × Mode)) (l r : Chain) (m : Err × Option Chain) (w : World) : Prop :=
  match m.2 with
  | none => Own v (l.blocks ++ (r.blocks ++ bl)) hs w
  | some j => Own v (j.blocks ++ bl) hs w

theorem merge_spec (l r : Chain) (k : MergeKind) :
    Triple (Own v (l.blocks ++ (r.blocks ++ bl)) hs) (merge l r k) (MergePost v bl hs l r) := by
  cases k with
  | plain =>
    refine Triple.pure fun w o => ?_
    show Own v (Chain.blocks _ ++ bl) hs w
    exact o.permB (by perm_with [Chain.blocks, filesBlocks_append, foldersBlocks_append, cabsBlocks_append])
  | refuse => exact Triple.pure fun w o => o
  | folders =>
    unfold merge
    dsimp only
    split
    · rename_i lfol rfol rrest hl hr
      have hdl := dropLast_getLast? l.folders lfol hl
      generalize l.folders.dropLast = pre at hdl
      refine Triple.bind T.alloc fun a => ?_
      cases a with
      | none => exact Triple.pure fun w o => o
      | some data =>
        dsimp only
        refine Triple.bind (R := fun _ => Own v (filesBlocks (l.files ++ r.files) ++
            (foldersBlocks pre ++ (partsBlocks lfol.parts ++ (data :: (partsBlocks rfol.parts ++ (lfol.mem ::
              (foldersBlocks rrest ++ (cabsBlocks l.cabs ++ (cabsBlocks r.cabs ++ bl))))))))) hs) ?_ fun _ => ?_
        · refine (T.free1 rfol.mem).pre fun w o => o.permB ?_
          simp only [Chain.blocks, ← hdl, hr, foldersBlocks_append, filesBlocks_append, foldersBlocks, Option.toList_some]
          perm_count
        · refine Triple.bind (delFiles_spec rfol.mem _) fun kept => ?_
          refine Triple.pure fun w o => ?_
          show Own v (Chain.blocks _ ++ bl) hs w
          refine o.permB ?_
          simp only [Chain.blocks, foldersBlocks_append, cabsBlocks_append, partsBlocks_append, foldersBlocks, partsBlocks]
          perm_count
    · exact Triple.pure fun w o => o

/-! ## client programs -/

def groupsBlocks (gs : List Group) : List Nat := gs.flatMap groupBlocks

/-- the session invariant: the decompressor, `self->d` with its handle and decoder, and every group
    the client holds are owned; nothing else is -/
def SessInv (v : View) (s : Sess) (w : World) : Prop :=
  Own v (groupsBlocks s.groups ++ (dBlocks s.inst.d ++ [s.inst.self])) (dHandles s.inst.d ++ []) w

theorem flatMap_eraseIdx_perm {α β} (f : α → List β) : ∀ (l : List α) (i : Nat) (x : α), l[i]? = some x →
    (l.flatMap f).Perm (f x ++ (l.eraseIdx i).flatMap f)
  | [], i, x, h => by simp at h
  | a :: as, 0, x, h => by
    simp only [List.getElem?_cons_zero, Option.some.injEq] at h
    subst h
    simp only [List.flatMap_cons, List.eraseIdx_cons_zero]
    exact List.Perm.refl _
  | a :: as, i + 1, x, h => by
    simp only [List.getElem?_cons_succ] at h
    simp only [List.flatMap_cons, List.eraseIdx_cons_succ]
    exact (List.Perm.append_left (f a) (flatMap_eraseIdx_perm f as i x h)).trans (List.perm_append_comm_assoc _ _ _)

theorem flatMap_set_perm {α β} (f : α → List β) (y : α) : ∀ (l : List α) (i : Nat) (x : α), l[i]? = some x →
    ((l.set i y).flatMap f).Perm (f y ++ (l.eraseIdx i).flatMap f)
  | [], i, x, h => by simp at h
  | a :: as, 0, x, h => by
    simp only [List.set_cons_zero, List.flatMap_cons, List.eraseIdx_cons_zero]
    exact List.Perm.refl _
  | a :: as, i + 1, x, h => by
    simp only [List.getElem?_cons_succ] at h
    simp only [List.set_cons_succ, List.flatMap_cons, List.eraseIdx_cons_succ]
    exact (List.Perm.append_left (f a) (flatMap_set_perm f y as i x h)).trans (List.perm_append_comm_assoc _ _ _)

theorem dropTwo_perm (gs : List Group) (a b : Nat) (x y : Group) (hx : gs[a]? = some x) (hy : gs[b]? = some y)
    (hab : a ≠ b) : (groupsBlocks gs).Perm (groupBlocks x ++ (groupBlocks y ++ groupsBlocks (dropTwo gs a b))) := by
  unfold dropTwo groupsBlocks
  split
  · rename_i hlt
    have h1 := flatMap_eraseIdx_perm groupBlocks gs b y hy
    have hx' : (gs.eraseIdx b)[a]? = some x := by rw [List.getElem?_eraseIdx_of_lt hlt]; exact hx
    have h2 := flatMap_eraseIdx_perm groupBlocks _ a x hx'
    exact (h1.trans (List.Perm.append_left _ h2)).trans (List.perm_append_comm_assoc _ _ _)
  · have hlt : b < a := by omega
    have h1 := flatMap_eraseIdx_perm groupBlocks gs a x hx
    have hy' : (gs.eraseIdx a)[b]? = some y := by rw [List.getElem?_eraseIdx_of_lt hlt]; exact hy
    have h2 := flatMap_eraseIdx_perm groupBlocks _ b y hy'
    exact h1.trans (List.Perm.append_left _ h2)

theorem single_erase (g : Group) (c : Nat) (x : Chain) (hl : g.length = 1) (hc : g[c]? = some x) :
    groupBlocks (g.eraseIdx c) = [] := by
  match g, c, hl, hc with
  | [y], 0, _, _ => rfl
  | [y], c + 1, _, hc => simp at hc

theorem runJoin_spec (s : Sess) (gl cl gr cr : Nat) (kind : MergeKind) :
    Triple (SessInv v s) (runJoin s gl cl gr cr kind) (fun s' => SessInv v s') := by
  unfold runJoin
  split
  · rename_i grpL grpR hL hR
    split
    · rename_i l r hl hr
      split
      · exact Triple.pure fun w o => o
      · rename_i hcond
        have hne : gl ≠ gr := fun e => hcond (Or.inl e)
        -- everything the session owns, with the two sets singled out
        have hsplit : (groupsBlocks s.groups).Perm (l.blocks ++ (r.blocks ++ (groupBlocks (grpL.eraseIdx cl) ++
            (groupBlocks (grpR.eraseIdx cr) ++ groupsBlocks (dropTwo s.groups gl gr))))) := by
          have h0 := dropTwo_perm s.groups gl gr grpL grpR hL hR hne
          have h1 : (groupBlocks grpL).Perm (l.blocks ++ groupBlocks (grpL.eraseIdx cl)) :=
            flatMap_eraseIdx_perm Chain.blocks grpL cl l hl
          have h2 : (groupBlocks grpR).Perm (r.blocks ++ groupBlocks (grpR.eraseIdx cr)) :=
            flatMap_eraseIdx_perm Chain.blocks grpR cr r hr
          refine h0.trans ((List.Perm.append h1 (List.Perm.append_right _ h2)).trans ?_)
          perm_count
        refine Triple.bind (R := MergePost v (groupBlocks (grpL.eraseIdx cl) ++
            (groupBlocks (grpR.eraseIdx cr) ++ (groupsBlocks (dropTwo s.groups gl gr) ++
              (dBlocks s.inst.d ++ [s.inst.self])))) (dHandles s.inst.d ++ []) l r) ?_ fun m => ?_
        · refine (merge_spec l r kind).pre fun w o => o.permB ?_
          refine (List.Perm.append_right _ hsplit).trans ?_
          perm_count
        · cases hm : m.2 with
          | none =>
            dsimp only
            have hown : ∀ w, MergePost v (groupBlocks (grpL.eraseIdx cl) ++
                (groupBlocks (grpR.eraseIdx cr) ++ (groupsBlocks (dropTwo s.groups gl gr) ++
                  (dBlocks s.inst.d ++ [s.inst.self])))) (dHandles s.inst.d ++ []) l r m w →
                Own v (l.blocks ++ (r.blocks ++ (groupBlocks (grpL.eraseIdx cl) ++
                (groupBlocks (grpR.eraseIdx cr) ++ (groupsBlocks (dropTwo s.groups gl gr) ++
                  (dBlocks s.inst.d ++ [s.inst.self])))))) (dHandles s.inst.d ++ []) w := by
              intro w o; unfold MergePost at o; rw [hm] at o; exact o
            refine Triple.pure fun w o => ?_
            refine (hown w o).permB ?_
            refine List.Perm.trans ?_ (List.Perm.append_right _ hsplit.symm)
            perm_count
          | some j =>
            dsimp only
            have hown : ∀ w, MergePost v (groupBlocks (grpL.eraseIdx cl) ++
                (groupBlocks (grpR.eraseIdx cr) ++ (groupsBlocks (dropTwo s.groups gl gr) ++
                  (dBlocks s.inst.d ++ [s.inst.self])))) (dHandles s.inst.d ++ []) l r m w →
                Own v (j.blocks ++ (groupBlocks (grpL.eraseIdx cl) ++
                (groupBlocks (grpR.eraseIdx cr) ++ (groupsBlocks (dropTwo s.groups gl gr) ++
                  (dBlocks s.inst.d ++ [s.inst.self]))))) (dHandles s.inst.d ++ []) w := by
              intro w o; unfold MergePost at o; rw [hm] at o; exact o
            split
            · rename_i h1
              refine Triple.pure fun w o => ?_
              have o' := hown w o
              rw [single_erase grpR cr r h1 hr] at o'
              refine o'.permB ?_
              have hset := flatMap_set_perm Chain.blocks { j with anchor := l.anchor } grpL cl l hl
              show (_ : List Nat).Perm (groupsBlocks (grpL.set cl { j with anchor := l.anchor } :: dropTwo s.groups gl gr) ++ _)
              simp only [groupsBlocks, List.flatMap_cons]
              refine List.Perm.trans ?_ (List.Perm.append_right _ (List.Perm.append_right _ hset.symm))
              show (_ : List Nat).Perm ((j.blocks ++ groupBlocks (grpL.eraseIdx cl)) ++ _ ++ _)
              perm_count
            · rename_i h1
              have hL1 : grpL.length = 1 := by
                apply Classical.byContradiction
                intro hcon
                exact hcond (Or.inr ⟨hcon, h1⟩)
              refine Triple.pure fun w o => ?_
              have o' := hown w o
              rw [single_erase grpL cl l hL1 hl] at o'
              refine o'.permB ?_
              have hset := flatMap_set_perm Chain.blocks { j with anchor := l.cabs.length + r.anchor } grpR cr r hr
              show (_ : List Nat).Perm (groupsBlocks (grpR.set cr { j with anchor := l.cabs.length + r.anchor } :: dropTwo s.groups gl gr) ++ _)
              simp only [groupsBlocks, List.flatMap_cons]
              refine List.Perm.trans ?_ (List.Perm.append_right _ (List.Perm.append_right _ hset.symm))
              show (_ : List Nat).Perm ((j.blocks ++ groupBlocks (grpR.eraseIdx cr)) ++ _ ++ _)
              perm_count
    · exact Triple.pure fun w o => o
  · exact Triple.pure fun w o => o

theorem runOp_spec {body : Body} (hb : BodyLaw body) (s : Sess) (op : Op) :
    Triple (SessInv v s) (runOp body s op) (fun s' => SessInv v s') := by
  cases op with
  | open_ name =>
    rw [runOp.eq_1]
    refine Triple.bind (R := OpenPost v (groupsBlocks s.groups ++ [s.inst.self]) [] s.inst) ?_ fun r => ?_
    · exact (open_spec s.inst name).pre fun w o => o.permB (by perm_count)
    · cases hr : r.2 with
      | none =>
        dsimp only
        refine Triple.pure fun w ⟨e, o⟩ => ?_
        rw [hr] at o
        show Own v (groupsBlocks s.groups ++ (dBlocks r.1.d ++ [r.1.self])) _ w
        rw [e]
        exact o.permB (by perm_with [optChainBlocks])
      | some c =>
        dsimp only
        refine Triple.pure fun w ⟨e, o⟩ => ?_
        rw [hr] at o
        show Own v (groupsBlocks ([c] :: s.groups) ++ (dBlocks r.1.d ++ [r.1.self])) _ w
        rw [e]
        exact o.permB (by perm_with [optChainBlocks, groupsBlocks, List.flatMap_cons, groupBlocks, List.flatMap_nil])
  | search name script =>
    rw [runOp.eq_2]
    refine Triple.bind (R := fun r => FindPost v (groupsBlocks s.groups ++ [s.inst.self]) [] s.inst r.1 r.2) ?_ fun r => ?_
    · exact (search_spec s.inst name script).pre fun w o => o.permB (by perm_count)
    · refine Triple.pure fun w ⟨e, o⟩ => ?_
      show Own v (groupsBlocks (if r.2.isEmpty = true then s.groups else r.2 :: s.groups) ++ (dBlocks r.1.d ++ [r.1.self])) _ w
      rw [e]
      split
      · rename_i hemp
        have : r.2 = [] := List.isEmpty_iff.mp hemp
        rw [this] at o
        exact o.permB (by perm_with [groupBlocks, List.flatMap_nil])
      · exact o.permB (by perm_with [groupsBlocks, List.flatMap_cons])
  | close g p =>
    rw [runOp.eq_3]
    split
    · exact Triple.pure fun w o => o
    · rename_i grp hg
      have hp := flatMap_eraseIdx_perm groupBlocks s.groups g grp hg
      refine Triple.bind (R := InstPost v (groupsBlocks (s.groups.eraseIdx g) ++ [s.inst.self]) [] s.inst) ?_ fun i => ?_
      · refine (close_spec s.inst grp p).pre fun w o => o.permB ?_
        refine (List.Perm.append_right _ hp).trans ?_
        perm_with [groupsBlocks]
      · refine Triple.pure fun w ⟨e, o⟩ => ?_
        show Own v (groupsBlocks (s.groups.eraseIdx g) ++ (dBlocks i.d ++ [i.self])) _ w
        rw [e]
        exact o.permB (by perm_count)
  | extract g c f sane rewind empty skip out =>
    rw [runOp.eq_4]
    split
    · exact Triple.pure fun w o => o
    · rename_i fol _
      refine Triple.bind (R := fun r => InstPost v (groupsBlocks s.groups ++ [s.inst.self]) [] s.inst r.1) ?_ fun r => ?_
      · exact (extract_spec hb s.inst fol sane rewind empty skip out).pre fun w o => o.permB (by perm_count)
      · refine Triple.pure fun w ⟨e, o⟩ => ?_
        show Own v (groupsBlocks s.groups ++ (dBlocks r.1.d ++ [r.1.self])) _ w
        rw [e]
        exact o.permB (by perm_count)
  | join gl cl gr cr kind => rw [runOp.eq_5]; exact runJoin_spec s gl cl gr cr kind
  | setParam b sv => rw [runOp.eq_6]; exact Triple.pure fun w o => o

theorem runOps_spec {body : Body} (hb : BodyLaw body) : ∀ (ops : List Op) (s : Sess),
    Triple (SessInv v s) (runOps body ops s) (fun s' => SessInv v s') := by
  intro ops
  induction ops with
  | nil => intro s; exact Triple.pure fun w o => o
  | cons op ops ih =>
    intro s
    rw [runOps.eq_2]
    exact Triple.bind (runOp_spec hb s op) fun s' => ih s'

theorem closeAll_spec : ∀ (gs : List Group) (i : Inst),
    Triple (Own v (groupsBlocks gs ++ (dBlocks i.d ++ bl)) (dHandles i.d ++ hs)) (closeAll i gs) (InstPost v bl hs i) := by
  intro gs
  induction gs with
  | nil => intro i; exact Triple.pure fun w o => ⟨rfl, o⟩
  | cons g gs ih =>
    intro i
    rw [closeAll.eq_2]
    refine Triple.bind (R := InstPost v (groupsBlocks gs ++ bl) hs i) ?_ fun i' => ?_
    · refine (close_spec i g _).pre fun w o => o.permB ?_
      perm_with [groupsBlocks, List.flatMap_cons]
    · intro w ⟨e, o⟩
      obtain ⟨e2, o2⟩ := ih i' w (o.permB (by perm_count))
      exact ⟨e2.trans e, o2⟩

theorem destroy_spec (i : Inst) :
    Triple (Own v (dBlocks i.d ++ (i.self :: bl)) (dHandles i.d ++ hs)) (destroy i) (fun _ => Own v bl hs) := by
  unfold destroy
  refine Triple.bind (R := fun _ => Own v (i.self :: bl) hs) ?_ fun _ => T.free1 i.self
  cases i.d with
  | none => exact Triple.pure fun w o => o
  | some d => exact dropD_spec d

end

end MsPack.Cab.Api
