import MsPack.Cab.Extract
namespace MsPack.Cab
open MsPack

/-- the number of loop iterations `cabd_sys_read` can still need -/
def feederMeasure (fd : Feeder) : Nat :=
  2 * (fd.numBlocks - fd.block) + (if fd.buf ≠ [] then 1 else 0)

theorem readBlock_no_hang (files : Files) (ic ib : Bool) : ∀ (fuel : Nat) (rd : Option Rd) (parts : List Part)
    (acc : Bytes), readBlock files ic ib fuel rd parts acc ≠ .fault .hang := by
  intro fuel
  induction fuel with
  | zero => intro rd parts acc; simp [readBlock]
  | succ fuel ih =>
    intro rd parts acc
    unfold readBlock
    split
    · simp
    · simp
    · split
      · simp
      · simp only
        split
        · simp
        · split
          · simp
          · split
            · simp
            · split
              · simp
              · split
                · simp
                · split
                  · simp
                  · split
                    · simp
                    · split
                      · simp
                      · exact ih _ _ _

theorem feederRead_terminates (files : Files) : ∀ (fuel : Nat) (fd : Feeder) (todo : Nat) (got : Bytes),
    (feederMeasure fd + 1 ≤ fuel ∨ (todo = 0 ∧ 1 ≤ fuel)) →
    feederRead files fuel fd todo got ≠ .error .hang := by
  intro fuel
  induction fuel with
  | zero => intro fd todo got h; omega
  | succ fuel ih =>
    intro fd todo got h
    unfold feederRead
    by_cases ht : todo = 0
    · simp [ht]
    · rw [if_neg ht]
      have hm : feederMeasure fd + 1 ≤ fuel + 1 := by
        rcases h with h | h
        · exact h
        · exact absurd h.1 ht
      by_cases hb : fd.buf ≠ []
      · rw [if_pos hb]
        apply ih
        -- after the copy either the buffer is empty or the request is complete
        by_cases hl : todo < fd.buf.length
        · right
          constructor
          · simp [List.length_take]; omega
          · unfold feederMeasure at hm; simp [hb] at hm; omega
        · left
          unfold feederMeasure at hm ⊢
          have : fd.buf.drop todo = [] := List.drop_eq_nil_of_le (by omega)
          simp [this, hb] at hm ⊢; omega
      · rw [if_neg hb]
        simp only
        split
        · simp
        · rename_i hblk
          split
          · rename_i f hrb
            intro hc
            simp only [Except.error.injEq] at hc
            subst hc
            exact readBlock_no_hang _ _ _ _ _ _ _ hrb
          · simp
          · apply ih
            left
            simp only [Decidable.not_not] at hb
            have h1 : feederMeasure fd = 2 * (fd.numBlocks - fd.block) := by
              unfold feederMeasure; simp [hb]
            rw [h1] at hm
            have key : ∀ fd' : Feeder, fd'.numBlocks = fd.numBlocks → fd'.block = fd.block + 1 →
                feederMeasure fd' + 1 ≤ fuel := by
              intro fd' h1 h2; unfold feederMeasure; rw [h1, h2]; split <;> omega
            apply key <;> (split <;> rfl)

end MsPack.Cab
