import MsPack.Huff
/-!
The canonical decoder reports a code length between 1 and the number of bits it was given: a
decoded symbol always consumes at least one bit (used by the termination measures of the bit-level
decoders, `Proofs/Lemmas/LoopTerm*.lean`).
-/
namespace MsPack.Huff

theorem decode_go_len (c : Canon) : ∀ (fuel l code : Nat) (bits : List Bool) (sym len : Nat),
    decode.go c l fuel code bits = some (sym, len) → l ≤ len ∧ len + 1 ≤ l + bits.length := by
  intro fuel
  induction fuel with
  | zero => intro l code bits sym len h; simp [decode.go] at h
  | succ fuel ih =>
    intro l code bits sym len h
    cases bits with
    | nil => simp [decode.go] at h
    | cons b rest =>
      rw [decode.go] at h
      generalize (code * 2 + (if b = true then 1 else 0)) = code' at h
      split at h
      · simp only [Option.some.injEq, Prod.mk.injEq] at h
        simp only [List.length_cons]
        omega
      · have := ih _ _ _ _ _ h
        simp only [List.length_cons]
        omega

/-- a decoded symbol has a code length of at least one bit and at most the bits offered -/
theorem decode_len (c : Canon) (bits : List Bool) (sym len : Nat) (h : decode c bits = some (sym, len)) :
    1 ≤ len ∧ len ≤ bits.length := by
  have := decode_go_len c _ _ _ _ _ _ h
  omega

end MsPack.Huff
