import MsPack.Cabx.OutName
/-
Lemmas about the sanitising passes of `create_output_name` (model: MsPack/Cabx/OutName.lean).
-/
namespace MsPack.Cabx
open MsPack

/-! ### "../" and "..\" -/

/-- the list starts with `.` `.` and a slash of either kind -/
def startsDDS : Bytes → Bool
  | a :: b :: c :: _ => a == 0x2E && b == 0x2E && isSlash c
  | _ => false

/-- `.` `.` slash occurs somewhere -/
def hasDDS : Bytes → Bool
  | [] => false
  | a :: rest => startsDDS (a :: rest) || hasDDS rest

theorem hasDDS_append (pre : Bytes) (c : UInt8) (post : Bytes) (hc : isSlash c = true) :
    hasDDS (pre ++ 0x2E :: 0x2E :: c :: post) = true := by
  induction pre with
  | nil => simp [hasDDS, startsDDS, hc]
  | cons a pre ih => simp [hasDDS, ih]

theorem isSlash_x : isSlash 0x78 = false := by decide
theorem isSlash_dot : isSlash 0x2E = false := by decide

theorem ne_dot_of_isSlash {c : UInt8} (h : isSlash c = true) : c ≠ 0x2E := by
  intro e; subst e; simp [isSlash_dot] at h

theorem startsDDS_cons_ne {a : UInt8} (h : a ≠ 0x2E) (t : Bytes) : startsDDS (a :: t) = false := by
  match t with
  | [] => rfl
  | [_] => rfl
  | _ :: _ :: _ => simp [startsDDS, h]

/-- the first byte of the result is the first byte of the input or an `x` -/
theorem replaceDotDot_head (c : UInt8) (rest : Bytes) :
    ∃ t, replaceDotDot (c :: rest) = c :: t ∨ replaceDotDot (c :: rest) = 0x78 :: t := by
  match rest with
  | [] => exact ⟨[], Or.inl (by simp [replaceDotDot])⟩
  | [b] => exact ⟨[b], Or.inl (by simp [replaceDotDot])⟩
  | b :: d :: r =>
    by_cases h : c = 0x2E ∧ b = 0x2E ∧ isSlash d = true
    · exact ⟨_, Or.inr (by rw [replaceDotDot, if_pos h])⟩
    · exact ⟨_, Or.inl (by rw [replaceDotDot, if_neg h])⟩

/-- replacing does not create a match together with the byte before -/
theorem startsDDS_cons_replace (a : UInt8) (s : Bytes)
    (h : startsDDS (a :: replaceDotDot s) = true) : startsDDS (a :: s) = true := by
  match s with
  | [] => simpa [replaceDotDot] using h
  | [b] => simpa [replaceDotDot] using h
  | [b, c] => simpa [replaceDotDot] using h
  | b :: c :: d :: rest =>
    by_cases hm : b = 0x2E ∧ c = 0x2E ∧ isSlash d = true
    · rw [replaceDotDot, if_pos hm] at h
      simp [startsDDS] at h
    · rw [replaceDotDot, if_neg hm] at h
      obtain ⟨t, ht | ht⟩ := replaceDotDot_head c (d :: rest)
      · rw [ht] at h
        simpa [startsDDS] using h
      · rw [ht] at h
        simp [startsDDS, isSlash_x] at h

theorem hasDDS_replaceDotDot (s : Bytes) : hasDDS (replaceDotDot s) = false := by
  fun_induction replaceDotDot s with
  | case1 a b c rest hm ih =>
    have hc : c ≠ 0x2E := ne_dot_of_isSlash hm.2.2
    have hx : (0x78 : UInt8) ≠ 0x2E := by decide
    simp [hasDDS, startsDDS_cons_ne hx, startsDDS_cons_ne hc, ih]
  | case2 a b c rest hm ih =>
    have : startsDDS (a :: replaceDotDot (b :: c :: rest)) = false := by
      cases hs : startsDDS (a :: replaceDotDot (b :: c :: rest)) with
      | false => rfl
      | true =>
        have := startsDDS_cons_replace a _ hs
        simp [startsDDS] at this
        exact absurd ⟨this.1.1, this.1.2, this.2⟩ hm
    simp [hasDDS, this, ih]
  | case3 a rest hne ih =>
    have : startsDDS (a :: replaceDotDot rest) = false := by
      cases hs : startsDDS (a :: replaceDotDot rest) with
      | false => rfl
      | true =>
        have h2 := startsDDS_cons_replace a _ hs
        match rest, hne with
        | [], _ => simp [startsDDS] at h2
        | [b], _ => simp [startsDDS] at h2
        | b :: c :: r, hne => exact absurd rfl (hne b c r)
    simp [hasDDS, this, ih]
  | case4 => simp [hasDDS]

/-- the public form: no decomposition `pre ++ ".." ++ slash ++ post` -/
theorem no_dotdot_slash_of_hasDDS {s : Bytes} (h : hasDDS s = false) :
    ∀ (pre post : Bytes) (c : UInt8), isSlash c = true → s ≠ pre ++ 0x2E :: 0x2E :: c :: post := by
  intro pre post c hc e
  rw [e, hasDDS_append pre c post hc] at h
  cases h

/-! ### leading slashes -/

/-- the name does not start with a slash of either kind -/
def NoLeadSlash (s : Bytes) : Prop := ∀ c t, s = c :: t → isSlash c = false

theorem head_dropWhile_isSlash (s : Bytes) : NoLeadSlash (s.dropWhile isSlash) := by
  induction s with
  | nil => intro c t h; cases h
  | cons a s ih =>
    intro c t h
    by_cases ha : isSlash a = true
    · rw [List.dropWhile_cons_of_pos ha] at h; exact ih c t h
    · rw [List.dropWhile_cons_of_neg ha] at h
      cases h; simpa using ha

theorem stripLeading_noLead (s : Bytes) : NoLeadSlash (stripLeading s) := by
  unfold stripLeading
  match s with
  | [] => intro c t h; cases h
  | a :: r =>
    by_cases ha : isSlash a = true
    · simp only [ha, if_true]
      have hd := head_dropWhile_isSlash (a :: r)
      split
      · intro c t h; cases h; exact isSlash_x
      · exact hd
    · simp only [ha]
      intro c t h; cases h; simpa using ha

theorem replaceDotDot_noLead {s : Bytes} (h : NoLeadSlash s) : NoLeadSlash (replaceDotDot s) := by
  match s with
  | [] => intro c t e; simp [replaceDotDot] at e
  | a :: r =>
    obtain ⟨t', ht | ht⟩ := replaceDotDot_head a r
    · intro c t e; rw [ht] at e; cases e; exact h a r rfl
    · intro c t e; rw [ht] at e; cases e; exact isSlash_x

theorem sanitize_noLead (s : Bytes) : NoLeadSlash (sanitize s) :=
  replaceDotDot_noLead (stripLeading_noLead s)

theorem sanitize_noDDS (s : Bytes) : hasDDS (sanitize s) = false := hasDDS_replaceDotDot _

/-! ### NUL bytes -/

theorem mem_dropWhile {p : UInt8 → Bool} {s : Bytes} {b : UInt8} (h : b ∈ s.dropWhile p) : b ∈ s := by
  induction s with
  | nil => simp at h
  | cons a s ih =>
    by_cases ha : p a = true
    · rw [List.dropWhile_cons_of_pos ha] at h; exact List.mem_cons_of_mem _ (ih h)
    · rw [List.dropWhile_cons_of_neg ha] at h; exact h

theorem stripLeading_mem {s : Bytes} {b : UInt8} (h : b ∈ stripLeading s) : b ∈ s ∨ b = 0x78 := by
  unfold stripLeading at h
  match s with
  | [] => simp at h
  | a :: r =>
    by_cases ha : isSlash a = true
    · simp only [ha, if_true] at h
      split at h
      · right; simpa using h
      · left; exact mem_dropWhile h
    · simp only [ha] at h
      left; simpa using h

theorem replaceDotDot_mem {s : Bytes} {b : UInt8} (h : b ∈ replaceDotDot s) : b ∈ s ∨ b = 0x78 := by
  fun_induction replaceDotDot s with
  | case1 a b' c rest hm ih =>
    simp only [List.mem_cons] at h ⊢
    rcases h with h | h | h | h
    · right; exact h
    · right; exact h
    · left; right; right; left; exact h
    · rcases ih h with h | h
      · left; right; right; right; exact h
      · right; exact h
  | case2 a b' c rest hm ih =>
    simp only [List.mem_cons] at h ⊢
    rcases h with h | h
    · left; left; exact h
    · rcases ih h with h | h
      · left; right; simpa using h
      · right; exact h
  | case3 a rest hne ih =>
    simp only [List.mem_cons] at h ⊢
    rcases h with h | h
    · left; left; exact h
    · rcases ih h with h | h
      · left; right; exact h
      · right; exact h
  | case4 => simp at h

theorem sanitize_mem {s : Bytes} {b : UInt8} (h : b ∈ sanitize s) : b ∈ s ∨ b = 0x78 := by
  rcases replaceDotDot_mem h with h | h
  · exact stripLeading_mem h
  · right; exact h

theorem cstr_no_nul (b : Bytes) : ∀ x ∈ cstr b, x ≠ 0 := by
  intro x hx
  unfold cstr at hx
  induction b with
  | nil => simp at hx
  | cons a b ih =>
    by_cases ha : a ≠ 0
    · rw [List.takeWhile_cons_of_pos (by simpa using ha)] at hx
      rcases List.mem_cons.mp hx with h | h
      · rw [h]; exact ha
      · exact ih h
    · rw [List.takeWhile_cons_of_neg (by simpa using ha)] at hx
      simp at hx

theorem validate_range (x : Nat) : 0 < validate x ∧ validate x ≤ 0x10FFFF := by
  unfold validate; split <;> omega

theorem lowerC_range {x : Nat} (h : 0 < x ∧ x ≤ 0x10FFFF) : 0 < lowerC x ∧ lowerC x ≤ 0x10FFFF := by
  unfold lowerC; split <;> omega

theorem swapSep_range (u : Bool) {x : Nat} (h : 0 < x ∧ x ≤ 0x10FFFF) :
    0 < swapSep u x ∧ swapSep u x ≤ 0x10FFFF := by
  unfold swapSep; cases u <;> simp only [] <;> (repeat' split) <;> omega

theorem encode_range {x : Nat} (h : 0 < x ∧ x ≤ 0x10FFFF) : ∀ v ∈ encode x, 0 < v ∧ v < 256 := by
  unfold encode
  intro v hv
  (repeat' split at hv) <;> simp only [List.mem_cons, List.not_mem_nil, or_false] at hv <;> omega

theorem convPoint_range (lower isunix : Bool) (x : Nat) :
    ∀ v ∈ convPoint lowerC lower isunix x, 0 < v ∧ v < 256 := by
  unfold convPoint
  apply encode_range
  apply swapSep_range
  cases lower
  · simpa using validate_range x
  · simpa using lowerC_range (validate_range x)

theorem convUtf8_range (lower isunix : Bool) (fuel : Nat) (s : Bytes) :
    ∀ v ∈ convUtf8 lowerC lower isunix fuel s, 0 < v ∧ v < 256 := by
  induction fuel generalizing s with
  | zero => intro v hv; simp [convUtf8] at hv
  | succ n ih =>
    match s with
    | [] => intro v hv; simp [convUtf8] at hv
    | c :: rest =>
      intro v hv
      simp only [convUtf8, List.mem_append] at hv
      rcases hv with hv | hv
      · exact convPoint_range _ _ _ v hv
      · exact ih _ v hv

theorem ofNat_ne_zero {v : Nat} (h : 0 < v ∧ v < 256) : UInt8.ofNat v ≠ 0 := by
  intro e
  have : (UInt8.ofNat v).toNat = (0 : UInt8).toNat := by rw [e]
  simp [UInt8.toNat_ofNat'] at this
  omega

theorem convByte_range (lower isunix : Bool) {c : UInt8} (hc : c ≠ 0) :
    0 < convByte lowerC lower isunix c ∧ convByte lowerC lower isunix c < 256 := by
  have h1 : c.toNat ≠ 0 := by
    intro e; apply hc; exact UInt8.toNat_inj.mp (by simpa using e)
  have h2 := c.toNat_lt
  unfold convByte
  have key : ∀ x, 0 < x ∧ x < 256 → 0 < swapSep isunix x ∧ swapSep isunix x < 256 := by
    intro x hx; unfold swapSep; cases isunix <;> simp only [] <;> (repeat' split) <;> omega
  apply key
  cases lower
  · simp; omega
  · simp only [if_true]; unfold lowerC; split <;> omega

theorem convName_no_nul (fname : Bytes) (lower isunix utf8 : Bool) :
    ∀ b ∈ convName lowerC fname lower isunix utf8, b ≠ 0 := by
  intro b hb
  unfold convName at hb
  cases utf8
  · simp only [Bool.false_eq_true, if_false, List.mem_map] at hb
    obtain ⟨c, hc, rfl⟩ := hb
    exact ofNat_ne_zero (convByte_range _ _ (cstr_no_nul _ c hc))
  · simp only [if_true, List.mem_map] at hb
    obtain ⟨v, hv, rfl⟩ := hb
    exact ofNat_ne_zero (convUtf8_range _ _ _ _ v hv)

/-! ### lengths (the C's allocation) -/

theorem replaceDotDot_length (s : Bytes) : (replaceDotDot s).length = s.length := by
  fun_induction replaceDotDot s <;> simp_all

theorem length_dropWhile_le (p : UInt8 → Bool) (s : Bytes) : (s.dropWhile p).length ≤ s.length := by
  induction s with
  | nil => simp
  | cons a s ih =>
    by_cases ha : p a = true
    · rw [List.dropWhile_cons_of_pos ha]; simp; omega
    · rw [List.dropWhile_cons_of_neg ha]; simp

theorem stripLeading_length (s : Bytes) : (stripLeading s).length ≤ s.length := by
  unfold stripLeading
  match s with
  | [] => simp
  | a :: r =>
    by_cases ha : isSlash a = true
    · simp only [ha, if_true]
      have := length_dropWhile_le isSlash (a :: r)
      split
      · simp
      · exact this
    · simp [ha]

theorem sanitize_length (s : Bytes) : (sanitize s).length ≤ s.length := by
  unfold sanitize; rw [replaceDotDot_length]; exact stripLeading_length s

theorem encode_length (x : Nat) : (encode x).length ≤ 4 := by
  unfold encode; (repeat' split) <;> simp

theorem decode1_length (c : UInt8) (rest : Bytes) : (decode1 (c :: rest)).2.length ≤ rest.length := by
  unfold decode1
  simp only []
  (repeat' split) <;> simp <;> omega

theorem convUtf8_length (tolow : Nat → Nat) (lower isunix : Bool) (fuel : Nat) (s : Bytes) :
    (convUtf8 tolow lower isunix fuel s).length ≤ 4 * s.length := by
  induction fuel generalizing s with
  | zero => simp [convUtf8]
  | succ n ih =>
    match s with
    | [] => simp [convUtf8]
    | c :: rest =>
      simp only [convUtf8, List.length_append, List.length_cons]
      have h1 : (convPoint tolow lower isunix (decode1 (c :: rest)).1).length ≤ 4 := encode_length _
      have h2 := decode1_length c rest
      have h3 := ih (decode1 (c :: rest)).2
      omega

theorem convName_length (tolow : Nat → Nat) (fname : Bytes) (lower isunix utf8 : Bool) :
    (convName tolow fname lower isunix utf8).length ≤ 4 * (cstr fname).length := by
  unfold convName
  cases utf8
  · simp; omega
  · simp only [if_true, List.length_map]; exact convUtf8_length _ _ _ _ _

/-- the fuel of the UTF-8 loop (= input length in `convName`) never runs out before the input does:
    any two sufficient fuels give the same result -/
theorem convUtf8_fuel_enough (tolow : Nat → Nat) (lower isunix : Bool) (n m : Nat) (s : Bytes)
    (hn : s.length ≤ n) (hm : s.length ≤ m) :
    convUtf8 tolow lower isunix n s = convUtf8 tolow lower isunix m s := by
  induction n generalizing m s with
  | zero =>
    have : s = [] := List.eq_nil_of_length_eq_zero (by omega)
    subst this
    cases m <;> simp [convUtf8]
  | succ n ih =>
    match s, m with
    | [], 0 => simp [convUtf8]
    | [], m + 1 => simp [convUtf8]
    | c :: rest, 0 => simp at hm
    | c :: rest, m + 1 =>
      simp only [convUtf8]
      have h2 := decode1_length c rest
      simp only [List.length_cons] at hn hm
      rw [ih m (decode1 (c :: rest)).2 (by omega) (by omega)]

/-! ### path components -/

/-- the components of a path: split at every '/' -/
def splitSlash : Bytes → List Bytes
  | [] => [[]]
  | c :: rest =>
    if c = 0x2F then [] :: splitSlash rest
    else match splitSlash rest with
      | [] => [[c]]
      | h :: t => (c :: h) :: t

theorem splitSlash_ne_nil (s : Bytes) : splitSlash s ≠ [] := by
  cases s with
  | nil => simp [splitSlash]
  | cons c rest =>
    unfold splitSlash
    split
    · simp
    · split <;> simp

/-- a first component that is not the last one is followed by a '/' -/
theorem splitSlash_head (s : Bytes) (h : Bytes) (t : List Bytes) (e : splitSlash s = h :: t) (ht : t ≠ []) :
    ∃ post, s = h ++ 0x2F :: post := by
  induction s generalizing h t with
  | nil => simp [splitSlash] at e; exact absurd e.2 ht
  | cons c rest ih =>
    unfold splitSlash at e
    by_cases hc : c = 0x2F
    · simp only [hc, if_true, List.cons.injEq] at e
      exact ⟨rest, by simp [← e.1, hc]⟩
    · simp only [hc, if_false] at e
      match hs : splitSlash rest, e with
      | [], e => simp at e; exact absurd e.2 ht
      | h' :: t', e =>
        simp only [List.cons.injEq] at e
        obtain ⟨post, hp⟩ := ih h' t' hs (by rw [e.2]; exact ht)
        exact ⟨post, by rw [← e.1, hp]; simp⟩

theorem dotdot_not_component {s : Bytes} (hs : hasDDS s = false) :
    ∀ comp ∈ (splitSlash s).dropLast, comp ≠ [0x2E, 0x2E] := by
  induction s with
  | nil => simp [splitSlash]
  | cons c rest ih =>
    have hrest : hasDDS rest = false := by
      simp only [hasDDS, Bool.or_eq_false_iff] at hs; exact hs.2
    have hstart : startsDDS (c :: rest) = false := by
      simp only [hasDDS, Bool.or_eq_false_iff] at hs; exact hs.1
    intro comp hcomp
    match hsp : splitSlash (c :: rest), hcomp with
    | [], hcomp => simp at hcomp
    | h :: t, hcomp =>
      by_cases ht : t = []
      · subst ht; simp at hcomp
      · rw [List.dropLast_cons_of_ne_nil ht, List.mem_cons] at hcomp
        rcases hcomp with hc | hc
        · -- the first component: followed by '/', so ".." here would be "../"
          obtain ⟨post, hp⟩ := splitSlash_head _ h t hsp ht
          intro e
          rw [← hc, e] at hp
          rw [hp] at hstart
          simp [startsDDS, isSlash] at hstart
        · -- a later component: also a non-final component of the rest
          have : comp ∈ (splitSlash rest).dropLast := by
            unfold splitSlash at hsp
            by_cases hc0 : c = 0x2F
            · simp only [hc0, if_true, List.cons.injEq] at hsp
              rw [← hsp.2] at hc; exact hc
            · simp only [hc0, if_false] at hsp
              match hr : splitSlash rest, hsp with
              | [], hsp => simp at hsp; exact absurd hsp.2 ht
              | h' :: t', hsp =>
                simp only [List.cons.injEq] at hsp
                rw [List.dropLast_cons_of_ne_nil (by rw [hsp.2]; exact ht), hsp.2]
                exact List.mem_cons_of_mem _ hc
          exact ih hrest comp this

end MsPack.Cabx
