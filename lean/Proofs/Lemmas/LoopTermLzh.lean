import MsPack.Kwaj.Lzh
import MsPack.Lzss.Decoder
import Proofs.Lemmas.HuffLen
/-!
# C04 — KWAJ LZH (`MsPack/Kwaj/Lzh.lean`): the out-of-fuel outcome is unreachable

Two loops of the model carry fuel: `ensureBits` (fuel 4 at every call site, `n ≤ 16`) and `mainLoop`
(the caller's fuel).  Everything else recurses structurally.

Source assumption (`SrcOk S rem`): there is a "bytes remaining" function `rem` on source states
such that a successful `read` that delivers `c` leaves `c.length + rem s' ≤ rem s`, and `read`
itself never reports `hang`.  The file-backed source `Rd.src` satisfies it with
`rem r = r.file.length - r.pos` (`rdSrc_ok`).

Measure.  While `inputEnd = 0` (no made-up byte has been handed out),
`M st = st.cur.bits.length + 8 * (st.cur.iEnd - st.cur.iPtr) + 8 * rem st.src`
counts the real bits not yet consumed.  `READ_BYTES` never increases it (a byte moves from the
input buffer into the bit buffer; a refill moves bytes from the source into the input buffer);
`READ_HUFFSYM_SAFE` removes the decoded symbol's own length, which is at least one bit
(`Huff.decode_len`).  Every round of `mainLoop` starts with a `READ_HUFFSYM_SAFE`, so a round either
lowers `M`, or sets `inputEnd` (and then the next round leaves at once), or leaves the function.
Hence `M st + 2` rounds always suffice.

`lzh_read_lens` can leave without `STORE_BITS`, after which the caller's `RESTORE_BITS` brings
back the *saved* bit position: before `mainLoop` starts the same bound is therefore kept for the
saved copy as well (`Inv_T … true`); inside `mainLoop` nothing restores and only the locals count
(`Inv_T … false`).  A `return MSPACK_ERR_OK` out of a `_SAFE` macro happens only with
`inputEnd ≠ 0`; that is part of the triple (`Post_T`).
-/
namespace MsPack.Kwaj.Lzh
open MsPack MsPack.Generated

variable {σ : Type} {α β : Type}

/-! ## running the monad -/

/-- `x` run from state `st` -/
def run' (x : LM σ α) (st : St σ) : Except Halt α × St σ := x.run.run st

theorem run'_pure (a : α) (st : St σ) : run' (pure a : LM σ α) st = (.ok a, st) := rfl
theorem run'_get (st : St σ) : run' (get : LM σ (St σ)) st = (.ok st, st) := rfl
theorem run'_set (s st : St σ) : run' (set s : LM σ PUnit) st = (.ok ⟨⟩, s) := rfl
theorem run'_modify (f : St σ → St σ) (st : St σ) : run' (modify f : LM σ PUnit) st = (.ok ⟨⟩, f st) := rfl
theorem run'_throw (e : Halt) (st : St σ) : run' (throw e : LM σ α) st = (.error e, st) := rfl

theorem run'_bind (x : LM σ α) (f : α → LM σ β) (st : St σ) :
    run' (x >>= f) st = match run' x st with
      | (.ok a, st') => run' (f a) st'
      | (.error e, st') => (.error e, st') := by
  show (x >>= f).run.run st = _
  simp only [run']
  rcases h : x.run.run st with ⟨r, s⟩
  cases r <;> simp [ExceptT.run_bind, StateT.run_bind, h] <;> rfl

theorem run'_tryCatch (x : LM σ α) (hd : Halt → LM σ α) (st : St σ) :
    run' (tryCatch x hd) st = match run' x st with
      | (.ok a, st') => (.ok a, st')
      | (.error e, st') => run' (hd e) st' := by
  simp only [run']
  show (tryCatch x hd).run.run st = _
  rcases h : x.run.run st with ⟨r, s⟩
  have h' : x st = (r, s) := h
  cases r <;> simp [tryCatch, tryCatchThe, MonadExceptOf.tryCatch, ExceptT.tryCatch, ExceptT.run, ExceptT.mk,
    StateT.run, bind, StateT.bind, h'] <;> rfl

theorem run'_ite (c : Prop) [Decidable c] (x y : LM σ α) (st : St σ) :
    run' (if c then x else y) st = if c then run' x st else run' y st := by split <;> rfl
theorem run'_dite (c : Prop) [Decidable c] (x : c → LM σ α) (y : ¬ c → LM σ α) (st : St σ) :
    run' (if h : c then x h else y h) st = if h : c then run' (x h) st else run' (y h) st := by split <;> rfl

/-! ## triples -/

/-- what a piece of the decoder may do: fall through in a state satisfying `Q`; execute
    `return e` — and `return MSPACK_ERR_OK` only once `input_end` is set; fault, but not by
    running out of fuel -/
def Post_T (Q : St σ → Prop) : Except Halt α × St σ → Prop
  | (.ok _, st') => Q st'
  | (.error (.ret e), st') => e = Err.ok → st'.inputEnd ≠ 0
  | (.error (.fault f), _) => f ≠ Fault.hang

def Tr (P : St σ → Prop) (x : LM σ α) (Q : St σ → Prop) : Prop := ∀ st, P st → Post_T Q (run' x st)

theorem Tr_pure (P : St σ → Prop) (a : α) : Tr P (pure a : LM σ α) P := fun _ h => h

theorem Tr_bind {P Q Q' : St σ → Prop} {x : LM σ α} {f : α → LM σ β}
    (hx : Tr P x Q) (hf : ∀ a, Tr Q (f a) Q') : Tr P (x >>= f) Q' := by
  intro st hP
  have h := hx st hP
  rw [run'_bind]
  rcases hr : run' x st with ⟨r, st1⟩
  rw [hr] at h
  cases r with
  | ok a => exact hf a st1 h
  | error e => cases e <;> exact h

theorem Tr_weaken {P P' Q Q' : St σ → Prop} {x : LM σ α} (h : Tr P x Q)
    (hP : ∀ st, P' st → P st) (hQ : ∀ st, Q st → Q' st) : Tr P' x Q' := by
  intro st hp
  have := h st (hP st hp)
  rcases hr : run' x st with ⟨r, st1⟩
  rw [hr] at this
  cases r with
  | ok a => exact hQ _ this
  | error e => cases e <;> exact this

theorem Tr_get_bind {P Q : St σ → Prop} {f : St σ → LM σ β}
    (h : ∀ s, Tr (fun st => P st ∧ st = s) (f s) Q) : Tr P (get >>= f) Q := by
  intro st hP
  rw [run'_bind, run'_get]
  exact h st st ⟨hP, rfl⟩

theorem Tr_ite {P Q : St σ → Prop} {c : Prop} [Decidable c] {x y : LM σ α}
    (hx : c → Tr P x Q) (hy : ¬ c → Tr P y Q) : Tr P (if c then x else y) Q := by
  split
  · exact hx ‹_›
  · exact hy ‹_›

theorem Tr_dite {P Q : St σ → Prop} {c : Prop} [Decidable c] {x : c → LM σ α} {y : ¬ c → LM σ α}
    (hx : ∀ h, Tr P (x h) Q) (hy : ∀ h, Tr P (y h) Q) : Tr P (if h : c then x h else y h) Q := by
  split
  · exact hx _
  · exact hy _

theorem Tr_modify {P Q : St σ → Prop} (g : St σ → St σ) (h : ∀ st, P st → Q (g st)) :
    Tr P (modify g : LM σ PUnit) Q := fun st hp => h st hp

theorem Tr_set {P Q : St σ → Prop} (s : St σ) (h : ∀ st, P st → Q s) :
    Tr P (set s : LM σ PUnit) Q := fun st hp => h st hp

theorem Tr_throw_ret {P Q : St σ → Prop} (e : Err) (h : e ≠ .ok) : Tr P (throw (.ret e) : LM σ α) Q :=
  fun _ _ he => absurd he h

theorem Tr_throw_fault {P Q : St σ → Prop} (f : Fault) (h : f ≠ .hang) : Tr P (throw (.fault f) : LM σ α) Q :=
  fun _ _ => h

/-- a fact that the precondition implies for every state may be used outright -/
theorem Tr_assume {P Q : St σ → Prop} {x : LM σ α} (φ : Prop) (h1 : ∀ st, P st → φ) (h2 : φ → Tr P x Q) :
    Tr P x Q := fun st hP => h2 (h1 st hP) st hP

theorem Tr_false {Q : St σ → Prop} (x : LM σ α) : Tr (fun _ => False) x Q := fun _ h => h.elim

/-! ## the source assumption, the measure, the invariant -/

/-- `rem` bounds the bytes the source can still deliver, and `read` does not report `hang` -/
structure SrcOk (S : Src σ) (rem : σ → Nat) : Prop where
  dec : ∀ s n c s', S.read s n = .ok (some c, s') → c.length + rem s' ≤ rem s
  nohang : ∀ s n, S.read s n ≠ .error .hang

/-- the file-backed source: what is left of the file -/
theorem rdSrc_ok : SrcOk Rd.src (fun r => r.file.length - r.pos) where
  dec := by
    intro s n c s' h
    simp only [Rd.src, Rd.read, Except.ok.injEq, Prod.mk.injEq, Option.some.injEq] at h
    rcases h with ⟨rfl, rfl⟩
    simp only [List.length_take, List.length_drop]
    omega
  nohang := by intro s n h; simp [Rd.src] at h

/-- bits of a bit position not yet consumed: the bit buffer and the rest of the input buffer -/
def bitsAt (p : BitPos) : Nat := p.bits.length + 8 * (p.iEnd - p.iPtr)

/-- either a made-up byte has been handed out, or the real bits still to come (+ `k`) are at most
    `B` — for the locals, and if `w` for the structure's copy too -/
def Inv_T (rem : σ → Nat) (w : Bool) (k B : Nat) (st : St σ) : Prop :=
  st.inputEnd ≠ 0 ∨
    (bitsAt st.cur + 8 * rem st.src + k ≤ B ∧ (w = true → bitsAt st.saved + 8 * rem st.src + k ≤ B))

theorem Inv_frame {rem : σ → Nat} {w k B} {st st' : St σ} (h : Inv_T rem w k B st)
    (h1 : st'.src = st.src) (h2 : st'.cur = st.cur) (h3 : st'.saved = st.saved) (h4 : st'.inputEnd = st.inputEnd) :
    Inv_T rem w k B st' := by
  unfold Inv_T at *; rw [h1, h2, h3, h4]; exact h

variable (S : Src σ) {rem : σ → Nat}

/-! ## `lzh_read_input`, `READ_BYTES`, `ENSURE_BITS` -/

/-- what `lzh_read_input` does to the quantities of the measure -/
def ReadInputPost (rem : σ → Nat) (st : St σ) : Except Halt PUnit × St σ → Prop
  | (.ok _, st') => st'.cur = st.cur ∧ (st.inputEnd ≠ 0 → st'.inputEnd ≠ 0) ∧
      (st'.inputEnd = 0 → st'.saved.bits = st.saved.bits ∧ st'.saved.iPtr = 0 ∧ 1 ≤ st'.saved.iEnd ∧
        st'.saved.iEnd + rem st'.src ≤ rem st.src)
  | (.error (.ret e), _) => e ≠ Err.ok
  | (.error (.fault f), _) => f ≠ Fault.hang

theorem readInput_spec (hS : SrcOk S rem) (st : St σ) : ReadInputPost rem st (run' (readInput S) st) := by
  unfold readInput
  simp only [run'_bind, run'_get, run'_ite, run'_set]
  split
  · next h => simp [ReadInputPost, h]
  · next h =>
    split
    · next f hf =>
      simp only [run'_throw, ReadInputPost]
      intro hh; subst hh; exact hS.nohang _ _ hf
    · simp [run'_bind, run'_set, run'_throw, ReadInputPost]
    · simp [run'_set, ReadInputPost]
    · next got src hne hr =>
      have := hS.dec _ _ _ _ hr
      have hpos : 1 ≤ got.length := by
        cases got with
        | nil => exact (hne rfl).elim
        | cons a t => simp
      simp only [run'_ite, run'_throw, run'_set]
      split
      · simp [ReadInputPost]
      · simp only [ReadInputPost]
        exact ⟨trivial, id, fun _ => ⟨trivial, trivial, hpos, this⟩⟩

theorem byteBitsMSB_length (b : UInt8) : (byteBitsMSB b).length = 8 := by simp [byteBitsMSB]

/-- `READ_BYTES` keeps the invariant and adds 8 bits to the bit buffer -/
theorem readBytes_tr (hS : SrcOk S rem) (w : Bool) (k B L : Nat) :
    Tr (fun st => Inv_T rem w k B st ∧ L ≤ st.cur.bits.length) (readBytes S)
       (fun st => Inv_T rem w k B st ∧ L + 8 ≤ st.cur.bits.length) := by
  intro st ⟨hI, hL⟩
  unfold readBytes
  simp only [run'_bind, run'_get]
  by_cases hc : st.cur.iPtr ≥ st.cur.iEnd
  · simp only [hc, if_true, run'_bind, run'_modify]
    have hri := readInput_spec S hS st
    rcases hr : run' (readInput S) st with ⟨r, st1⟩
    rw [hr] at hri
    cases r with
    | error e =>
      cases e with
      | ret e => simp only [ReadInputPost] at hri; simp only [Post_T]; intro h; exact absurd h hri
      | fault f => simpa [ReadInputPost, Post_T] using hri
    | ok u =>
      simp only [ReadInputPost] at hri
      obtain ⟨hcur, hne, hz⟩ := hri
      simp only [run'_get, run'_dite]
      split
      · simp only [run'_set, Post_T, List.length_append, byteBitsMSB_length, hcur]
        refine ⟨?_, by omega⟩
        by_cases hie : st1.inputEnd = 0
        · obtain ⟨hb, hp, hpos, hle⟩ := hz hie
          have hie0 : st.inputEnd = 0 := Decidable.byContradiction fun h => hne h hie
          rcases hI with hI | ⟨hI1, hI2⟩
          · exact absurd hie0 hI
          · right
            have hb' := congrArg List.length hb
            simp only [bitsAt, List.length_append, byteBitsMSB_length] at hI1 hI2 ⊢
            refine ⟨by omega, fun hw => ?_⟩
            have := hI2 hw
            omega
        · exact Or.inl hie
      · simp [run'_throw, Post_T]
  · simp only [hc, if_false, run'_bind, run'_get, run'_dite]
    split
    · simp only [run'_set, Post_T, List.length_append, byteBitsMSB_length]
      refine ⟨?_, by omega⟩
      rcases hI with hI | ⟨hI1, hI2⟩
      · exact Or.inl hI
      · right
        simp only [bitsAt, List.length_append, byteBitsMSB_length] at hI1 hI2 ⊢
        refine ⟨by omega, hI2⟩
    · simp [run'_throw, Post_T]

/-- `ENSURE_BITS(n)` with `k + 1` units of fuel when at most `k` bytes are missing -/
theorem ensureBits_tr (hS : SrcOk S rem) (w : Bool) (c B n : Nat) : ∀ k : Nat,
    Tr (fun st => Inv_T rem w c B st ∧ n ≤ st.cur.bits.length + 8 * k) (ensureBits S n (k + 1))
       (Inv_T rem w c B) := by
  intro k
  induction k with
  | zero =>
    rw [ensureBits]
    refine Tr_get_bind fun s => Tr_ite (fun hc => ?_) (fun _ => ?_)
    · intro st ⟨⟨_, hn⟩, hs⟩; subst hs; omega
    · exact Tr_weaken (Tr_pure _ _) (fun _ h => h) (fun _ h => h.1.1)
  | succ k ih =>
    rw [ensureBits]
    refine Tr_get_bind fun s => Tr_ite (fun hc => ?_) (fun _ => ?_)
    · refine Tr_assume (n ≤ s.cur.bits.length + 8 * (k + 1)) ?_ (fun hn => ?_)
      · intro st ⟨⟨_, hn⟩, hs⟩; subst hs; exact hn
      refine Tr_bind (Tr_weaken (readBytes_tr S hS w c B s.cur.bits.length) ?_ (fun _ h => h)) (fun _ => ?_)
      · intro st ⟨⟨hI, _⟩, hs⟩; subst hs; exact ⟨hI, Nat.le_refl _⟩
      · refine Tr_weaken ih ?_ (fun _ h => h)
        intro st ⟨hI, hl⟩
        exact ⟨hI, by omega⟩
    · exact Tr_weaken (Tr_pure _ _) (fun _ h => h) (fun _ h => h.1.1)

/-- the call sites: `n ≤ 16`, fuel 4 -/
theorem ensureBits4_tr (hS : SrcOk S rem) (w : Bool) (c B n : Nat) (hn : n ≤ 16) :
    Tr (Inv_T rem w c B) (ensureBits S n 4) (Inv_T rem w c B) :=
  Tr_weaken (ensureBits_tr S hS w c B n 3) (fun _ h => ⟨h, by omega⟩) (fun _ h => h)

/-! ## `REMOVE_BITS`, the `_SAFE` test, `READ_BITS_SAFE`, `READ_HUFFSYM_SAFE` -/

theorem removeBits_tr (w : Bool) (c B n : Nat) :
    Tr (Inv_T rem w c B) (removeBits n : LM σ Unit) (Inv_T rem w c B) := by
  refine Tr_modify _ fun st h => ?_
  rcases h with h | ⟨h1, h2⟩
  · exact Or.inl h
  · right
    simp only [bitsAt, List.length_drop] at h1 h2 ⊢
    exact ⟨by omega, h2⟩

/-- removing `1 ≤ n ≤ bits_left` bits lowers the measure -/
theorem removeBits_strict (c B n : Nat) (hn : 1 ≤ n) :
    Tr (fun st => Inv_T rem false c B st ∧ n ≤ st.cur.bits.length) (removeBits n : LM σ Unit)
       (Inv_T rem false (c + 1) B) := by
  refine Tr_modify _ fun st ⟨h, hl⟩ => ?_
  rcases h with h | ⟨h1, _⟩
  · exact Or.inl h
  · right
    simp only [bitsAt, List.length_drop] at h1 ⊢
    exact ⟨by omega, fun h => by cases h⟩

theorem safeCheck_tr (P : St σ → Prop) : Tr P (safeCheck : LM σ Unit) P := by
  unfold safeCheck
  refine Tr_get_bind fun s => Tr_ite (fun hc => ?_) (fun _ => ?_)
  · intro st ⟨_, hs⟩; subst hs; exact fun _ => hc.1
  · exact Tr_weaken (Tr_pure _ _) (fun _ h => h) (fun _ h => h.1)

theorem readBitsSafe_tr (hS : SrcOk S rem) (w : Bool) (c B n : Nat) (hn : n ≤ 16) :
    Tr (Inv_T rem w c B) (readBitsSafe S n) (Inv_T rem w c B) := by
  unfold readBitsSafe
  refine Tr_bind (ensureBits4_tr S hS w c B n hn) fun _ => ?_
  refine Tr_get_bind fun s => ?_
  refine Tr_bind (Tr_weaken (removeBits_tr (rem := rem) w c B n) (fun _ h => h.1) (fun _ h => h)) fun _ => ?_
  exact Tr_bind (safeCheck_tr _) fun _ => Tr_pure _ _

/-- `READ_HUFFSYM_SAFE`: the symbol's own length, at least one bit, is consumed -/
theorem readHuffSymSafe_strict (hS : SrcOk S rem) (c B : Nat) (cn : Huff.Canon) :
    Tr (Inv_T rem false c B) (readHuffSymSafe S cn) (Inv_T rem false (c + 1) B) := by
  unfold readHuffSymSafe
  refine Tr_bind (ensureBits4_tr S hS false c B 16 (Nat.le_refl _)) fun _ => ?_
  refine Tr_get_bind fun s => ?_
  split
  · exact Tr_throw_ret _ (by decide)
  · next sym len hd =>
    have hl := Huff.decode_len _ _ _ _ hd
    refine Tr_bind (Tr_weaken (removeBits_strict (rem := rem) c B len hl.1) ?_ (fun _ h => h)) fun _ => ?_
    · intro st ⟨hI, hs⟩; subst hs; exact ⟨hI, hl.2⟩
    · exact Tr_bind (safeCheck_tr _) fun _ => Tr_pure _ _

theorem Inv_mono {w : Bool} {c c' B : Nat} (h : c' ≤ c) (st : St σ) (hI : Inv_T rem w c B st) : Inv_T rem w c' B st := by
  rcases hI with hI | ⟨h1, h2⟩
  · exact Or.inl hI
  · exact Or.inr ⟨by omega, fun hw => by have := h2 hw; omega⟩

theorem readHuffSymSafe_tr (hS : SrcOk S rem) (c B : Nat) (cn : Huff.Canon) :
    Tr (Inv_T rem false c B) (readHuffSymSafe S cn) (Inv_T rem false c B) :=
  Tr_weaken (readHuffSymSafe_strict S hS c B cn) (fun _ h => h) (Inv_mono (Nat.le_succ _))

/-! ## output, length arrays: the measure is not involved -/

theorem emitByte_tr (w : Bool) (c B : Nat) (b : UInt8) :
    Tr (Inv_T rem w c B) (emitByte b : LM σ Unit) (Inv_T rem w c B) := by
  unfold emitByte
  refine Tr_get_bind fun s => Tr_dite (fun _ => ?_) (fun _ => Tr_throw_fault _ (by simp))
  refine Tr_set _ fun st ⟨hI, hs⟩ => ?_
  subst hs
  exact Inv_frame hI rfl rfl rfl rfl

theorem copyMatch_tr (w : Bool) (c B offset : Nat) : ∀ len : Nat,
    Tr (Inv_T rem w c B) (copyMatch offset len : LM σ Unit) (Inv_T rem w c B) := by
  intro len
  induction len with
  | zero => rw [copyMatch]; exact Tr_pure _ _
  | succ len ih =>
    rw [copyMatch]
    refine Tr_get_bind fun s => Tr_dite (fun _ => ?_) (fun _ => Tr_throw_fault _ (by simp))
    refine Tr_bind (Tr_weaken (emitByte_tr (rem := rem) w c B _) (fun _ h => h.1) (fun _ h => h)) fun _ => ih

theorem literalRun_tr (hS : SrcOk S rem) (c B : Nat) (cn : Huff.Canon) : ∀ len : Nat,
    Tr (Inv_T rem false c B) (literalRun S cn len) (Inv_T rem false c B) := by
  intro len
  induction len with
  | zero => rw [literalRun]; exact Tr_pure _ _
  | succ len ih =>
    rw [literalRun]
    exact Tr_bind (readHuffSymSafe_tr S hS c B cn) fun _ => Tr_bind (emitByte_tr false c B _) fun _ => ih

theorem setLen_tr (w : Bool) (c B : Nat) (t : Tbl) (i v : Nat) :
    Tr (Inv_T rem w c B) (setLen t i v : LM σ Unit) (Inv_T rem w c B) := by
  unfold setLen
  refine Tr_get_bind fun s => Tr_dite (fun _ => ?_) (fun _ => Tr_throw_fault _ (by simp))
  refine Tr_set _ fun st ⟨hI, hs⟩ => ?_
  subst hs
  cases t <;> exact Inv_frame hI rfl rfl rfl rfl

/-! ## `mainLoop` -/

/-- enough fuel for `mainLoop`: one round if `input_end` is set already, else two more than the
    real bits still to come -/
def MainPre (rem : σ → Nat) (fuel : Nat) (st : St σ) : Prop :=
  (st.inputEnd ≠ 0 ∧ 1 ≤ fuel) ∨ bitsAt st.cur + 8 * rem st.src + 2 ≤ fuel

theorem MainPre_of_Inv {fuel : Nat} (hf : 1 ≤ fuel) (st : St σ) (h : Inv_T rem false 2 fuel st) :
    MainPre rem fuel st := by
  rcases h with h | ⟨h, _⟩
  · exact Or.inl ⟨h, hf⟩
  · exact Or.inr h

theorem mainLoop_tr (hS : SrcOk S rem) (tr : Trees) : ∀ (fuel : Nat) (litRun : Bool),
    Tr (MainPre rem fuel) (mainLoop S tr fuel litRun) (fun _ => True) := by
  intro fuel
  induction fuel with
  | zero =>
    intro litRun st h
    rcases h with ⟨_, h⟩ | h <;> omega
  | succ fuel ih =>
    intro litRun
    rw [mainLoop]
    refine Tr_get_bind fun s => Tr_ite (fun _ => ?_) (fun hz => ?_)
    · exact Tr_weaken (Tr_pure _ _) (fun _ h => h) (fun _ _ => trivial)
    · have hpre : ∀ st : St σ, (MainPre rem (fuel + 1) st ∧ st = s) → Inv_T rem false 1 fuel st ∧ 1 ≤ fuel := by
        intro st ⟨h, hs⟩
        subst hs
        rcases h with ⟨h, _⟩ | h
        · exact absurd h hz
        · exact ⟨Or.inr ⟨by omega, fun h => by cases h⟩, by omega⟩
      refine Tr_assume (1 ≤ fuel) (fun st h => (hpre st h).2) fun hf => ?_
      have hrec : ∀ b, Tr (Inv_T rem false 2 fuel) (mainLoop S tr fuel b) (fun _ => True) :=
        fun b => Tr_weaken (ih b) (MainPre_of_Inv hf) (fun _ h => h)
      have hfirst : ∀ cn, Tr (fun st => MainPre rem (fuel + 1) st ∧ st = s) (readHuffSymSafe S cn)
          (Inv_T rem false 2 fuel) :=
        fun cn => Tr_weaken (readHuffSymSafe_strict S hS 1 fuel cn) (fun st h => (hpre st h).1) (fun _ h => h)
      refine Tr_ite (fun _ => ?_) (fun _ => ?_) <;>
      · refine Tr_bind (hfirst _) fun len => ?_
        refine Tr_ite (fun _ => ?_) (fun _ => ?_)
        · exact Tr_bind (readHuffSymSafe_tr S hS 2 fuel _) fun _ =>
            Tr_bind (readBitsSafe_tr S hS false 2 fuel 6 (by omega)) fun _ =>
            Tr_bind (copyMatch_tr false 2 fuel _ _) fun _ => hrec _
        · exact Tr_bind (readHuffSymSafe_tr S hS 2 fuel _) fun _ =>
            Tr_bind (literalRun_tr S hS 2 fuel _ _) fun _ => hrec _

/-! ## before `mainLoop`: `lzh_read_lens`, `BUILD_TREE`, the six type nibbles -/

theorem storeBits_tr (c B : Nat) : Tr (Inv_T rem true c B) (storeBits : LM σ Unit) (Inv_T rem true c B) := by
  refine Tr_modify _ fun st h => ?_
  rcases h with h | ⟨h1, _⟩
  · exact Or.inl h
  · exact Or.inr ⟨h1, fun _ => h1⟩

theorem restoreBits_tr (c B : Nat) : Tr (Inv_T rem true c B) (restoreBits : LM σ Unit) (Inv_T rem true c B) := by
  refine Tr_modify _ fun st h => ?_
  rcases h with h | ⟨_, h2⟩
  · exact Or.inl h
  · exact Or.inr ⟨h2 rfl, h2⟩

theorem lensFill_tr (w : Bool) (c B : Nat) (t : Tbl) (v : Nat) : ∀ k i : Nat,
    Tr (Inv_T rem w c B) (lensFill t v k i : LM σ Unit) (Inv_T rem w c B) := by
  intro k
  induction k with
  | zero => intro i; rw [lensFill]; exact Tr_pure _ _
  | succ k ih => intro i; rw [lensFill]; exact Tr_bind (setLen_tr w c B t i v) fun _ => ih _

theorem lensType1_tr (hS : SrcOk S rem) (w : Bool) (c B : Nat) (t : Tbl) : ∀ k i v : Nat,
    Tr (Inv_T rem w c B) (lensType1 S t k i v) (Inv_T rem w c B) := by
  intro k
  induction k with
  | zero => intro i v; rw [lensType1]; exact Tr_pure _ _
  | succ k ih =>
    intro i v
    rw [lensType1]
    refine Tr_bind (readBitsSafe_tr S hS w c B 1 (by omega)) fun _ => Tr_ite (fun _ => ?_) (fun _ => ?_)
    · exact Tr_bind (setLen_tr w c B t i v) fun _ => ih _ _
    · refine Tr_bind (readBitsSafe_tr S hS w c B 1 (by omega)) fun _ => Tr_ite (fun _ => ?_) (fun _ => ?_)
      · exact Tr_bind (setLen_tr w c B t i _) fun _ => ih _ _
      · exact Tr_bind (readBitsSafe_tr S hS w c B 4 (by omega)) fun _ =>
          Tr_bind (setLen_tr w c B t i _) fun _ => ih _ _

theorem lensType2_tr (hS : SrcOk S rem) (w : Bool) (c B : Nat) (t : Tbl) : ∀ k i v : Nat,
    Tr (Inv_T rem w c B) (lensType2 S t k i v) (Inv_T rem w c B) := by
  intro k
  induction k with
  | zero => intro i v; rw [lensType2]; exact Tr_pure _ _
  | succ k ih =>
    intro i v
    rw [lensType2]
    refine Tr_bind (readBitsSafe_tr S hS w c B 2 (by omega)) fun _ => Tr_ite (fun _ => ?_) (fun _ => ?_)
    · exact Tr_bind (readBitsSafe_tr S hS w c B 4 (by omega)) fun _ =>
        Tr_bind (setLen_tr w c B t i _) fun _ => ih _ _
    · exact Tr_bind (Tr_pure _ _) fun _ => Tr_bind (setLen_tr w c B t i _) fun _ => ih _ _

theorem lensType3_tr (hS : SrcOk S rem) (w : Bool) (c B : Nat) (t : Tbl) : ∀ k i : Nat,
    Tr (Inv_T rem w c B) (lensType3 S t k i) (Inv_T rem w c B) := by
  intro k
  induction k with
  | zero => intro i; rw [lensType3]; exact Tr_pure _ _
  | succ k ih =>
    intro i
    rw [lensType3]
    exact Tr_bind (readBitsSafe_tr S hS w c B 4 (by omega)) fun _ => Tr_bind (setLen_tr w c B t i _) fun _ => ih _

theorem readLensBody_tr (hS : SrcOk S rem) (c B : Nat) (t : Tbl) (type : Nat) :
    Tr (Inv_T rem true c B) (readLensBody S t type) (Inv_T rem true c B) := by
  unfold readLensBody
  refine Tr_bind (restoreBits_tr c B) fun _ => ?_
  refine Tr_ite (fun _ => ?_) (fun _ => Tr_ite (fun _ => ?_) (fun _ => Tr_ite (fun _ => ?_) (fun _ =>
    Tr_ite (fun _ => ?_) (fun _ => ?_))))
  · exact Tr_bind (lensFill_tr true c B t _ _ _) fun _ => storeBits_tr c B
  · exact Tr_bind (readBitsSafe_tr S hS true c B 4 (by omega)) fun _ => Tr_bind (setLen_tr true c B t 0 _) fun _ =>
      Tr_bind (lensType1_tr S hS true c B t _ _ _) fun _ => storeBits_tr c B
  · exact Tr_bind (readBitsSafe_tr S hS true c B 4 (by omega)) fun _ => Tr_bind (setLen_tr true c B t 0 _) fun _ =>
      Tr_bind (lensType2_tr S hS true c B t _ _ _) fun _ => storeBits_tr c B
  · exact Tr_bind (lensType3_tr S hS true c B t _ _) fun _ => storeBits_tr c B
  · exact Tr_bind (Q := fun _ => False) (Tr_throw_ret _ (by decide)) fun _ => Tr_false _

/-- `lzh_read_lens` as its caller sees it: a returned `MSPACK_ERR_OK` comes with the invariant -/
def ReadLensPost (rem : σ → Nat) (c B : Nat) : Except Halt Err × St σ → Prop
  | (.ok e, st') => e = Err.ok → Inv_T rem true c B st'
  | (.error (.ret _), _) => False
  | (.error (.fault f), _) => f ≠ Fault.hang

theorem readLens_spec (hS : SrcOk S rem) (c B : Nat) (t : Tbl) (type : Nat) (st : St σ)
    (hI : Inv_T rem true c B st) : ReadLensPost rem c B (run' (readLens S t type) st) := by
  have h := readLensBody_tr S hS c B t type st hI
  unfold readLens
  rw [run'_tryCatch, run'_bind]
  rcases hr : run' (readLensBody S t type) st with ⟨r, st1⟩
  rw [hr] at h
  cases r with
  | ok u => simp only [run'_pure]; exact fun _ => h
  | error e =>
    cases e with
    | ret e => simp only [run'_pure]; exact fun he => Or.inl (h he)
    | fault f => simp only [run'_throw]; exact h

theorem buildTree_tr (hS : SrcOk S rem) (c B : Nat) (t : Tbl) (type : Nat) :
    Tr (Inv_T rem true c B) (buildTree S t type) (Inv_T rem true c B) := by
  unfold buildTree
  refine Tr_bind (storeBits_tr c B) fun _ => ?_
  intro st hI
  have h := readLens_spec S hS c B t type st hI
  rw [run'_bind]
  rcases hr : run' (readLens S t type) st with ⟨r, st1⟩
  rw [hr] at h
  cases r with
  | error e =>
    cases e with
    | ret e => exact h.elim
    | fault f => exact h
  | ok err =>
    simp only [ReadLensPost] at h
    have hrest : Tr (Inv_T rem true c B) (do
        restoreBits
        let __do_lift ← get
        match Huff.build kwajTABLEBITS (List.map (fun x => x.toNat) (__do_lift.lens t).toList) with
          | none => throw (Halt.ret Err.dataformat)
          | some c => pure c : LM σ Huff.Canon) (Inv_T rem true c B) := by
      refine Tr_bind (restoreBits_tr c B) fun _ => Tr_get_bind fun s => ?_
      split
      · exact Tr_throw_ret _ (by decide)
      · exact Tr_weaken (Tr_pure _ _) (fun _ h => h) (fun _ h => h.1)
    by_cases he : err = .ok
    · subst he
      simp only [ne_eq, not_true_eq_false, if_false]
      exact hrest st1 (h rfl)
    · simp only [ne_eq, he, not_false_eq_true, if_true, run'_bind, run'_throw]
      exact fun h' => absurd h' he

theorem readTypes_tr (hS : SrcOk S rem) (w : Bool) (c B : Nat) : ∀ (k : Nat) (acc : List Nat),
    Tr (Inv_T rem w c B) (readTypes S k acc) (Inv_T rem w c B) := by
  intro k
  induction k with
  | zero => intro acc; rw [readTypes]; exact Tr_pure _ _
  | succ k ih => intro acc; rw [readTypes]; exact Tr_bind (readBitsSafe_tr S hS w c B 4 (by omega)) fun _ => ih _

/-! ## `lzh_decompress` -/

theorem decompressBody_tr (hS : SrcOk S rem) (fuel B : Nat) (hB : B + 2 ≤ fuel) :
    Tr (fun st => 8 * rem st.src ≤ B) (decompressBody S fuel) (fun _ => True) := by
  unfold decompressBody
  refine Tr_bind (Q := fun st => st.inputEnd = 0 ∧ st.saved = {} ∧ 8 * rem st.src ≤ B)
    (Tr_modify _ fun st h => ⟨rfl, rfl, h⟩) fun _ => ?_
  refine Tr_bind (Q := Inv_T rem true 0 B) (Tr_modify _ fun st ⟨_, h2, h3⟩ => ?_) fun _ => ?_
  · right
    simp only [h2, bitsAt]
    exact ⟨by simpa using h3, fun _ => by simpa using h3⟩
  refine Tr_bind (Q := Inv_T rem true 0 B) (Tr_modify _ fun st h => Inv_frame h rfl rfl rfl rfl) fun _ => ?_
  refine Tr_bind (readTypes_tr S hS true 0 B 6 []) fun types => ?_
  refine Tr_bind (buildTree_tr S hS 0 B _ _) fun m1 => ?_
  refine Tr_bind (buildTree_tr S hS 0 B _ _) fun m2 => ?_
  refine Tr_bind (buildTree_tr S hS 0 B _ _) fun ll => ?_
  refine Tr_bind (buildTree_tr S hS 0 B _ _) fun of => ?_
  refine Tr_bind (buildTree_tr S hS 0 B _ _) fun li => ?_
  refine Tr_weaken (mainLoop_tr S hS _ fuel false) (fun st h => ?_) (fun _ h => h)
  rcases h with h | ⟨h, _⟩
  · exact Or.inl ⟨h, by omega⟩
  · exact Or.inr (by omega)

/-- **C04 (KWAJ LZH), `ENSURE_BITS`.**  With the fuel every call site passes (4) and `n ≤ 16`,
    `ensureBits` does not run out of fuel, from any state, over any source satisfying `SrcOk`. -/
theorem C04_lzh_ensureBits_no_hang (hS : SrcOk S rem) (n : Nat) (hn : n ≤ 16) (st : St σ) :
    (run' (ensureBits S n 4) st).1 ≠ .error (.fault .hang) := by
  have h := ensureBits4_tr S hS false 0 (bitsAt st.cur + 8 * rem st.src) n hn st
    (Or.inr ⟨Nat.le_refl _, fun h => by cases h⟩)
  rcases hr : run' (ensureBits S n 4) st with ⟨r, st1⟩
  rw [hr] at h
  cases r with
  | ok u => simp
  | error e =>
    cases e with
    | ret e => simp
    | fault f => simpa [Post_T] using h

/-- **C04 (KWAJ LZH).**  Over a source satisfying `SrcOk S rem`, `lzh_decompress` does not run
    out of fuel when given `8 * (bytes the source can still deliver) + 2` rounds. -/
theorem C04_lzh_no_hang (hS : SrcOk S rem) (fuel : Nat) (st : St σ) (hf : 8 * rem st.src + 2 ≤ fuel) :
    decompress S fuel st ≠ .error .hang := by
  have h := decompressBody_tr S hS fuel (8 * rem st.src) hf st (Nat.le_refl _)
  unfold decompress
  change Post_T _ ((decompressBody S fuel).run.run st) at h
  rcases hr : (decompressBody S fuel).run.run st with ⟨r, st1⟩
  rw [hr] at h
  cases r with
  | ok u => simp
  | error e =>
    cases e with
    | ret e => simp
    | fault f => simpa [Post_T] using h

/-- non-vacuity of the hypotheses: the file-backed source, any file, any position, any fill -/
example (r : Rd) (fill : UInt8) (fuel : Nat) (hf : 8 * (r.file.length - r.pos) + 2 ≤ fuel) :
    decompress Rd.src fuel (init r fill) ≠ .error .hang :=
  C04_lzh_no_hang Rd.src rdSrc_ok fuel (init r fill) hf

example (r : Rd) (fill : UInt8) (n : Nat) (hn : n ≤ 16) :
    (run' (ensureBits Rd.src n 4) (init r fill)).1 ≠ .error (.fault .hang) :=
  C04_lzh_ensureBits_no_hang Rd.src rdSrc_ok n hn _

/-- **C04 (KWAJ LZH), the driver's fuel.**  `MsPack/Driver/Kwaj.lean` passes
    `fuelFor n = 16 * n + 100000` with `n` the length of the file, and `Kwaj.extract` calls
    `Lzh.decompress Rd.src fuel (Lzh.init r fill)` on a handle of that file: no `hang`. -/
theorem C04_lzh_driver_fuel_no_hang (r : Rd) (fill : UInt8) :
    decompress Rd.src (16 * r.file.length + 100000) (init r fill) ≠ .error .hang :=
  C04_lzh_no_hang Rd.src rdSrc_ok _ (init r fill) (by show 8 * (r.file.length - r.pos) + 2 ≤ _; omega)

/-- the call in `Kwaj.extract`: the handle is first positioned at the data offset -/
theorem C04_lzh_extract_fuel_no_hang (rd : Rd) (off : Nat) (fill : UInt8) :
    decompress Rd.src (16 * rd.file.length + 100000) (init (rd.seekStart off) fill) ≠ .error .hang :=
  C04_lzh_driver_fuel_no_hang (rd.seekStart off) fill

/-! ## `ENSURE_BITS` again, for any source whose `read` does not report `hang`

Fuel 4 is enough because every `READ_BYTES` that comes back adds 8 bits: two suffice for
`n ≤ 16`.  Nothing about how much the source delivers is needed. -/

def ReadInputPost0 (st : St σ) : Except Halt PUnit × St σ → Prop
  | (.ok _, st') => st'.cur = st.cur
  | (.error (.ret e), _) => e ≠ Err.ok
  | (.error (.fault f), _) => f ≠ Fault.hang

theorem readInput_spec0 (hS : ∀ s n, S.read s n ≠ .error .hang) (st : St σ) :
    ReadInputPost0 st (run' (readInput S) st) := by
  unfold readInput
  simp only [run'_bind, run'_get, run'_ite, run'_set]
  split
  · simp [ReadInputPost0]
  · split
    · next f hf =>
      simp only [run'_throw, ReadInputPost0]
      intro hh; subst hh; exact hS _ _ hf
    · simp [run'_bind, run'_set, run'_throw, ReadInputPost0]
    · simp [run'_set, ReadInputPost0]
    · simp only [run'_ite, run'_throw, run'_set]
      split <;> simp [ReadInputPost0]

theorem readBytes_bits (hS : ∀ s n, S.read s n ≠ .error .hang) (L : Nat) :
    Tr (fun st => L ≤ st.cur.bits.length) (readBytes S) (fun st => L + 8 ≤ st.cur.bits.length) := by
  intro st hL
  unfold readBytes
  simp only [run'_bind, run'_get]
  by_cases hc : st.cur.iPtr ≥ st.cur.iEnd
  · simp only [hc, if_true, run'_bind, run'_modify]
    have hri := readInput_spec0 S hS st
    rcases hr : run' (readInput S) st with ⟨r, st1⟩
    rw [hr] at hri
    cases r with
    | error e =>
      cases e with
      | ret e => simp only [ReadInputPost0] at hri; simp only [Post_T]; intro h; exact absurd h hri
      | fault f => simpa [ReadInputPost0, Post_T] using hri
    | ok u =>
      simp only [ReadInputPost0] at hri
      simp only [run'_get, run'_dite]
      split
      · simp only [run'_set, Post_T, List.length_append, byteBitsMSB_length, hri]
        omega
      · simp [run'_throw, Post_T]
  · simp only [hc, if_false, run'_bind, run'_get, run'_dite]
    split
    · simp only [run'_set, Post_T, List.length_append, byteBitsMSB_length]
      omega
    · simp [run'_throw, Post_T]

theorem ensureBits_bits (hS : ∀ s n, S.read s n ≠ .error .hang) (n : Nat) : ∀ k : Nat,
    Tr (fun st => n ≤ st.cur.bits.length + 8 * k) (ensureBits S n (k + 1)) (fun _ => True) := by
  intro k
  induction k with
  | zero =>
    rw [ensureBits]
    refine Tr_get_bind fun s => Tr_ite (fun hc => ?_) (fun _ => ?_)
    · intro st ⟨hn, hs⟩; subst hs; omega
    · exact Tr_weaken (Tr_pure _ _) (fun _ h => h) (fun _ _ => trivial)
  | succ k ih =>
    rw [ensureBits]
    refine Tr_get_bind fun s => Tr_ite (fun hc => ?_) (fun _ => ?_)
    · refine Tr_assume (n ≤ s.cur.bits.length + 8 * (k + 1)) ?_ (fun hn => ?_)
      · intro st ⟨hn, hs⟩; subst hs; exact hn
      refine Tr_bind (Tr_weaken (readBytes_bits S hS s.cur.bits.length) ?_ (fun _ h => h)) (fun _ => ?_)
      · intro st ⟨_, hs⟩; subst hs; exact Nat.le_refl _
      · refine Tr_weaken ih ?_ (fun _ h => h)
        intro st hl
        omega
    · exact Tr_weaken (Tr_pure _ _) (fun _ h => h) (fun _ _ => trivial)

/-- **C04 (KWAJ LZH), `ENSURE_BITS`, weakest assumption.** -/
theorem C04_lzh_ensureBits_no_hang' (hS : ∀ s n, S.read s n ≠ .error .hang) (n : Nat) (hn : n ≤ 16) (st : St σ) :
    (run' (ensureBits S n 4) st).1 ≠ .error (.fault .hang) := by
  have h := ensureBits_bits S hS n 3 st (by omega)
  rcases hr : run' (ensureBits S n 4) st with ⟨r, st1⟩
  rw [hr] at h
  cases r with
  | ok u => simp
  | error e =>
    cases e with
    | ret e => simp
    | fault f => simpa [Post_T] using h

example (r : Rd) (fill : UInt8) (n : Nat) (hn : n ≤ 16) :
    (run' (ensureBits Rd.src n 4) (init r fill)).1 ≠ .error (.fault .hang) :=
  C04_lzh_ensureBits_no_hang' Rd.src rdSrc_ok.nohang n hn _

end MsPack.Kwaj.Lzh
