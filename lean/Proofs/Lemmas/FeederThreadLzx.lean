import Lean
import Proofs.Lemmas.FeederThread
import Proofs.Lemmas.FeederThreadQtm
import Proofs.Props.C02CabLift
import Proofs.Lemmas.CountLawsQtm
/-!
# LZX under the CAB feeder: the run does not depend on announcements other than `L`

`Cg J E m₁ m₂`: from every state satisfying `J` the two actions run identically, and (as `Thr J E m₁`)
a normal return re-establishes `J`, an exception satisfies `E`.  With
`J st = FeederLive st.src ∧ FeederLen files L st.src`, `m₁` a helper of the LZX model over
`feederSrc files` and `m₂` the same helper over `lenFiltered files L` (which has the same `read`
and ignores announcements other than `L`): the two sources agree on every state satisfying `J`,
and `J` is closed under reads that deliver bytes; a read that fails throws.  The only helper where
the sources are consulted is `readInput` (by hand); the rest is structural (`cg_auto`).
-/
namespace MsPack.CabLift
open MsPack MsPack.Generated MsPack.Cab MsPack.CountLaws

section kit
variable {ε s α β : Type}

structure Cg (J : s → Prop) (E : ε → s → Prop) (m1 m2 : ExceptT ε (StateM s) α) : Prop where
  eq : ∀ st, J st → m1.run.run st = m2.run.run st
  thr : Thr J E m1

theorem Cg.of_thr {J : s → Prop} {E : ε → s → Prop} {m : ExceptT ε (StateM s) α} (h : Thr J E m) :
    Cg J E m m := ⟨fun _ _ => rfl, h⟩

theorem Cg.bind {J : s → Prop} {E : ε → s → Prop} {x1 x2 : ExceptT ε (StateM s) α}
    {f1 f2 : α → ExceptT ε (StateM s) β} (hx : Cg J E x1 x2) (hf : ∀ a, Cg J E (f1 a) (f2 a)) :
    Cg J E (x1 >>= f1) (x2 >>= f2) := by
  refine ⟨fun st hj => ?_, Thr.bind hx.thr fun a => (hf a).thr⟩
  rw [run_bind, run_bind, ← hx.eq st hj]
  cases hr : x1.run.run st with
  | mk r s1 =>
    cases r with
    | ok a => exact (hf a).eq s1 (hx.thr.out st hj _ _ hr)
    | error e => rfl

theorem Cg.get_bind {J : s → Prop} {E : ε → s → Prop} {f1 f2 : s → ExceptT ε (StateM s) β}
    (hf : ∀ r, J r → Cg J E (f1 r) (f2 r)) : Cg J E (MonadState.get >>= f1) (MonadState.get >>= f2) := by
  refine ⟨fun st hj => ?_, Thr.get_bind fun r hr => (hf r hr).thr⟩
  rw [run_bind, run_bind]
  exact (hf st hj).eq st hj

theorem run_modifyGet_bind' (g : s → α × s) (f : α → ExceptT ε (StateM s) β) (st : s) :
    (modifyGet g >>= f).run.run st = (f (g st).1).run.run (g st).2 := by
  rw [run_bind]; rfl

theorem Thr.modifyGet_bind {J : s → Prop} {E : ε → s → Prop} {g : s → α × s} {f : α → ExceptT ε (StateM s) β}
    (R : α → Prop) (hg : ∀ st, J st → J (g st).2 ∧ R (g st).1) (hf : ∀ a, R a → Thr J E (f a)) :
    Thr J E (modifyGet g >>= f) := by
  constructor
  intro st hj r s' h
  rw [run_modifyGet_bind'] at h
  exact (hf _ (hg st hj).2).out _ (hg st hj).1 _ _ h

theorem Cg.modifyGet_bind {J : s → Prop} {E : ε → s → Prop} {g : s → α × s} {f1 f2 : α → ExceptT ε (StateM s) β}
    (R : α → Prop) (hg : ∀ st, J st → J (g st).2 ∧ R (g st).1) (hf : ∀ a, R a → Cg J E (f1 a) (f2 a)) :
    Cg J E (modifyGet g >>= f1) (modifyGet g >>= f2) := by
  refine ⟨fun st hj => ?_, Thr.modifyGet_bind R hg fun a ha => (hf a ha).thr⟩
  rw [run_modifyGet_bind', run_modifyGet_bind']
  exact (hf _ (hg st hj).2).eq _ (hg st hj).1

end kit

section tactics
open Lean Elab Tactic Meta

/-- join points / `have`s at the head of both sides of a `Cg` goal -/
elab "cg_jp" : tactic => withMainContext do
  let g ← getMainGoal
  let t ← instantiateMVars (← g.getType)
  let some C := t.getAppFn.constName? | throwError "not a Cg goal"
  unless C == ``Cg do throwError "not a Cg goal"
  let m2 := t.appArg!
  let m1 := t.appFn!.appArg!
  let pre := t.appFn!.appFn!
  let E := pre.appArg!
  let J := pre.appFn!.appArg!
  let .letE n ty v1 b1 _ := m1 | throwError "no join point"
  let .letE _ ty2 v2 b2 _ := m2 | throwError "no join point"
  let .forallE rn rty _ _ ← whnfR ty
    | do let g' ← g.replaceTargetDefEq (mkApp2 pre (b1.instantiate1 v1) (b2.instantiate1 v2))
         replaceMainGoal [g']
         return
  let t2 ← withLocalDeclD rn rty fun r => do
    mkForallFVars #[r] (← mkAppM C #[J, E, (mkApp v1 r).headBeta, (mkApp v2 r).headBeta])
  let t1 ← withLocalDeclD n ty fun jp1 => withLocalDeclD (n.appendAfter "'") ty2 fun jp2 => do
    let hty ← withLocalDeclD rn rty fun r => do
      mkForallFVars #[r] (← mkAppM C #[J, E, mkApp jp1 r, mkApp jp2 r])
    withLocalDeclD `hjp hty fun hjp => do
      mkForallFVars #[jp1, jp2, hjp] (mkApp2 pre (b1.instantiate1 jp1) (b2.instantiate1 jp2))
  let g1 ← mkFreshExprSyntheticOpaqueMVar t1
  let g2 ← mkFreshExprSyntheticOpaqueMVar t2
  g.assign (mkApp3 g1 v1 v2 g2)
  replaceMainGoal [g2.mvarId!, g1.mvarId!]

elab "cg_hyp" : tactic => withMainContext do
  let g ← getMainGoal
  for d in (← getLCtx) do
    if d.isImplementationDetail then continue
    let ty ← instantiateMVars d.type
    if ty.getForallBody.isAppOf ``Cg then
      let s ← saveState
      try
        let gs ← withReducible (g.apply d.toExpr)
        replaceMainGoal gs
        return
      catch _ => s.restore
  throwError "no hypothesis applies"

end tactics

syntax "cg_auto" (" [" term,* "]")? : tactic
macro_rules
  | `(tactic| cg_auto [$ts,*]) => do
    let alts ← ts.getElems.mapM fun t => `(tacticSeq| with_reducible apply $t)
    `(tactic| repeat' first
      | with_reducible refine Cg.of_thr ?_
      | with_reducible exact Thr.pure _ _ _
      | with_reducible exact Thr.get _ _
      | ((with_reducible refine Thr.throw ?_); thr_throw_close)
      | ((with_reducible refine Thr.set ?_); thr_close)
      | ((with_reducible refine Thr.modify ?_); intro _ _; thr_close)
      | ((with_reducible refine Thr.get_bind ?_); intro _ _)
      | with_reducible refine Thr.bind ?_ ?_
      | ((with_reducible refine Cg.get_bind ?_); intro _ _)
      | with_reducible refine Cg.bind ?_ ?_
      | thr_hyp
      | cg_hyp
      $[| $alts]*
      | thr_jp
      | cg_jp
      | intro _
      | split)
  | `(tactic| cg_auto) => `(tactic| cg_auto [Thr.pure _ _ _])

namespace LzxThread
open MsPack.Lzx

variable (files : Files) (L : Nat)

/-- the feeder inside the decoder state is live and announces nothing but `L` -/
def LJ (st : Lzx.St Feeder) : Prop := FeederLive st.src ∧ FeederLen files L st.src

def LE (_files : Files) (_L : Nat) : Lzx.Halt → Lzx.St Feeder → Prop
  | .fault f, _ => ∀ w, f ≠ .nullDeref w
  | .sys _, st => st.error ≠ .ok

theorem LJ_of {files : Files} {L : Nat} {a b : Lzx.St Feeder} (h : LJ files L a) (h1 : b.src = a.src) :
    LJ files L b := by
  unfold LJ at *; rw [h1]; exact h

open Lean Elab Tactic Meta in
/-- `LJ b` from a hypothesis `LJ a` with `b.src = a.src` by `rfl` -/
elab "lj_close" : tactic => withMainContext do
  for d in (← getLCtx) do
    if d.isImplementationDetail then continue
    if (← instantiateMVars d.type).isAppOf ``LJ then
      let s ← saveState
      try
        let stx ← Term.exprToSyntax d.toExpr
        evalTactic (← `(tactic| exact LJ_of $stx rfl))
        return
      catch _ => s.restore
  throwError "no live state in sight"

macro_rules | `(tactic| thr_close) => `(tactic| lj_close)

abbrev SF := feederSrc files
abbrev SL := lenFiltered files L

theorem copyFwd_en : ∀ n a d (w : Array UInt8), EN (copyFwd n a d w) := by
  intro n
  induction n with
  | zero => intro a d w; rw [copyFwd.eq_1]; en_auto
  | succ n ih => intro a d w; rw [copyFwd.eq_2]; en_auto [ih]

theorem writeBytes_en : ∀ (bs : Bytes) d (w : Array UInt8), EN (writeBytes bs d w) := by
  intro bs
  induction bs with
  | nil => intro d w; rw [writeBytes.eq_1]; en_auto
  | cons b rest ih => intro d w; rw [writeBytes.eq_2]; en_auto [ih]

theorem copyAcross_en (src : Array UInt8) (start : Nat) : ∀ n k (dst : Array UInt8), EN (copyAcross src start n k dst) := by
  intro n
  induction n with
  | zero => intro k dst; rw [copyAcross.eq_1]; en_auto
  | succ n ih => intro k dst; rw [copyAcross.eq_2]; en_auto [ih]

theorem e8Loop_en (dataend : Nat) (filesize : Int) : ∀ fuel p curpos (buf : Array UInt8),
    EN (e8Loop dataend filesize fuel p curpos buf) := by
  intro fuel
  induction fuel with
  | zero => intro p curpos buf; rw [e8Loop.eq_1]; en_auto
  | succ fuel ih => intro p curpos buf; rw [e8Loop.eq_2]; en_auto [ih]

theorem outSlice_en (st : Lzx.St Feeder) (n : Nat) : EN (outSlice st n) := by
  unfold outSlice; en_auto

theorem fail_thr {α : Type} : Thr (LJ files L) (LE files L) (fail (σ := Feeder) (α := α) .decrunch) := by
  constructor
  intro st hj r s' h
  unfold fail at h
  rw [CountLaws.Qtm.run_modify_bind] at h
  cases h
  show ({ st with error := Err.decrunch } : Lzx.St Feeder).error ≠ .ok
  intro he; cases he

theorem readInput_thr : Thr (LJ files L) (LE files L) (readInput (feederSrc files)) := by
  unfold readInput
  refine Thr.get_bind_from fun st hj => ?_
  split
  · rename_i f hr
    exact absurd hr (feederSrc_read_no_fault files st.src _ f hj.1)
  · rename_i got src hr
    have hlen : FeederLen files L src := (feederSrc_len_stable files L st.src _ got src hj.2 hr).1
    dsimp only
    split
    · exact thrFrom_set_throw (fun he => by cases he)
    · split
      · exact thrFrom_set_throw (fun he => by cases he)
      · exact thrFrom_set ⟨feederSrc_read_live files st.src _ [] src hj.1 hr, hlen⟩
    · rename_i g _
      exact thrFrom_set ⟨feederSrc_read_live files st.src _ g src hj.1 hr, hlen⟩

theorem readInput_cg : Cg (LJ files L) (LE files L) (readInput (feederSrc files)) (readInput (lenFiltered files L)) := by
  refine ⟨fun st hj => ?_, readInput_thr files L⟩
  unfold readInput
  rw [CountLaws.Qtm.run_get_bind, CountLaws.Qtm.run_get_bind]
  have hread : (lenFiltered files L).read = (feederSrc files).read := rfl
  rw [hread]
  cases hr : (feederSrc files).read st.src st.inbufSize with
  | error f => rfl
  | ok p =>
    obtain ⟨got, src⟩ := p
    have hlen : FeederLen files L src := (feederSrc_len_stable files L st.src _ got src hj.2 hr).1
    have ha := lenFiltered_agrees files L src hlen
    dsimp only
    rw [ha]

theorem nextByte_cg : Cg (LJ files L) (LE files L) (nextByte (feederSrc files)) (nextByte (lenFiltered files L)) := by
  unfold nextByte; cg_auto [readInput_cg files L]

theorem ensureBits_cg (n : Nat) : ∀ fuel, Cg (LJ files L) (LE files L) (ensureBits (feederSrc files) n fuel)
    (ensureBits (lenFiltered files L) n fuel) := by
  intro fuel
  induction fuel with
  | zero => rw [ensureBits.eq_1, ensureBits.eq_1]; cg_auto
  | succ fuel ih => rw [ensureBits.eq_2, ensureBits.eq_2]; cg_auto [ih, nextByte_cg files L]

theorem removeBits_thr (n : Nat) : Thr (LJ files L) (LE files L) (removeBits (σ := Feeder) n) := by
  unfold removeBits; thr_auto

theorem peekBits_thr (n : Nat) : Thr (LJ files L) (LE files L) (peekBits (σ := Feeder) n) := by
  unfold peekBits; thr_auto

theorem readBits_cg (n : Nat) : Cg (LJ files L) (LE files L)
    (readBits (feederSrc files) n) (readBits (lenFiltered files L) n) := by
  unfold readBits; cg_auto [ensureBits_cg files L, removeBits_thr files L, peekBits_thr files L]

theorem readHuffSym_cg (t : Option Huff.Canon) (name : String) : Cg (LJ files L) (LE files L)
    (readHuffSym (feederSrc files) t name) (readHuffSym (lenFiltered files L) t name) := by
  unfold readHuffSym; cg_auto [ensureBits_cg files L, removeBits_thr files L, fail_thr files L]

theorem getLen_thr (t : Tree) (x : Nat) : Thr (LJ files L) (LE files L) (getLen (σ := Feeder) t x) := by
  unfold getLen; thr_auto

theorem setLen_thr (t : Tree) (x : Nat) (v : UInt8) : Thr (LJ files L) (LE files L) (setLen (σ := Feeder) t x v) := by
  unfold setLen; thr_auto

theorem fillLens_thr (t : Tree) (v : UInt8) : ∀ y x, Thr (LJ files L) (LE files L) (fillLens (σ := Feeder) t v y x) := by
  intro y
  induction y with
  | zero => intro x; rw [fillLens.eq_1]; thr_auto
  | succ y ih => intro x; rw [fillLens.eq_2]; thr_auto [ih, setLen_thr files L]

theorem readLensLoop_cg (t : Tree) (pre : Huff.Canon) (last : Nat) : ∀ fuel x, Cg (LJ files L) (LE files L)
    (readLensLoop (feederSrc files) t pre last fuel x) (readLensLoop (lenFiltered files L) t pre last fuel x) := by
  intro fuel
  induction fuel with
  | zero => intro x; rw [readLensLoop.eq_1, readLensLoop.eq_1]; cg_auto
  | succ fuel ih =>
    intro x; rw [readLensLoop.eq_2, readLensLoop.eq_2]
    cg_auto [ih, readHuffSym_cg files L, readBits_cg files L, fillLens_thr files L, getLen_thr files L, setLen_thr files L]

theorem readPretreeLens_cg : ∀ k x, Cg (LJ files L) (LE files L)
    (readPretreeLens (feederSrc files) k x) (readPretreeLens (lenFiltered files L) k x) := by
  intro k
  induction k with
  | zero => intro x; rw [readPretreeLens.eq_1, readPretreeLens.eq_1]; cg_auto
  | succ k ih => intro x; rw [readPretreeLens.eq_2, readPretreeLens.eq_2]; cg_auto [ih, readBits_cg files L]

theorem readLengths_cg (fuel : Nat) (t : Tree) (first last : Nat) : Cg (LJ files L) (LE files L)
    (readLengths (feederSrc files) fuel t first last) (readLengths (lenFiltered files L) fuel t first last) := by
  unfold readLengths; cg_auto [readPretreeLens_cg files L, readLensLoop_cg files L, fail_thr files L]

theorem readAlignedLens_cg : ∀ k x, Cg (LJ files L) (LE files L)
    (readAlignedLens (feederSrc files) k x) (readAlignedLens (lenFiltered files L) k x) := by
  intro k
  induction k with
  | zero => intro x; rw [readAlignedLens.eq_1, readAlignedLens.eq_1]; cg_auto
  | succ k ih => intro x; rw [readAlignedLens.eq_2, readAlignedLens.eq_2]; cg_auto [ih, readBits_cg files L]

theorem readRaw_cg : ∀ k acc, Cg (LJ files L) (LE files L)
    (readRaw (feederSrc files) k acc) (readRaw (lenFiltered files L) k acc) := by
  intro k
  induction k with
  | zero => intro acc; rw [readRaw.eq_1, readRaw.eq_1]; cg_auto
  | succ k ih => intro acc; rw [readRaw.eq_2, readRaw.eq_2]; cg_auto [ih, nextByte_cg files L]

theorem readBlockHeader_cg (fuel : Nat) : Cg (LJ files L) (LE files L)
    (readBlockHeader (feederSrc files) fuel) (readBlockHeader (lenFiltered files L) fuel) := by
  unfold readBlockHeader
  cg_auto [nextByte_cg files L, readBits_cg files L, readAlignedLens_cg files L, readLengths_cg files L,
    getLen_thr files L, ensureBits_cg files L, readRaw_cg files L, fail_thr files L]

theorem winCopy_thr (n src dst : Nat) : Thr (LJ files L) (LE files L) (winCopy (σ := Feeder) n src dst) := by
  unfold winCopy
  refine Thr.modifyGet_bind (fun r => ∀ f, r = some f → ∀ w, f ≠ .nullDeref w) (fun st hj => ?_) (fun r hr => ?_)
  · dsimp only
    split
    · exact ⟨LJ_of hj rfl, fun f h => by cases h⟩
    · rename_i f hf
      exact ⟨LJ_of hj rfl, fun f' h => by cases h; exact (copyFwd_en _ _ _ _).out _ hf⟩
  · cases r with
    | none => exact Thr.pure _ _ _
    | some f => exact Thr.throw fun _ _ => hr f rfl

theorem putLiteral_thr (b : UInt8) : Thr (LJ files L) (LE files L) (putLiteral (σ := Feeder) b) := by
  unfold putLiteral
  refine Thr.modifyGet_bind (fun _ => True) (fun st hj => ?_) (fun r _ => ?_)
  · split
    · exact ⟨LJ_of hj rfl, trivial⟩
    · exact ⟨hj, trivial⟩
  · thr_auto

theorem readOffset_cg (c : RunCtx) (slot : Nat) : Cg (LJ files L) (LE files L)
    (readOffset (feederSrc files) c slot) (readOffset (lenFiltered files L) c slot) := by
  unfold readOffset; cg_auto [readBits_cg files L, readHuffSym_cg files L]

theorem readExtraLen_cg : Cg (LJ files L) (LE files L)
    (readExtraLen (feederSrc files)) (readExtraLen (lenFiltered files L)) := by
  unfold readExtraLen
  cg_auto [ensureBits_cg files L, peekBits_thr files L, removeBits_thr files L, readBits_cg files L]

theorem copyMatch_thr (c : RunCtx) (mo ml : Nat) : Thr (LJ files L) (LE files L) (copyMatch (σ := Feeder) c mo ml) := by
  unfold copyMatch; thr_auto [winCopy_thr files L, fail_thr files L]

theorem decodeRun_cg (c : RunCtx) : ∀ fuel r, Cg (LJ files L) (LE files L)
    (decodeRun (feederSrc files) c fuel r) (decodeRun (lenFiltered files L) c fuel r) := by
  intro fuel
  induction fuel with
  | zero => intro r; rw [decodeRun.eq_1, decodeRun.eq_1]; cg_auto
  | succ fuel ih =>
    intro r; rw [decodeRun.eq_2, decodeRun.eq_2]
    cg_auto [ih, readHuffSym_cg files L, putLiteral_thr files L, fail_thr files L, readOffset_cg files L,
      readExtraLen_cg files L, copyMatch_thr files L]

theorem copyRaw_cg : ∀ fuel dest r, Cg (LJ files L) (LE files L)
    (copyRaw (feederSrc files) fuel dest r) (copyRaw (lenFiltered files L) fuel dest r) := by
  intro fuel
  induction fuel with
  | zero => intro dest r; rw [copyRaw.eq_1, copyRaw.eq_1]; cg_auto
  | succ fuel ih =>
    intro dest r; rw [copyRaw.eq_2, copyRaw.eq_2]
    split
    · cg_auto
    · refine Cg.get_bind fun st hj => ?_
      split
      · cg_auto [ih, readInput_cg files L]
      · refine Cg.modifyGet_bind (fun r => ∀ f, r = .error f → ∀ w, f ≠ .nullDeref w) (fun st hj => ?_)
          (fun a ha => ?_)
        · dsimp only
          split
          · rename_i f hf
            exact ⟨LJ_of hj rfl, fun f' h => by cases h; exact (writeBytes_en _ _ _).out _ hf⟩
          · exact ⟨LJ_of hj rfl, fun f h => by cases h⟩
        · cases a with
          | error f => exact Cg.of_thr (Thr.throw fun _ _ => ha f rfl)
          | ok n => exact ih _ _

theorem blockLoop_cg : ∀ fuel b, Cg (LJ files L) (LE files L)
    (blockLoop (feederSrc files) fuel b) (blockLoop (lenFiltered files L) fuel b) := by
  intro fuel
  induction fuel with
  | zero => intro b; rw [blockLoop.eq_1, blockLoop.eq_1]; cg_auto
  | succ fuel ih =>
    intro b; rw [blockLoop.eq_2, blockLoop.eq_2]
    cg_auto [ih, readBlockHeader_cg files L, decodeRun_cg files L, copyRaw_cg files L, fail_thr files L]

theorem frameBody_cg (fuel outBytes : Nat) : Cg (LJ files L) (LE files L)
    (frameBody (feederSrc files) fuel outBytes) (frameBody (lenFiltered files L) fuel outBytes) := by
  unfold frameBody
  cg_auto [ensureBits_cg files L, removeBits_thr files L, readBits_cg files L, readInput_cg files L,
    blockLoop_cg files L, fail_thr files L]
  all_goals (rename_i heq; first
    | exact (outSlice_en _ _).out _ heq _ rfl
    | exact (copyAcross_en _ _ _ _ _).out _ heq _ rfl
    | exact (e8Loop_en _ _ _ _ _ _).out _ heq _ rfl)

/-! ### the API level -/

/-- one call: a fault is not a null dereference; unless the sticky error is set in the state returned,
    that state satisfies `LJ` and the status returned is OK -/
def LOut : Except Fault (DecodeOut (Lzx.St Feeder)) → Prop
  | .error f => ∀ w, f ≠ .nullDeref w
  | .ok o => o.st.error = .ok → LJ files L o.st ∧ o.err = .ok

theorem frameLoop_tail (st : Lzx.St Feeder) (outBytes : Nat) (acc : Array UInt8) (hj : LJ files L st) :
    LOut files L (if outBytes ≠ 0 then .ok ⟨.decrunch, acc.toList, { st with error := .decrunch }⟩
      else .ok ⟨.ok, acc.toList, st⟩) := by
  split
  · intro he; cases he
  · exact fun _ => ⟨hj, rfl⟩

theorem frameLoop_cg (fuel endFrame : Nat) : ∀ (n : Nat) (st : Lzx.St Feeder) (outBytes : Nat) (acc : Array UInt8),
    LJ files L st →
    frameLoop (feederSrc files) fuel endFrame n st outBytes acc =
      frameLoop (lenFiltered files L) fuel endFrame n st outBytes acc ∧
    LOut files L (frameLoop (feederSrc files) fuel endFrame n st outBytes acc) := by
  intro n
  induction n with
  | zero =>
    intro st outBytes acc hj
    rw [frameLoop.eq_1, frameLoop.eq_1]
    refine ⟨rfl, ?_⟩
    split
    · intro w h; cases h
    · exact frameLoop_tail files L st outBytes acc hj
  | succ n ih =>
    intro st outBytes acc hj
    rw [frameLoop.eq_2, frameLoop.eq_2]
    by_cases hc : st.frame < endFrame ∧ ¬ (st.length ≠ 0 ∧ st.offset ≥ st.length)
    · simp only [if_pos hc]
      have hb := frameBody_cg files L fuel outBytes
      rw [← hb.eq st hj]
      cases hr : (frameBody (feederSrc files) fuel outBytes).run.run st with
      | mk r s1 =>
        have hp := hb.thr.out st hj _ _ hr
        cases r with
        | ok chunk => exact ih _ _ _ hp
        | error e =>
          cases e with
          | sys e => exact ⟨rfl, fun he => absurd he hp⟩
          | fault f => exact ⟨rfl, hp⟩
    · simp only [if_neg hc]
      exact ⟨trivial, frameLoop_tail files L st outBytes acc hj⟩

theorem decompress_cg (fuel : Nat) (st : Lzx.St Feeder) (n : Nat) (hj : st.error = .ok → LJ files L st) :
    Lzx.decompress (feederSrc files) fuel st n = Lzx.decompress (lenFiltered files L) fuel st n ∧
    LOut files L (Lzx.decompress (feederSrc files) fuel st n) := by
  unfold Lzx.decompress
  by_cases he : st.error ≠ .ok
  · simp only [if_pos he]
    exact ⟨trivial, fun h => absurd h he⟩
  · simp only [if_neg he]
    have hj' : LJ files L st := hj (Decidable.not_not.mp he)
    cases ho : outSlice st (min (st.oEnd - st.oPtr) n) with
    | error f => exact ⟨rfl, (outSlice_en _ _).out _ ho⟩
    | ok chunk =>
      dsimp only
      by_cases h0 : n - min (st.oEnd - st.oPtr) n = 0
      · simp only [if_pos h0]
        exact ⟨trivial, fun _ => ⟨LJ_of hj' rfl, rfl⟩⟩
      · simp only [if_neg h0]
        exact frameLoop_cg files L fuel _ _ _ _ _ (LJ_of hj' rfl)

end LzxThread
end MsPack.CabLift
