import MsPack.Oab.Decompress
import MsPack.Spec.CabEncode
/-
Helper lemmas for Proofs/Props/C06.lean: little-endian header fields, reading at a position,
`copy_fh`'s loop, one round and the whole `while (target_size)` loop of both OAB decompressors on
well-formed blocks.
-/
namespace MsPack.Oab
open MsPack MsPack.Generated

/-! ## little-endian fields -/

theorem ofNat_toNat_lt (x : Nat) (h : x < 256) : (UInt8.ofNat x).toNat = x := by
  simp [UInt8.toNat_ofNat']; omega

theorem hdr_fields (a b c d : Nat) (ha : a < 4294967296) (hb : b < 4294967296) (hc : c < 4294967296) (hd : d < 4294967296) :
    (enc32 a ++ enc32 b ++ enc32 c ++ enc32 d).length = 16 ∧ u32At (enc32 a ++ enc32 b ++ enc32 c ++ enc32 d) 0 = a ∧
    u32At (enc32 a ++ enc32 b ++ enc32 c ++ enc32 d) 4 = b ∧ u32At (enc32 a ++ enc32 b ++ enc32 c ++ enc32 d) 8 = c ∧
    u32At (enc32 a ++ enc32 b ++ enc32 c ++ enc32 d) 12 = d := by
  simp only [enc32, u32At, byteAt, le32, List.cons_append, List.nil_append, List.getD_cons_zero, List.getD_cons_succ, List.length_cons, List.length_nil]
  refine ⟨trivial, ?_, ?_, ?_, ?_⟩ <;>
  · rw [ofNat_toNat_lt _ (Nat.mod_lt _ (by decide)), ofNat_toNat_lt _ (Nat.mod_lt _ (by decide)),
        ofNat_toNat_lt _ (Nat.mod_lt _ (by decide)), ofNat_toNat_lt _ (Nat.mod_lt _ (by decide))]
    omega

/-! ## reading from a position -/

theorem read_prefix (file : Bytes) (pos : Nat) (a rest : Bytes) (h : file.drop pos = a ++ rest) :
    (⟨file, pos⟩ : Rd).read a.length = (a, ⟨file, pos + a.length⟩) := by
  simp [Rd.read, h]

theorem readExact_prefix (file : Bytes) (pos : Nat) (a rest : Bytes) (h : file.drop pos = a ++ rest) :
    (⟨file, pos⟩ : Rd).readExact a.length = some (a, ⟨file, pos + a.length⟩) := by
  simp [Rd.readExact, read_prefix file pos a rest h]

theorem drop_after (file : Bytes) (pos : Nat) (a rest : Bytes) (h : file.drop pos = a ++ rest) :
    file.drop (pos + a.length) = rest := by
  rw [← List.drop_drop, h, List.drop_left]

/-- `copy_fh` with an output handle moves exactly the bytes asked for, whatever the buffer size -/
theorem copyFhLoop_spec (bufSize : Nat) (hb : 0 < bufSize) (file : Bytes) :
    ∀ (fuel pos : Nat) (a rest racc : Bytes), file.drop pos = a ++ rest → a.length ≤ fuel →
      copyFhLoop true bufSize fuel ⟨file, pos⟩ a.length racc = .ok ⟨.ok, racc.reverse ++ a, ⟨file, pos + a.length⟩⟩ := by
  intro fuel
  induction fuel with
  | zero =>
    intro pos a rest racc _ hl
    have : a = [] := List.length_eq_zero_iff.mp (by omega)
    subst this; simp [copyFhLoop]
  | succ fuel ih =>
    intro pos a rest racc hd hl
    unfold copyFhLoop
    by_cases h0 : a.length = 0
    · have : a = [] := List.length_eq_zero_iff.mp h0
      subst this; simp
    · rw [if_neg h0]
      -- the chunk moved in this round
      let run := if bufSize > a.length then a.length else bufSize
      have hrun : run ≤ a.length := by simp only [run]; split <;> omega
      have hrun0 : 0 < run := by simp only [run]; split <;> omega
      have hsplit : file.drop pos = a.take run ++ (a.drop run ++ rest) := by
        rw [← List.append_assoc, List.take_append_drop]; exact hd
      have htl : (a.take run).length = run := by rw [List.length_take]; omega
      have hr := read_prefix file pos (a.take run) (a.drop run ++ rest) hsplit
      rw [htl] at hr
      show (let run := if bufSize > a.length then a.length else bufSize; _) = _
      simp only
      rw [hr]
      simp only [htl, ne_eq, ↓reduceIte]
      have hd' : file.drop (pos + run) = a.drop run ++ rest := by
        have := drop_after file pos (a.take run) (a.drop run ++ rest) hsplit
        rw [htl] at this; exact this
      have hlen : a.length - run = (a.drop run).length := by rw [List.length_drop]
      rw [hlen, ih (pos + run) (a.drop run) rest _ hd' (by rw [List.length_drop]; omega)]
      simp only [List.reverse_append, List.reverse_reverse, List.append_assoc, List.take_append_drop,
        List.length_drop]
      rw [if_neg (fun h => h rfl)]
      have : pos + run + (a.length - run) = pos + a.length := by omega
      rw [this]

theorem copyFh_spec (bufSize : Nat) (hb : 0 < bufSize) (file : Bytes) (pos : Nat) (a rest : Bytes)
    (h : file.drop pos = a ++ rest) :
    copyFh true ⟨file, pos⟩ a.length bufSize = .ok ⟨.ok, a, ⟨file, pos + a.length⟩⟩ := by
  unfold copyFh
  rw [copyFhLoop_spec bufSize hb file a.length pos a rest [] h (Nat.le_refl _)]
  simp

/-! ## full files -/

/-- one block of a full OAB file as the writer laid it out -/
structure Blk where
  lzx     : Bool
  data    : Bytes      -- what the block decompresses to
  payload : Bytes      -- the bytes stored in the file (incl. any padding after the LZX data)
  crc     : Nat

def encBlk (b : Blk) : Bytes :=
  enc32 (if b.lzx then 1 else 0) ++ enc32 b.payload.length ++ enc32 b.data.length ++ enc32 b.crc ++ b.payload

def total (bs : List Blk) : Nat := (bs.map (·.data.length)).sum
def plain (bs : List Blk) : Bytes := bs.flatMap (·.data)

def encFull (blockMax : Nat) (bs : List Blk) : Bytes :=
  enc32 3 ++ enc32 1 ++ enc32 blockMax ++ enc32 (total bs) ++ bs.flatMap encBlk

/-- the decoder law of one LZX block (hypothesis, see the header): wherever the payload sits in a
    file, `lzxd_init` succeeds with the window size oabd.c derives, and decoding + padding skip +
    CRC comparison deliver exactly the block's data and leave the input after the payload -/
def LzxLaw (fuel bufSize : Nat) (fill : UInt8) (b : Blk) : Prop :=
  ∀ (file : Bytes) (pos : Nat) (rest : Bytes), file.drop pos = b.payload ++ rest →
    ∃ lzx, lzxInit ⟨⟨file, pos⟩, b.payload.length⟩ (windowBits b.data.length) bufSize b.data.length fill = some lzx ∧
      lzxBlockTail fuel bufSize lzx b.data.length b.crc = .ok ⟨.ok, b.data, ⟨file, pos + b.payload.length⟩⟩

/-- well-formed block: sizes fit their fields and `block_max`; a stored block's payload is its data -/
def Blk.wf (fuel bufSize : Nat) (fill : UInt8) (blockMax : Nat) (b : Blk) : Prop :=
  b.data.length ≤ blockMax ∧ b.payload.length < 4294967296 ∧ b.crc < 4294967296 ∧
  (if b.lzx then LzxLaw fuel bufSize fill b else b.payload = b.data)

theorem plain_nil_of_total (bs : List Blk) (h : total bs = 0) : plain bs = [] := by
  induction bs with
  | nil => rfl
  | cons b bs ih =>
    simp only [total, List.map_cons, List.sum_cons] at h
    have h1 : b.data = [] := List.length_eq_zero_iff.mp (by omega)
    have h2 : total bs = 0 := by simp only [total]; omega
    simp [plain, h1] at *
    exact ih h2

theorem fullLoop_zero (fuel bufSize : Nat) (fill : UInt8) (blockMax n : Nat) (rd : Rd) (w : Bytes) :
    fullLoop fuel bufSize fill blockMax n rd 0 w = .ok (.ok, w) := by
  cases n with
  | zero => rw [fullLoop.eq_1, if_pos rfl]
  | succ n => rw [fullLoop.eq_2, if_pos rfl]

/-- one round on a well-formed block: its data is appended, the input stands after its payload -/
theorem fullBlock_spec (fuel bufSize : Nat) (hb : 0 < bufSize) (fill : UInt8) (blockMax : Nat)
    (file : Bytes) (b : Blk) (pos targetSize : Nat) (rest w : Bytes)
    (hd : file.drop pos = encBlk b ++ rest) (hwf : b.wf fuel bufSize fill blockMax)
    (hbm : blockMax < 4294967296) (ht : b.data.length ≤ targetSize) :
    fullBlock fuel bufSize fill blockMax ⟨file, pos⟩ targetSize w =
      .ok (.next ⟨file, pos + (encBlk b).length⟩ 0 (targetSize - b.data.length) (w ++ b.data)) := by
  obtain ⟨hdl, hpl, hcrc, hkind⟩ := hwf
  have hflag : (if b.lzx then 1 else 0 : Nat) < 4294967296 := by split <;> omega
  obtain ⟨hlen, f0, f1, f2, f3⟩ := hdr_fields (if b.lzx then 1 else 0) b.payload.length b.data.length b.crc
    hflag hpl (by omega) hcrc
  have hd1 : file.drop pos = (enc32 (if b.lzx then 1 else 0) ++ enc32 b.payload.length ++ enc32 b.data.length ++ enc32 b.crc)
      ++ (b.payload ++ rest) := by
    rw [hd]; simp [encBlk, List.append_assoc]
  have hre := readExact_prefix file pos _ _ hd1
  rw [hlen] at hre
  have hd2 := drop_after file pos _ _ hd1
  rw [hlen] at hd2
  have hel : (encBlk b).length = 16 + b.payload.length := by simp [encBlk, enc32]; omega
  unfold fullBlock
  rw [show oabblkSIZEOF = 16 from rfl, hre]
  generalize enc32 (if b.lzx then 1 else 0) ++ enc32 b.payload.length ++ enc32 b.data.length ++ enc32 b.crc = hdr at f0 f1 f2 f3 ⊢
  simp only [oabblk_Flags, oabblk_CompSize, oabblk_UncompSize, oabblk_CRC, f0, f1, f2, f3]
  have hc1 : ¬(b.data.length > blockMax ∨ b.data.length > targetSize ∨ (if b.lzx then 1 else 0 : Nat) > 1) := by
    split <;> omega
  rw [if_neg hc1]
  cases hl : b.lzx with
  | false =>
    simp only [hl, Bool.false_eq_true, ↓reduceIte] at hkind ⊢
    rw [if_neg (by rw [hkind]; simp)]
    have hd3 : file.drop (pos + 16) = b.data ++ rest := by rw [hd2, hkind]
    rw [copyFh_spec bufSize hb file (pos + 16) b.data _ hd3]
    simp only [ne_eq, not_true_eq_false, ↓reduceIte, hel, hkind]
    congr 3; omega
  | true =>
    simp only [hl, ↓reduceIte] at hkind ⊢
    obtain ⟨lzx, hinit, htail⟩ := hkind file (pos + 16) _ hd2
    simp only [Nat.reduceEqDiff, ↓reduceIte, hinit, htail, ne_eq, not_true_eq_false, hel]
    congr 3; omega

theorem fullLoop_spec (fuel bufSize : Nat) (hb : 0 < bufSize) (fill : UInt8) (blockMax : Nat)
    (hbm : blockMax < 4294967296) (file : Bytes) :
    ∀ (bs : List Blk) (n pos : Nat) (rest w : Bytes),
      file.drop pos = bs.flatMap encBlk ++ rest → bs.length ≤ n →
      (∀ b ∈ bs, b.wf fuel bufSize fill blockMax) →
      fullLoop fuel bufSize fill blockMax n ⟨file, pos⟩ (total bs) w = .ok (.ok, w ++ plain bs) := by
  intro bs
  induction bs with
  | nil => intro n pos rest w _ _ _; simp [total, plain, fullLoop_zero]
  | cons b bs ih =>
    intro n pos rest w hd hn hwf
    by_cases ht : total (b :: bs) = 0
    · rw [ht, fullLoop_zero, plain_nil_of_total _ ht]; simp
    · obtain ⟨n, rfl⟩ : ∃ m, n = m + 1 := ⟨n - 1, by simp at hn; omega⟩
      have hwf' : ∀ b' ∈ bs, b'.wf fuel bufSize fill blockMax := fun b' h => hwf b' (List.mem_cons_of_mem _ h)
      have htot : total (b :: bs) = b.data.length + total bs := by simp [total]
      have hd1 : file.drop pos = encBlk b ++ (bs.flatMap encBlk ++ rest) := by
        rw [hd]; simp [List.append_assoc]
      rw [fullLoop.eq_2, if_neg ht,
        fullBlock_spec fuel bufSize hb fill blockMax file b pos _ _ w hd1 (hwf b (List.mem_cons_self ..)) hbm (by omega)]
      simp only
      have hsub : total (b :: bs) - b.data.length = total bs := by omega
      rw [hsub, ih n _ rest _ (drop_after file pos _ _ hd1) (by simp at hn; omega) hwf']
      have : plain (b :: bs) = b.data ++ plain bs := rfl
      rw [this, List.append_assoc]

theorem flatMap_encBlk_length (bs : List Blk) : 16 * bs.length ≤ (bs.flatMap encBlk).length := by
  induction bs with
  | nil => simp
  | cons b bs ih =>
    simp only [List.flatMap_cons, List.length_append, List.length_cons, encBlk, enc32, List.length_nil]
    omega

/-! ## incremental patches -/

/-- one block of a patch: LZX DELTA data decoding to `data` against `ref`, the next `ref.length`
    bytes of the base file -/
structure PBlk where
  data    : Bytes
  ref     : Bytes
  payload : Bytes
  crc     : Nat

def encPBlk (b : PBlk) : Bytes :=
  enc32 b.payload.length ++ enc32 b.data.length ++ enc32 b.ref.length ++ enc32 b.crc ++ b.payload

def ptotal (bs : List PBlk) : Nat := (bs.map (·.data.length)).sum
def pplain (bs : List PBlk) : Bytes := bs.flatMap (·.data)
def pbase (bs : List PBlk) : Bytes := bs.flatMap (·.ref)

def encPatch (blockMax sourceSize sourceCrc targetCrc : Nat) (bs : List PBlk) : Bytes :=
  enc32 3 ++ enc32 2 ++ enc32 blockMax ++ enc32 sourceSize ++ (enc32 (ptotal bs) ++ enc32 sourceCrc ++ enc32 targetCrc)
    ++ bs.flatMap encPBlk

/-- decoder law of one patch block (hypothesis): with the window size oabd.c derives from the
    source and target sizes and the reference data loaded, decoding delivers the block's data -/
def PatchLaw (fuel bufSize : Nat) (fill : UInt8) (b : PBlk) : Prop :=
  ∀ (file : Bytes) (pos : Nat) (rest : Bytes), file.drop pos = b.payload ++ rest →
    ∃ lzx lzx', lzxInit ⟨⟨file, pos⟩, b.payload.length⟩ (windowBits (patchWindowSize b.ref.length b.data.length)) 4096 b.data.length fill = some lzx ∧
      Lzx.setReferenceData lzx b.ref.length (some b.ref) = (.ok, lzx') ∧
      lzxBlockTail fuel bufSize lzx' b.data.length b.crc = .ok ⟨.ok, b.data, ⟨file, pos + b.payload.length⟩⟩

def PBlk.wf (fuel bufSize : Nat) (fill : UInt8) (blockMax : Nat) (b : PBlk) : Prop :=
  b.data.length ≤ blockMax ∧ b.ref.length ≤ blockMax ∧ b.payload.length < 4294967296 ∧ b.crc < 4294967296 ∧
  PatchLaw fuel bufSize fill b

theorem pplain_nil_of_total (bs : List PBlk) (h : ptotal bs = 0) : pplain bs = [] := by
  induction bs with
  | nil => rfl
  | cons b bs ih =>
    simp only [ptotal, List.map_cons, List.sum_cons] at h
    have h1 : b.data = [] := List.length_eq_zero_iff.mp (by omega)
    have h2 : ptotal bs = 0 := by simp only [ptotal]; omega
    simp [pplain, h1] at *
    exact ih h2

theorem patchLoop_zero (fuel bufSize : Nat) (fill : UInt8) (blockMax : Nat) (base : Bytes) (n : Nat) (rd : Rd) (bp : Nat) (w : Bytes) :
    patchLoop fuel bufSize 4096 fill blockMax base false n rd bp 0 w = .ok (.ok, w) := by
  cases n with
  | zero => rw [patchLoop.eq_1, if_pos rfl]
  | succ n => rw [patchLoop.eq_2, if_pos rfl]

theorem patchBlock_spec (fuel bufSize : Nat) (fill : UInt8) (blockMax : Nat)
    (file base : Bytes) (b : PBlk) (pos bpos targetSize : Nat) (rest brest w : Bytes)
    (hd : file.drop pos = encPBlk b ++ rest) (hbd : base.drop bpos = b.ref ++ brest)
    (hwf : b.wf fuel bufSize fill blockMax) (hbm : blockMax < 4294967296) (ht : b.data.length ≤ targetSize) :
    patchBlock fuel bufSize 4096 fill blockMax base false ⟨file, pos⟩ bpos targetSize w =
      .ok (.next ⟨file, pos + (encPBlk b).length⟩ (bpos + b.ref.length) (targetSize - b.data.length) (w ++ b.data)) := by
  obtain ⟨hdl, hrl, hpl, hcrc, hlaw⟩ := hwf
  obtain ⟨hlen, f0, f1, f2, f3⟩ := hdr_fields b.payload.length b.data.length b.ref.length b.crc
    hpl (by omega) (by omega) hcrc
  have hd1 : file.drop pos = (enc32 b.payload.length ++ enc32 b.data.length ++ enc32 b.ref.length ++ enc32 b.crc)
      ++ (b.payload ++ rest) := by
    rw [hd]; simp [encPBlk, List.append_assoc]
  have hre := readExact_prefix file pos _ _ hd1
  rw [hlen] at hre
  have hd2 := drop_after file pos _ _ hd1
  rw [hlen] at hd2
  have hbr := read_prefix base bpos _ _ hbd
  have hel : (encPBlk b).length = 16 + b.payload.length := by simp [encPBlk, enc32]; omega
  unfold patchBlock
  rw [show patchblkSIZEOF = 16 from rfl, hre]
  generalize enc32 b.payload.length ++ enc32 b.data.length ++ enc32 b.ref.length ++ enc32 b.crc = hdr at f0 f1 f2 f3 ⊢
  simp only [patchblk_PatchSize, patchblk_TargetSize, patchblk_SourceSize, patchblk_CRC, f0, f1, f2, f3]
  have hc1 : ¬(b.data.length > blockMax ∨ b.data.length > targetSize ∨ b.ref.length > blockMax) := by omega
  rw [if_neg hc1]
  obtain ⟨lzx, lzx', hinit, hset, htail⟩ := hlaw file (pos + 16) _ hd2
  simp only [hinit, Bool.false_eq_true, ↓reduceIte, hbr, hset, htail, ne_eq, not_true_eq_false, hel]
  congr 3; omega

theorem patchLoop_spec (fuel bufSize : Nat) (fill : UInt8) (blockMax : Nat)
    (hbm : blockMax < 4294967296) (file base : Bytes) :
    ∀ (bs : List PBlk) (n pos bpos : Nat) (rest brest w : Bytes),
      file.drop pos = bs.flatMap encPBlk ++ rest → base.drop bpos = pbase bs ++ brest → bs.length ≤ n →
      (∀ b ∈ bs, b.wf fuel bufSize fill blockMax) →
      patchLoop fuel bufSize 4096 fill blockMax base false n ⟨file, pos⟩ bpos (ptotal bs) w = .ok (.ok, w ++ pplain bs) := by
  intro bs
  induction bs with
  | nil => intro n pos bpos rest brest w _ _ _ _; simp [ptotal, pplain, patchLoop_zero]
  | cons b bs ih =>
    intro n pos bpos rest brest w hd hbd hn hwf
    by_cases ht : ptotal (b :: bs) = 0
    · rw [ht, patchLoop_zero, pplain_nil_of_total _ ht]; simp
    · obtain ⟨n, rfl⟩ : ∃ m, n = m + 1 := ⟨n - 1, by simp at hn; omega⟩
      have hwf' : ∀ b' ∈ bs, b'.wf fuel bufSize fill blockMax := fun b' h => hwf b' (List.mem_cons_of_mem _ h)
      have htot : ptotal (b :: bs) = b.data.length + ptotal bs := by simp [ptotal]
      have hd1 : file.drop pos = encPBlk b ++ (bs.flatMap encPBlk ++ rest) := by
        rw [hd]; simp [List.append_assoc]
      have hbd1 : base.drop bpos = b.ref ++ (pbase bs ++ brest) := by
        rw [hbd]; simp [pbase, List.append_assoc]
      rw [patchLoop.eq_2, if_neg ht,
        patchBlock_spec fuel bufSize fill blockMax file base b pos bpos _ _ _ w hd1 hbd1 (hwf b (List.mem_cons_self ..)) hbm (by omega)]
      simp only
      have hsub : ptotal (b :: bs) - b.data.length = ptotal bs := by omega
      rw [hsub, ih n _ _ rest brest _ (drop_after file pos _ _ hd1) (drop_after base bpos _ _ hbd1) (by simp at hn; omega) hwf']
      have : pplain (b :: bs) = b.data ++ pplain bs := rfl
      rw [this, List.append_assoc]

theorem flatMap_encPBlk_length (bs : List PBlk) : 16 * bs.length ≤ (bs.flatMap encPBlk).length := by
  induction bs with
  | nil => simp
  | cons b bs ih =>
    simp only [List.flatMap_cons, List.length_append, List.length_cons, encPBlk, enc32, List.length_nil]
    omega

theorem patch_hdr_fields (a b c d e f g : Nat) (ha : a < 4294967296) (hb : b < 4294967296) (hc : c < 4294967296)
    (he : e < 4294967296) :
    (enc32 a ++ enc32 b ++ enc32 c ++ enc32 d ++ (enc32 e ++ enc32 f ++ enc32 g)).length = 28 ∧
    u32At (enc32 a ++ enc32 b ++ enc32 c ++ enc32 d ++ (enc32 e ++ enc32 f ++ enc32 g)) 0 = a ∧
    u32At (enc32 a ++ enc32 b ++ enc32 c ++ enc32 d ++ (enc32 e ++ enc32 f ++ enc32 g)) 4 = b ∧
    u32At (enc32 a ++ enc32 b ++ enc32 c ++ enc32 d ++ (enc32 e ++ enc32 f ++ enc32 g)) 8 = c ∧
    u32At (enc32 a ++ enc32 b ++ enc32 c ++ enc32 d ++ (enc32 e ++ enc32 f ++ enc32 g)) 16 = e := by
  simp only [enc32, u32At, byteAt, le32, List.cons_append, List.nil_append, List.getD_cons_zero, List.getD_cons_succ, List.length_cons, List.length_nil]
  refine ⟨trivial, ?_, ?_, ?_, ?_⟩ <;>
  · rw [ofNat_toNat_lt _ (Nat.mod_lt _ (by decide)), ofNat_toNat_lt _ (Nat.mod_lt _ (by decide)),
        ofNat_toNat_lt _ (Nat.mod_lt _ (by decide)), ofNat_toNat_lt _ (Nat.mod_lt _ (by decide))]
    omega

end MsPack.Oab

namespace MsPack.Oab
open MsPack MsPack.Generated

/-! ## the API functions, given what the header read delivers (everything opaque, so that neither
the elaborator nor the kernel is tempted to evaluate header fields of a concrete buffer) -/

theorem decompress_of_header (fuel bufSize : Nat) (fill : UInt8) (file hdr : Bytes) (blockMax targetSize : Nat)
    (r : Err × Bytes)
    (hre : (⟨file, 0⟩ : Rd).readExact 16 = some (hdr, ⟨file, 16⟩))
    (f0 : u32At hdr 0 = 3) (f1 : u32At hdr 4 = 1) (f2 : u32At hdr 8 = blockMax) (f3 : u32At hdr 12 = targetSize)
    (hloop : fullLoop fuel bufSize fill blockMax (file.length / 16 + 1) ⟨file, 16⟩ targetSize [] = .ok r) :
    decompress fuel bufSize fill (some file) = .ok ⟨r.1, some r.2⟩ := by
  have h1 : fullRun fuel bufSize fill file.length blockMax targetSize ⟨file, 16⟩ false = .ok ⟨r.1, some r.2⟩ := by
    unfold fullRun
    simp only [Bool.false_eq_true, ↓reduceIte, hloop, wrapLoop]
  unfold decompress
  simp only [show oabheadSIZEOF = 16 from rfl, hre, oabhead_VersionHi, oabhead_VersionLo, oabhead_BlockMax,
    oabhead_TargetSize, f0, f1, f2, f3, ne_eq, not_true_eq_false, or_self, ↓reduceIte, h1]

theorem decompressIncremental_of_header (fuel bufSize : Nat) (fill : UInt8) (file base hdr : Bytes)
    (blockMax targetSize : Nat) (r : Err × Bytes)
    (hre : (⟨file, 0⟩ : Rd).readExact 28 = some (hdr, ⟨file, 28⟩))
    (f0 : u32At hdr 0 = 3) (f1 : u32At hdr 4 = 2) (f2 : u32At hdr 8 = blockMax) (f4 : u32At hdr 16 = targetSize)
    (hloop : patchLoop fuel bufSize 4096 fill (if blockMax < 16 then 16 else blockMax) base false (file.length / 16 + 1)
               ⟨file, 28⟩ 0 targetSize [] = .ok r) :
    decompressIncremental fuel bufSize fill (some file) (some base) = .ok ⟨r.1, some r.2⟩ := by
  have h1 : incrementalLoop fuel bufSize 4096 fill file.length blockMax targetSize ⟨file, 28⟩ base false false = .ok ⟨r.1, some r.2⟩ := by
    unfold incrementalLoop
    simp only [show patchblkSIZEOF = 16 from rfl, Bool.false_eq_true, ↓reduceIte, hloop, wrapLoop]
  have h2 : incrementalOpened fuel bufSize 4096 fill file (some base) false false = .ok ⟨r.1, some r.2⟩ := by
    unfold incrementalOpened
    simp only [show patchheadSIZEOF = 28 from rfl, hre, patchhead_VersionHi, patchhead_VersionLo, patchhead_BlockMax,
      patchhead_TargetSize, f0, f1, f2, f4, ne_eq, not_true_eq_false, or_self, ↓reduceIte, incrementalBase, h1]
  unfold decompressIncremental
  exact h2

end MsPack.Oab
